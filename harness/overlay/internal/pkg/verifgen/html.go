package verifgen

// Generated HTML documents with references planted by construction (property C07; reusable from any
// package: the in-package facets of internal/pkg/postprocessor and the simulated-network pipeline).
//
// A document is plain data (HTMLDoc: a small element tree + the list of planted references). Render() gives the
// bytes a server would send. Every planted reference is a well-formed reference (WFRef, see url.go) that carries a
// unique token ("zt<N>") as the last path segment or as the last query parameter, so the URL a browser would fetch
// for it is known without parsing the document: HTMLExpect(pageURL, planted.Ref).
//
// What is generated
//   element x attribute   img src | img srcset (1..3 candidates, x / w descriptors) | script src |
//                         link href (rel stylesheet, icon, "shortcut icon", preload, modulepreload, manifest,
//                         canonical, alternate, apple-touch-icon) | source src inside video/audio | source srcset
//                         inside picture | video src | audio src | <style> url() | style="" url() | a href
//   quoting               attributes: double, single, unquoted (only when the value has none of the characters
//                         HTML forbids in unquoted values: whitespace " ' = < > `) ; url(): bare, single, double
//   reference form        absolute, scheme-relative, path-absolute, path-relative (with . and .. segments),
//                         query-only (WFRefGen), with or without a fragment
//   shape                 head/body placement, nesting depth 0..4 in div/section/article/ul-li/table/blockquote,
//                         upper-case tag and attribute names, extra attributes before/after the planted one, attribute
//                         separators (space, newline), "/>" on void elements, '&' written raw or as "&amp;"
//   decoys                URL-looking strings in comments, text nodes, unrelated attributes (data-x, title, alt,
//                         poster), inline scripts and CSS comments. Decoys are never *required*; they exist to show that
//                         the planted references are still found in their presence.
//
// Exclusions (never generated), with the reason:
//   * <base>                                  the property is stated for documents without a base element.
//   * backslashes, embedded or control whitespace inside a URL, non-ASCII characters, "%" not followed by two hex
//     digits, empty path segments ("//" inside a path), userinfo, default ports, upper-case hosts
//                                              RFC 3986 and the WHATWG URL standard disagree (or canonical forms differ);
//                                              the resolution oracle is only valid where they agree (same narrowing as
//                                              verifgen.WFAbsGen / WFRefGen, which is the only source of references).
//   * commas inside a srcset URL, and srcset candidates separated by a bare "," without white space when the
//     preceding candidate has no descriptor    the srcset grammar makes "a.png,b.png" ONE url with a comma in it;
//                                              a leading/trailing comma belongs to the separator, not the URL.
//   * character references other than "&amp;" for "&" in attribute values (no &#x2f;, &quot;, &lt; …), and query
//     keys that begin with the name of a legacy named reference (amp, lt, gt, copy, reg, not, para, …)
//                                              "&copy=1" is decoded by HTML parsers in text but not in attributes
//                                              followed by "=", parsers differ in corner cases; the key alphabet of
//                                              WFQueryGen and the token key "zt" cannot start such a name.
//   * the same quote character for the attribute and for the url() inside a style attribute
//                                              would need &quot;/&#39; (character references, see above).
//   * quotes, parentheses, white space or backslash escapes inside url(...)
//                                              CSS escaping rules; none of these characters is in the reference alphabet.
//   * "@import 'x.css'" (string form without url())   the statement speaks of url(...).
//   * rel values with several tokens containing "alternate" ("alternate stylesheet")
//                                              whether that is "rel=alternate" in the statement's sense is ambiguous.
//   * the empty reference and fragment-only references as *planted* references
//                                              they resolve to the page itself, which is "already seen" (the stage
//                                              drops an asset equal to the page URL); fragment-only anchors appear as decoys.
//   * <a> nested in <a>, block content inside <p>, mis-nested tables, unclosed elements, <template>, <noscript>
//                                              tree construction re-parents such content (foster parenting, implied
//                                              end tags) or makes it inert; where a browser would fetch it from is not
//                                              a matter of URL resolution.
//   * unquoted attribute values that contain "=" (a query with key=value)  a parse error in HTML ("where HTML allows"):
//                                              for an unquoted attribute the reference is generated with value-less keys.
//
// Separate optional classes (HTMLOpts), so that a finding there stays isolated from the main facets:
//   * Pad       attribute values / url() arguments padded with leading and trailing ASCII white space (space, tab,
//               LF, CR LF). Browsers strip it (URL parser; CSS url() grammar). Candidate defect 18.
//   * SrcsetWS  tab or newline (instead of a space) between a srcset URL and its descriptor.

import (
	"fmt"
	"sort"
	"strings"

	"github.com/internetarchive/Zeno/internal/pkg/verifref"
	"pgregory.net/rapid"
)

// HTMLAttr is one attribute as written in the file.
type HTMLAttr struct {
	Name  string `json:"n"`
	Value string `json:"v,omitempty"` // text between the quotes exactly as written (already "&amp;"-escaped where chosen)
	Quote string `json:"q"`           // `"` | `'` | "" (unquoted) | "-" (no value: boolean attribute)
}

// HTMLNode is an element ("img", "div", …), a text node (Tag "#text") or a comment (Tag "#comment").
// For style and script elements Text is the raw content.
type HTMLNode struct {
	Tag   string     `json:"tag"`
	Attrs []HTMLAttr `json:"attrs,omitempty"`
	Sep   string     `json:"sep,omitempty"`   // separator between attributes (default " ")
	Close string     `json:"close,omitempty"` // "/" = write " />" on a void element
	Text  string     `json:"text,omitempty"`
	Kids  []HTMLNode `json:"kids,omitempty"`
}

// HTMLPlanted describes one planted reference.
type HTMLPlanted struct {
	Token  string `json:"token"`
	Kind   string `json:"kind"`             // "asset" | "outlink"
	Elem   string `json:"elem"`             // img | script | link | source | video | audio | style | [style] | a
	Attr   string `json:"attr"`             // src | srcset | href | url()
	Tag    string `json:"tag"`              // the name --disable-html-tag uses for it ("" = cannot be disabled: style attributes)
	Quote  string `json:"quote"`            // dq | sq | unq  (attributes) ; css-bare | css-sq | css-dq (<style>) ; dq+css-bare … ([style])
	Rel    string `json:"rel,omitempty"`    // link only
	Within string `json:"within,omitempty"` // source: picture | video | audio ; [style]: the element carrying the attribute
	Place  string `json:"place"`            // head | body
	Depth  int    `json:"depth"`            // number of wrapper elements around it inside head/body
	TokIn  string `json:"tokin"`            // path | query
	Amp    string `json:"amp,omitempty"`    // "raw" | "escaped" when the reference contains '&' inside an attribute
	Pad    string `json:"pad,omitempty"`    // lead + "|" + trail padding (class Pad) or "srcset-ws"
	Ref    WFRef  `json:"ref"`
	Text   string `json:"text"` // Ref.Text(): the reference as a browser sees it after HTML/CSS unescaping
}

// ElemAttr is the element/attribute label used in combination accounting.
func (p HTMLPlanted) ElemAttr() string { return p.Elem + "/" + p.Attr }

// Combo is the (element, quoting, reference form) combination of the non-triviality rule.
func (p HTMLPlanted) Combo() string { return p.ElemAttr() + "|" + p.Quote + "|" + p.Ref.Kind }

// Required reports whether the statement obliges the crawler to request this reference under the given settings
// (scope, seencheck and depth are the caller's business). hopsAllow = page hops < max-hops.
func (p HTMLPlanted) Required(disabledTags []string, captureAlternate, disableAssets, hopsAllow bool) bool {
	for _, d := range disabledTags {
		if p.Tag != "" && d == p.Tag {
			return false
		}
	}
	if p.Kind == "outlink" {
		return hopsAllow
	}
	if disableAssets {
		return false
	}
	if p.Elem == "link" && p.Rel == "alternate" && !captureAlternate {
		return false
	}
	return true
}

// HTMLDoc is one generated document.
type HTMLDoc struct {
	Head    []HTMLNode    `json:"head,omitempty"`
	Body    []HTMLNode    `json:"body,omitempty"`
	Planted []HTMLPlanted `json:"planted"`
}

// HTMLOpts selects the optional generator classes.
type HTMLOpts struct {
	Pad      bool // pad every planted attribute value / url() argument with ASCII white space
	SrcsetWS bool // tab / newline between srcset URL and descriptor
	MaxItems int  // upper bound of planted items (default 8)
	Anchors  bool // mostly <a href> constructs in the body (outlink facets)
}

var htmlVoid = map[string]bool{"img": true, "link": true, "source": true, "meta": true, "br": true, "hr": true, "input": true}
var htmlRaw = map[string]bool{"style": true, "script": true}

// Render returns the document text. It starts with a doctype so that content sniffing sees HTML.
func (d HTMLDoc) Render() string {
	var sb strings.Builder
	sb.WriteString("<!DOCTYPE html>\n<html>\n<head>\n<meta charset=\"utf-8\">\n<title>generated</title>\n")
	for _, n := range d.Head {
		n.render(&sb)
		sb.WriteByte('\n')
	}
	sb.WriteString("</head>\n<body>\n")
	for _, n := range d.Body {
		n.render(&sb)
		sb.WriteByte('\n')
	}
	sb.WriteString("</body>\n</html>\n")
	return sb.String()
}

func (n HTMLNode) render(sb *strings.Builder) {
	switch n.Tag {
	case "#text":
		sb.WriteString(n.Text)
		return
	case "#comment":
		sb.WriteString("<!--" + n.Text + "-->")
		return
	}
	sep := n.Sep
	if sep == "" {
		sep = " "
	}
	sb.WriteString("<" + n.Tag)
	for _, a := range n.Attrs {
		sb.WriteString(sep)
		switch a.Quote {
		case "-":
			sb.WriteString(a.Name)
		case "":
			sb.WriteString(a.Name + "=" + a.Value)
		default:
			sb.WriteString(a.Name + "=" + a.Quote + a.Value + a.Quote)
		}
	}
	low := strings.ToLower(n.Tag)
	if htmlVoid[low] {
		if n.Close == "/" {
			// the space is mandatory after an unquoted value ("src=a/>" would make the slash part of the value)
			sb.WriteString(" /")
		}
		sb.WriteString(">")
		return
	}
	sb.WriteString(">")
	if htmlRaw[low] {
		sb.WriteString(n.Text)
	} else {
		for _, k := range n.Kids {
			k.render(sb)
		}
	}
	sb.WriteString("</" + n.Tag + ">")
}

// HTMLExpect is the resolution oracle for a planted reference: RFC 3986 §5.2 applied to the components of the
// reference against the (already canonical) page URL. ok=false when pageURL is not absolute.
func HTMLExpect(pageURL string, r WFRef) (verifref.URLParts, bool) {
	base, ok := verifref.SplitURL(pageURL)
	if !ok {
		return verifref.URLParts{}, false
	}
	var t verifref.URLParts
	switch r.Kind {
	case "abs":
		a, _ := verifref.SplitURL(r.Abs.Text())
		t = verifref.Resolve(base, a.Scheme, a.Authority, true, a.Path, a.Query, a.HasQuery)
	case "scheme-rel":
		a, _ := verifref.SplitURL(r.Abs.Text())
		t = verifref.Resolve(base, "", a.Authority, true, a.Path, a.Query, a.HasQuery)
	case "path-abs", "path-rel":
		p := strings.Join(r.Segs, "/")
		if r.Slash {
			p += "/"
		}
		if r.Kind == "path-abs" {
			p = "/" + p
		}
		t = verifref.Resolve(base, "", "", false, p, QueryText(r.Query), r.HasQ)
	case "query-only":
		t = verifref.Resolve(base, "", "", false, "", QueryText(r.Query), true)
	default:
		t = verifref.Resolve(base, "", "", false, "", "", false)
	}
	return t, true
}

// ---------------------------------------------------------------------------------------------
// generator

type htmlGen struct {
	t       *rapid.T
	label   string
	o       HTMLOpts
	n       int // token counter
	nd      int // decoy counter
	planted []HTMLPlanted
}

func (g *htmlGen) pick(what string, xs []string) string { return pick(g.t, g.label+"."+what, xs) }
func (g *htmlGen) intn(what string, lo, hi int) int {
	return rapid.IntRange(lo, hi).Draw(g.t, g.label+"."+what)
}
func (g *htmlGen) chance(what string, oneIn int) bool { return g.intn(what, 0, oneIn-1) == 0 }

// ref draws a reference and plants the next token in it. allowEq=false ⇒ no '=' anywhere in the text
// (unquoted attribute values): keys become value-less and the token goes into the path where there is one.
func (g *htmlGen) ref(allowEq bool) (WFRef, string, string) {
	g.n++
	tok := fmt.Sprintf("zt%d", g.n)
	r := WFRefGen(g.t, g.label+".ref")
	if r.Kind == "frag-only" {
		// not planted (resolves to the page itself); use the draw for a query-only reference instead
		r = WFRef{Kind: "query-only", HasQ: true, Frag: r.Frag}
	}
	if !allowEq && strings.Contains(r.Frag, "=") {
		r.Frag = ""
	}
	strip := func(q []KV) []KV {
		if allowEq {
			return q
		}
		out := make([]KV, 0, len(q))
		for _, kv := range q {
			out = append(out, KV{K: kv.K})
		}
		return out
	}
	inQuery := g.chance("tokinquery", 3)
	ext := g.pick("ext", []string{".png", ".css", ".js", "", ".mp4", ".woff2", ".html"})
	tokKV := KV{K: "zt", V: tok, HasEq: true}
	if !allowEq {
		tokKV = KV{K: tok}
	}
	tokin := "path"
	switch r.Kind {
	case "abs", "scheme-rel":
		a := *r.Abs
		a.Segs = append([]string(nil), a.Segs...)
		a.Query = strip(a.Query)
		if inQuery {
			a.Query = append(append([]KV(nil), a.Query...), tokKV)
			tokin = "query"
		} else {
			a.Segs = append(a.Segs, tok+ext)
			a.Slash = false
		}
		r.Abs = &a
	case "path-abs", "path-rel":
		r.Query = strip(r.Query)
		if inQuery {
			r.HasQ = true
			r.Query = append(append([]KV(nil), r.Query...), tokKV)
			tokin = "query"
		} else {
			// the token is the last segment so that no ".." can remove it
			r.Segs = append(append([]string(nil), r.Segs...), tok+ext)
			r.Slash = r.Slash && g.chance("keepslash", 2)
		}
	case "query-only":
		r.Query = append(strip(r.Query), tokKV)
		tokin = "query"
	}
	return r, tok, tokin
}

var htmlPads = []string{" ", "\t", "\n", "  ", "\r\n", " \n "}

// pad draws (lead, trail) padding when the Pad class is on; at least one side is non-empty.
func (g *htmlGen) pad(css bool) (string, string, string) {
	if !g.o.Pad {
		return "", "", ""
	}
	pads := htmlPads
	if css {
		pads = []string{" ", "\t", "\n", "  "}
	}
	lead, trail := "", ""
	switch g.intn("padside", 0, 2) {
	case 0:
		lead = g.pick("padlead", pads)
	case 1:
		trail = g.pick("padtrail", pads)
	default:
		lead, trail = g.pick("padlead", pads), g.pick("padtrail", pads)
	}
	return lead, trail, lead + "|" + trail
}

// attrValue plants one reference as the value of a URL attribute; returns the attribute and fills p.
func (g *htmlGen) urlAttr(name string, p *HTMLPlanted) HTMLAttr {
	q := g.pick("quote", []string{`"`, `"`, `'`, ""})
	if g.o.Pad {
		q = g.pick("quote", []string{`"`, `'`}) // padding needs quotes
	}
	r, tok, tokin := g.ref(q != "")
	text := r.Text()
	val := text
	p.Token, p.Ref, p.Text, p.TokIn, p.Attr = tok, r, text, tokin, name
	if strings.Contains(text, "&") {
		p.Amp = "raw"
		if g.chance("ampesc", 3) {
			p.Amp = "escaped"
			val = strings.ReplaceAll(val, "&", "&amp;")
		}
	}
	lead, trail, padLabel := g.pad(false)
	val = lead + val + trail
	p.Pad = padLabel
	p.Quote = map[string]string{`"`: "dq", `'`: "sq", "": "unq"}[q]
	return HTMLAttr{Name: g.caseName(name), Value: val, Quote: q}
}

func (g *htmlGen) caseName(name string) string {
	if g.chance("upper", 8) {
		return strings.ToUpper(name)
	}
	return name
}

// srcsetAttr plants 1..3 candidates; one HTMLPlanted per candidate.
func (g *htmlGen) srcsetAttr(proto HTMLPlanted) (HTMLAttr, []HTMLPlanted) {
	n := g.intn("ncand", 1, 3)
	useW := g.chance("wdesc", 2)
	q := g.pick("quote", []string{`"`, `"`, `'`, ""})
	if g.o.Pad {
		q = g.pick("quote", []string{`"`, `'`})
	}
	var ps []HTMLPlanted
	var sb strings.Builder
	lead, trail, padLabel := g.pad(false)
	sb.WriteString(lead)
	prevDesc := true
	for i := 0; i < n; i++ {
		// a single candidate may go without descriptor; several need one each (at most one may be the implicit 1x)
		desc := ""
		if n > 1 || g.chance("desc1", 2) {
			if useW {
				desc = []string{"320w", "640w", "1280w"}[i]
			} else {
				desc = []string{"1x", "2x", "3x"}[i]
			}
			if n > 1 && i == 0 && !useW && g.chance("implicit1x", 3) {
				desc = ""
			}
		}
		unq := q == "" && n == 1 && desc == ""
		if q == "" && !unq {
			q = `"`
		}
		r, tok, tokin := g.ref(!unq)
		text := r.Text()
		val := text
		p := proto
		p.Token, p.Ref, p.Text, p.TokIn, p.Attr = tok, r, text, tokin, "srcset"
		if strings.Contains(text, "&") {
			p.Amp = "raw"
			if g.chance("ampesc", 3) {
				p.Amp = "escaped"
				val = strings.ReplaceAll(val, "&", "&amp;")
			}
		}
		if i > 0 {
			seps := []string{", ", ",  ", " , ", ",\n    "}
			if prevDesc {
				seps = append(seps, ",")
			}
			sb.WriteString(g.pick("candsep", seps))
		}
		sb.WriteString(val)
		if desc != "" {
			ws := g.pick("descsep", []string{" ", " ", "  "})
			if g.o.SrcsetWS {
				ws = g.pick("descsepws", []string{"\t", "\n", " \t", "\n  "})
				p.Pad = "srcset-ws"
			}
			sb.WriteString(ws + desc)
		}
		prevDesc = desc != ""
		if padLabel != "" {
			p.Pad = padLabel
		}
		ps = append(ps, p)
	}
	sb.WriteString(trail)
	ql := map[string]string{`"`: "dq", `'`: "sq", "": "unq"}[q]
	for i := range ps {
		ps[i].Quote = ql
	}
	return HTMLAttr{Name: g.caseName("srcset"), Value: sb.String(), Quote: q}, ps
}

// cssURL plants one reference as url(...) ; outer is the quote character of the surrounding attribute ("" = none).
func (g *htmlGen) cssURL(p *HTMLPlanted, outer string, inAttr bool, noSpace bool) string {
	opts := []string{"", "'", `"`}
	var allowed []string
	for _, o := range opts {
		if o != "" && o == outer {
			continue
		}
		if noSpace && o != "" {
			continue // unquoted attribute value: no quote characters at all
		}
		allowed = append(allowed, o)
	}
	cq := g.pick("cssquote", allowed)
	r, tok, tokin := g.ref(!noSpace)
	text := r.Text()
	val := text
	p.Token, p.Ref, p.Text, p.TokIn, p.Attr = tok, r, text, tokin, "url()"
	if inAttr && strings.Contains(text, "&") {
		p.Amp = "raw"
		if g.chance("ampesc", 3) {
			p.Amp = "escaped"
			val = strings.ReplaceAll(val, "&", "&amp;")
		}
	}
	lead, trail := "", ""
	if !noSpace {
		lead, trail, p.Pad = g.pad(true)
	}
	p.Quote = map[string]string{"": "css-bare", "'": "css-sq", `"`: "css-dq"}[cq]
	fn := "url"
	return fn + "(" + lead + cq + val + cq + trail + ")"
}

func (g *htmlGen) decoyURL() string {
	g.nd++
	return g.pick("decoyurl", []string{
		"http://decoy.example.com/d%d.png", "https://decoy.example.org/a/d%d.js", "//decoy.example.net/d%d.css",
		"/decoy/d%d.gif", "decoy/img/d%d.jpg", "../decoy/d%d.woff", "?decoy=d%d",
	})
}

func (g *htmlGen) decoy() string { return fmt.Sprintf(g.decoyURL(), g.nd) }

// decoyAttrs draws 0..2 unrelated attributes (some with URL-looking values).
func (g *htmlGen) decoyAttrs(tag string) []HTMLAttr {
	var out []HTMLAttr
	n := g.intn("ndecoyattr", 0, 2)
	for i := 0; i < n; i++ {
		switch g.intn("decoyattr", 0, 6) {
		case 0:
			out = append(out, HTMLAttr{Name: "class", Value: "c" + fmt.Sprint(g.intn("cls", 1, 9)) + " wide", Quote: `"`})
		case 1:
			out = append(out, HTMLAttr{Name: "data-x", Value: g.decoy(), Quote: g.pick("dq", []string{`"`, `'`})})
		case 2:
			out = append(out, HTMLAttr{Name: "title", Value: "see " + g.decoy() + " > here", Quote: `"`})
		case 3:
			if tag == "img" {
				out = append(out, HTMLAttr{Name: "alt", Value: "src=" + g.decoy(), Quote: `"`})
			} else {
				out = append(out, HTMLAttr{Name: "id", Value: fmt.Sprintf("n%d", g.nd), Quote: ""})
			}
		case 4:
			out = append(out, HTMLAttr{Name: "hidden", Quote: "-"})
		case 5:
			out = append(out, HTMLAttr{Name: "data-url-template", Value: "url(" + g.decoy() + ")", Quote: `'`})
		default:
			out = append(out, HTMLAttr{Name: "lang", Value: "en", Quote: ""})
		}
	}
	return out
}

// element assembles an element: decoy attributes are placed before and after the real ones, never twice the same name.
func (g *htmlGen) element(tag string, real []HTMLAttr, kids []HTMLNode) HTMLNode {
	n := HTMLNode{Tag: tag}
	if g.chance("uppertag", 8) {
		n.Tag = strings.ToUpper(tag)
	}
	dec := g.decoyAttrs(tag)
	seen := map[string]bool{}
	for _, a := range real {
		seen[strings.ToLower(a.Name)] = true
	}
	var before, after []HTMLAttr
	for _, a := range dec {
		if seen[a.Name] {
			continue
		}
		seen[a.Name] = true
		if g.chance("decoybefore", 2) {
			before = append(before, a)
		} else {
			after = append(after, a)
		}
	}
	n.Attrs = append(append(before, real...), after...)
	n.Sep = g.pick("attrsep", []string{" ", " ", " ", "\n    ", "  "})
	if htmlVoid[tag] && g.chance("selfclose", 3) {
		n.Close = "/"
	}
	n.Kids = kids
	return n
}

func htmlText(s string) HTMLNode { return HTMLNode{Tag: "#text", Text: s} }

func (g *htmlGen) decoyNode() HTMLNode {
	switch g.intn("decoykind", 0, 5) {
	case 0:
		return HTMLNode{Tag: "#comment", Text: ` <img src="` + g.decoy() + `"> <a href='` + g.decoy() + `'>old</a> url(` + g.decoy() + `) `}
	case 1:
		return HTMLNode{Tag: "p", Kids: []HTMLNode{htmlText("Write to " + g.decoy() + " or use src=&quot;" + g.decoy() + "&quot; &lt;img src=" + g.decoy() + "&gt; &amp; more")}}
	case 2:
		return HTMLNode{Tag: "span", Attrs: []HTMLAttr{{Name: "data-x", Value: g.decoy(), Quote: `"`}, {Name: "title", Value: g.decoy(), Quote: `'`}}, Kids: []HTMLNode{htmlText("text")}}
	case 3:
		return HTMLNode{Tag: "script", Text: "var s = '<img src=\\'" + g.decoy() + "\\'>'; if (1 < 2) { s = \"" + g.decoy() + "\"; }"}
	case 4:
		return HTMLNode{Tag: "a", Attrs: []HTMLAttr{{Name: "href", Value: "#top", Quote: `"`}}, Kids: []HTMLNode{htmlText("top")}}
	default:
		return HTMLNode{Tag: "pre", Kids: []HTMLNode{htmlText("&lt;link rel=stylesheet href=" + g.decoy() + "&gt;\n  background: url(" + g.decoy() + ")")}}
	}
}

var htmlLinkRels = []string{"stylesheet", "stylesheet", "icon", "shortcut icon", "preload", "modulepreload", "manifest", "canonical", "alternate", "apple-touch-icon"}

// item generates one planted construct; head=true restricts to metadata content.
func (g *htmlGen) item(head bool) (HTMLNode, []HTMLPlanted) {
	kinds := []string{"img", "img-srcset", "img-both", "a", "a", "a-img", "picture", "video-src", "video-source", "audio-src", "audio-source",
		"script", "link", "style", "style-attr", "style-attr"}
	if g.o.Anchors {
		kinds = []string{"a", "a", "a", "a", "a", "a-img", "a-img", "img", "style-attr", "script"}
	}
	if head {
		kinds = []string{"link", "link", "script", "style"}
	}
	kind := g.pick("item", kinds)
	var ps []HTMLPlanted
	asset := func(elem, tag string) HTMLPlanted { return HTMLPlanted{Kind: "asset", Elem: elem, Tag: tag} }
	switch kind {
	case "img":
		p := asset("img", "img")
		a := g.urlAttr("src", &p)
		return g.element("img", []HTMLAttr{a}, nil), []HTMLPlanted{p}
	case "img-srcset":
		a, cps := g.srcsetAttr(asset("img", "img"))
		return g.element("img", []HTMLAttr{a, {Name: "sizes", Value: "(max-width: 600px) 480px, 800px", Quote: `"`}}, nil), cps
	case "img-both":
		p := asset("img", "img")
		a1 := g.urlAttr("src", &p)
		a2, cps := g.srcsetAttr(asset("img", "img"))
		attrs := []HTMLAttr{a1, a2}
		if g.chance("swap", 2) {
			attrs = []HTMLAttr{a2, a1}
		}
		return g.element("img", attrs, nil), append([]HTMLPlanted{p}, cps...)
	case "a":
		p := HTMLPlanted{Kind: "outlink", Elem: "a", Tag: "a"}
		a := g.urlAttr("href", &p)
		return g.element("a", []HTMLAttr{a}, []HTMLNode{htmlText(g.pick("atext", []string{"link", "read more", "see " + g.decoy(), ""}))}), []HTMLPlanted{p}
	case "a-img":
		p := HTMLPlanted{Kind: "outlink", Elem: "a", Tag: "a"}
		a := g.urlAttr("href", &p)
		pi := asset("img", "img")
		ai := g.urlAttr("src", &pi)
		return g.element("a", []HTMLAttr{a}, []HTMLNode{g.element("img", []HTMLAttr{ai}, nil)}), []HTMLPlanted{p, pi}
	case "picture":
		var kids []HTMLNode
		ns := g.intn("nsource", 1, 2)
		for i := 0; i < ns; i++ {
			proto := asset("source", "source")
			proto.Within = "picture"
			a, cps := g.srcsetAttr(proto)
			extra := HTMLAttr{Name: "media", Value: "(min-width: 600px)", Quote: `"`}
			if i == 1 {
				extra = HTMLAttr{Name: "type", Value: "image/webp", Quote: `"`}
			}
			kids = append(kids, g.element("source", []HTMLAttr{a, extra}, nil))
			ps = append(ps, cps...)
		}
		p := asset("img", "img")
		ai := g.urlAttr("src", &p)
		kids = append(kids, g.element("img", []HTMLAttr{ai}, nil))
		ps = append(ps, p)
		return HTMLNode{Tag: "picture", Kids: kids}, ps
	case "video-src", "audio-src":
		el := strings.TrimSuffix(kind, "-src")
		p := asset(el, el)
		a := g.urlAttr("src", &p)
		attrs := []HTMLAttr{a, {Name: "controls", Quote: "-"}}
		if el == "video" && g.chance("poster", 2) {
			// poster is not in the statement's list: a decoy, never required
			attrs = append(attrs, HTMLAttr{Name: "poster", Value: g.decoy(), Quote: `"`})
		}
		return g.element(el, attrs, []HTMLNode{htmlText("no " + el + " support, see " + g.decoy())}), []HTMLPlanted{p}
	case "video-source", "audio-source":
		el := strings.TrimSuffix(kind, "-source")
		var kids []HTMLNode
		ns := g.intn("nsource", 1, 2)
		for i := 0; i < ns; i++ {
			p := asset("source", "source")
			p.Within = el
			a := g.urlAttr("src", &p)
			kids = append(kids, g.element("source", []HTMLAttr{a, {Name: "type", Value: el + "/" + []string{"mp4", "ogg"}[i], Quote: `"`}}, nil))
			ps = append(ps, p)
		}
		kids = append(kids, htmlText("fallback"))
		return HTMLNode{Tag: el, Attrs: []HTMLAttr{{Name: "controls", Quote: "-"}}, Kids: kids}, ps
	case "script":
		p := asset("script", "script")
		a := g.urlAttr("src", &p)
		attrs := []HTMLAttr{a}
		switch g.intn("scriptattr", 0, 3) {
		case 0:
			attrs = append(attrs, HTMLAttr{Name: "async", Quote: "-"})
		case 1:
			attrs = append([]HTMLAttr{{Name: "type", Value: "text/javascript", Quote: `"`}}, attrs...)
		case 2:
			attrs = append(attrs, HTMLAttr{Name: "defer", Quote: "-"}, HTMLAttr{Name: "type", Value: "module", Quote: `"`})
		}
		return g.element("script", attrs, nil), []HTMLPlanted{p}
	case "link":
		p := asset("link", "link")
		p.Rel = g.pick("rel", htmlLinkRels)
		a := g.urlAttr("href", &p)
		relq := `"`
		if !strings.Contains(p.Rel, " ") {
			relq = g.pick("relquote", []string{`"`, `'`, ""})
		}
		attrs := []HTMLAttr{{Name: "rel", Value: p.Rel, Quote: relq}, a}
		if g.chance("swap", 3) {
			attrs = []HTMLAttr{a, attrs[0]}
		}
		switch p.Rel {
		case "preload":
			attrs = append(attrs, HTMLAttr{Name: "as", Value: g.pick("as", []string{"image", "font", "style", "script"}), Quote: `"`})
		case "alternate":
			attrs = append(attrs, HTMLAttr{Name: "type", Value: "application/rss+xml", Quote: `"`})
		case "icon":
			attrs = append(attrs, HTMLAttr{Name: "sizes", Value: "32x32", Quote: `"`})
		}
		return g.element("link", attrs, nil), []HTMLPlanted{p}
	case "style":
		n := g.intn("nrules", 1, 3)
		var sb strings.Builder
		sb.WriteString("\n")
		for i := 0; i < n; i++ {
			p := asset("style", "style")
			u := g.cssURL(&p, "", false, false)
			tmpl := g.pick("rule", []string{
				"body { background: #fff %s no-repeat; }",
				".c1{background-image:%s}",
				"@font-face { font-family: \"F1\"; src: %s format(\"woff2\"); }",
				"@import %s;",
				"ul li { list-style-image: %s; margin: 0 }",
				".x::after { content: %s; color: rgb(1, 2, 3) }",
				"/* old: url(" + g.decoy() + ") */ .y { cursor: %s, auto; }",
				"@media (min-width: 600px) {\n  .hero {\n    background: %s center / cover;\n  }\n}",
			})
			sb.WriteString(fmt.Sprintf(tmpl, u) + "\n")
			ps = append(ps, p)
		}
		node := HTMLNode{Tag: "style", Text: sb.String()}
		if g.chance("styletype", 3) {
			node.Attrs = []HTMLAttr{{Name: "type", Value: "text/css", Quote: `"`}}
		}
		return node, ps
	default: // style-attr
		host := g.pick("stylehost", []string{"div", "span", "section", "p", "li-in-ul", "td-in-table", "a-nohref"})
		p := asset("[style]", "")
		p.Within = host
		outer := g.pick("quote", []string{`"`, `"`, `'`, ""})
		var val string
		if outer == "" {
			u := g.cssURL(&p, "", true, true)
			val = g.pick("sdecl0", []string{"background:%s", "background-image:%s;color:red", "list-style-image:%s", "background:%s;color:rgb(1,2,3)", "background-image:%s;transform:rotate(3deg)"})
			val = fmt.Sprintf(val, u)
		} else {
			u := g.cssURL(&p, outer, true, false)
			val = g.pick("sdecl", []string{
				"background: %s", "background-image: %s; color: red", "color: rgb(1, 2, 3); background:%s no-repeat",
				"width: calc(100px - 2px); background-image:%s;", "list-style: square %s", "background: %s center / cover no-repeat; height: 50vh",
				// other parenthesised values AFTER the url(): the reference ends at its own closing parenthesis
				"background: %s; color: rgb(10, 20, 30)", "background-image: %s; transform: rotate(3deg) scale(1.5)", "background: %s, linear-gradient(red, blue)",
			})
			val = fmt.Sprintf(val, u)
		}
		p.Quote = map[string]string{`"`: "dq", `'`: "sq", "": "unq"}[outer] + "+" + p.Quote
		sa := HTMLAttr{Name: g.caseName("style"), Value: val, Quote: outer}
		txt := []HTMLNode{htmlText("styled")}
		switch host {
		case "li-in-ul":
			return HTMLNode{Tag: "ul", Kids: []HTMLNode{g.element("li", []HTMLAttr{sa}, txt)}}, []HTMLPlanted{p}
		case "td-in-table":
			return HTMLNode{Tag: "table", Kids: []HTMLNode{{Tag: "tbody", Kids: []HTMLNode{{Tag: "tr", Kids: []HTMLNode{g.element("td", []HTMLAttr{sa}, txt)}}}}}}, []HTMLPlanted{p}
		case "a-nohref":
			return g.element("a", []HTMLAttr{sa, {Name: "name", Value: "anchor", Quote: `"`}}, txt), []HTMLPlanted{p}
		default:
			return g.element(host, []HTMLAttr{sa}, txt), []HTMLPlanted{p}
		}
	}
}

// wrap nests a body node in depth container elements.
func (g *htmlGen) wrap(n HTMLNode, depth int) HTMLNode {
	for i := 0; i < depth; i++ {
		w := g.pick("wrapper", []string{"div", "div", "section", "article", "ul", "table", "blockquote", "main"})
		var extra []HTMLNode
		if g.chance("sibling", 3) {
			extra = append(extra, g.decoyNode())
		}
		kids := append(extra, n)
		switch w {
		case "ul":
			n = HTMLNode{Tag: "ul", Kids: []HTMLNode{{Tag: "li", Kids: kids}}}
		case "table":
			n = HTMLNode{Tag: "table", Kids: []HTMLNode{{Tag: "tbody", Kids: []HTMLNode{{Tag: "tr", Kids: []HTMLNode{{Tag: "td", Kids: kids}}}}}}}
		default:
			n = HTMLNode{Tag: w, Attrs: g.decoyAttrs(w), Kids: kids}
		}
	}
	return n
}

// HTMLDocGen draws a document: 0..3 planted constructs in head, 1..MaxItems in body, decoys in between.
func HTMLDocGen(t *rapid.T, label string, o HTMLOpts) HTMLDoc {
	if o.MaxItems <= 0 {
		o.MaxItems = 8
	}
	g := &htmlGen{t: t, label: label, o: o}
	var d HTMLDoc
	nh := g.intn("nhead", 0, 3)
	for i := 0; i < nh; i++ {
		n, ps := g.item(true)
		for j := range ps {
			ps[j].Place = "head"
		}
		d.Head = append(d.Head, n)
		d.Planted = append(d.Planted, ps...)
	}
	nb := g.intn("nbody", 1, o.MaxItems)
	for i := 0; i < nb; i++ {
		if g.chance("decoy", 3) {
			d.Body = append(d.Body, g.decoyNode())
		}
		n, ps := g.item(false)
		depth := g.intn("depth", 0, 4)
		for j := range ps {
			ps[j].Place, ps[j].Depth = "body", depth
		}
		d.Body = append(d.Body, g.wrap(n, depth))
		d.Planted = append(d.Planted, ps...)
	}
	if g.chance("taildecoy", 3) {
		d.Body = append(d.Body, g.decoyNode())
	}
	return d
}

// Combos returns the sorted set of distinct (element/attribute, quoting, reference form) combinations.
func (d HTMLDoc) Combos() []string {
	set := map[string]bool{}
	for _, p := range d.Planted {
		set[p.Combo()] = true
	}
	out := make([]string, 0, len(set))
	for c := range set {
		out = append(out, c)
	}
	sort.Strings(out)
	return out
}
