package verifgen

// Structured-document generators for C19: JSON, XML/RSS/Atom/sitemap, M3U8 and S3 bucket models.
//
// Every document is a plain-data model (JSON-serialisable, produced before execution) that is rendered to
// bytes by a deterministic Render method. URLs are PLANTED BY CONSTRUCTION: each planted URL carries a unique
// token ("k<idx>q"), so the expected set is known without parsing the rendered document.
//
// All identifiers of this file start with Doc/doc, JSON/XML/M3U/S3 to stay clear of the other generator files.

import (
	"fmt"
	"sort"
	"strconv"
	"strings"

	"pgregory.net/rapid"
)

// ---------------------------------------------------------------------------------------------
// Planted URLs

// DocURL is one planted absolute http(s) URL.
type DocURL struct {
	Text  string `json:"text"`  // exact URL text (what a compliant JSON/XML parser hands back)
	Ext   bool   `json:"ext"`   // last path segment has a file extension
	Shape string `json:"shape"` // ext | noext | dirslash | root | rootslash (+q-slash, +emptyseg)
	Where string `json:"where"` // the construct that carries it (attr, text, cdata, value, embed, segment, …)
}

// DocURLOpt narrows the URL grammar for the carrying construct.
type DocURLOpt struct {
	// Prose: the URL sits in running text and is delimited by whitespace or quotes only; where a URL ends in
	// running text is inherently heuristic, so these URLs use [A-Za-z0-9._~/%-] in the path, [A-Za-z0-9=&._%+-]
	// in the query, have no fragment and end in an alphanumeric character.
	Prose bool
	// RFCQuery: allow '/' and '?' inside the query and an empty path segment ("//") - valid per RFC 3986 §3.3/§3.4.
	RFCQuery bool
	// Root: allow URLs without a path ("https://host") or with the bare root path ("https://host/").
	Root bool
}

var docHosts = []string{"example.com", "www.example.org", "cdn.site.net", "media.example.com", "files.example.co.uk", "a.b"}
var docDirs = []string{"a", "img", "v1.2", "data.d", "files", "x_y", "a-b", "%7Eu", "2024"}
var docDirsFree = []string{"p;v=1", "a,b", "(x)", "a:b", "a@b"}
var docNames = []string{"index", "photo", "feed", "main", "seg", "doc", "file", "page", "A", "n0"}
var docExts = []string{"png", "jpg", "css", "js", "json", "xml", "m3u8", "tar.gz", "PDF", "mp4", "ts", "x"}

// Narrowings of the planted-URL grammar (reasons):
//   - ASCII only, lower-case scheme: RFC 3986 URLs; IRIs and "HTTP://" spellings are not generated (fasturl is
//     ASCII-only and extractor.XML tests the literal prefix "http"; the statement speaks of absolute http(s) URLs).
//   - no last segment of the form ".name" or "name.": whether those "have a file extension" is not defined by the
//     statement (Zeno's own unit tests say ".htaccess" yes, "name." no).
//   - no userinfo.
func genDocURL(t *rapid.T, label string, tok string, where string, opt DocURLOpt) DocURL {
	u := DocURL{Where: where}
	scheme := pick(t, label+".scheme", []string{"http", "https", "https"})
	host := pick(t, label+".host", docHosts)
	port := pick(t, label+".port", []string{"", "", "", ":8080"})
	shapes := []string{"ext", "ext", "ext", "noext", "noext", "noext", "dirslash"}
	if opt.Root {
		shapes = append(shapes, "root", "rootslash")
	}
	u.Shape = pick(t, label+".shape", shapes)
	var sb strings.Builder
	sb.WriteString(scheme + "://")
	if u.Shape == "root" || u.Shape == "rootslash" {
		sb.WriteString(tok + "." + host + port)
		if u.Shape == "rootslash" {
			sb.WriteString("/")
		}
	} else {
		sb.WriteString(host + port)
		nd := rapid.IntRange(0, 3).Draw(t, label+".ndir")
		for i := 0; i < nd; i++ {
			dirs := docDirs
			if !opt.Prose && rapid.IntRange(0, 5).Draw(t, label+".freedir") == 5 {
				dirs = docDirsFree
			}
			sb.WriteString("/" + pick(t, label+".dir", dirs))
		}
		if opt.RFCQuery && rapid.IntRange(0, 5).Draw(t, label+".emptyseg") == 5 {
			sb.WriteString("/")
			u.Shape += "+emptyseg"
		}
		name := pick(t, label+".name", docNames) + "-" + tok
		switch {
		case strings.HasPrefix(u.Shape, "ext"):
			sb.WriteString("/" + name + "." + pick(t, label+".ext", docExts))
			u.Ext = true
		case strings.HasPrefix(u.Shape, "noext"):
			sb.WriteString("/" + name)
		default:
			sb.WriteString("/" + name + "/")
		}
	}
	qs := []string{"", "", "", "?a=1", "?a=1&b=two", "?v=1.2", "?id=7&file=x.png", "?x=%20y&z=a+b"}
	if opt.RFCQuery {
		qs = append(qs, "?next=/p/q.png", "?u=https://o.example.org/x", "?q=a?b", "?next=/p/q.png", "?u=https://o.example.org/x.y/z")
	}
	q := pick(t, label+".query", qs)
	if strings.ContainsAny(strings.TrimPrefix(q, "?"), "/?") {
		u.Shape += "+q-slash"
	}
	sb.WriteString(q)
	if !opt.Prose {
		sb.WriteString(pick(t, label+".frag", []string{"", "", "", "#sec", "#a/b.c"}))
	}
	u.Text = sb.String()
	return u
}

// NoPath reports whether the URL has no path at all ("https://host", possibly with query or fragment).
func (u DocURL) NoPath() bool {
	return strings.HasPrefix(u.Shape, "root") && !strings.HasPrefix(u.Shape, "rootslash")
}

func docTok(n int) string { return "k" + strconv.Itoa(n) + "q" }

// DocURLClasses returns histogram labels for a planted set.
func DocURLClasses(ps []DocURL) []string {
	seen := map[string]bool{}
	var out []string
	for _, p := range ps {
		for _, c := range []string{"shape:" + p.Shape, "where:" + p.Where} {
			if !seen[c] {
				seen[c] = true
				out = append(out, c)
			}
		}
	}
	sort.Strings(out)
	return out
}

// ---------------------------------------------------------------------------------------------
// JSON

// JNode is one JSON value. K: obj | arr | url | str | lit | embed.
//   - url/str: S is the string content, Esc the escape style used when rendering
//   - lit: S is the literal text (number, true, false, null)
//   - embed: a string whose content is the rendering of Kids[0] (an object or array); Pretty selects the inner layout
type JNode struct {
	K      string   `json:"k"`
	Keys   []string `json:"keys,omitempty"`
	Kids   []JNode  `json:"kids,omitempty"`
	S      string   `json:"s,omitempty"`
	Esc    int      `json:"esc,omitempty"`
	Pretty int      `json:"pretty,omitempty"`
}

// JSONDoc is a generated JSON document.
type JSONDoc struct {
	Root    JNode    `json:"root"`
	Pretty  int      `json:"pretty"` // 0 compact, 1 two-space indent, 2 tab indent, 3 one line with spaces
	TailNL  bool     `json:"tailnl"`
	Planted []DocURL `json:"planted"`
	Depth   int      `json:"depth"`  // nesting depth (containers + embeddings) of the deepest planted URL
	Embeds  int      `json:"embeds"` // number of JSON-in-string values
}

var jsonKeys = []string{"id", "url", "href", "links", "data", "items", "next", "meta", "image", "src", "a", "b", "results", "payload", "https://decoy.example.com/a-key-is-not-a-value.png", "é", "with space", "q\"uote"}
var jsonDecoys = []string{"hello", "", "http", "https://", "/relative/path.png", "example.com/no-scheme.png", "mailto:someone@example.com",
	"{not json", "[1,2", "{}", "[]", "{\"n\":1}", "text with https://inline.example.com/decoy inside", "héllo ☃ 😀", "line1\nline2\ttab", "a\\b", "<b>&amp;</b>", "ftp://files.example.com/pub/x.iso",
	// white space only (serialised DOM / rich-text trees are full of these), padded JSON-looking text
	"      ", "\n        ", "\t\t\t\t\t\t", "  [\"x\"]  ", " {\"k\":\"v\"}\n"}
var jsonLits = []string{"0", "-1", "3.14", "1e9", "12345678901234567890", "true", "false", "null"}

type jsonGenState struct {
	planted []DocURL
	nodes   int
	embeds  int
	depth   int
	opt     DocURLOpt
	long    bool // a long array has been generated (one per document)
}

// GenJSONDoc draws a JSON document. Narrowings (reasons):
//   - object keys are unique within an object (RFC 8259: behaviour with duplicate names is unpredictable);
//   - an embedded JSON text is an object or an array without leading/trailing white space (that is what
//     serialisers emit; a string holding a bare JSON string or padded text is not recognisably "JSON in a string");
//   - one JSON value per document, UTF-8 without BOM.
func GenJSONDoc(t *rapid.T, opt DocURLOpt) JSONDoc {
	st := &jsonGenState{opt: opt}
	var root JNode
	if rapid.IntRange(0, 299).Draw(t, "json.huge") == 299 {
		// a large listing (API page, file index): more than a thousand URLs in one document, as objects in an array
		n := rapid.IntRange(1001, 2600).Draw(t, "json.hugelen")
		root = JNode{K: "arr"}
		st.long = true
		for i := 0; i < n; i++ {
			u := genDocURL(t, "json.url", docTok(len(st.planted)), "value", st.opt)
			st.planted = append(st.planted, u)
			entry := JNode{K: "obj", Keys: []string{"id", "url"}, Kids: []JNode{{K: "lit", S: strconv.Itoa(i)}, {K: "url", S: u.Text}}}
			root.Kids = append(root.Kids, entry)
		}
		st.depth = 2
		return JSONDoc{Root: root, Pretty: rapid.IntRange(0, 1).Draw(t, "json.pretty"), Planted: st.planted, Depth: st.depth}
	}
	switch rapid.IntRange(0, 9).Draw(t, "json.top") {
	case 0:
		root = st.url(t, 0, "value")
	case 1, 2, 3:
		root = st.container(t, "arr", 1, false)
	default:
		root = st.container(t, "obj", 1, false)
	}
	if len(st.planted) == 0 {
		// every document carries at least one planted URL
		u := st.url(t, 1, "value")
		if root.K == "obj" {
			root.Keys = append(root.Keys, "planted")
			root.Kids = append(root.Kids, u)
		} else if root.K == "arr" {
			root.Kids = append(root.Kids, u)
		}
	}
	return JSONDoc{Root: root, Pretty: rapid.IntRange(0, 3).Draw(t, "json.pretty"), TailNL: rapid.Bool().Draw(t, "json.tailnl"),
		Planted: st.planted, Depth: st.depth, Embeds: st.embeds}
}

func (st *jsonGenState) url(t *rapid.T, depth int, where string) JNode {
	u := genDocURL(t, "json.url", docTok(len(st.planted)), where, st.opt)
	st.planted = append(st.planted, u)
	if depth > st.depth {
		st.depth = depth
	}
	return JNode{K: "url", S: u.Text, Esc: rapid.IntRange(0, 5).Draw(t, "json.esc")}
}

func (st *jsonGenState) container(t *rapid.T, kind string, depth int, inEmbed bool) JNode {
	n := JNode{K: kind}
	max := 5
	if depth > 4 {
		max = 2
	}
	cnt := rapid.IntRange(0, max).Draw(t, "json.n")
	used := map[string]bool{}
	for i := 0; i < cnt && st.nodes < 70; i++ {
		st.nodes++
		if kind == "obj" {
			k := pick(t, "json.key", jsonKeys)
			for used[k] {
				k += strconv.Itoa(i)
			}
			used[k] = true
			n.Keys = append(n.Keys, k)
		}
		where := "value"
		if inEmbed {
			where = "embed"
		}
		var kid JNode
		switch c := rapid.IntRange(0, 13).Draw(t, "json.kind"); {
		case c <= 3:
			kid = st.url(t, depth, where)
		case c <= 5:
			kid = JNode{K: "str", S: pick(t, "json.decoy", jsonDecoys), Esc: rapid.IntRange(0, 5).Draw(t, "json.esc")}
		case c == 6:
			kid = JNode{K: "lit", S: pick(t, "json.lit", jsonLits)}
		case c <= 9 && depth < 8:
			kid = st.container(t, "obj", depth+1, inEmbed)
		case c <= 11 && depth < 8:
			kid = st.container(t, "arr", depth+1, inEmbed)
		case c == 12 && depth < 6:
			inner := st.container(t, pick(t, "json.embedkind", []string{"obj", "arr"}), depth+1, true)
			if len(inner.Kids) == 0 {
				// make sure the embedded text is worth looking at
				u := st.url(t, depth+1, "embed")
				if inner.K == "obj" {
					inner.Keys = append(inner.Keys, "u")
				}
				inner.Kids = append(inner.Kids, u)
			}
			st.embeds++
			kid = JNode{K: "embed", Kids: []JNode{inner}, Esc: rapid.IntRange(0, 5).Draw(t, "json.esc"), Pretty: rapid.IntRange(0, 1).Draw(t, "json.embedpretty")}
		default:
			kid = JNode{K: "lit", S: pick(t, "json.lit", jsonLits)}
		}
		n.Kids = append(n.Kids, kid)
	}
	// long lists (search results, feeds): an array of 9-40 entries whose URLs sit far from the start
	if kind == "arr" && !st.long && depth <= 3 && rapid.IntRange(0, 7).Draw(t, "json.long") == 7 {
		st.long = true
		total := rapid.IntRange(9, 40).Draw(t, "json.longlen")
		where := "value"
		if inEmbed {
			where = "embed"
		}
		for len(n.Kids) < total-1 {
			if len(n.Kids)%7 == 6 {
				n.Kids = append(n.Kids, st.url(t, depth, where))
			} else {
				n.Kids = append(n.Kids, JNode{K: "lit", S: jsonLits[len(n.Kids)%len(jsonLits)]})
			}
		}
		n.Kids = append(n.Kids, st.url(t, depth, where))
	}
	return n
}

// Render returns the document bytes.
func (d JSONDoc) Render() []byte {
	var sb strings.Builder
	jsonRender(&sb, d.Root, d.Pretty, 0)
	if d.TailNL {
		sb.WriteString("\n")
	}
	return []byte(sb.String())
}

func jsonRender(sb *strings.Builder, n JNode, pretty int, level int) {
	nl := func(l int) {
		switch pretty {
		case 1:
			sb.WriteString("\n" + strings.Repeat("  ", l))
		case 2:
			sb.WriteString("\n" + strings.Repeat("\t", l))
		case 3:
			sb.WriteString(" ")
		}
	}
	switch n.K {
	case "url", "str":
		sb.WriteString(jsonQuote(n.S, n.Esc))
	case "lit":
		sb.WriteString(n.S)
	case "embed":
		var in strings.Builder
		jsonRender(&in, n.Kids[0], n.Pretty, 0)
		sb.WriteString(jsonQuote(in.String(), n.Esc))
	case "obj", "arr":
		open, cl := "{", "}"
		if n.K == "arr" {
			open, cl = "[", "]"
		}
		sb.WriteString(open)
		if len(n.Kids) == 0 {
			sb.WriteString(cl)
			return
		}
		for i, k := range n.Kids {
			if i > 0 {
				if pretty == 3 {
					sb.WriteString(" ")
				}
				sb.WriteString(",")
			}
			nl(level + 1)
			if n.K == "obj" {
				sb.WriteString(jsonQuote(n.Keys[i], 0))
				switch pretty {
				case 0:
					sb.WriteString(":")
				case 3:
					sb.WriteString(" : ")
				default:
					sb.WriteString(": ")
				}
			}
			jsonRender(sb, k, pretty, level+1)
		}
		nl(level)
		sb.WriteString(cl)
	}
}

// jsonQuote renders a JSON string. esc: 0 minimal; 1 "\/" for slashes; 2 & < > (HTML-safe encoders);
// 3 = 1+2; 4 first rune and every ':' as \uXXXX; 5 all non-ASCII as \uXXXX (surrogate pairs above the BMP).
func jsonQuote(s string, esc int) string {
	var sb strings.Builder
	sb.WriteByte('"')
	first := true
	for _, r := range s {
		switch {
		case r == '"':
			sb.WriteString(`\"`)
		case r == '\\':
			sb.WriteString(`\\`)
		case r == '\n':
			sb.WriteString(`\n`)
		case r == '\t':
			sb.WriteString(`\t`)
		case r == '\r':
			sb.WriteString(`\r`)
		case r < 0x20:
			fmt.Fprintf(&sb, `\u%04x`, r)
		case r == '/' && (esc == 1 || esc == 3):
			sb.WriteString(`\/`)
		case (r == '&' || r == '<' || r == '>') && (esc == 2 || esc == 3):
			fmt.Fprintf(&sb, `\u%04x`, r)
		case esc == 4 && (first || r == ':') && r < 0x10000:
			fmt.Fprintf(&sb, `\u%04X`, r)
		case esc == 5 && r >= 0x80:
			if r >= 0x10000 {
				r2 := r - 0x10000
				fmt.Fprintf(&sb, `\u%04x\u%04x`, 0xd800+(r2>>10), 0xdc00+(r2&0x3ff))
			} else {
				fmt.Fprintf(&sb, `\u%04x`, r)
			}
		default:
			sb.WriteRune(r)
		}
		first = false
	}
	sb.WriteByte('"')
	return sb.String()
}

// ---------------------------------------------------------------------------------------------
// XML / RSS / Atom / sitemap

// XNode is one XML item. K: elem | text | cdata | comment | pi.
type XNode struct {
	K     string  `json:"k"`
	Name  string  `json:"name,omitempty"`
	Attrs []XAttr `json:"attrs,omitempty"`
	Kids  []XNode `json:"kids,omitempty"`
	S     string  `json:"s,omitempty"`   // logical character content (text, cdata, comment, pi)
	Ent   int     `json:"ent,omitempty"` // spelling of '&' in text: 0 &amp; 1 &#38; 2 &#x26;
	Empty bool    `json:"empty,omitempty"`
}

// XAttr is one attribute; Value is the logical value.
type XAttr struct {
	Name  string `json:"name"`
	Value string `json:"value"`
	Quote string `json:"quote"`
	Ent   int    `json:"ent,omitempty"`
}

// XMLDoc is a generated XML document.
type XMLDoc struct {
	Flavor  string   `json:"flavor"` // generic | rss | atom | sitemap | sitemapindex
	Decl    int      `json:"decl"`   // 0 none, 1 <?xml version="1.0" encoding="UTF-8"?>, 2 single quotes + utf-8, 3 version only
	Pretty  int      `json:"pretty"` // 0 none, 1 two spaces, 2 tabs (white space between elements of element-only content)
	CRLF    bool     `json:"crlf"`
	Root    XNode    `json:"root"`
	Planted []DocURL `json:"planted"`
	Depth   int      `json:"depth"` // element nesting depth of the deepest planted URL
}

type xmlVocab struct {
	root       string
	rootAttrs  []XAttr
	wrapper    string
	containers []string
	textLeaves []string
	attrLeaves [][2]string // element name, URL attribute name
	htmlLeaves []string
	plain      []string
}

var xmlVocabs = map[string]xmlVocab{
	"generic": {root: "root", rootAttrs: []XAttr{{Name: "xmlns:x", Value: "urn:example:x", Quote: `"`}, {Name: "xmlns:xlink", Value: "http://www.w3.org/1999/xlink", Quote: `"`}},
		containers: []string{"item", "group", "section", "x:node", "record", "data"},
		textLeaves: []string{"link", "url", "x:ref", "location", "src"},
		attrLeaves: [][2]string{{"a", "href"}, {"img", "src"}, {"x:ref", "xlink:href"}, {"res", "rdf:resource"}, {"e", "data-url"}},
		htmlLeaves: []string{"description", "body"}, plain: []string{"title", "name", "x:note", "count"}},
	"rss": {root: "rss", rootAttrs: []XAttr{{Name: "version", Value: "2.0", Quote: `"`}, {Name: "xmlns:atom", Value: "http://www.w3.org/2005/Atom", Quote: `"`},
		{Name: "xmlns:media", Value: "http://search.yahoo.com/mrss/", Quote: `"`}, {Name: "xmlns:content", Value: "http://purl.org/rss/1.0/modules/content/", Quote: `"`}},
		wrapper: "channel", containers: []string{"item", "image", "media:group"},
		textLeaves: []string{"link", "guid", "comments", "url", "docs"},
		attrLeaves: [][2]string{{"enclosure", "url"}, {"media:content", "url"}, {"media:thumbnail", "url"}, {"atom:link", "href"}},
		htmlLeaves: []string{"description", "content:encoded"}, plain: []string{"title", "pubDate", "category", "language"}},
	"atom": {root: "feed", rootAttrs: []XAttr{{Name: "xmlns", Value: "http://www.w3.org/2005/Atom", Quote: `"`}, {Name: "xmlns:media", Value: "http://search.yahoo.com/mrss/", Quote: `'`}},
		containers: []string{"entry", "author", "source"},
		textLeaves: []string{"id", "uri", "icon", "logo"},
		attrLeaves: [][2]string{{"link", "href"}, {"content", "src"}, {"media:thumbnail", "url"}},
		htmlLeaves: []string{"content", "summary"}, plain: []string{"title", "updated", "name"}},
	"sitemap": {root: "urlset", rootAttrs: []XAttr{{Name: "xmlns", Value: "http://www.sitemaps.org/schemas/sitemap/0.9", Quote: `"`}, {Name: "xmlns:image", Value: "http://www.google.com/schemas/sitemap-image/1.1", Quote: `"`},
		{Name: "xmlns:xhtml", Value: "http://www.w3.org/1999/xhtml", Quote: `"`}, {Name: "xmlns:video", Value: "http://www.google.com/schemas/sitemap-video/1.1", Quote: `"`}},
		containers: []string{"url", "image:image", "video:video"},
		textLeaves: []string{"loc", "image:loc", "video:thumbnail_loc", "video:content_loc"},
		attrLeaves: [][2]string{{"xhtml:link", "href"}},
		htmlLeaves: []string{"image:caption"}, plain: []string{"lastmod", "changefreq", "priority", "image:title"}},
	"sitemapindex": {root: "sitemapindex", rootAttrs: []XAttr{{Name: "xmlns", Value: "http://www.sitemaps.org/schemas/sitemap/0.9", Quote: `"`}},
		containers: []string{"sitemap"}, textLeaves: []string{"loc"}, attrLeaves: [][2]string{{"xhtml:link", "href"}}, htmlLeaves: []string{"note"}, plain: []string{"lastmod"}},
}

var xmlDecoyAttrs = []XAttr{{Name: "id", Value: "n1", Quote: `"`}, {Name: "type", Value: "text/html", Quote: `"`}, {Name: "rel", Value: "alternate", Quote: `'`},
	{Name: "xml:lang", Value: "en", Quote: `"`}, {Name: "length", Value: "12345", Quote: `"`}, {Name: "isPermaLink", Value: "true", Quote: `"`},
	{Name: "title", Value: `Tom & "Jerry" <3`, Quote: `"`}, {Name: "hreflang", Value: "de", Quote: `'`}, {Name: "alt", Value: "it's", Quote: `'`}}
var xmlPlainTexts = []string{"Hello world", "2024-01-02T03:04:05Z", "Tom & Jerry", "a < b > c", "0.8", "weekly", "", "héllo ☃", "http is a protocol"}

// XMLWhereFirstURL lists the placements where the character data token STARTS with the URL and continues with other
// characters (white space or prose): the class of the open finding about extractor.XML taking such a token whole.
var XMLWhereFirstURL = map[string]bool{"text-trail": true, "prose-first": true, "cdata-trail": true, "text-list": true}

type xmlGenState struct {
	planted []DocURL
	nodes   int
	depth   int
	v       xmlVocab
	opt     DocURLOpt
}

// GenXMLDoc draws an XML document. Narrowings (reasons):
//   - UTF-8 documents only (encoding/xml's RawToken refuses other declared encodings without a CharsetReader; the
//     statement's quantifier does not list encodings);
//   - attribute values that are URLs are exactly the URL (no padding);
//   - URLs in running text (prose, padded text, HTML inside CDATA) use the Prose sub-grammar and are delimited by
//     white space or quotes, because where a URL ends inside free text is heuristic by nature;
//   - element vocabularies imitate RSS / Atom / sitemap but nesting is free (the extractor is schema-agnostic).
func GenXMLDoc(t *rapid.T, flavor string, opt DocURLOpt) XMLDoc {
	if flavor == "" {
		flavor = pick(t, "xml.flavor", []string{"generic", "generic", "rss", "rss", "atom", "sitemap", "sitemap", "sitemapindex"})
	}
	st := &xmlGenState{v: xmlVocabs[flavor], opt: opt}
	root := XNode{K: "elem", Name: st.v.root}
	root.Attrs = append(root.Attrs, st.v.rootAttrs...)
	// namespace declarations come in any order (and after other attributes: xsi:schemaLocation first is common)
	if rot := rapid.IntRange(0, 3).Draw(t, "xml.rootattrorder"); len(root.Attrs) > 1 {
		switch rot {
		case 1:
			root.Attrs = append(root.Attrs[1:], root.Attrs[0])
		case 2:
			root.Attrs = append([]XAttr{{Name: "xmlns:xsi", Value: "http://www.w3.org/2001/XMLSchema-instance", Quote: `"`}}, root.Attrs...)
		case 3:
			for i, j := 0, len(root.Attrs)-1; i < j; i, j = i+1, j-1 {
				root.Attrs[i], root.Attrs[j] = root.Attrs[j], root.Attrs[i]
			}
		}
	}
	body := st.kids(t, 2)
	if st.v.wrapper != "" {
		root.Kids = []XNode{{K: "elem", Name: st.v.wrapper, Kids: body}}
	} else {
		root.Kids = body
	}
	if len(st.planted) == 0 {
		leaf := st.textLeaf(t, 2)
		if st.v.wrapper != "" {
			root.Kids[0].Kids = append(root.Kids[0].Kids, leaf)
		} else {
			root.Kids = append(root.Kids, leaf)
		}
	}
	if st.v.wrapper != "" {
		st.depth++
	}
	return XMLDoc{Flavor: flavor, Decl: rapid.IntRange(0, 3).Draw(t, "xml.decl"), Pretty: rapid.IntRange(0, 2).Draw(t, "xml.pretty"),
		CRLF: rapid.IntRange(0, 4).Draw(t, "xml.crlf") == 4, Root: root, Planted: st.planted, Depth: st.depth}
}

func (st *xmlGenState) plant(t *rapid.T, depth int, where string, prose bool) string {
	o := st.opt
	o.Prose = o.Prose || prose
	if o.Prose {
		o.RFCQuery = false
	}
	u := genDocURL(t, "xml.url", docTok(len(st.planted)), where, o)
	st.planted = append(st.planted, u)
	if depth > st.depth {
		st.depth = depth
	}
	return u.Text
}

func (st *xmlGenState) decoyAttrs(t *rapid.T) []XAttr {
	var out []XAttr
	n := rapid.IntRange(0, 2).Draw(t, "xml.ndecoy")
	used := map[string]bool{}
	for i := 0; i < n; i++ {
		a := xmlDecoyAttrs[rapid.IntRange(0, len(xmlDecoyAttrs)-1).Draw(t, "xml.decoy")]
		if used[a.Name] {
			continue
		}
		used[a.Name] = true
		a.Ent = rapid.IntRange(0, 2).Draw(t, "xml.ent")
		out = append(out, a)
	}
	return out
}

func (st *xmlGenState) kids(t *rapid.T, depth int) []XNode {
	var out []XNode
	max := 5
	if depth > 4 {
		max = 2
	}
	n := rapid.IntRange(1, max).Draw(t, "xml.n")
	for i := 0; i < n && st.nodes < 60; i++ {
		st.nodes++
		switch c := rapid.IntRange(0, 13).Draw(t, "xml.kind"); {
		case c <= 2:
			out = append(out, st.textLeaf(t, depth))
		case c <= 5:
			out = append(out, st.attrLeaf(t, depth))
		case c == 6:
			out = append(out, st.htmlLeaf(t, depth))
		case c == 7:
			out = append(out, XNode{K: "elem", Name: pick(t, "xml.plain", st.v.plain), Attrs: st.decoyAttrs(t),
				Kids: []XNode{{K: "text", S: pick(t, "xml.plaintext", xmlPlainTexts), Ent: rapid.IntRange(0, 2).Draw(t, "xml.ent")}}})
		case c == 8:
			out = append(out, XNode{K: "comment", S: " see https://comment.example.com/decoy.png "})
		case c == 9:
			out = append(out, XNode{K: "elem", Name: pick(t, "xml.plain", st.v.plain), Empty: rapid.Bool().Draw(t, "xml.empty"), Attrs: st.decoyAttrs(t)})
		case depth < 7:
			out = append(out, XNode{K: "elem", Name: pick(t, "xml.container", st.v.containers), Attrs: st.decoyAttrs(t), Kids: st.kids(t, depth+1)})
		default:
			out = append(out, st.textLeaf(t, depth))
		}
	}
	return out
}

// textLeaf: <name>…URL…</name> in one of the text placements.
func (st *xmlGenState) textLeaf(t *rapid.T, depth int) XNode {
	el := XNode{K: "elem", Name: pick(t, "xml.textleaf", st.v.textLeaves), Attrs: st.decoyAttrs(t)}
	ent := rapid.IntRange(0, 2).Draw(t, "xml.ent")
	ws := pick(t, "xml.ws", []string{"\n    ", " ", "\n", "\t", "\r\n  "})
	switch where := pick(t, "xml.where", []string{"text", "text", "text", "text-pad", "text-lead", "text-trail", "prose-mid", "prose-first", "prose-last", "cdata", "cdata", "cdata-trail", "mixed", "mixed-before", "text-list"}); where {
	case "text":
		el.Kids = []XNode{{K: "text", S: st.plant(t, depth, where, false), Ent: ent}}
	case "text-pad":
		el.Kids = []XNode{{K: "text", S: ws + st.plant(t, depth, where, true) + ws, Ent: ent}}
	case "text-lead":
		el.Kids = []XNode{{K: "text", S: ws + st.plant(t, depth, where, true), Ent: ent}}
	case "text-trail":
		el.Kids = []XNode{{K: "text", S: st.plant(t, depth, where, true) + ws, Ent: ent}}
	case "prose-mid":
		el.Kids = []XNode{{K: "text", S: "Tom & Jerry, see " + st.plant(t, depth, where, true) + " for details", Ent: ent}}
	case "prose-first":
		el.Kids = []XNode{{K: "text", S: st.plant(t, depth, where, true) + " is the link", Ent: ent}}
	case "prose-last":
		el.Kids = []XNode{{K: "text", S: "link: " + st.plant(t, depth, where, true), Ent: ent}}
	case "text-list":
		// a white-space separated list of URLs in one text node (the token starts with a URL and more follow)
		txt := st.plant(t, depth, where, true)
		for i, n := 0, rapid.IntRange(1, 3).Draw(t, "xml.listn"); i < n; i++ {
			txt += ws + st.plant(t, depth, "text-list-next", true)
		}
		el.Kids = []XNode{{K: "text", S: txt, Ent: ent}}
	case "cdata":
		el.Kids = []XNode{{K: "cdata", S: st.plant(t, depth, where, false)}}
	case "cdata-trail":
		el.Kids = []XNode{{K: "cdata", S: st.plant(t, depth, where, true) + ws}}
	case "mixed":
		// mixed content: text, an inline element, text ending in the URL
		el.Kids = []XNode{{K: "text", S: "See ", Ent: ent}, {K: "elem", Name: "b", Kids: []XNode{{K: "text", S: "this"}}}, {K: "text", S: " page: " + st.plant(t, depth, "prose-last", true), Ent: ent}}
	case "mixed-before":
		// mixed content, compact: the text run ends in the URL and a child element follows without white space - the
		// child's start tag is what ends the URL. The child carries a word or a URL of its own.
		child := XNode{K: "elem", Name: pick(t, "xml.inline", []string{"sig", "b", "x:note"})}
		first := st.plant(t, depth, "prose-last", true)
		if rapid.Bool().Draw(t, "xml.childurl") {
			child.Kids = []XNode{{K: "text", S: st.plant(t, depth, "text", false), Ent: ent}}
		} else {
			child.Kids = []XNode{{K: "text", S: pick(t, "xml.inlinetext", []string{"signature", "mirror", "2"})}}
		}
		el.Kids = []XNode{{K: "text", S: "Source: " + first, Ent: ent}, child}
		if rapid.Bool().Draw(t, "xml.tail") {
			el.Kids = append(el.Kids, XNode{K: "text", S: " (checked)"})
		}
	}
	return el
}

// attrLeaf: <name urlattr="URL" …/> with the URL attribute at a random position among decoy attributes
// (and sometimes a second URL attribute).
func (st *xmlGenState) attrLeaf(t *rapid.T, depth int) XNode {
	spec := st.v.attrLeaves[rapid.IntRange(0, len(st.v.attrLeaves)-1).Draw(t, "xml.attrleaf")]
	el := XNode{K: "elem", Name: spec[0], Empty: rapid.IntRange(0, 3).Draw(t, "xml.selfclose") != 0}
	attrs := st.decoyAttrs(t)
	ua := XAttr{Name: spec[1], Value: st.plant(t, depth, "attr", false), Quote: pick(t, "xml.quote", []string{`"`, `'`}), Ent: rapid.IntRange(0, 2).Draw(t, "xml.ent")}
	pos := rapid.IntRange(0, len(attrs)).Draw(t, "xml.attrpos")
	attrs = append(attrs[:pos], append([]XAttr{ua}, attrs[pos:]...)...)
	if rapid.IntRange(0, 3).Draw(t, "xml.secondattr") == 3 {
		attrs = append(attrs, XAttr{Name: "data-alt", Value: st.plant(t, depth, "attr", false), Quote: `"`, Ent: rapid.IntRange(0, 2).Draw(t, "xml.ent")})
	}
	el.Attrs = attrs
	return el
}

// htmlLeaf: escaped-HTML payload as RSS/Atom carry it, in CDATA or as entity-escaped text.
func (st *xmlGenState) htmlLeaf(t *rapid.T, depth int) XNode {
	el := XNode{K: "elem", Name: pick(t, "xml.htmlleaf", st.v.htmlLeaves)}
	html := `<p>Tom & Jerry <a href="` + st.plant(t, depth, "cdata-html", true) + `">x</a>`
	if rapid.Bool().Draw(t, "xml.html2") {
		html += ` <img src='` + st.plant(t, depth, "cdata-html", true) + `' alt="y"/>`
	}
	html += `</p>`
	if rapid.IntRange(0, 2).Draw(t, "xml.htmlmode") == 2 {
		// entity-escaped HTML inside a text node (&lt;p&gt;…)
		for i := len(st.planted) - 1; i >= 0 && st.planted[i].Where == "cdata-html"; i-- {
			st.planted[i].Where = "text-html"
		}
		el.Kids = []XNode{{K: "text", S: html, Ent: rapid.IntRange(0, 2).Draw(t, "xml.ent")}}
	} else {
		el.Kids = []XNode{{K: "cdata", S: html}}
	}
	return el
}

func xmlEscape(s string, ent int, quote string) string {
	amp := []string{"&amp;", "&#38;", "&#x26;"}[ent%3]
	var sb strings.Builder
	for _, r := range s {
		switch {
		case r == '&':
			sb.WriteString(amp)
		case r == '<':
			sb.WriteString("&lt;")
		case r == '>':
			sb.WriteString("&gt;")
		case r == '"' && quote == `"`:
			sb.WriteString("&quot;")
		case r == '\'' && quote == `'`:
			sb.WriteString("&apos;")
		default:
			sb.WriteRune(r)
		}
	}
	return sb.String()
}

// Render returns the document bytes.
func (d XMLDoc) Render() []byte {
	var sb strings.Builder
	switch d.Decl {
	case 1:
		sb.WriteString(`<?xml version="1.0" encoding="UTF-8"?>` + "\n")
	case 2:
		sb.WriteString(`<?xml version='1.0' encoding='utf-8' standalone='yes'?>` + "\n")
	case 3:
		sb.WriteString(`<?xml version="1.0"?>`)
	}
	xmlRender(&sb, d.Root, d.Pretty, 0)
	sb.WriteString("\n")
	s := sb.String()
	if d.CRLF {
		s = strings.ReplaceAll(strings.ReplaceAll(s, "\r\n", "\n"), "\n", "\r\n")
	}
	return []byte(s)
}

func xmlRender(sb *strings.Builder, n XNode, pretty int, level int) {
	switch n.K {
	case "text":
		sb.WriteString(xmlEscape(n.S, n.Ent, ""))
	case "cdata":
		sb.WriteString("<![CDATA[" + n.S + "]]>")
	case "comment":
		sb.WriteString("<!--" + n.S + "-->")
	case "pi":
		sb.WriteString("<?" + n.S + "?>")
	case "elem":
		sb.WriteString("<" + n.Name)
		for _, a := range n.Attrs {
			sb.WriteString(" " + a.Name + "=" + a.Quote + xmlEscape(a.Value, a.Ent, a.Quote) + a.Quote)
		}
		if len(n.Kids) == 0 {
			if n.Empty {
				sb.WriteString("/>")
			} else {
				sb.WriteString("></" + n.Name + ">")
			}
			return
		}
		sb.WriteString(">")
		elemOnly := pretty != 0
		for _, k := range n.Kids {
			if k.K == "text" || k.K == "cdata" {
				elemOnly = false
			}
		}
		ind := "  "
		if pretty == 2 {
			ind = "\t"
		}
		for _, k := range n.Kids {
			if elemOnly {
				sb.WriteString("\n" + strings.Repeat(ind, level+1))
			}
			xmlRender(sb, k, pretty, level+1)
		}
		if elemOnly {
			sb.WriteString("\n" + strings.Repeat(ind, level))
		}
		sb.WriteString("</" + n.Name + ">")
	}
}

// ---------------------------------------------------------------------------------------------
// M3U8

// M3Entry is one logical entry of a playlist. K: seg | variant | iframe | media | comment | blank.
type M3Entry struct {
	K     string   `json:"k"`
	URI   string   `json:"uri,omitempty"`   // seg, variant: the URI line; iframe, media: the URI attribute ("" = none)
	Attrs string   `json:"attrs,omitempty"` // attribute list (variant, iframe, media without URI) or "duration,title" (seg)
	Pre   []string `json:"pre,omitempty"`   // tag lines preceding the entry's own tag (seg: DISCONTINUITY, KEY, …)
}

// M3U8Doc is a generated playlist. Planted URIs have Where = segment | variant | iframe | rendition and Shape = abs | rel.
type M3U8Doc struct {
	Master  bool      `json:"master"`
	Header  []string  `json:"header"` // lines after #EXTM3U
	Entries []M3Entry `json:"entries"`
	EndList bool      `json:"endlist"`
	CRLF    bool      `json:"crlf"`
	Planted []DocURL  `json:"planted"`
}

func genM3URI(t *rapid.T, tok string, where string, ext string) DocURL {
	q := pick(t, "m3u.q", []string{"", "", "?token=abc123", "?a=1&b=2", "?sig=x%2By&exp=17"})
	var s, shape string
	switch rapid.IntRange(0, 5).Draw(t, "m3u.uriform") {
	case 0, 1:
		s, shape = pick(t, "m3u.name", []string{"seg", "chunk", "main", "v"})+"-"+tok+"."+ext+q, "rel"
	case 2:
		s, shape = pick(t, "m3u.dir", []string{"sub/dir/", "../audio/en/", "./", "720p/"})+tok+"."+ext+q, "rel"
	case 3:
		s, shape = "/abs/path/"+tok+"."+ext+q, "rel"
	case 4:
		s, shape = "https://"+pick(t, "m3u.host", docHosts)+"/hls/"+tok+"."+ext+q, "abs"
	default:
		s, shape = "http://"+pick(t, "m3u.host", docHosts)+":8080/"+tok+q, "abs" // no extension
	}
	return DocURL{Text: s, Shape: shape, Where: where, Ext: true}
}

// GenM3U8Doc draws a media or master playlist that the strict grafov decoder accepts. Narrowings (reasons):
//   - blank lines and comments appear only between complete entries (RFC 8216 §4.3.4.2: the URI line MUST follow
//     the EXT-X-STREAM-INF tag; nobody writes blank lines between EXTINF and its URI);
//   - every EXT-X-MEDIA group is referenced by at least one variant through the attribute matching its TYPE (a
//     rendition group no variant refers to cannot be selected by any player; RFC 8216 requires the reference in the
//     variant → group direction only). grafov attaches renditions to variants by GROUP-ID; an unreferenced group
//     is dropped unless an EXT-X-I-FRAME-STREAM-INF tag follows it. Reported, not generated;
//   - master playlists carry no media-playlist tags after the header (grafov decides the playlist kind by the last
//     kind-specific tag seen);
//   - URIs contain no comma, quote or white space.
func GenM3U8Doc(t *rapid.T) M3U8Doc {
	d := M3U8Doc{Master: rapid.Bool().Draw(t, "m3u.master"), CRLF: rapid.IntRange(0, 3).Draw(t, "m3u.crlf") == 3}
	if v := rapid.IntRange(0, 7).Draw(t, "m3u.version"); v > 0 {
		d.Header = append(d.Header, "#EXT-X-VERSION:"+strconv.Itoa(v))
	}
	filler := func() {
		switch rapid.IntRange(0, 7).Draw(t, "m3u.filler") {
		case 6:
			d.Entries = append(d.Entries, M3Entry{K: "blank"})
		case 7:
			d.Entries = append(d.Entries, M3Entry{K: "comment", Attrs: "# a comment, not a tag: https://comment.example.com/decoy.ts"})
		}
	}
	if !d.Master {
		d.Header = append(d.Header, "#EXT-X-TARGETDURATION:"+strconv.Itoa(rapid.IntRange(2, 12).Draw(t, "m3u.td")))
		if rapid.Bool().Draw(t, "m3u.hasseq") {
			d.Header = append(d.Header, "#EXT-X-MEDIA-SEQUENCE:"+strconv.Itoa(rapid.IntRange(0, 5000).Draw(t, "m3u.seq")))
		}
		if rapid.IntRange(0, 2).Draw(t, "m3u.pltype") == 2 {
			d.Header = append(d.Header, "#EXT-X-PLAYLIST-TYPE:"+pick(t, "m3u.pt", []string{"VOD", "EVENT"}))
		}
		n := rapid.IntRange(1, 24).Draw(t, "m3u.nseg")
		if rapid.IntRange(0, 60).Draw(t, "m3u.big") == 60 {
			n = rapid.IntRange(1020, 1100).Draw(t, "m3u.nbig") // beyond the decoder's initial capacity of 1024 segments
		}
		for i := 0; i < n; i++ {
			u := genM3URI(t, docTok(len(d.Planted)), "segment", pick(t, "m3u.segext", []string{"ts", "ts", "m4s", "aac", "mp4"}))
			d.Planted = append(d.Planted, u)
			e := M3Entry{K: "seg", URI: u.Text, Attrs: pick(t, "m3u.dur", []string{"9.009,", "10,", "4.5,Title", "6.0,title, with comma", "2,"})}
			if n < 100 {
				switch rapid.IntRange(0, 11).Draw(t, "m3u.pre") {
				case 8:
					e.Pre = append(e.Pre, "#EXT-X-DISCONTINUITY")
				case 9:
					e.Pre = append(e.Pre, `#EXT-X-KEY:METHOD=AES-128,URI="https://keys.example.com/decoy.key",IV=0x00000000000000000000000000000001`)
				case 10:
					e.Pre = append(e.Pre, `#EXT-X-MAP:URI="init-decoy.mp4"`)
				case 11:
					e.Pre = append(e.Pre, "#EXT-X-PROGRAM-DATE-TIME:2024-01-02T03:04:05.000Z")
				}
				d.Entries = append(d.Entries, e)
				filler()
			} else {
				d.Entries = append(d.Entries, e)
			}
		}
		d.EndList = rapid.IntRange(0, 3).Draw(t, "m3u.endlist") != 0
		return d
	}
	// master playlist
	if rapid.Bool().Draw(t, "m3u.indep") {
		d.Header = append(d.Header, "#EXT-X-INDEPENDENT-SEGMENTS")
	}
	type group struct{ typ, id, attr string }
	var groups []group
	ng := rapid.IntRange(0, 3).Draw(t, "m3u.ngroups")
	for g := 0; g < ng; g++ {
		typ := pick(t, "m3u.gtype", []string{"AUDIO", "AUDIO", "SUBTITLES", "VIDEO"})
		groups = append(groups, group{typ: typ, id: strings.ToLower(typ[:3]) + strconv.Itoa(g), attr: typ})
	}
	var entries []M3Entry
	// renditions
	for _, g := range groups {
		nr := rapid.IntRange(1, 3).Draw(t, "m3u.nrend")
		for r := 0; r < nr; r++ {
			attrs := fmt.Sprintf(`TYPE=%s,GROUP-ID="%s",NAME="%s",LANGUAGE="%s",DEFAULT=%s,AUTOSELECT=YES`, g.typ, g.id,
				pick(t, "m3u.rname", []string{"English", "Deutsch", "Commentary, director", "main"})+strconv.Itoa(r), pick(t, "m3u.lang", []string{"en", "de", "fr"}), pick(t, "m3u.default", []string{"YES", "NO"}))
			e := M3Entry{K: "media", Attrs: attrs}
			if g.typ != "AUDIO" || rapid.IntRange(0, 4).Draw(t, "m3u.muxed") != 0 { // an AUDIO rendition without URI is muxed into the variant
				u := genM3URI(t, docTok(len(d.Planted)), "rendition", "m3u8")
				d.Planted = append(d.Planted, u)
				e.URI = u.Text
			}
			entries = append(entries, e)
		}
	}
	if rapid.IntRange(0, 3).Draw(t, "m3u.cc") == 3 {
		entries = append(entries, M3Entry{K: "media", Attrs: `TYPE=CLOSED-CAPTIONS,GROUP-ID="cc",NAME="CC1",INSTREAM-ID="CC1"`})
	}
	// variants; variant i references every group when i == 0 (so that each group is referenced), else a random subset
	nv := rapid.IntRange(1, 5).Draw(t, "m3u.nvar")
	for v := 0; v < nv; v++ {
		attrs := fmt.Sprintf("BANDWIDTH=%d", 100000*(v+1)+rapid.IntRange(0, 999).Draw(t, "m3u.bw"))
		if rapid.Bool().Draw(t, "m3u.res") {
			attrs += ",RESOLUTION=" + pick(t, "m3u.resv", []string{"640x360", "1280x720", "1920x1080"})
		}
		if rapid.Bool().Draw(t, "m3u.codecs") {
			attrs += `,CODECS="avc1.4d401f,mp4a.40.2"`
		}
		usedAttr := map[string]bool{}
		for _, g := range groups {
			if usedAttr[g.attr] && v == 0 {
				continue
			}
			if v == 0 || rapid.Bool().Draw(t, "m3u.refgroup") {
				if !usedAttr[g.attr] {
					attrs += fmt.Sprintf(`,%s="%s"`, g.attr, g.id)
					usedAttr[g.attr] = true
				}
			}
		}
		u := genM3URI(t, docTok(len(d.Planted)), "variant", "m3u8")
		d.Planted = append(d.Planted, u)
		entries = append(entries, M3Entry{K: "variant", URI: u.Text, Attrs: attrs})
	}
	// groups of a TYPE that variant 0 could not reference (two groups of the same type): give each its own variant
	ref := map[string]bool{}
	for _, e := range entries {
		if e.K == "variant" {
			for _, g := range groups {
				if strings.Contains(e.Attrs, fmt.Sprintf(`%s="%s"`, g.attr, g.id)) {
					ref[g.id] = true
				}
			}
		}
	}
	var variantURIs []string
	for _, e := range entries {
		if e.K == "variant" {
			variantURIs = append(variantURIs, e.URI)
		}
	}
	for _, g := range groups {
		if !ref[g.id] {
			if rapid.Bool().Draw(t, "m3u.samevariant") {
				// the usual multi-codec layout: the same variant playlist listed once per rendition group
				// (1080p.m3u8 with AUDIO="aac", again with AUDIO="ac3"); the group is reachable through the repeat only
				uri := variantURIs[rapid.IntRange(0, len(variantURIs)-1).Draw(t, "m3u.whichvariant")]
				entries = append(entries, M3Entry{K: "variant", URI: uri, Attrs: fmt.Sprintf(`BANDWIDTH=64000,%s="%s"`, g.attr, g.id)})
				continue
			}
			u := genM3URI(t, docTok(len(d.Planted)), "variant", "m3u8")
			d.Planted = append(d.Planted, u)
			entries = append(entries, M3Entry{K: "variant", URI: u.Text, Attrs: fmt.Sprintf(`BANDWIDTH=64000,%s="%s"`, g.attr, g.id)})
		}
	}
	ni := rapid.IntRange(0, 2).Draw(t, "m3u.niframe")
	for i := 0; i < ni; i++ {
		u := genM3URI(t, docTok(len(d.Planted)), "iframe", "m3u8")
		d.Planted = append(d.Planted, u)
		entries = append(entries, M3Entry{K: "iframe", URI: u.Text, Attrs: fmt.Sprintf("BANDWIDTH=%d,RESOLUTION=640x360", 50000+i)})
	}
	// order: renditions first | renditions last | fully shuffled
	switch rapid.IntRange(0, 3).Draw(t, "m3u.order") {
	case 0:
	case 1:
		var media, rest []M3Entry
		for _, e := range entries {
			if e.K == "media" {
				media = append(media, e)
			} else {
				rest = append(rest, e)
			}
		}
		entries = append(rest, media...)
	default:
		perm := rapid.Permutation(entries).Draw(t, "m3u.perm")
		entries = perm
	}
	for _, e := range entries {
		d.Entries = append(d.Entries, e)
		filler()
	}
	return d
}

// MediaAfterLastVariant reports whether an EXT-X-MEDIA entry with a URI follows the last variant.
func (d M3U8Doc) MediaAfterLastVariant() bool {
	last := -1
	for i, e := range d.Entries {
		if e.K == "variant" || e.K == "iframe" {
			last = i
		}
	}
	for i, e := range d.Entries {
		if e.K == "media" && e.URI != "" && i > last {
			return true
		}
	}
	return false
}

// Render returns the playlist bytes.
func (d M3U8Doc) Render() []byte {
	lines := []string{"#EXTM3U"}
	lines = append(lines, d.Header...)
	for _, e := range d.Entries {
		lines = append(lines, e.Pre...)
		switch e.K {
		case "seg":
			lines = append(lines, "#EXTINF:"+e.Attrs, e.URI)
		case "variant":
			lines = append(lines, "#EXT-X-STREAM-INF:"+e.Attrs, e.URI)
		case "iframe":
			lines = append(lines, "#EXT-X-I-FRAME-STREAM-INF:"+e.Attrs+`,URI="`+e.URI+`"`)
		case "media":
			l := "#EXT-X-MEDIA:" + e.Attrs
			if e.URI != "" {
				l += `,URI="` + e.URI + `"`
			}
			lines = append(lines, l)
		case "comment":
			lines = append(lines, e.Attrs)
		case "blank":
			lines = append(lines, "")
		}
	}
	if d.EndList {
		lines = append(lines, "#EXT-X-ENDLIST")
	}
	eol := "\n"
	if d.CRLF {
		eol = "\r\n"
	}
	return []byte(strings.Join(lines, eol) + eol)
}

// ---------------------------------------------------------------------------------------------
// S3 bucket model

// S3Obj is one object of the model bucket.
type S3Obj struct {
	Key  string `json:"key"`
	Size int64  `json:"size"`
}

// S3Bucket is the plain-data description of a bucket and of how its server pages listings.
type S3Bucket struct {
	Host      string  `json:"host"`      // virtual-hosted-style endpoint, https
	Objs      []S3Obj `json:"objs"`      // unique keys, any order
	PageSize  int     `json:"pagesize"`  // the server's cap on entries (keys + common prefixes) per page
	V2        bool    `json:"v2"`        // the walk starts at a list-type=2 URL
	Delimiter string  `json:"delimiter"` // "" (flat) or "/" — only with V2 (the statement: flat, or list-type=2 with common prefixes)
	MaxKeys   int     `json:"maxkeys"`   // 0 = root URL has no max-keys parameter
	DelimEnc  bool    `json:"delimenc"`  // root URL spells the delimiter as %2F
	Server    string  `json:"server"`    // Server response header
}

var s3Segs = []string{"a", "b", "photos", "2024", "img 1", "x+y", "a&b", "é", "100%", "q?x", "h#1", "logs", "_", "~tmp", "A", "z<y"}
var s3Files = []string{"file.txt", "data.tar.gz", "index.html", "README", "o", "1.jpg", "2.jpg", "a b.pdf", "ü.png", "x=y&z.bin", "f#1.csv", "50%.txt", "q?.json"}

// GenS3Bucket draws a bucket. Narrowings (reasons):
//   - virtual-hosted-style https endpoints only (extractor.S3 builds object URLs as https://<host>/<key>; path-style
//     endpoints, where the bucket name is the first path segment, are outside the statement's quantifier);
//   - version 1 listings are flat (the statement pairs common prefixes with list-type=2 only);
//   - keys contain no "." / ".." path segments (later URL normalisation would alter them; not this property).
func GenS3Bucket(t *rapid.T) S3Bucket {
	b := S3Bucket{Host: pick(t, "s3.host", []string{"bucket-one.s3.amazonaws.com", "data.s3.eu-west-1.amazonaws.com", "storage.example-cdn.net", "files.s3.wasabisys.com"}),
		PageSize: rapid.IntRange(1, 20).Draw(t, "s3.pagesize"), V2: rapid.IntRange(0, 2).Draw(t, "s3.v2") != 0,
		Server: pick(t, "s3.server", []string{"AmazonS3", "AmazonS3", "AmazonS3", "WasabiS3", "AliyunOSS", "UploadServer", "Windows-Azure-Blob/1.0 Microsoft-HTTPAPI/2.0"})}
	if b.V2 && rapid.IntRange(0, 3).Draw(t, "s3.delim") != 0 {
		b.Delimiter = "/"
		b.DelimEnc = rapid.Bool().Draw(t, "s3.delimenc")
	}
	if rapid.IntRange(0, 3).Draw(t, "s3.maxkeys") == 3 {
		b.MaxKeys = rapid.IntRange(1, 30).Draw(t, "s3.maxkeysv")
	}
	// a prefix tree: a few directories (nested up to 3 levels), files spread over them and over the root
	ndirs := rapid.IntRange(0, 5).Draw(t, "s3.ndirs")
	dirs := []string{""}
	for i := 0; i < ndirs; i++ {
		parent := dirs[rapid.IntRange(0, len(dirs)-1).Draw(t, "s3.parent")]
		if strings.Count(parent, "/") >= 3 {
			parent = ""
		}
		d := parent + pick(t, "s3.seg", s3Segs) + "/"
		dirs = append(dirs, d)
	}
	seen := map[string]bool{}
	add := func(k string, size int64) {
		if k == "" || seen[k] {
			return
		}
		seen[k] = true
		b.Objs = append(b.Objs, S3Obj{Key: k, Size: size})
	}
	nobj := rapid.IntRange(0, 40).Draw(t, "s3.nobj")
	for i := 0; i < nobj; i++ {
		d := dirs[rapid.IntRange(0, len(dirs)-1).Draw(t, "s3.dir")]
		name := pick(t, "s3.file", s3Files)
		if rapid.IntRange(0, 2).Draw(t, "s3.numbered") == 2 {
			name = strconv.Itoa(i) + "-" + name
		}
		var size int64
		if rapid.IntRange(0, 5).Draw(t, "s3.zero") != 5 {
			size = int64(rapid.IntRange(1, 5_000_000).Draw(t, "s3.size"))
		}
		add(d+name, size)
	}
	for _, d := range dirs[1:] {
		switch rapid.IntRange(0, 3).Draw(t, "s3.marker") {
		case 2:
			add(d, 0) // the zero-size "folder" object consoles create
		case 3:
			add(strings.TrimSuffix(d, "/"), int64(rapid.IntRange(0, 9).Draw(t, "s3.samename"))) // a key equal to a folder name
		}
	}
	return b
}

// RootURL is the listing URL the walk starts from.
func (b S3Bucket) RootURL() string {
	var q []string
	if b.V2 {
		q = append(q, "list-type=2")
	}
	if b.Delimiter != "" {
		if b.DelimEnc {
			q = append(q, "delimiter=%2F")
		} else {
			q = append(q, "delimiter="+b.Delimiter)
		}
	}
	if b.MaxKeys > 0 {
		q = append(q, "max-keys="+strconv.Itoa(b.MaxKeys))
	}
	u := "https://" + b.Host + "/"
	if len(q) > 0 {
		u += "?" + strings.Join(q, "&")
	}
	return u
}

// NonZeroKeys returns the keys of all objects of non-zero size, sorted.
func (b S3Bucket) NonZeroKeys() []string {
	var out []string
	for _, o := range b.Objs {
		if o.Size > 0 {
			out = append(out, o.Key)
		}
	}
	sort.Strings(out)
	return out
}

// S3Entry is one entry of a listing page: an object, or a rolled-up common prefix.
type S3Entry struct {
	Name     string
	IsPrefix bool
	Size     int64
}

// S3Page is one page of a listing as the model computes it.
type S3Page struct {
	Entries   []S3Entry
	Truncated bool
}

// s3Pos is a position in a listing: continue with names > After; when AfterPrefix, also skip everything under After.
type s3Pos struct {
	After       string
	AfterPrefix bool
}

// S3Server serves a bucket the way S3 does: ListObjects (marker) and ListObjectsV2 (continuation-token, start-after),
// prefix and delimiter semantics with CommonPrefixes roll-up, keys in UTF-8 binary order, every rolled-up prefix
// counting as one entry against the page size. Continuation tokens are opaque strings that stand for a
// "start after" position; they are only meaningful to the server that issued them.
type S3Server struct {
	B        S3Bucket
	keys     []S3Obj
	tokens   map[string]s3Pos
	Requests int
	Log      []string
}

// NewS3Server returns a server for the bucket.
func NewS3Server(b S3Bucket) *S3Server {
	s := &S3Server{B: b, tokens: map[string]s3Pos{}}
	s.keys = append(s.keys, b.Objs...)
	sort.Slice(s.keys, func(i, j int) bool { return s.keys[i].Key < s.keys[j].Key })
	return s
}

// ListPage computes one page: entries with the given prefix after pos, rolled up at delimiter, at most max entries.
func (s *S3Server) ListPage(prefix, delimiter string, pos s3Pos, max int) (S3Page, s3Pos) {
	var pg S3Page
	last := pos
	lastPrefix := ""
	for _, o := range s.keys {
		if !strings.HasPrefix(o.Key, prefix) {
			continue
		}
		if pos.After != "" || pos.AfterPrefix {
			if o.Key <= pos.After || (pos.AfterPrefix && strings.HasPrefix(o.Key, pos.After)) {
				continue
			}
		}
		e := S3Entry{Name: o.Key, Size: o.Size}
		if delimiter != "" {
			if i := strings.Index(o.Key[len(prefix):], delimiter); i >= 0 {
				e = S3Entry{Name: o.Key[:len(prefix)+i+len(delimiter)], IsPrefix: true}
				if e.Name == lastPrefix {
					continue // already rolled up on this page
				}
			}
		}
		if len(pg.Entries) == max {
			pg.Truncated = true
			break
		}
		if e.IsPrefix {
			lastPrefix = e.Name
		}
		pg.Entries = append(pg.Entries, e)
		last = s3Pos{After: e.Name, AfterPrefix: e.IsPrefix}
	}
	return pg, last
}

func s3PctDecode(s string, plusIsSpace bool) (string, bool) {
	var out []byte
	for i := 0; i < len(s); i++ {
		switch c := s[i]; {
		case c == '%':
			if i+2 >= len(s) {
				return "", false
			}
			v, err := strconv.ParseUint(s[i+1:i+3], 16, 8)
			if err != nil {
				return "", false
			}
			out = append(out, byte(v))
			i += 2
		case c == '+' && plusIsSpace:
			out = append(out, ' ')
		default:
			out = append(out, c)
		}
	}
	return string(out), true
}

// S3SplitURL splits an absolute URL into host, decoded path and the decoded query parameters (first value wins).
func S3SplitURL(raw string) (scheme, host, path string, query map[string]string, ok bool) {
	i := strings.Index(raw, "://")
	if i < 0 {
		return "", "", "", nil, false
	}
	scheme, rest := raw[:i], raw[i+3:]
	if j := strings.IndexByte(rest, '#'); j >= 0 {
		rest = rest[:j]
	}
	rawq := ""
	if j := strings.IndexByte(rest, '?'); j >= 0 {
		rest, rawq = rest[:j], rest[j+1:]
	}
	if j := strings.IndexByte(rest, '/'); j >= 0 {
		host, path = rest[:j], rest[j:]
	} else {
		host = rest
	}
	path, ok = s3PctDecode(path, false)
	if !ok {
		return "", "", "", nil, false
	}
	query = map[string]string{}
	for _, kv := range strings.Split(rawq, "&") {
		if kv == "" {
			continue
		}
		k, v, _ := strings.Cut(kv, "=")
		dk, ok1 := s3PctDecode(k, true)
		dv, ok2 := s3PctDecode(v, true)
		if !ok1 || !ok2 {
			return "", "", "", nil, false
		}
		if _, dup := query[dk]; !dup {
			query[dk] = dv
		}
	}
	return scheme, host, path, query, true
}

// IsListing reports whether raw is a listing request for this bucket (GET on the bucket root), and ObjectKey the
// key an object URL of this bucket addresses.
func (s *S3Server) IsListing(raw string) bool {
	_, host, path, _, ok := S3SplitURL(raw)
	return ok && host == s.B.Host && (path == "" || path == "/")
}

// ObjectKey returns the key addressed by an object URL of this bucket.
func (s *S3Server) ObjectKey(raw string) (string, bool) {
	scheme, host, path, _, ok := S3SplitURL(raw)
	if !ok || host != s.B.Host || scheme != "https" || len(path) < 2 {
		return "", false
	}
	return path[1:], true
}

func s3XMLText(s string) string { return xmlEscape(s, 0, `"`) }

// Get answers a listing request: status, Content-Type and body. The Server header is B.Server.
func (s *S3Server) Get(raw string) (status int, contentType string, body []byte) {
	s.Requests++
	s.Log = append(s.Log, raw)
	_, _, _, q, ok := S3SplitURL(raw)
	if !ok || !s.IsListing(raw) {
		return 400, "application/xml", []byte(`<?xml version="1.0" encoding="UTF-8"?>` + "\n" + `<Error><Code>InvalidRequest</Code></Error>`)
	}
	max := s.B.PageSize
	if mk, err := strconv.Atoi(q["max-keys"]); err == nil && mk >= 1 && mk < max {
		max = mk
	}
	prefix, delim := q["prefix"], q["delimiter"]
	var sb strings.Builder
	sb.WriteString(`<?xml version="1.0" encoding="UTF-8"?>` + "\n" + `<ListBucketResult xmlns="http://s3.amazonaws.com/doc/2006-03-01/">`)
	sb.WriteString("<Name>" + s3XMLText(strings.SplitN(s.B.Host, ".", 2)[0]) + "</Name><Prefix>" + s3XMLText(prefix) + "</Prefix>")
	var pg S3Page
	if q["list-type"] == "2" {
		pos := s3Pos{After: q["start-after"]}
		if tok, has := q["continuation-token"]; has {
			p, known := s.tokens[tok]
			if !known {
				return 400, "application/xml", []byte(`<?xml version="1.0" encoding="UTF-8"?>` + "\n" + `<Error><Code>InvalidArgument</Code><Message>The continuation token provided is incorrect</Message></Error>`)
			}
			pos = p
			sb.WriteString("<ContinuationToken>" + s3XMLText(tok) + "</ContinuationToken>")
		}
		var next s3Pos
		pg, next = s.ListPage(prefix, delim, pos, max)
		if pg.Truncated {
			// opaque: a counter and a checksum, with the characters real tokens contain (+ / =) so that it must be query-escaped
			tok := fmt.Sprintf("1%x/%d+Zx=", Hash64(next.After), len(s.tokens)+1)
			s.tokens[tok] = next
			sb.WriteString("<NextContinuationToken>" + s3XMLText(tok) + "</NextContinuationToken>")
		}
		sb.WriteString("<KeyCount>" + strconv.Itoa(len(pg.Entries)) + "</KeyCount>")
	} else {
		var next s3Pos
		pg, next = s.ListPage(prefix, delim, s3Pos{After: q["marker"]}, max)
		sb.WriteString("<Marker>" + s3XMLText(q["marker"]) + "</Marker>")
		if pg.Truncated && delim != "" {
			sb.WriteString("<NextMarker>" + s3XMLText(next.After) + "</NextMarker>")
		}
	}
	sb.WriteString("<MaxKeys>" + strconv.Itoa(max) + "</MaxKeys>")
	if delim != "" {
		sb.WriteString("<Delimiter>" + s3XMLText(delim) + "</Delimiter>")
	}
	sb.WriteString("<IsTruncated>" + strconv.FormatBool(pg.Truncated) + "</IsTruncated>")
	for _, e := range pg.Entries {
		if !e.IsPrefix {
			sb.WriteString("<Contents><Key>" + s3XMLText(e.Name) + "</Key><LastModified>2024-01-02T03:04:05.000Z</LastModified><ETag>&quot;d41d8cd98f00b204e9800998ecf8427e&quot;</ETag><Size>" +
				strconv.FormatInt(e.Size, 10) + "</Size><StorageClass>STANDARD</StorageClass></Contents>")
		}
	}
	for _, e := range pg.Entries {
		if e.IsPrefix {
			sb.WriteString("<CommonPrefixes><Prefix>" + s3XMLText(e.Name) + "</Prefix></CommonPrefixes>")
		}
	}
	sb.WriteString("</ListBucketResult>")
	return 200, "application/xml", []byte(sb.String())
}

// Hash64 is a small FNV-1a used for opaque tokens.
func Hash64(s string) uint64 {
	h := uint64(14695981039346656037)
	for i := 0; i < len(s); i++ {
		h ^= uint64(s[i])
		h *= 1099511628211
	}
	return h
}

// S3Reference is what a correct client would see: computed from the model alone.
type S3Reference struct {
	Pages       int             // total number of listing pages over all scopes (root + every common prefix, recursively)
	Prefixes    int             // number of distinct common prefixes
	MixedPage   map[string]bool // non-zero-size keys listed on a page that also carries common prefixes
	MaxPageSize int
}

// Reference walks the model directly (no URLs, no XML) with a correct client.
func (b S3Bucket) Reference() S3Reference {
	s := NewS3Server(b)
	max := b.PageSize
	if b.MaxKeys > 0 && b.MaxKeys < max {
		max = b.MaxKeys
	}
	ref := S3Reference{MixedPage: map[string]bool{}, MaxPageSize: max}
	scopes := []string{""}
	seen := map[string]bool{"": true}
	for len(scopes) > 0 {
		prefix := scopes[0]
		scopes = scopes[1:]
		pos := s3Pos{}
		for {
			pg, next := s.ListPage(prefix, b.Delimiter, pos, max)
			ref.Pages++
			hasPrefix := false
			for _, e := range pg.Entries {
				if e.IsPrefix {
					hasPrefix = true
					if !seen[e.Name] {
						seen[e.Name] = true
						ref.Prefixes++
						scopes = append(scopes, e.Name)
					}
				}
			}
			if hasPrefix {
				for _, e := range pg.Entries {
					if !e.IsPrefix && e.Size > 0 {
						ref.MixedPage[e.Name] = true
					}
				}
			}
			if !pg.Truncated {
				break
			}
			pos = next
		}
	}
	return ref
}

// GenDocURL draws one planted URL (exported for facets that test a rule on single URLs).
func GenDocURL(t *rapid.T, label, tok, where string, opt DocURLOpt) DocURL {
	return genDocURL(t, label, tok, where, opt)
}
