// Package verifgen holds the rapid generators shared by the /verif harnesses (overlay-only package).
// Every random choice goes through rapid so that cases shrink and replay.
package verifgen

import (
	"strings"

	"pgregory.net/rapid"
)

// ---------------------------------------------------------------------------------------------
// Hostile URL grammar: anything a page, a Location header or an operator might hand to the crawler.

var schemes = []string{"http", "https", "http", "https", "HTTP", "Https", "ftp", "mailto", "javascript", "data", "ws", "file", "tel", "about"}
var hostsDotted = []string{"example.com", "a.b", "www.example.org", "sub.domain.example.co.uk", "x1.y2.z3", "cdn.site.net", "archive.org", "web.archive.org", "archive-it.org", "media.example.com"}
var hostsOdd = []string{
	"EXAMPLE.COM", "ExAmple.Com", "bücher.example", "例え.jp", "xn--bcher-kva.example", "пример.рф", "example.com.", "a..b",
	"127.0.0.1", "127.1", "0x7f.0.0.1", "2130706433", "127.0.0.1.", "0177.0.0.1", "127.0.0.2", "192.168.0.1", "1.2.3.4", "256.1.1.1",
	"[::1]", "[2001:db8::1]", "[::ffff:127.0.0.1]", "localhost", "LOCALHOST", "localhost.", "intranet", "a", "", "-", "ex ample.com", "exa%6dple.com",
	"sub.localhost", "localhost.example.com", "127.0.0.1.example.com", "ＥＸＡＭＰＬＥ.com", "example。com", "a_b.example.com",
}
var userinfos = []string{"", "", "", "user@", "user:pw@", "%40@", ":@", "a@b@"}
var ports = []string{"", "", "", ":80", ":443", ":8080", ":0", ":65535", ":65536", ":abc", ":", ":08080"}
var segs = []string{"a", "b", "index.html", "img", "x.png", "style.css", ".", "..", "", "%2e", "%2E%2e", "%2F", "a b", "é", "日本", "%zz", "%", ";p=1", "a:b", "~u", "a+b", "a,b", "@", "!$&'()*", "a\\b", "%41", "%c3%a9", "file.tar.gz", "a=b"}
var qkeys = []string{"a", "b", "c", "q", "id", "utm_source", "k%20k", "k+k", "é", "%zz", "", "a[]", "x.y"}
var qvals = []string{"1", "2", "", "x y", "x+y", "x%20y", "%26", "%3D", "é", "%zz", "a=b", "http://e.com/?a=1", "ü", "%", "a;b", "#"}
var frags = []string{"", "", "", "#", "#frag", "#a#b", "#/path?x", "#%zz", "# "}
var hostileRunes = []rune{'\\', 0, '%', '#', '?', '@', ':', '[', ']', ' ', '\t', '\n', '\r', '"', '\'', '<', '>', '{', '}', '|', '^', '`', 'é', '日', 0x202e, 0xfffd, '/', '.', '&', '=', '+', ';', 0x7f, 0x80}

func pick(t *rapid.T, label string, xs []string) string {
	return xs[rapid.IntRange(0, len(xs)-1).Draw(t, label)]
}

// Host draws a host: mostly plain dotted names, sometimes a hostile spelling.
func Host(t *rapid.T) string {
	switch rapid.IntRange(0, 9).Draw(t, "hostkind") {
	case 0, 1, 2, 3, 4:
		return pick(t, "host", hostsDotted)
	case 5:
		return rapid.StringMatching(`[a-z]{1,6}(\.[a-z0-9-]{1,6}){1,3}`).Draw(t, "hostgen")
	default:
		return pick(t, "hostodd", hostsOdd)
	}
}

// Path draws "/seg/seg…" (possibly empty).
func Path(t *rapid.T, maxSeg int) string {
	n := rapid.IntRange(0, maxSeg).Draw(t, "nseg")
	if n == 0 {
		return pick(t, "emptypath", []string{"", "/"})
	}
	var sb strings.Builder
	for i := 0; i < n; i++ {
		sb.WriteByte('/')
		sb.WriteString(pick(t, "seg", segs))
	}
	if rapid.IntRange(0, 3).Draw(t, "trail") == 0 {
		sb.WriteByte('/')
	}
	return sb.String()
}

// Query draws "?k=v&…" (possibly empty) from the hostile alphabets.
func Query(t *rapid.T, maxPairs int) string {
	n := rapid.IntRange(0, maxPairs).Draw(t, "npairs")
	if n == 0 {
		return pick(t, "emptyq", []string{"", "", "?"})
	}
	var parts []string
	for i := 0; i < n; i++ {
		k := pick(t, "qk", qkeys)
		switch rapid.IntRange(0, 5).Draw(t, "pairform") {
		case 0:
			parts = append(parts, k) // value-less
		case 1:
			parts = append(parts, "") // && artefact
		default:
			parts = append(parts, k+"="+pick(t, "qv", qvals))
		}
	}
	return "?" + strings.Join(parts, "&")
}

// HostileURL draws an arbitrary URL-ish text: absolute, scheme-relative, scheme-less, relative forms,
// with optional quotes / whitespace wrapping and byte-level mutations.
func HostileURL(t *rapid.T) string {
	var s string
	switch rapid.IntRange(0, 11).Draw(t, "form") {
	case 0, 1, 2, 3, 4: // absolute
		s = pick(t, "scheme", schemes) + "://" + pick(t, "ui", userinfos) + Host(t) + pick(t, "port", ports) + Path(t, 4) + Query(t, 4) + pick(t, "frag", frags)
	case 5: // scheme-relative
		s = "//" + Host(t) + pick(t, "port", ports) + Path(t, 3) + Query(t, 3) + pick(t, "frag", frags)
	case 6: // scheme-less
		s = Host(t) + pick(t, "port", ports) + Path(t, 3) + Query(t, 3)
	case 7: // path-absolute
		s = Path(t, 4) + Query(t, 3) + pick(t, "frag", frags)
	case 8: // path-relative
		p := Path(t, 4)
		s = strings.TrimPrefix(p, "/") + Query(t, 3) + pick(t, "frag", frags)
	case 9: // query-only / fragment-only / empty
		s = pick(t, "tiny", []string{"", "?", "#", "?a=1", "#top", ".", "..", "./", "../", "?a=1&b=2#f"})
	case 10: // opaque schemes
		s = pick(t, "opaque", []string{"mailto:a@example.com", "javascript:void(0)", "data:text/plain,hi", "tel:+1", "about:blank", "http:example.com/x", "http:/example.com/x", "http:///example.com/x", "https:\\\\example.com\\x", "http://", "://invalid-url", "http://[", "http://a.b:/", "http://a.b/?#"})
	default: // free text
		s = rapid.StringN(0, 24, 64).Draw(t, "free")
	}
	// wrappers
	switch rapid.IntRange(0, 11).Draw(t, "wrap") {
	case 0:
		s = `"` + s + `"`
	case 1:
		s = `'` + s + `'`
	case 2:
		s = " " + s + " "
	case 3:
		s = "\t" + s + "\n"
	case 4:
		s = `"'` + s
	}
	// mutations
	nm := 0
	if rapid.IntRange(0, 3).Draw(t, "mutate") == 0 {
		nm = rapid.IntRange(1, 3).Draw(t, "nmut")
	}
	for i := 0; i < nm; i++ {
		rs := []rune(s)
		pos := rapid.IntRange(0, len(rs)).Draw(t, "mpos")
		r := hostileRunes[rapid.IntRange(0, len(hostileRunes)-1).Draw(t, "mrune")]
		switch rapid.IntRange(0, 2).Draw(t, "mop") {
		case 0: // insert
			rs = append(rs[:pos], append([]rune{r}, rs[pos:]...)...)
		case 1: // replace
			if pos < len(rs) {
				rs[pos] = r
			}
		case 2: // delete
			if pos < len(rs) {
				rs = append(rs[:pos], rs[pos+1:]...)
			}
		}
		s = string(rs)
	}
	return s
}

// ClassOfURL labels a URL text for the coverage histogram.
func ClassOfURL(s string) string {
	ts := strings.Trim(s, "\"' \t\n")
	low := strings.ToLower(ts)
	switch {
	case ts == "":
		return "url:empty"
	case strings.HasPrefix(low, "http://") || strings.HasPrefix(low, "https://"):
		return "url:abs-http"
	case strings.HasPrefix(ts, "//"):
		return "url:scheme-relative"
	case strings.HasPrefix(ts, "/"):
		return "url:path-absolute"
	case strings.HasPrefix(ts, "?"):
		return "url:query-only"
	case strings.HasPrefix(ts, "#"):
		return "url:fragment-only"
	case strings.Contains(low, "://") || strings.HasPrefix(low, "mailto:") || strings.HasPrefix(low, "javascript:") || strings.HasPrefix(low, "data:"):
		return "url:other-scheme"
	default:
		return "url:relative-or-schemeless"
	}
}

// ---------------------------------------------------------------------------------------------
// Well-formed sub-grammar: RFC 3986 ∩ WHATWG-agreeing characters. Used where the oracle is a resolver
// or an exact query comparison.

// WFAbs is a well-formed absolute http(s) URL given by its components.
type WFAbs struct {
	Scheme string   `json:"scheme"`
	Host   string   `json:"host"`
	Port   string   `json:"port"` // "" or ":8080" (never the default port)
	Segs   []string `json:"segs"` // path segments; nil ⇒ path "/"
	Slash  bool     `json:"slash"`
	Query  []KV     `json:"query"` // nil ⇒ no query
}

// KV is one query parameter in its *encoded* spelling; HasEq=false means a value-less key ("?k").
type KV struct {
	K     string `json:"k"`
	V     string `json:"v"`
	HasEq bool   `json:"eq"`
}

var wfHosts = []string{"example.com", "www.example.org", "a.b", "cdn.site.net", "media.example.com", "x1.y2.z3"}
// (the last four: percent-encoded reserved characters - a directory or file name that contains "/", "?", "#" or "%" itself)
var wfSegs = []string{"a", "b", "c", "dir", "img", "x.png", "index.html", "v1", "style.css", "a-b", "a_b", "~u", "file.tar.gz", "p2", "A", "AC%2FDC", "What%3F", "C%23", "100%25"}
var wfKeys = []string{"a", "b", "c", "q", "id", "page", "x.y", "k-1", "utm_source", "k%3D1", "a%3Bb", "p%26q"}
var wfVals = []string{"1", "2", "", "x", "hello", "x+y", "x%20y", "%C3%A9", "a.b", "A_B-c~d", "%26amp", "100%25", "a%3Bb", "x%3Dy", "%3D", "k%3Dv%26w%3Bz", "%3b", "http://other.example/x", "https://other.example/a/b.html"}

// WFAbsGen draws a well-formed absolute URL.
func WFAbsGen(t *rapid.T, label string) WFAbs {
	u := WFAbs{
		Scheme: pick(t, label+".scheme", []string{"http", "https"}),
		Host:   pick(t, label+".host", wfHosts),
		Port:   pick(t, label+".port", []string{"", "", "", ":8080", ":81"}),
	}
	n := rapid.IntRange(0, 4).Draw(t, label+".nseg")
	for i := 0; i < n; i++ {
		u.Segs = append(u.Segs, pick(t, label+".seg", wfSegs))
	}
	u.Slash = n > 0 && rapid.IntRange(0, 2).Draw(t, label+".slash") == 0
	u.Query = WFQueryGen(t, label+".q", 4)
	return u
}

// WFQueryGen draws 0..max well-formed query parameters (repeated and value-less keys included).
func WFQueryGen(t *rapid.T, label string, max int) []KV {
	n := rapid.IntRange(0, max).Draw(t, label+".n")
	var q []KV
	for i := 0; i < n; i++ {
		kv := KV{K: pick(t, label+".k", wfKeys), HasEq: true}
		if rapid.IntRange(0, 5).Draw(t, label+".valueless") == 0 {
			kv.HasEq = false
		} else {
			kv.V = pick(t, label+".v", wfVals)
		}
		q = append(q, kv)
	}
	return q
}

// QueryText renders encoded pairs as "k=v&k2".
func QueryText(q []KV) string {
	var parts []string
	for _, kv := range q {
		if kv.HasEq {
			parts = append(parts, kv.K+"="+kv.V)
		} else {
			parts = append(parts, kv.K)
		}
	}
	return strings.Join(parts, "&")
}

// PathText renders the path.
func (u WFAbs) PathText() string {
	if len(u.Segs) == 0 {
		return "/"
	}
	p := "/" + strings.Join(u.Segs, "/")
	if u.Slash {
		p += "/"
	}
	return p
}

// Text renders the URL.
func (u WFAbs) Text() string {
	s := u.Scheme + "://" + u.Host + u.Port + u.PathText()
	if u.Query != nil {
		s += "?" + QueryText(u.Query)
	}
	return s
}

// WFRef is a well-formed relative (or absolute) reference.
type WFRef struct {
	Kind  string   `json:"kind"` // abs | scheme-rel | path-abs | path-rel | query-only | empty | frag-only
	Abs   *WFAbs   `json:"abs,omitempty"`
	Segs  []string `json:"segs,omitempty"` // may contain "." and ".."
	Slash bool     `json:"slash,omitempty"`
	Query []KV     `json:"query,omitempty"`
	HasQ  bool     `json:"hasq,omitempty"`
	Frag  string   `json:"frag,omitempty"`
}

// WFRefGen draws a well-formed reference.
func WFRefGen(t *rapid.T, label string) WFRef {
	// the empty reference is not generated: goada rejects an empty input outright ("empty url string"), and the
	// statement lists path-absolute, path-relative, query-only and scheme-relative forms; a rejected URL is a
	// permitted outcome (error), not a wrong resolution.
	kinds := []string{"abs", "scheme-rel", "path-abs", "path-abs", "path-rel", "path-rel", "path-rel", "query-only", "frag-only"}
	r := WFRef{Kind: pick(t, label+".kind", kinds)}
	r.Frag = pick(t, label+".frag", []string{"", "", "#top", "#a/b?c", "#see-http://x.example/y"})
	switch r.Kind {
	case "abs", "scheme-rel":
		a := WFAbsGen(t, label+".abs")
		r.Abs = &a
	case "path-abs", "path-rel":
		n := rapid.IntRange(1, 5).Draw(t, label+".nseg")
		for i := 0; i < n; i++ {
			r.Segs = append(r.Segs, pick(t, label+".seg", append([]string{".", "..", "..", "."}, wfSegs...)))
		}
		r.Slash = rapid.IntRange(0, 3).Draw(t, label+".slash") == 0
		if rapid.IntRange(0, 1).Draw(t, label+".hasq") == 1 {
			r.HasQ = true
			r.Query = WFQueryGen(t, label+".q", 3)
		}
	case "query-only":
		r.HasQ = true
		r.Query = WFQueryGen(t, label+".q", 3)
	case "frag-only":
		r.Frag = pick(t, label+".frag2", []string{"#top", "#", "#x=y"})
	}
	return r
}

// Text renders the reference.
func (r WFRef) Text() string {
	switch r.Kind {
	case "abs":
		return r.Abs.Text() + r.Frag
	case "scheme-rel":
		return strings.TrimPrefix(r.Abs.Text(), r.Abs.Scheme+":") + r.Frag
	case "path-abs", "path-rel":
		p := strings.Join(r.Segs, "/")
		if r.Slash {
			p += "/"
		}
		if r.Kind == "path-abs" {
			p = "/" + p
		}
		if r.HasQ {
			p += "?" + QueryText(r.Query)
		}
		return p + r.Frag
	case "query-only":
		return "?" + QueryText(r.Query) + r.Frag
	case "frag-only":
		return r.Frag
	default:
		return ""
	}
}
