package verifgen

// URL pools for the seen-store checks (C08): a URL is held by its *decoded* components (its identity), and every use of
// it draws a fresh *spelling* of the query string (form-encoding choices that denote the same parameters). All
// spellings are fixpoints of the WHATWG serialisation (what preprocessor.NormalizeURL leaves in URL.Raw), so a harness
// that cannot call NormalizeURL (import cycle) may still hand the seen-stores exactly what the pipeline would.

import (
	"encoding/json"
	"fmt"
	"strings"

	"pgregory.net/rapid"
)

// SeenPair is one decoded query parameter.
type SeenPair struct {
	K string `json:"k"`
	V string `json:"v"`
}

// SeenLogical is a URL by its decoded components.
type SeenLogical struct {
	Scheme string     `json:"scheme"`
	Host   string     `json:"host"`
	Port   string     `json:"port"` // "" or ":8080"
	Path   string     `json:"path"`
	Pairs  []SeenPair `json:"pairs"`
}

// Key is the identity of the URL, computed from the components (never from a rendered text).
func (l SeenLogical) Key() string {
	b, _ := json.Marshal(l.Pairs)
	return l.Scheme + "://" + l.Host + l.Port + l.Path + " " + string(b)
}

// Text renders the URL with the given query spelling; ns (may be empty) is prefixed to the host as a label.
func (l SeenLogical) Text(ns string, query string) string {
	h := l.Host
	if ns != "" {
		h = ns + "." + h
	}
	s := l.Scheme + "://" + h + l.Port + l.Path
	if query != "" {
		s += "?" + query
	}
	return s
}

var seenHosts = []string{"example.com", "cdn.site.net"}
var seenPaths = []string{"/", "/a", "/img/x.png", "/dir/index.html", "/v1/a-b/~u", "/style.css"}
var seenKeys = []string{"a", "b", "q", "id", "k k", "é", "x.y", "utm_source", "v"}
// (the last value makes the URL longer than 2 KiB: signed / tokenised CDN links)
var seenVals = []string{strings.Repeat("t0k3n", 500), "1", "2", "", "x y", "é", "a&b", "a=b", "100%", "A_B-c~d", "http://e.com/?a=1", "1,2", "12:30", "x+y", "12345"}

func seenPairGen(t *rapid.T, label string) SeenPair {
	return SeenPair{K: pick(t, label+".k", seenKeys), V: pick(t, label+".v", seenVals)}
}

func seenFresh(t *rapid.T, label string) SeenLogical {
	l := SeenLogical{
		Scheme: pick(t, label+".scheme", []string{"http", "https"}),
		Host:   pick(t, label+".host", seenHosts),
		Port:   pick(t, label+".port", []string{"", "", ":8080"}),
		Path:   pick(t, label+".path", seenPaths),
	}
	for i, n := 0, rapid.IntRange(0, 5).Draw(t, label+".npairs"); i < n; i++ {
		l.Pairs = append(l.Pairs, seenPairGen(t, fmt.Sprintf("%s.p%d", label, i)))
	}
	return l
}

// SeenPoolGen draws n URLs; later ones are mostly near-misses of earlier ones (parameters swapped, repeated, dropped,
// one value changed, another path) — different URLs that a sloppy canonical form would conflate.
func SeenPoolGen(t *rapid.T, label string, n int) []SeenLogical {
	var pool []SeenLogical
	for i := 0; i < n; i++ {
		lb := fmt.Sprintf("%s%d", label, i)
		if i == 0 || rapid.IntRange(0, 3).Draw(t, lb+".fresh") == 0 {
			pool = append(pool, seenFresh(t, lb))
			continue
		}
		src := pool[rapid.IntRange(0, i-1).Draw(t, lb+".from")]
		l := src
		l.Pairs = append([]SeenPair(nil), src.Pairs...)
		switch op := rapid.IntRange(0, 8).Draw(t, lb+".mut"); {
		case op == 7 && strings.ToUpper(l.Path) != l.Path: // the same path in another letter case: another resource
			if i := strings.LastIndexByte(l.Path, '/'); i >= 0 && i+1 < len(l.Path) {
				l.Path = l.Path[:i+1] + strings.ToUpper(l.Path[i+1:i+2]) + l.Path[i+2:]
			}
		case op == 8 && len(l.Pairs) >= 1: // a key or value in another letter case
			a := rapid.IntRange(0, len(l.Pairs)-1).Draw(t, lb+".case")
			if up := strings.ToUpper(l.Pairs[a].V); up != l.Pairs[a].V {
				l.Pairs[a].V = up
			} else if up := strings.ToUpper(l.Pairs[a].K); up != l.Pairs[a].K {
				l.Pairs[a].K = up
			} else {
				l.Pairs[a].V = strings.ToLower(l.Pairs[a].V)
			}
		case op == 0 && len(l.Pairs) >= 2: // swap two parameters
			a := rapid.IntRange(0, len(l.Pairs)-2).Draw(t, lb+".swap")
			l.Pairs[a], l.Pairs[a+1] = l.Pairs[a+1], l.Pairs[a]
		case op == 1 && len(l.Pairs) >= 1 && len(l.Pairs) < 5: // repeat a parameter
			a := rapid.IntRange(0, len(l.Pairs)-1).Draw(t, lb+".dup")
			l.Pairs = append(l.Pairs, l.Pairs[a])
		case op == 2 && len(l.Pairs) >= 1: // drop a parameter
			a := rapid.IntRange(0, len(l.Pairs)-1).Draw(t, lb+".drop")
			l.Pairs = append(l.Pairs[:a], l.Pairs[a+1:]...)
		case op == 3 && len(l.Pairs) >= 1: // change one value
			a := rapid.IntRange(0, len(l.Pairs)-1).Draw(t, lb+".chg")
			l.Pairs[a].V = pick(t, lb+".newv", seenVals)
		case op == 4:
			l.Path = pick(t, lb+".path", seenPaths)
		case op == 5 && len(l.Pairs) < 5:
			l.Pairs = append(l.Pairs, seenPairGen(t, lb+".add"))
		default:
			if l.Scheme == "http" {
				l.Scheme = "https"
			} else {
				l.Scheme = "http"
			}
		}
		if len(l.Pairs) == 0 {
			l.Pairs = nil
		}
		pool = append(pool, l)
	}
	return pool
}

const seenLiteralOK = ",:/@!$()*?"

func seenEncode(s string, style int, isKey bool) string {
	var b strings.Builder
	hex := "0123456789ABCDEF"
	if style == 2 {
		hex = "0123456789abcdef"
	}
	esc := func(c byte) { b.WriteByte('%'); b.WriteByte(hex[c>>4]); b.WriteByte(hex[c&15]) }
	first := true
	for i := 0; i < len(s); i++ {
		c := s[i]
		unreserved := c >= 'a' && c <= 'z' || c >= 'A' && c <= 'Z' || c >= '0' && c <= '9' || c == '-' || c == '_' || c == '.' || c == '~'
		switch {
		case unreserved:
			if style == 4 || (style == 5 && first) {
				esc(c)
			} else {
				b.WriteByte(c)
			}
			first = false
		case c == ' ':
			if style == 1 || style == 4 {
				b.WriteString("%20")
			} else {
				b.WriteByte('+')
			}
		case style == 3 && (strings.IndexByte(seenLiteralOK, c) >= 0 || (c == '=' && !isKey)):
			b.WriteByte(c)
		default:
			esc(c)
		}
	}
	return b.String()
}

// SeenSpell draws one spelling of the URL's query string ("" when it has no parameters). Style 0 is the form Zeno's
// canonical string uses itself (QueryEscape, always "k=v"); the others spell the same parameters differently:
// %20 for '+', lower-case hex digits, literal sub-delimiters, everything escaped, one unreserved character escaped,
// and value-less keys ("k" for "k=").
// Narrowing: no literal ';' (net/url treats such a pair as malformed and Zeno drops it — C09's domain), no empty key.
func SeenSpell(t *rapid.T, label string, l SeenLogical) string {
	var parts []string
	for i, p := range l.Pairs {
		style := rapid.IntRange(0, 5).Draw(t, fmt.Sprintf("%s.style%d", label, i))
		s := seenEncode(p.K, style, true)
		if p.V != "" || rapid.IntRange(0, 1).Draw(t, fmt.Sprintf("%s.eq%d", label, i)) == 0 {
			s += "=" + seenEncode(p.V, style, false)
		}
		parts = append(parts, s)
	}
	return strings.Join(parts, "&")
}

// SeenCanonicalSpelling is the style-0 spelling (what URL.String() is expected to look like).
func SeenCanonicalSpelling(l SeenLogical) string {
	var parts []string
	for _, p := range l.Pairs {
		parts = append(parts, seenEncode(p.K, 0, true)+"="+seenEncode(p.V, 0, false))
	}
	return strings.Join(parts, "&")
}
