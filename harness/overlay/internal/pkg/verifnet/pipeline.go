package verifnet

import (
	"fmt"
	"os"
	"path/filepath"
	"strings"
	"sync"
	"sync/atomic"
	"time"

	"github.com/CorentinB/warc"
	"github.com/internetarchive/Zeno/internal/pkg/archiver"
	"github.com/internetarchive/Zeno/internal/pkg/config"
	"github.com/internetarchive/Zeno/internal/pkg/controler/pause"
	"github.com/internetarchive/Zeno/internal/pkg/finisher"
	"github.com/internetarchive/Zeno/internal/pkg/postprocessor"
	"github.com/internetarchive/Zeno/internal/pkg/postprocessor/domainscrawl"
	"github.com/internetarchive/Zeno/internal/pkg/preprocessor"
	"github.com/internetarchive/Zeno/internal/pkg/preprocessor/seencheck"
	"github.com/internetarchive/Zeno/internal/pkg/reactor"
	"github.com/internetarchive/Zeno/internal/pkg/stats"
	"github.com/internetarchive/Zeno/internal/pkg/verifcfg"
	"github.com/internetarchive/Zeno/internal/pkg/verifref"
	"github.com/internetarchive/Zeno/pkg/models"
)

// Settings are the per-lifecycle knobs of the socket pipeline (all process-level in the real crawler).
type Settings struct {
	Workers        int   `json:"workers"`
	MaxAssets      int   `json:"max_concurrent_assets"`
	MaxRedirect    int   `json:"max_redirect"`
	MaxRetry       int   `json:"max_retry"`
	Seencheck      bool  `json:"seencheck"`
	WARCPool       int   `json:"warc_pool_size"`
	WARCOnDisk     bool  `json:"warc_on_disk,omitempty"`
	WARCSizeMB     int   `json:"warc_size_mb,omitempty"` // 0 = large (no rotation)
	LocalDedupe    bool  `json:"local_dedupe"`
	DedupeSize     int   `json:"warc_dedupe_size"` // 0 = library default (2048)
	DiscardStatus  []int `json:"warc_discard_status,omitempty"`
	HTTPTimeoutSec int   `json:"http_timeout_s,omitempty"` // 0 = none (the CLI default -1)
	RateLimit      bool  `json:"rate_limit,omitempty"`     // real limiter with a generous capacity
	Hosts          int   `json:"hosts"`
}

// Finish is one message observed on the source's finish channel, with what the receiving goroutine saw at that instant.
type Finish struct {
	Seq       int64
	At        time.Time
	Item      *models.Item
	Pending   []string // nodes still Fresh/PreProcessed/Archived
	OpenBody  []string // nodes whose URL still holds a body
	Snapshot  *Snapshot
	WARCError string
}

// Snapshot is the content of the job's WARC files at one instant (all complete members).
type Snapshot struct {
	Records   []*verifref.WARCRecord
	Truncated []string // files whose tail was an incomplete member at that instant
}

// warcIndex reads the job's WARC files incrementally.
type warcIndex struct {
	mu      sync.Mutex
	dir     string
	offsets map[string]int64 // by file name without ".open"
	records []*verifref.WARCRecord
}

func (x *warcIndex) refresh() (*Snapshot, error) {
	x.mu.Lock()
	defer x.mu.Unlock()
	ents, err := os.ReadDir(x.dir)
	if err != nil && !os.IsNotExist(err) {
		return nil, err
	}
	snap := &Snapshot{}
	for _, de := range ents {
		name := de.Name()
		if !strings.HasSuffix(name, ".warc.gz") && !strings.HasSuffix(name, ".warc.gz.open") {
			continue
		}
		base := strings.TrimSuffix(name, ".open")
		wf, err := verifref.ReadWARCFile(filepath.Join(x.dir, name), x.offsets[base])
		if err != nil && os.IsNotExist(err) && name != base {
			// the writer renamed the file (rotation / close) between the directory listing and the open
			wf, err = verifref.ReadWARCFile(filepath.Join(x.dir, base), x.offsets[base])
		}
		if wf != nil {
			x.records = append(x.records, wf.Records...)
			x.offsets[base] = wf.NextOffset
			if wf.TruncatedTail {
				snap.Truncated = append(snap.Truncated, name)
			}
		}
		if err != nil {
			snap.Records = append([]*verifref.WARCRecord(nil), x.records...)
			return snap, err
		}
	}
	snap.Records = append([]*verifref.WARCRecord(nil), x.records...)
	return snap, nil
}

// Pipeline is one running lifecycle.
type Pipeline struct {
	S         Settings
	Dir       string
	Farm      *Farm
	Seq       *atomic.Int64
	WARCDir   string
	TempDir   string
	finishCh  chan *models.Item
	produceCh chan *models.Item
	idx       *warcIndex
	// ParseAtFinish: parse the WARC files in the goroutine that receives the finish message, before anything else
	ParseAtFinish bool

	mu       sync.Mutex
	finishes []*Finish
	produced []*models.Item
	stopRecv chan struct{}
	recvWg   sync.WaitGroup
	stopped  atomic.Bool
}

// Start wires and starts the stages the way controler.startPipeline does (without watchers, API, consul, source).
func Start(s Settings, dir string) (*Pipeline, error) {
	cfg := verifcfg.Quiet()
	cfg.Job = "verifnet"
	cfg.JobPath = filepath.Join(dir, "job")
	cfg.WARCTempDir = filepath.Join(dir, "job", "temp")
	cfg.WARCPrefix = "NET"
	cfg.WARCPoolSize = s.WARCPool
	cfg.WARCSize = 1 << 20
	if s.WARCSizeMB > 0 {
		cfg.WARCSize = s.WARCSizeMB
	}
	cfg.WARCWriteAsync = false
	cfg.WARCOnDisk = s.WARCOnDisk
	cfg.WARCDedupeSize = s.DedupeSize
	cfg.DisableLocalDedupe = !s.LocalDedupe
	cfg.WARCDiscardStatus = append([]int{}, s.DiscardStatus...)
	cfg.CDXDedupeServer = ""
	cfg.WorkersCount = s.Workers
	cfg.MaxConcurrentAssets = s.MaxAssets
	cfg.MaxRedirect = s.MaxRedirect
	cfg.MaxRetry = s.MaxRetry
	cfg.MaxHops = 0
	cfg.UseSeencheck = s.Seencheck
	cfg.DisableSeencheck = !s.Seencheck
	cfg.UseHQ = false
	cfg.Proxy = ""
	cfg.ExcludeHosts = nil
	cfg.ExcludeString = nil
	cfg.IncludeHosts = nil
	cfg.IncludeString = nil
	cfg.ExclusionRegexes = nil
	cfg.DisableAssetsCapture = false
	cfg.DisableHTMLTag = nil
	cfg.DisableRateLimit = !s.RateLimit
	cfg.RateLimitCapacity = 1000
	cfg.RateLimitRefillRate = 1000
	cfg.RateLimitCleanupFrequency = time.Hour
	cfg.HTTPTimeout = s.HTTPTimeoutSec
	cfg.HTTPReadDeadline = int(60 * time.Second)
	cfg.UserAgent = "verifnet"
	cfg.RandomLocalIP = false
	domainscrawl.Reset()
	// the operator's options go through the same post-processing as on the command line (defaults, derived values,
	// whatever is done to lists such as --warc-discard-status); the paths it derives are then pointed back at the scratch
	// directory
	jobPath, tempDir := cfg.JobPath, cfg.WARCTempDir
	if err := config.GenerateCrawlConfig(); err != nil {
		return nil, fmt.Errorf("GenerateCrawlConfig: %w", err)
	}
	cfg.JobPath, cfg.WARCTempDir = jobPath, tempDir
	cfg.UseSeencheck = s.Seencheck
	if err := os.MkdirAll(cfg.JobPath, 0o755); err != nil {
		return nil, err
	}
	stats.Init()
	stats.Reset()
	pause.VerifReset()

	p := &Pipeline{S: s, Dir: dir, Seq: &atomic.Int64{}, stopRecv: make(chan struct{}), ParseAtFinish: true,
		WARCDir: filepath.Join(cfg.JobPath, "warcs"), TempDir: cfg.WARCTempDir}
	p.idx = &warcIndex{dir: p.WARCDir, offsets: map[string]int64{}}
	var err error
	if p.Farm, err = NewFarm(s.Hosts, p.Seq); err != nil {
		return nil, fmt.Errorf("origins: %w", err)
	}

	reactorOut := make(chan *models.Item, s.Workers)
	if err := reactor.Start(s.Workers, reactorOut); err != nil {
		return nil, fmt.Errorf("reactor: %w", err)
	}
	if s.Seencheck {
		if err := seencheck.Start(cfg.JobPath); err != nil {
			return nil, fmt.Errorf("seencheck: %w", err)
		}
	}
	preOut := make(chan *models.Item, s.Workers)
	if err := preprocessor.Start(reactorOut, preOut); err != nil {
		return nil, fmt.Errorf("preprocessor: %w", err)
	}
	archOut := make(chan *models.Item, s.Workers)
	if err := archiver.Start(preOut, archOut); err != nil {
		return nil, fmt.Errorf("archiver: %w", err)
	}
	postOut := make(chan *models.Item, s.Workers)
	if err := postprocessor.Start(archOut, postOut); err != nil {
		return nil, fmt.Errorf("postprocessor: %w", err)
	}
	p.finishCh = make(chan *models.Item, s.Workers)
	p.produceCh = make(chan *models.Item, s.Workers)
	if err := finisher.Start(postOut, p.finishCh, p.produceCh); err != nil {
		return nil, fmt.Errorf("finisher: %w", err)
	}
	p.recvWg.Add(2)
	go func() {
		defer p.recvWg.Done()
		for {
			select {
			case it := <-p.finishCh:
				// FIRST the WARC files, as they are at this instant; only then anything else
				f := &Finish{Item: it}
				if p.ParseAtFinish {
					snap, err := p.idx.refresh()
					f.Snapshot = snap
					if err != nil {
						f.WARCError = err.Error()
					}
				}
				f.Seq, f.At = p.Seq.Add(1), time.Now()
				it.Traverse(func(n *models.Item) {
					switch n.GetStatus() {
					case models.ItemFresh, models.ItemPreProcessed, models.ItemArchived:
						f.Pending = append(f.Pending, n.GetID()+":"+n.GetStatus().String())
					}
					if u := n.GetURL(); u != nil && u.GetBody() != nil {
						f.OpenBody = append(f.OpenBody, u.String())
					}
				})
				p.mu.Lock()
				p.finishes = append(p.finishes, f)
				p.mu.Unlock()
			case <-p.stopRecv:
				return
			}
		}
	}()
	go func() {
		defer p.recvWg.Done()
		for {
			select {
			case it := <-p.produceCh:
				p.mu.Lock()
				p.produced = append(p.produced, it)
				p.mu.Unlock()
			case <-p.stopRecv:
				return
			}
		}
	}()
	return p, nil
}

// Insert hands a seed to the reactor like a source would (blocks while no token is free).
func (p *Pipeline) Insert(id, rawURL string) error {
	u := &models.URL{Raw: rawURL}
	if err := u.Parse(); err != nil {
		return err
	}
	it := models.NewItem(id, u, "")
	it.SetSource(models.ItemSourceQueue)
	return reactor.ReceiveInsert(it)
}

// NFinished is the number of finish messages received so far.
func (p *Pipeline) NFinished() int {
	p.mu.Lock()
	defer p.mu.Unlock()
	return len(p.finishes)
}

// Finishes returns a copy of the finish messages received so far.
func (p *Pipeline) Finishes() []*Finish {
	p.mu.Lock()
	defer p.mu.Unlock()
	return append([]*Finish(nil), p.finishes...)
}

// DropFinishes forgets the finish messages (and with them the item trees) received so far.
func (p *Pipeline) DropFinishes() {
	p.mu.Lock()
	defer p.mu.Unlock()
	p.finishes = nil
	p.produced = nil
}

// SnapshotNow parses what the WARC files hold now.
func (p *Pipeline) SnapshotNow() (*Snapshot, error) { return p.idx.refresh() }

// Tracked returns the ids the reactor still tracks.
func (p *Pipeline) Tracked() []string { return reactor.GetStateTable() }

// SpoolFiles lists leftover spool files (zeno-*, warc-*) in the WARC temp dir, the job dir's temp and os.TempDir().
func (p *Pipeline) SpoolFiles() []string {
	var out []string
	seen := map[string]bool{}
	for _, d := range []string{p.TempDir, os.TempDir(), filepath.Join(p.Dir, "job")} {
		if seen[d] {
			continue
		}
		seen[d] = true
		ents, _ := os.ReadDir(d)
		for _, de := range ents {
			if !de.IsDir() && (strings.HasPrefix(de.Name(), "zeno-") || strings.HasPrefix(de.Name(), "warc-")) {
				out = append(out, filepath.Join(d, de.Name()))
			}
		}
	}
	return out
}

// WARCBytes is the total size of the job's WARC files right now.
func (p *Pipeline) WARCBytes() int64 {
	var n int64
	ents, _ := os.ReadDir(p.WARCDir)
	for _, de := range ents {
		if fi, err := de.Info(); err == nil {
			n += fi.Size()
		}
	}
	return n
}

// CloseIdle closes idle keep-alive connections of the archiver's clients (keep-alives are disabled there anyway).
func (p *Pipeline) CloseIdle() {
	for _, c := range archiver.GetClients() {
		c.CloseIdleConnections()
	}
}

// WARCQueue is the number of connections whose records are not yet written (library wait group).
func (p *Pipeline) WARCQueue() int {
	if p.stopped.Load() {
		return 0
	}
	return archiver.GetWARCWritingQueueSize()
}

// HoldWARCWriter puts a gate in front of the WARC writers of every client: record batches queue up (as they do behind a
// slow disk or a busy writer pool) until release is called. Must be called before the first request.
func (p *Pipeline) HoldWARCWriter() (release func()) {
	gate := make(chan struct{})
	for _, c := range archiver.GetClients() {
		inner := c.WARCWriter
		outer := make(chan *warc.RecordBatch, cap(inner))
		c.WARCWriter = outer
		go func() {
			defer close(inner) // the client's Close() closes the channel it knows (outer): pass that on
			<-gate
			for b := range outer {
				inner <- b
			}
		}()
	}
	var once sync.Once
	return func() { once.Do(func() { close(gate) }) }
}

// Stop stops the stages in the order of controler.stopPipeline and makes them startable again. The job directory is kept
// (the caller parses the final WARC files) until Cleanup.
func (p *Pipeline) Stop() {
	if p.stopped.Swap(true) {
		return
	}
	reactor.Freeze()
	preprocessor.Stop()
	archiver.Stop()
	postprocessor.Stop()
	finisher.Stop()
	if p.S.Seencheck {
		seencheck.Close()
	}
	seencheck.VerifReset()
	reactor.Stop()
	close(p.stopRecv)
	p.recvWg.Wait()
	preprocessor.VerifReset()
	archiver.VerifReset()
	postprocessor.VerifReset()
	p.Farm.Close()
}

// Cleanup removes the job directory.
func (p *Pipeline) Cleanup() { os.RemoveAll(p.Dir) }

var _ = config.Get
