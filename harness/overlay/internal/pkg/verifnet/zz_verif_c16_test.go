package verifnet

// C16 — resource use does not grow with the number of seeds processed.
//
// One generated case = one lifecycle of the whole real pipeline: N seeds, quiescence, footprint; 4N more seeds,
// quiescence, footprint. Compared after N and after 4N (never against a cold start): goroutines, open file
// descriptors. At both quiescent points: the reactor tracks nothing and holds no token, no spool file is left in the
// WARC temp dir / job dir / os.TempDir(), no item reachable from a finish message holds a body, the limiter table is
// within its bound, every connection has delivered (or dropped) its WARC records.

import (
	"fmt"
	"os"
	"strings"
	"testing"
	"time"

	"github.com/internetarchive/Zeno/internal/pkg/archiver"
	"github.com/internetarchive/Zeno/internal/pkg/reactor"
	"github.com/internetarchive/Zeno/internal/pkg/veriflib"
	"pgregory.net/rapid"
)

const c16KFGzip = "C16-corrupt-gzip-leaks-connection"
const c16KFSpool = "C16-discarded-truncated-response-leaks-spool-file"

type c16NetCase struct {
	Case
	N int `json:"n"`
}

type c16Hist struct {
	Message  string     `json:"message,omitempty"`
	AfterN   *Footprint `json:"after_n,omitempty"`
	After4N  *Footprint `json:"after_4n,omitempty"`
	Requests int        `json:"requests"`
	Finished int        `json:"finished"`
	Elapsed  string     `json:"elapsed"`
	Detail   []string   `json:"detail,omitempty"`
	Dump     string     `json:"goroutines,omitempty"`
}

func c16Die(facet string, c c16NetCase, h c16Hist, msg string) {
	h.Dump = GoroutineDump()
	h.Message = msg
	veriflib.WriteFailure(facet[:3], facet, c, h, msg)
	fmt.Printf("--- FAIL: [%s] %s\n", facet, msg)
	veriflib.Flush()
	os.Exit(1)
}

// c16Quiesce waits until every connection has delivered its records and the origins are idle, then checks the
// idle-state invariants and returns the stable footprint.
func c16Quiesce(t veriflib.TB, c c16NetCase, run *Runner, phase string, hist func() c16Hist) Footprint {
	p := run.P
	tq := time.Now()
	defer func() {
		fmt.Printf("C16/net %s: quiescent point reached and checked in %s\n", phase, time.Since(tq).Round(time.Millisecond))
	}()
	for last, since := run.sig(), time.Now(); p.WARCQueue() > 0 || p.Farm.Active() > 0; time.Sleep(2 * time.Millisecond) {
		if s := run.sig(); s != last {
			last, since = s, time.Now()
		} else if time.Since(since) > c.Settings.Window() {
			var bad []string
			for _, e := range p.Farm.LogNow("") {
				if sp := c.Site[specKey(p.Farm, e)]; sp != nil && strings.HasPrefix(sp.Fault, "badgzip") && e.Attempt > sp.FailFirst {
					bad = append(bad, fmt.Sprintf("%s (%s)", e.URL, sp.Fault))
				}
			}
			h := hist()
			h.Detail = bad
			c16Die("C16/net", c, h, fmt.Sprintf("%s: every seed has been reported finished and the origins are idle, but %d connection(s) have still not delivered their WARC records (the client side never closed them) and nothing has moved for %s; responses with a corrupt gzip body in this run: %d",
				phase, p.WARCQueue(), c.Settings.Window(), len(bad)))
		}
	}
	fmt.Printf("C16/net %s: connections drained after %s\n", phase, time.Since(tq).Round(time.Millisecond))
	p.CloseIdle()
	fail := func(f string, a ...any) {
		h := hist()
		h.Message = phase + ": " + fmt.Sprintf(f, a...)
		run.StopWatched()
		veriflib.Fail(t, "C16", "C16/net", c, h, "%s", h.Message)
	}
	if tr := p.Tracked(); len(tr) != 0 {
		fail("every seed has been reported finished but the reactor still tracks %d seed(s): %v", len(tr), tr)
	}
	if n := reactor.VerifC16TokensInUse(); n != 0 {
		fail("every seed has been reported finished but %d reactor token(s) are still taken", n)
	}
	for _, f := range p.Finishes() {
		if len(f.OpenBody) > 0 {
			fail("seed %s was reported finished while the bodies of %v are still held (not closed)", f.Item.GetID(), f.OpenBody)
		}
		if len(f.Pending) > 0 {
			h := hist()
			h.Message = fmt.Sprintf("seed %s was reported finished while nodes still await work: %v", f.Item.GetID(), f.Pending)
			run.StopWatched()
			veriflib.Fail(t, "C01", "C01/net", c, h, "%s", h.Message)
		}
	}
	if n, max, ok := archiver.VerifC16Buckets(); ok && n > max {
		fail("the per-host limiter table holds %d buckets, its bound (workers x max-concurrent-assets) is %d", n, max)
	}
	p.DropFinishes()
	// Records of responses on archive()'s retry paths are written without anybody waiting for them: a record writer may
	// still be busy (its spool files exist until the record is in the WARC file). Leftover spool files are declared
	// only when neither their list nor the size of the WARC files has changed for the whole no-progress window.
	type spoolSig struct {
		files string
		bytes int64
	}
	ssig := func() spoolSig { return spoolSig{strings.Join(p.SpoolFiles(), " "), p.WARCBytes()} }
	for last, since := ssig(), time.Now(); last.files != ""; time.Sleep(5 * time.Millisecond) {
		if s := ssig(); s != last {
			last, since = s, time.Now()
		} else if time.Since(since) > c.Settings.Window() {
			var heads []string
			for _, f := range p.SpoolFiles() {
				b, _ := os.ReadFile(f)
				fi, _ := os.Stat(f)
				if len(b) > 160 {
					b = b[:160]
				}
				sz := int64(-1)
				if fi != nil {
					sz = fi.Size()
				}
				heads = append(heads, fmt.Sprintf("%s (%d bytes) begins %q", f[strings.LastIndexByte(f, '/')+1:], sz, b))
			}
			fail("the queue has drained but spool file(s) remain on disk and nothing has been written to the WARC files for %s: %s", c.Settings.Window(), strings.Join(heads, "; "))
		}
	}
	fp, samples, ok := StableFootprint(20*time.Millisecond, p.WARCBytes)
	if !ok {
		run.StopWatched()
		t.Fatalf("harness: footprint did not settle within %d samples (last %+v)", samples, fp)
	}
	if left := p.SpoolFiles(); len(left) > 0 {
		run.StopWatched()
		t.Fatalf("harness: spool files appeared after the footprint had settled: %v", left)
	}
	return fp
}

func propC16Net(t veriflib.TB, c c16NetCase) {
	veriflib.Journal("C16", "C16/net", c)
	defer veriflib.JournalDone()
	t0 := time.Now()
	dir, err := os.MkdirTemp(os.Getenv("VERIF_SCRATCH"), "net")
	if err != nil {
		t.Fatalf("harness: %v", err)
	}
	p, err := Start(c.Settings, dir)
	if err != nil {
		t.Fatalf("harness: start: %v", err)
	}
	defer p.Cleanup()
	p.ParseAtFinish = false
	p.Farm.AddSite(c.Site)
	run := &Runner{P: p}
	var fpN, fp4N *Footprint
	hist := func() c16Hist {
		return c16Hist{AfterN: fpN, After4N: fp4N, Finished: p.NFinished(), Requests: p.Farm.LogLen(), Elapsed: time.Since(t0).String()}
	}
	n := c.N
	if n > len(c.Seeds) {
		n = len(c.Seeds)
	}
	fmt.Printf("C16/net settings %s\n", veriflib.JSON(c.Settings))
	if hang := run.Feed(c.Seeds[:n], n); hang != "" {
		c16Die("C16/net", c, hist(), "the queue never drains, seed(s) were never reported finished: "+hang)
	}
	fmt.Printf("C16/net first %d seeds finished after %s\n", n, time.Since(t0).Round(time.Millisecond))
	a := c16Quiesce(t, c, run, fmt.Sprintf("after N=%d seeds", n), hist)
	fpN = &a
	censusN := GoroutineCensus()
	if hang := run.Feed(c.Seeds[n:], len(c.Seeds)-n); hang != "" {
		c16Die("C16/net", c, hist(), "the queue never drains, seed(s) were never reported finished: "+hang)
	}
	fmt.Printf("C16/net all %d seeds finished after %s\n", len(c.Seeds), time.Since(t0).Round(time.Millisecond))
	b := c16Quiesce(t, c, run, fmt.Sprintf("after N+4N=%d seeds", len(c.Seeds)), hist)
	fp4N = &b
	if err := run.InsertErr(); err != nil {
		run.StopWatched()
		t.Fatalf("harness: insert: %v", err)
	}
	// More after 4N than after N: leaked, or merely slow to go away (the 5-sample rule is short on a busy machine)? A
	// footprint that is still above the one after N when nothing has changed for the whole no-progress window is a leak.
	// Fewer after 4N than after N means the sample after N contained something on its way out: not growth.
	for last, since := b, time.Now(); (b.Goroutines > a.Goroutines || b.FDs > a.FDs) && time.Since(since) <= c.Settings.Window(); {
		time.Sleep(100 * time.Millisecond)
		b, _, _ = StableFootprint(20*time.Millisecond, p.WARCBytes)
		if b != last {
			last, since = b, time.Now()
			veriflib.Class("C16/net", "note:footprint-after-4N-settled-late")
		}
	}
	if b.Goroutines < a.Goroutines || b.FDs < a.FDs {
		veriflib.Class("C16/net", "note:sample-after-N-contained-a-transient")
	}
	var dumpIfGrown string
	var censusDiff []string
	if b.Goroutines > a.Goroutines {
		dumpIfGrown = GoroutineDump()
		censusDiff = CensusDiff(censusN, GoroutineCensus())
	}
	var fds []string
	if b.FDs > a.FDs {
		ents, _ := os.ReadDir("/proc/self/fd")
		for _, de := range ents {
			l, _ := os.Readlink("/proc/self/fd/" + de.Name())
			fds = append(fds, de.Name()+" -> "+l)
		}
	}
	all := p.Farm.Log("")
	if hang := run.StopWatched(); hang != "" {
		c16Die("C16/net", c, hist(), "after the footprint was taken: "+hang)
	}
	if b.Goroutines > a.Goroutines {
		h := hist()
		h.Dump = dumpIfGrown
		h.Detail = censusDiff
		h.Message = fmt.Sprintf("%d goroutines at quiescence after %d seeds, %d after %d seeds; groups that differ (top frame <- creator): %v", a.Goroutines, n, b.Goroutines, len(c.Seeds), censusDiff)
		veriflib.Fail(t, "C16", "C16/net", c, h, "%s", h.Message)
	}
	if b.FDs > a.FDs {
		h := hist()
		h.Detail = fds
		h.Message = fmt.Sprintf("%d open file descriptors at quiescence after %d seeds, %d after %d seeds", a.FDs, n, b.FDs, len(c.Seeds))
		veriflib.Fail(t, "C16", "C16/net", c, h, "%s", h.Message)
	}
	// evidence
	spooled, failures, redirects, badgz, transport := 0, 0, 0, 0, 0
	hosts := map[string]bool{}
	for _, e := range all {
		hosts[e.Host] = true
		switch {
		case e.Status == 0 || !e.Complete:
			transport++
		case e.Status >= 500 || e.Status == 429 || e.Status == 408:
			failures++
		case e.Status/100 == 3:
			redirects++
		}
		if sp := c.Site[specKey(p.Farm, e)]; sp != nil && e.Status == sp.Status {
			if strings.HasPrefix(sp.Fault, "badgzip") {
				badgz++
			}
			if sp.Kind == "text" && sp.Size > 2<<20 && e.Complete {
				spooled++
			}
		}
	}
	cl := []string{fmt.Sprintf("hosts>=%d", len(hosts)/10*10), fmt.Sprintf("workers:%d", c.Settings.Workers), fmt.Sprintf("maxretry:%d", c.Settings.MaxRetry)}
	for name, v := range map[string]int{"spooled>2MiB": spooled, "http-failures": failures, "redirects": redirects, "corrupt-gzip": badgz, "transport-errors": transport} {
		if v > 0 {
			cl = append(cl, "mix:"+name)
		}
	}
	if c.Settings.RateLimit {
		cl = append(cl, "ratelimit:on")
	}
	if c.Settings.HTTPTimeoutSec > 0 {
		cl = append(cl, "http-timeout:on")
	}
	key := fmt.Sprintf("%d|%s", c.N, veriflib.JSON(c.Settings)) + fmt.Sprintf("|%d|%d|%d|%d|%d|%d", len(all), spooled, failures, redirects, badgz, transport)
	veriflib.Record("C16/net", key, spooled > 0 && (failures+transport) > 0, cl, func() any {
		return map[string]any{"settings": c.Settings, "n": n, "seeds": len(c.Seeds), "requests": len(all), "after_n": a, "after_4n": b, "spooled": spooled,
			"http_failures": failures, "transport_errors": transport, "redirects": redirects, "corrupt_gzip": badgz, "hosts": len(hosts), "elapsed": time.Since(t0).String()}
	})
	fmt.Printf("C16/net: N=%d + %d seeds, %d requests, %d hosts, footprint %+v -> %+v, %s (%.0f responses/s, %.1f seeds/s)\n", n, len(c.Seeds)-n, len(all), len(hosts), a, b,
		time.Since(t0).Round(time.Millisecond), float64(len(all))/time.Since(t0).Seconds(), float64(len(c.Seeds))/time.Since(t0).Seconds())
}

func genC16NetCase(t *rapid.T) c16NetCase {
	s := Settings{
		Workers:       rapid.IntRange(2, 6).Draw(t, "workers"),
		MaxAssets:     rapid.IntRange(1, 8).Draw(t, "maxassets"),
		MaxRedirect:   rapid.IntRange(1, 3).Draw(t, "maxredirect"),
		MaxRetry:      []int{1, 1, 2}[rapid.IntRange(0, 2).Draw(t, "maxretry")],
		Seencheck:     rapid.IntRange(0, 3).Draw(t, "seencheck") != 0,
		WARCPool:      rapid.IntRange(1, 2).Draw(t, "pool"),
		WARCOnDisk:    rapid.IntRange(0, 3).Draw(t, "ondisk") == 0,
		LocalDedupe:   rapid.IntRange(0, 3).Draw(t, "localdedupe") != 0,
		DedupeSize:    1024,
		Hosts:         rapid.IntRange(10, 60).Draw(t, "hosts"),
		RateLimit:     rapid.IntRange(0, 1).Draw(t, "ratelimit") == 0,
		DiscardStatus: [][]int{{429}, nil, {429, 503}}[rapid.IntRange(0, 2).Draw(t, "discard")],
	}
	if rapid.IntRange(0, 2).Draw(t, "httptimeout") == 0 {
		s.HTTPTimeoutSec = 5
	}
	c := c16NetCase{Case: Case{Settings: s, Site: map[string]*Resp{}}}
	c.N = rapid.IntRange(veriflib.N("C16_NMIN", 30, 30), veriflib.N("C16_NMAX", 60, 150)).Draw(t, "n")
	mix := Mix{Huge: 6, BigText: 12, Faults: 40, BadGzip: 25, FailThenOK: 30, BadStatus: 150, MaxAssets: 5, Hosts: s.Hosts, AllowEOF: true, DedupeTotal: 1024, NoPenalty: s.RateLimit,
		Discard: s.DiscardStatus, KeepRejectedWhole: veriflib.FindingOpen(c16KFSpool)}
	if veriflib.FindingOpen(c16KFGzip) {
		mix.BadGzip = 0
		veriflib.Excluded("C16/net", "no corrupt gzip bodies generated (open finding "+c16KFGzip+")")
	}
	shared := GenShared(t, 2, 1024)
	for k := 1; k <= 5*c.N; k++ {
		c.Seeds = append(c.Seeds, GenSeed(t, k, c.Site, mix, shared))
	}
	return c
}

func TestVerif_C16_Net(t *testing.T) {
	defer veriflib.Flush()
	var rc c16NetCase
	if veriflib.ReplayCase("C16/net", &rc) {
		propC16Net(t, rc)
		return
	} else if veriflib.Replaying() {
		t.Skip()
	}
	rapid.Check(t, func(rt *rapid.T) {
		c := genC16NetCase(rt)
		veriflib.Guard("C16", "C16/net", c, func() { propC16Net(c02TB{rt}, c) })
	})
}

// Strict reproduction of the open finding: responses whose gzip body is corrupt.
func TestVerifKF_C16_CorruptGzipLeaksConnection(t *testing.T) {
	defer veriflib.Flush()
	c := c16NetCase{N: 3, Case: Case{Settings: Settings{Workers: 2, MaxAssets: 2, MaxRedirect: 1, MaxRetry: 1, WARCPool: 1, LocalDedupe: true, Hosts: 2}, Site: map[string]*Resp{}}}
	for k := 1; k <= 15; k++ {
		ref := fmt.Sprintf("h%d:/s%d/r1.txt", k%2, k)
		c.Site[ref] = &Resp{Status: 200, Kind: "text", Size: 300000, BodySeed: int64(k), CType: "text/plain", Framing: []string{"cl", "chunked"}[k%2], Gzip: true,
			Fault: []string{"badgzip-header", "badgzip-mid", "badgzip-crc"}[k%3]}
		c.Seeds = append(c.Seeds, SeedPlan{ID: fmt.Sprintf("seed-%d", k), Ref: ref, Prefix: fmt.Sprintf("/s%d/", k)})
	}
	propC16Net(t, c)
}

// Strict reproduction of the open finding: responses the discard policy rejects (429 in --warc-discard-status, Cloudflare
// challenge) whose body is cut short, with --warc-on-disk: the record's spool file is never removed.
func TestVerifKF_C16_DiscardedTruncatedLeaksSpoolFile(t *testing.T) {
	defer veriflib.Flush()
	c := c16NetCase{N: 2, Case: Case{Settings: Settings{Workers: 2, MaxAssets: 2, MaxRedirect: 1, MaxRetry: 0, WARCPool: 1, WARCOnDisk: true, LocalDedupe: true, Hosts: 2, DiscardStatus: []int{429}}, Site: map[string]*Resp{}}}
	for k := 1; k <= 10; k++ {
		ref := fmt.Sprintf("h%d:/s%d/r1.txt", k%2, k)
		r := &Resp{Status: 429, Kind: "text", Size: 3000, BodySeed: int64(k), CType: "text/plain", Framing: []string{"cl", "chunked"}[k%2], Fault: "truncate"}
		if k%3 == 0 {
			r.Status, r.CFHeader = 403, "cf-mitigated"
		}
		c.Site[ref] = r
		c.Seeds = append(c.Seeds, SeedPlan{ID: fmt.Sprintf("seed-%d", k), Ref: ref, Prefix: fmt.Sprintf("/s%d/", k)})
	}
	propC16Net(t, c)
}
