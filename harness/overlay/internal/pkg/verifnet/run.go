package verifnet

import (
	"fmt"
	"os"
	"runtime"
	"sort"
	"strings"
	"sync"
	"time"
)

// StepBound is the slowest legitimate step of the configuration: the longest uninterruptible retry sleep
// (2 s x retry number, the last one being 2 x (MaxRetry-1) s), the library's 1 s close sleep, the HTTP timeout if set.
func (s Settings) StepBound() time.Duration {
	b := time.Second
	if s.MaxRetry > 1 {
		b = time.Duration(2*(s.MaxRetry-1)) * time.Second
	}
	if t := time.Duration(s.HTTPTimeoutSec) * time.Second; t > b {
		b = t
	}
	return b
}

// Window is the no-progress window after which a hang is declared (>= 20 x the slowest legitimate step).
func (s Settings) Window() time.Duration { return 20*s.StepBound() + 10*time.Second }

// progress is the signature whose change counts as progress.
type progress struct {
	log, fin, active, queue, ins int
}

// Runner feeds seeds into a running pipeline and waits for them without using time as an oracle.
type Runner struct {
	P        *Pipeline
	mu       sync.Mutex
	inserted int
	insErr   error
}

func (r *Runner) sig() progress { return r.sigq(true) }

// sigq: while Stop() runs the archiver's globals are being reset, so the WARC queue is left out then.
func (r *Runner) sigq(queue bool) progress {
	r.mu.Lock()
	ins := r.inserted
	r.mu.Unlock()
	q := 0
	if queue {
		q = r.P.WARCQueue()
	}
	return progress{r.P.Farm.LogLen(), r.P.NFinished(), int(r.P.Farm.Active()), q, ins}
}

// Feed inserts the seeds from a source goroutine (back-pressure through the reactor's tokens) and returns when all of
// them have been reported finished (want = finish messages expected in total), or "" / a description of the hang.
func (r *Runner) Feed(seeds []SeedPlan, want int) (hang string) {
	done := make(chan struct{})
	go func() {
		defer close(done)
		for _, sp := range seeds {
			err := r.P.Insert(sp.ID, r.P.Farm.URL(sp.Ref))
			r.mu.Lock()
			if err != nil && r.insErr == nil {
				r.insErr = fmt.Errorf("%s: %w", sp.ID, err)
			}
			r.inserted++
			r.mu.Unlock()
		}
	}()
	last, lastChange := r.sig(), time.Now()
	win := r.P.S.Window()
	for {
		select {
		case <-done:
			if r.P.NFinished() >= want {
				return ""
			}
		default:
		}
		time.Sleep(5 * time.Millisecond)
		if s := r.sig(); s != last {
			last, lastChange = s, time.Now()
		} else if time.Since(lastChange) > win {
			return fmt.Sprintf("no progress for %s (window = 20 x slowest legitimate step %s + 10 s): %d of %d seeds inserted, %d of %d finished, %d requests seen, %d being served, %d connections awaiting their WARC records; reactor tracks %v",
				win, r.P.S.StepBound(), last.ins, len(seeds), last.fin, want, last.log, last.active, last.queue, r.P.Tracked())
		}
	}
}

// InsertErr reports the first insert error.
func (r *Runner) InsertErr() error {
	r.mu.Lock()
	defer r.mu.Unlock()
	return r.insErr
}

// StopWatched calls Stop and reports a hang when it does not return although nothing moves any more.
func (r *Runner) StopWatched() (hang string) {
	queued := r.P.WARCQueue()
	done := make(chan struct{})
	go func() { r.P.Stop(); close(done) }()
	last, lastChange := r.sigq(false), time.Now()
	win := r.P.S.Window()
	for {
		select {
		case <-done:
			return ""
		default:
		}
		time.Sleep(5 * time.Millisecond)
		if s := r.sigq(false); s != last {
			last, lastChange = s, time.Now()
		} else if time.Since(lastChange) > win {
			return fmt.Sprintf("Stop() has not returned and nothing has moved for %s: %d connection(s) had not delivered their WARC records when the stop began", win, queued)
		}
	}
}

// Footprint is the idle resource use of the process.
type Footprint struct {
	Goroutines int `json:"goroutines"`
	FDs        int `json:"fds"`
}

// SampleFootprint counts goroutines and open file descriptors.
func SampleFootprint() Footprint {
	n := 0
	if ents, err := os.ReadDir("/proc/self/fd"); err == nil {
		n = len(ents) - 1 // the directory handle used for the listing itself
	}
	return Footprint{Goroutines: runtime.NumGoroutine(), FDs: n}
}

// StableFootprint samples until five consecutive samples agree (footprint and the activity counter, e.g. bytes in the
// WARC files, which is not part of the result); ok=false when 400 samples never did.
func StableFootprint(every time.Duration, activity func() int64) (fp Footprint, samples int, ok bool) {
	run := 0
	var act int64 = -1
	for samples = 1; samples <= 400; samples++ {
		runtime.GC()
		s := SampleFootprint()
		a := activity()
		if s == fp && a == act {
			run++
		} else {
			fp, act, run = s, a, 1
		}
		if run >= 5 {
			return fp, samples, true
		}
		time.Sleep(every)
	}
	return fp, samples, false
}

// GoroutineDump returns the stacks of all goroutines.
func GoroutineDump() string {
	buf := make([]byte, 1<<22)
	return string(buf[:runtime.Stack(buf, true)])
}

// GoroutineCensus groups the live goroutines by their top frame and creation site.
func GoroutineCensus() map[string]int {
	out := map[string]int{}
	for _, g := range strings.Split(GoroutineDump(), "\n\n") {
		lines := strings.Split(g, "\n")
		if len(lines) < 2 {
			continue
		}
		top := lines[1]
		if i := strings.IndexByte(top, '('); i > 0 {
			top = top[:i]
		}
		by := ""
		for _, l := range lines {
			if strings.HasPrefix(l, "created by ") {
				by = strings.TrimPrefix(l, "created by ")
				if i := strings.Index(by, " in goroutine"); i > 0 {
					by = by[:i]
				}
			}
		}
		out[top+" <- "+by]++
	}
	return out
}

// CensusDiff lists the groups whose size differs.
func CensusDiff(a, b map[string]int) []string {
	var out []string
	for k, v := range a {
		if b[k] != v {
			out = append(out, fmt.Sprintf("%s: %d -> %d", k, v, b[k]))
		}
	}
	for k, v := range b {
		if _, ok := a[k]; !ok {
			out = append(out, fmt.Sprintf("%s: 0 -> %d", k, v))
		}
	}
	sort.Strings(out)
	return out
}
