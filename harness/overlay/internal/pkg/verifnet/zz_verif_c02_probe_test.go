package verifnet

// Documentation probe (not a registered unit): one response of each class through the real pipeline, then the WARC
// records as the independent reader sees them. Run by hand:
//   VERIF_SCRATCH=<dir> <c02.test> -test.run '^TestVerifProbe_C02$' -test.v

import (
	"fmt"
	"os"
	"sort"
	"strings"
	"testing"
)

func TestVerifProbe_C02(t *testing.T) {
	if os.Getenv("VERIF_C02_PROBE") == "" {
		t.Skip("documentation probe: set VERIF_C02_PROBE=1")
	}
	same := Resp{Kind: "text", Size: 3000, BodySeed: 77}
	specs := []struct {
		name string
		r    Resp
	}{
		{"200-cl-identity", Resp{Status: 200, Kind: "text", Size: 100, CType: "text/plain", Framing: "cl"}},
		{"200-chunked-identity", Resp{Status: 200, Kind: "text", Size: 5000, CType: "text/plain", Framing: "chunked"}},
		{"200-cl-gzip", Resp{Status: 200, Kind: "text", Size: 5000, CType: "text/plain", Framing: "cl", Gzip: true}},
		{"200-chunked-gzip", Resp{Status: 200, Kind: "text", Size: 5000, CType: "text/plain", Framing: "chunked", Gzip: true}},
		{"200-eof-framing", Resp{Status: 200, Kind: "bin", Size: 5000, CType: "image/png", Framing: "eof"}},
		{"200-empty", Resp{Status: 200, Kind: "empty", CType: "text/plain", Framing: "cl"}},
		{"204", Resp{Status: 204, Kind: "empty", Framing: "cl"}},
		{"301", Resp{Status: 301, Kind: "text", Size: 20, CType: "text/plain", Framing: "cl", Loc: "/s90/target.txt"}},
		{"identical-1", Resp{Status: 200, Kind: same.Kind, Size: same.Size, BodySeed: same.BodySeed, CType: "text/plain", Framing: "cl"}},
		{"identical-2", Resp{Status: 200, Kind: same.Kind, Size: same.Size, BodySeed: same.BodySeed, CType: "text/plain", Framing: "chunked"}},
		{"403", Resp{Status: 403, Kind: "text", Size: 50, CType: "text/html", Framing: "cl"}},
		{"403-cf-challenge", Resp{Status: 403, Kind: "text", Size: 50, CType: "text/html", Framing: "cl", CFHeader: "cf-mitigated"}},
		{"404", Resp{Status: 404, Kind: "text", Size: 50, CType: "text/plain", Framing: "cl"}},
		{"429-discarded", Resp{Status: 429, Kind: "text", Size: 50, CType: "text/plain", Framing: "cl"}},
		{"500-retried", Resp{Status: 500, Kind: "text", Size: 50, CType: "text/plain", Framing: "cl"}},
		{"503-then-200", Resp{Status: 200, Kind: "text", Size: 50, CType: "text/plain", Framing: "cl", FailFirst: 1, FailStatus: 503}},
		{"truncated-body", Resp{Status: 200, Kind: "text", Size: 5000, CType: "text/plain", Framing: "cl", Fault: "truncate"}},
		{"no-response", Resp{Status: 200, Kind: "text", Size: 50, Framing: "cl", FailFirst: -1}},
		{"2MiB+1-text", Resp{Status: 200, Kind: "text", Size: 2<<20 + 1, CType: "text/plain", Framing: "cl"}},
	}
	c := Case{Settings: Settings{Workers: 1, MaxAssets: 1, MaxRedirect: 0, MaxRetry: 1, WARCPool: 1, LocalDedupe: true, DedupeSize: 1024, DiscardStatus: []int{429}, Hosts: 1}, Site: map[string]*Resp{}}
	names := map[string]string{}
	for i, s := range specs {
		r := s.r
		ref := fmt.Sprintf("h0:/s%d/x", i+1)
		c.Site[ref] = &r
		c.Seeds = append(c.Seeds, SeedPlan{ID: fmt.Sprintf("seed-%d", i+1), Ref: ref, Prefix: fmt.Sprintf("/s%d/", i+1)})
		names[fmt.Sprintf("/s%d/x", i+1)] = s.name
	}
	dir, _ := os.MkdirTemp(os.Getenv("VERIF_SCRATCH"), "probe")
	p, err := Start(c.Settings, dir)
	if err != nil {
		t.Fatal(err)
	}
	defer p.Cleanup()
	p.Farm.AddSite(c.Site)
	run := &Runner{P: p}
	if hang := run.Feed(c.Seeds, len(c.Seeds)); hang != "" {
		t.Fatal(hang)
	}
	log := p.Farm.Log("")
	run.StopWatched()
	snap, err := (&warcIndex{dir: p.WARCDir, offsets: map[string]int64{}}).refresh()
	if err != nil {
		t.Fatal(err)
	}
	for _, e := range log {
		fmt.Printf("ORIGIN %-22s attempt=%d status=%d entity_len=%d sha1=%s total=%d complete=%v\n", names[e.Target], e.Attempt, e.Status, e.EntityLen, e.EntitySHA, e.TotalLen, e.Complete)
	}
	for _, r := range snap.Records {
		path := r.TargetURI
		if i := strings.Index(path, "/s"); i >= 0 {
			path = path[i:]
		}
		var hk []string
		for k := range r.Header {
			hk = append(hk, k)
		}
		sort.Strings(hk)
		extra := ""
		for _, k := range []string{"warc-truncated", "warc-profile", "warc-refers-to-target-uri", "warc-ip-address", "warc-concurrent-to"} {
			if v := r.Header[k]; v != "" && k != "warc-concurrent-to" {
				extra += " " + k + "=" + v
			}
		}
		fmt.Printf("WARC   %-22s %-8s block=%d http_status=%d payload_len=%d payload_sha1=%s te=%q ce=%q%s\n", names[path], r.Type, r.BlockLen, r.HTTPStatus, r.PayloadLen, r.PayloadSHA,
			r.HTTPHeader.Get("Transfer-Encoding"), r.HTTPHeader.Get("Content-Encoding"), extra)
		if r.Type == "warcinfo" {
			fmt.Printf("       warcinfo headers: %v\n", hk)
		}
	}
}
