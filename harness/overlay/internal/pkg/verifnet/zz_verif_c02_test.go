package verifnet

// C02 — accepted responses are in the WARC, byte-exact, before the seed is finished.
//
// One generated case = one lifecycle of the whole real pipeline (synchronous WARC mode) against origin servers on
// 127.0.0.N. The goroutine that receives the finish message parses the job's WARC files with the independent reader
// (verifref.ReadWARCFile) BEFORE doing anything else; the oracle compares that snapshot with the origin log:
//
//	B  every completely sent response of the seed that the discard policy accepts has, at the finish instant, a
//	   response (or identical-payload revisit) record and a request record whose WARC-Target-URI is the requested URL,
//	   with the HTTP status, payload length and payload SHA-1 the origin sent (revisit: same digest, referred record present)
//	A  no response/revisit record exists - then or at the end of the run - that the origin log does not explain:
//	   in particular none for a response the policy rejects (status in --warc-discard-status, Cloudflare challenge)
//	M  every member decompresses on its own, block length = Content-Length, digests match (enforced by the reader)

import (
	"fmt"
	"os"
	"slices"
	"sort"
	"strings"
	"testing"
	"time"

	"github.com/internetarchive/Zeno/internal/pkg/veriflib"
	"github.com/internetarchive/Zeno/internal/pkg/verifref"
	"pgregory.net/rapid"
)

const c02KFLate = "C02-failed-response-not-awaited"

type c02Hist struct {
	Message  string   `json:"message,omitempty"`
	Entries  []Entry  `json:"origin_log,omitempty"`
	Records  []string `json:"warc_records_for_url,omitempty"`
	Finished int      `json:"finished"`
	Requests int      `json:"requests"`
	Elapsed  string   `json:"elapsed"`
	Dump     string   `json:"goroutines,omitempty"`
}

// c02Rejected is the discard policy as the statement words it (independent of the hook chain).
func c02Rejected(e Entry, s Settings) bool {
	return slices.Contains(s.DiscardStatus, e.Status) || (e.Status == 403 && e.CF)
}

// c02Retried: statuses for which archive() takes the retry / retries-exhausted path.
func c02Retried(e Entry) bool {
	return e.Status >= 500 || e.Status == 408 || e.Status == 425 || e.Status == 429 || (e.Status == 403 && e.CF)
}

type c02Key struct {
	URL    string
	Status int
	SHA    string
}

func c02SizeClass(e Entry, dthr int) string {
	switch n := e.EntityLen; {
	case n == 0:
		return "0"
	case n == 1:
		return "1"
	case n == 2047, n == 2048, n == 2049:
		return fmt.Sprint(n)
	case e.TotalLen >= dthr-1 && e.TotalLen <= dthr+1:
		return fmt.Sprintf("msg=dedupe%+d", e.TotalLen-dthr)
	case n >= 2<<20-1 && n <= 2<<20+1:
		return fmt.Sprintf("2MiB%+d", n-(2<<20))
	case n >= 1<<20-1 && n <= 1<<20+1:
		return fmt.Sprintf("1MiB%+d", n-(1<<20))
	case n < 2047:
		return "<2047"
	case n < 1<<16:
		return "<64K"
	case n < 1<<20:
		return "<1MiB"
	case n < 2<<20:
		return "<2MiB"
	default:
		return ">2MiB"
	}
}

func c02Die(facet string, c Case, h c02Hist, msg string) {
	// the pipeline is wedged: it cannot be stopped or restarted in this process, so the process ends here
	h.Dump = GoroutineDump()
	veriflib.WriteFailure(facet[:3], facet, c, h, msg)
	fmt.Printf("--- FAIL: [%s] %s\n", facet, msg)
	veriflib.Flush()
	os.Exit(1)
}

func c02RecordsFor(snap *Snapshot, url string) []string {
	var out []string
	for _, r := range snap.Records {
		if r.TargetURI == url {
			out = append(out, fmt.Sprintf("%s status=%d payload_len=%d sha1=%s refers_to=%s (%s @%d)", r.Type, r.HTTPStatus, r.PayloadLen, r.PayloadSHA, r.RefersTo, r.File[strings.LastIndexByte(r.File, '/')+1:], r.Offset))
		}
	}
	return out
}

// c02Unexplained applies rule A to a snapshot: every response/revisit record must be explained by a completely sent,
// accepted response in the origin log (same URL, status and payload digest), no more often than it was sent.
func c02Unexplained(snap *Snapshot, all []Entry, s Settings) string {
	sent := map[c02Key]int{}
	sentLen := map[c02Key]int64{}
	rej := map[c02Key]bool{}
	for _, e := range all {
		if e.Status == 0 {
			continue
		}
		k := c02Key{e.URL, e.Status, e.EntitySHA}
		if c02Rejected(e, s) {
			rej[k] = true
			continue
		}
		sent[k]++ // complete or not yet known: an upper bound
		sentLen[k] = e.EntityLen
	}
	have := map[c02Key]int{}
	for _, r := range snap.Records {
		if r.Type == "request" && r.TargetURI != "http://"+r.HTTPHost+r.HTTPTarget {
			return fmt.Sprintf("request record with WARC-Target-URI %s holds the request %s %s for host %s", r.TargetURI, r.HTTPMethod, r.HTTPTarget, r.HTTPHost)
		}
		if r.Type != "response" && r.Type != "revisit" {
			continue
		}
		k := c02Key{r.TargetURI, r.HTTPStatus, r.PayloadSHA}
		have[k]++
		if rej[k] && sent[k] == 0 {
			why := fmt.Sprintf("status %d is in --warc-discard-status %v", r.HTTPStatus, s.DiscardStatus)
			if !slices.Contains(s.DiscardStatus, r.HTTPStatus) {
				why = "it is a Cloudflare challenge page (403 + cf-mitigated: challenge)"
			}
			return fmt.Sprintf("a %s record exists for %s (status %d) although the discard policy rejects that response: %s", r.Type, r.TargetURI, r.HTTPStatus, why)
		}
		if have[k] > sent[k] {
			return fmt.Sprintf("%s record for %s (status %d, payload %d bytes, sha1 %s) matches nothing the origin sent for that URL (the origin sent that %d time(s), the WARC holds it %d time(s))", r.Type, r.TargetURI, r.HTTPStatus, r.PayloadLen, r.PayloadSHA, sent[k], have[k])
		}
		if r.Type == "response" && r.PayloadLen != sentLen[k] {
			return fmt.Sprintf("response record for %s holds a payload of %d bytes, the origin sent %d", r.TargetURI, r.PayloadLen, sentLen[k])
		}
	}
	return ""
}

// c02Missing applies rule B to one seed: returns the entries (complete + accepted) lacking records in snap. A response
// counts once its record AND the request record it names in WARC-Concurrent-To are there (both carry the target URI).
func c02Missing(snap *Snapshot, entries []Entry, s Settings) (missing []Entry, why []string) {
	reqByID := map[string]*verifref.WARCRecord{}
	reqs := map[string]int{}
	for _, r := range snap.Records {
		if r.Type == "request" {
			reqByID[r.RecordID] = r
			reqs[r.TargetURI]++
		}
	}
	full, half, unlinked := map[c02Key]int{}, map[c02Key]int{}, map[string]int{}
	for _, r := range snap.Records {
		if r.Type != "response" && r.Type != "revisit" {
			continue
		}
		k := c02Key{r.TargetURI, r.HTTPStatus, r.PayloadSHA}
		ct := r.Header["warc-concurrent-to"]
		switch q := reqByID[ct]; {
		case ct == "":
			unlinked[r.TargetURI]++ // no link: fall back to counting request records per URL
			full[k]++
		case q != nil && q.TargetURI == r.TargetURI:
			full[k]++
		default:
			half[k]++
		}
	}
	need := map[c02Key]int{}
	needReq := map[string]int{}
	for _, e := range entries {
		if !e.Complete || e.Status == 0 || c02Rejected(e, s) {
			continue
		}
		k := c02Key{e.URL, e.Status, e.EntitySHA}
		need[k]++
		needReq[e.URL]++
		switch {
		case full[k] >= need[k] && (unlinked[e.URL] == 0 || reqs[e.URL] >= needReq[e.URL]):
		case full[k]+half[k] >= need[k]:
			missing = append(missing, e)
			why = append(why, fmt.Sprintf("the response record for %s (status %d, payload sha1 %s) is there, but the request record it names in WARC-Concurrent-To is not (%d request record(s) carry that target URI)", e.URL, e.Status, e.EntitySHA, reqs[e.URL]))
		default:
			missing = append(missing, e)
			why = append(why, fmt.Sprintf("no response (or revisit) record with WARC-Target-URI %s, status %d and payload sha1 %s (%d bytes) - the WARC files hold %d such record(s), the origin completely sent that response %d time(s)", e.URL, e.Status, e.EntitySHA, e.EntityLen, full[k]+half[k], need[k]))
		}
	}
	return
}

// c02DanglingRevisit: a revisit of this seed whose referred-to response record is not in the snapshot.
func c02DanglingRevisit(snap *Snapshot, prefix string) string {
	byID := map[string]*verifref.WARCRecord{}
	for _, r := range snap.Records {
		if r.Type == "response" {
			byID[r.RecordID] = r
		}
	}
	for _, r := range snap.Records {
		if r.Type != "revisit" || !strings.Contains(r.TargetURI, prefix) {
			continue
		}
		o := byID[r.RefersTo]
		if o == nil {
			return fmt.Sprintf("revisit record for %s refers to %s which is not in the WARC files", r.TargetURI, r.RefersTo)
		}
		if o.PayloadSHA != r.PayloadSHA {
			return fmt.Sprintf("revisit record for %s (payload digest %s) refers to a response record with digest %s", r.TargetURI, r.PayloadSHA, o.PayloadSHA)
		}
	}
	return ""
}

func propC02(t veriflib.TB, c Case) {
	veriflib.Journal("C02", "C02/finish", c)
	defer veriflib.JournalDone()
	t0 := time.Now()
	dir, err := os.MkdirTemp(os.Getenv("VERIF_SCRATCH"), "net")
	if err != nil {
		t.Fatalf("harness: %v", err)
	}
	p, err := Start(c.Settings, dir)
	if err != nil {
		t.Fatalf("harness: start: %v", err)
	}
	defer p.Cleanup()
	p.Farm.AddSite(c.Site)
	run := &Runner{P: p}
	hist := func() c02Hist {
		return c02Hist{Finished: p.NFinished(), Requests: p.Farm.LogLen(), Elapsed: time.Since(t0).String()}
	}
	tFeed := time.Now()
	hang := run.Feed(c.Seeds, len(c.Seeds))
	crawl := time.Since(tFeed)
	if hang != "" {
		c02Die("C02/finish", c, hist(), "the run cannot be judged, seed(s) were never reported finished: "+hang)
	}
	if err := run.InsertErr(); err != nil {
		run.StopWatched()
		t.Fatalf("harness: insert: %v", err)
	}
	// quiescence: every connection's records are written or dropped (library wait group), origins idle
	for last, since := run.sig(), time.Now(); p.WARCQueue() > 0 || p.Farm.Active() > 0; time.Sleep(2 * time.Millisecond) {
		if s := run.sig(); s != last {
			last, since = s, time.Now()
		} else if time.Since(since) > c.Settings.Window() {
			h := hist()
			c02Die("C02/finish", c, h, fmt.Sprintf("after all seeds were finished %d connection(s) never delivered their WARC records and %d request(s) are still being served: nothing moved for %s", p.WARCQueue(), p.Farm.Active(), c.Settings.Window()))
		}
	}
	all := p.Farm.Log("")
	endSnap, endErr := p.SnapshotNow()
	fins := p.Finishes()
	if hang := run.StopWatched(); hang != "" {
		c02Die("C02/finish", c, hist(), "after all seeds were finished and their records checked: "+hang)
	}
	fail := func(h c02Hist, f string, a ...any) {
		h.Message = fmt.Sprintf(f, a...)
		veriflib.Fail(t, "C02", "C02/finish", c, h, "%s", h.Message)
	}
	// after the stop the files are final: a fresh, complete parse must succeed without a torn tail
	final := &warcIndex{dir: p.WARCDir, offsets: map[string]int64{}}
	finalSnap, finalErr := final.refresh()
	if endErr != nil {
		fail(hist(), "WARC files do not parse at quiescence: %v", endErr)
	}
	if finalErr != nil {
		fail(hist(), "WARC files do not parse after the stop: %v", finalErr)
	}
	if len(finalSnap.Truncated) > 0 {
		fail(hist(), "after the stop the WARC file(s) %v end in an incomplete member", finalSnap.Truncated)
	}

	byPrefix := map[string]SeedPlan{}
	for _, sp := range c.Seeds {
		byPrefix[sp.ID] = sp
	}
	type rec struct {
		nontrivial bool
		classes    []string
		key        string
	}
	var recs, rejRecs []rec
	lateTolerated := 0
	for _, f := range fins {
		sp := byPrefix[f.Item.GetID()]
		var entries []Entry
		for _, e := range all {
			if strings.HasPrefix(e.Target, sp.Prefix) {
				entries = append(entries, e)
			}
		}
		h := hist()
		h.Entries = entries
		if f.WARCError != "" {
			fail(h, "at the instant seed %s was reported finished the WARC files did not parse: %s", sp.ID, f.WARCError)
		}
		for _, e := range entries {
			if e.Seq > f.Seq {
				h.Message = fmt.Sprintf("%s was requested (#%d) after its seed %s had been reported finished (#%d)", e.URL, e.Seq, sp.ID, f.Seq)
				veriflib.Fail(t, "C01", "C01/net", c, h, "%s", h.Message)
			}
		}
		if len(f.Pending) > 0 {
			h.Message = fmt.Sprintf("seed %s was reported finished while nodes still await work: %v", sp.ID, f.Pending)
			veriflib.Fail(t, "C01", "C01/net", c, h, "%s", h.Message)
		}
		if len(f.OpenBody) > 0 {
			h.Message = fmt.Sprintf("seed %s was reported finished while the bodies of %v are still held", sp.ID, f.OpenBody)
			veriflib.Fail(t, "C16", "C16/net", c, h, "%s", h.Message)
		}
		// rule A at the finish instant
		if m := c02Unexplained(f.Snapshot, all, c.Settings); m != "" {
			fail(h, "at the instant seed %s was reported finished: %s", sp.ID, m)
		}
		// rule B at the finish instant
		missing, why := c02Missing(f.Snapshot, entries, c.Settings)
		for i, e := range missing {
			h.Records = c02RecordsFor(finalSnap, e.URL)
			later, _ := c02Missing(finalSnap, []Entry{e}, c.Settings)
			// count properly: the entry may be one of several identical ones
			laterAll, _ := c02Missing(finalSnap, entries, c.Settings)
			stillMissing := len(later) > 0 || slices.ContainsFunc(laterAll, func(x Entry) bool { return x.Seq == e.Seq })
			when := "it is in the WARC files after the stop: it was written AFTER the seed had been reported finished"
			if stillMissing {
				when = "it is not in the WARC files after the stop either: it was never written"
			}
			if !stillMissing && c02Retried(e) && veriflib.FindingOpen(c02KFLate) {
				veriflib.Excluded("C02/finish", "response on archive()'s retry / retries-exhausted path written after the finish (open finding "+c02KFLate+")")
				lateTolerated++
				continue
			}
			path := "normal path"
			if c02Retried(e) {
				path = fmt.Sprintf("status %d takes archive()'s retry / retries-exhausted path (attempt %d, max-retry %d), which does not wait for the WARC writer", e.Status, e.Attempt, c.Settings.MaxRetry)
			}
			fail(h, "seed %s was reported finished, but at that instant the WARC files lacked an accepted, completely sent response: %s; %s [%s]", sp.ID, why[i], when, path)
		}
		if m := c02DanglingRevisit(f.Snapshot, sp.Prefix); m != "" {
			// the referred-to record may be in the writer queue of another connection at this instant
			if m2 := c02DanglingRevisit(finalSnap, sp.Prefix); m2 != "" {
				fail(h, "%s (after the stop)", m2)
			}
			veriflib.Class("C02/finish", "note:revisit-refers-to-record-written-after-finish")
		}
		// evidence per response
		rtype := map[c02Key]string{}
		for _, r := range f.Snapshot.Records {
			if r.Type == "response" || r.Type == "revisit" {
				k := c02Key{r.TargetURI, r.HTTPStatus, r.PayloadSHA}
				if rtype[k] == "" || r.Type == "revisit" {
					rtype[k] = r.Type
				}
			}
		}
		for _, e := range entries {
			if e.Status == 0 || !e.Complete {
				veriflib.Class("C02/finish", "skipped:incomplete-or-no-response")
				continue
			}
			spec := c.Site[specKey(p.Farm, e)]
			kind, enc, framing, ct := "unknown-path", "identity", "cl", ""
			if spec != nil {
				kind, framing, ct = spec.Kind, spec.Framing, spec.CType
				if spec.Gzip {
					enc = "gzip"
				}
				if spec.FailFirst != 0 && e.Status == spec.FailStatus && e.Status != spec.Status {
					kind, framing, enc, ct = "text", "cl", "identity", "text/plain"
				}
			}
			if e.EntityLen == 0 {
				kind = "empty"
			}
			if c02Rejected(e, c.Settings) {
				why := "discard-status"
				if !slices.Contains(c.Settings.DiscardStatus, e.Status) {
					why = "cf-challenge"
				}
				rejRecs = append(rejRecs, rec{true, []string{"rejected:" + why, fmt.Sprintf("status:%d", e.Status)}, fmt.Sprintf("%s|%d|%v", why, e.Status, c.Settings.DiscardStatus)})
				continue
			}
			rt := rtype[c02Key{e.URL, e.Status, e.EntitySHA}]
			sc := c02SizeClass(e, c.Settings.dedupeThreshold())
			lying := ""
			if spec != nil && ((kind == "bin" && strings.HasPrefix(ct, "text/")) || (kind == "text" && (strings.HasPrefix(ct, "image/") || ct == "application/octet-stream")) || (kind == "html" && !strings.Contains(ct, "html"))) {
				lying = "ctype:lying"
			}
			cl := []string{"size:" + sc, "kind:" + kind, "enc:" + enc, "framing:" + framing, fmt.Sprintf("status:%d", e.Status), "record:" + rt}
			if lying != "" {
				cl = append(cl, lying)
			}
			if c02Retried(e) {
				cl = append(cl, "path:retry")
			}
			recs = append(recs, rec{e.EntityLen > 0, cl, strings.Join(cl, "|")})
		}
	}
	// rule A and B once more at the end of the run ("or later")
	h := hist()
	if m := c02Unexplained(endSnap, all, c.Settings); m != "" {
		fail(h, "at the end of the run: %s", m)
	}
	if m := c02Unexplained(finalSnap, all, c.Settings); m != "" {
		fail(h, "after the stop: %s", m)
	}
	if missing, why := c02Missing(finalSnap, all, c.Settings); len(missing) > 0 {
		h.Entries = missing
		fail(h, "after the stop the WARC files still lack an accepted, completely sent response: %s", why[0])
	}
	if len(finalSnap.Records) < len(endSnap.Records) {
		fail(h, "the complete parse after the stop finds %d records, the incremental one had found %d", len(finalSnap.Records), len(endSnap.Records))
	}
	cfgClasses := []string{fmt.Sprintf("cfg:pool=%d", c.Settings.WARCPool), fmt.Sprintf("cfg:ondisk=%v", c.Settings.WARCOnDisk), fmt.Sprintf("cfg:localdedupe=%v", c.Settings.LocalDedupe),
		fmt.Sprintf("cfg:assets=%d", c.Settings.MaxAssets), fmt.Sprintf("cfg:workers=%d", c.Settings.Workers), fmt.Sprintf("cfg:discard=%v", c.Settings.DiscardStatus), fmt.Sprintf("cfg:maxretry=%d", c.Settings.MaxRetry)}
	if c.Settings.WARCSizeMB > 0 {
		cfgClasses = append(cfgClasses, "cfg:rotation")
	}
	for _, cc := range cfgClasses {
		veriflib.Class("C02/finish", cc)
	}
	for _, r := range recs {
		veriflib.Record("C02/finish", r.key, r.nontrivial, r.classes, func() any {
			return map[string]any{"class": r.key, "settings": c.Settings, "seeds": len(c.Seeds), "requests": len(all), "warc_records": len(finalSnap.Records), "elapsed": time.Since(t0).String()}
		})
	}
	for _, r := range rejRecs {
		veriflib.Record("C02/rejected", r.key, true, r.classes, func() any {
			return map[string]any{"class": r.key, "settings": c.Settings, "requests": len(all), "warc_records": len(finalSnap.Records)}
		})
	}
	if lateTolerated > 0 {
		t.Logf("tolerated %d late record(s) of the open finding %s", lateTolerated, c02KFLate)
	}
	c02Throughput(len(all), len(c.Seeds), time.Since(t0), crawl)
}

var c02TP struct {
	resp, seeds, cases int
	busy, crawl        time.Duration
}

func c02Throughput(resp, seeds int, d, crawl time.Duration) {
	c02TP.resp += resp
	c02TP.seeds += seeds
	c02TP.cases++
	c02TP.busy += d
	c02TP.crawl += crawl
}

func specKey(f *Farm, e Entry) string {
	for i, h := range f.Hosts() {
		if h == e.Host {
			return fmt.Sprintf("h%d:%s", i, e.Target)
		}
	}
	return ""
}

func (s Settings) dedupeThreshold() int {
	if s.DedupeSize == 0 {
		return 2048
	}
	return s.DedupeSize
}

func genC02Settings(t *rapid.T) Settings {
	s := Settings{
		Workers:     rapid.IntRange(1, 4).Draw(t, "workers"),
		MaxAssets:   rapid.IntRange(1, 8).Draw(t, "maxassets"),
		MaxRedirect: rapid.IntRange(0, 3).Draw(t, "maxredirect"),
		MaxRetry:    []int{0, 1, 1, 1, 2}[rapid.IntRange(0, 4).Draw(t, "maxretry")],
		Seencheck:   rapid.IntRange(0, 3).Draw(t, "seencheck") != 0,
		WARCPool:    rapid.IntRange(1, 2).Draw(t, "pool"),
		WARCOnDisk:  rapid.IntRange(0, 3).Draw(t, "ondisk") == 0,
		LocalDedupe: rapid.IntRange(0, 3).Draw(t, "localdedupe") != 0,
		DedupeSize:  []int{0, 1024, 1024, 4096, 300}[rapid.IntRange(0, 4).Draw(t, "dedupesize")],
		Hosts:       rapid.IntRange(1, 4).Draw(t, "hosts"),
		RateLimit:   rapid.IntRange(0, 4).Draw(t, "ratelimit") == 0,
	}
	// (the operator's list comes as typed: any order, duplicates)
	s.DiscardStatus = [][]int{nil, {429}, {429}, {429, 500}, {404}, {403, 503}, {200}, {204, 301, 302}, {429, 404}, {503, 403}, {500, 404, 429, 404}, {420, 520}, {999, 499, 429}}[rapid.IntRange(0, 12).Draw(t, "discard")]
	if rapid.IntRange(0, 9).Draw(t, "rotation") == 0 {
		s.WARCSizeMB = 1
	}
	return s
}

func genC02Case(t *rapid.T) Case {
	c := Case{Settings: genC02Settings(t), Site: map[string]*Resp{}}
	mix := Mix{Huge: 12, BigText: 4, Faults: 30, BadGzip: 0, FailThenOK: 40, BadStatus: 500, MaxAssets: 6, Hosts: c.Settings.Hosts, AllowEOF: true, DedupeTotal: c.Settings.dedupeThreshold(), NoPenalty: c.Settings.RateLimit}
	shared := GenShared(t, rapid.IntRange(0, 3).Draw(t, "nshared"), mix.DedupeTotal)
	lo, hi := 1, veriflib.N("C02_SEEDS", 16, 30)
	n := rapid.IntRange(lo, hi).Draw(t, "nseeds")
	for k := 1; k <= n; k++ {
		c.Seeds = append(c.Seeds, GenSeed(t, k, c.Site, mix, shared))
	}
	return c
}

// c02DirectedBrokenThenConcurrent: one transfer breaks off mid-body while many large bodies are in flight on several
// workers, and more large bodies follow. Whatever the fetch path shares between captures (buffers, channels, verdict
// variables) gets used by several captures at once right after an error path ran.
func c02DirectedBrokenThenConcurrent(variant int) Case {
	c := Case{Settings: Settings{Workers: 4, MaxAssets: 8, MaxRedirect: 2, MaxRetry: variant % 2, Seencheck: false, WARCPool: 1 + variant%2, Hosts: 2}, Site: map[string]*Resp{}}
	for k := 1; k <= 5; k++ {
		page := &Resp{Status: 200, Kind: "html", CType: "text/html", Framing: "cl", Size: 5000, BodySeed: int64(k)}
		for i := 0; i < 9; i++ {
			ref := fmt.Sprintf("h%d:/s%d/b%d.bin", (k+i)%2, k, i)
			r := &Resp{Status: 200, Kind: "bin", CType: "image/png", Framing: []string{"cl", "cl", "chunked"}[(i+variant)%3], Size: 150000 + 10007*i + 1009*k, BodySeed: int64(100*k + i)}
			if i == 1 && k <= 2 {
				r.Fault = "truncate" // the transfer is cut in the middle of the body
			}
			c.Site[ref] = r
			page.Assets = append(page.Assets, ref)
		}
		if k == 5 {
			// two requisites answered with status codes the operator asked not to keep - codes without a registered reason
			// phrase (a rate-limit 420, a Cloudflare 520) - next to one that is kept
			for i, st := range []int{420, 520, 404} {
				ref := fmt.Sprintf("h1:/s%d/e%d.png", k, i)
				c.Site[ref] = &Resp{Status: st, Kind: "text", CType: "text/plain", Framing: "cl", Size: 200 + i, BodySeed: int64(900 + i)}
				page.Assets = append(page.Assets, ref)
			}
		}
		pref := fmt.Sprintf("h0:/s%d/p", k)
		c.Site[pref] = page
		c.Seeds = append(c.Seeds, SeedPlan{ID: fmt.Sprintf("seed-%d", k), Ref: pref, Prefix: fmt.Sprintf("/s%d/", k)})
	}
	c.Settings.DiscardStatus = []int{429, 420, 520}
	return c
}

func TestVerif_C02_Finish(t *testing.T) {
	defer veriflib.Flush()
	if m := verifref.WARCSelfTest(); m != "" {
		t.Fatalf("harness: WARC reader self-test: %s", m)
	}
	var rc Case
	if veriflib.ReplayCase("C02/finish", &rc) {
		// schedule-dependent failures (a record written a moment too late) need not show on the first run
		for i := 0; i < 8; i++ {
			propC02(t, rc)
		}
		return
	} else if veriflib.Replaying() {
		t.Skip()
	}
	defer func() {
		if c02TP.busy > 0 {
			fmt.Printf("throughput: %d lifecycles, %d responses, %d seeds; crawling %s = %.0f responses/s, %.1f seeds/s; whole lifecycles (start, crawl incl. retry sleeps, quiescence, 1 s stop, parse) %s = %.0f responses/s, %.1f seeds/s\n",
				c02TP.cases, c02TP.resp, c02TP.seeds, c02TP.crawl.Round(time.Millisecond), float64(c02TP.resp)/c02TP.crawl.Seconds(), float64(c02TP.seeds)/c02TP.crawl.Seconds(),
				c02TP.busy.Round(time.Millisecond), float64(c02TP.resp)/c02TP.busy.Seconds(), float64(c02TP.seeds)/c02TP.busy.Seconds())
		}
	}()
	// one lifecycle per process (race-detector unit): even shards run the directed case only, odd shards one generated case
	one := veriflib.N("C02_ONE_LIFECYCLE", 0, 0) > 0
	if !one || veriflib.ShardIndex()%2 == 0 {
		d := c02DirectedBrokenThenConcurrent(veriflib.ShardIndex())
		veriflib.Guard("C02", "C02/finish", d, func() { propC02(t, d) })
		if one {
			return
		}
	}
	rapid.Check(t, func(rt *rapid.T) {
		c := genC02Case(rt)
		veriflib.Guard("C02", "C02/finish", c, func() { propC02(c02TB{rt}, c) })
	})
}

// c02TB turns "harness:" failures into skipped cases: infrastructure trouble is never a violation.
type c02TB struct{ *rapid.T }

func (b c02TB) Fatalf(f string, a ...any) {
	if strings.HasPrefix(f, "harness:") {
		fmt.Printf("harness trouble, case skipped: "+f+"\n", a...)
		b.T.Skip("harness")
	}
	b.T.Fatalf(f, a...)
}

// Strict reproduction of the open finding: a 500 response with a large body, max-retry 0. archive() takes the
// retries-exhausted path, which marks the item failed without waiting for the WARC writer.
func TestVerifKF_C02_FailedResponseNotAwaited(t *testing.T) {
	defer veriflib.Flush()
	c := Case{Settings: Settings{Workers: 1, MaxAssets: 1, MaxRedirect: 0, MaxRetry: 0, WARCPool: 1, LocalDedupe: true, Hosts: 1}, Site: map[string]*Resp{}}
	for k := 1; k <= 6; k++ {
		ref := fmt.Sprintf("h0:/s%d/r1.txt", k)
		c.Site[ref] = &Resp{Status: 500, Kind: "text", Size: 3 << 20, BodySeed: int64(k), CType: "text/plain", Framing: "cl"}
		c.Seeds = append(c.Seeds, SeedPlan{ID: fmt.Sprintf("seed-%d", k), Ref: ref, Prefix: fmt.Sprintf("/s%d/", k)})
	}
	propC02(t, c)
}

var _ = sort.Strings

// ---- facet C02/stop-writer -------------------------------------------------------------------------------------
//
// A stop request arriving while captured responses still wait for the WARC writer (slow disk, busy writer pool, large
// record). stopPipeline() stops the stages one after the other, so a seed let go early by the archiver would still reach
// the finisher and be reported finished - with its records not yet in the WARC files. The writers are held behind a gate;
// the stop is issued once the origins have answered; every finish message, whenever it arrives, is held to rule B at its
// own instant; then the gate opens and the stop must complete.

func propC02StopWriter(t veriflib.TB, c Case) {
	const facet = "C02/stop-writer"
	t0 := time.Now()
	dir, err := os.MkdirTemp(os.Getenv("VERIF_SCRATCH"), "netsw")
	if err != nil {
		t.Fatalf("harness: %v", err)
	}
	p, err := Start(c.Settings, dir)
	if err != nil {
		t.Fatalf("harness: start: %v", err)
	}
	defer p.Cleanup()
	p.Farm.AddSite(c.Site)
	release := p.HoldWARCWriter()
	hist := func() c02Hist {
		return c02Hist{Finished: p.NFinished(), Requests: p.Farm.LogLen(), Elapsed: time.Since(t0).String()}
	}
	insDone := make(chan struct{})
	go func() {
		defer close(insDone)
		for _, sp := range c.Seeds {
			if p.Insert(sp.ID, p.Farm.URL(sp.Ref)) != nil {
				return // refused by the frozen reactor once the stop has begun
			}
		}
	}()
	// the origins have answered what they will answer while the writers are held: the request log stops growing
	for last, since, start := -1, time.Now(), time.Now(); time.Since(since) < 400*time.Millisecond && time.Since(start) < 15*time.Second; time.Sleep(10 * time.Millisecond) {
		if n := p.Farm.LogLen(); n != last {
			last, since = n, time.Now()
		}
	}
	held := p.WARCQueue()
	stopDone := make(chan struct{})
	go func() { p.Stop(); close(stopDone) }()
	select {
	case <-stopDone:
	case <-time.After(1500 * time.Millisecond):
	}
	duringHold := p.NFinished()
	release()
	select {
	case <-stopDone:
	case <-time.After(c.Settings.Window() + 30*time.Second):
		c02Die(facet, c, hist(), fmt.Sprintf("Stop() did not return within %s after the WARC writers were released (%d connection(s) were waiting for them when the stop began)", c.Settings.Window()+30*time.Second, held))
	}
	<-insDone
	all := p.Farm.LogNow("")
	fins := p.Finishes()
	final := &warcIndex{dir: p.WARCDir, offsets: map[string]int64{}}
	finalSnap, finalErr := final.refresh()
	fail := func(h c02Hist, f string, a ...any) {
		h.Message = fmt.Sprintf(f, a...)
		veriflib.Fail(t, "C02", facet, c, h, "%s", h.Message)
	}
	if finalErr != nil {
		fail(hist(), "WARC files do not parse after the stop: %v", finalErr)
	}
	if len(finalSnap.Truncated) > 0 {
		fail(hist(), "after the stop the WARC file(s) %v end in an incomplete member", finalSnap.Truncated)
	}
	byID := map[string]SeedPlan{}
	for _, sp := range c.Seeds {
		byID[sp.ID] = sp
	}
	for _, f := range fins {
		sp := byID[f.Item.GetID()]
		var entries []Entry
		for _, e := range all {
			if strings.HasPrefix(e.Target, sp.Prefix) && e.Seq < f.Seq {
				entries = append(entries, e)
			}
		}
		h := hist()
		h.Entries = entries
		if f.WARCError != "" {
			fail(h, "at the instant seed %s was reported finished (during a stop) the WARC files did not parse: %s", sp.ID, f.WARCError)
		}
		if veriflib.FindingOpen(c02KFLate) {
			// responses on archive()'s retry / retries-exhausted path are not waited for (open finding): left out, counted
			kept := entries[:0:0]
			for _, e := range entries {
				if c02Retried(e) {
					veriflib.Excluded(facet, "response on archive()'s retry / retries-exhausted path (open finding "+c02KFLate+")")
					continue
				}
				kept = append(kept, e)
			}
			entries = kept
		}
		if missing, why := c02Missing(f.Snapshot, entries, c.Settings); len(missing) > 0 {
			h.Records = c02RecordsFor(finalSnap, missing[0].URL)
			fail(h, "a stop was requested while %d connection(s) were waiting for the WARC writers; seed %s was then reported finished although its records were not in the WARC files at that instant: %s", held, sp.ID, why[0])
		}
	}
	veriflib.Record(facet, veriflib.JSON(c), held > 0, []string{fmt.Sprintf("waiting-for-writer-at-stop:%d", min(held, 4)), fmt.Sprintf("finished-while-held:%d", min(duringHold, 3)), fmt.Sprintf("finished-in-all:%d", min(len(fins), 4)),
		fmt.Sprintf("workers:%d", c.Settings.Workers), fmt.Sprintf("pool:%d", c.Settings.WARCPool)}, func() any {
		return map[string]any{"settings": c.Settings, "seeds": len(c.Seeds), "held": held, "finished": len(fins), "requests": len(all)}
	})
}

func TestVerif_C02_StopWriter(t *testing.T) {
	defer veriflib.Flush()
	var rc Case
	if veriflib.ReplayCase("C02/stop-writer", &rc) {
		for i := 0; i < 4; i++ {
			propC02StopWriter(t, rc)
		}
		return
	} else if veriflib.Replaying() {
		t.Skip()
	}
	rapid.Check(t, func(rt *rapid.T) {
		c := genC02Case(rt)
		veriflib.Guard("C02", "C02/stop-writer", c, func() { propC02StopWriter(c02TB{rt}, c) })
	})
}
