package verifnet

import (
	"fmt"
	"slices"

	"github.com/internetarchive/Zeno/internal/pkg/veriflib"
	"pgregory.net/rapid"
)

// SeedPlan is one seed of a case. Everything the seed can reach lives under Prefix ("/s<k>/") on any host, so the
// origin log entries of a seed are the entries whose request-target starts with its prefix.
type SeedPlan struct {
	ID     string `json:"id"`
	Ref    string `json:"ref"` // "h<i>:<path>"
	Prefix string `json:"prefix"`
}

// Case is the plain-data form of one generated lifecycle.
type Case struct {
	Settings Settings         `json:"settings"`
	Site     map[string]*Resp `json:"site"`
	Seeds    []SeedPlan       `json:"seeds"`
}

// Mix weights the generator (C02 and C16 want different diets).
type Mix struct {
	Huge        int // per mille of leaves around the 2 MiB ProcessBody spool threshold / 1 MiB record spool threshold
	BigText     int // per mille of leaves that are > 2 MiB text (spooled to disk by ProcessBody)
	Faults      int // per mille: truncated body, no response
	BadGzip     int // per mille: corrupt gzip entity
	FailThenOK  int // per mille
	BadStatus   int // per mille of leaves answering 429/500/503 for good
	MaxAssets   int // per page
	Hosts       int
	SharedPool  int  // number of shared bodies (identical payloads under several URLs)
	AllowEOF    bool // connection-close framing
	DedupeTotal int  // dedupe threshold of the lifecycle (whole-message bytes), for the boundary class
	// KeepRejectedWhole: no truncated body on a response the discard policy rejects (open finding of C16)
	KeepRejectedWhole bool
	Discard           []int // --warc-discard-status of the lifecycle
	NoPenalty         bool  // real rate limiter on: no 403/408/429 (each costs the host a 5..30 s penalty in real time)
}

type siteGen struct {
	t      *rapid.T
	mix    Mix
	site   map[string]*Resp
	prefix string
	n      int
	shared []Resp
}

func (g *siteGen) pick(label string, n int) int { return rapid.IntRange(0, n-1).Draw(g.t, label) }

// pm is true with a probability of roughly permille/1000. rapid's integer generators favour small values (measured:
// IntRange(0,999) < 30 in 49 % of the draws, >= 970 in 4 %), so the rare event is put at the upper end of the range.
func (g *siteGen) pm(label string, permille int) bool {
	return permille > 0 && rapid.IntRange(0, 999).Draw(g.t, label) >= 1000-permille
}

func (g *siteGen) ref(ext string) string {
	g.n++
	q := ""
	if g.pick("query", 6) == 0 {
		q = fmt.Sprintf("?v=%d&w=x", g.n)
	}
	return fmt.Sprintf("h%d:%sr%d%s%s", g.pick("host", g.mix.Hosts), g.prefix, g.n, ext, q)
}

var ctypes = map[string][]string{
	"text":  {"text/plain", "text/plain; charset=utf-8", "text/css", "application/javascript", "image/png", "application/octet-stream", ""},
	"bin":   {"image/png", "application/octet-stream", "text/html", "text/plain", "video/mp4", ""},
	"empty": {"text/plain", "image/png", ""},
	"html":  {"text/html", "text/html; charset=utf-8", "application/xhtml+xml", "text/plain", ""},
}

// body draws (kind, size class) of a leaf.
func (g *siteGen) body(r *Resp) {
	r.Kind = []string{"text", "bin", "text", "bin", "empty"}[g.pick("kind", 5)]
	r.BodySeed = int64(g.pick("bodyseed", 1<<20))
	switch {
	case g.pm("bigtrunc", g.mix.BigText/2+1):
		// a text body that is cut short only after more than 2 MiB went through: the spool buffer of ProcessBody is
		// already on disk when the read fails (the truncation point is the middle of the wire bytes)
		r.Kind, r.Size = "text", 5<<20+g.pick("bigtruncextra", 1<<20)
		r.forceTruncate = true
	case g.pm("bigtext", g.mix.BigText):
		r.Kind, r.Size = "text", 2<<20+1+g.pick("bigextra", 1<<20)
	case g.pm("huge", g.mix.Huge):
		r.Size = []int{2<<20 - 1, 2 << 20, 2<<20 + 1, 1<<20 - 1, 1 << 20, 1<<20 + 1, 3 << 20}[g.pick("hugesz", 7)]
	default:
		switch g.pick("sizeclass", 12) {
		case 0:
			r.Size = 0
		case 1:
			r.Size = 1
		case 2:
			r.Size = 2047
		case 3:
			r.Size = 2048
		case 4:
			r.Size = 2049
		case 5, 6:
			// whole message = dedupe threshold - 1 / +0 / +1
			r.TotalHint = g.mix.DedupeTotal + g.pick("dthr", 3) - 1
			r.Size = g.mix.DedupeTotal
		case 7, 8:
			r.Size = 2 + g.pick("small", 1500)
		case 9:
			r.Size = 2050 + g.pick("medium", 20000)
		case 10:
			r.Size = 64<<10 - 2 + g.pick("k64", 5) // around the spooled buffer's initial size
		default:
			r.Size = 20000 + g.pick("large", 300000)
		}
	}
	if r.Kind == "empty" {
		r.Size = 0
	}
	if r.Size == 0 {
		r.Kind = "empty"
	}
}

// leaf creates one non-page resource under the seed's prefix and returns its reference.
func (g *siteGen) leaf() string {
	r := &Resp{Status: 200}
	if len(g.shared) > 0 && g.pick("shared", 4) == 0 {
		s := g.shared[g.pick("sharedidx", len(g.shared))]
		r.Kind, r.Size, r.BodySeed, r.Gzip = s.Kind, s.Size, s.BodySeed, s.Gzip
	} else {
		g.body(r)
		r.Gzip = g.pick("gzip", 3) == 0
	}
	cts := ctypes[r.Kind]
	r.CType = cts[g.pick("ctype", len(cts))]
	r.Framing = []string{"cl", "chunked", "cl", "chunked", "eof"}[g.pick("framing", 5)]
	if r.Framing == "eof" && !g.mix.AllowEOF {
		r.Framing = "cl"
	}
	if r.TotalHint > 0 {
		r.Framing, r.Gzip = "cl", false
	}
	ext := map[string]string{"text": ".txt", "bin": ".png", "empty": ".dat"}[r.Kind]
	ref := g.ref(ext)
	switch st := g.pick("status", 20); {
	case st < 9:
	case st == 9:
		r.Status = 204
	case st == 10:
		r.Status = []int{301, 302}[g.pick("redir", 2)]
		tgt := &Resp{Status: 200, Framing: "cl", CType: "text/plain"}
		g.body(tgt)
		tref := g.ref(".txt")
		g.site[tref] = tgt
		r.Loc = tref
		if g.pick("relloc", 3) == 0 {
			r.Loc = tref[indexByte(tref, ':')+1:] // path-absolute Location on the same host as ... the referring resource
			delete(g.site, tref)
			tref = ref[:indexByte(ref, ':')] + ":" + r.Loc
			g.site[tref] = tgt
		}
	case st == 11:
		r.Status = 403
	case st == 12:
		r.Status = 403
		r.CFHeader = []string{"cf-mitigated", "Cf-Mitigated", "CF-MITIGATED"}[g.pick("cfname", 3)]
	case st == 13:
		// (420 and 499, like 520 and 999 below, are codes servers do send but that have no registered reason phrase)
		r.Status = []int{404, 404, 404, 420, 499}[g.pick("notfound", 5)]
	default:
		if g.pm("badstatus", g.mix.BadStatus) {
			r.Status = []int{429, 500, 503, 500, 503, 408, 520, 999}[g.pick("bad", 8)]
		}
	}
	if g.mix.NoPenalty && (r.Status == 403 || r.Status == 408 || r.Status == 429) {
		r.Status, r.CFHeader = []int{500, 503, 404}[g.pick("nopenalty", 3)], ""
	}
	switch {
	case g.pm("fault", g.mix.Faults):
		if g.pick("faultkind", 2) == 0 && r.Size > 1 && r.Framing != "eof" {
			r.Fault = "truncate"
		} else {
			r.FailFirst, r.FailStatus = -1, 0
		}
	case g.pm("badgzip", g.mix.BadGzip):
		r.Gzip, r.TotalHint = true, 0
		r.Fault = []string{"badgzip-header", "badgzip-mid", "badgzip-crc"}[g.pick("badgz", 3)]
		if r.Size < 64 {
			r.Kind, r.Size = "text", 500
		}
	case g.pm("failthenok", g.mix.FailThenOK):
		r.FailFirst, r.FailStatus = 1, []int{500, 503, 429, 0}[g.pick("ffk", 4)]
		if g.mix.NoPenalty && r.FailStatus == 429 {
			r.FailStatus = 502
		}
	}
	if r.forceTruncate && r.Status == 200 && r.Framing != "eof" && !r.Gzip {
		r.Fault, r.FailFirst, r.FailStatus = "truncate", 0, 0
	}
	if r.Fault == "truncate" && g.mix.KeepRejectedWhole && (r.CFHeader != "" || slices.Contains(g.mix.Discard, r.Status)) {
		r.Fault = ""
		veriflib.Excluded("C16/net", "no truncated body on a response the discard policy rejects (open finding C16-discarded-truncated-response-leaks-spool-file)")
	}
	g.site[ref] = r
	return ref
}

func indexByte(s string, c byte) int {
	for i := 0; i < len(s); i++ {
		if s[i] == c {
			return i
		}
	}
	return -1
}

func (g *siteGen) page() string {
	r := &Resp{Status: 200, Kind: "html", CType: []string{"text/html", "text/html; charset=utf-8", "text/html", ""}[g.pick("pct", 4)], BodySeed: int64(g.pick("pageseed", 1000))}
	r.Framing = []string{"cl", "chunked"}[g.pick("pframing", 2)]
	r.Gzip = g.pick("pgzip", 3) == 0
	r.Size = []int{0, 0, 2047, 2048, 2049, 5000, 70000}[g.pick("psize", 7)]
	ref := g.ref("")
	n := g.pick("nassets", g.mix.MaxAssets+1)
	for i := 0; i < n; i++ {
		if len(r.Assets) > 0 && g.pick("dupasset", 12) == 0 {
			r.Assets = append(r.Assets, r.Assets[g.pick("dupidx", len(r.Assets))])
		} else {
			r.Assets = append(r.Assets, g.leaf())
		}
	}
	if g.pick("links", 3) == 0 {
		r.Links = []string{g.ref("")}
	}
	if g.pm("pagefail", g.mix.FailThenOK) {
		r.FailFirst, r.FailStatus = 1, []int{500, 503}[g.pick("pffk", 2)]
	}
	g.site[ref] = r
	return ref
}

// GenSeed adds the resources of seed number k to site and returns its plan.
func GenSeed(t *rapid.T, k int, site map[string]*Resp, mix Mix, shared []Resp) SeedPlan {
	g := &siteGen{t: t, mix: mix, site: site, prefix: fmt.Sprintf("/s%d/", k), shared: shared}
	sp := SeedPlan{ID: fmt.Sprintf("seed-%d", k), Prefix: g.prefix}
	switch g.pick("seedkind", 10) {
	case 0, 1, 2, 3, 4, 5:
		sp.Ref = g.page()
	case 6, 7:
		sp.Ref = g.leaf()
	default:
		// redirect chain to a page
		n := 1 + g.pick("chain", 3)
		end := g.page()
		for i := 0; i < n; i++ {
			ref := g.ref("")
			g.site[ref] = &Resp{Status: []int{301, 302, 307}[g.pick("code", 3)], Kind: "text", Size: g.pick("rbody", 300), CType: "text/plain", Framing: "cl", Loc: end}
			end = ref
		}
		sp.Ref = end
	}
	return sp
}

// GenShared draws the pool of bodies that appear under several URLs.
func GenShared(t *rapid.T, n, dedupeTotal int) []Resp {
	var out []Resp
	for i := 0; i < n; i++ {
		sz := []int{dedupeTotal + 500, dedupeTotal * 3, 1, 300, 70000, dedupeTotal - 150}[rapid.IntRange(0, 5).Draw(t, "sharedsize")]
		if sz < 1 {
			sz = 1
		}
		out = append(out, Resp{Kind: []string{"text", "bin"}[rapid.IntRange(0, 1).Draw(t, "sharedkind")], Size: sz, BodySeed: int64(9000 + i), Gzip: rapid.IntRange(0, 3).Draw(t, "sharedgzip") == 0})
	}
	return out
}
