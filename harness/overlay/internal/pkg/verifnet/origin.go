// Package verifnet is the socket pipeline harness "N" (overlay-only): the five REAL stages incl. the real archiver with
// its real WARC-writing HTTP client in SYNCHRONOUS WARC mode, wired exactly as controler.startPipeline does; the harness
// is the source (owns the finish/produce channels). Origin HTTP servers run in the test process on 127.0.0.2,
// 127.0.0.3, ... (NormalizeURL only rejects localhost/127.0.0.1/dot-less hosts; the WARC dialer skips DNS for IP
// literals) and answer from a generated table of response specifications with exact control over the bytes on the
// wire (the connection is hijacked). Every request is logged with the SHA-1 and length of the entity body actually
// sent (after content-encoding, before transfer-encoding): the ground truth of the C02 oracle.
package verifnet

import (
	"bufio"
	"bytes"
	"compress/gzip"
	"fmt"
	"math/rand"
	"net"
	"net/http"
	"sort"
	"strconv"
	"strings"
	"sync"
	"sync/atomic"
	"time"

	"github.com/internetarchive/Zeno/internal/pkg/verifref"
)

// Resp specifies the answer to one path on one host. Plain data (part of the replayable case).
type Resp struct {
	Status        int      `json:"status"`
	Kind          string   `json:"kind"`                // html | text | bin | empty   (what the entity is made of)
	Size          int      `json:"size"`                // identity entity size (html: minimum size, padded up to it)
	BodySeed      int64    `json:"body_seed"`           // same (Kind, Size, BodySeed) => identical bytes (revisit path)
	CType         string   `json:"ctype,omitempty"`     // Content-Type header ("" = none)
	Gzip          bool     `json:"gzip,omitempty"`      // Content-Encoding: gzip
	Framing       string   `json:"framing"`             // cl | chunked | eof
	Loc           string   `json:"loc,omitempty"`       // Location header: "h<i>:<path>" or raw text
	CFHeader      string   `json:"cf_header,omitempty"` // name of the cf-mitigated header as sent ("" = none), value "challenge"
	Assets        []string `json:"assets,omitempty"`    // html: <img src> references "h<i>:<path>"
	Links         []string `json:"links,omitempty"`     // html: <a href> references
	Fault         string   `json:"fault,omitempty"`     // truncate | noresponse | badgzip-header | badgzip-mid | badgzip-crc
	forceTruncate bool
	// the first FailFirst attempts answer FailStatus with a small text body (-1: always)
	FailFirst  int `json:"fail_first,omitempty"`
	FailStatus int `json:"fail_status,omitempty"`
	TotalHint  int `json:"total_hint,omitempty"` // when > 0 (cl framing): choose the entity size so that the whole HTTP message has this many bytes
}

// Entry is one request seen by an origin.
type Entry struct {
	Seq       int64     `json:"seq"`
	At        time.Time `json:"at"`
	Host      string    `json:"host"`   // Host header
	Target    string    `json:"target"` // request-target as received
	URL       string    `json:"url"`    // http://<Host><Target>: what WARC-Target-URI must say
	Attempt   int       `json:"attempt"`
	Status    int       `json:"status"`     // 0: no response sent
	EntityLen int64     `json:"entity_len"` // bytes of entity body (after content-encoding, before transfer-encoding) that the spec wanted
	EntitySHA string    `json:"entity_sha1"`
	TotalLen  int       `json:"total_len"` // bytes of the whole HTTP response message on the wire
	Complete  bool      `json:"complete"`  // the whole response was written to the socket
	Done      bool      `json:"done"`      // the handler is through with it
	CF        bool      `json:"cf,omitempty"`
	Known     bool      `json:"known"` // the path is in the site table
}

// Farm is a set of origin servers sharing one site table and one totally ordered log.
type Farm struct {
	mu       sync.Mutex
	cond     *sync.Cond
	hosts    []string // "127.0.0.N:port"
	ls       []net.Listener
	srv      []*http.Server
	site     map[string]*Resp // "h<i>:<path>" -> spec
	rendered map[string]*rendered
	attempts map[string]int
	log      []*Entry
	seq      *atomic.Int64
	conns    map[net.Conn]struct{}
	active   atomic.Int64
}

type rendered struct {
	entity []byte
	sha    string
	head   []byte // status line + headers + CRLF
	wire   []byte // body as framed on the wire
}

// NewFarm starts n origins on 127.0.0.2 ... (one address each, kernel-chosen ports).
func NewFarm(n int, seq *atomic.Int64) (*Farm, error) {
	f := &Farm{site: map[string]*Resp{}, rendered: map[string]*rendered{}, attempts: map[string]int{}, seq: seq, conns: map[net.Conn]struct{}{}}
	f.cond = sync.NewCond(&f.mu)
	for i := 0; i < n; i++ {
		ip := fmt.Sprintf("127.0.%d.%d", i/200, 2+i%200) // 127.0.0.2 ... 127.0.0.201, 127.0.1.2 ...
		l, err := net.Listen("tcp", ip+":0")
		if err != nil {
			f.Close()
			return nil, err
		}
		idx := i
		s := &http.Server{Handler: http.HandlerFunc(func(w http.ResponseWriter, r *http.Request) { f.serve(idx, w, r) }), ReadHeaderTimeout: time.Minute}
		f.hosts = append(f.hosts, l.Addr().String())
		f.ls = append(f.ls, l)
		f.srv = append(f.srv, s)
		go s.Serve(l)
	}
	return f, nil
}

// Hosts returns the host:port of every origin.
func (f *Farm) Hosts() []string { return f.hosts }

// URL turns a reference "h<i>:<path>" into the absolute URL; other texts are returned unchanged.
func (f *Farm) URL(ref string) string {
	if strings.HasPrefix(ref, "h") {
		if i := strings.IndexByte(ref, ':'); i > 1 {
			if n, err := strconv.Atoi(ref[1:i]); err == nil && n >= 0 {
				return "http://" + f.hosts[n%len(f.hosts)] + ref[i+1:]
			}
		}
	}
	return ref
}

// key normalises a reference to the farm's host count.
func (f *Farm) key(ref string) string {
	i := strings.IndexByte(ref, ':')
	n, _ := strconv.Atoi(ref[1:i])
	return fmt.Sprintf("h%d:%s", n%len(f.hosts), ref[i+1:])
}

// AddSite adds specifications (keys "h<i>:<path>"); rendering happens on first use.
func (f *Farm) AddSite(site map[string]*Resp) {
	f.mu.Lock()
	defer f.mu.Unlock()
	for k, r := range site {
		f.site[f.key(k)] = r
	}
}

// Active is the number of requests being served right now.
func (f *Farm) Active() int64 { return f.active.Load() }

// LogLen is the number of requests seen so far.
func (f *Farm) LogLen() int {
	f.mu.Lock()
	defer f.mu.Unlock()
	return len(f.log)
}

// Log returns a copy of the entries (values) whose Target starts with prefix, after waiting until the handler of each
// of them is done (handlers never wait for the crawler).
func (f *Farm) Log(prefix string) []Entry {
	f.mu.Lock()
	defer f.mu.Unlock()
	for {
		pending := false
		for _, e := range f.log {
			if strings.HasPrefix(e.Target, prefix) && !e.Done {
				pending = true
			}
		}
		if !pending {
			break
		}
		f.cond.Wait()
	}
	var out []Entry
	for _, e := range f.log {
		if strings.HasPrefix(e.Target, prefix) {
			out = append(out, *e)
		}
	}
	return out
}

// LogNow returns the matching entries as they are, without waiting for handlers (for failure paths: a handler may be
// stuck writing to a connection the crawler has stopped reading).
func (f *Farm) LogNow(prefix string) []Entry {
	f.mu.Lock()
	defer f.mu.Unlock()
	var out []Entry
	for _, e := range f.log {
		if strings.HasPrefix(e.Target, prefix) {
			out = append(out, *e)
		}
	}
	return out
}

// Close stops the servers and closes every connection still open.
func (f *Farm) Close() {
	for _, s := range f.srv {
		s.Close()
	}
	for _, l := range f.ls {
		l.Close()
	}
	f.mu.Lock()
	for c := range f.conns {
		c.Close()
	}
	f.mu.Unlock()
}

// OpenConns is the number of hijacked connections not yet closed by the origin.
func (f *Farm) OpenConns() int {
	f.mu.Lock()
	defer f.mu.Unlock()
	return len(f.conns)
}

// Entity produces the identity bytes of a specification (deterministic).
func Entity(kind string, size int, seed int64) []byte {
	if size <= 0 || kind == "empty" {
		return nil
	}
	rng := rand.New(rand.NewSource(seed*1000003 + int64(size)))
	b := make([]byte, size)
	switch kind {
	case "bin":
		rng.Read(b)
		copy(b, []byte{0x89, 'P', 'N', 'G', 0x0d, 0x0a, 0x1a, 0x0a})
	default: // text
		const al = "abcdefghijklmnopqrstuvwxyz ABCDEFGHIJKLMNOPQRSTUVWXYZ0123456789 .,;\n"
		for i := range b {
			b[i] = al[rng.Intn(len(al))]
		}
	}
	return b
}

func (f *Farm) html(r *Resp) []byte {
	var b bytes.Buffer
	b.WriteString("<!DOCTYPE html>\n<html><head><title>t</title></head><body>\n")
	for _, a := range r.Assets {
		fmt.Fprintf(&b, "<img src=\"%s\">\n", f.URL(a))
	}
	for _, l := range r.Links {
		fmt.Fprintf(&b, "<a href=\"%s\">link</a>\n", f.URL(l))
	}
	tail := "</body></html>\n"
	if pad := r.Size - b.Len() - len(tail) - 9; pad > 0 {
		b.WriteString("<!-- ")
		b.Write(Entity("text", pad, r.BodySeed))
		b.WriteString(" -->")
	}
	b.WriteString(tail)
	return b.Bytes()
}

func gz(b []byte) []byte {
	var z bytes.Buffer
	w, _ := gzip.NewWriterLevel(&z, gzip.BestSpeed)
	w.Write(b)
	w.Close()
	return z.Bytes()
}

func (f *Farm) render(r *Resp, status int, failBody bool) *rendered {
	build := func(size int) *rendered {
		var ent []byte
		switch {
		case failBody:
			ent = []byte(fmt.Sprintf("temporary failure %d\n", status))
		case r.Kind == "html":
			ent = f.html(r)
		default:
			ent = Entity(r.Kind, size, r.BodySeed)
		}
		noBody := status == 204 || status == 304 || status/100 == 1
		if noBody {
			ent = nil
		}
		gzip := r.Gzip && !failBody && !noBody
		if gzip {
			ent = gz(ent)
			switch r.Fault {
			case "badgzip-header":
				ent = append([]byte("this is not gzip at all "), ent...)
			case "badgzip-mid":
				if len(ent) > 24 {
					for i := 12; i < len(ent)-8; i += 3 {
						ent[i] ^= 0x5A
					}
				}
			case "badgzip-crc":
				if len(ent) >= 8 {
					ent[len(ent)-8] ^= 0xFF
				}
			}
		}
		var h bytes.Buffer
		fmt.Fprintf(&h, "HTTP/1.1 %d %s\r\n", status, http.StatusText(status))
		ct := r.CType
		if failBody {
			ct = "text/plain"
		}
		if ct != "" && !noBody {
			fmt.Fprintf(&h, "Content-Type: %s\r\n", ct)
		}
		if gzip {
			h.WriteString("Content-Encoding: gzip\r\n")
		}
		if r.Loc != "" && !failBody {
			fmt.Fprintf(&h, "Location: %s\r\n", f.URL(r.Loc))
		}
		if r.CFHeader != "" && !failBody {
			fmt.Fprintf(&h, "%s: challenge\r\n", r.CFHeader)
		}
		h.WriteString("Connection: close\r\n")
		framing := r.Framing
		if failBody || framing == "" {
			framing = "cl"
		}
		var wire []byte
		switch {
		case noBody:
		case framing == "chunked":
			h.WriteString("Transfer-Encoding: chunked\r\n")
			var w bytes.Buffer
			rng := rand.New(rand.NewSource(r.BodySeed + 7))
			for rest := ent; len(rest) > 0; {
				n := 1 + rng.Intn(8192)
				if n > len(rest) {
					n = len(rest)
				}
				fmt.Fprintf(&w, "%x\r\n", n)
				w.Write(rest[:n])
				w.WriteString("\r\n")
				rest = rest[n:]
			}
			w.WriteString("0\r\n\r\n")
			wire = w.Bytes()
		case framing == "eof":
			wire = ent
		default:
			fmt.Fprintf(&h, "Content-Length: %d\r\n", len(ent))
			wire = ent
		}
		h.WriteString("\r\n")
		return &rendered{entity: ent, sha: verifref.SHA1Base32(ent), head: h.Bytes(), wire: wire}
	}
	rd := build(r.Size)
	if r.TotalHint > 0 && !failBody && r.Kind != "html" && !r.Gzip && r.Framing == "cl" {
		// aim at an exact size of the whole message (the dedupe threshold counts header bytes too)
		for i := 0; i < 3; i++ {
			total := len(rd.head) + len(rd.wire)
			if total == r.TotalHint {
				break
			}
			sz := len(rd.entity) + r.TotalHint - total
			if sz < 0 {
				break
			}
			rd = build(sz)
		}
	}
	return rd
}

func (f *Farm) serve(idx int, w http.ResponseWriter, req *http.Request) {
	f.active.Add(1)
	defer f.active.Add(-1)
	key := fmt.Sprintf("h%d:%s", idx, req.RequestURI)
	f.mu.Lock()
	f.attempts[key]++
	att := f.attempts[key]
	spec := f.site[key]
	e := &Entry{Seq: f.seq.Add(1), At: time.Now(), Host: req.Host, Target: req.RequestURI, URL: "http://" + req.Host + req.RequestURI, Attempt: att, Known: spec != nil}
	f.log = append(f.log, e)
	var rd *rendered
	status := 404
	fault := ""
	if spec == nil {
		spec = &Resp{Status: 404, Kind: "text", Size: 9, Framing: "cl", CType: "text/plain"}
		rd = f.render(spec, 404, false)
	} else if spec.FailFirst == -1 || att <= spec.FailFirst {
		status = spec.FailStatus
		if status == 0 {
			fault = "noresponse"
		} else {
			rd = f.render(spec, status, true)
		}
	} else {
		status, fault = spec.Status, spec.Fault
		rk := key + "|ok"
		if rd = f.rendered[rk]; rd == nil {
			rd = f.render(spec, status, false)
			if len(rd.entity) < 1<<16 { // big bodies are cheap to regenerate and expensive to keep
				f.rendered[rk] = rd
			}
		}
		e.CF = spec.CFHeader != "" && strings.EqualFold(spec.CFHeader, "cf-mitigated")
	}
	if rd != nil {
		e.Status, e.EntityLen, e.EntitySHA, e.TotalLen = status, int64(len(rd.entity)), rd.sha, len(rd.head)+len(rd.wire)
	}
	f.mu.Unlock()
	finish := func(complete bool) {
		f.mu.Lock()
		e.Complete, e.Done = complete, true
		f.cond.Broadcast()
		f.mu.Unlock()
	}
	hj, ok := w.(http.Hijacker)
	if !ok {
		finish(false)
		return
	}
	conn, brw, err := hj.Hijack()
	if err != nil {
		finish(false)
		return
	}
	f.mu.Lock()
	f.conns[conn] = struct{}{}
	f.mu.Unlock()
	defer func() {
		conn.Close()
		f.mu.Lock()
		delete(f.conns, conn)
		f.mu.Unlock()
	}()
	if fault == "noresponse" {
		finish(false)
		return
	}
	_ = brw
	bw := bufio.NewWriterSize(conn, 1<<16)
	wire := rd.wire
	if fault == "truncate" && len(wire) > 0 {
		wire = wire[:len(wire)/2]
	}
	_, err1 := bw.Write(rd.head)
	_, err2 := bw.Write(wire)
	err3 := bw.Flush()
	ok = err1 == nil && err2 == nil && err3 == nil && !(fault == "truncate" && len(rd.wire) > 0)
	// the log entry is final before the connection is closed: a crawler that has seen the end of the response finds it
	finish(ok)
}

// SortedSpecKeys is a helper for deterministic iteration.
func SortedSpecKeys(m map[string]*Resp) []string {
	ks := make([]string, 0, len(m))
	for k := range m {
		ks = append(ks, k)
	}
	sort.Strings(ks)
	return ks
}
