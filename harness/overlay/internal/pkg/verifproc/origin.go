package verifproc

import (
	"encoding/binary"
	"fmt"
	"io"
	"net"
	"net/http"
	"strings"
	"sync"
	"time"
)

// Req is one request seen by the origin.
type Req struct {
	N        int    `json:"n"` // arrival order (1-based)
	Run      int    `json:"run"`
	Path     string `json:"path"`
	Done     bool   `json:"done"` // response completely written
	At       int64  `json:"at_ms"`
	Attempts int    `json:"-"`
}

// Origin is an HTTP server on 127.0.0.2 serving a tiny site: /p<i> pages referencing /p<i>/a<j>.png assets.
type Origin struct {
	ln      net.Listener
	srv     *http.Server
	t0      time.Time
	mu      sync.Mutex
	reqs    []*Req
	run     int
	Assets  int           // assets per page
	Links   int           // absolute <a href> outlinks per /p page (0 = none)
	Delay   time.Duration // every answer is delayed by this much (a slow site: seeds stay in flight longer)
	BigPath string        // this page is about 3 MB of HTML: its body is spooled to a file in the job's temp directory while it is processed
	// stall: when the K-th request reaches Phase ("arrival" | "midbody" | "complete") Event is signalled and the
	// handler waits for Release (or 15 s)
	StallK     int
	StallPhase string
	Event      chan int
	Release    chan struct{}
	FailFirst  map[string]int // path -> number of initial 503 answers
	failCount  map[string]int
	// AfterStall: what the stalled request gets once it is released: "" = the normal response, "429" = a response the
	// default discard policy rejects, "drop" = the connection is cut (for a mid-body stall: a truncated body)
	AfterStall string
	// CDX: the origin also plays the CDX dedupe server (/web/timemap/cdx); the CDXStallK-th lookup signals CDXEvent and
	// is held until CDXRelease (or 8 s - the client gives up after 10 s)
	CDXStallK  int
	CDXStallOn string // when set: the first lookup whose url parameter contains this text is the one held (instead of the K-th)
	cdxHeld    bool
	cdxCount   int
	CDXEvent   chan string
	CDXRelease chan struct{}
}

func NewOrigin(ip string, assets int) (*Origin, error) {
	ln, err := net.Listen("tcp", ip+":0")
	if err != nil {
		return nil, err
	}
	o := &Origin{ln: ln, t0: time.Now(), Assets: assets, Event: make(chan int, 4), Release: make(chan struct{}), run: 1,
		FailFirst: map[string]int{}, failCount: map[string]int{}, CDXEvent: make(chan string, 4), CDXRelease: make(chan struct{})}
	o.srv = &http.Server{Handler: http.HandlerFunc(o.handle)}
	go o.srv.Serve(ln)
	return o, nil
}

func (o *Origin) Addr() string           { return o.ln.Addr().String() }
func (o *Origin) URL(path string) string { return "http://" + o.Addr() + path }
func (o *Origin) Close()                 { o.srv.Close() }
func (o *Origin) SetRun(n int)           { o.mu.Lock(); o.run = n; o.mu.Unlock() }

// Log returns a copy of the request log.
func (o *Origin) Log() []Req {
	o.mu.Lock()
	defer o.mu.Unlock()
	out := make([]Req, len(o.reqs))
	for i, r := range o.reqs {
		out[i] = *r
	}
	return out
}

func (o *Origin) stall(n int, phase string) bool {
	if o.StallK == n && o.StallPhase == phase {
		select {
		case o.Event <- n:
		default:
		}
		select {
		case <-o.Release:
		case <-time.After(15 * time.Second):
		}
		return true
	}
	return false
}

func (o *Origin) handle(w http.ResponseWriter, r *http.Request) {
	if strings.HasPrefix(r.URL.Path, "/web/timemap/cdx") {
		o.mu.Lock()
		o.cdxCount++
		k := o.cdxCount
		hold := k == o.CDXStallK
		if o.CDXStallOn != "" {
			hold = !o.cdxHeld && strings.Contains(r.URL.Query().Get("url"), o.CDXStallOn)
			if hold {
				o.cdxHeld = true
			}
		}
		o.mu.Unlock()
		if hold {
			select {
			case o.CDXEvent <- r.URL.Query().Get("url"):
			default:
			}
			select {
			case <-o.CDXRelease:
			case <-time.After(8 * time.Second):
			}
		}
		w.WriteHeader(200)
		return
	}
	if o.Delay > 0 {
		time.Sleep(o.Delay)
	}
	o.mu.Lock()
	rq := &Req{N: len(o.reqs) + 1, Run: o.run, Path: r.URL.Path, At: time.Since(o.t0).Milliseconds()}
	o.reqs = append(o.reqs, rq)
	o.failCount[r.URL.Path]++
	failing := o.failCount[r.URL.Path] <= o.FailFirst[r.URL.Path]
	o.mu.Unlock()
	if o.stall(rq.N, "arrival") && o.AfterStall != "" {
		if o.AfterStall == "429" {
			w.Header().Set("Content-Type", "text/plain")
			w.WriteHeader(429)
			io.WriteString(w, "slow down")
			o.mu.Lock()
			rq.Done = true
			o.mu.Unlock()
			return
		}
		panic(http.ErrAbortHandler) // drop the connection without an answer
	}
	if failing {
		w.Header().Set("Content-Type", "text/plain")
		w.WriteHeader(503)
		io.WriteString(w, "try again")
		o.mu.Lock()
		rq.Done = true
		o.mu.Unlock()
		return
	}
	var body string
	if strings.HasSuffix(r.URL.Path, ".png") {
		w.Header().Set("Content-Type", "image/png")
		body = "\x89PNG\r\n\x1a\n" + strings.Repeat("x", 3000) + r.URL.Path
	} else {
		w.Header().Set("Content-Type", "text/html; charset=utf-8")
		var sb strings.Builder
		sb.WriteString("<!DOCTYPE html><html><head><title>t</title></head><body>\n")
		for j := 0; j < o.Assets; j++ {
			fmt.Fprintf(&sb, "<img src=\"%s/a%d.png\">\n", r.URL.Path, j)
		}
		if strings.HasPrefix(r.URL.Path, "/p") && !strings.Contains(r.URL.Path[1:], "/") {
			for j := 0; j < o.Links; j++ {
				fmt.Fprintf(&sb, "<a href=\"http://%s/l%d-%s\">link</a>\n", o.Addr(), j, r.URL.Path[1:])
			}
		}
		sb.WriteString(strings.Repeat("<p>filler text to make the body a little longer</p>\n", 40))
		if o.BigPath != "" && r.URL.Path == o.BigPath {
			sb.WriteString(strings.Repeat("<p>filler text to make the body a little longer</p>\n", 60000))
		}
		sb.WriteString("</body></html>\n")
		body = sb.String()
	}
	w.Header().Set("Content-Length", fmt.Sprint(len(body)))
	w.WriteHeader(200)
	half := len(body) / 2
	io.WriteString(w, body[:half])
	if f, ok := w.(http.Flusher); ok {
		f.Flush()
	}
	if o.stall(rq.N, "midbody") && o.AfterStall == "drop" {
		panic(http.ErrAbortHandler) // truncated body
	}
	io.WriteString(w, body[half:])
	if f, ok := w.(http.Flusher); ok {
		f.Flush()
	}
	o.mu.Lock()
	rq.Done = true
	o.mu.Unlock()
	o.stall(rq.N, "complete")
}

// ---------------------------------------------------------------------------------------------
// minimal SOCKS5 proxy (no authentication, CONNECT only)

type Socks5 struct {
	ln net.Listener
}

func NewSocks5() (*Socks5, error) {
	ln, err := net.Listen("tcp", "127.0.0.1:0")
	if err != nil {
		return nil, err
	}
	s := &Socks5{ln: ln}
	go func() {
		for {
			c, err := ln.Accept()
			if err != nil {
				return
			}
			go s.serve(c)
		}
	}()
	return s, nil
}

func (s *Socks5) URL() string { return "socks5://" + s.ln.Addr().String() }
func (s *Socks5) Close()      { s.ln.Close() }

func (s *Socks5) serve(c net.Conn) {
	defer c.Close()
	buf := make([]byte, 262)
	if _, err := io.ReadFull(c, buf[:2]); err != nil || buf[0] != 5 {
		return
	}
	if _, err := io.ReadFull(c, buf[:int(buf[1])]); err != nil {
		return
	}
	c.Write([]byte{5, 0})
	if _, err := io.ReadFull(c, buf[:4]); err != nil || buf[1] != 1 {
		return
	}
	var host string
	switch buf[3] {
	case 1:
		io.ReadFull(c, buf[:4])
		host = net.IP(buf[:4]).String()
	case 3:
		io.ReadFull(c, buf[:1])
		n := int(buf[0])
		io.ReadFull(c, buf[:n])
		host = string(buf[:n])
	case 4:
		io.ReadFull(c, buf[:16])
		host = net.IP(buf[:16]).String()
	default:
		return
	}
	io.ReadFull(c, buf[:2])
	port := binary.BigEndian.Uint16(buf[:2])
	up, err := net.DialTimeout("tcp", net.JoinHostPort(host, fmt.Sprint(port)), 5*time.Second)
	if err != nil {
		c.Write([]byte{5, 5, 0, 1, 0, 0, 0, 0, 0, 0})
		return
	}
	defer up.Close()
	c.Write([]byte{5, 0, 0, 1, 0, 0, 0, 0, 0, 0})
	done := make(chan struct{}, 2)
	go func() { io.Copy(up, c); done <- struct{}{} }()
	go func() { io.Copy(c, up); done <- struct{}{} }()
	<-done
}
