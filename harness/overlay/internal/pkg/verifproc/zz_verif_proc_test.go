package verifproc

// Process-lifecycle facets:
//
//	C03/proc  a graceful stop (SIGTERM -> WatchSignals -> Stop) at a generated moment, under a generated configuration,
//	          terminates with status 0, without panic, and leaves only complete, finally-named WARC files
//	C04/proc  a job on the local queue that is stopped or SIGKILLed at a generated point and started again crawls
//	          every unfinished URL again, strands no row as CLAIMED, and everything reported finished is in the WARCs
//
// The child is the real command line: this test binary re-executed with VERIF_CHILD=1 calls cmd.Run() with
// os.Args = ["Zeno", "get", "url", ...] in a private working directory (jobs/<job>/ is created there).

import (
	"database/sql"
	"encoding/json"
	"fmt"
	"os"
	"os/exec"
	"path/filepath"
	"slices"
	"sort"
	"strings"
	"syscall"
	"testing"
	"time"

	"github.com/internetarchive/Zeno/cmd"
	"github.com/internetarchive/Zeno/internal/pkg/controler/pause"
	"github.com/internetarchive/Zeno/internal/pkg/verifhook"
	"github.com/internetarchive/Zeno/internal/pkg/veriflib"
	_ "github.com/ncruces/go-sqlite3/driver"
	_ "github.com/ncruces/go-sqlite3/embed"
	"pgregory.net/rapid"
)

func TestMain(m *testing.M) {
	if os.Getenv("VERIF_CHILD") == "1" {
		var args []string
		json.Unmarshal([]byte(os.Getenv("VERIF_CHILD_ARGS")), &args)
		os.Args = append([]string{"Zeno"}, args...)
		// in-process action the environment spec cannot express: pause the pipeline at the n-th hit of a point
		if spec := os.Getenv("VERIF_CHILD_PAUSE"); spec != "" {
			point, ns, _ := strings.Cut(spec, "@")
			var n int64
			fmt.Sscan(ns, &n)
			verifhook.SetHandler(func(p string, k int64, _ string) {
				if p == point && k == n {
					go pause.Pause("verif: pause requested by the harness")
				}
			})
		}
		if err := cmd.Run(); err != nil {
			fmt.Println(err.Error())
			os.Exit(3)
		}
		os.Exit(0)
	}
	os.Exit(m.Run())
}

// ---------------------------------------------------------------------------------------------
// child process helper

type child struct {
	cmd     *exec.Cmd
	dir     string
	outPath string
	hookLog string
	done    chan struct{}
	err     error
}

func startChild(dir string, args []string, extraEnv ...string) (*child, error) {
	c := &child{dir: dir, outPath: filepath.Join(dir, fmt.Sprintf("child-%d.out", time.Now().UnixNano())), hookLog: filepath.Join(dir, "hook.log"), done: make(chan struct{})}
	out, err := os.Create(c.outPath)
	if err != nil {
		return nil, err
	}
	ab, _ := json.Marshal(args)
	c.cmd = exec.Command(os.Args[0])
	c.cmd.Dir = dir
	c.cmd.Stdout, c.cmd.Stderr = out, out
	c.cmd.Env = append(os.Environ(), "VERIF_CHILD=1", "VERIF_CHILD_ARGS="+string(ab), "VERIFHOOK_LOG="+c.hookLog, "HOME="+dir, "GOTRACEBACK=all")
	c.cmd.Env = append(c.cmd.Env, extraEnv...)
	if err := c.cmd.Start(); err != nil {
		return nil, err
	}
	go func() { c.err = c.cmd.Wait(); out.Close(); close(c.done) }()
	return c, nil
}

func (c *child) exited() bool {
	select {
	case <-c.done:
		return true
	default:
		return false
	}
}

func (c *child) output() string {
	b, _ := os.ReadFile(c.outPath)
	if len(b) > 60000 {
		b = append(b[:20000], b[len(b)-40000:]...)
	}
	return string(b)
}

func (c *child) hookLines() []string {
	b, _ := os.ReadFile(c.hookLog)
	return strings.Split(strings.TrimSpace(string(b)), "\n")
}

// waitExit waits for the child; progress() is sampled so that a long but progressing stop is not called a hang.
func (c *child) waitExit(limit time.Duration, progress func() string) bool {
	deadline := time.Now().Add(limit)
	last, lastChange := progress(), time.Now()
	for {
		select {
		case <-c.done:
			return true
		case <-time.After(100 * time.Millisecond):
		}
		if p := progress(); p != last {
			last, lastChange = p, time.Now()
		}
		if time.Now().After(deadline) && time.Since(lastChange) > limit/2 {
			return false
		}
	}
}

func (c *child) exitCode() int {
	if c.cmd.ProcessState == nil {
		return -1
	}
	return c.cmd.ProcessState.ExitCode()
}

func (c *child) dumpAndKill() string {
	c.cmd.Process.Signal(syscall.SIGQUIT)
	select {
	case <-c.done:
	case <-time.After(5 * time.Second):
		c.cmd.Process.Kill()
		<-c.done
	}
	return c.output()
}

func waitFor(limit time.Duration, cond func() bool) bool {
	deadline := time.Now().Add(limit)
	for time.Now().Before(deadline) {
		if cond() {
			return true
		}
		time.Sleep(20 * time.Millisecond)
	}
	return cond()
}

func scratch(t veriflib.TB) string {
	base := os.Getenv("VERIF_SCRATCH")
	if base == "" {
		base = os.TempDir()
	}
	d, err := os.MkdirTemp(base, "proc")
	if err != nil {
		t.Fatalf("harness: %v", err)
	}
	return d
}

// ---------------------------------------------------------------------------------------------
// C03

type c03Case struct {
	Proxy     bool   `json:"proxy"`
	Async     bool   `json:"async_warc"`
	RateLimit bool   `json:"rate_limit"`
	Workers   int    `json:"workers"`
	Pool      int    `json:"warc_pool"`
	Seencheck bool   `json:"seencheck"`
	MaxRetry  int    `json:"max_retry"`
	Seeds     int    `json:"seeds"`
	Assets    int    `json:"assets"`
	Links     int    `json:"links"`           // outlinks per page; > 0 implies --max-hops 1
	After     string `json:"after,omitempty"` // what the stalled request gets after the stop: "" | 429 | drop
	Moment    string `json:"moment"`          // arrival | midbody | complete | idle | hook | paused
	K         int    `json:"k"`               // request number / hit number
	Point     string `json:"point,omitempty"`
	HoldMs    int    `json:"hold_ms,omitempty"`  // hook moment: the goroutine that raised the event stays busy this long after the SIGTERM
	DelayMs   int    `json:"delay_ms,omitempty"` // the origin delays every answer (seeds stay in flight while the queue is written)
	IdleSec   int    `json:"idle_sec,omitempty"` // idle moment: the crawler sits idle this long (queue empty) before the stop arrives
	Broken    bool   `json:"broken,omitempty"`   // the first page's first asset (the page itself when pages have no assets) always answers 503 with a body: its retries are used up before or during the stop
}

var c03Points = []string{"preprocessor.received", "archiver.received", "postprocessor.received", "postprocessor.outlinks", "finisher.received", "preprocessor.forward", "archiver.beforeDo", "archiver.afterFeedback", "archiver.forward", "postprocessor.forward",
	"finisher.feedback", "finisher.beforeMarkFinished", "finisher.afterMarkFinished", "finisher.afterNotify", "lq.get.committed", "lq.finisher.beforeDelete", "lq.producer.beforeAdd", "lq.producer.afterAdd"}

func genC03(t *rapid.T) c03Case {
	c := c03Case{
		Proxy:     rapid.IntRange(0, 3).Draw(t, "proxy") == 0,
		Async:     rapid.IntRange(0, 3).Draw(t, "async") == 0,
		RateLimit: rapid.Bool().Draw(t, "ratelimit"),
		Workers:   []int{1, 3, 8}[rapid.IntRange(0, 2).Draw(t, "workers")],
		Pool:      rapid.IntRange(1, 2).Draw(t, "pool"),
		Seencheck: rapid.IntRange(0, 3).Draw(t, "seencheck") != 0,
		MaxRetry:  rapid.IntRange(0, 1).Draw(t, "maxretry"),
		Seeds:     rapid.IntRange(1, 6).Draw(t, "seeds"),
		Assets:    rapid.IntRange(0, 3).Draw(t, "assets"),
		Links:     []int{0, 0, 3, 12}[rapid.IntRange(0, 3).Draw(t, "links")],
		Moment:    []string{"arrival", "midbody", "complete", "idle", "hook", "hook", "paused", "paused", "startup"}[rapid.IntRange(0, 8).Draw(t, "moment")],
	}
	total := c.Seeds * (1 + c.Assets)
	c.K = rapid.IntRange(1, max(1, min(total, 6))).Draw(t, "k")
	if c.Links > 0 && rapid.IntRange(0, 2).Draw(t, "late") == 0 {
		// the stop lands on a request for an outlink page: the local queue holds a backlog, its consumer is busy claiming
		// rows and waiting for reactor tokens
		c.K = total + rapid.IntRange(1, min(c.Links*c.Seeds, 8)).Draw(t, "klate")
	}
	if c.Moment == "arrival" || c.Moment == "midbody" {
		c.After = []string{"", "429", "drop", "drop"}[rapid.IntRange(0, 3).Draw(t, "after")]
		if c.Moment == "midbody" && c.After == "429" {
			c.After = "drop"
		}
	}
	if c.Moment == "hook" || c.Moment == "paused" {
		c.Point = c03Points[rapid.IntRange(0, len(c03Points)-1).Draw(t, "point")]
		c.K = rapid.IntRange(1, 3).Draw(t, "hookn")
	}
	if c.Moment == "hook" && rapid.IntRange(0, 2).Draw(t, "hold") == 0 {
		c.HoldMs = []int{300, 1500, 3000}[rapid.IntRange(0, 2).Draw(t, "holdms")]
	}
	if rapid.IntRange(0, 3).Draw(t, "slow") == 0 {
		c.DelayMs = []int{100, 400}[rapid.IntRange(0, 1).Draw(t, "delayms")]
	}
	c.Broken = rapid.IntRange(0, 3).Draw(t, "broken") == 0
	return c
}

func c03Args(c c03Case, o *Origin, proxyURL string) []string {
	args := []string{"get", "url"}
	for i := 0; i < c.Seeds; i++ {
		args = append(args, o.URL(fmt.Sprintf("/p%d", i)))
	}
	args = append(args, "--job", "j1", "--workers", fmt.Sprint(c.Workers), "--max-concurrent-assets", "2", "--warc-pool-size", fmt.Sprint(c.Pool),
		"--max-retry", fmt.Sprint(c.MaxRetry), "--min-space-required", "0.001", "--log-level", "debug", "--no-log-file")
	if c.Proxy {
		args = append(args, "--proxy", proxyURL)
	}
	if c.Async {
		args = append(args, "--async-warc-write")
	}
	if c.RateLimit {
		args = append(args, "--rate-limit-capacity", "50", "--rate-limit-refill-rate", "50")
	} else {
		args = append(args, "--disable-rate-limit")
	}
	if !c.Seencheck {
		args = append(args, "--disable-seencheck")
	}
	if c.Links > 0 {
		args = append(args, "--max-hops", "1")
	}
	return args
}

type c03Result struct {
	Viol      string   `json:"violation,omitempty"`
	ExitCode  int      `json:"exit_code"`
	StopMs    int64    `json:"stop_ms"`
	Requests  int      `json:"requests"`
	InFlight  bool     `json:"stop_landed_in_flight"`
	Files     []string `json:"warc_files"`
	Records   int      `json:"records"`
	HookLines int      `json:"hook_lines"`
	Output    string   `json:"child_output_tail,omitempty"`
	Skipped   string   `json:"skipped,omitempty"`
}

func runC03(t veriflib.TB, c c03Case) (res c03Result) {
	dir := scratch(t)
	if os.Getenv("VERIF_KEEPDIR") == "" {
		defer os.RemoveAll(dir)
	}
	o, err := NewOrigin("127.0.0.2", c.Assets)
	if err != nil {
		t.Fatalf("harness: origin: %v", err)
	}
	o.Links = c.Links
	o.AfterStall = c.After
	o.Delay = time.Duration(c.DelayMs) * time.Millisecond
	if c.Broken {
		if c.Assets > 0 {
			o.FailFirst["/p0/a0.png"] = 1 << 20
		} else {
			o.FailFirst["/p0"] = 1 << 20
		}
	}
	defer o.Close()
	var px *Socks5
	proxyURL := ""
	if c.Proxy {
		if px, err = NewSocks5(); err != nil {
			t.Fatalf("harness: proxy: %v", err)
		}
		defer px.Close()
		proxyURL = px.URL()
	}
	var env []string
	switch c.Moment {
	case "arrival", "midbody", "complete":
		o.StallK, o.StallPhase = c.K, c.Moment
	case "hook":
		rule := fmt.Sprintf("VERIFHOOK=%s@%d=term", c.Point, c.K)
		if c.HoldMs > 0 {
			rule += fmt.Sprintf(";%s@%d=sleep:%d", c.Point, c.K, c.HoldMs)
		}
		env = append(env, rule)
	case "paused":
		env = append(env, fmt.Sprintf("VERIF_CHILD_PAUSE=%s@%d", c.Point, c.K))
	}
	ch, err := startChild(dir, c03Args(c, o, proxyURL), env...)
	if err != nil {
		t.Fatalf("harness: start child: %v", err)
	}
	defer func() {
		if !ch.exited() {
			ch.cmd.Process.Kill()
			<-ch.done
		}
	}()
	total := c.Seeds * (1 + c.Assets)
	progress := func() string {
		// the queue poller hits lq.get.committed four times a second even when idle: that is not progress
		n := 0
		for _, l := range ch.hookLines() {
			if !strings.Contains(l, " lq.get.committed ") {
				n++
			}
		}
		return fmt.Sprintf("%d/%d", len(o.Log()), n)
	}
	var tStop time.Time
	sendTerm := func() { tStop = time.Now(); ch.cmd.Process.Signal(syscall.SIGTERM) }
	switch c.Moment {
	case "arrival", "midbody", "complete":
		select {
		case <-o.Event:
			res.InFlight = true
			sendTerm()
			time.Sleep(200 * time.Millisecond)
			close(o.Release)
		case <-ch.done:
		case <-time.After(60 * time.Second):
			res.Skipped = "the stall point was never reached"
			sendTerm()
		}
	case "startup":
		// the first four stages are up, the local queue (opened next, about two seconds) and the finisher are not:
		// startPipeline() is still running, the signal handler is registered but nobody is waiting on it yet
		if waitFor(60*time.Second, func() bool {
			return ch.exited() || strings.Contains(ch.output(), "msg=started component=postprocessor")
		}) && !ch.exited() {
			res.InFlight = true
		}
		sendTerm()
	case "idle":
		waitFor(60*time.Second, func() bool { return len(o.Log()) >= total || ch.exited() })
		for last, since := -1, time.Now(); time.Since(since) < 1500*time.Millisecond && !ch.exited(); time.Sleep(100 * time.Millisecond) {
			if n := len(o.Log()); n != last {
				last, since = n, time.Now()
			}
		}
		if c.IdleSec > 0 {
			// a crawl that finished long ago and is waiting for new URLs: a stop returns in bounded time however long the wait was
			waitFor(time.Duration(c.IdleSec)*time.Second, func() bool { return ch.exited() })
		}
		sendTerm()
	case "hook":
		// the child sends SIGTERM to itself at the hook point; if the point is never reached, stop it when idle
		reached := waitFor(20*time.Second, func() bool {
			if ch.exited() {
				return true
			}
			for _, l := range ch.hookLines() {
				f := strings.Fields(l)
				if len(f) >= 3 && f[1] == c.Point && f[2] == fmt.Sprint(c.K) {
					return true
				}
			}
			return false
		})
		tStop = time.Now()
		if !reached {
			res.Skipped = "hook point not reached; stopped when idle instead"
			sendTerm()
		} else {
			res.InFlight = true
		}
	case "paused":
		reached := waitFor(20*time.Second, func() bool {
			if ch.exited() {
				return true
			}
			for _, l := range ch.hookLines() {
				f := strings.Fields(l)
				if len(f) >= 3 && f[1] == c.Point && f[2] == fmt.Sprint(c.K) {
					return true
				}
			}
			return false
		})
		if !reached {
			res.Skipped = "pause point not reached; stopped when idle instead"
		} else {
			res.InFlight = true
			time.Sleep(400 * time.Millisecond) // let the workers acknowledge the pause
		}
		sendTerm()
	}
	ok := ch.waitExit(90*time.Second, progress)
	res.Requests = len(o.Log())
	res.HookLines = len(ch.hookLines())
	if !ok {
		dump := ch.dumpAndKill()
		res.Output = tail(dump, 30000)
		res.Viol = fmt.Sprintf("the stop request (%s) did not terminate the crawler: no exit and no progress for 45 s, 90 s after SIGTERM", c.Moment)
		return res
	}
	res.StopMs = time.Since(tStop).Milliseconds()
	res.ExitCode = ch.exitCode()
	out := ch.output()
	if strings.Contains(out, "panic:") || strings.Contains(out, "fatal error:") {
		res.Output = tail(out, 30000)
		res.Viol = "the crawler crashed during the stop: " + firstLine(out, "panic:", "fatal error:")
		return res
	}
	if res.ExitCode != 0 {
		res.Output = tail(out, 20000)
		res.Viol = fmt.Sprintf("the crawler exited with status %d after a graceful stop", res.ExitCode)
		return res
	}
	scans, open := ScanWarcDir(filepath.Join(dir, "jobs", "j1", "warcs"))
	for _, s := range scans {
		res.Files = append(res.Files, s.File)
		res.Records += len(s.Records)
		if s.Corrupt != "" {
			res.Viol = fmt.Sprintf("after the stop WARC file %s is not made of complete records: %s", s.File, s.Corrupt)
			return res
		}
		if s.TruncatedTail {
			res.Viol = fmt.Sprintf("after the stop WARC file %s ends in an incomplete record", s.File)
			return res
		}
	}
	if len(open) > 0 {
		res.Output = tail(out, 20000)
		res.Viol = fmt.Sprintf("after the stop %v still carries the .open suffix: the WARC output was not finalised", open)
		return res
	}
	if len(scans) == 0 {
		res.Viol = "after the stop the job has no WARC file at all"
	}
	if os.Getenv("VERIF_C03_DEBUG") != "" {
		res.Output = tail(out, 6000)
	}
	return res
}

func tail(s string, n int) string {
	if len(s) > n {
		return s[len(s)-n:]
	}
	return s
}

func firstLine(s string, keys ...string) string {
	for _, l := range strings.Split(s, "\n") {
		for _, k := range keys {
			if strings.Contains(l, k) {
				return strings.TrimSpace(l)
			}
		}
	}
	return ""
}

func propC03(t veriflib.TB, c c03Case) {
	res := runC03(t, c)
	if res.Viol != "" {
		veriflib.Fail(t, "C03", "C03/proc", c, res, "%s", res.Viol)
	}
	cl := []string{"moment:" + c.Moment, fmt.Sprintf("workers:%d", c.Workers), fmt.Sprintf("pool:%d", c.Pool), fmt.Sprintf("proxy:%v", c.Proxy),
		fmt.Sprintf("async:%v", c.Async), fmt.Sprintf("ratelimit:%v", c.RateLimit), fmt.Sprintf("seencheck:%v", c.Seencheck), fmt.Sprintf("maxretry:%d", c.MaxRetry), fmt.Sprintf("links:%d", c.Links), "after:" + c.After, fmt.Sprintf("hold:%v", c.HoldMs > 0), fmt.Sprintf("slow-site:%v", c.DelayMs > 0), fmt.Sprintf("exhausted-retries:%v", c.Broken)}
	if c.Point != "" {
		cl = append(cl, "point:"+c.Point)
	}
	if res.Skipped != "" {
		cl = append(cl, "moment-not-reached")
	}
	veriflib.Record("C03/proc", veriflib.JSON(c), res.InFlight, cl, func() any { return map[string]any{"case": c, "result": res} })
}

func TestVerif_C03_Proc(t *testing.T) {
	defer veriflib.Flush()
	var rc c03Case
	if veriflib.ReplayCase("C03/proc", &rc) {
		propC03(t, rc)
		return
	} else if veriflib.Replaying() {
		t.Skip()
	}
	// one directed case per shard (stop during a fetch that then fails / while paused mid-seed with outlinks pending)
	{
		i := veriflib.ShardIndex()
		d := c03Case{Workers: []int{1, 3}[i%2], Pool: 1 + i%2, Seencheck: true, MaxRetry: i % 2, Seeds: 2 + i%3, Assets: 1 + i%2, Async: i%5 == 4, RateLimit: i%3 == 0, Proxy: i%6 == 5}
		sel := i % 6
		if veriflib.N("C03_LONG_IDLE", 0, 1) > 0 && i == 7 {
			// thorough tier only (it costs five minutes of one shard): a stop after a long idle period
			d.Moment, d.Seeds, d.IdleSec = "idle", 2, 300
			sel = -1
		}
		switch sel {
		case -1:
		case 5:
			// stop while the local queue's producer is about to write a batch of outlinks and seeds are still in flight
			// (slow site): the writer sees its context cancelled in the middle of its transaction
			// (slow enough that seeds are still in flight when the writer's first batch is due, 5 s after the first outlink, and
			// for the 3 s the writer is then held: the crawl would take half a minute)
			d.Workers, d.Seeds, d.Assets, d.Links, d.DelayMs = 1, 12, 2, 3, 800
			d.Moment, d.Point, d.K, d.HoldMs = "hook", "lq.producer.beforeAdd", 1, 3000
		case 4:
			// stop while an outlink page is being fetched: more outlinks wait in the local queue than there are tokens
			d.Seeds, d.Links, d.Moment, d.K = 1, 12, "arrival", 1+d.Assets+2+i%3
		case 0:
			d.Moment, d.K, d.After = "midbody", 1+i%3, "drop"
		case 1:
			d.Moment, d.K, d.After = "arrival", 1+i%3, "429"
		case 2:
			d.Moment, d.K, d.Point, d.Links = "paused", 1, "postprocessor.outlinks", 12
		default:
			if (i/6)%2 == 1 {
				// the stop request arrives while the crawler is still starting up (first poll of the local queue): the
				// handler is registered, nobody is waiting for the signal yet
				d.Moment = "startup"
			} else if (i/6)%4 == 0 {
				// a URL that has used up its retries on 503 answers (with a body) before the stop arrives
				d.Moment, d.Broken = "idle", true
			} else {
				d.Moment, d.K, d.After = "arrival", 2, "drop"
			}
		}
		propC03(t, d)
	}
	rapid.Check(t, func(rt *rapid.T) {
		c := genC03(rt)
		propC03(rt, c)
	})
}

// ---------------------------------------------------------------------------------------------
// C04

type c04Case struct {
	Rows    int    `json:"rows"` // URLs pre-seeded in lq.db
	Workers int    `json:"workers"`
	Assets  int    `json:"assets"`
	Fault   string `json:"fault"` // kill-hook | term-hook | kill-arrival | kill-complete | term-arrival
	Point   string `json:"point,omitempty"`
	N       int    `json:"n"`
	Second  bool   `json:"second_fault"`      // a second SIGKILL during the restarted run
	BadRow  int    `json:"bad_row,omitempty"` // > 0: a row whose URL cannot be parsed (bad percent escape, as the text/* link extractor can queue) sits at this position of the queue
	HoldOn  string `json:"hold_on,omitempty"` // cdx faults: hold the WARC write of the first URL containing this text (instead of the N-th write)
	// HTTPTimeout: "" = not given (the default, -1: none); otherwise the value of --http-timeout. 0 also means "no
	// timeout" (every consumer of the setting treats values <= 0 alike); 60 is far above anything a case needs.
	HTTPTimeout string `json:"http_timeout,omitempty"`
	// Big: the first page fetched (/boot) is about 3 MB of HTML (spooled to a file in the job's temp directory while it is processed)
	Big bool `json:"big_first_page,omitempty"`
	// Seencheck: run with the local seen-store on (the default of the command line) instead of --disable-seencheck
	Seencheck bool `json:"seencheck,omitempty"`
}

var c04Points = []string{"lq.get.committed", "lq.consumer.beforeInsert", "archiver.beforeDo", "archiver.afterFeedback", "postprocessor.forward",
	"finisher.beforeMarkFinished", "finisher.afterMarkFinished", "finisher.afterNotify", "lq.finisher.beforeDelete", "lq.finisher.afterDelete"}

func genC04(t *rapid.T) c04Case {
	c := c04Case{
		Rows:    rapid.IntRange(5, 30).Draw(t, "rows"),
		Workers: rapid.IntRange(1, 4).Draw(t, "workers"),
		Assets:  rapid.IntRange(0, 2).Draw(t, "assets"),
		Fault:   []string{"kill-hook", "kill-hook", "kill-hook", "term-hook", "kill-arrival", "kill-complete", "term-arrival", "term-cdx-kill", "term-cdx-kill", "cdx-kill", "cdx-kill"}[rapid.IntRange(0, 10).Draw(t, "fault")],
		Second:  rapid.IntRange(0, 4).Draw(t, "second") == 0,
	}
	c.Point = c04Points[rapid.IntRange(0, len(c04Points)-1).Draw(t, "point")]
	c.N = rapid.IntRange(1, 12).Draw(t, "n")
	if rapid.IntRange(0, 3).Draw(t, "badrow") == 0 {
		c.BadRow = rapid.IntRange(1, min(c.Rows-1, 4)).Draw(t, "badrowat")
	}
	c.HTTPTimeout = []string{"", "", "0", "60"}[rapid.IntRange(0, 3).Draw(t, "httptimeout")]
	c.Seencheck = rapid.Bool().Draw(t, "seencheck")
	if c.Fault == "cdx-kill" {
		c.Assets = 2 // two assets are captured concurrently (--max-concurrent-assets 2); the WARC write of one of them is held back
		if rapid.Bool().Draw(t, "holdon") {
			c.HoldOn = fmt.Sprintf("/p%d/a%d.png", rapid.IntRange(0, 2).Draw(t, "holdpage"), rapid.IntRange(0, 1).Draw(t, "holdasset"))
		}
	}
	return c
}

type lqRow struct {
	ID, Value, Status string
}

func lqRows(dbPath string) ([]lqRow, error) {
	var lastErr error
	for attempt := 0; attempt < 40; attempt++ {
		db, err := sql.Open("sqlite3", "file:"+dbPath+"?_pragma=busy_timeout(2000)")
		if err != nil {
			return nil, err
		}
		rows, err := db.Query("SELECT id, value, status FROM urls")
		if err != nil {
			db.Close()
			lastErr = err
			time.Sleep(50 * time.Millisecond)
			continue
		}
		var out []lqRow
		for rows.Next() {
			var r lqRow
			rows.Scan(&r.ID, &r.Value, &r.Status)
			out = append(out, r)
		}
		err = rows.Err()
		rows.Close()
		db.Close()
		if err != nil {
			lastErr = err
			time.Sleep(50 * time.Millisecond)
			continue
		}
		return out, nil
	}
	return nil, lastErr
}

func c04Args(c c04Case, o *Origin) []string {
	args := c04BaseArgs(c, o)
	if c.Seencheck {
		args = slices.DeleteFunc(args, func(a string) bool { return a == "--disable-seencheck" })
	}
	if c.HTTPTimeout != "" {
		args = append(args, "--http-timeout", c.HTTPTimeout)
	}
	return args
}

func c04BaseArgs(c c04Case, o *Origin) []string {
	if c.Fault == "term-cdx-kill" || c.Fault == "cdx-kill" {
		// the origin also plays a (slow) CDX dedupe server: every WARC write first asks it about the payload
		return []string{"get", "url", o.URL("/boot"), "--job", "j1", "--workers", "1", "--max-concurrent-assets", "2", "--max-retry", "0",
			"--min-space-required", "0.001", "--log-level", "debug", "--no-log-file", "--disable-rate-limit", "--disable-seencheck",
			"--warc-cdx-dedupe-server", "http://" + o.Addr(), "--warc-dedupe-size", "64"}
	}
	return []string{"get", "url", o.URL("/boot"), "--job", "j1", "--workers", fmt.Sprint(c.Workers), "--max-concurrent-assets", "2",
		"--max-retry", "0", "--min-space-required", "0.001", "--log-level", "debug", "--no-log-file", "--disable-rate-limit", "--disable-seencheck"}
}

// c04KFSeen: with the local seen-store on (the default), a URL is recorded as seen when it is preprocessed - before it is
// captured. After a kill or a stop the restarted job finds every URL that had been handed out "already seen", skips it and
// reports it finished: it is never crawled again.
const c04KFSeen = "C04-seen-before-captured"

type c04Result struct {
	Viol       string   `json:"violation,omitempty"`
	Run1Reqs   int      `json:"run1_requests"`
	AfterFault []string `json:"rows_after_fault"`
	Finished   int      `json:"finished_before_fault"`
	Claimed    int      `json:"claimed_at_fault"`
	Run2Reqs   int      `json:"run2_requests"`
	Output     string   `json:"child_output_tail,omitempty"`
	Skipped    string   `json:"skipped,omitempty"`
}

func runC04(t veriflib.TB, c c04Case) (res c04Result) {
	dir := scratch(t)
	if os.Getenv("VERIF_KEEPDIR") == "" {
		defer os.RemoveAll(dir)
	}
	o, err := NewOrigin("127.0.0.2", c.Assets)
	if err != nil {
		t.Fatalf("harness: origin: %v", err)
	}
	defer o.Close()
	if c.Big {
		o.BigPath = "/boot"
	}
	jobDir := filepath.Join(dir, "jobs", "j1")
	os.MkdirAll(jobDir, 0o755)
	dbPath := filepath.Join(jobDir, "lq.db")
	// pre-seed the queue with the schema the crawler itself uses
	schema, err := os.ReadFile(filepath.Join(os.Getenv("VERIF_REPO"), "internal/pkg/source/lq/schema.sql"))
	if err != nil {
		t.Fatalf("harness: schema: %v", err)
	}
	db, err := sql.Open("sqlite3", "file:"+dbPath)
	if err != nil {
		t.Fatalf("harness: sqlite: %v", err)
	}
	if _, err := db.Exec(string(schema)); err != nil {
		t.Fatalf("harness: schema exec: %v", err)
	}
	queue := map[string]string{} // id -> path
	for i := 0; i < c.Rows; i++ {
		if c.BadRow > 0 && i == c.BadRow {
			// the crawler can only drop such a row (it is exempt from "finished implies captured"); the rows after it are not
			if _, err := db.Exec("INSERT INTO urls (id, value, via, hops) VALUES (?, ?, '', 0)", "q-bad", o.URL("/sale/100%_off")); err != nil {
				t.Fatalf("harness: insert: %v", err)
			}
		}
		id := fmt.Sprintf("q-%03d", i)
		queue[id] = fmt.Sprintf("/p%d", i)
		if _, err := db.Exec("INSERT INTO urls (id, value, via, hops) VALUES (?, ?, '', 0)", id, o.URL(queue[id])); err != nil {
			t.Fatalf("harness: insert: %v", err)
		}
	}
	db.Close()

	// ---- run 1 with the fault
	var env []string
	switch c.Fault {
	case "kill-hook":
		env = []string{fmt.Sprintf("VERIFHOOK=%s@%d=kill", c.Point, c.N)}
	case "term-hook":
		env = []string{fmt.Sprintf("VERIFHOOK=%s@%d=term", c.Point, c.N)}
	case "kill-arrival", "term-arrival":
		o.StallK, o.StallPhase = c.N+1, "arrival" // +1: request #1 is usually the boot seed
	case "kill-complete":
		o.StallK, o.StallPhase = c.N+1, "complete"
	case "term-cdx-kill", "cdx-kill":
		o.CDXStallK = c.N%8 + 2
		o.CDXStallOn = c.HoldOn
	}
	ch, err := startChild(dir, c04Args(c, o), env...)
	if err != nil {
		t.Fatalf("harness: start child: %v", err)
	}
	progress := func() string {
		// the queue poller hits lq.get.committed four times a second even when idle: that is not progress
		n := 0
		for _, l := range ch.hookLines() {
			if !strings.Contains(l, " lq.get.committed ") {
				n++
			}
		}
		return fmt.Sprintf("%d/%d", len(o.Log()), n)
	}
	total := 1 + c.Rows*(1+c.Assets)
	switch c.Fault {
	case "kill-hook", "term-hook":
		if !ch.waitExit(40*time.Second, progress) {
			// the hook point was never reached (n too large for this queue): fall back to a kill when idle
			res.Skipped = "fault point not reached: killed when idle"
			ch.cmd.Process.Kill()
			<-ch.done
		}
	case "term-cdx-kill":
		// a graceful stop lands while a fetched URL waits for its WARC write (held back by the CDX lookup); the process
		// is then killed before the write can land (a second Ctrl-C, or an impatient supervisor)
		select {
		case held := <-o.CDXEvent:
			before, _ := lqRows(dbPath)
			ch.cmd.Process.Signal(syscall.SIGTERM)
			waitFor(6*time.Second, func() bool {
				now, err := lqRows(dbPath)
				return err == nil && len(now) < len(before)
			})
			ch.cmd.Process.Kill()
			<-ch.done
			close(o.CDXRelease)
			_ = held
		case <-ch.done:
		case <-time.After(40 * time.Second):
			res.Skipped = "fault moment not reached: killed when idle"
			ch.cmd.Process.Kill()
			<-ch.done
		}
	case "cdx-kill":
		// no stop at all: the WARC write of one URL is held back by its CDX lookup while the other captures of the same seed
		// go through; if the seed's row disappears in the meantime, the process is killed at once (power cut) - otherwise
		// after six seconds. Whatever is then reported finished must be in the WARC files.
		select {
		case <-o.CDXEvent:
			before, _ := lqRows(dbPath)
			waitFor(6*time.Second, func() bool {
				now, err := lqRows(dbPath)
				return err == nil && len(now) < len(before)
			})
			ch.cmd.Process.Kill()
			<-ch.done
			close(o.CDXRelease)
		case <-ch.done:
		case <-time.After(40 * time.Second):
			res.Skipped = "fault moment not reached: killed when idle"
			ch.cmd.Process.Kill()
			<-ch.done
		}
	case "kill-arrival", "kill-complete", "term-arrival":
		select {
		case <-o.Event:
			if c.Fault == "term-arrival" {
				ch.cmd.Process.Signal(syscall.SIGTERM)
				time.Sleep(100 * time.Millisecond)
				close(o.Release)
				if !ch.waitExit(90*time.Second, progress) {
					res.Output = tail(ch.dumpAndKill(), 20000)
					res.Viol = "graceful stop during run 1 did not terminate"
					return res
				}
			} else {
				ch.cmd.Process.Kill()
				<-ch.done
				close(o.Release)
			}
		case <-ch.done:
		case <-time.After(40 * time.Second):
			res.Skipped = "fault moment not reached: killed when idle"
			ch.cmd.Process.Kill()
			<-ch.done
		}
	}
	if out := ch.output(); c.Fault != "kill-hook" && (strings.Contains(out, "panic:") || strings.Contains(out, "fatal error:")) {
		res.Output = tail(out, 20000)
		res.Viol = "the crawler crashed in run 1: " + firstLine(out, "panic:", "fatal error:")
		return res
	}
	res.Run1Reqs = len(o.Log())
	// ---- state left behind
	rows, err := lqRows(dbPath)
	if err != nil {
		res.Viol = "lq.db cannot be read after the fault: " + err.Error()
		return res
	}
	left := map[string]string{}
	for _, r := range rows {
		left[r.ID] = r.Status
		res.AfterFault = append(res.AfterFault, r.ID+":"+r.Status)
		if r.Status == "CLAIMED" {
			res.Claimed++
		}
	}
	sort.Strings(res.AfterFault)
	scans, _ := ScanWarcDir(filepath.Join(jobDir, "warcs"))
	captured := map[string]bool{}
	for _, s := range scans {
		if s.Corrupt != "" {
			res.Viol = fmt.Sprintf("after the fault WARC file %s has a corrupt record before its end: %s", s.File, s.Corrupt)
			return res
		}
		for _, r := range s.Records {
			if r.Type == "response" || r.Type == "revisit" {
				captured[r.TargetURI] = true
			}
		}
	}
	var finished []string
	for id, p := range queue {
		if _, still := left[id]; !still {
			finished = append(finished, id)
			if !captured[o.URL(p)] {
				res.Viol = fmt.Sprintf("%s (%s) was reported finished (its row is gone from lq.db) but the WARC files left on disk hold no response record for it", id, o.URL(p))
				return res
			}
			for j := 0; j < c.Assets; j++ {
				if a := o.URL(fmt.Sprintf("%s/a%d.png", p, j)); !captured[a] {
					res.Viol = fmt.Sprintf("%s was reported finished but its asset %s is not in the WARC files left on disk", id, a)
					return res
				}
			}
		}
	}
	res.Finished = len(finished)

	// ---- run 2 (and possibly a second kill, then run 3)
	runs := 2
	for {
		o.SetRun(runs)
		o.StallK = 0
		var env2 []string
		if c.Second && runs == 2 {
			env2 = []string{fmt.Sprintf("VERIFHOOK=%s@%d=kill", "archiver.afterFeedback", 2)}
		}
		ch2, err := startChild(dir, c04Args(c, o), env2...)
		if err != nil {
			t.Fatalf("harness: start child: %v", err)
		}
		// the idle clock only starts once the child is up (opening the queue takes seconds on a busy machine)
		waitFor(180*time.Second, func() bool {
			return ch2.exited() || strings.Contains(ch2.output(), "msg=started component=finisher")
		})
		// drained = queue empty, or no progress for 9 s (finisher batches are flushed every 5 s)
		lastProgress, lastChange := "", time.Now()
		drained := false
		for !ch2.exited() {
			time.Sleep(250 * time.Millisecond)
			rows, err := lqRows(dbPath)
			p := fmt.Sprintf("%d/%d/%v", len(o.Log()), len(rows), err)
			if p != lastProgress {
				lastProgress, lastChange = p, time.Now()
			}
			if err == nil && len(rows) == 0 && time.Since(lastChange) > 500*time.Millisecond {
				drained = true
				break
			}
			if time.Since(lastChange) > 9*time.Second {
				break
			}
		}
		if ch2.exited() {
			out := ch2.output()
			if c.Second && runs == 2 {
				runs++
				continue
			}
			res.Output = tail(out, 20000)
			res.Viol = fmt.Sprintf("the restarted crawler (run %d) exited on its own: %s", runs, firstLine(out, "panic:", "fatal error:", "error"))
			return res
		}
		_ = drained
		ch2.cmd.Process.Signal(syscall.SIGTERM)
		if !ch2.waitExit(90*time.Second, func() string { return fmt.Sprint(len(o.Log())) }) {
			res.Output = tail(ch2.dumpAndKill(), 20000)
			res.Viol = fmt.Sprintf("graceful stop of run %d did not terminate", runs)
			return res
		}
		if out := ch2.output(); strings.Contains(out, "panic:") || strings.Contains(out, "fatal error:") {
			res.Output = tail(out, 20000)
			res.Viol = fmt.Sprintf("the crawler crashed in run %d: %s", runs, firstLine(out, "panic:", "fatal error:"))
			return res
		}
		break
	}
	log := o.Log()
	res.Run2Reqs = len(log) - res.Run1Reqs
	later := map[string]bool{}
	for _, r := range log {
		if r.Run >= 2 {
			later[r.Path] = true
		}
	}
	run1 := map[string]bool{}
	for _, r := range log {
		if r.Run < 2 {
			run1[r.Path] = true
		}
	}
	// seeds that reached the preprocessor in run 1 (event log of the first child: "<time> <point> <n> <seed id>")
	handled := map[string]bool{}
	for _, l := range ch.hookLines() {
		if f := strings.Fields(l); len(f) >= 4 && strings.HasPrefix(f[1], "preprocessor.") {
			handled[f[3]] = true
		}
	}
	for id, p := range queue {
		if _, unfinished := left[id]; unfinished && !later[p] {
			note := ""
			if c.Seencheck && (run1[p] || left[id] == "CLAIMED" || handled[id]) {
				// the seed had been handed out in run 1: with the local seen-store on it was recorded as seen when it was
				// preprocessed, before anything of it was captured
				if veriflib.FindingOpen(c04KFSeen) {
					veriflib.Excluded("C04/proc", "URL handed out before the fault with the local seen-store on (open finding "+c04KFSeen+")")
					continue
				}
				note = " - the local seen-store is on: the URL was recorded as seen in run 1 before it was captured, run 2 skips it as already seen"
			}
			res.Viol = fmt.Sprintf("%s (%s) was in the queue with status %s when run 1 ended and had not been reported finished, but it was never crawled again after the restart%s", id, p, left[id], note)
			return res
		}
	}
	rows, err = lqRows(dbPath)
	if err != nil {
		res.Viol = "lq.db cannot be read at the end: " + err.Error()
		return res
	}
	for _, r := range rows {
		if r.Status == "CLAIMED" {
			res.Viol = fmt.Sprintf("row %s (%s) is still CLAIMED (handed out) after the restarted crawl drained and stopped", r.ID, r.Value)
			return res
		}
	}
	_ = total
	return res
}

func propC04(t veriflib.TB, c c04Case) {
	res := runC04(t, c)
	if res.Viol != "" {
		veriflib.Fail(t, "C04", "C04/proc", c, res, "%s", res.Viol)
	}
	cl := []string{"fault:" + c.Fault, fmt.Sprintf("workers:%d", c.Workers), fmt.Sprintf("unparseable-row:%v", c.BadRow > 0)}
	if strings.HasSuffix(c.Fault, "-hook") {
		cl = append(cl, "point:"+c.Point)
	}
	if res.Skipped != "" {
		cl = append(cl, "fault-not-reached")
	}
	if res.Claimed > 0 {
		cl = append(cl, "claimed-rows-at-fault")
	}
	if res.Finished > 0 {
		cl = append(cl, "finished-before-fault")
	}
	if c.Second {
		cl = append(cl, "second-fault")
	}
	veriflib.Record("C04/proc", veriflib.JSON(c), res.Claimed > 0, cl, func() any { return map[string]any{"case": c, "result": res} })
}

func TestVerif_C04_Proc(t *testing.T) {
	defer veriflib.Flush()
	var rc c04Case
	if veriflib.ReplayCase("C04/proc", &rc) {
		propC04(t, rc)
		return
	} else if veriflib.Replaying() {
		t.Skip()
	}
	// one directed case per shard: the multi-step fault kinds are too rare to rely on random draws in the quick tier
	if i := veriflib.ShardIndex(); i == 3 {
		// killed while the 3 MB body of the first page sits in a spool file in the job's temp directory: the restarted job
		// finds that directory non-empty
		propC04(t, c04Case{Rows: 6, Workers: 1, Assets: 1, Fault: "kill-hook", Point: "archiver.afterFeedback", N: 1, Big: true})
	} else if i == 1 {
		// a wide crawl killed right after its second batch of rows was claimed: far more than a hundred rows are CLAIMED
		// when the job is started again
		propC04(t, c04Case{Rows: 260, Workers: 120, Assets: 0, Fault: "kill-hook", Point: "lq.get.committed", N: 2})
	} else if i%4 == 2 {
		// hold the write of the first / of the second asset of a page: whichever capture of the pair is started first
		// (every other one of these with --http-timeout 0, which means "no timeout" like the default -1)
		propC04(t, c04Case{Rows: 6 + i, Workers: 1, Assets: 2, Fault: "cdx-kill", N: i / 2, HoldOn: fmt.Sprintf("/p%d/a%d.png", i%3, (i/4)%2), HTTPTimeout: []string{"0", ""}[(i/4)%2]})
	} else if i%2 == 0 {
		propC04(t, c04Case{Rows: 6 + i, Workers: 1, Assets: 1 + i%2, Fault: "term-cdx-kill", N: i / 2})
	} else {
		propC04(t, c04Case{Rows: 10 + i, Workers: 1 + i%3, Assets: i % 2, Fault: "term-arrival", N: 2 + i, BadRow: (i % 4) * (i % 3)})
	}
	rapid.Check(t, func(rt *rapid.T) {
		c := genC04(rt)
		propC04(rt, c)
	})
}

// Strict reproduction of the open finding C04-seen-before-captured: default seen-store, a kill while the second request
// is being served.
func TestVerifKF_C04_SeenBeforeCaptured(t *testing.T) {
	defer veriflib.Flush()
	if veriflib.Replaying() {
		t.Skip()
	}
	propC04(t, c04Case{Rows: 6, Workers: 1, Assets: 1, Fault: "kill-arrival", N: 2, Seencheck: true})
}
