// Package verifproc is the process-lifecycle harness (overlay-only): the parent test runs origin servers and spawns
// the REAL Zeno command line (the test binary re-executed in child mode calls cmd.Run()) in a private job directory,
// stops or kills it at generated moments, restarts it, and inspects what is left on disk.
package verifproc

import (
	"bufio"
	"bytes"
	"compress/gzip"
	"fmt"
	"io"
	"os"
	"path/filepath"
	"strconv"
	"strings"
)

// WarcRecord is what the scanner keeps of one record.
type WarcRecord struct {
	File      string
	Type      string
	TargetURI string
	BlockLen  int
}

// WarcScan is the result of scanning one file.
type WarcScan struct {
	File          string
	Records       []WarcRecord
	TruncatedTail bool   // the last member is incomplete (allowed after a kill)
	Corrupt       string // a member before the last one is unreadable / malformed (never allowed)
}

type countingReader struct {
	r *bufio.Reader
	n int64
}

func (c *countingReader) Read(p []byte) (int, error) {
	n, err := c.r.Read(p)
	c.n += int64(n)
	return n, err
}
func (c *countingReader) ReadByte() (byte, error) {
	b, err := c.r.ReadByte()
	if err == nil {
		c.n++
	}
	return b, err
}

// ScanWarcFile reads a .warc.gz(.open) file member by member with an independent reader (no use of the warc library).
func ScanWarcFile(path string) WarcScan {
	res := WarcScan{File: filepath.Base(path)}
	data, err := os.ReadFile(path)
	if err != nil {
		res.Corrupt = err.Error()
		return res
	}
	cr := &countingReader{r: bufio.NewReader(bytes.NewReader(data))}
	for {
		if _, err := cr.r.Peek(1); err == io.EOF {
			return res
		}
		start := cr.n
		zr, err := gzip.NewReader(cr)
		if err != nil {
			if int64(len(data))-start < 64 || err == io.ErrUnexpectedEOF || err == io.EOF {
				res.TruncatedTail = true
				return res
			}
			res.Corrupt = fmt.Sprintf("offset %d: not a gzip member: %v", start, err)
			return res
		}
		zr.Multistream(false)
		plain, err := io.ReadAll(zr)
		if err != nil {
			// a damaged member is tolerated only when nothing complete follows it (torn tail of a killed writer)
			rest := data[cr.n:]
			if len(bytes.TrimSpace(rest)) == 0 || err == io.ErrUnexpectedEOF {
				res.TruncatedTail = true
				return res
			}
			res.Corrupt = fmt.Sprintf("offset %d: member does not decompress: %v", start, err)
			return res
		}
		if len(plain) == 0 {
			// an empty gzip member (the writer closes an idle gzip stream this way) holds no record, complete or not
			continue
		}
		rec, perr := parseWarcRecord(plain)
		if perr != "" {
			res.Corrupt = fmt.Sprintf("offset %d: %s", start, perr)
			return res
		}
		rec.File = res.File
		res.Records = append(res.Records, rec)
	}
}

func parseWarcRecord(b []byte) (WarcRecord, string) {
	var rec WarcRecord
	i := bytes.Index(b, []byte("\r\n\r\n"))
	if i < 0 || !bytes.HasPrefix(b, []byte("WARC/1.")) {
		return rec, "record does not start with a WARC/1.x header block"
	}
	clen := -1
	for _, line := range strings.Split(string(b[:i]), "\r\n")[1:] {
		k, v, ok := strings.Cut(line, ":")
		if !ok {
			continue
		}
		v = strings.TrimSpace(v)
		switch strings.ToLower(k) {
		case "warc-type":
			rec.Type = v
		case "warc-target-uri":
			rec.TargetURI = strings.Trim(v, "<>")
		case "content-length":
			clen, _ = strconv.Atoi(v)
		}
	}
	block := b[i+4:]
	if clen < 0 {
		return rec, "record without Content-Length"
	}
	// block is followed by CRLF CRLF
	if len(block) != clen+4 || !bytes.HasSuffix(block, []byte("\r\n\r\n")) {
		return rec, fmt.Sprintf("record %s %s: block is %d bytes, Content-Length says %d (+4)", rec.Type, rec.TargetURI, len(block), clen)
	}
	rec.BlockLen = clen
	return rec, ""
}

// ScanWarcDir scans every WARC file of a job (final and .open names).
func ScanWarcDir(dir string) (scans []WarcScan, open []string) {
	ents, _ := os.ReadDir(dir)
	for _, e := range ents {
		name := e.Name()
		if strings.HasSuffix(name, ".open") {
			open = append(open, name)
		}
		if strings.Contains(name, ".warc") {
			scans = append(scans, ScanWarcFile(filepath.Join(dir, name)))
		}
	}
	return scans, open
}
