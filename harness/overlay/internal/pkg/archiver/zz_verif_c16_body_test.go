package archiver

// C16/body - whatever a response does (any size and type, a read error at any offset, a connection that refuses a read
// deadline at any call), ProcessBody gives back what it took: the response body is closed when it returns, a failed call
// leaves no spool file and no body behind, and after a successful call closing the kept body removes its spool file.

import (
	"bytes"
	"errors"
	"fmt"
	"net/http"
	"os"
	"testing"
	"time"

	"github.com/internetarchive/Zeno/internal/pkg/verifcfg"
	"github.com/internetarchive/Zeno/internal/pkg/veriflib"
	"github.com/internetarchive/Zeno/pkg/models"
	"pgregory.net/rapid"
)

type c16BodyCase struct {
	Kind          string `json:"kind"`            // html | text | json | pdf | m3u8 | png | zeros
	Size          int    `json:"size"`            // body bytes
	ReadErrAt     int    `json:"read_err_at"`     // -1: none; otherwise the read that crosses this offset fails
	DeadlineErrAt int    `json:"deadline_err_at"` // -1: never; otherwise the n-th SetReadDeadline call (0-based) fails
	NoDeadline    bool   `json:"no_deadline"`     // the body does not offer SetReadDeadline at all (plain net/http body)
	DisableAssets bool   `json:"disable_assets"`  // with MaxHops 0 and no domains crawl: consume and discard
	DomainsCrawl  bool   `json:"domains_crawl"`
	MaxHops       int    `json:"max_hops"`
}

type c16Body struct {
	r             *bytes.Reader
	off           int
	readErrAt     int
	deadlineErrAt int
	deadlines     int
	closed        int
}

func (b *c16Body) Read(p []byte) (int, error) {
	if b.readErrAt >= 0 && b.off+len(p) > b.readErrAt {
		n := 0
		if b.readErrAt > b.off {
			n, _ = b.r.Read(p[:b.readErrAt-b.off])
			b.off += n
		}
		return n, errors.New("verif: connection reset by peer")
	}
	n, err := b.r.Read(p)
	b.off += n
	return n, err
}
func (b *c16Body) Close() error { b.closed++; return nil }

type c16DeadlineBody struct{ *c16Body }

func (b c16DeadlineBody) SetReadDeadline(time.Time) error {
	i := b.deadlines
	b.c16Body.deadlines++
	if b.deadlineErrAt >= 0 && i == b.deadlineErrAt {
		return errors.New("verif: use of closed network connection")
	}
	return nil
}

func c16BodyBytes(kind string, size int) []byte {
	head := map[string]string{"html": "<!DOCTYPE html><html><body><p>", "text": "plain text ", "json": `{"a":"`, "pdf": "%PDF-1.4\n", "m3u8": "#EXTM3U\n#EXTINF:1,\n", "png": "\x89PNG\r\n\x1a\n\x00\x00\x00\rIHDR", "zeros": ""}[kind]
	b := make([]byte, 0, size)
	b = append(b, head...)
	for len(b) < size {
		if kind == "png" || kind == "zeros" {
			b = append(b, 0)
		} else {
			b = append(b, "lorem ipsum "...)
		}
	}
	return b[:size]
}

func propC16Body(t veriflib.TB, c c16BodyCase) {
	const facet = "C16/body"
	cfg := verifcfg.Quiet()
	cfg.HTTPReadDeadline = int(time.Minute)
	dir, err := os.MkdirTemp(os.Getenv("VERIF_SCRATCH"), "c16body")
	if err != nil {
		t.Fatalf("harness: %v", err)
	}
	defer os.RemoveAll(dir)
	body := &c16Body{r: bytes.NewReader(c16BodyBytes(c.Kind, c.Size)), readErrAt: c.ReadErrAt, deadlineErrAt: c.DeadlineErrAt}
	resp := &http.Response{StatusCode: 200, Header: http.Header{}}
	if c.NoDeadline {
		resp.Body = body
	} else {
		resp.Body = c16DeadlineBody{body}
	}
	u := &models.URL{Raw: "http://example.com/x"}
	if err := u.Parse(); err != nil {
		t.Fatalf("harness: %v", err)
	}
	u.SetResponse(resp)
	perr := ProcessBody(u, c.DisableAssets, c.DomainsCrawl, c.MaxHops, dir)
	fail := func(f string, a ...any) {
		veriflib.Fail(t, "C16", facet, c, map[string]any{"error": fmt.Sprint(perr), "closed": body.closed, "deadline_calls": body.deadlines, "read": body.off}, f, a...)
	}
	if body.closed == 0 {
		fail("ProcessBody returned (error: %v) without closing the response body (%d of %d bytes read, %d read-deadline calls)", perr, body.off, c.Size, body.deadlines)
	}
	spool := func() []string {
		ents, _ := os.ReadDir(dir)
		var out []string
		for _, e := range ents {
			out = append(out, e.Name())
		}
		return out
	}
	if perr != nil {
		if f := spool(); len(f) > 0 {
			fail("ProcessBody failed (%v) and left spool file(s) %v behind", perr, f)
		}
		if u.GetBody() != nil {
			fail("ProcessBody failed (%v) but keeps a body on the URL", perr)
		}
	} else if kept := u.GetBody(); kept != nil {
		if err := kept.Close(); err != nil {
			fail("closing the kept body: %v", err)
		}
		if f := spool(); len(f) > 0 {
			fail("after closing the kept body its spool file(s) %v are still there", f)
		}
	} else if f := spool(); len(f) > 0 {
		fail("ProcessBody kept no body but left spool file(s) %v behind", f)
	}
	outcome := "ok"
	if perr != nil {
		outcome = "error"
	}
	veriflib.Record(facet, veriflib.JSON(c), c.ReadErrAt >= 0 || c.DeadlineErrAt >= 0 || c.Size > 2<<20,
		[]string{"kind:" + c.Kind, "outcome:" + outcome, fmt.Sprintf("read-error:%v", c.ReadErrAt >= 0), fmt.Sprintf("deadline-error:%v", c.DeadlineErrAt >= 0), fmt.Sprintf("spooled-to-disk:%v", c.Size > 2<<20), fmt.Sprintf("no-deadline-api:%v", c.NoDeadline)},
		func() any { return map[string]any{"case": c, "error": fmt.Sprint(perr), "closed": body.closed} })
}

func TestVerif_C16_Body(t *testing.T) {
	defer veriflib.Flush()
	var rc c16BodyCase
	if veriflib.ReplayCase("C16/body", &rc) {
		propC16Body(t, rc)
		return
	} else if veriflib.Replaying() {
		t.Skip()
	}
	rapid.Check(t, func(rt *rapid.T) {
		c := c16BodyCase{Kind: []string{"html", "text", "json", "pdf", "m3u8", "png", "zeros"}[rapid.IntRange(0, 6).Draw(rt, "kind")], ReadErrAt: -1, DeadlineErrAt: -1}
		switch rapid.IntRange(0, 5).Draw(rt, "sizeclass") {
		case 0:
			c.Size = rapid.IntRange(0, 64).Draw(rt, "size")
		case 1:
			c.Size = rapid.IntRange(2040, 2056).Draw(rt, "size")
		case 2:
			c.Size = rapid.IntRange(2057, 70000).Draw(rt, "size")
		case 3:
			c.Size = 2097152 + rapid.IntRange(-2, 2).Draw(rt, "size")
		case 4:
			c.Size = rapid.IntRange(2097153, 3000000).Draw(rt, "size")
		default:
			c.Size = rapid.IntRange(65, 2039).Draw(rt, "size")
		}
		if rapid.IntRange(0, 2).Draw(rt, "readerr") == 0 {
			c.ReadErrAt = rapid.IntRange(0, c.Size).Draw(rt, "readerrat")
		}
		switch rapid.IntRange(0, 3).Draw(rt, "deadline") {
		case 0:
			c.DeadlineErrAt = []int{0, 0, 1, 2, 3, 17}[rapid.IntRange(0, 5).Draw(rt, "deadlineerrat")]
		case 1:
			c.NoDeadline = true
		}
		c.DisableAssets = rapid.IntRange(0, 3).Draw(rt, "assetsoff") == 0
		c.DomainsCrawl = rapid.IntRange(0, 3).Draw(rt, "dc") == 0
		c.MaxHops = rapid.IntRange(0, 1).Draw(rt, "maxhops")
		veriflib.Guard("C16", "C16/body", c, func() { propC16Body(rt, c) })
	})
}
