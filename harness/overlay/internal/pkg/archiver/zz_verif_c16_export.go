//go:build verif

package archiver

// VerifC16Buckets reports the size of the per-host limiter table and its bound; ok=false when rate limiting is off
// (overlay-only, not in /repo).
func VerifC16Buckets() (n, max int, ok bool) {
	if globalBucketManager == nil {
		return 0, 0, false
	}
	n, max = globalBucketManager.VerifC16Size()
	return n, max, true
}
