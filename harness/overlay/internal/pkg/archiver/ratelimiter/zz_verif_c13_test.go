package ratelimiter

// C13 — per-host politeness: bounded request rate and honoured back-off penalties.
//
// The real tokenBucket (with its real 50 ms polling Wait) and the real BucketManager run under virtual time
// (testing/synctest): time.Now / time.Sleep inside the bubble are the fake clock, so multi-second penalties cost
// nothing and every release time is exact. The oracle is a set of invariants over the release log — it does not
// re-implement the bucket's arithmetic.

import (
	"context"
	"fmt"
	"math"
	"sort"
	"strings"
	"sync"
	"testing"
	"testing/synctest"
	"time"

	"github.com/internetarchive/Zeno/internal/pkg/veriflib"
	"pgregory.net/rapid"
)

type c13Ev struct {
	Kind   string `json:"kind"`             // acquire | advance | failure | success
	DtMs   int    `json:"dt_ms,omitempty"`  // advance
	Status int    `json:"status,omitempty"` // failure
	N      int    `json:"n,omitempty"`      // acquire: number of concurrent waiters started (1..4)
	Host   int    `json:"host,omitempty"`   // manager facet: host index
}

type c13Case struct {
	Capacity int     `json:"capacity"`
	Rate     float64 `json:"rate"`
	Events   []c13Ev `json:"events"`
	Hosts    int     `json:"hosts,omitempty"` // manager facet
}

type c13Release struct {
	t   time.Duration
	seq int
}

type c13Failure struct {
	t      time.Duration
	seq    int
	minPen time.Duration
	status int
}

func c13IsPenalty(s int) bool { return s == 429 || s == 403 || s == 408 || s == 425 }

const c13Eps = 1e-6

// c13Host drives one bucket (directly or through the manager) and keeps its logs.
type c13Host struct {
	mu       sync.Mutex
	seq      int
	releases []c13Release
	failures []c13Failure
	waiting  int
	streak   int           // lower bound of the limiter's failure count: +1 per failure, -1 per success reported once the penalty is over
	penEnd   time.Duration // end of the last penalty as far as the statement's minimum goes
}

func (h *c13Host) checkLog(capacity int, rate float64, name string) string {
	rel := h.releases
	sort.Slice(rel, func(i, j int) bool { return rel[i].seq < rel[j].seq })
	// window bound: any j-i+1 releases need at least (j-i+1-capacity)/rate seconds
	for i := 0; i < len(rel); i++ {
		for j := i + 1; j < len(rel); j++ {
			n := float64(j - i + 1)
			T := (rel[j].t - rel[i].t).Seconds()
			if n > float64(capacity)+T*rate+c13Eps {
				return fmt.Sprintf("%s: %d requests released within %.3fs (between t=%.3fs and t=%.3fs): more than capacity %d + T x rate %.4g = %.3f",
					name, j-i+1, T, rel[i].t.Seconds(), rel[j].t.Seconds(), capacity, rate, float64(capacity)+T*rate)
			}
		}
	}
	// penalties
	for _, f := range h.failures {
		if f.minPen == 0 {
			continue
		}
		for _, r := range rel {
			if r.seq > f.seq && r.t < f.t+f.minPen {
				return fmt.Sprintf("%s: request released at t=%.3fs, only %.3fs after a %d answered at t=%.3fs (penalty must last at least %.0fs)",
					name, r.t.Seconds(), (r.t - f.t).Seconds(), f.status, f.t.Seconds(), f.minPen.Seconds())
			}
		}
	}
	return ""
}

func c13MinPenalty(streak int) time.Duration {
	d := 5 * time.Second
	for i := 1; i < streak; i++ {
		d *= 2
		if d >= 30*time.Second {
			return 30 * time.Second
		}
	}
	return d
}

// c13RunBucket executes a history on one tokenBucket.
func c13RunBucket(c c13Case, log *[]string) (viol string, nontrivial bool, classes []string) {
	tb := veriflib.CallAs[*tokenBucket](newTokenBucket, float64(c.Capacity), c.Rate)
	start := time.Now()
	h := &c13Host{}
	// Wait() has no cancellation: whatever the verdict, release every remaining waiter before leaving the bubble
	defer func() { c13Drain(tb); time.Sleep(time.Second); synctest.Wait() }()
	say := func(f string, a ...any) {
		*log = append(*log, fmt.Sprintf("t=%.2fs ", time.Since(start).Seconds())+fmt.Sprintf(f, a...))
	}
	minRate := math.Min(minRefillRate, c.Rate)
	inspect := func(after string) string {
		tb.mu.Lock()
		defer tb.mu.Unlock()
		if tb.tokens < -c13Eps || tb.tokens > float64(c.Capacity)+c13Eps {
			return fmt.Sprintf("after %s: token count %.6f outside [0, %d]", after, tb.tokens, c.Capacity)
		}
		if tb.refillRate > c.Rate+c13Eps {
			return fmt.Sprintf("after %s: refill rate %.6f/s exceeds the configured rate %.6f/s", after, tb.refillRate, c.Rate)
		}
		if tb.refillRate < minRate-c13Eps {
			return fmt.Sprintf("after %s: refill rate %.6f/s fell below min(0.5, configured rate)=%.6f/s", after, tb.refillRate, minRate)
		}
		return ""
	}
	hadFailure, releaseAfterFailure := false, false
	cl := map[string]bool{}
	for i, ev := range c.Events {
		switch ev.Kind {
		case "acquire":
			n := ev.N
			if n < 1 {
				n = 1
			}
			say("acquire x%d", n)
			for k := 0; k < n; k++ {
				h.mu.Lock()
				h.waiting++
				h.mu.Unlock()
				go func() {
					tb.Wait()
					h.mu.Lock()
					h.seq++
					h.releases = append(h.releases, c13Release{t: time.Since(start), seq: h.seq})
					h.waiting--
					h.mu.Unlock()
				}()
			}
			if n > 1 {
				cl["concurrent-waiters"] = true
			}
		case "advance":
			say("advance %dms", ev.DtMs)
			time.Sleep(time.Duration(ev.DtMs) * time.Millisecond)
		case "failure":
			synctest.Wait()
			tb.mu.Lock()
			rateBefore, penBefore := tb.refillRate, tb.penaltyUntil
			tb.mu.Unlock()
			now := time.Since(start)
			tb.adjustOnFailure(ev.Status)
			tb.mu.Lock()
			rateAfter, penAfter := tb.refillRate, tb.penaltyUntil
			tb.mu.Unlock()
			say("failure(%d)", ev.Status)
			h.mu.Lock()
			h.seq++
			f := c13Failure{t: now, seq: h.seq, status: ev.Status}
			if c13IsPenalty(ev.Status) {
				h.streak++
				f.minPen = c13MinPenalty(h.streak)
				h.penEnd = now + f.minPen
				cl["penalty-status"] = true
				if h.streak >= 3 {
					cl["penalty-streak>=3"] = true
				}
			} else if ev.Status >= 500 {
				h.streak++
				cl["5xx"] = true
			}
			h.failures = append(h.failures, f)
			h.mu.Unlock()
			if c13IsPenalty(ev.Status) || ev.Status >= 500 {
				hadFailure = true
			}
			if ev.Status >= 500 {
				if rateAfter > rateBefore+c13Eps {
					if veriflib.FindingOpen("C13-5xx-raises-rate-below-half") && c.Rate < minRefillRate {
						veriflib.Excluded("C13/bucket", "5xx raised the refill rate (configured rate < 0.5/s, open finding)")
						return "", false, nil
					}
					return fmt.Sprintf("event %d: a %d raised the refill rate from %.6f/s to %.6f/s (configured %.6f/s); 5xx responses may only lower it", i, ev.Status, rateBefore, rateAfter, c.Rate), false, nil
				}
				if !penAfter.Equal(penBefore) {
					return fmt.Sprintf("event %d: a %d set a penalty period", i, ev.Status), false, nil
				}
			}
			if !c13IsPenalty(ev.Status) && ev.Status < 500 {
				if rateAfter != rateBefore || !penAfter.Equal(penBefore) {
					return fmt.Sprintf("event %d: status %d changed the bucket (rate %.4f->%.4f)", i, ev.Status, rateBefore, rateAfter), false, nil
				}
			}
		case "success":
			synctest.Wait()
			tb.mu.Lock()
			rateBefore := tb.refillRate
			tb.mu.Unlock()
			tb.onSuccess()
			tb.mu.Lock()
			rateAfter := tb.refillRate
			tb.mu.Unlock()
			say("success")
			h.mu.Lock()
			// a success reported after the penalty forgets ONE past failure ("slowly forget past errors"), it does not wipe
			// the streak: the next failure still doubles from where the count stands
			if time.Since(start) >= h.penEnd && h.streak > 0 {
				h.streak--
				cl["success-forgets-one-failure"] = true
			}
			h.mu.Unlock()
			if rateAfter < rateBefore-c13Eps {
				return fmt.Sprintf("event %d: a success lowered the refill rate from %.6f/s to %.6f/s", i, rateBefore, rateAfter), false, nil
			}
		}
		synctest.Wait()
		if v := inspect(ev.Kind); v != "" {
			return fmt.Sprintf("event %d: %s", i, v), false, nil
		}
	}
	// liveness: penalties are capped at 30 s and the rate has a floor, so every waiter is released eventually
	synctest.Wait()
	h.mu.Lock()
	w := h.waiting
	h.mu.Unlock()
	if w > 0 {
		bound := 30*time.Second + time.Duration(float64(w+1)/minRate*float64(time.Second)) + time.Second
		time.Sleep(bound)
		synctest.Wait()
		h.mu.Lock()
		w2 := h.waiting
		h.mu.Unlock()
		if w2 > 0 {
			if veriflib.FindingOpen("C13-5xx-raises-rate-below-half") && c.Rate < minRefillRate {
				// cannot happen with the raised rate, kept for symmetry
			}
			return fmt.Sprintf("%d waiter(s) still blocked %.0fs after the last event (penalty cap 30 s + %d tokens at the minimum rate %.3f/s)", w2, bound.Seconds(), w+1, minRate), false, nil
		}
	}
	h.mu.Lock()
	defer h.mu.Unlock()
	if v := h.checkLog(c.Capacity, c.Rate, "host"); v != "" {
		return v, false, nil
	}
	for _, f := range h.failures {
		for _, r := range h.releases {
			if r.seq > f.seq {
				releaseAfterFailure = true
			}
		}
	}
	for k := range cl {
		classes = append(classes, k)
	}
	if c.Rate < 0.5 {
		classes = append(classes, "rate<0.5")
	}
	classes = append(classes, fmt.Sprintf("releases:%s", c13Bucket(len(h.releases))))
	sort.Strings(classes)
	return "", hadFailure && releaseAfterFailure, classes
}

// c13Drain makes a bucket hand out tokens freely (harness clean-up only, after the verdict is known).
func c13Drain(tb *tokenBucket) {
	tb.mu.Lock()
	tb.penaltyUntil = time.Time{}
	tb.capacity = 1e12
	tb.tokens = 1e12
	tb.mu.Unlock()
}

func c13Bucket(n int) string {
	switch {
	case n == 0:
		return "0"
	case n <= 3:
		return "1-3"
	case n <= 10:
		return "4-10"
	default:
		return ">10"
	}
}

func propC13Bucket(t veriflib.TB, outer *testing.T, c c13Case) {
	var viol string
	var nt bool
	var classes, oplog []string
	veriflib.Bubble(outer, "C13", "C13/bucket", c, func(st *testing.T) {
		viol, nt, classes = c13RunBucket(c, &oplog)
	})
	if viol != "" {
		veriflib.Fail(t, "C13", "C13/bucket", c, oplog, "%s\nhistory: %s", viol, strings.Join(oplog, " ; "))
	}
	veriflib.Record("C13/bucket", veriflib.JSON(c), nt, classes, func() any {
		return map[string]any{"capacity": c.Capacity, "rate": c.Rate, "history": strings.Join(oplog, " ; ")}
	})
}

var c13Statuses = []int{429, 429, 403, 408, 425, 500, 502, 503, 504, 599, 404, 200, 301, 499}

func genC13Events(t *rapid.T, hosts int) []c13Ev {
	n := rapid.IntRange(1, 40).Draw(t, "nev")
	var evs []c13Ev
	for i := 0; i < n; i++ {
		var ev c13Ev
		switch rapid.IntRange(0, 9).Draw(t, "kind") {
		case 0, 1, 2, 3:
			ev = c13Ev{Kind: "acquire", N: rapid.IntRange(1, 4).Draw(t, "n")}
			if rapid.IntRange(0, 2).Draw(t, "single") != 0 {
				ev.N = 1
			}
		case 4, 5, 6:
			ev = c13Ev{Kind: "advance"}
			switch rapid.IntRange(0, 3).Draw(t, "dtclass") {
			case 0:
				ev.DtMs = rapid.IntRange(0, 200).Draw(t, "dt")
			case 1:
				ev.DtMs = rapid.IntRange(200, 6000).Draw(t, "dt")
			case 2:
				ev.DtMs = rapid.IntRange(4900, 5100).Draw(t, "dt") // around the base penalty
			default:
				ev.DtMs = rapid.IntRange(6000, 90000).Draw(t, "dt")
			}
		case 7, 8:
			ev = c13Ev{Kind: "failure", Status: c13Statuses[rapid.IntRange(0, len(c13Statuses)-1).Draw(t, "status")]}
		default:
			ev = c13Ev{Kind: "success"}
		}
		if hosts > 1 {
			ev.Host = rapid.IntRange(0, hosts-1).Draw(t, "host")
		}
		evs = append(evs, ev)
		if ev.Kind == "failure" && rapid.IntRange(0, 9).Draw(t, "storm") == 0 {
			// a host that keeps failing: dozens of failures in a row (a dead back-end answering 503 to every retry of
			// every item), far beyond the point where the penalty and the rate cut stop changing
			for k := rapid.IntRange(20, 90).Draw(t, "stormlen"); k > 0; k-- {
				evs = append(evs, ev)
			}
		}
	}
	return evs
}

func genC13Rate(t *rapid.T) float64 {
	switch rapid.IntRange(0, 3).Draw(t, "rateclass") {
	case 0:
		return float64(rapid.IntRange(5, 49).Draw(t, "rate100")) / 100 // 0.05 .. 0.49 (below the 0.5 floor)
	case 1:
		return float64(rapid.IntRange(50, 300).Draw(t, "rate100")) / 100
	default:
		return float64(rapid.IntRange(1, 50).Draw(t, "rate"))
	}
}

func TestVerif_C13_Bucket(t *testing.T) {
	defer veriflib.Flush()
	var rc c13Case
	if veriflib.ReplayCase("C13/bucket", &rc) {
		propC13Bucket(t, t, rc)
		return
	} else if veriflib.Replaying() {
		t.Skip()
	}
	rapid.Check(t, func(rt *rapid.T) {
		// capacity >= 1: with a capacity below one token Wait() can never succeed (not a configuration an operator uses)
		c := c13Case{Capacity: rapid.IntRange(1, 20).Draw(rt, "capacity"), Rate: genC13Rate(rt)}
		c.Events = genC13Events(rt, 1)
		veriflib.Guard("C13", "C13/bucket", c, func() { propC13Bucket(rt, t, c) })
	})
}

// ---------------------------------------------------------------------------------------------
// facet: through the BucketManager with several hosts (#hosts <= maxBuckets so that nothing is evicted):
// every host obeys its own bound, independently of the traffic to the others.

func c13RunManager(c c13Case, log *[]string) (viol string, nontrivial bool, classes []string) {
	ctx, cancel := context.WithCancel(context.Background())
	defer cancel()
	bm := NewBucketManager(ctx, c.Hosts+2, float64(c.Capacity), c.Rate, time.Hour*24)
	defer bm.Close()
	start := time.Now()
	hosts := make([]*c13Host, c.Hosts)
	for i := range hosts {
		hosts[i] = &c13Host{}
	}
	defer func() {
		bm.mu.Lock()
		for _, mb := range bm.buckets {
			c13Drain(mb.bucket)
		}
		bm.mu.Unlock()
		time.Sleep(time.Second)
		synctest.Wait()
	}()
	name := func(i int) string { return fmt.Sprintf("h%d.example.com", i) }
	say := func(f string, a ...any) {
		*log = append(*log, fmt.Sprintf("t=%.2fs ", time.Since(start).Seconds())+fmt.Sprintf(f, a...))
	}
	multi := map[int]bool{}
	hadFailure := false
	for _, ev := range c.Events {
		h := hosts[ev.Host%c.Hosts]
		hn := name(ev.Host % c.Hosts)
		multi[ev.Host%c.Hosts] = true
		switch ev.Kind {
		case "acquire":
			n := ev.N
			if n < 1 {
				n = 1
			}
			say("%s acquire x%d", hn, n)
			for k := 0; k < n; k++ {
				h.mu.Lock()
				h.waiting++
				h.mu.Unlock()
				go func() {
					bm.Wait(hn)
					h.mu.Lock()
					h.seq++
					h.releases = append(h.releases, c13Release{t: time.Since(start), seq: h.seq})
					h.waiting--
					h.mu.Unlock()
				}()
			}
		case "advance":
			say("advance %dms", ev.DtMs)
			time.Sleep(time.Duration(ev.DtMs) * time.Millisecond)
		case "failure":
			synctest.Wait()
			now := time.Since(start)
			bm.AdjustOnFailure(hn, ev.Status)
			say("%s failure(%d)", hn, ev.Status)
			h.mu.Lock()
			h.seq++
			f := c13Failure{t: now, seq: h.seq, status: ev.Status}
			if c13IsPenalty(ev.Status) {
				h.streak++
				f.minPen = c13MinPenalty(h.streak)
				h.penEnd = now + f.minPen
				hadFailure = true
			} else if ev.Status >= 500 {
				h.streak++
				hadFailure = true
			}
			h.failures = append(h.failures, f)
			h.mu.Unlock()
		case "success":
			synctest.Wait()
			bm.OnSuccess(hn)
			say("%s success", hn)
			h.mu.Lock()
			if time.Since(start) >= h.penEnd && h.streak > 0 {
				h.streak--
			}
			h.mu.Unlock()
		}
		synctest.Wait()
		bm.mu.Lock()
		nb := len(bm.buckets)
		bm.mu.Unlock()
		if nb > c.Hosts+2 {
			return fmt.Sprintf("limiter table holds %d buckets, bound is %d", nb, c.Hosts+2), false, nil
		}
	}
	synctest.Wait()
	minRate := math.Min(minRefillRate, c.Rate)
	maxW := 0
	for _, h := range hosts {
		h.mu.Lock()
		if h.waiting > maxW {
			maxW = h.waiting
		}
		h.mu.Unlock()
	}
	if maxW > 0 {
		time.Sleep(30*time.Second + time.Duration(float64(maxW+1)/minRate*float64(time.Second)) + time.Second)
		synctest.Wait()
	}
	for i, h := range hosts {
		h.mu.Lock()
		if h.waiting > 0 {
			h.mu.Unlock()
			return fmt.Sprintf("%s: %d waiter(s) never released", name(i), h.waiting), false, nil
		}
		v := h.checkLog(c.Capacity, c.Rate, name(i))
		h.mu.Unlock()
		if v != "" {
			return v, false, nil
		}
	}
	classes = []string{fmt.Sprintf("hosts-used:%d", len(multi))}
	return "", hadFailure && len(multi) >= 2, classes
}

func propC13Manager(t veriflib.TB, outer *testing.T, c c13Case) {
	var viol string
	var nt bool
	var classes, oplog []string
	veriflib.Bubble(outer, "C13", "C13/manager", c, func(st *testing.T) {
		viol, nt, classes = c13RunManager(c, &oplog)
	})
	if viol != "" {
		veriflib.Fail(t, "C13", "C13/manager", c, oplog, "%s\nhistory: %s", viol, strings.Join(oplog, " ; "))
	}
	veriflib.Record("C13/manager", veriflib.JSON(c), nt, classes, func() any {
		return map[string]any{"capacity": c.Capacity, "rate": c.Rate, "hosts": c.Hosts, "history": strings.Join(oplog, " ; ")}
	})
}

func TestVerif_C13_Manager(t *testing.T) {
	defer veriflib.Flush()
	var rc c13Case
	if veriflib.ReplayCase("C13/manager", &rc) {
		propC13Manager(t, t, rc)
		return
	} else if veriflib.Replaying() {
		t.Skip()
	}
	rapid.Check(t, func(rt *rapid.T) {
		c := c13Case{Capacity: rapid.IntRange(1, 8).Draw(rt, "capacity"), Rate: genC13Rate(rt), Hosts: rapid.IntRange(2, 5).Draw(rt, "hosts")}
		c.Events = genC13Events(rt, c.Hosts)
		veriflib.Guard("C13", "C13/manager", c, func() { propC13Manager(rt, t, c) })
	})
}

// Strict reproduction of the open finding.
func TestVerifKF_C13_5xxRaisesRate(t *testing.T) {
	c := c13Case{Capacity: 1, Rate: 0.1, Events: []c13Ev{{Kind: "failure", Status: 503}}}
	propC13Bucket(t, t, c)
}
