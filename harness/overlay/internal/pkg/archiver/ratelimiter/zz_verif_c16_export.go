//go:build verif

package ratelimiter

// VerifC16Size reports the number of per-host buckets and the configured bound (overlay-only, not in /repo).
func (bm *BucketManager) VerifC16Size() (n, max int) {
	bm.mu.Lock()
	defer bm.mu.Unlock()
	return len(bm.buckets), bm.maxBuckets
}
