package ratelimiter

// C16 (U facet) — the per-host limiter table stays within its configured bound: len(buckets) <= maxBuckets after every
// operation, however many hosts go through (sequentially and from concurrent callers).

import (
	"context"
	"fmt"
	"sync"
	"testing"
	"time"

	"github.com/internetarchive/Zeno/internal/pkg/veriflib"
	"pgregory.net/rapid"
)

type c16Op struct {
	Kind string `json:"kind"` // wait | failure | success
	Host int    `json:"host"`
	Code int    `json:"code,omitempty"`
	N    int    `json:"n,omitempty"` // > 1: the operation is repeated this many times (a host that stays hot for a long crawl)
}

type c16Case struct {
	MaxBuckets int     `json:"max_buckets"`
	Hosts      int     `json:"hosts"`
	Ops        []c16Op `json:"ops"`
	Parallel   int     `json:"parallel"` // > 1: the op list is dealt round-robin to this many goroutines
}

func genC16Case(t *rapid.T) c16Case {
	c := c16Case{MaxBuckets: rapid.IntRange(1, 8).Draw(t, "maxbuckets"), Parallel: []int{1, 1, 2, 4, 8}[rapid.IntRange(0, 4).Draw(t, "parallel")]}
	c.Hosts = rapid.IntRange(1, 6*c.MaxBuckets+3).Draw(t, "hosts")
	n := rapid.IntRange(1, 120).Draw(t, "nops")
	hotOps := 0
	for i := 0; i < n; i++ {
		op := c16Op{Kind: []string{"wait", "wait", "wait", "failure", "success"}[rapid.IntRange(0, 4).Draw(t, "kind")]}
		// skewed host choice: a few hot hosts and a long tail, so that usage counts differ
		if rapid.IntRange(0, 2).Draw(t, "hot") == 0 {
			op.Host = rapid.IntRange(0, min(2, c.Hosts-1)).Draw(t, "hothost")
		} else {
			op.Host = rapid.IntRange(0, c.Hosts-1).Draw(t, "host")
		}
		if op.Kind == "failure" {
			// rate cuts (5xx) and back-off penalties (429 ...): a penalised host's bucket is still just one table entry, and
			// stays evictable (the waits it causes are virtual time)
			op.Code = []int{500, 503, 429, 429, 403, 408}[rapid.IntRange(0, 5).Draw(t, "code")]
		}
		if op.Kind != "failure" && hotOps < 4 && rapid.IntRange(0, 11).Draw(t, "longhot") == 0 {
			// thousands of uses of one host: whatever bookkeeping ranks the hosts must not wear out
			op.N = rapid.IntRange(4000, 9000).Draw(t, "repeat")
			hotOps++
		}
		c.Ops = append(c.Ops, op)
	}
	return c
}

// propC16Table runs the case inside a synctest bubble: a 5xx adjustment empties the bucket, so that the next Wait polls
// (50 ms sleeps) - virtual time makes that free. The table bound itself does not depend on time.
func propC16Table(t veriflib.TB, outer *testing.T, c c16Case) {
	var failure string
	veriflib.Bubble(outer, "C16", "C16/table", c, func(*testing.T) { failure = c16RunTable(c) })
	if failure != "" {
		veriflib.Fail(t, "C16", "C16/table", c, nil, "%s", failure)
	}
	seen := map[int]bool{}
	for _, op := range c.Ops {
		seen[op.Host] = true
	}
	cl := []string{fmt.Sprintf("parallel:%d", c.Parallel)}
	if len(seen) > c.MaxBuckets {
		cl = append(cl, "eviction-needed")
	}
	if len(seen) > 3*c.MaxBuckets {
		cl = append(cl, "hosts>3xbound")
	}
	veriflib.Record("C16/table", veriflib.JSON(c), len(seen) > c.MaxBuckets, cl, func() any { return c })
}

func c16RunTable(c c16Case) string {
	ctx, cancel := context.WithCancel(context.Background())
	defer cancel()
	bm := NewBucketManager(ctx, c.MaxBuckets, 1e6, 1e6, time.Hour) // ample tokens: Wait never sleeps
	defer bm.Close()
	do := func(op c16Op) string {
		h := fmt.Sprintf("127.0.0.%d:80", op.Host+2)
		for k := 0; k < max(op.N, 1); k++ {
			switch op.Kind {
			case "wait":
				bm.Wait(h)
			case "failure":
				bm.AdjustOnFailure(h, op.Code)
			default:
				bm.OnSuccess(h)
			}
		}
		bm.mu.Lock()
		n := len(bm.buckets)
		_, present := bm.buckets[h]
		bm.mu.Unlock()
		if n > c.MaxBuckets {
			return fmt.Sprintf("after %s(%s) the limiter table holds %d buckets, the configured bound is %d", op.Kind, h, n, c.MaxBuckets)
		}
		if c.Parallel == 1 && !present {
			return fmt.Sprintf("after %s(%s) the table has no bucket for that host", op.Kind, h)
		}
		return ""
	}
	if c.Parallel <= 1 {
		for i, op := range c.Ops {
			if m := do(op); m != "" {
				return fmt.Sprintf("op #%d: %s", i, m)
			}
		}
	} else {
		var wg sync.WaitGroup
		msgs := make([]string, c.Parallel)
		for g := 0; g < c.Parallel; g++ {
			wg.Add(1)
			go func(g int) {
				defer wg.Done()
				for i := g; i < len(c.Ops); i += c.Parallel {
					if m := do(c.Ops[i]); m != "" && msgs[g] == "" {
						msgs[g] = m
					}
				}
			}(g)
		}
		wg.Wait()
		for _, m := range msgs {
			if m != "" {
				return m
			}
		}
	}
	return ""
}

func TestVerif_C16_Table(t *testing.T) {
	defer veriflib.Flush()
	var rc c16Case
	if veriflib.ReplayCase("C16/table", &rc) {
		propC16Table(t, t, rc)
		return
	} else if veriflib.Replaying() {
		t.Skip()
	}
	rapid.Check(t, func(rt *rapid.T) {
		c := genC16Case(rt)
		veriflib.Guard("C16", "C16/table", c, func() { propC16Table(rt, t, c) })
	})
}
