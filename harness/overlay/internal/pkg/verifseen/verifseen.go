// Package verifseen holds what the C08 facets in packages seencheck, hq and preprocessor share (overlay-only package):
// item trees whose working-depth URLs are uses of a small URL pool, built the way the pipeline builds them, and an
// in-memory fake crawl HQ that serves the seencheck endpoint of the gocrawlhq client.
package verifseen

import (
	"bytes"
	"encoding/json"
	"fmt"
	"io"
	"net/http"
	"net/url"
	"slices"
	"sort"
	"strings"
	"sync"

	"github.com/ada-url/goada"
	"github.com/internetarchive/Zeno/internal/pkg/verifgen"
	"github.com/internetarchive/Zeno/internal/pkg/verifref"
	"github.com/internetarchive/Zeno/pkg/models"
	"github.com/internetarchive/gocrawlhq"
	"pgregory.net/rapid"
)

// Use is one use of a pool URL: which URL and how its query string is spelt this time.
type Use struct {
	L     int    `json:"url"`
	Query string `json:"query"`
	Deco  int    `json:"deco,omitempty"` // non-canonical decoration of the raw text (only where preprocess() normalises it), see Decorate
}

// Op is one seed tree handed to a seencheck.
//
//	seed            the seed alone                                       (local store: checked as "seed"; HQ: never asked)
//	redirect        seed(GotRedirected) -> target                        (target checked as "seed")
//	assets          seed(GotChildren) -> 1..4 assets                     (checked as "asset")
//	asset-redirect  seed(GotChildren) -> asset(GotRedirected) -> target  (target checked as "seed")
//	asset-assets    seed(GotChildren) -> asset(GotChildren) -> 1..4 assets
//	assets-redirects seed(GotChildren) -> 2..3 assets, each GotRedirected -> its target (2..3 nodes checked as "seed" in one call)
type Op struct {
	Kind   string `json:"kind"`
	Anc    []Use  `json:"anc"`
	Leaves []Use  `json:"leaves"`
}

var opKinds = []string{"seed", "seed", "redirect", "assets", "assets", "assets", "asset-redirect", "asset-assets", "assets-redirects"}

// GenUse draws a use of one pool URL with a fresh spelling.
func GenUse(t *rapid.T, label string, pool []verifgen.SeenLogical) Use {
	i := rapid.IntRange(0, len(pool)-1).Draw(t, label+".url")
	return Use{L: i, Query: verifgen.SeenSpell(t, label, pool[i])}
}

// GenOp draws one tree.
func GenOp(t *rapid.T, label string, pool []verifgen.SeenLogical) Op {
	op := Op{Kind: opKinds[rapid.IntRange(0, len(opKinds)-1).Draw(t, label+".kind")]}
	nAnc, nLeaves := 0, 1
	switch op.Kind {
	case "redirect":
		nAnc = 1
	case "assets":
		nAnc, nLeaves = 1, rapid.IntRange(1, 4).Draw(t, label+".n")
	case "asset-redirect":
		nAnc = 2
	case "asset-assets":
		nAnc, nLeaves = 2, rapid.IntRange(1, 4).Draw(t, label+".n")
	case "assets-redirects":
		nLeaves = rapid.IntRange(2, 3).Draw(t, label+".n")
		nAnc = 1 + nLeaves
	}
	for i := 0; i < nAnc; i++ {
		op.Anc = append(op.Anc, GenUse(t, fmt.Sprintf("%s.anc%d", label, i), pool))
	}
	for i := 0; i < nLeaves; i++ {
		op.Leaves = append(op.Leaves, GenUse(t, fmt.Sprintf("%s.leaf%d", label, i), pool))
	}
	return op
}

// Text renders the URL text of a use and self-checks the harness's assumptions: the spelling denotes the URL's parameters
// and the text is a fixpoint of the WHATWG serialisation, i.e. exactly what NormalizeURL would leave in URL.Raw.
func Text(pool []verifgen.SeenLogical, u Use, ns string) string {
	l := pool[u.L]
	text := l.Text(ns, u.Query)
	pairs, ok := verifref.DecodeQuery(u.Query)
	if !ok || len(pairs) != len(l.Pairs) {
		panic(fmt.Sprintf("harness: spelling %q does not decode to %v", u.Query, l.Pairs))
	}
	for i := range pairs {
		if pairs[i].K != l.Pairs[i].K || pairs[i].V != l.Pairs[i].V {
			panic(fmt.Sprintf("harness: spelling %q does not decode to %v", u.Query, l.Pairs))
		}
	}
	a, err := goada.New(text)
	if err != nil {
		panic("harness: " + text + ": " + err.Error())
	}
	href := a.Href()
	a.Free()
	if href != text {
		panic(fmt.Sprintf("harness: %q is not a fixpoint of the WHATWG serialisation (%q)", text, href))
	}
	return text
}

// Decorate re-spells the canonical text of a use in a non-canonical way that NormalizeURL undoes: 1 upper-case host,
// 2 explicit default port, 3 fragment, 4 surrounding white space, 5 upper-case scheme, 6 surrounding quotes,
// 7 a "/./" dot segment; relative to the parent's URL: 8 path-absolute reference ("/path?query", when the parent has the
// same origin), 9 scheme-relative reference ("//host/path?query", when the parent has the same scheme).
// 0 (and anything that does not apply) leaves the text alone.
//
// The relative forms matter: NormalizeURL re-encodes the query of an absolute input before the WHATWG parser sees it
// (Raw ends up spelt like URL.String()), but resolves a relative reference as written (Raw keeps the document's spelling).
func Decorate(text string, deco int, parentRaw string) string {
	i := strings.Index(text, "://")
	rest := text[i+3:]
	j := strings.IndexByte(rest, '/')
	auth, tail := rest[:j], rest[j:]
	switch deco {
	case 1:
		return text[:i+3] + strings.ToUpper(auth) + tail
	case 2:
		if !strings.Contains(auth, ":") {
			if text[:i] == "https" {
				return text[:i+3] + auth + ":443" + tail
			}
			return text[:i+3] + auth + ":80" + tail
		}
	case 3:
		return text + "#frag"
	case 4:
		return " " + text + "\n"
	case 5:
		return strings.ToUpper(text[:i]) + text[i:]
	case 6:
		return `"` + text + `"`
	case 7:
		return text[:i+3] + auth + "/." + tail
	case 8, 9:
		if k := strings.Index(parentRaw, "://"); k >= 0 {
			prest := parentRaw[k+3:]
			pauth := prest
			if m := strings.IndexAny(prest, "/?#"); m >= 0 {
				pauth = prest[:m]
			}
			if deco == 8 && parentRaw[:k] == text[:i] && pauth == auth {
				return tail
			}
			if parentRaw[:k] == text[:i] {
				return "//" + auth + tail
			}
		}
	}
	return text
}

// NormalizedURL builds a fresh URL object for one use in the state NormalizeURL leaves it (Raw = href, parsed).
func NormalizedURL(pool []verifgen.SeenLogical, u Use, ns string) *models.URL {
	m := &models.URL{Raw: Text(pool, u, ns)}
	if err := m.Parse(); err != nil {
		panic("harness: " + m.Raw + ": " + err.Error())
	}
	return m
}

// NewItem creates the item of one use as a source (parent == nil) or postprocessItem (redirect target / asset of parent)
// does; it is not attached to the parent. normalized=false leaves the (decorated) raw text for preprocess() to normalise.
func NewItem(pool []verifgen.SeenLogical, u Use, ns string, id string, normalized bool, parent *models.Item, redirect bool) *models.Item {
	var m *models.URL
	if normalized {
		m = NormalizedURL(pool, u, ns)
	} else {
		parentRaw := ""
		if parent != nil {
			parentRaw = parent.GetURL().Raw
		}
		m = &models.URL{Raw: Decorate(Text(pool, u, ns), u.Deco, parentRaw)}
	}
	if parent != nil {
		m.Hops = parent.GetURL().GetHops()
		if redirect {
			m.Redirects = parent.GetURL().GetRedirects() + 1
		}
	}
	return models.NewItem(id, m, "")
}

// KeyOf is the identity of a use inside a namespace.
func KeyOf(pool []verifgen.SeenLogical, u Use, ns string) string { return ns + " " + pool[u.L].Key() }

// Node is one working-depth node of a built tree.
type Node struct {
	Item *models.Item
	Key  string // identity computed from the URL's components (+ namespace), never from a rendered text
	Type string // "asset" when the parent got children, else "seed" (the seed itself or a redirect target)
	Text string // the text the node was built from
	Op   int
	NPar int
	L    int // index of the URL in the pool
}

// Build builds the tree of one op with models.NewItem / AddChild as the sources and postprocessItem do. With
// normalized=true every URL is already in the state NormalizeURL leaves it (for calling a seencheck directly); with
// normalized=false only the ancestors are (the working-depth nodes are then raw, for calling preprocess()), and normalize
// is used for the ancestors.
func Build(pool []verifgen.SeenLogical, op Op, ns string, opIdx int, leavesNormalized bool) (*models.Item, []Node) {
	id := 0
	newItem := func(u Use, normalized bool, parent *models.Item, redirect bool) *models.Item {
		id++
		return NewItem(pool, u, ns, fmt.Sprintf("%s-o%d-n%d", ns, opIdx, id), normalized, parent, redirect)
	}
	node := func(it *models.Item, u Use, typ string) Node {
		return Node{Item: it, Key: ns + " " + pool[u.L].Key(), Type: typ, Text: it.GetURL().Raw, Op: opIdx, NPar: len(pool[u.L].Pairs), L: u.L}
	}
	must := func(err error) {
		if err != nil {
			panic("harness: AddChild: " + err.Error())
		}
	}
	if op.Kind == "seed" {
		s := newItem(op.Leaves[0], leavesNormalized, nil, false)
		return s, []Node{node(s, op.Leaves[0], "seed")}
	}
	seed := newItem(op.Anc[0], true, nil, false)
	var nodes []Node
	if op.Kind == "assets-redirects" {
		for i, u := range op.Leaves {
			a := newItem(op.Anc[1+i], true, seed, false)
			must(seed.AddChild(a, models.ItemGotChildren))
			ch := newItem(u, leavesNormalized, a, true)
			must(a.AddChild(ch, models.ItemGotRedirected))
			nodes = append(nodes, node(ch, u, "seed"))
		}
		if err := seed.CheckConsistency(); err != nil {
			panic("harness: inconsistent tree: " + err.Error())
		}
		return seed, nodes
	}
	last, edge, typ := seed, models.ItemGotChildren, "asset"
	switch op.Kind {
	case "redirect":
		edge, typ = models.ItemGotRedirected, "seed"
	case "assets":
	case "asset-redirect", "asset-assets":
		last = newItem(op.Anc[1], true, seed, false)
		must(seed.AddChild(last, models.ItemGotChildren))
		if op.Kind == "asset-redirect" {
			edge, typ = models.ItemGotRedirected, "seed"
		}
	default:
		panic("harness: unknown op kind " + op.Kind)
	}
	for _, u := range op.Leaves {
		ch := newItem(u, leavesNormalized, last, edge == models.ItemGotRedirected)
		must(last.AddChild(ch, edge))
		nodes = append(nodes, node(ch, u, typ))
	}
	if err := seed.CheckConsistency(); err != nil {
		panic("harness: inconsistent tree: " + err.Error())
	}
	return seed, nodes
}

// Outcome renders the status of a checked node.
func Outcome(it *models.Item) string {
	switch it.GetStatus() {
	case models.ItemFresh:
		return "fresh"
	case models.ItemSeen:
		return "seen"
	}
	return "status:" + it.GetStatus().String()
}

// ---------------------------------------------------------------------------------------------------------------------
// Fake crawl HQ (seencheck endpoint only)

// Entry is one URL of a seencheck request.
type Entry struct {
	Value string `json:"value"`
	Type  string `json:"type"`
}

// Exchange is one request/response pair seen by the fake.
type Exchange struct {
	Asked    []Entry  `json:"asked"`
	Answered []string `json:"answered_not_seen"`
	Status   int      `json:"status"`
}

// FakeHQ answers POST /api/projects/<project>/seencheck like crawl HQ: with the subset of the submitted URLs it has NOT
// seen (echoed verbatim, HTTP 200; HTTP 204 or an empty array when it has seen them all), then remembers them. It
// recognises a URL whatever its spelling: its memory is keyed by an identity computed from the decoded components.
type FakeHQ struct {
	mu         sync.Mutex
	Project    string
	Seen       map[string]bool
	EmptyAs204 bool
	Order      int // order of the URLs in an answer: 0 as asked, 1 reversed, 2 sorted by text (the API promises no order)
	FailStatus int // != 0: every request is answered with this status and no body
	Log        []Exchange
}

// IdentityOf is the fake's notion of "the same URL": scheme, authority, path and the decoded parameter list.
func IdentityOf(value string) string {
	p, ok := verifref.SplitURL(value)
	if !ok {
		return "raw:" + value
	}
	pairs, ok := verifref.DecodeQuery(p.Query)
	if !ok {
		return "raw:" + value
	}
	b, _ := json.Marshal(pairs)
	return strings.ToLower(p.Scheme) + "://" + p.Authority + p.Path + " " + string(b)
}

func (f *FakeHQ) RoundTrip(req *http.Request) (*http.Response, error) {
	f.mu.Lock()
	defer f.mu.Unlock()
	resp := func(status int, body []byte) *http.Response {
		return &http.Response{StatusCode: status, Status: fmt.Sprintf("%d %s", status, http.StatusText(status)), Proto: "HTTP/1.1", ProtoMajor: 1, ProtoMinor: 1,
			Header: http.Header{"Content-Type": []string{"application/json"}}, Body: io.NopCloser(bytes.NewReader(body)), ContentLength: int64(len(body)), Request: req}
	}
	if req.Method != http.MethodPost || req.URL.Path != "/api/projects/"+f.Project+"/seencheck" {
		return resp(404, nil), nil
	}
	raw, _ := io.ReadAll(req.Body)
	req.Body.Close()
	var asked []Entry
	if err := json.Unmarshal(raw, &asked); err != nil {
		return resp(400, nil), nil
	}
	ex := Exchange{Asked: asked}
	if f.FailStatus != 0 {
		ex.Status = f.FailStatus
		f.Log = append(f.Log, ex)
		return resp(f.FailStatus, nil), nil
	}
	out := []gocrawlhq.URL{}
	for _, e := range asked {
		if !f.Seen[IdentityOf(e.Value)] {
			out = append(out, gocrawlhq.URL{Value: e.Value, Type: e.Type})
			ex.Answered = append(ex.Answered, e.Value)
		}
	}
	for _, e := range asked {
		f.Seen[IdentityOf(e.Value)] = true
	}
	switch f.Order {
	case 1:
		slices.Reverse(out)
	case 2:
		sort.SliceStable(out, func(i, j int) bool { return out[i].Value < out[j].Value })
	}
	if len(out) == 0 && f.EmptyAs204 {
		ex.Status = 204
		f.Log = append(f.Log, ex)
		return resp(204, nil), nil
	}
	ex.Status = 200
	f.Log = append(f.Log, ex)
	b, _ := json.Marshal(out)
	return resp(200, b), nil
}

// Client returns a gocrawlhq client wired to the fake (what gocrawlhq.Init builds, minus the websocket).
func (f *FakeHQ) Client() *gocrawlhq.Client {
	ep, _ := url.Parse("http://hq.invalid/api/projects/" + f.Project + "/seencheck")
	return &gocrawlhq.Client{Key: "k", Secret: "s", Project: f.Project, HQAddress: "http://hq.invalid", Identifier: "verif",
		SeencheckEndpoint: ep, HTTPClient: &http.Client{Transport: f}}
}

// Exchanges returns a copy of the log.
func (f *FakeHQ) Exchanges() []Exchange {
	f.mu.Lock()
	defer f.mu.Unlock()
	return append([]Exchange(nil), f.Log...)
}
