//go:build verif

package reactor

// VerifC16TokensInUse reports how many of the reactor's tokens are taken (overlay-only, not in /repo).
func VerifC16TokensInUse() int {
	if globalReactor == nil {
		return 0
	}
	return len(globalReactor.tokenPool)
}
