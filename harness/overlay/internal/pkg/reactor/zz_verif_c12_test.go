package reactor

// C12 — reactor: bounded in-flight seeds, exact token accounting, no deadlock.
//
// The real reactor runs inside a testing/synctest bubble: every channel it creates is bubbled, so "this call is
// blocked" is decided by synctest.Wait() (all goroutines durably blocked), not by a timeout. A reference model
// (tracked set, where each tracked seed currently is, frozen, stopped) predicts the result of every call.

import (
	"fmt"
	"sort"
	"strings"
	"testing"
	"testing/synctest"
	"time"

	"github.com/internetarchive/Zeno/internal/pkg/verifcfg"
	"github.com/internetarchive/Zeno/internal/pkg/veriflib"
	"github.com/internetarchive/Zeno/pkg/models"
	"pgregory.net/rapid"
)

type c12Op struct {
	Kind string `json:"kind"`        // insert | read | feedback | finish | feedback-unknown | finish-unknown | finish-again | freeze | stop | batch
	N    int    `json:"n,omitempty"` // selector among candidates (mod len) / number of inserts in a batch
	M    int    `json:"m,omitempty"` // batch: number of finishes released together with the inserts
}

type c12Case struct {
	Tokens int     `json:"tokens"`
	Ops    []c12Op `json:"ops"`
}

type c12Call struct {
	kind string
	id   string
	done bool
	err  error
}

func c12NewSeed(id string) *models.Item {
	u := &models.URL{Raw: "http://example.com/" + id}
	it := models.NewItem(id, u, "")
	it.SetSource(models.ItemSourceQueue)
	return it
}

// c12Run executes one history inside a bubble; returns "" or the violation text.
func c12Run(c c12Case, log *[]string) (viol string, nontrivial bool, classes []string) {
	out := make(chan *models.Item)
	if err := Start(c.Tokens, out); err != nil {
		return "Start: " + err.Error(), false, nil
	}
	stopped := false
	defer func() {
		if !stopped {
			Stop()
		}
	}()
	r := globalReactor

	// model
	tracked := map[string]string{} // id -> "queued" | "held"
	stale := map[string]bool{}     // fed back concurrently with its own finish, feedback won: one stale delivery is possible
	items := map[string]*models.Item{}
	finishedIDs := []string{}
	frozen := false
	nextID := 0
	var pendingInserts []*c12Call // blocked inserts (FIFO is not assumed)
	classSet := map[string]bool{}
	exhausted, errorPath := false, false

	say := func(f string, a ...any) { *log = append(*log, fmt.Sprintf(f, a...)) }
	keys := func(where string) []string {
		var ks []string
		for k, v := range tracked {
			if v == where {
				ks = append(ks, k)
			}
		}
		sort.Strings(ks)
		return ks
	}
	call := func(kind, id string, f func() error) *c12Call {
		cl := &c12Call{kind: kind, id: id}
		go func() {
			cl.err = f()
			cl.done = true
		}()
		return cl
	}
	// accounting invariant, checked at every quiescent point
	check := func(after string) string {
		synctest.Wait()
		if stopped {
			return ""
		}
		table := GetStateTable()
		sort.Strings(table)
		var want []string
		for k := range tracked {
			want = append(want, k)
		}
		sort.Strings(want)
		if len(r.tokenPool) != len(want) || strings.Join(table, ",") != strings.Join(want, ",") {
			return fmt.Sprintf("after %s: tokens in use = %d, state table = %v, model tracks %v (max %d)", after, len(r.tokenPool), table, want, c.Tokens)
		}
		if len(want) > c.Tokens {
			return fmt.Sprintf("after %s: %d seeds in flight with %d tokens", after, len(want), c.Tokens)
		}
		return ""
	}
	// admit blocked inserts that can proceed now (model side), verifying the implementation agrees
	settleInserts := func(after string) string {
		synctest.Wait()
		var still []*c12Call
		for _, cl := range pendingInserts {
			if cl.done {
				if stopped || frozen {
					if cl.err == nil {
						return fmt.Sprintf("after %s: insert(%s) that was blocked when the reactor was frozen/stopped returned nil", after, cl.id)
					}
					continue
				}
				if cl.err != nil {
					return fmt.Sprintf("after %s: blocked insert(%s) returned %v although the reactor is running", after, cl.id, cl.err)
				}
				tracked[cl.id] = "queued"
			} else {
				still = append(still, cl)
			}
		}
		pendingInserts = still
		if !stopped && !frozen {
			free := c.Tokens - len(tracked)
			if free > 0 && len(pendingInserts) > 0 {
				return fmt.Sprintf("after %s: %d insert(s) still blocked although %d token(s) are free", after, len(pendingInserts), free)
			}
		}
		if (stopped || frozen) && len(pendingInserts) > 0 {
			return fmt.Sprintf("after %s: %d insert(s) still blocked although the reactor is frozen/stopped", after, len(pendingInserts))
		}
		return ""
	}
	tryRead := func() *models.Item {
		got := make(chan *models.Item, 1)
		cancel := make(chan struct{})
		go func() {
			select {
			case it := <-out:
				got <- it
			case <-cancel:
			}
		}()
		synctest.Wait()
		select {
		case it := <-got:
			return it
		default:
			close(cancel)
			synctest.Wait()
			return nil
		}
	}

	for step, op := range c.Ops {
		if stopped && op.Kind != "insert" && op.Kind != "feedback-unknown" && op.Kind != "finish-unknown" {
			continue
		}
		switch op.Kind {
		case "insert":
			nextID++
			id := fmt.Sprintf("s%d", nextID)
			it := c12NewSeed(id)
			items[id] = it
			cl := call("insert", id, func() error { return ReceiveInsert(it) })
			synctest.Wait()
			say("insert(%s)", id)
			switch {
			case stopped:
				errorPath = true
				if !cl.done || cl.err == nil {
					return fmt.Sprintf("step %d: insert(%s) on a stopped reactor: done=%v err=%v, want an error", step, id, cl.done, cl.err), false, nil
				}
			case frozen:
				errorPath = true
				if !cl.done {
					return fmt.Sprintf("step %d: insert(%s) on a frozen reactor blocks", step, id), false, nil
				}
				if cl.err == nil {
					if veriflib.FindingOpen("C12-frozen-accepts-insert") {
						veriflib.Excluded("C12/model", "insert accepted by a frozen reactor (open finding)")
						tracked[id] = "queued"
					} else {
						return fmt.Sprintf("step %d: insert(%s) was accepted although the reactor had been frozen", step, id), false, nil
					}
				}
			case len(tracked) < c.Tokens:
				if !cl.done {
					return fmt.Sprintf("step %d: insert(%s) blocks although only %d of %d tokens are in use", step, id, len(tracked), c.Tokens), false, nil
				}
				if cl.err != nil {
					return fmt.Sprintf("step %d: insert(%s) returned %v with free tokens", step, id, cl.err), false, nil
				}
				tracked[id] = "queued"
			default:
				exhausted = true
				if cl.done {
					return fmt.Sprintf("step %d: insert(%s) returned (err=%v) although all %d tokens are in use: more seeds in flight than tokens", step, id, cl.err, c.Tokens), false, nil
				}
				pendingInserts = append(pendingInserts, cl)
			}
		case "read":
			q := keys("queued")
			it := tryRead()
			if it != nil && stale[it.GetID()] {
				say("read->%s (stale)", it.GetID())
				delete(stale, it.GetID())
			} else if it != nil {
				say("read->%s", it.GetID())
				if tracked[it.GetID()] != "queued" {
					return fmt.Sprintf("step %d: the output delivered %s which the model does not have queued (queued: %v)", step, it.GetID(), q), false, nil
				}
				if it != items[it.GetID()] {
					return fmt.Sprintf("step %d: the output delivered a different object for %s", step, it.GetID()), false, nil
				}
				tracked[it.GetID()] = "held"
			} else {
				say("read->nothing")
				if len(q) > 0 && !stopped {
					return fmt.Sprintf("step %d: seeds %v were accepted but a reading consumer receives nothing", step, q), false, nil
				}
			}
		case "feedback":
			h := keys("held")
			if len(h) == 0 {
				continue
			}
			id := h[op.N%len(h)]
			fit := items[id]
			cl := call("feedback", id, func() error { return ReceiveFeedback(fit) })
			synctest.Wait()
			say("feedback(%s)", id)
			if !cl.done {
				return fmt.Sprintf("step %d: feedback(%s) of a tracked seed blocks", step, id), false, nil
			}
			if frozen {
				if cl.err == nil {
					if veriflib.FindingOpen("C12-frozen-accepts-insert") {
						tracked[id] = "queued"
					} else {
						return fmt.Sprintf("step %d: feedback(%s) accepted by a frozen reactor", step, id), false, nil
					}
				} else if cl.err != ErrReactorFrozen {
					return fmt.Sprintf("step %d: feedback(%s) on a frozen reactor returned %v", step, id, cl.err), false, nil
				}
			} else {
				if cl.err != nil {
					return fmt.Sprintf("step %d: feedback(%s) of a tracked seed returned %v", step, id, cl.err), false, nil
				}
				tracked[id] = "queued"
			}
		case "finish":
			h := keys("held")
			if len(h) == 0 {
				continue
			}
			id := h[op.N%len(h)]
			fit := items[id]
			if (op.N/3)%3 == 1 {
				// the reactor's tables are keyed by id: a seed is "that seed" whichever Item value names it
				fit = c12NewSeed(id)
				classSet["finish-through-another-item-value"] = true
			}
			cl := call("finish", id, func() error { return MarkAsFinished(fit) })
			synctest.Wait()
			say("finish(%s)", id)
			if !cl.done || cl.err != nil {
				return fmt.Sprintf("step %d: finish(%s) of a tracked seed: done=%v err=%v", step, id, cl.done, cl.err), false, nil
			}
			delete(tracked, id)
			finishedIDs = append(finishedIDs, id)
		case "race":
			// feedback and finish of the same held seed issued concurrently (two finisher workers could not do this, but
			// the API allows it): either order is fine, the accounting must hold afterwards
			h := keys("held")
			if len(h) == 0 || frozen {
				continue
			}
			id := h[op.N%len(h)]
			fit := items[id]
			var fb, fin *c12Call
			if op.M%2 == 0 {
				fb = call("feedback", id, func() error { return ReceiveFeedback(fit) })
				fin = call("finish", id, func() error { return MarkAsFinished(fit) })
			} else {
				fin = call("finish", id, func() error { return MarkAsFinished(fit) })
				fb = call("feedback", id, func() error { return ReceiveFeedback(fit) })
			}
			synctest.Wait()
			say("race(%s)", id)
			classSet["has:race"] = true
			if !fin.done || fin.err != nil {
				return fmt.Sprintf("step %d: finish(%s) racing with its feedback: done=%v err=%v", step, id, fin.done, fin.err), false, nil
			}
			if !fb.done {
				return fmt.Sprintf("step %d: feedback(%s) racing with its finish blocks", step, id), false, nil
			}
			if fb.err != nil && fb.err != ErrFeedbackItemNotPresent {
				return fmt.Sprintf("step %d: feedback(%s) racing with its finish returned %v", step, id, fb.err), false, nil
			}
			delete(tracked, id)
			finishedIDs = append(finishedIDs, id)
			if fb.err == nil {
				stale[id] = true
			}
		case "finish-again", "finish-unknown", "feedback-unknown":
			errorPath = true
			var it *models.Item
			if op.Kind == "finish-again" {
				if len(finishedIDs) == 0 {
					continue
				}
				it = items[finishedIDs[op.N%len(finishedIDs)]]
			} else {
				nextID++
				it = c12NewSeed(fmt.Sprintf("x%d", nextID))
			}
			var cl *c12Call
			if op.Kind == "feedback-unknown" {
				cl = call(op.Kind, it.GetID(), func() error { return ReceiveFeedback(it) })
			} else {
				cl = call(op.Kind, it.GetID(), func() error { return MarkAsFinished(it) })
			}
			synctest.Wait()
			say("%s(%s)", op.Kind, it.GetID())
			if !cl.done {
				return fmt.Sprintf("step %d: %s(%s) blocks", step, op.Kind, it.GetID()), false, nil
			}
			if cl.err == nil {
				return fmt.Sprintf("step %d: %s(%s) was not rejected", step, op.Kind, it.GetID()), false, nil
			}
		case "freeze":
			say("freeze")
			Freeze()
			frozen = true
			classSet["has:freeze"] = true
		case "stop":
			say("stop")
			done := false
			go func() { Stop(); done = true }()
			synctest.Wait()
			if !done {
				time.Sleep(time.Hour)
				synctest.Wait()
				if !done {
					return fmt.Sprintf("step %d: Stop() still blocked after a virtual hour", step), false, nil
				}
			}
			stopped = true
			classSet["has:stop"] = true
		case "batch":
			// m finishes and n inserts released together: any serial order is acceptable; the accounting must add up
			if frozen || stopped {
				continue
			}
			h := keys("held")
			m := op.M
			if m > len(h) {
				m = len(h)
			}
			n := op.N%3 + 1
			var calls []*c12Call
			for i := 0; i < m; i++ {
				id := h[i]
				fit := items[id]
				calls = append(calls, call("finish", id, func() error { return MarkAsFinished(fit) }))
			}
			var ins []*c12Call
			for i := 0; i < n; i++ {
				nextID++
				id := fmt.Sprintf("s%d", nextID)
				it := c12NewSeed(id)
				items[id] = it
				ins = append(ins, call("insert", id, func() error { return ReceiveInsert(it) }))
			}
			synctest.Wait()
			say("batch(finish x%d, insert x%d)", m, n)
			classSet["has:batch"] = true
			for _, cl := range calls {
				if !cl.done || cl.err != nil {
					return fmt.Sprintf("step %d: concurrent finish(%s): done=%v err=%v", step, cl.id, cl.done, cl.err), false, nil
				}
				delete(tracked, cl.id)
				finishedIDs = append(finishedIDs, cl.id)
			}
			for _, cl := range ins {
				if cl.done {
					if cl.err != nil {
						return fmt.Sprintf("step %d: concurrent insert(%s) returned %v", step, cl.id, cl.err), false, nil
					}
					tracked[cl.id] = "queued"
				} else {
					pendingInserts = append(pendingInserts, cl)
					exhausted = true
				}
			}
		}
		if v := settleInserts(op.Kind); v != "" {
			return fmt.Sprintf("step %d: %s", step, v), false, nil
		}
		if v := check(op.Kind); v != "" {
			return fmt.Sprintf("step %d: %s", step, v), false, nil
		}
	}

	// delivery: while a consumer reads, every accepted (queued) seed reaches the output exactly once
	if !stopped && !frozen {
		for len(keys("queued")) > 0 {
			it := tryRead()
			if it == nil {
				return fmt.Sprintf("drain: seeds %v never reach the output although a consumer reads", keys("queued")), false, nil
			}
			if stale[it.GetID()] {
				delete(stale, it.GetID())
				continue
			}
			if tracked[it.GetID()] != "queued" {
				return fmt.Sprintf("drain: the output delivered %s which is not queued (%v)", it.GetID(), keys("queued")), false, nil
			}
			tracked[it.GetID()] = "held"
		}
		for it := tryRead(); it != nil; it = tryRead() {
			if stale[it.GetID()] {
				delete(stale, it.GetID())
				continue
			}
			return fmt.Sprintf("drain: the output delivered %s once more than it was inserted/fed back", it.GetID()), false, nil
		}
	}
	// shutdown: every still-blocked insert must return once the reactor stops
	if !stopped {
		Stop()
		stopped = true
	}
	synctest.Wait()
	for _, cl := range pendingInserts {
		if !cl.done {
			time.Sleep(time.Hour)
			synctest.Wait()
			if !cl.done {
				return fmt.Sprintf("insert(%s) is still blocked a virtual hour after Stop()", cl.id), false, nil
			}
		}
		if cl.err == nil {
			return fmt.Sprintf("insert(%s) blocked until Stop() and then returned nil", cl.id), false, nil
		}
	}
	if exhausted {
		classSet["reached:token-exhaustion"] = true
	}
	if errorPath {
		classSet["used:error-path"] = true
	}
	for k := range classSet {
		classes = append(classes, k)
	}
	sort.Strings(classes)
	classes = append(classes, fmt.Sprintf("tokens:%d", c.Tokens))
	return "", exhausted || errorPath, classes
}

func propC12(t veriflib.TB, outer *testing.T, c c12Case) {
	var viol string
	var nontrivial bool
	var classes []string
	var oplog []string
	done := veriflib.WatchCase("C12", "C12/model", c)
	synctest.Test(outer, func(st *testing.T) {
		viol, nontrivial, classes = c12Run(c, &oplog)
	})
	done()
	if viol != "" {
		veriflib.Fail(t, "C12", "C12/model", c, oplog, "%s\nhistory: %s", viol, strings.Join(oplog, " ; "))
	}
	veriflib.Record("C12/model", veriflib.JSON(c), nontrivial, classes, func() any {
		return map[string]any{"tokens": c.Tokens, "history": strings.Join(oplog, " ; ")}
	})
}

func genC12(t *rapid.T) c12Case {
	c := c12Case{Tokens: rapid.IntRange(1, 5).Draw(t, "tokens")}
	kinds := []string{"insert", "insert", "insert", "insert", "read", "read", "read", "feedback", "feedback", "finish", "finish", "finish",
		"feedback-unknown", "finish-unknown", "finish-again", "batch", "batch", "freeze", "stop"}
	// ("race" - feedback concurrent with the finish of the same seed - is not generated here: when the feedback wins, the
	// finished seed occupies a slot of the input buffer that the next accepted seed needs, a state no caller of the reactor
	// produces and in which an insert legitimately waits; the accounting side of that race is checked by C12/race-stress)
	n := rapid.IntRange(1, 40).Draw(t, "nops")
	for i := 0; i < n; i++ {
		k := kinds[rapid.IntRange(0, len(kinds)-1).Draw(t, "kind")]
		if (k == "freeze" || k == "stop") && rapid.IntRange(0, 3).Draw(t, "rare") != 0 {
			k = "insert"
		}
		c.Ops = append(c.Ops, c12Op{Kind: k, N: rapid.IntRange(0, 7).Draw(t, "n"), M: rapid.IntRange(0, 3).Draw(t, "m")})
	}
	return c
}

func TestVerif_C12_Model(t *testing.T) {
	defer veriflib.Flush()
	verifcfg.Quiet()
	// a lock cycle in the reactor is invisible to the virtual clock (waiting for a mutex is not a durable block): a case
	// (normally well under a millisecond) that takes two minutes of wall-clock time is reported as stuck
	veriflib.WatchStart(2 * time.Minute)
	var rc c12Case
	if veriflib.ReplayCase("C12/model", &rc) {
		propC12(t, t, rc)
		return
	} else if veriflib.Replaying() {
		t.Skip()
	}
	rapid.Check(t, func(rt *rapid.T) {
		c := genC12(rt)
		veriflib.Guard("C12", "C12/model", c, func() { propC12(rt, t, c) })
	})
}

// Strict reproductions of the findings (run only while the finding is listed as open).
func TestVerifKF_C12_UnknownFeedbackStored(t *testing.T) {
	verifcfg.Quiet()
	c := c12Case{Tokens: 2, Ops: []c12Op{{Kind: "insert"}, {Kind: "feedback-unknown"}}}
	propC12(t, t, c)
}

func TestVerifKF_C12_FrozenAcceptsInsert(t *testing.T) {
	verifcfg.Quiet()
	c := c12Case{Tokens: 4, Ops: []c12Op{{Kind: "freeze"}}}
	for i := 0; i < 16; i++ {
		c.Ops = append(c.Ops, c12Op{Kind: "insert"})
	}
	propC12(t, t, c)
}

// Stress: many rounds of feedback racing with the finish of the same seed, accounting checked after every round.
// (The window between a presence check and a store is a few instructions wide: it needs volume, not variety.)
func TestVerif_C12_RaceStress(t *testing.T) {
	defer veriflib.Flush()
	if veriflib.Replaying() {
		var rc c12Case
		if !veriflib.ReplayCase("C12/race-stress", &rc) {
			t.Skip()
		}
	}
	verifcfg.Quiet()
	rounds := veriflib.N("C12_STRESS_ROUNDS", 30000, 300000)
	var viol string
	done := 0
	synctest.Test(t, func(st *testing.T) {
		out := make(chan *models.Item)
		if err := Start(2, out); err != nil {
			viol = err.Error()
			return
		}
		// (deferred calls run last-in first-out: the reactor is stopped before its output channel is closed - the run loop
		// may still be forwarding the last seed when the rounds end)
		defer close(out)
		defer Stop()
		r := globalReactor
		go func() {
			for range out {
			}
		}()
		for i := 0; i < rounds; i++ {
			it := c12NewSeed(fmt.Sprintf("r%d", i))
			if err := ReceiveInsert(it); err != nil {
				viol = fmt.Sprintf("round %d: insert: %v", i, err)
				return
			}
			res := make(chan error, 2)
			if i%2 == 1 {
				// two finishes of the same seed at once (a repeated finish is rejected without side effects: exactly one of
				// them succeeds, one token is given back). A second seed holds the other token meanwhile, so that a token
				// released in excess is visible and a call that wants one more than there are cannot park for ever.
				other := c12NewSeed(fmt.Sprintf("r%d-other", i))
				if err := ReceiveInsert(other); err != nil {
					viol = fmt.Sprintf("round %d: insert: %v", i, err)
					return
				}
				go func() { res <- MarkAsFinished(it) }()
				go func() { res <- MarkAsFinished(it) }()
				e1, e2 := <-res, <-res
				if (e1 == nil) == (e2 == nil) {
					viol = fmt.Sprintf("round %d: two concurrent finish(%s): results %v and %v, exactly one must succeed", i, it.GetID(), e1, e2)
					return
				}
				if n, tb := len(r.tokenPool), len(GetStateTable()); n != 1 || tb != 1 {
					viol = fmt.Sprintf("round %d: after two concurrent finish(%s) with %s still in flight: %d token(s) in use, state table %v", i, it.GetID(), other.GetID(), n, GetStateTable())
					return
				}
				if err := MarkAsFinished(other); err != nil {
					viol = fmt.Sprintf("round %d: finish(%s): %v", i, other.GetID(), err)
					return
				}
				done++
				continue
			}
			go func() { res <- ReceiveFeedback(it) }()
			go func() { res <- MarkAsFinished(it) }()
			<-res
			<-res
			if n, tb := len(r.tokenPool), len(GetStateTable()); n != 0 || tb != 0 {
				viol = fmt.Sprintf("round %d: after feedback(%s) raced with finish(%s): %d token(s) in use, state table %v", i, it.GetID(), it.GetID(), n, GetStateTable())
				return
			}
			done++
		}
	})
	if viol != "" {
		veriflib.Fail(t, "C12", "C12/race-stress", c12Case{Tokens: 2}, nil, "%s", viol)
	}
	veriflib.Record("C12/race-stress", fmt.Sprintf("rounds=%d shard=%d", done, veriflib.ShardIndex()), true, []string{fmt.Sprintf("rounds:%d", done)}, func() any { return map[string]any{"rounds": done} })
	veriflib.Record("C12/race-stress", fmt.Sprintf("rounds=%d shard=%d b", done, veriflib.ShardIndex()), true, nil, nil)
}

// Capacity: "the input buffer holds as many seeds as there are tokens, which is what makes a feedback (and the hand-over
// of an accepted insert) non-blocking" - for every token count, not just small ones. With nobody reading the output,
// exactly <tokens> inserts must be accepted without one of them blocking, the next one must wait for a token, and after
// some seeds were taken out, feeding all of them back must not block either.
func TestVerif_C12_Capacity(t *testing.T) {
	defer veriflib.Flush()
	if veriflib.Replaying() {
		var rc c12Case
		if !veriflib.ReplayCase("C12/capacity", &rc) {
			t.Skip()
		}
	}
	verifcfg.Quiet()
	sizes := []int{1, 2, 3, 64, 1000, 4096, 8191, 8192, 8193, 10000, 20000, 70000}
	sizes = append(sizes, 1+int(veriflib.Hash(fmt.Sprint("c12cap", veriflib.Seed(), veriflib.ShardIndex()))%100000))
	for _, tokens := range sizes {
		c := c12Case{Tokens: tokens}
		viol := ""
		veriflib.Bubble(t, "C12", "C12/capacity", c, func(st *testing.T) {
			out := make(chan *models.Item)
			if err := Start(tokens, out); err != nil {
				viol = err.Error()
				return
			}
			defer Stop()
			// (a blocked call may keep the bubble from ending: the verdict is written out before leaving it)
			defer func() {
				if viol != "" {
					veriflib.WriteFailure("C12", "C12/capacity", c, nil, viol)
				}
			}()
			items := make([]*models.Item, tokens)
			accepted := make(chan int, tokens+1)
			for i := range items {
				items[i] = c12NewSeed(fmt.Sprintf("cap%d", i))
			}
			go func() {
				for i, it := range items {
					if err := ReceiveInsert(it); err != nil {
						accepted <- -1 - i
						return
					}
					accepted <- i
				}
			}()
			synctest.Wait()
			if n := len(accepted); n != tokens {
				viol = fmt.Sprintf("%d tokens, nobody reading the output: only %d of the %d inserts returned, insert #%d is blocked although %d token(s) are free (%d seeds tracked)",
					tokens, n, tokens, n+1, tokens-len(globalReactor.tokenPool), len(GetStateTable()))
				return
			}
			extra := make(chan error, 1)
			go func() { extra <- ReceiveInsert(c12NewSeed("cap-extra")) }()
			synctest.Wait()
			select {
			case err := <-extra:
				viol = fmt.Sprintf("%d tokens all in use: one more insert returned %v instead of waiting for a token", tokens, err)
				return
			default:
			}
			// take up to 50 seeds out and feed every one of them back: none of the feedbacks may block
			take := min(tokens, 50)
			var got []*models.Item
			for i := 0; i < take; i++ {
				got = append(got, <-out)
			}
			fed := make(chan error, take)
			go func() {
				for _, it := range got {
					fed <- ReceiveFeedback(it)
				}
			}()
			synctest.Wait()
			if len(fed) != take {
				viol = fmt.Sprintf("%d tokens: %d seeds taken from the output, but only %d of their feedbacks returned: a feedback blocks", tokens, take, len(fed))
				return
			}
			for i := 0; i < take; i++ {
				if err := <-fed; err != nil {
					viol = fmt.Sprintf("%d tokens: feedback of a tracked seed returned %v", tokens, err)
					return
				}
			}
		})
		if viol != "" {
			veriflib.Fail(t, "C12", "C12/capacity", c, nil, "%s", viol)
		}
		veriflib.Record("C12/capacity", fmt.Sprintf("tokens=%d", tokens), tokens > 1, []string{fmt.Sprintf("tokens:10^%d", len(fmt.Sprint(tokens))-1)}, func() any { return c })
	}
}
