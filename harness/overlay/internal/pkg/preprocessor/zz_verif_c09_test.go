package preprocessor

// C09 — URL canonicalisation is deterministic, idempotent, yields only http(s) URLs; relative references
// resolve as the URL standard prescribes; well-formed query parameters keep order and multiplicity.

import (
	"fmt"
	"net/url"
	"strings"
	"testing"

	"github.com/internetarchive/Zeno/internal/pkg/verifgen"
	"github.com/internetarchive/Zeno/internal/pkg/veriflib"
	"github.com/internetarchive/Zeno/internal/pkg/verifref"
	"github.com/internetarchive/Zeno/pkg/models"
	"pgregory.net/rapid"
)

// c09Case is the plain-data form of one generated input.
type c09Case struct {
	Text   string `json:"text"`
	Parent string `json:"parent"` // "" = no parent; otherwise the text the parent is built from
}

// normOnce evaluates the canonicalisation once on fresh objects: returns canonical string or error text.
func normOnce(text, parent string) (canon string, errText string, parentRejected bool) {
	var p *models.URL
	if parent != "" {
		p = &models.URL{Raw: parent}
		if err := NormalizeURL(p, nil); err != nil {
			return "", "", true
		}
	}
	u := &models.URL{Raw: text}
	if err := NormalizeURL(u, p); err != nil {
		return "", "ERR:" + err.Error(), false
	}
	return u.String(), "", false
}

// normOncePreparsed does what the sources do with a seed: the URL object is Parse()d (queue rows, --input-seeds) before
// the preprocessor normalises it. Falls back to normOnce when the text does not parse (such rows never get that far).
func normOncePreparsed(text string) (canon string, errText string) {
	u := &models.URL{Raw: text}
	if err := u.Parse(); err != nil {
		c, e, _ := normOnce(text, "")
		return c, e
	}
	if err := NormalizeURL(u, nil); err != nil {
		return "", "ERR:" + err.Error()
	}
	return u.String(), ""
}

func genC09Hostile(t *rapid.T) c09Case {
	c := c09Case{Text: verifgen.HostileURL(t)}
	switch rapid.IntRange(0, 3).Draw(t, "parentkind") {
	case 0:
	case 1, 2:
		c.Parent = verifgen.WFAbsGen(t, "parent").Text()
	case 3:
		c.Parent = verifgen.HostileURL(t)
	}
	return c
}

func c09Nontrivial(c c09Case) bool {
	return strings.Count(c.Text, "&") >= 1 || strings.Contains(c.Text, "..") || strings.Contains(c.Text, "./") ||
		strings.ContainsAny(c.Text, "üé日例пＥ") || strings.Contains(c.Text, "xn--")
}

func c09Classes(c c09Case, accepted bool) []string {
	cl := []string{verifgen.ClassOfURL(c.Text)}
	if c.Parent != "" {
		cl = append(cl, "parent:yes")
	} else {
		cl = append(cl, "parent:no")
	}
	if accepted {
		cl = append(cl, "outcome:accepted")
	} else {
		cl = append(cl, "outcome:rejected")
	}
	return cl
}

// ---- facet (a) determinism ---------------------------------------------------------------------

func propC09Determinism(t veriflib.TB, c c09Case) {
	const k = 8
	first, firstErr, rej := normOnce(c.Text, c.Parent)
	if rej {
		veriflib.Record("C09/determinism", veriflib.JSON(c), false, []string{"parent:rejected"}, nil)
		return
	}
	for i := 1; i < k; i++ {
		got, gotErr, _ := normOnce(c.Text, c.Parent)
		if c.Parent == "" && i%2 == 1 {
			// a seed reaches the preprocessor already parsed once by its source: same text, same canonical form
			got, gotErr = normOncePreparsed(c.Text)
		}
		if got != first || (gotErr == "") != (firstErr == "") {
			veriflib.Fail(t, "C09", "C09/determinism", c, nil,
				"same input normalised differently: evaluation 0 gave %q %s, evaluation %d gave %q %s", first, firstErr, i, got, gotErr)
		}
	}
	veriflib.Record("C09/determinism", veriflib.JSON(c), c09Nontrivial(c), c09Classes(c, firstErr == ""), func() any { return map[string]any{"case": c, "canonical": first, "err": firstErr} })
}

func TestVerif_C09_Determinism(t *testing.T) {
	defer veriflib.Flush()
	var rc c09Case
	if veriflib.ReplayCase("C09/determinism", &rc) {
		propC09Determinism(t, rc)
		return
	} else if veriflib.Replaying() {
		t.Skip()
	}
	rapid.Check(t, func(t *rapid.T) {
		var c c09Case
		if rapid.IntRange(0, 2).Draw(t, "gen") == 0 {
			// well-formed multi-parameter URLs: the class where order bugs live
			c = c09Case{Text: verifgen.WFAbsGen(t, "u").Text()}
		} else {
			c = genC09Hostile(t)
		}
		veriflib.Guard("C09", "C09/determinism", c, func() { propC09Determinism(t, c) })
	})
}

// ---- facet (b) idempotence ---------------------------------------------------------------------

func propC09Idempotence(t veriflib.TB, c c09Case) {
	s, errText, rej := normOnce(c.Text, c.Parent)
	if rej || errText != "" {
		veriflib.Record("C09/idempotence", veriflib.JSON(c), false, []string{"outcome:rejected"}, nil)
		return
	}
	if strings.Trim(s, `"'`) != s {
		// the statement's own exception: surrounding quote characters are deliberately stripped
		veriflib.Excluded("C09/idempotence", "canonical string ends in a quote character (deliberate stripping)")
		return
	}
	s2, err2, _ := normOnce(s, "")
	if err2 != "" {
		veriflib.Fail(t, "C09", "C09/idempotence", c, nil, "canonical string %q (from %q) is rejected when normalised again: %s", s, c.Text, err2)
	}
	if s2 != s {
		veriflib.Fail(t, "C09", "C09/idempotence", c, nil, "normalising the canonical string again changed it: %q -> %q (input %q parent %q)", s, s2, c.Text, c.Parent)
	}
	// and relative to any parent the canonical (absolute) string must still be itself
	if c.Parent != "" {
		s3, err3, rej3 := normOnce(s, c.Parent)
		if !rej3 && (err3 != "" || s3 != s) {
			veriflib.Fail(t, "C09", "C09/idempotence", c, nil, "canonical string %q changes when re-normalised under parent %q: %q %s", s, c.Parent, s3, err3)
		}
	}
	veriflib.Record("C09/idempotence", veriflib.JSON(c), c09Nontrivial(c), c09Classes(c, true), func() any { return map[string]any{"case": c, "canonical": s} })
}

func TestVerif_C09_Idempotence(t *testing.T) {
	defer veriflib.Flush()
	var rc c09Case
	if veriflib.ReplayCase("C09/idempotence", &rc) {
		propC09Idempotence(t, rc)
		return
	} else if veriflib.Replaying() {
		t.Skip()
	}
	rapid.Check(t, func(t *rapid.T) {
		c := genC09Hostile(t)
		veriflib.Guard("C09", "C09/idempotence", c, func() { propC09Idempotence(t, c) })
	})
}

// ---- facet (c) shape ---------------------------------------------------------------------------

func propC09Shape(t veriflib.TB, c c09Case) {
	s, errText, rej := normOnce(c.Text, c.Parent)
	if rej || errText != "" {
		veriflib.Record("C09/shape", veriflib.JSON(c), false, []string{"outcome:rejected", verifgen.ClassOfURL(c.Text)}, nil)
		return
	}
	bad := func(why string) {
		veriflib.Fail(t, "C09", "C09/shape", c, nil, "accepted result %q (from %q, parent %q) %s", s, c.Text, c.Parent, why)
	}
	parts, ok := verifref.SplitURL(s)
	if !ok {
		bad("is not an absolute hierarchical URL")
	}
	if parts.Scheme != "http" && parts.Scheme != "https" {
		bad("has scheme " + parts.Scheme)
	}
	if parts.HasFrag || strings.Contains(s, "#") {
		bad("still has a fragment")
	}
	host := verifref.Hostname(parts.Authority)
	if host == "localhost" || host == "127.0.0.1" {
		bad("has a loopback host")
	}
	if !strings.Contains(host, ".") {
		bad("has a host without a dot: " + host)
	}
	// independent parser must agree on scheme/host
	pu, err := url.Parse(s)
	if err != nil {
		bad("does not parse: " + err.Error())
	}
	if pu.Scheme != parts.Scheme || !pu.IsAbs() || pu.Hostname() == "" {
		bad(fmt.Sprintf("parses inconsistently (scheme %q host %q)", pu.Scheme, pu.Hostname()))
	}
	if h := strings.ToLower(pu.Hostname()); h == "localhost" || h == "127.0.0.1" || !strings.Contains(h, ".") {
		bad("has loopback or dot-less hostname " + h)
	}
	veriflib.Record("C09/shape", veriflib.JSON(c), c09Nontrivial(c), c09Classes(c, true), func() any { return map[string]any{"case": c, "canonical": s} })
}

func TestVerif_C09_Shape(t *testing.T) {
	defer veriflib.Flush()
	var rc c09Case
	if veriflib.ReplayCase("C09/shape", &rc) {
		propC09Shape(t, rc)
		return
	} else if veriflib.Replaying() {
		t.Skip()
	}
	rapid.Check(t, func(t *rapid.T) {
		c := genC09Hostile(t)
		veriflib.Guard("C09", "C09/shape", c, func() { propC09Shape(t, c) })
	})
}

// ---- facet (d) resolution + (e) query order on the well-formed sub-grammar ------------------------

type c09WF struct {
	Parent verifgen.WFAbs `json:"parent"`
	Ref    verifgen.WFRef `json:"ref"`
	NoPar  bool           `json:"nopar"` // absolute reference normalised without a parent
}

func expectedResolution(c c09WF) (verifref.URLParts, []verifref.Pair) {
	base, _ := verifref.SplitURL(c.Parent.Text())
	r := c.Ref
	var t verifref.URLParts
	switch r.Kind {
	case "abs":
		a, _ := verifref.SplitURL(r.Abs.Text())
		t = verifref.Resolve(base, a.Scheme, a.Authority, true, a.Path, a.Query, a.HasQuery)
	case "scheme-rel":
		a, _ := verifref.SplitURL(r.Abs.Text())
		t = verifref.Resolve(base, "", a.Authority, true, a.Path, a.Query, a.HasQuery)
	case "path-abs", "path-rel":
		p := strings.Join(r.Segs, "/")
		if r.Slash {
			p += "/"
		}
		if r.Kind == "path-abs" {
			p = "/" + p
		}
		t = verifref.Resolve(base, "", "", false, p, verifgen.QueryText(r.Query), r.HasQ)
	case "query-only":
		t = verifref.Resolve(base, "", "", false, "", verifgen.QueryText(r.Query), true)
	default:
		t = verifref.Resolve(base, "", "", false, "", "", false)
	}
	pairs, _ := verifref.DecodeQuery(t.Query)
	return t, pairs
}

// Unicode hosts and their IDNA ToASCII forms (RFC 3492 sample values, not computed by the code under test).
var c09IDNHosts = []string{"bücher.example", "münchen.example", "www.bücher.example", "例え.jp"}
var c09Punycode = map[string]string{"bücher.example": "xn--bcher-kva.example", "münchen.example": "xn--mnchen-3ya.example", "www.bücher.example": "www.xn--bcher-kva.example", "例え.jp": "xn--r8jz45g.jp"}

func c09ASCIIAuthority(a string) string {
	host, port := a, ""
	if i := strings.LastIndexByte(a, ':'); i >= 0 {
		host, port = a[:i], a[i:]
	}
	if p, ok := c09Punycode[host]; ok {
		return p + port
	}
	return a
}

func propC09Resolution(t veriflib.TB, c c09WF) {
	text := c.Ref.Text()
	parent := c.Parent.Text()
	if c.NoPar {
		parent = ""
	}
	got, errText, rej := normOnce(text, parent)
	if rej {
		veriflib.Fail(t, "C09", "C09/resolution", c, nil, "well-formed parent %q rejected", parent)
	}
	if errText != "" {
		veriflib.Fail(t, "C09", "C09/resolution", c, nil, "well-formed reference %q under parent %q rejected: %s", text, parent, errText)
	}
	want, wantPairs := expectedResolution(c)
	want.Authority = c09ASCIIAuthority(want.Authority)
	gp, ok := verifref.SplitURL(got)
	if !ok {
		veriflib.Fail(t, "C09", "C09/resolution", c, nil, "result %q is not absolute", got)
	}
	if gp.Scheme != want.Scheme || gp.Authority != want.Authority || gp.Path != want.Path {
		veriflib.Fail(t, "C09", "C09/resolution", c, nil, "reference %q against %q resolved to %q, the URL standard gives %s://%s%s",
			text, parent, got, want.Scheme, want.Authority, want.Path)
	}
	gotPairs, okq := verifref.DecodeQuery(gp.Query)
	if !okq || !verifref.PairsEqual(gotPairs, wantPairs) {
		veriflib.Fail(t, "C09", "C09/query-order", c, nil, "reference %q against %q gave %q: query parameters %v, expected (same order and multiplicity) %v",
			text, parent, got, gotPairs, wantPairs)
	}
	nt := len(wantPairs) >= 2 || strings.Contains(text, "..") || strings.Contains(text, "./")
	cl := []string{"ref:" + c.Ref.Kind, fmt.Sprintf("qparams:%d", min(len(wantPairs), 4))}
	if want.Authority != gp.Authority || strings.Contains(want.Authority, "xn--") {
		cl = append(cl, "host:idn")
	}
	if c.NoPar {
		cl = append(cl, "parent:no")
	}
	veriflib.Record("C09/resolution", veriflib.JSON(c), nt, cl, func() any {
		return map[string]any{"ref": text, "parent": parent, "canonical": got}
	})
}

func TestVerif_C09_Resolution(t *testing.T) {
	defer veriflib.Flush()
	var rc c09WF
	if veriflib.ReplayCase("C09/resolution", &rc) || veriflib.ReplayCase("C09/query-order", &rc) {
		propC09Resolution(t, rc)
		return
	} else if veriflib.Replaying() {
		t.Skip()
	}
	rapid.Check(t, func(t *rapid.T) {
		c := c09WF{Parent: verifgen.WFAbsGen(t, "parent"), Ref: verifgen.WFRefGen(t, "ref")}
		if c.Ref.Kind == "abs" && rapid.IntRange(0, 1).Draw(t, "nopar") == 1 {
			c.NoPar = true
		}
		// internationalised hosts (a handful, so that the same host comes back with other ports, paths and parents within
		// one process): the canonical form carries the IDNA (punycode) spelling
		if rapid.IntRange(0, 4).Draw(t, "idnparent") == 0 {
			c.Parent.Host = c09IDNHosts[rapid.IntRange(0, len(c09IDNHosts)-1).Draw(t, "idnparenthost")]
		}
		if c.Ref.Abs != nil && rapid.IntRange(0, 3).Draw(t, "idnref") == 0 {
			c.Ref.Abs.Host = c09IDNHosts[rapid.IntRange(0, len(c09IDNHosts)-1).Draw(t, "idnrefhost")]
		}
		veriflib.Guard("C09", "C09/resolution", c, func() { propC09Resolution(t, c) })
	})
}

// ---- facet (f) one parent object, many children -----------------------------------------------------------
//
// In the pipeline all children of a page are normalised against the *same* parent object, one after the other. The
// canonical form is a function of the reference text and the parent's URL: it must not depend on which siblings were
// normalised before, and normalising a child must leave the parent as it was.

type c09Shared struct {
	Parent verifgen.WFAbs   `json:"parent"`
	Refs   []verifgen.WFRef `json:"refs"`
}

func propC09SharedParent(t veriflib.TB, c c09Shared) {
	const facet = "C09/shared-parent"
	parentText := c.Parent.Text()
	want := make([]string, len(c.Refs))
	for i, r := range c.Refs {
		got, errText, rej := normOnce(r.Text(), parentText)
		if rej {
			veriflib.Fail(t, "C09", facet, c, nil, "well-formed parent %q rejected", parentText)
		}
		want[i] = got + errText
	}
	p := &models.URL{Raw: parentText}
	if err := NormalizeURL(p, nil); err != nil {
		veriflib.Fail(t, "C09", facet, c, nil, "well-formed parent %q rejected: %v", parentText, err)
	}
	before := p.String()
	kinds := map[string]bool{}
	for i, r := range c.Refs {
		u := &models.URL{Raw: r.Text()}
		got := ""
		if err := NormalizeURL(u, p); err != nil {
			got = "ERR:" + err.Error()
		} else {
			got = u.String()
		}
		if got != want[i] {
			veriflib.Fail(t, "C09", facet, c, nil,
				"reference %d %q against parent %q gives %q when the parent object is fresh, but %q after %d sibling(s) were normalised against the same parent object",
				i, r.Text(), parentText, want[i], got, i)
		}
		if after := p.String(); after != before {
			veriflib.Fail(t, "C09", facet, c, nil, "normalising the child %q changed the canonical form of its parent from %q to %q", r.Text(), before, after)
		}
		kinds[r.Kind] = true
	}
	cl := []string{fmt.Sprintf("refs:%d", len(c.Refs)), fmt.Sprintf("kinds:%d", len(kinds))}
	for k := range kinds {
		cl = append(cl, "ref:"+k)
	}
	veriflib.Record(facet, veriflib.JSON(c), len(kinds) >= 2 && len(c.Parent.Segs) >= 1, cl, func() any {
		return map[string]any{"parent": parentText, "refs": func() []string {
			var out []string
			for _, r := range c.Refs {
				out = append(out, r.Text())
			}
			return out
		}(), "canonical": want}
	})
}

func TestVerif_C09_SharedParent(t *testing.T) {
	defer veriflib.Flush()
	var rc c09Shared
	if veriflib.ReplayCase("C09/shared-parent", &rc) {
		propC09SharedParent(t, rc)
		return
	} else if veriflib.Replaying() {
		t.Skip()
	}
	rapid.Check(t, func(t *rapid.T) {
		c := c09Shared{Parent: verifgen.WFAbsGen(t, "parent")}
		n := rapid.IntRange(2, 6).Draw(t, "nrefs")
		for i := 0; i < n; i++ {
			c.Refs = append(c.Refs, verifgen.WFRefGen(t, fmt.Sprintf("ref%d", i)))
		}
		veriflib.Guard("C09", "C09/shared-parent", c, func() { propC09SharedParent(t, c) })
	})
}

// ---- oracle self-test: the RFC 3986 resolver agrees with net/url on the well-formed grammar -------

func TestVerif_C09_OracleSelfTest(t *testing.T) {
	if veriflib.Replaying() {
		t.Skip()
	}
	rapid.Check(t, func(t *rapid.T) {
		c := c09WF{Parent: verifgen.WFAbsGen(t, "parent"), Ref: verifgen.WFRefGen(t, "ref")}
		want, _ := expectedResolution(c)
		b, err := url.Parse(c.Parent.Text())
		if err != nil {
			t.Fatalf("parent: %v", err)
		}
		r, err := url.Parse(c.Ref.Text())
		if err != nil {
			t.Fatalf("ref: %v", err)
		}
		res := b.ResolveReference(r)
		if res.Scheme != want.Scheme || res.Host != want.Authority || res.EscapedPath() != want.Path || res.RawQuery != want.Query {
			t.Fatalf("oracle disagreement for %q + %q: net/url %q, oracle %+v", c.Parent.Text(), c.Ref.Text(), res.String(), want)
		}
	})
}
