package preprocessor

// C08 at the level of preprocess(): the real normalise / filter / dedupe / seencheck / request-building sequence with a
// seen-store switched on, driven pass by pass the way the pipeline drives it (seed alone; then, after the "archiver",
// its redirect target or assets; then theirs).
//
//	C08/preprocess-local  UseSeencheck: real LevelDB store. Reference store keyed by the decoded components of the URL.
//	C08/preprocess-hq     UseHQ: real gocrawlhq client over an in-memory fake crawl HQ; oracle relative to the fake's log.
//
// Raw texts of the working-depth nodes are non-canonical spellings (query encoding variants, upper-case host, default
// port, fragment, white space, quotes, dot segment) of a small URL pool, normalised by preprocess() itself.

import (
	"fmt"
	"os"
	"path/filepath"
	"sync/atomic"
	"testing"

	"github.com/internetarchive/Zeno/internal/pkg/preprocessor/seencheck"
	"github.com/internetarchive/Zeno/internal/pkg/source/hq"
	"github.com/internetarchive/Zeno/internal/pkg/verifcfg"
	"github.com/internetarchive/Zeno/internal/pkg/verifgen"
	"github.com/internetarchive/Zeno/internal/pkg/veriflib"
	"github.com/internetarchive/Zeno/internal/pkg/verifseen"
	"github.com/internetarchive/Zeno/pkg/models"
	"pgregory.net/rapid"
)

const c08KeyHQCompare = "C08-hq-seencheck-compares-canonical-with-raw"

type c08PreCase struct {
	Pool       []verifgen.SeenLogical `json:"pool"`
	Ops        []verifseen.Op         `json:"ops"`
	HQSeen     []int                  `json:"hq_has_seen,omitempty"` // HQ facet: pool URLs crawl HQ has seen before
	EmptyAs204 bool                   `json:"empty_as_204,omitempty"`
	Order      int                    `json:"answer_order,omitempty"` // HQ facet: 0 as asked, 1 reversed, 2 sorted
	FailOp     int                    `json:"hq_fails_during_op,omitempty"` // HQ facet: 1-based index of the op during which HQ answers 500 (0 = never)
}

func genC08Pre(t *rapid.T, withHQ bool) c08PreCase {
	// the first nSmall URLs are what pages reference (small: collisions are frequent); the rest are further seeds
	// (mostly near-misses of the former, so often the same origin), used by two ops out of three so that most seeds
	// are new to the store and their trees get beyond the first pass
	nSmall := rapid.IntRange(1, 4).Draw(t, "npool")
	nOps := rapid.IntRange(1, 6).Draw(t, "nops")
	c := c08PreCase{Pool: verifgen.SeenPoolGen(t, "u", nSmall+nOps)}
	deco := func(us []verifseen.Use, label string) {
		for i := range us {
			if rapid.IntRange(0, 1).Draw(t, fmt.Sprintf("%s%d.decorated", label, i)) == 1 {
				// 8 / 9 (relative to the parent) twice as likely: the forms whose Raw keeps the document's spelling
				us[i].Deco = []int{1, 2, 3, 4, 5, 6, 7, 8, 8, 9, 9}[rapid.IntRange(0, 10).Draw(t, fmt.Sprintf("%s%d.deco", label, i))]
			}
		}
	}
	for i := 0; i < nOps; i++ {
		op := verifseen.GenOp(t, fmt.Sprintf("op%d", i), c.Pool[:nSmall])
		if rapid.IntRange(0, 2).Draw(t, fmt.Sprintf("op%d.ownseed", i)) > 0 {
			l := nSmall + i
			u := verifseen.Use{L: l, Query: verifgen.SeenSpell(t, fmt.Sprintf("op%d.seed", i), c.Pool[l])}
			if op.Kind == "seed" {
				op.Leaves[0] = u
			} else {
				op.Anc[0] = u
			}
		}
		deco(op.Anc, fmt.Sprintf("op%d.anc", i))
		deco(op.Leaves, fmt.Sprintf("op%d.leaf", i))
		c.Ops = append(c.Ops, op)
	}
	if withHQ {
		for i := range c.Pool[:nSmall] {
			if rapid.IntRange(0, 2).Draw(t, fmt.Sprintf("hqseen%d", i)) == 0 {
				c.HQSeen = append(c.HQSeen, i)
			}
		}
		c.EmptyAs204 = rapid.Bool().Draw(t, "204")
		c.Order = rapid.IntRange(0, 2).Draw(t, "order")
		if rapid.IntRange(0, 5).Draw(t, "fail") == 0 {
			c.FailOp = rapid.IntRange(1, nOps).Draw(t, "failop")
		}
	}
	return c
}

func c08PreConfig(useHQ bool) {
	cfg := verifcfg.Quiet()
	cfg.UseHQ = useHQ
	cfg.UseSeencheck = !useHQ
	cfg.DisableSeencheck = useHQ
	cfg.IncludeHosts, cfg.IncludeString, cfg.ExcludeHosts, cfg.ExcludeString = nil, nil, nil, nil
	cfg.ExclusionRegexes = nil
	cfg.UserAgent = "verif-c08"
}

var c08PreNamespace atomic.Int64

type c08PreEvent struct {
	Op       int    `json:"op"`
	Pass     int    `json:"pass"`
	Raw      string `json:"raw"`
	Type     string `json:"type"`
	InTree   bool   `json:"in_tree"`
	Status   string `json:"status"`
	Request  string `json:"request,omitempty"`
	Store    string `json:"store_before,omitempty"`
	Asked    bool   `json:"hq_asked,omitempty"`
	Returned bool   `json:"hq_returned_not_seen,omitempty"`
}

// c08PrePass is one level of an op: the nodes to attach under parent (nil: the seed itself) and how.
type c08PrePass struct {
	uses      []verifseen.Use
	redirect  bool
	perParent bool // use i hangs under node i of the previous pass (if that one was fetched) instead of under the first
}

func c08PrePasses(op verifseen.Op) []c08PrePass {
	switch op.Kind {
	case "seed":
		return []c08PrePass{{uses: op.Leaves}}
	case "redirect":
		return []c08PrePass{{uses: op.Anc[:1]}, {uses: op.Leaves, redirect: true}}
	case "assets":
		return []c08PrePass{{uses: op.Anc[:1]}, {uses: op.Leaves}}
	case "asset-redirect":
		return []c08PrePass{{uses: op.Anc[:1]}, {uses: op.Anc[1:2]}, {uses: op.Leaves, redirect: true}}
	case "asset-assets":
		return []c08PrePass{{uses: op.Anc[:1]}, {uses: op.Anc[1:2]}, {uses: op.Leaves}}
	case "assets-redirects":
		return []c08PrePass{{uses: op.Anc[:1]}, {uses: op.Anc[1:]}, {uses: op.Leaves, redirect: true, perParent: true}}
	}
	panic("harness: unknown op kind " + op.Kind)
}

// c08PreRun drives the ops through preprocess() pass by pass and calls judge for every pass with the nodes attached in
// that pass (in tree order), after preprocess() returned.
func c08PreRun(c c08PreCase, ns string, begin func(oi int), judge func(oi, pass int, op verifseen.Op, seed *models.Item, nodes []verifseen.Node)) {
	for oi, op := range c.Ops {
		if begin != nil {
			begin(oi)
		}
		var seed, parent *models.Item
		var prev []verifseen.Node
		id := 0
		passes := c08PrePasses(op)
		for pi, ps := range passes {
			var nodes []verifseen.Node
			for ui, u := range ps.uses {
				par := parent
				if ps.perParent {
					if ui >= len(prev) || prev[ui].Item.GetStatus() != models.ItemArchived {
						continue // that asset was not fetched: nothing redirects
					}
					par = prev[ui].Item
				}
				id++
				it := verifseen.NewItem(c.Pool, u, ns, fmt.Sprintf("%s-o%d-n%d", ns, oi, id), false, par, ps.redirect)
				typ := "seed"
				if par == nil {
					seed = it
				} else {
					// the archiver left the parent Archived; postprocessItem attaches the child
					from := models.ItemGotChildren
					if ps.redirect {
						from = models.ItemGotRedirected
					} else {
						typ = "asset"
					}
					if err := par.AddChild(it, from); err != nil {
						panic("harness: AddChild: " + err.Error())
					}
				}
				nodes = append(nodes, verifseen.Node{Item: it, Key: verifseen.KeyOf(c.Pool, u, ns), Type: typ, Text: it.GetURL().Raw, Op: oi, NPar: len(c.Pool[u.L].Pairs), L: u.L})
			}
			if len(nodes) == 0 {
				break
			}
			if err := seed.CheckConsistency(); err != nil {
				panic("harness: inconsistent tree: " + err.Error())
			}
			verifPreprocess("0", seed)
			judge(oi, pi, op, seed, nodes)
			fetched := func(n verifseen.Node) bool {
				return n.Item.GetStatus() == models.ItemPreProcessed && n.Item.GetURL().GetRequest() != nil
			}
			if pi+1 < len(passes) && passes[pi+1].perParent {
				// "archiver": every node with a request is fetched; each of them answers with a redirect (next pass)
				for _, n := range nodes {
					if fetched(n) {
						n.Item.SetStatus(models.ItemArchived)
					}
				}
				prev = nodes
				continue
			}
			// the next level hangs under the first node of this pass, if it was fetched
			next := nodes[0]
			if !fetched(next) {
				break
			}
			for _, n := range nodes { // "archiver": every node with a request is fetched
				if n.Item.GetStatus() == models.ItemPreProcessed {
					n.Item.SetStatus(models.ItemArchived)
				}
			}
			for _, n := range nodes[1:] { // "postprocessor": the others have nothing below them
				if n.Item.GetStatus() == models.ItemArchived {
					n.Item.SetStatus(models.ItemCompleted)
				}
			}
			parent, prev = next.Item, nodes
		}
	}
}

func c08InTree(seed *models.Item) map[*models.Item]bool {
	m := map[*models.Item]bool{}
	seed.Traverse(func(n *models.Item) { m[n] = true })
	return m
}

// ---- facet C08/preprocess-local ------------------------------------------------------------------------------

func propC08PreLocal(t veriflib.TB, c c08PreCase) {
	const facet = "C08/preprocess-local"
	c08PreConfig(false)
	ns := fmt.Sprintf("p%d", c08PreNamespace.Add(1))
	ref := map[string]string{}
	var hist []c08PreEvent
	var classes []string
	skipped, fetched, promo := 0, 0, 0
	c08PreRun(c, ns, nil, func(oi, pass int, op verifseen.Op, seed *models.Item, nodes []verifseen.Node) {
		inTree := c08InTree(seed)
		if pass == 0 {
			classes = append(classes, "op:"+op.Kind)
		}
		fetchedInTree := map[string]string{} // identity -> raw text, non-seed nodes of this tree that carry a request
		seed.Traverse(func(n *models.Item) {
			if n != seed && n.GetURL().GetRequest() != nil {
				k := verifseen.IdentityOf(n.GetURL().GetRequest().URL.String())
				if prev, dup := fetchedInTree[k]; dup {
					veriflib.Fail(t, "C08", facet, c, hist, "op %d pass %d: two different non-seed nodes of one tree carry a request for the same URL: %s and %s", oi, pass, prev, n.GetURL().Raw)
				}
				fetchedInTree[k] = n.GetURL().Raw
			}
		})
		for _, n := range nodes {
			it := n.Item
			prev, known := ref[n.Key]
			ev := c08PreEvent{Op: oi, Pass: pass, Raw: n.Text, Type: n.Type, InTree: inTree[it], Status: it.GetStatus().String(), Store: prev}
			req := it.GetURL().GetRequest()
			if req != nil {
				ev.Request = req.URL.String()
			}
			hist = append(hist, ev)
			if !inTree[it] {
				// removed before the seencheck (duplicate inside the tree, or an asset that is a bare origin): neither
				// fetched nor checked
				if req != nil {
					veriflib.Fail(t, "C08", facet, c, hist, "op %d pass %d: %s was removed from the tree but carries a request", oi, pass, n.Text)
				}
				classes = append(classes, "outcome:removed-before-check")
				continue
			}
			mustSkip := known && (prev == "seed" || n.Type == "asset")
			status := it.GetStatus()
			if it == seed && status == models.ItemCompleted && req == nil {
				// a seed that was skipped as seen is completed on the spot by preprocess() ("no more work to do after seencheck")
				status = models.ItemSeen
			}
			switch status {
			case models.ItemSeen:
				if !known {
					veriflib.Fail(t, "C08", facet, c, hist, "op %d pass %d: %s (checked as %s) was skipped as seen, but no URL with these components was recorded before in this job", oi, pass, n.Text, n.Type)
				}
				if req != nil {
					veriflib.Fail(t, "C08", facet, c, hist, "op %d pass %d: %s was skipped as seen but carries a request for %s", oi, pass, n.Text, req.URL.String())
				}
				if mustSkip {
					skipped++
					classes = append(classes, "outcome:skipped-"+n.Type+"-after-"+prev)
				} else {
					classes = append(classes, "outcome:promotion-skipped")
				}
			case models.ItemPreProcessed:
				if req == nil {
					veriflib.Fail(t, "C08", facet, c, hist, "op %d pass %d: %s is PreProcessed without a request", oi, pass, n.Text)
				}
				if mustSkip {
					veriflib.Fail(t, "C08", facet, c, hist,
						"op %d pass %d: %s (checked as %s) leaves the preprocessor with a request for %s although the same URL was recorded as %s earlier in this job: a seen URL would be fetched again",
						oi, pass, n.Text, n.Type, req.URL.String(), prev)
				}
				if want := verifseen.IdentityOf(c.Pool[n.L].Text(ns, verifgen.SeenCanonicalSpelling(c.Pool[n.L]))); verifseen.IdentityOf(req.URL.String()) != want {
					veriflib.Fail(t, "C08", facet, c, hist, "op %d pass %d: the request built for %s is for another URL: %s", oi, pass, n.Text, req.URL.String())
				}
				if known {
					promo++
					classes = append(classes, "outcome:promotion-refetched")
					ref[n.Key] = "seed"
				} else {
					fetched++
					classes = append(classes, "outcome:new")
					ref[n.Key] = n.Type
				}
			default:
				veriflib.Fail(t, "C08", facet, c, hist, "op %d pass %d: well-formed %s left the preprocessor with status %s", oi, pass, n.Text, it.GetStatus())
			}
		}
	})
	veriflib.Record(facet, veriflib.JSON(c), skipped >= 1 && (promo >= 1 || fetched >= 2), classes, func() any {
		return map[string]any{"case": c, "history": hist}
	})
}

func c08PreOpenStore(t *testing.T) func() {
	dir := os.Getenv("VERIF_SCRATCH")
	if dir == "" {
		dir = t.TempDir()
	}
	job := filepath.Join(dir, fmt.Sprintf("c08-pre-%d", os.Getpid()))
	if err := os.MkdirAll(job, 0o755); err != nil {
		t.Fatalf("harness: %v", err)
	}
	if err := seencheck.Start(job); err != nil {
		t.Fatalf("harness: cannot open the seencheck store: %v", err)
	}
	return func() {
		seencheck.Close()
		seencheck.VerifReset()
		os.RemoveAll(job)
	}
}

func TestVerif_C08_PreprocessLocal(t *testing.T) {
	defer veriflib.Flush()
	defer c08PreOpenStore(t)()
	var rc c08PreCase
	if veriflib.ReplayCase("C08/preprocess-local", &rc) {
		propC08PreLocal(t, rc)
		return
	} else if veriflib.Replaying() {
		t.Skip()
	}
	rapid.Check(t, func(t *rapid.T) {
		c := genC08Pre(t, false)
		veriflib.Guard("C08", "C08/preprocess-local", c, func() { propC08PreLocal(t, c) })
	})
}

// ---- facet C08/preprocess-hq -----------------------------------------------------------------------------------

func propC08PreHQ(t veriflib.TB, c c08PreCase) {
	const facet = "C08/preprocess-hq"
	c08PreConfig(true)
	ns := fmt.Sprintf("q%d", c08PreNamespace.Add(1))
	fake := &verifseen.FakeHQ{Project: "verif", Seen: map[string]bool{}, EmptyAs204: c.EmptyAs204, Order: c.Order}
	for _, i := range c.HQSeen {
		l := c.Pool[i]
		fake.Seen[verifseen.IdentityOf(l.Text(ns, verifgen.SeenCanonicalSpelling(l)))] = true
	}
	defer hq.VerifC08SetClient(fake.Client())()
	defer c08PreConfig(false)

	tolerant := veriflib.FindingOpen(c08KeyHQCompare)
	var hist []c08PreEvent
	var classes []string
	skipped, kept := 0, 0
	nExch := 0
	begin := func(oi int) {
		fake.FailStatus = 0
		if oi+1 == c.FailOp {
			fake.FailStatus = 500
		}
	}
	c08PreRun(c, ns, begin, func(oi, pass int, op verifseen.Op, seed *models.Item, nodes []verifseen.Node) {
		inTree := c08InTree(seed)
		exch := fake.Exchanges()[nExch:]
		nExch += len(exch)
		if pass == 0 {
			classes = append(classes, "op:"+op.Kind)
		}
		if len(exch) > 1 {
			veriflib.Fail(t, "C08", facet, c, hist, "op %d pass %d: %d seencheck requests for one pass", oi, pass, len(exch))
		}
		asked, returned := map[string]bool{}, map[string]bool{}
		for _, ex := range exch {
			for _, e := range ex.Asked {
				asked[verifseen.IdentityOf(e.Value)] = true
				if ex.Status >= 300 {
					// crawl HQ did not answer: it reported nothing as seen
					returned[verifseen.IdentityOf(e.Value)] = true
					classes = append(classes, "hq-error")
				}
			}
			for _, v := range ex.Answered {
				returned[verifseen.IdentityOf(v)] = true
			}
		}
		for _, n := range nodes {
			it := n.Item
			ev := c08PreEvent{Op: oi, Pass: pass, Raw: n.Text, Type: n.Type, InTree: inTree[it], Status: it.GetStatus().String()}
			req := it.GetURL().GetRequest()
			if req != nil {
				ev.Request = req.URL.String()
			}
			if !inTree[it] {
				hist = append(hist, ev)
				classes = append(classes, "outcome:removed-before-check")
				continue
			}
			id := verifseen.IdentityOf(it.GetURL().String())
			ev.Asked, ev.Returned = asked[id] && it != seed, returned[id] && it != seed
			hist = append(hist, ev)
			switch {
			case it.GetStatus() == models.ItemSeen:
				if req != nil {
					veriflib.Fail(t, "C08", facet, c, hist, "op %d pass %d: %s was skipped as seen but carries a request", oi, pass, n.Text)
				}
				if !ev.Asked || ev.Returned {
					if tolerant && ev.Asked && ev.Returned && it.GetURL().String() != it.GetURL().Raw {
						veriflib.Excluded(facet, "open finding "+c08KeyHQCompare+": returned URL whose canonical string differs from the raw text sent")
						classes = append(classes, "outcome:excluded-open-finding")
						continue
					}
					veriflib.Fail(t, "C08", facet, c, hist,
						"C08 HQ returned-but-skipped: op %d pass %d: %s (normalised %s, canonical %s) was skipped as seen, but crawl HQ asked=%v returned-as-not-seen=%v: the store did not report it as seen",
						oi, pass, n.Text, it.GetURL().Raw, it.GetURL().String(), ev.Asked, ev.Returned)
				}
				skipped++
				classes = append(classes, "outcome:not-returned-skipped")
			case it.GetStatus() == models.ItemPreProcessed && req != nil:
				if ev.Asked && !ev.Returned {
					veriflib.Fail(t, "C08", facet, c, hist, "op %d pass %d: crawl HQ was asked about %s and did not return it (= seen before), yet it leaves with a request for %s", oi, pass, n.Text, req.URL.String())
				}
				if it != seed && !ev.Asked {
					veriflib.Fail(t, "C08", facet, c, hist, "op %d pass %d: %s leaves with a request but crawl HQ was never asked about it", oi, pass, n.Text)
				}
				if it != seed {
					kept++
					classes = append(classes, "outcome:returned-kept")
				} else {
					classes = append(classes, "outcome:seed-not-asked")
				}
			default:
				veriflib.Fail(t, "C08", facet, c, hist, "op %d pass %d: well-formed %s left the preprocessor with status %s", oi, pass, n.Text, it.GetStatus())
			}
		}
	})
	if os.Getenv("VERIF_DEBUG") != "" {
		t.Logf("history: %s\nexchanges: %s", veriflib.JSON(hist), veriflib.JSON(fake.Exchanges()))
	}
	veriflib.Record(facet, veriflib.JSON(c), skipped >= 1 && kept >= 1, classes, func() any {
		return map[string]any{"case": c, "history": hist}
	})
}

func TestVerif_C08_PreprocessHQ(t *testing.T) {
	defer veriflib.Flush()
	var rc c08PreCase
	if veriflib.ReplayCase("C08/preprocess-hq", &rc) {
		propC08PreHQ(t, rc)
		return
	} else if veriflib.Replaying() {
		t.Skip()
	}
	rapid.Check(t, func(t *rapid.T) {
		c := genC08Pre(t, true)
		veriflib.Guard("C08", "C08/preprocess-hq", c, func() { propC08PreHQ(t, c) })
	})
}

// TestVerifKF_C08_HQCompareInPreprocess: the open finding in the real preprocess() with --hq: the page
// https://…example.com/ references the asset "/style.css?12345" (relative, raw text exactly as an extractor hands it
// over). NormalizeURL resolves it as written: Raw = https://…/style.css?12345, while URL.String() is …/style.css?12345= ;
// crawl HQ has never seen it and returns it. (An absolute reference does not show the defect: NormalizeURL re-encodes
// the query of absolute inputs before parsing, so Raw is already spelt like String().)
func TestVerifKF_C08_HQCompareInPreprocess(t *testing.T) {
	defer veriflib.Flush()
	pool := []verifgen.SeenLogical{
		{Scheme: "https", Host: "example.com", Path: "/"},
		{Scheme: "https", Host: "example.com", Path: "/style.css", Pairs: []verifgen.SeenPair{{K: "12345", V: ""}}},
	}
	c := c08PreCase{Pool: pool, Ops: []verifseen.Op{{Kind: "assets", Anc: []verifseen.Use{{L: 0}}, Leaves: []verifseen.Use{{L: 1, Query: "12345", Deco: 8}}}}}
	propC08PreHQ(t, c)
}
