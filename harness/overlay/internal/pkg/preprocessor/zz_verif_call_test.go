package preprocessor

import (
	"github.com/internetarchive/Zeno/internal/pkg/veriflib"
	"github.com/internetarchive/Zeno/pkg/models"
)

// verifPreprocess calls the stage's preprocess() whatever its exact parameter list is (see veriflib.Call): the harness
// depends on what the function does to the seed's tree, not on its private signature.
func verifPreprocess(workerID string, seed *models.Item) { veriflib.Call(preprocess, workerID, seed) }
