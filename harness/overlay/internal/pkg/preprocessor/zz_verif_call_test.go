package preprocessor

import (
	"context"
	"fmt"
	"reflect"

	"github.com/internetarchive/Zeno/pkg/models"
)

// verifPreprocess calls the stage's preprocess() whatever its exact parameter list is: the harness depends on what the
// function does to the seed's tree, not on its (private) signature. Known parameter kinds are filled in - a context that
// is never cancelled, the worker id, the seed; anything else gets its zero value.
func verifPreprocess(workerID string, seed *models.Item) {
	fn := reflect.ValueOf(preprocess)
	ft := fn.Type()
	args := make([]reflect.Value, ft.NumIn())
	ctxType := reflect.TypeOf((*context.Context)(nil)).Elem()
	for i := range args {
		switch in := ft.In(i); {
		case in == reflect.TypeOf(seed):
			args[i] = reflect.ValueOf(seed)
		case in.Kind() == reflect.String:
			args[i] = reflect.ValueOf(workerID).Convert(in)
		case in.Kind() == reflect.Interface && ctxType.Implements(in):
			args[i] = reflect.ValueOf(context.Background()).Convert(in)
		default:
			args[i] = reflect.Zero(in)
		}
	}
	if ft.IsVariadic() {
		panic(fmt.Sprintf("verif harness: preprocess() became variadic: %s", ft))
	}
	fn.Call(args)
}
