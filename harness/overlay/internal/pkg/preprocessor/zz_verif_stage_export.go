//go:build verif

package preprocessor

import "sync"

// VerifReset lets a harness start the stage again in the same process after Stop() (overlay-only, not in /repo).
func VerifReset() {
	once = sync.Once{}
	globalPreprocessor = nil
}
