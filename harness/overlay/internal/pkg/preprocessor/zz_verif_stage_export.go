//go:build verif

package preprocessor

import (
	"sync"

	"github.com/internetarchive/Zeno/pkg/models"
)

// VerifReset lets a harness start the stage again in the same process after Stop() (overlay-only, not in /repo).
func VerifReset() {
	once = sync.Once{}
	globalPreprocessor = nil
}

// VerifPreprocess exposes preprocess() to harness packages.
func VerifPreprocess(workerID string, seed *models.Item) { preprocess(workerID, seed) }
