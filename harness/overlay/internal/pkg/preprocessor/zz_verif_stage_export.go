//go:build verif

package preprocessor

import (
	"sync"

	"github.com/internetarchive/Zeno/internal/pkg/veriflib"
	"github.com/internetarchive/Zeno/pkg/models"
)

// VerifReset lets a harness start the stage again in the same process after Stop() (overlay-only, not in /repo).
func VerifReset() {
	once = sync.Once{}
	globalPreprocessor = nil
}

// VerifPreprocess runs the stage's preprocess() on a seed's tree for harnesses of other packages (overlay-only; called
// through veriflib.Call, so that the private parameter list may change).
func VerifPreprocess(workerID string, seed *models.Item) { veriflib.Call(preprocess, workerID, seed) }
