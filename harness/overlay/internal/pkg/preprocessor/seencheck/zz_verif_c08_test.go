package seencheck

// C08 — seen URLs are not refetched; nothing is skipped as seen unless the store said so (local LevelDB store).
//
// Facets (kind U, in-package, real LevelDB in $VERIF_SCRATCH opened once per test function):
//
//	C08/local       sequential histories of SeencheckItem calls on seeds / redirect targets / assets with overlapping URLs
//	C08/concurrent  phases of concurrent SeencheckItem calls; records completed in an earlier phase must be honoured
//
// Every URL use is a fresh models.URL built from a freshly drawn spelling of the query string, so the canonical string
// is recomputed each time. The reference store is keyed by an identity computed from the URL's decoded components, never
// by URL.String(). The package cannot import preprocessor (import cycle), so the URL texts are fixpoints of the WHATWG
// serialisation (checked with goada in the harness) and are parsed the way NormalizeURL ends: Raw = href; URL.Parse().

import (
	"fmt"
	"os"
	"path/filepath"
	"sort"
	"sync"
	"sync/atomic"
	"testing"

	"github.com/internetarchive/Zeno/internal/pkg/verifgen"
	"github.com/internetarchive/Zeno/internal/pkg/veriflib"
	"github.com/internetarchive/Zeno/internal/pkg/verifseen"
	"github.com/internetarchive/Zeno/pkg/models"
	"pgregory.net/rapid"
)

// ---- case -------------------------------------------------------------------------------------------

type c08Case struct {
	Pool []verifgen.SeenLogical `json:"pool"`
	Ops  []verifseen.Op         `json:"ops"`
}

type c08ConcCase struct {
	Pool   []verifgen.SeenLogical `json:"pool"`
	Phases [][]verifseen.Op       `json:"phases"`
}

func genC08(t *rapid.T) c08Case {
	c := c08Case{Pool: verifgen.SeenPoolGen(t, "u", rapid.IntRange(1, 4).Draw(t, "npool"))}
	for i, n := 0, rapid.IntRange(2, 10).Draw(t, "nops"); i < n; i++ {
		c.Ops = append(c.Ops, verifseen.GenOp(t, fmt.Sprintf("op%d", i), c.Pool))
	}
	return c
}

func genC08Conc(t *rapid.T) c08ConcCase {
	c := c08ConcCase{Pool: verifgen.SeenPoolGen(t, "u", rapid.IntRange(1, 4).Draw(t, "npool"))}
	for p, np := 0, rapid.IntRange(2, 4).Draw(t, "nphases"); p < np; p++ {
		var ph []verifseen.Op
		for i, n := 0, rapid.IntRange(1, 4).Draw(t, fmt.Sprintf("ph%d.n", p)); i < n; i++ {
			ph = append(ph, verifseen.GenOp(t, fmt.Sprintf("ph%d.op%d", p, i), c.Pool))
		}
		c.Phases = append(c.Phases, ph)
	}
	return c
}

// ---- store and URL construction ---------------------------------------------------------------------------

var c08Namespace atomic.Int64

// c08OpenStore opens the real LevelDB store once for the calling test function.
func c08OpenStore(t *testing.T, name string) func() {
	dir := os.Getenv("VERIF_SCRATCH")
	if dir == "" {
		dir = t.TempDir()
	}
	job := filepath.Join(dir, fmt.Sprintf("c08-%s-%d", name, os.Getpid()))
	if err := os.MkdirAll(job, 0o755); err != nil {
		t.Fatalf("harness: %v", err)
	}
	if err := Start(job); err != nil {
		t.Fatalf("harness: cannot open the seencheck store: %v", err)
	}
	return func() {
		Close()
		globalSeencheck = nil
		os.RemoveAll(job)
	}
}

type c08Event struct {
	Op       int    `json:"op"`
	Phase    int    `json:"phase,omitempty"`
	URL      string `json:"url"`
	Type     string `json:"checked_as"`
	Store    string `json:"reference_store_before"`
	Expected string `json:"expected"`
	Got      string `json:"got"`
}

// ---- facet C08/local: sequential histories -----------------------------------------------------------------

func propC08Local(t veriflib.TB, c c08Case) {
	const facet = "C08/local"
	ns := fmt.Sprintf("c%d", c08Namespace.Add(1))
	ref := map[string]string{}   // identity -> "seed" | "asset": what the job has recorded
	spell := map[string]string{} // identity -> first text it was recorded under
	var hist []c08Event
	var classes []string
	mustSkip, fresh, promo, respelt := 0, 0, 0, 0
	for oi, op := range c.Ops {
		seed, nodes := verifseen.Build(c.Pool, op, ns, oi, true)
		if err := SeencheckItem(seed); err != nil {
			veriflib.Fail(t, "C08", facet, c, hist, "SeencheckItem returned an error: %v", err)
		}
		classes = append(classes, "op:"+op.Kind)
		for _, n := range nodes {
			got := verifseen.Outcome(n.Item)
			prev, known := ref[n.Key]
			ev := c08Event{Op: oi, URL: n.Text, Type: n.Type, Store: prev, Got: got}
			switch {
			case !known:
				ev.Expected = "fresh"
				hist = append(hist, ev)
				if got != "fresh" {
					veriflib.Fail(t, "C08", facet, c, hist,
						"op %d (%s): %s (checked as %s) came back %s, but no URL with these components was recorded before in this job: skipped as seen although the store cannot have reported it",
						oi, op.Kind, n.Text, n.Type, got)
				}
				ref[n.Key], spell[n.Key] = n.Type, n.Text
				fresh++
				classes = append(classes, "outcome:new")
			case prev == "asset" && n.Type == "seed":
				// the statement's exception: a seed / redirect target whose URL had only been seen as an asset MAY be
				// fetched again; the store did report it, so skipping is not forbidden either
				ev.Expected = "fresh-or-seen"
				hist = append(hist, ev)
				if got != "fresh" && got != "seen" {
					veriflib.Fail(t, "C08", facet, c, hist, "op %d: %s left with %s", oi, n.Text, got)
				}
				if got == "fresh" {
					ref[n.Key] = "seed"
					classes = append(classes, "outcome:promotion-refetched")
				} else {
					classes = append(classes, "outcome:promotion-skipped")
				}
				promo++
			default:
				ev.Expected = "seen"
				hist = append(hist, ev)
				if got != "seen" {
					veriflib.Fail(t, "C08", facet, c, hist,
						"op %d (%s): %s (checked as %s) came back %s although the same URL was recorded as %s earlier in this job (first as %s): a seen URL would be fetched again",
						oi, op.Kind, n.Text, n.Type, got, prev, spell[n.Key])
				}
				mustSkip++
				classes = append(classes, "outcome:skipped-"+n.Type+"-after-"+prev)
				if spell[n.Key] != n.Text {
					respelt++
					classes = append(classes, "skipped-under-another-spelling")
				}
			}
			classes = append(classes, fmt.Sprintf("qparams:%d", n.NPar))
		}
	}
	veriflib.Record(facet, veriflib.JSON(c), mustSkip >= 1 && (promo >= 1 || fresh >= 2), classes, func() any {
		return map[string]any{"case": c, "history": hist}
	})
}

func TestVerif_C08_Local(t *testing.T) {
	defer veriflib.Flush()
	defer c08OpenStore(t, "local")()
	var rc c08Case
	if veriflib.ReplayCase("C08/local", &rc) {
		propC08Local(t, rc)
		return
	} else if veriflib.Replaying() {
		t.Skip()
	}
	rapid.Check(t, func(t *rapid.T) {
		c := genC08(t)
		veriflib.Guard("C08", "C08/local", c, func() { propC08Local(t, c) })
	})
}

// ---- facet C08/concurrent: completed-before must be honoured ---------------------------------------------------

// c08Poss is what the store may hold for one identity after concurrent writers.
type c08Poss struct{ asset, seed bool }

func (p c08Poss) String() string {
	switch {
	case p.asset && p.seed:
		return "asset-or-seed"
	case p.asset:
		return "asset"
	case p.seed:
		return "seed"
	}
	return ""
}

func propC08Concurrent(t veriflib.TB, c c08ConcCase) {
	const facet = "C08/concurrent"
	ns := fmt.Sprintf("k%d", c08Namespace.Add(1))
	ref := map[string]c08Poss{}
	var hist []c08Event
	var classes []string
	honoured, contended := 0, 0
	opIdx := 0
	for pi, phase := range c.Phases {
		type built struct {
			seed  *models.Item
			nodes []verifseen.Node
		}
		var bs []built
		for _, op := range phase {
			s, ns2 := verifseen.Build(c.Pool, op, ns, opIdx, true)
			bs = append(bs, built{s, ns2})
			opIdx++
		}
		// all calls of a phase run concurrently; the phase ends when all have returned (= their records completed)
		var wg sync.WaitGroup
		startGate := make(chan struct{})
		errs := make([]error, len(bs))
		panics := make([]any, len(bs))
		for i := range bs {
			wg.Add(1)
			go func(i int) {
				defer wg.Done()
				defer func() { panics[i] = recover() }()
				<-startGate
				errs[i] = SeencheckItem(bs[i].seed)
			}(i)
		}
		close(startGate)
		wg.Wait()
		for i := range bs {
			if panics[i] != nil {
				panic(panics[i])
			}
			if errs[i] != nil {
				veriflib.Fail(t, "C08", facet, c, hist, "SeencheckItem returned an error: %v", errs[i])
			}
		}
		// group this phase's checks by identity
		byKey := map[string][]verifseen.Node{}
		var keys []string
		for _, b := range bs {
			for _, n := range b.nodes {
				if _, ok := byKey[n.Key]; !ok {
					keys = append(keys, n.Key)
				}
				byKey[n.Key] = append(byKey[n.Key], n)
			}
		}
		sort.Strings(keys)
		for _, k := range keys {
			ns3 := byKey[k]
			before := ref[k]
			ops := map[int]bool{}
			for _, n := range ns3 {
				ops[n.Op] = true
			}
			single := len(ops) == 1 // only one call touched this URL in this phase: its checks were sequential
			if !single {
				contended++
				classes = append(classes, "contended-in-phase")
			}
			cur := before
			anyFresh, freshTypes := false, c08Poss{}
			seedSeen := false
			for _, n := range ns3 {
				got := verifseen.Outcome(n.Item)
				base := before
				if single {
					base = cur
				}
				ev := c08Event{Op: n.Op, Phase: pi, URL: n.Text, Type: n.Type, Store: base.String(), Got: got}
				must := base == (c08Poss{seed: true}) || (n.Type == "asset" && (base.asset || base.seed))
				switch {
				case must:
					ev.Expected = "seen"
					hist = append(hist, ev)
					if got != "seen" {
						veriflib.Fail(t, "C08", facet, c, hist,
							"phase %d: %s (checked as %s) came back %s although a record of the same URL (as %s) had completed before this check started",
							pi, n.Text, n.Type, got, base)
					}
					if pi > 0 && before != (c08Poss{}) {
						honoured++
					}
					classes = append(classes, "outcome:skipped")
				case base == (c08Poss{}) && single:
					ev.Expected = "fresh"
					hist = append(hist, ev)
					if got != "fresh" {
						veriflib.Fail(t, "C08", facet, c, hist,
							"phase %d: %s (checked as %s) came back %s but nothing recorded this URL before and no concurrent call touched it", pi, n.Text, n.Type, got)
					}
					classes = append(classes, "outcome:new")
				default:
					ev.Expected = "fresh-or-seen"
					hist = append(hist, ev)
					if got != "fresh" && got != "seen" {
						veriflib.Fail(t, "C08", facet, c, hist, "phase %d: %s left with %s", pi, n.Text, got)
					}
					classes = append(classes, "outcome:free-"+got)
				}
				if got == "fresh" {
					anyFresh = true
					if n.Type == "asset" {
						freshTypes.asset = true
					} else {
						freshTypes.seed = true
					}
					if single {
						if n.Type == "seed" {
							cur = c08Poss{seed: true}
						} else {
							cur = c08Poss{asset: true}
						}
					}
				} else if n.Type == "seed" && base.seed {
					// a seed-type check is skipped only when the store holds "seed" (had it held "asset" the check is free:
					// if it was skipped nevertheless, the store still holds "asset")
					seedSeen = true
					if single {
						cur = c08Poss{seed: true}
					}
				}
			}
			// skipped only if the store reported it: when nothing had recorded the URL before the phase, the first of
			// the concurrent checks cannot have found it
			if before == (c08Poss{}) && !anyFresh {
				veriflib.Fail(t, "C08", facet, c, hist,
					"phase %d: all %d concurrent checks of %s came back seen although nothing recorded this URL before the phase: nobody fetches it", pi, len(ns3), ns3[0].Text)
			}
			if !single && before == (c08Poss{}) {
				// evidence that the calls really overlapped: two checks of the same type passed for one new URL
				nf := map[string]int{}
				for _, n := range ns3 {
					if verifseen.Outcome(n.Item) == "fresh" {
						nf[n.Type]++
					}
				}
				if nf["asset"] >= 2 || nf["seed"] >= 2 {
					classes = append(classes, "raced:both-passed")
				}
			}
			// what the store may hold now
			switch {
			case single:
				ref[k] = cur
			case before == (c08Poss{}):
				ref[k] = freshTypes
			case before == (c08Poss{seed: true}):
			case freshTypes.seed || seedSeen: // a seed-type check went through (promotion) or was skipped because the store held "seed"
				ref[k] = c08Poss{seed: true}
			}
		}
		classes = append(classes, fmt.Sprintf("phase-width:%d", len(phase)))
	}
	veriflib.Record(facet, veriflib.JSON(c), honoured >= 1 && contended >= 1, classes, func() any {
		return map[string]any{"case": c, "history": hist}
	})
}

func TestVerif_C08_Concurrent(t *testing.T) {
	defer veriflib.Flush()
	defer c08OpenStore(t, "conc")()
	var rc c08ConcCase
	if veriflib.ReplayCase("C08/concurrent", &rc) {
		propC08Concurrent(t, rc)
		return
	} else if veriflib.Replaying() {
		t.Skip()
	}
	rapid.Check(t, func(t *rapid.T) {
		c := genC08Conc(t)
		veriflib.Guard("C08", "C08/concurrent", c, func() { propC08Concurrent(t, c) })
	})
}
