//go:build verif

package seencheck

// VerifReset forgets the (closed) store of the previous lifecycle, as a fresh process would (overlay-only).
func VerifReset() { globalSeencheck = nil }
