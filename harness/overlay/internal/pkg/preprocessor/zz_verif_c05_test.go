package preprocessor

// C05 — no request is ever sent for a URL outside the operator's scope.
//
// Facet C05/preprocess (kind U, in-package): generated item trees in the shapes the pipeline produces (a fresh seed; a
// redirect target under a GotRedirected parent; assets under a GotChildren parent; the same one level deeper) are built
// with models.NewItem / AddChild exactly as the sources and postprocessItem do, the operator's filters are installed
// through the real config.GenerateCrawlConfig() (default exclusions and the compilation of the exclusion FILE are the
// real ones), and the real preprocess() is run with seencheck off. Oracle: every node that carries a request afterwards
// satisfies the scope predicate of the statement, evaluated by the harness on the URL of the request actually built.

import (
	"fmt"
	"io"
	"log/slog"
	"net/http"
	"os"
	"path/filepath"
	"regexp"
	"strings"
	"sync"
	"testing"

	"github.com/internetarchive/Zeno/internal/pkg/config"
	"github.com/internetarchive/Zeno/internal/pkg/verifcfg"
	"github.com/internetarchive/Zeno/internal/pkg/verifgen"
	"github.com/internetarchive/Zeno/internal/pkg/veriflib"
	"github.com/internetarchive/Zeno/internal/pkg/verifref"
	"github.com/internetarchive/Zeno/pkg/models"
	"pgregory.net/rapid"
)

// ---- case -------------------------------------------------------------------------------------------

// c05Tree is one seed's item tree just before it enters the preprocessor.
//
//	seed             leaves = [the seed itself]                          anc = []
//	redirect         seed(GotRedirected) -> leaf                         anc = [seed]
//	redirect2        seed(GotRedirected) -> r1(GotRedirected) -> leaf    anc = [seed, r1]
//	assets           seed(GotChildren)  -> leaves                        anc = [seed]
//	redirect-assets  seed(GotRedirected) -> r1(GotChildren) -> leaves    anc = [seed, r1]
//	asset-redirect   seed(GotChildren)  -> a1(GotRedirected) -> leaf     anc = [seed, a1]   sib = completed assets beside a1
//	asset-assets     seed(GotChildren)  -> a1(GotChildren) -> leaves     anc = [seed, a1]   sib = completed assets beside a1
type c05Tree struct {
	Shape  string   `json:"shape"`
	Anc    []string `json:"anc"`    // URL texts of the ancestors (well-formed: they went through the pipeline before)
	Sib    []string `json:"sib"`    // completed siblings of the last ancestor (well-formed)
	Leaves []string `json:"leaves"` // URL texts of the nodes at the working depth (hostile grammar)
}

type c05Case struct {
	IncH  []string  `json:"include_host"`
	IncS  []string  `json:"include_string"`
	ExcH  []string  `json:"exclude_host"`
	ExcS  []string  `json:"exclude_string"`
	Regex []string  `json:"exclusion_file"` // lines of the --exclusion-file; nil = no file given
	NoEOL bool      `json:"no_eol"`         // the file does not end in a newline
	Files int       `json:"regex_files,omitempty"` // > 1: the expressions are spread over that many --exclusion-file values (round robin)
	Trees []c05Tree `json:"trees"`
}

var c05Shapes = []string{"seed", "seed", "redirect", "redirect", "redirect2", "assets", "assets", "assets", "redirect-assets", "asset-redirect", "asset-assets"}

func c05Position(shape string) string {
	switch shape {
	case "seed":
		return "seed"
	case "redirect", "redirect2":
		return "redirect-target"
	case "asset-redirect":
		return "redirect-target-of-asset"
	case "asset-assets":
		return "asset-of-asset"
	default:
		return "asset"
	}
}

// ---- generator --------------------------------------------------------------------------------------

// c05LeafText draws the URL text of a working-depth node: the hostile grammar (all classes), well-formed absolute
// URLs in non-canonical spellings (upper-case host, default port, userinfo, fragment) and well-formed relative references.
func c05LeafText(t *rapid.T, relativeOK bool) string {
	switch k := rapid.IntRange(0, 9).Draw(t, "leafkind"); {
	case k <= 4:
		return verifgen.HostileURL(t)
	case k <= 7 || !relativeOK:
		u := verifgen.WFAbsGen(t, "leaf")
		s := u.Text()
		switch rapid.IntRange(0, 7).Draw(t, "spelling") {
		case 0:
			s = strings.Replace(s, u.Host, strings.ToUpper(u.Host), 1)
		case 1:
			s = strings.Replace(s, u.Host, strings.ToUpper(u.Host[:1])+u.Host[1:], 1)
		case 2:
			if u.Port == "" {
				dp := ":80"
				if u.Scheme == "https" {
					dp = ":443"
				}
				s = strings.Replace(s, u.Host, u.Host+dp, 1)
			}
		case 3:
			s = strings.Replace(s, "://", "://user:pw@", 1)
		case 4:
			s += "#frag"
		case 5:
			s = strings.Replace(s, u.Scheme+"://", strings.ToUpper(u.Scheme)+"://", 1)
		}
		return s
	default:
		return verifgen.WFRefGen(t, "ref").Text()
	}
}

func c05GenTree(t *rapid.T) c05Tree {
	tr := c05Tree{Shape: c05Shapes[rapid.IntRange(0, len(c05Shapes)-1).Draw(t, "shape")]}
	nAnc, many := 0, false
	switch tr.Shape {
	case "seed":
	case "redirect":
		nAnc = 1
	case "redirect2":
		nAnc = 2
	case "assets":
		nAnc, many = 1, true
	case "redirect-assets":
		nAnc, many = 2, true
	case "asset-redirect":
		nAnc = 2
	case "asset-assets":
		nAnc, many = 2, true
	}
	for i := 0; i < nAnc; i++ {
		tr.Anc = append(tr.Anc, verifgen.WFAbsGen(t, fmt.Sprintf("anc%d", i)).Text())
	}
	if tr.Shape == "asset-redirect" || tr.Shape == "asset-assets" {
		for i, n := 0, rapid.IntRange(0, 2).Draw(t, "nsib"); i < n; i++ {
			tr.Sib = append(tr.Sib, verifgen.WFAbsGen(t, fmt.Sprintf("sib%d", i)).Text())
		}
	}
	n := 1
	if many {
		n = rapid.IntRange(1, 6).Draw(t, "nleaves")
	}
	for i := 0; i < n; i++ {
		tr.Leaves = append(tr.Leaves, c05LeafText(t, nAnc > 0))
	}
	return tr
}

// c05Hostish extracts what looks like the host of a URL text (lower-cased, ASCII only) — only used to draw filter
// elements that bite; precision is irrelevant (the oracle looks at the request that was built).
func c05Hostish(s string) string {
	s = strings.ToLower(strings.Trim(s, "\"' \t\n\r"))
	if i := strings.Index(s, "://"); i >= 0 {
		s = s[i+3:]
	} else {
		s = strings.TrimPrefix(s, "//")
	}
	if i := strings.IndexAny(s, "/?#\\"); i >= 0 {
		s = s[:i]
	}
	if i := strings.LastIndexByte(s, '@'); i >= 0 {
		s = s[i+1:]
	}
	if i := strings.LastIndexByte(s, ':'); i >= 0 && !strings.Contains(s, "]") {
		s = s[:i]
	}
	return c05ASCII(s)
}

func c05ASCII(s string) string {
	return strings.Map(func(r rune) rune {
		if r > 0x20 && r < 0x7f {
			return r
		}
		return -1
	}, s)
}

var c05FixedHosts = []string{"example.com", "example", "a.b", "cdn", "archive", ".org", "site.net", ".co.uk", "media.", "www.", "xn--", "x1.y2", "localhost", "127.0.0"}
var c05FixedStrings = []string{"/img", "x.png", "index", "style.css", "?a=", "utm_", "=1", "%20", ".png", "http://", "https://", ":8080", "/a/", "?", "&", "+", "%C3%A9", "tar.gz", "~u"}
var c05RegexTemplates = []string{`\.png$`, `\.(css|gz)(\?|$)`, `\?.*utm_source=`, `/img/`, `(?i)\.CSS`, `^http://`, `^https://[^/]+/$`, `:[0-9]+/`, `[0-9]{2,}`, `/(a|b)/`, `^https?://[^/]*%s`, `%s`, `%s$`, `^[^?]*%s`}

// c05GenFilters draws the operator's filter set, mostly from pieces of the generated URLs so that the filters bite.
// Narrowings (documented semantics of the flags): elements are non-empty ASCII strings — the flags match by substring on
// the canonical (lower-case, punycode) host and on the canonical URL text; an empty element or an empty regex line
// would match everything; every line of the exclusion file is a valid RE2 expression (config compiles with MustCompile:
// an invalid line stops the crawler at start-up, before any request).
func c05GenFilters(t *rapid.T, c *c05Case) {
	var texts []string
	for _, tr := range c.Trees {
		texts = append(texts, tr.Leaves...)
	}
	hostCand := func(label string) string {
		if rapid.IntRange(0, 3).Draw(t, label+".fixed") == 0 {
			return c05FixedHosts[rapid.IntRange(0, len(c05FixedHosts)-1).Draw(t, label+".fi")]
		}
		h := c05Hostish(texts[rapid.IntRange(0, len(texts)-1).Draw(t, label+".of")])
		if h == "" {
			return "example.com"
		}
		switch rapid.IntRange(0, 3).Draw(t, label+".part") {
		case 0: // registered-domain-like suffix
			if i := strings.IndexByte(h, '.'); i >= 0 && i+1 < len(h) {
				return h[i+1:]
			}
		case 1: // first label
			if i := strings.IndexByte(h, '.'); i > 0 {
				return h[:i]
			}
		}
		return h
	}
	strCand := func(label string) string {
		if rapid.IntRange(0, 2).Draw(t, label+".fixed") == 0 {
			return c05FixedStrings[rapid.IntRange(0, len(c05FixedStrings)-1).Draw(t, label+".fi")]
		}
		s := c05ASCII(strings.Trim(texts[rapid.IntRange(0, len(texts)-1).Draw(t, label+".of")], "\"' \t\n\r"))
		if len(s) < 2 {
			return "/a"
		}
		a := rapid.IntRange(0, len(s)-2).Draw(t, label+".from")
		n := rapid.IntRange(2, 8).Draw(t, label+".len")
		if a+n > len(s) {
			n = len(s) - a
		}
		return s[a : a+n]
	}
	list := func(label string, pEmpty int, cand func(string) string) []string {
		if rapid.IntRange(0, 9).Draw(t, label+".none") < pEmpty {
			return nil
		}
		var out []string
		for i, n := 0, rapid.IntRange(1, 2).Draw(t, label+".n"); i < n; i++ {
			out = append(out, cand(fmt.Sprintf("%s%d", label, i)))
		}
		return out
	}
	c.IncH = list("inch", 7, hostCand)
	c.IncS = list("incs", 7, strCand)
	c.ExcH = list("exch", 4, hostCand)
	c.ExcS = list("excs", 5, strCand)
	if rapid.IntRange(0, 9).Draw(t, "regex.none") >= 5 {
		for i, n := 0, rapid.IntRange(1, 3).Draw(t, "regex.n"); i < n; i++ {
			tpl := c05RegexTemplates[rapid.IntRange(0, len(c05RegexTemplates)-1).Draw(t, "regex.tpl")]
			if strings.Contains(tpl, "%s") {
				var piece string
				if rapid.IntRange(0, 1).Draw(t, "regex.hostpiece") == 0 {
					piece = hostCand(fmt.Sprintf("regex.h%d", i))
				} else {
					piece = strCand(fmt.Sprintf("regex.s%d", i))
				}
				tpl = fmt.Sprintf(tpl, regexp.QuoteMeta(piece))
			}
			c.Regex = append(c.Regex, tpl)
		}
		c.NoEOL = rapid.IntRange(0, 3).Draw(t, "regex.noeol") == 0
		if rapid.IntRange(0, 2).Draw(t, "regex.split") == 0 {
			c.Files = rapid.IntRange(2, 3).Draw(t, "regex.files")
		}
	}
}

func genC05(t *rapid.T) c05Case {
	var c c05Case
	for i, n := 0, rapid.IntRange(1, 3).Draw(t, "ntrees"); i < n; i++ {
		c.Trees = append(c.Trees, c05GenTree(t))
	}
	c05GenFilters(t, &c)
	return c
}

// ---- the scope predicate (harness's own, from the statement) --------------------------------------------

type c05Filters struct {
	incH, incS, excH, excS []string
	re                     []*regexp.Regexp
}

func c05ContainsAny(s string, elems []string) bool {
	for _, e := range elems {
		if strings.Contains(s, e) {
			return true
		}
	}
	return false
}

// c05Scope evaluates the statement on one URL text; goHost, when not empty, is the host:port another parser (net/url,
// the one the HTTP client will dial) sees in the same text — both views must be in scope.
// Returns "" when in scope, else the clause of the statement that puts the URL outside.
func c05Scope(text string, goHost string, f *c05Filters) string {
	parts, ok := verifref.SplitURL(text)
	if !ok {
		return "not-absolute"
	}
	if sc := strings.ToLower(parts.Scheme); sc != "http" && sc != "https" {
		return "scheme"
	}
	hostports := []string{parts.Authority[strings.LastIndexByte(parts.Authority, '@')+1:]}
	if goHost != "" && goHost != hostports[0] {
		hostports = append(hostports, goHost)
	}
	for _, hp := range hostports {
		name := strings.ToLower(verifref.Hostname(hp))
		if name == "localhost" || name == "127.0.0.1" {
			return "loopback-host"
		}
		if !strings.Contains(name, ".") {
			return "host-without-dot"
		}
	}
	for _, hp := range hostports {
		if strings.Contains(hp, "archive.org") || strings.Contains(hp, "archive-it.org") {
			return "default-exclusion"
		}
		if c05ContainsAny(hp, f.excH) {
			return "exclude-host"
		}
	}
	if c05ContainsAny(text, f.excS) {
		return "exclude-string"
	}
	for _, re := range f.re {
		if re.MatchString(text) {
			return "exclusion-regex"
		}
	}
	if len(f.incH)+len(f.incS) > 0 {
		for _, hp := range hostports {
			if !c05ContainsAny(hp, f.incH) && !c05ContainsAny(text, f.incS) {
				return "include-miss"
			}
		}
	}
	return ""
}

func c05IsFilterClause(why string) bool {
	switch why {
	case "default-exclusion", "exclude-host", "exclude-string", "exclusion-regex", "include-miss":
		return true
	}
	return false
}

// ---- configuration through the real GenerateCrawlConfig ------------------------------------------------

var (
	c05Once    sync.Once
	c05Scratch string
)

func c05InstallConfig(c c05Case) *config.Config {
	c05Once.Do(func() {
		// GenerateCrawlConfig reports through slog.Info on every call
		slog.SetDefault(slog.New(slog.NewTextHandler(io.Discard, nil)))
		c05Scratch = os.Getenv("VERIF_SCRATCH")
		if c05Scratch == "" {
			var err error
			if c05Scratch, err = os.MkdirTemp("", "verif-c05-"); err != nil {
				panic(err)
			}
		}
	})
	cfg := verifcfg.Quiet()
	// what the flags would have put there
	cfg.Job = "verif-c05"
	cfg.HQProject = ""
	cfg.UserAgent = "verif-c05"
	cfg.DisableSeencheck = true // GenerateCrawlConfig derives UseSeencheck from it
	cfg.UseHQ = false
	cfg.DomainsCrawl = nil
	cfg.DisableIPv4, cfg.DisableIPv6 = false, false
	cfg.IncludeHosts = append([]string(nil), c.IncH...)
	cfg.IncludeString = append([]string(nil), c.IncS...)
	cfg.ExcludeHosts = append([]string(nil), c.ExcH...)
	cfg.ExcludeString = append([]string(nil), c.ExcS...)
	cfg.ExclusionRegexes = nil // GenerateCrawlConfig appends to it
	cfg.ExclusionFile = nil
	if c.Regex != nil {
		k := max(c.Files, 1)
		parts := make([][]string, k)
		for i, r := range c.Regex {
			parts[i%k] = append(parts[i%k], r)
		}
		for i, part := range parts {
			p := filepath.Join(c05Scratch, fmt.Sprintf("c05-exclusions-%d.txt", i))
			body := strings.Join(part, "\n")
			if !c.NoEOL && len(part) > 0 {
				body += "\n"
			}
			if err := os.WriteFile(p, []byte(body), 0o644); err != nil {
				panic("harness: cannot write the exclusion file: " + err.Error())
			}
			cfg.ExclusionFile = append(cfg.ExclusionFile, p)
		}
	}
	if err := config.GenerateCrawlConfig(); err != nil {
		panic("harness: GenerateCrawlConfig: " + err.Error())
	}
	if cfg.UseSeencheck || cfg.UseHQ {
		panic("harness: seencheck must be off in the C05 facet")
	}
	return cfg
}

// ---- tree construction (as the sources and postprocessItem do) -------------------------------------------

type c05Built struct {
	seed   *models.Item
	leaves []*models.Item
}

func c05MustNormalize(u *models.URL, parent *models.URL) {
	if err := NormalizeURL(u, parent); err != nil {
		panic(fmt.Sprintf("harness: well-formed ancestor URL %q rejected: %v", u.Raw, err))
	}
}

func c05Build(tr c05Tree, tag string) c05Built {
	id := 0
	newID := func() string { id++; return fmt.Sprintf("%s-n%d", tag, id) }
	if tr.Shape == "seed" {
		// a source hands over: models.NewItem(id, &models.URL{Raw: <operator's text>}, via)
		s := models.NewItem(newID(), &models.URL{Raw: tr.Leaves[0]}, "")
		return c05Built{seed: s, leaves: []*models.Item{s}}
	}
	seed := models.NewItem(newID(), &models.URL{Raw: tr.Anc[0]}, "")
	c05MustNormalize(seed.GetURL(), nil)
	add := func(parent *models.Item, raw string, from models.ItemState) *models.Item {
		u := &models.URL{Raw: raw, Hops: parent.GetURL().GetHops()}
		if from == models.ItemGotRedirected {
			u.Redirects = parent.GetURL().GetRedirects() + 1 // postprocessItem, redirection branch
		}
		ch := models.NewItem(newID(), u, "")
		if err := parent.AddChild(ch, from); err != nil {
			panic("harness: AddChild: " + err.Error())
		}
		return ch
	}
	last := seed
	leafEdge := models.ItemGotChildren
	switch tr.Shape {
	case "redirect":
		leafEdge = models.ItemGotRedirected
	case "redirect2":
		last = add(seed, tr.Anc[1], models.ItemGotRedirected)
		leafEdge = models.ItemGotRedirected
	case "assets":
	case "redirect-assets":
		last = add(seed, tr.Anc[1], models.ItemGotRedirected)
	case "asset-redirect", "asset-assets":
		last = add(seed, tr.Anc[1], models.ItemGotChildren)
		if tr.Shape == "asset-redirect" {
			leafEdge = models.ItemGotRedirected
		}
	}
	if last != seed {
		c05MustNormalize(last.GetURL(), seed.GetURL())
	}
	for _, s := range tr.Sib {
		sib := add(seed, s, models.ItemGotChildren)
		c05MustNormalize(sib.GetURL(), seed.GetURL())
		sib.SetStatus(models.ItemCompleted) // archived, nothing below it
	}
	b := c05Built{seed: seed}
	for _, l := range tr.Leaves {
		b.leaves = append(b.leaves, add(last, l, leafEdge))
	}
	if err := seed.CheckConsistency(); err != nil { // the worker's own entry check
		panic("harness: inconsistent tree: " + err.Error())
	}
	return b
}

// ---- property -------------------------------------------------------------------------------------------

type c05NodeReport struct {
	Tree     int    `json:"tree"`
	Position string `json:"position"`
	Text     string `json:"text"`
	Status   string `json:"status"`
	InTree   bool   `json:"in_tree"`
	Request  string `json:"request,omitempty"`
	Canon    string `json:"canonical,omitempty"`
	Verdict  string `json:"verdict"` // harness's predicate on the canonical text: "" in scope, else the clause
}

func propC05Preprocess(t veriflib.TB, c c05Case) {
	const facet = "C05/preprocess"
	c05InstallConfig(c)
	f := &c05Filters{incH: c.IncH, incS: c.IncS, excH: c.ExcH, excS: c.ExcS}
	for _, line := range c.Regex {
		f.re = append(f.re, regexp.MustCompile(line)) // compiled by the harness from the same lines
	}
	var (
		report                      []c05NodeReport
		classes                     []string
		accepted, filtered, inscope int
		inscopeRequested            int
		violation                   string
	)
	for ti, tr := range c.Trees {
		b := c05Build(tr, fmt.Sprintf("t%d", ti))
		pos := c05Position(tr.Shape)

		verifPreprocess("0", b.seed)

		inTree := map[*models.Item]bool{}
		b.seed.Traverse(func(n *models.Item) { inTree[n] = true })
		isLeaf := map[*models.Item]int{}
		for i, l := range b.leaves {
			isLeaf[l] = i + 1
		}
		check := func(n *models.Item, text string, p string) {
			r := c05NodeReport{Tree: ti, Position: p, Text: text, Status: n.GetStatus().String(), InTree: inTree[n]}
			var req *http.Request = n.GetURL().GetRequest()
			if n.GetURL().GetParsed() != nil {
				r.Canon = n.GetURL().String()
				r.Verdict = c05Scope(r.Canon, "", f)
			} else {
				r.Verdict = "rejected-by-normaliser"
			}
			decided := r.Verdict
			if req != nil {
				r.Request = req.URL.String()
				if why := c05Scope(req.URL.String(), req.URL.Host, f); why != "" && inTree[n] && violation == "" {
					violation = fmt.Sprintf("tree %d (%s): the %s node built from %q leaves the preprocessor with a request for %s (host %q), which is outside the scope: %s [include-host %q include-string %q exclude-host %q exclude-string %q exclusion-file %q]",
						ti, tr.Shape, p, text, req.URL.String(), req.URL.Host, why, c.IncH, c.IncS, c.ExcH, c.ExcS, c.Regex)
				}
				if inTree[n] {
					accepted++
					decided = "accepted"
				} else {
					decided = "request-on-removed-node" // never reaches the archiver; counted, not an alarm
				}
			} else if c05IsFilterClause(r.Verdict) {
				filtered++
			}
			if r.Verdict == "" {
				inscope++
				if req != nil && inTree[n] {
					inscopeRequested++
				} else {
					decided = "in-scope-not-requested"
				}
			}
			classes = append(classes, verifgen.ClassOfURL(text)+"|"+p+"|"+decided, "decided:"+decided, "position:"+p)
			report = append(report, r)
		}
		for i, l := range b.leaves {
			check(l, tr.Leaves[i], pos)
		}
		// every other node still in the tree: none of them may have acquired a request in this pass
		b.seed.Traverse(func(n *models.Item) {
			if isLeaf[n] == 0 && n.GetURL().GetRequest() != nil {
				check(n, n.GetURL().Raw, "ancestor")
			}
		})
		classes = append(classes, "shape:"+tr.Shape)
	}
	if violation != "" {
		veriflib.Fail(t, "C05", facet, c, report, "%s", violation)
	}
	// coverage class (not an alarm): how many in-scope URLs did get their request
	c05Counter("in-scope:total", inscope)
	c05Counter("in-scope:requested", inscopeRequested)
	if len(c.IncH)+len(c.IncS) > 0 {
		classes = append(classes, "filters:include")
	}
	if c.Regex != nil {
		classes = append(classes, "filters:exclusion-file")
	}
	veriflib.Record(facet, veriflib.JSON(c), accepted >= 1 && filtered >= 1, classes, func() any {
		return map[string]any{"case": c, "nodes": report}
	})
}

// c05Counter adds n to a histogram label of the facet.
func c05Counter(label string, n int) {
	for i := 0; i < n; i++ {
		veriflib.Class("C05/preprocess", label)
	}
}

func TestVerif_C05_Preprocess(t *testing.T) {
	defer veriflib.Flush()
	var rc c05Case
	if veriflib.ReplayCase("C05/preprocess", &rc) {
		propC05Preprocess(t, rc)
		return
	} else if veriflib.Replaying() {
		t.Skip()
	}
	rapid.Check(t, func(t *rapid.T) {
		c := genC05(t)
		veriflib.Guard("C05", "C05/preprocess", c, func() { propC05Preprocess(t, c) })
	})
}
