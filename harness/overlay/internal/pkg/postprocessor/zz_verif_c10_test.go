package postprocessor

// C10 — no server-controlled input can crash or hang the crawler.
//
// One entry function (c10Run) turns a plain-data case (target, body bytes and — for the whole chain — status,
// headers, item URL, depth/hops, configuration switches) into calls of the REAL code: archiver.ProcessBody on an
// http.Response whose Body is the bytes (MIME sniffing and spooling are real), then either postprocessItem
// (target "chain") or one extractor / site-specific decoder, then preprocessor.NormalizeURL (+ String / NewRequest,
// as preprocess does) on every URL that came out. The oracle (propC10) is: no panic, no hang. An error return or
// fewer links is success. The same function serves the corpus replay, the rapid mutation tests, the native fuzz
// targets and `./check C10 --replay`.
//
// Files: zz_verif_c10_test.go (entry + oracle), zz_verif_c10_corpus_test.go (corpus, hostile constants, byte codec),
// zz_verif_c10_mut_test.go (structure-aware mutation generators + tests), zz_verif_c10_fuzz_test.go (native targets).

import (
	"bytes"
	"flag"
	"fmt"
	"io"
	"log/slog"
	"net/http"
	"os"
	"path/filepath"
	"regexp"
	"runtime"
	"runtime/debug"
	"sort"
	"strconv"
	"strings"
	"sync"
	"sync/atomic"
	"syscall"
	"time"

	"github.com/internetarchive/Zeno/internal/pkg/archiver"
	"github.com/internetarchive/Zeno/internal/pkg/config"
	"github.com/internetarchive/Zeno/internal/pkg/postprocessor/domainscrawl"
	"github.com/internetarchive/Zeno/internal/pkg/postprocessor/extractor"
	"github.com/internetarchive/Zeno/internal/pkg/postprocessor/sitespecific/ina"
	"github.com/internetarchive/Zeno/internal/pkg/postprocessor/sitespecific/reddit"
	"github.com/internetarchive/Zeno/internal/pkg/postprocessor/sitespecific/truthsocial"
	"github.com/internetarchive/Zeno/internal/pkg/preprocessor"
	"github.com/internetarchive/Zeno/internal/pkg/veriflib"
	"github.com/internetarchive/Zeno/pkg/models"
)

// c10Targets lists every target; "chain" is the whole post-processing chain, the others call one decoder directly.
var c10Targets = []string{"chain", "html", "json", "xml", "s3", "m3u8", "pdf", "script", "linkheader", "reddit", "truthsocial", "ina"}

// c10Case is the plain-data form of one input. Only Target and Body matter for the direct targets; the other
// fields are the structured arguments of the chain target (zero values = a plain 200 text/html seed page).
type c10Case struct {
	Target string `json:"target"`
	Body   []byte `json:"body"` // base64 in JSON
	Note   string `json:"note,omitempty"`

	Status       int      `json:"status,omitempty"` // 0 = 200
	CT           string   `json:"ct,omitempty"`
	NoCT         bool     `json:"noct,omitempty"` // no Content-Type header at all
	Server       string   `json:"server,omitempty"`
	Location     string   `json:"location,omitempty"`
	Link         string   `json:"link,omitempty"`
	URL          string   `json:"url,omitempty"`   // "" = c10URLs[0]
	Depth        int      `json:"depth,omitempty"` // number of ancestors above the item
	RedirParent  bool     `json:"redirparent,omitempty"`
	Hops         int      `json:"hops,omitempty"`
	Redirects    int      `json:"redirects,omitempty"`
	MaxHops      int      `json:"maxhops,omitempty"`
	MaxRedirect  int      `json:"maxredirect,omitempty"` // 0 = 20
	NoAssets     bool     `json:"noassets,omitempty"`
	DomainsCrawl bool     `json:"domainscrawl,omitempty"`
	AltPages     bool     `json:"altpages,omitempty"`
	DisableTags  []string `json:"disabletags,omitempty"`

	// GoFuzz holds the text of a `go test fuzz v1` corpus file (a crasher saved by the native fuzzer and wrapped
	// by the driver); when set, Body and the chain fields are decoded from it.
	GoFuzz string `json:"gofuzz,omitempty"`
}

// c10Outcome is what one execution reached (evidence only; the oracle does not look at it).
type c10Outcome struct {
	Mime     string
	Dispatch []string // why nothing ran (per variant)
	Reached  []string // extractor bodies entered, in order
	Errs     int      // extractor calls that returned an error
	OKs      int      // extractor calls that returned normally
	Links    int      // URLs produced
	Accepted int      // produced URLs NormalizeURL accepted
	Rejected int
}

func (o *c10Outcome) call(name string, err error, urls []*models.URL) []*models.URL {
	o.Reached = append(o.Reached, name)
	if err != nil {
		o.Errs++
	} else {
		o.OKs++
	}
	o.Links += len(urls)
	return urls
}

// ---- tables of the data-provider layer --------------------------------------------------------------

type c10URLEntry struct{ Kind, URL string }

// index 0 is the default (missing control bytes decode to it)
var c10URLs = []c10URLEntry{
	{"generic", "https://example.org/dir/page.html"},
	{"generic", "http://example.org/"},
	{"generic", "https://example.org/a/b/c?x=1&y=2"},
	{"generic", "http://example.org:8080/p/q.php?id=7"},
	{"m3u8", "https://cdn.example.org/hls/master.m3u8"},
	{"json", "https://example.org/api/data.json"},
	{"sitemap", "https://example.org/sitemap.xml"},
	{"s3", "https://bucket.s3.amazonaws.com/?list-type=2&prefix=a%2F"},
	{"s3", "https://bucket.s3.amazonaws.com/?marker=x"},
	{"s3", "https://storage.googleapis.com/bucket"},
	{"reddit-api", "https://www.reddit.com/api/info.json?id=t3_1abcde"},
	{"reddit", "https://www.reddit.com/r/test/comments/1abcde/title/"},
	{"reddit", "https://old.reddit.com/r/test/"},
	{"reddit-media", "https://preview.redd.it/x.jpg?width=1&s=%zz"},
	{"truthsocial-status", "https://truthsocial.com/api/v1/statuses/112233445566778899"},
	{"truthsocial-lookup", "https://truthsocial.com/api/v1/accounts/lookup?acct=realuser"},
	{"truthsocial-post", "https://truthsocial.com/@realuser/posts/112233445566778899"},
	{"truthsocial-account", "https://truthsocial.com/@realuser"},
	{"ina-api", "https://apipartner.ina.fr/assets/I00012345?sign=abc&partnerId=2"},
	{"ina-config", "https://apipartner.ina.fr/assets/I00012345/playerConfigurations.json"},
	{"ina", "https://www.ina.fr/ina-eclaire-actu/video/i00012345/x"},
	{"pdf", "https://example.org/files/doc.pdf"},
	{"idn", "https://bücher.example/straße?q=ü"},
	{"ipv6", "http://[2001:db8::1]:81/x"},
}

var c10CTs = []string{
	"text/html; charset=utf-8", "text/html", "application/json", "application/json; charset=utf-8", "application/xml", "text/xml",
	"application/rss+xml", "application/vnd.apple.mpegurl", "application/x-mpegURL", "audio/mpegurl", "application/pdf", "text/plain",
	"text/plain; charset=utf-16", "image/svg+xml", "application/octet-stream", "", ";;;=", "TEXT/HTML", "text/html, application/json",
	"application/xhtml+xml", "text/css", "text/javascript", "application/ld+json; profile=\"" + "x" + "\"", "text/xml; charset=\"",
	"multipart/mixed; boundary=xml-html-json", "application/vnd.apple.mpegurl+xml+json+html",
}

var c10Servers = []string{"", "nginx", "AmazonS3", "WasabiS3", "UploadServer", "Windows-Azure-Blob", "AliyunOSS", "cloudflare"}

// 3-digit codes only: net/http refuses anything else before a response object exists
var c10Statuses = []int{200, 200, 200, 200, 200, 301, 302, 303, 307, 308, 300, 304, 404, 500, 204, 206, 999, 100, 201, 403}

var c10TagSets = [][]string{nil, {"a"}, {"img", "script"}, {"link", "meta", "style"}, {"video", "audio", "source"}, {"a", "img", "video", "audio", "style", "script", "link", "meta", "source"}}

// natural Content-Type / Server / URL kinds of each direct target, used by the chain generators
type c10Natural struct {
	CT     string
	Server string
	Kinds  []string
}

var c10Naturals = map[string]c10Natural{
	"html":        {"text/html; charset=utf-8", "", []string{"generic", "reddit", "ina", "truthsocial-post", "truthsocial-account", "idn"}},
	"json":        {"application/json", "", []string{"json", "generic", "reddit-api", "truthsocial-status"}},
	"xml":         {"application/xml", "", []string{"sitemap", "generic"}},
	"s3":          {"application/xml", "AmazonS3", []string{"s3"}},
	"m3u8":        {"application/vnd.apple.mpegurl", "", []string{"m3u8"}},
	"pdf":         {"application/pdf", "", []string{"pdf", "generic"}},
	"script":      {"text/javascript", "", []string{"generic"}},
	"linkheader":  {"text/plain", "", []string{"generic"}},
	"reddit":      {"application/json; charset=utf-8", "", []string{"reddit-api"}},
	"truthsocial": {"application/json", "", []string{"truthsocial-status", "truthsocial-lookup", "truthsocial-post"}},
	"ina":         {"application/json", "", []string{"ina-api"}},
}

func c10URLsOfKind(kinds []string) []string {
	var out []string
	for _, e := range c10URLs {
		for _, k := range kinds {
			if e.Kind == k {
				out = append(out, e.URL)
			}
		}
	}
	return out
}

func c10KindOfURL(u string) string {
	for _, e := range c10URLs {
		if e.URL == u {
			return e.Kind
		}
	}
	return "other"
}

// c10HeaderValue makes arbitrary bytes a value that can reach the crawler inside an http.Response header:
// header lines cannot carry CR, LF or NUL and textproto trims surrounding blanks.
func c10HeaderValue(s string) string {
	s = strings.Map(func(r rune) rune {
		if r == '\r' || r == '\n' || r == 0 {
			return -1
		}
		return r
	}, s)
	return strings.Trim(s, " \t")
}

// ---- global state ---------------------------------------------------------------------------------------

var (
	c10Once   sync.Once
	c10TmpDir string
)

// c10Reset puts every global the chain reads into the state described by the case (nothing leaks between cases).
func c10Reset(c c10Case) {
	c10Once.Do(func() {
		if err := config.InitConfig(); err != nil {
			panic("harness: config.InitConfig: " + err.Error())
		}
		// models.URLToString warns through the default slog logger: keep the formatting, drop the output
		slog.SetDefault(slog.New(slog.NewTextHandler(io.Discard, nil)))
		c10TmpDir = os.Getenv("VERIF_SCRATCH")
		if c10TmpDir == "" {
			c10TmpDir = os.TempDir()
		}
		c10TmpDir = filepath.Join(c10TmpDir, "c10tmp-"+strconv.Itoa(os.Getpid()))
		os.MkdirAll(c10TmpDir, 0o755)
		// Unbounded recursion ends in "fatal error: stack overflow" at the runtime's 1 GB limit after ~30 s and 1 GB of
		// memory per process. The search lowers the limit (256 MiB is >1000 bytes of stack per input byte for the
		// largest input, out of reach of any bounded recursion over the input); replays and the strict known-finding
		// tests keep the real limit, so nothing is reported that the crawler's own settings would not do.
		if !veriflib.Replaying() && os.Getenv("VERIF_STRICT") != "1" && os.Getenv("VERIF_C10_FILE") == "" {
			debug.SetMaxStack(256 << 20)
		}
	})
	cfg := config.Get()
	cfg.MaxHops = c.MaxHops
	cfg.MaxRedirect = c.MaxRedirect
	if cfg.MaxRedirect == 0 {
		cfg.MaxRedirect = 20
	}
	cfg.DisableAssetsCapture = c.NoAssets
	cfg.CaptureAlternatePages = c.AltPages
	cfg.DisableHTMLTag = c.DisableTags
	cfg.WARCTempDir = c10TmpDir
	cfg.HTTPReadDeadline = int(10 * time.Second)
	cfg.DomainsCrawl = nil
	domainscrawl.Reset()
	if c.DomainsCrawl {
		cfg.DomainsCrawl = []string{"example.org", `^https?://[a-z]+\.reddit\.com/`, "https://truthsocial.com"}
		if err := domainscrawl.AddElements(cfg.DomainsCrawl); err != nil {
			panic("harness: domainscrawl.AddElements: " + err.Error())
		}
	}
}

// ---- building blocks ------------------------------------------------------------------------------------

var c10IDs atomic.Int64

func c10ID() string { return "c10-" + strconv.FormatInt(c10IDs.Add(1), 36) }

// c10NewURL does what preprocess does to a seed URL: normalise, build the GET request.
func c10NewURL(raw string) (*models.URL, error) {
	u := &models.URL{Raw: raw}
	if err := preprocessor.NormalizeURL(u, nil); err != nil {
		return nil, err
	}
	req, err := http.NewRequest(http.MethodGet, u.String(), nil)
	if err != nil {
		return nil, err
	}
	u.SetRequest(req)
	return u, nil
}

// c10Archive attaches the response and runs the real ProcessBody with the arguments the archiver passes.
func c10Archive(u *models.URL, status int, hdr http.Header, body []byte) error {
	if status == 0 {
		status = 200
	}
	u.SetResponse(&http.Response{
		Status: strconv.Itoa(status) + " X", StatusCode: status, Proto: "HTTP/1.1", ProtoMajor: 1, ProtoMinor: 1,
		Header: hdr, Body: io.NopCloser(bytes.NewReader(body)), ContentLength: int64(len(body)), Request: u.GetRequest(),
	})
	return archiver.ProcessBody(u, config.Get().DisableAssetsCapture, domainscrawl.Enabled(), config.Get().MaxHops, config.Get().WARCTempDir)
}

// c10Normalise does to every produced URL what preprocess does to a child: NormalizeURL against the parent, and for
// the accepted ones the canonical string, host/path reads and the request constructor.
func c10Normalise(o *c10Outcome, parent *models.URL, urls []*models.URL) {
	for _, p := range urls {
		if p == nil {
			continue
		}
		cp := &models.URL{Raw: p.Raw, Hops: p.Hops, Redirects: p.Redirects}
		if err := preprocessor.NormalizeURL(cp, parent); err != nil {
			o.Rejected++
			continue
		}
		o.Accepted++
		s := cp.String()
		_ = cp.GetParsed().Host + cp.GetParsed().Path
		_ = reddit.IsRedditURL(cp)
		if req, err := http.NewRequest(http.MethodGet, s, nil); err == nil {
			cp.SetRequest(req)
		}
	}
}

// ---- entry function -------------------------------------------------------------------------------------

// c10Run executes one case synchronously on the calling goroutine. It is the single place where bytes meet Zeno.
func c10Run(c c10Case, o *c10Outcome) {
	c10Reset(c)
	if c.Target == "chain" {
		c10RunChain(c, o)
		return
	}
	c10RunDirect(c, o)
}

type c10Variant struct {
	url    string
	ct     string
	server string
	wrap   func([]byte) []byte
	run    func(item *models.Item, o *c10Outcome) []*models.URL
}

func c10Variants(target string) []c10Variant {
	switch target {
	case "html":
		return []c10Variant{{url: "https://example.org/dir/page.html", ct: "text/html; charset=utf-8", run: func(item *models.Item, o *c10Outcome) (all []*models.URL) {
			u := item.GetURL()
			if !extractor.IsHTML(u) {
				o.Dispatch = append(o.Dispatch, "not-html")
				return nil
			}
			a, err := extractor.HTMLAssets(item)
			all = append(all, o.call("HTMLAssets", err, a)...)
			l, err := extractor.HTMLOutlinks(item)
			all = append(all, o.call("HTMLOutlinks", err, l)...)
			all = append(all, o.call("extractLinksFromPage", nil, veriflib.CallAs[[]*models.URL](extractLinksFromPage, u))...)
			return all
		}}}
	case "json":
		return []c10Variant{{url: "https://example.org/api/data.json", ct: "application/json", run: func(item *models.Item, o *c10Outcome) (all []*models.URL) {
			if !extractor.IsJSON(item.GetURL()) {
				o.Dispatch = append(o.Dispatch, "not-json")
				return nil
			}
			a, l, err := extractor.JSON(item.GetURL())
			return append(o.call("JSON", err, a), l...)
		}}}
	case "xml":
		return []c10Variant{{url: "https://example.org/sitemap.xml", ct: "application/xml", run: func(item *models.Item, o *c10Outcome) (all []*models.URL) {
			u := item.GetURL()
			sm := extractor.IsSitemapXML(u)
			o.Reached = append(o.Reached, "IsSitemapXML:"+strconv.FormatBool(sm))
			if !sm && !extractor.IsXML(u) {
				o.Dispatch = append(o.Dispatch, "not-xml")
				return nil
			}
			a, l, err := extractor.XML(u)
			return append(o.call("XML", err, a), l...)
		}}}
	case "s3":
		run := func(item *models.Item, o *c10Outcome) []*models.URL {
			if !extractor.IsS3(item.GetURL()) {
				o.Dispatch = append(o.Dispatch, "not-s3")
				return nil
			}
			l, err := extractor.S3(item.GetURL())
			return o.call("S3", err, l)
		}
		return []c10Variant{
			{url: "https://bucket.s3.amazonaws.com/?list-type=2&prefix=a%2F", ct: "application/xml", server: "AmazonS3", run: run},
			{url: "https://bucket.s3.amazonaws.com/?marker=x", ct: "application/xml", server: "AmazonS3", run: run},
		}
	case "m3u8":
		return []c10Variant{{url: "https://cdn.example.org/hls/master.m3u8", ct: "application/vnd.apple.mpegurl", run: func(item *models.Item, o *c10Outcome) []*models.URL {
			if !extractor.IsM3U8(item.GetURL()) {
				o.Dispatch = append(o.Dispatch, "not-m3u8")
				return nil
			}
			a, err := extractor.M3U8(item.GetURL())
			return o.call("M3U8", err, a)
		}}}
	case "pdf":
		return []c10Variant{{url: "https://example.org/files/doc.pdf", ct: "application/pdf", run: func(item *models.Item, o *c10Outcome) []*models.URL {
			if !extractor.IsPDF(item.GetURL()) {
				o.Dispatch = append(o.Dispatch, "not-pdf")
				return nil
			}
			l, err := extractor.PDF(item.GetURL())
			return o.call("PDF", err, l)
		}}}
	case "script":
		toURLs := func(ss []string) (out []*models.URL) {
			for _, s := range ss {
				out = append(out, &models.URL{Raw: s})
			}
			return out
		}
		return []c10Variant{
			// the scraper on the text itself (its caller hands it the text of any <script> element)
			{url: "https://example.org/dir/page.html", ct: "text/javascript", run: func(item *models.Item, o *c10Outcome) []*models.URL {
				b, _ := io.ReadAll(item.GetURL().GetBody())
				item.GetURL().RewindBody()
				ss, err := extractor.VerifC10ExtractFromScriptContent(string(b))
				return o.call("extractFromScriptContent", err, toURLs(ss))
			}},
			// and through the real caller: the same text inside a <script> element of a page
			{url: "https://example.org/dir/page.html", ct: "text/html", wrap: func(b []byte) []byte {
				return append(append([]byte("<html><head><script>"), b...), "</script></head><body></body></html>"...)
			}, run: func(item *models.Item, o *c10Outcome) []*models.URL {
				a, err := extractor.HTMLAssets(item)
				return o.call("HTMLAssets(script)", err, a)
			}},
		}
	case "linkheader":
		return []c10Variant{{url: "https://example.org/dir/page.html", ct: "text/html", run: func(item *models.Item, o *c10Outcome) []*models.URL {
			return o.call("ExtractURLsFromHeader", nil, extractor.ExtractURLsFromHeader(item.GetURL()))
		}}}
	case "reddit":
		return []c10Variant{{url: "https://www.reddit.com/api/info.json?id=t3_1abcde", ct: "application/json; charset=UTF-8", run: func(item *models.Item, o *c10Outcome) []*models.URL {
			if !reddit.IsPostAPI(item.GetURL()) {
				o.Dispatch = append(o.Dispatch, "not-reddit-api")
				return nil
			}
			l, err := reddit.ExtractAPIPostPermalinks(item)
			return o.call("reddit.ExtractAPIPostPermalinks", err, l)
		}}}
	case "truthsocial":
		return []c10Variant{
			{url: "https://truthsocial.com/api/v1/statuses/112233445566778899", ct: "application/json", run: func(item *models.Item, o *c10Outcome) []*models.URL {
				if !truthsocial.NeedExtraction(item.GetURL()) {
					o.Dispatch = append(o.Dispatch, "not-truthsocial-status")
					return nil
				}
				a, l, err := truthsocial.ExtractAssets(item)
				return append(o.call("truthsocial.ExtractAssets(status)", err, a), l...)
			}},
			{url: "https://truthsocial.com/api/v1/accounts/lookup?acct=realuser", ct: "application/json", run: func(item *models.Item, o *c10Outcome) []*models.URL {
				if !truthsocial.IsAccountLookupURL(item.GetURL()) {
					o.Dispatch = append(o.Dispatch, "not-truthsocial-lookup")
					return nil
				}
				l, err := truthsocial.GenerateOutlinksURLsFromLookup(item.GetURL())
				return o.call("truthsocial.GenerateOutlinksURLsFromLookup", err, l)
			}},
			{url: "https://truthsocial.com/@realuser/posts/112233445566778899", ct: "text/html", run: func(item *models.Item, o *c10Outcome) []*models.URL {
				if !truthsocial.NeedExtraction(item.GetURL()) || !truthsocial.IsAccountURL(item.GetURL()) {
					o.Dispatch = append(o.Dispatch, "not-truthsocial-post")
					return nil
				}
				a, l, err := truthsocial.ExtractAssets(item)
				all := append(o.call("truthsocial.ExtractAssets(post)", err, a), l...)
				l2, err := truthsocial.GenerateAccountLookupURL(item.GetURL())
				return append(all, o.call("truthsocial.GenerateAccountLookupURL", err, l2)...)
			}},
		}
	case "ina":
		return []c10Variant{{url: "https://apipartner.ina.fr/assets/I00012345?sign=abc&partnerId=2", ct: "application/json", run: func(item *models.Item, o *c10Outcome) []*models.URL {
			if !ina.IsAPIURL(item.GetURL()) {
				o.Dispatch = append(o.Dispatch, "not-ina-api")
				return nil
			}
			a, err := ina.ExtractMedias(item.GetURL())
			all := o.call("ina.ExtractMedias", err, a)
			if err == nil { // extractAssets goes on with the HTML extractor on the same body
				h, err := extractor.HTMLAssets(item)
				all = append(all, o.call("HTMLAssets(ina)", err, h)...)
			}
			return all
		}}}
	}
	panic("harness: unknown target " + target)
}

func c10RunDirect(c c10Case, o *c10Outcome) {
	for _, v := range c10Variants(c.Target) {
		u, err := c10NewURL(v.url)
		if err != nil {
			panic("harness: constant URL rejected: " + v.url + ": " + err.Error())
		}
		u.Hops = c.Hops
		hdr := http.Header{}
		hdr.Set("Content-Type", v.ct)
		if v.server != "" {
			hdr.Set("Server", v.server)
		}
		body := c.Body
		if c.Target == "linkheader" {
			hdr.Set("Link", c10HeaderValue(string(c.Body)))
			body = []byte("<html><body>x</body></html>")
		}
		if v.wrap != nil {
			body = v.wrap(body)
		}
		if err := c10Archive(u, 200, hdr, body); err != nil {
			o.Dispatch = append(o.Dispatch, "processbody-error")
			continue
		}
		if u.GetMIMEType() != nil {
			o.Mime = u.GetMIMEType().String()
		}
		if u.GetBody() == nil {
			// the sniffed type is neither text nor PDF: the real pipeline keeps no body and runs no extractor
			o.Dispatch = append(o.Dispatch, "no-body")
			continue
		}
		item := models.NewItem(c10ID(), u, "")
		item.SetStatus(models.ItemArchived)
		urls := v.run(item, o)
		c10Normalise(o, u, urls)
		u.SetDocument(nil)
		veriflib.Call(closeBody, item)
	}
}

// c10PredictDispatch mirrors the dispatch of postprocessItem / extractAssets / extractOutlinks with the same exported
// predicates, only to LABEL which extractor a chain case reaches (evidence; not part of the oracle).
func c10PredictDispatch(item *models.Item) (reach []string) {
	u := item.GetURL()
	st := u.GetResponse().StatusCode
	if veriflib.CallAs[bool](isStatusCodeRedirect, st) {
		if u.GetRedirects() >= config.Get().MaxRedirect {
			return []string{"skip:max-redirect"}
		}
		return []string{"redirect"}
	}
	dc := domainscrawl.Enabled()
	switch {
	case !dc && item.GetDepthWithoutRedirections() > 2:
		return []string{"skip:depth"}
	case !dc && item.GetDepthWithoutRedirections() == 1 && strings.Contains(u.GetMIMEType().String(), "html"):
		return []string{"skip:html-asset"}
	case config.Get().DisableAssetsCapture && !dc && u.GetHops() >= config.Get().MaxHops:
		return []string{"skip:no-assets"}
	}
	if st != 200 {
		return []string{"skip:status"}
	}
	if u.GetBody() == nil {
		return []string{"skip:no-body"}
	}
	if !config.Get().DisableAssetsCapture {
		switch {
		case ina.IsAPIURL(u):
			reach = append(reach, "assets:ina")
		case truthsocial.NeedExtraction(u):
			reach = append(reach, "assets:truthsocial")
		case extractor.IsM3U8(u):
			reach = append(reach, "assets:m3u8")
		case extractor.IsJSON(u):
			reach = append(reach, "assets:json")
		case extractor.IsXML(u):
			reach = append(reach, "assets:xml")
		case extractor.IsHTML(u):
			reach = append(reach, "assets:html")
		}
	}
	if dc || u.GetHops() < config.Get().MaxHops {
		switch {
		case truthsocial.IsAccountURL(u):
			reach = append(reach, "outlinks:truthsocial-account")
		case truthsocial.IsAccountLookupURL(u):
			reach = append(reach, "outlinks:truthsocial-lookup")
		case extractor.IsS3(u):
			reach = append(reach, "outlinks:s3")
		case extractor.IsSitemapXML(u):
			reach = append(reach, "outlinks:sitemap")
		case extractor.IsHTML(u):
			reach = append(reach, "outlinks:html")
		case extractor.IsPDF(u):
			reach = append(reach, "outlinks:pdf")
		case reddit.IsPostAPI(u):
			reach = append(reach, "outlinks:reddit-api")
		}
	}
	if len(reach) == 0 {
		return []string{"skip:no-extractor"}
	}
	return reach
}

var c10ParentURLs = []string{"https://parent.example.org/section/index.html", "https://www.reddit.com/r/test/", "https://cdn.example.org/hls/master.m3u8"}

func c10RunChain(c c10Case, o *c10Outcome) {
	raw := c.URL
	if raw == "" {
		raw = c10URLs[0].URL
	}
	u, err := c10NewURL(raw)
	if err != nil {
		o.Dispatch = append(o.Dispatch, "item-url-rejected")
		return
	}
	u.Hops, u.Redirects = c.Hops, c.Redirects
	hdr := http.Header{}
	if !c.NoCT {
		ct := c.CT
		if ct == "" {
			ct = c10CTs[0]
		}
		hdr.Set("Content-Type", c10HeaderValue(ct))
	}
	for _, kv := range [][2]string{{"Server", c.Server}, {"Location", c.Location}, {"Link", c.Link}} {
		if v := c10HeaderValue(kv[1]); v != "" {
			hdr.Set(kv[0], v)
		}
	}
	if err := c10Archive(u, c.Status, hdr, c.Body); err != nil {
		o.Dispatch = append(o.Dispatch, "processbody-error")
		return
	}
	if u.GetMIMEType() != nil {
		o.Mime = u.GetMIMEType().String()
	}

	// ancestry: Depth items above the one under test (a redirect parent does not count as depth)
	item := models.NewItem(c10ID(), u, "")
	seed := item
	if c.Depth > 0 {
		depth := min(c.Depth, 4)
		var cur *models.Item
		for i := 0; i < depth; i++ {
			pu, err := c10NewURL(c10ParentURLs[i%len(c10ParentURLs)])
			if err != nil {
				panic("harness: parent URL rejected: " + err.Error())
			}
			p := models.NewItem(c10ID(), pu, "")
			if cur == nil {
				seed = p
			} else if err := cur.AddChild(p, models.ItemGotChildren); err != nil {
				panic("harness: AddChild: " + err.Error())
			}
			cur = p
		}
		from := models.ItemGotChildren
		if c.RedirParent {
			from = models.ItemGotRedirected
		}
		if err := cur.AddChild(item, from); err != nil {
			panic("harness: AddChild: " + err.Error())
		}
	}
	item.SetStatus(models.ItemArchived)
	if err := seed.CheckConsistency(); err != nil {
		panic("harness: inconsistent tree built: " + err.Error())
	}

	for _, r := range c10PredictDispatch(item) {
		if strings.HasPrefix(r, "skip:") {
			o.Dispatch = append(o.Dispatch, r)
		} else {
			o.Reached = append(o.Reached, r)
		}
	}

	outlinks := veriflib.CallAs[[]*models.Item](postprocessItem, item)
	veriflib.Call(closeBodies, seed)
	o.OKs++

	var produced []*models.URL
	for _, ch := range item.GetChildren() {
		produced = append(produced, ch.GetURL())
	}
	o.Links += len(produced) + len(outlinks)
	c10Normalise(o, u, produced)
	var outs []*models.URL
	for _, ol := range outlinks {
		outs = append(outs, ol.GetURL())
	}
	c10Normalise(o, nil, outs) // outlinks come back later as seeds: no parent
	c10Normalise(o, u, outs)   // and the same text relative to the page it was found on
	if err := seed.CheckConsistency(); err != nil {
		// the real worker panics on this before the next stage: a server-made inconsistent tree is a crash
		panic("seed consistency check failed after postprocessItem: " + err.Error())
	}
}

// ---- oracle ---------------------------------------------------------------------------------------------

// c10Panic classifies a panic by call site: first Zeno frame below the panic and the package that panicked.
type c10Panic struct {
	Key   string `json:"key"`
	Zeno  string `json:"zeno_frame"`
	Third string `json:"panicking_package"`
	Site  string `json:"panicking_function"` // innermost non-runtime function (sub-class inside a key, evidence only)
	Value string `json:"value"`
	Stack string `json:"stack"`
}

var c10FuncRe = regexp.MustCompile(`^(.*?)(?:\(\.\.\.\)|\([^()]*\))$`)

func c10SplitFunc(fn string) (pkg, name string) {
	// "github.com/x/y/pkg/z.(*T).M.func1" -> pkg "github.com/x/y/pkg/z", name "(*T).M.func1"
	slash := strings.LastIndexByte(fn, '/')
	dot := strings.IndexByte(fn[slash+1:], '.')
	if dot < 0 {
		return fn, ""
	}
	return fn[:slash+1+dot], fn[slash+1+dot+1:]
}

var c10ClosureRe = regexp.MustCompile(`(\.func\d+|\.\d+|\.gowrap\d+)+$`)

func c10Classify(v any, stack []byte) *c10Panic {
	p := &c10Panic{Value: fmt.Sprint(v), Stack: string(stack)}
	if len(p.Value) > 600 {
		p.Value = p.Value[:600] + "…"
	}
	lines := strings.Split(string(stack), "\n")
	type frame struct{ fn, file string }
	var frames []frame
	for i := 1; i < len(lines); i++ {
		if strings.HasPrefix(lines[i], "\t") || lines[i] == "" {
			continue
		}
		fr := frame{fn: lines[i]}
		if m := c10FuncRe.FindStringSubmatch(lines[i]); m != nil {
			fr.fn = m[1]
		}
		if i+1 < len(lines) && strings.HasPrefix(lines[i+1], "\t") {
			fr.file = strings.TrimSpace(lines[i+1])
		}
		frames = append(frames, fr)
	}
	// frames below the first "panic" frame are the panicking code, innermost first
	start := 0
	for i, fr := range frames {
		if fr.fn == "panic" {
			start = i + 1
			break
		}
	}
	for _, fr := range frames[start:] {
		pkg, name := c10SplitFunc(fr.fn)
		if pkg == "runtime" || strings.HasPrefix(pkg, "runtime/") || fr.fn == "panic" {
			continue
		}
		harness := strings.Contains(fr.file, "zz_verif_")
		if p.Third == "" && !harness {
			p.Third = pkg
			p.Site = pkg[strings.LastIndexByte(pkg, '/')+1:] + "." + c10ClosureRe.ReplaceAllString(name, "")
		}
		if strings.HasPrefix(pkg, "github.com/internetarchive/Zeno/") && !harness && !strings.Contains(pkg, "/verif") {
			p.Zeno = pkg[strings.LastIndexByte(pkg, '/')+1:] + "." + c10ClosureRe.ReplaceAllString(name, "")
			break
		}
	}
	third := c10ShortPkg(p.Third)
	if p.Zeno == "" {
		p.Zeno = "unknown"
	}
	p.Key = "C10-" + p.Zeno + "-" + third
	return p
}

// c10TestName renders a finding key as the suffix of its TestVerifKF_C10_ function.
func c10TestName(key string) string {
	return regexp.MustCompile(`[^A-Za-z0-9]+`).ReplaceAllString(strings.TrimPrefix(key, "C10-"), "_")
}

func c10FuzzMode() bool {
	f := flag.Lookup("test.fuzz")
	return f != nil && f.Value.String() != ""
}

type c10Result struct {
	o  c10Outcome
	pn *c10Panic
}

// c10Guarded runs the entry function with a recover that only classifies.
func c10Guarded(c c10Case) (r c10Result) {
	defer func() {
		if x := recover(); x != nil {
			r.pn = c10Classify(x, debug.Stack())
		}
	}()
	c10Run(c, &r.o)
	return r
}

// c10HeapLimit: resident memory a single case (input <= 128 KiB) may drive the process to before it is declared a
// memory blow-up (a crawler host runs many workers; the kernel would kill it long before all of them do this).
// Resident pages, not allocated bytes: a decoder that reserves a huge buffer and never touches it costs nothing.
const c10HeapLimit = 2 << 30

func c10HeapBytes() uint64 {
	b, err := os.ReadFile("/proc/self/statm")
	if err != nil {
		return 0
	}
	f := strings.Fields(string(b))
	if len(f) < 2 {
		return 0
	}
	pages, _ := strconv.ParseUint(f[1], 10, 64)
	return pages * uint64(os.Getpagesize())
}

// c10ThreadCPU: user+system CPU time consumed so far by one thread of this process (/proc/self/task/<tid>/stat).
func c10ThreadCPU(tid int) time.Duration {
	b, err := os.ReadFile("/proc/self/task/" + strconv.Itoa(tid) + "/stat")
	if err != nil {
		return 0
	}
	s := string(b)
	f := strings.Fields(s[strings.LastIndexByte(s, ')')+1:])
	if len(f) < 13 {
		return 0
	}
	ut, _ := strconv.ParseInt(f[11], 10, 64)
	st, _ := strconv.ParseInt(f[12], 10, 64)
	return time.Duration(ut+st) * (time.Second / 100) // USER_HZ
}

// c10Exec runs one case under the watchdog. The case runs on a goroutine locked to its own OS thread, and the deadline
// is measured in CPU TIME OF THAT THREAD, so a busy machine (16 shards, other checks) cannot fake a hang; a case that is
// blocked without using CPU is caught by a wall-clock backstop of 60x the budget. over = "" | "time" | "memory".
func c10Exec(c c10Case, budget time.Duration) (r c10Result, over string) {
	ch := make(chan c10Result, 1)
	tidCh := make(chan int, 1)
	go func() {
		runtime.LockOSThread() // never unlocked: the thread ends with the goroutine
		tidCh <- syscall.Gettid()
		ch <- c10Guarded(c)
	}()
	tid := <-tidCh
	start := time.Now()
	tick := time.NewTicker(50 * time.Millisecond)
	defer tick.Stop()
	for {
		select {
		case r = <-ch:
			return r, ""
		case <-tick.C:
			if c10ThreadCPU(tid) > budget {
				return r, "time"
			}
			if time.Since(start) > 60*budget {
				return r, "wall"
			}
			if c10HeapBytes() > c10HeapLimit {
				return r, "memory"
			}
		}
	}
}

// c10Budget: 10 s of CPU time for inputs <= 64 KiB; above that the allowance grows with the square of the size, because honest
// parsers are quadratic in nesting depth (x/net/html scans its open-element stack per tag: 12 000 nested <div> = 2 s).
// VERIF_C10_BUDGET_MS overrides the base (strict known-finding tests, tests of the harness itself).
func c10Budget(n int) time.Duration {
	base := 10 * time.Second
	if ms, err := strconv.Atoi(os.Getenv("VERIF_C10_BUDGET_MS")); err == nil && ms > 0 {
		base = time.Duration(ms) * time.Millisecond
	}
	if n > 64<<10 {
		k := (n + (64 << 10) - 1) / (64 << 10)
		return base * time.Duration(k*k)
	}
	return base
}

var c10Inconclusive, c10Leaked, c10Slow atomic.Int64

// c10Slim is the case as it is written to replay files (everything needed to re-run it, nothing derived).
func c10Slim(c c10Case) c10Case {
	if c.GoFuzz != "" {
		c.GoFuzz = ""
	}
	return c
}

func c10Preview(b []byte) string {
	if len(b) > 300 {
		return strconv.Quote(string(b[:300])) + fmt.Sprintf("… (%d bytes)", len(b))
	}
	return strconv.Quote(string(b))
}

func c10Classes(c c10Case, r c10Result, outcome string) []string {
	cl := []string{"outcome:" + outcome}
	if r.o.Mime != "" {
		cl = append(cl, "mime:"+strings.SplitN(r.o.Mime, ";", 2)[0])
	}
	for _, x := range r.o.Reached {
		cl = append(cl, "reach:"+x, "reach+outcome:"+x+"/"+outcome)
	}
	for _, x := range r.o.Dispatch {
		cl = append(cl, "dispatch:"+x)
	}
	if c.Target == "chain" {
		ct := c.CT
		if c.NoCT {
			ct = "(none)"
		} else if ct == "" {
			ct = c10CTs[0]
		}
		if len(ct) > 40 {
			ct = ct[:40] + "…"
		}
		st := c.Status
		if st == 0 {
			st = 200
		}
		cl = append(cl, "ct:"+ct, "status:"+strconv.Itoa(st), "urlkind:"+c10KindOfURL(c.URL), "depth:"+strconv.Itoa(c.Depth), "hops:"+strconv.Itoa(c.Hops)+"/"+strconv.Itoa(c.MaxHops))
		for _, x := range r.o.Reached {
			cl = append(cl, "ct+reach:"+ct+" -> "+x)
		}
	}
	switch n := len(c.Body); {
	case n == 0:
		cl = append(cl, "size:0")
	case n <= 2048:
		cl = append(cl, "size:<=2KiB")
	case n <= 64<<10:
		cl = append(cl, "size:<=64KiB")
	default:
		cl = append(cl, "size:>64KiB")
	}
	return cl
}

// propC10 is the oracle: the case must neither panic nor hang.
func propC10(t veriflib.TB, c c10Case) {
	t.Helper()
	c = c10Materialise(c)
	facet := "C10/" + c.Target
	if key := c10FatalClass(c); key != "" {
		veriflib.Excluded(facet, "input of open finding "+key+" (cannot be survived in-process: excluded before execution)")
		return
	}
	var r c10Result
	if c10FuzzMode() {
		// the native engine has its own per-input deadline (10 s) and saves the input when it fires; the saved
		// crasher is then confirmed by the driver through the replay path below
		r = c10Guarded(c)
	} else {
		c10JournalBegin(facet, c)
		budget := c10Budget(len(c.Body))
		var over string
		r, over = c10Exec(c, budget)
		if over == "memory" {
			c10HandleMemory(facet, c)
		} else if over != "" {
			c10HandleTimeout(t, facet, c, budget, over)
			return
		}
	}
	if r.pn != nil {
		if strings.HasPrefix(r.pn.Value, "harness:") {
			t.Fatalf("HARNESS BUG (not a violation): %s\n%s", r.pn.Value, r.pn.Stack)
		}
		if veriflib.FindingOpen(r.pn.Key) {
			veriflib.Excluded(facet, "panic of open finding "+r.pn.Key+" at "+r.pn.Site)
			veriflib.Record(facet, veriflib.JSON(c), len(r.o.Reached) > 0, c10Classes(c, r, "known-panic"), nil)
			return
		}
		veriflib.Fail(t, "C10", facet, c10Slim(c), r.pn,
			"panic (key %s) in %s, raised in package %s: %s; target=%s url=%q ct=%q status=%d body=%s",
			r.pn.Key, r.pn.Zeno, r.pn.Third, r.pn.Value, c.Target, c.URL, c.CT, c.Status, c10Preview(c.Body))
	}
	outcome := "ok"
	if r.o.Errs > 0 {
		outcome = "error"
	}
	veriflib.Record(facet, veriflib.JSON(c), len(r.o.Reached) > 0, c10Classes(c, r, outcome), func() any {
		return map[string]any{"target": c.Target, "note": c.Note, "bytes": len(c.Body), "body_head": c10Preview(c.Body[:min(len(c.Body), 120)]), "url": c.URL, "ct": c.CT,
			"status": c.Status, "mime": r.o.Mime, "reached": r.o.Reached, "dispatch": r.o.Dispatch, "errors": r.o.Errs, "links": r.o.Links, "accepted": r.o.Accepted, "rejected": r.o.Rejected}
	})
}

// c10HandleMemory: the case is still allocating in a goroutine that cannot be stopped; report and leave.
func c10HandleMemory(facet string, c c10Case) {
	dump := make([]byte, 1<<20)
	dump = dump[:runtime.Stack(dump, true)]
	where := c10StuckFrames(string(dump))
	msg := fmt.Sprintf("memory blow-up (key C10-oom-%s): a %d-byte input drove the process above %d MiB of resident memory; allocating in: %s; target=%s url=%q ct=%q status=%d body=%s",
		c10TestName(where), len(c.Body), c10HeapLimit>>20, where, c.Target, c.URL, c.CT, c.Status, c10Preview(c.Body))
	veriflib.WriteFailure("C10", facet, c10Slim(c), map[string]any{"goroutines": string(dump)}, msg)
	c10JournalEnd(facet)
	veriflib.Flush()
	fmt.Printf("--- FAIL: [C10/%s] %s\nFAIL\n", c.Target, msg)
	os.Exit(1)
}

// c10HandleTimeout: a timeout counts only if it reproduces three times with a 10x budget.
func c10HandleTimeout(t veriflib.TB, facet string, c c10Case, budget time.Duration, first string) {
	dump := make([]byte, 1<<20)
	dump = dump[:runtime.Stack(dump, true)]
	stuck := c10StuckFrames(string(dump))
	if key := "C10-hang-" + c10TestName(stuck); veriflib.FindingOpen(key) {
		// an open hang finding: the goroutine is lost (it spins for ever), the search goes on behind it a few times
		veriflib.Excluded(facet, "hang of open finding "+key)
		if c10Leaked.Add(1) > 8 {
			fmt.Printf("C10: more than 8 goroutines lost to the open finding %s, ending this process early\n", key)
			c10JournalEnd(facet)
			veriflib.Flush()
			os.Exit(0)
		}
		return
	}
	fmt.Printf("C10 watchdog: %s case did not return within %v of CPU time (%d bytes); confirming 3x with %v\n", facet, budget, len(c.Body), 10*budget)
	var wg sync.WaitGroup
	var hung, mem atomic.Int64
	for i := 0; i < 3; i++ {
		wg.Add(1)
		go func() {
			defer wg.Done()
			switch _, over := c10Exec(c, 10*budget); over {
			case "time", "wall":
				hung.Add(1)
			case "memory":
				mem.Add(1)
			}
		}()
		time.Sleep(50 * time.Millisecond) // the globals are (re)written at the start of each run, not concurrently
	}
	wg.Wait()
	if mem.Load() > 0 {
		c10HandleMemory(facet, c)
	}
	if hung.Load() < 3 {
		// kept for inspection next to the failure files, under a name the driver does not treat as a failure
		if dir := os.Getenv("VERIF_FAIL_DIR"); dir != "" {
			os.MkdirAll(dir, 0o755)
			os.WriteFile(filepath.Join(dir, fmt.Sprintf("slow-%s-%d.json.txt", os.Getenv("VERIF_SHARD"), c10Slow.Add(1))), []byte(veriflib.JSON(c10Slim(c))), 0o644)
		}
		if first == "time" {
			// CPU time is not affected by machine load: the case needs more than the budget but terminates within
			// 10x of it. Slow, not a hang (CPU-bound slowness below the confirmation budget is not a violation).
			veriflib.Excluded(facet, fmt.Sprintf("slow case: more than %v of CPU time, finished within %v (stuck sample: %s)", budget, 10*budget, stuck))
			fmt.Printf("C10 slow case: %s needed more than %v of CPU time but finished within %v (%d/3 re-runs timed out)\n", facet, budget, 10*budget, hung.Load())
			return
		}
		c10Inconclusive.Add(1)
		veriflib.Excluded(facet, "wall-clock timeout that did not reproduce 3x with 10x budget (inconclusive)")
		fmt.Printf("C10 INCONCLUSIVE: %s wall-clock timeout reproduced only %d/3 times\n", facet, hung.Load())
		return
	}
	msg := fmt.Sprintf("hang (key C10-hang-%s): the case did not return within %v of CPU time and again 3 times within %v; stuck in: %s; target=%s url=%q ct=%q status=%d body=%s",
		c10TestName(stuck), budget, 10*budget, stuck, c.Target, c.URL, c.CT, c.Status, c10Preview(c.Body))
	veriflib.WriteFailure("C10", facet, c10Slim(c), map[string]any{"goroutines": string(dump)}, msg)
	c10JournalEnd(facet)
	veriflib.Flush()
	// four goroutines are spinning for ever now: nothing more can be measured in this process
	fmt.Printf("--- FAIL: [C10/%s] %s\nFAIL\n", c.Target, msg)
	os.Exit(1)
}

// c10ShortPkg: "github.com/pdfcpu/pdfcpu/pkg/x" -> "pdfcpu", "golang.org/x/net/html" -> "x.net.html", Zeno's own -> "self".
func c10ShortPkg(pkg string) string {
	switch {
	case strings.HasPrefix(pkg, "github.com/internetarchive/Zeno/"):
		return "self"
	case strings.HasPrefix(pkg, "github.com/") && strings.Count(pkg, "/") >= 2:
		return strings.Split(pkg, "/")[2]
	case strings.HasPrefix(pkg, "golang.org/x/"):
		pkg = strings.TrimPrefix(pkg, "golang.org/")
	case !strings.Contains(strings.SplitN(pkg, "/", 2)[0], "."):
		pkg = strings.SplitN(pkg, "/", 2)[0] // standard library: "regexp/syntax" and "regexp" are one call site
	}
	return strings.ReplaceAll(pkg, "/", ".")
}

// c10StuckFrames names where the watchdogged goroutine is: "<first Zeno function> -> <package it is spinning in>"
// (stable across samples, used as the key) — the innermost frames are in the goroutine dump of the replay file.
func c10StuckFrames(dump string) string {
	for _, g := range strings.Split(dump, "\n\n") {
		if !strings.Contains(g, "c10Guarded") || strings.Contains(g, "c10HandleTimeout") {
			continue
		}
		third := ""
		for _, l := range strings.Split(g, "\n")[1:] {
			if l == "" || strings.HasPrefix(l, "\t") {
				continue
			}
			if m := c10FuncRe.FindStringSubmatch(l); m != nil {
				l = m[1]
			}
			pkg, name := c10SplitFunc(l)
			if pkg == "runtime" || strings.HasPrefix(pkg, "runtime/") || strings.HasPrefix(pkg, "internal/") {
				continue
			}
			zeno := strings.HasPrefix(pkg, "github.com/internetarchive/Zeno/") && !strings.Contains(name, "c10")
			if zeno {
				z := pkg[strings.LastIndexByte(pkg, '/')+1:] + "." + c10ClosureRe.ReplaceAllString(name, "")
				if third == "" {
					return z
				}
				return z + " -> " + c10ShortPkg(third)
			}
			// only a third-party (dotted import path) package is part of the key: which standard-library leaf
			// (regexp, unicode, strings ...) a sample happens to catch varies from run to run
			if third == "" && strings.Contains(strings.SplitN(pkg, "/", 2)[0], ".") && !strings.Contains(name, "c10") {
				third = pkg
			}
		}
	}
	return "unknown"
}

// ---- write-ahead journal: a fatal error (stack exhaustion, cgo fault, out of memory) cannot be recovered; the case
// being executed is therefore on disk, in replay-file form, before it runs and is removed when the test ends ------

var (
	c10JMu   sync.Mutex
	c10JFile *os.File
)

func c10JournalBegin(facet string, c c10Case) {
	dir := os.Getenv("VERIF_FAIL_DIR")
	if dir == "" || veriflib.Replaying() {
		return
	}
	c10JMu.Lock()
	defer c10JMu.Unlock()
	if c10JFile == nil {
		os.MkdirAll(dir, 0o755)
		// (the driver's convention: fail/journal-<shard>.json is the culprit when the process dies without a verdict)
		f, err := os.Create(filepath.Join(dir, "journal-"+os.Getenv("VERIF_SHARD")+".json"))
		if err != nil {
			return
		}
		c10JFile = f
	}
	b := []byte(veriflib.JSON(veriflib.Failure{Property: "C10", Facet: facet, Case: []byte(veriflib.JSON(c10Slim(c))), Seed: os.Getenv("VERIF_SEED"),
		Message: "the test process died while executing this case (fatal error outside the reach of recover: see output_tail)"}))
	c10JFile.WriteAt(b, 0)
	c10JFile.Truncate(int64(len(b)))
}

// c10JournalEnd is deferred by every test function: the process is still alive, so nothing is pending.
func c10JournalEnd(string) {
	c10JMu.Lock()
	defer c10JMu.Unlock()
	if c10JFile != nil {
		c10JFile.Close()
		os.Remove(c10JFile.Name())
		c10JFile = nil
	}
}

// c10SortedKeys is a tiny helper for deterministic iteration.
func c10SortedKeys[V any](m map[string]V) []string {
	ks := make([]string, 0, len(m))
	for k := range m {
		ks = append(ks, k)
	}
	sort.Strings(ks)
	return ks
}
