package postprocessor

// C10 — native coverage-guided targets (thorough tier). One target per decoder plus the whole chain; each is seeded
// with the committed corpus and the hostile constants and runs the same oracle (propC10) as the rapid tests.
//
// Replay of a crasher the engine saved (testdata/fuzz/<Target>/<hash>): the driver wraps the file into a replay JSON
// (case.gofuzz = the file's text) and `./check C10 --replay <json>` runs the target on that input as a plain test;
// without the driver: put the file under testdata/fuzz/<Target>/ of the cwd and run `-test.run '^<Target>$'`.

import (
	"flag"
	"os"
	"strconv"
	"testing"

	"github.com/internetarchive/Zeno/internal/pkg/veriflib"
)

func c10Fuzz(f *testing.F, target string) {
	facet := "C10/" + target
	defer func() {
		if w := flag.Lookup("test.fuzzworker"); w != nil && w.Value.String() == "true" {
			// worker processes share VERIF_SHARD with the coordinator: give each its own statistics file
			// (only now: failure files written while fuzzing must carry the shard's own name for the driver)
			os.Setenv("VERIF_SHARD", os.Getenv("VERIF_SHARD")+"-w"+strconv.Itoa(os.Getpid()))
		}
		veriflib.Flush()
	}()
	var rc c10Case
	if veriflib.ReplayCase(facet, &rc) {
		rc.Target = target
		f.Add([]byte("replay")) // the only seed: the scratch cwd has no testdata/fuzz
		f.Fuzz(func(t *testing.T, _ []byte) { propC10(t, rc) })
		return
	} else if veriflib.Replaying() {
		f.Skip()
	}
	if target == "chain" {
		for _, c := range c10NaturalChainCases(false) {
			if len(c.Body) <= 48<<10 {
				f.Add(c10EncodeChain(c))
			}
		}
		for _, d := range c10Committed("chain") {
			f.Add(d.Data)
		}
	} else {
		// light seeds only (committed documents and the 8 % hostile constants): the engine gives every input 10 s of
		// WALL time under coverage instrumentation, on a machine that runs 15 other shards
		for _, d := range c10Bases(target) {
			if len(d.Data) <= 48<<10 {
				f.Add(d.Data)
			}
		}
	}
	f.Fuzz(func(t *testing.T, data []byte) {
		c := c10FromBytes(target, data)
		propC10(t, c)
	})
}

func FuzzVerif_C10_Chain(f *testing.F)       { c10Fuzz(f, "chain") }
func FuzzVerif_C10_HTML(f *testing.F)        { c10Fuzz(f, "html") }
func FuzzVerif_C10_JSON(f *testing.F)        { c10Fuzz(f, "json") }
func FuzzVerif_C10_XML(f *testing.F)         { c10Fuzz(f, "xml") }
func FuzzVerif_C10_S3(f *testing.F)          { c10Fuzz(f, "s3") }
func FuzzVerif_C10_M3U8(f *testing.F)        { c10Fuzz(f, "m3u8") }
func FuzzVerif_C10_PDF(f *testing.F)         { c10Fuzz(f, "pdf") }
func FuzzVerif_C10_Script(f *testing.F)      { c10Fuzz(f, "script") }
func FuzzVerif_C10_LinkHeader(f *testing.F)  { c10Fuzz(f, "linkheader") }
func FuzzVerif_C10_Reddit(f *testing.F)      { c10Fuzz(f, "reddit") }
func FuzzVerif_C10_Truthsocial(f *testing.F) { c10Fuzz(f, "truthsocial") }
func FuzzVerif_C10_INA(f *testing.F)         { c10Fuzz(f, "ina") }
