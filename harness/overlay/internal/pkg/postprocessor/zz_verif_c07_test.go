package postprocessor

// C07 — page requisites in standard HTML attributes are all fetched, correctly resolved; anchors are handed to the
// queue as outlinks, resolved the same way, whenever the hop limit allows.
//
// In-package ("U") facets. Flow of one case, the same calls the pipeline makes for a page:
//   NormalizeURL(page, nil)                          preprocessor, seed pass
//   200 text/html response + archiver.ProcessBody    archiver (content sniffing, spooled body)
//   postprocessItem(item)                            the real stage body: children = assets, return value = outlinks
//   NormalizeURL(child, page) ; child.String()       preprocessor, next pass: "the URL that would be requested"
//   NormalizeURL(outlink, nil) ; outlink.String()    an outlink comes back from the queue as a seed
// Oracle: every planted reference (verifgen.HTMLDocGen, unique token, expectation by construction) that the statement
// obliges under the generated settings is among the requested URLs / outlinks, compared on scheme, authority, path
// exactly and on the decoded ordered query pairs. Extra URLs are never an alarm; absence is never asserted.

import (
	"bytes"
	"fmt"
	"io"
	"net/http"
	"os"
	"slices"
	"strings"
	"sync"
	"testing"

	"github.com/internetarchive/Zeno/internal/pkg/archiver"
	"github.com/internetarchive/Zeno/internal/pkg/config"
	"github.com/internetarchive/Zeno/internal/pkg/preprocessor"
	"github.com/internetarchive/Zeno/internal/pkg/verifgen"
	"github.com/internetarchive/Zeno/internal/pkg/veriflib"
	"github.com/internetarchive/Zeno/internal/pkg/verifref"
	"github.com/internetarchive/Zeno/pkg/models"
	"pgregory.net/rapid"
)

// c07Case is the plain-data form of one generated input.
type c07Case struct {
	Page          verifgen.WFAbs   `json:"page"`
	Hops          int              `json:"hops"`
	MaxHops       int              `json:"max_hops"`
	Disabled      []string         `json:"disable_html_tag"`
	CaptureAlt    bool             `json:"capture_alternate_pages"`
	DisableAssets bool             `json:"disable_assets_capture"`
	Doc           verifgen.HTMLDoc `json:"doc"`
	// Via: the page was reached through redirects - Via[0] is the seed's URL, Via[1:] the intermediate hops. The page's
	// requisites then go through the real preprocessor pass on the whole tree (seed -> hops -> page -> assets) instead of
	// a bare NormalizeURL(child, page).
	Via []verifgen.WFAbs `json:"via,omitempty"`
}

// c07Seen is one URL that left the stage, in the forms the oracle looks at.
type c07Seen struct {
	Raw   string `json:"raw"`             // as produced by the stage
	Canon string `json:"canon,omitempty"` // after the next pass' NormalizeURL ("" when rejected)
	Err   string `json:"err,omitempty"`
	parts []verifref.URLParts
	pairs [][]verifref.Pair
}

type c07Result struct {
	ViaURLs  []string  `json:"via_urls,omitempty"` // canonical URLs of the seed and the hops before the page
	PageURL  string    `json:"page_url"`
	Body     string    `json:"body"`
	Assets   []c07Seen `json:"assets"`
	Outlinks []c07Seen `json:"outlinks"`
}

var c07ConfigOnce sync.Once

func (s *c07Seen) c07Add(text string) {
	p, ok := verifref.SplitURL(text)
	if !ok {
		return
	}
	pairs, _ := verifref.DecodeQuery(p.Query)
	s.parts = append(s.parts, p)
	s.pairs = append(s.pairs, pairs)
}

// c07Run pushes the case through the real stage code and the next pass' normalisation.
func c07Run(t veriflib.TB, c c07Case) c07Result {
	c07ConfigOnce.Do(func() { config.InitConfig() })
	cfg := config.Get()
	saved := *cfg
	defer func() { *cfg = saved }()
	cfg.DisableHTMLTag = append([]string(nil), c.Disabled...)
	cfg.CaptureAlternatePages = c.CaptureAlt
	cfg.DisableAssetsCapture = c.DisableAssets
	cfg.MaxHops = c.MaxHops
	cfg.DomainsCrawl = nil

	var res c07Result
	page := &models.URL{Raw: c.Page.Text(), Hops: c.Hops}
	if err := preprocessor.NormalizeURL(page, nil); err != nil {
		t.Fatalf("C07 harness: well-formed page URL %q rejected: %v", c.Page.Text(), err)
	}
	res.PageURL = page.String()
	res.Body = c.Doc.Render()
	page.SetResponse(&http.Response{
		StatusCode: 200,
		Status:     "200 OK",
		Header:     http.Header{"Content-Type": []string{"text/html; charset=utf-8"}},
		Body:       io.NopCloser(bytes.NewBufferString(res.Body)),
	})
	if err := archiver.ProcessBody(page, c.DisableAssets, false, c.MaxHops, os.TempDir()); err != nil {
		t.Fatalf("C07 harness: ProcessBody: %v", err)
	}
	item := models.NewItem("c07-page", page, "")
	item.SetStatus(models.ItemArchived)
	var seed *models.Item
	if len(c.Via) > 0 {
		// the tree a redirected seed has when its target page comes back from the archiver
		var parent *models.Item
		for i, v := range c.Via {
			u := &models.URL{Raw: v.Text(), Hops: c.Hops, Redirects: i}
			if err := preprocessor.NormalizeURL(u, nil); err != nil {
				t.Fatalf("C07 harness: well-formed URL %q rejected: %v", v.Text(), err)
			}
			res.ViaURLs = append(res.ViaURLs, u.String())
			n := models.NewItem(fmt.Sprintf("c07-via%d", i), u, "")
			if parent == nil {
				seed = n
			} else if err := parent.AddChild(n, models.ItemGotRedirected); err != nil {
				t.Fatalf("C07 harness: AddChild: %v", err)
			}
			parent = n
		}
		page.Redirects = len(c.Via)
		if err := parent.AddChild(item, models.ItemGotRedirected); err != nil {
			t.Fatalf("C07 harness: AddChild: %v", err)
		}
		item.SetStatus(models.ItemArchived)
	}

	outItems := veriflib.CallAs[[]*models.Item](postprocessItem, item)

	if seed != nil {
		if len(item.GetChildren()) == 0 {
			// nothing was extracted: the seed goes to the finisher, not through another preprocessor pass
			return res
		}
		preprocessor.VerifPreprocess("0", seed)
		for _, child := range item.GetChildren() {
			s := c07Seen{Raw: child.GetURL().Raw}
			if req := child.GetURL().GetRequest(); req != nil && child.GetStatus() == models.ItemPreProcessed {
				s.Canon = req.URL.String()
				s.c07Add(s.Canon)
			} else {
				s.Err = "left the preprocessor with status " + child.GetStatus().String() + " and no request"
			}
			res.Assets = append(res.Assets, s)
		}
		return res
	}
	for _, child := range item.GetChildren() {
		s := c07Seen{Raw: child.GetURL().Raw}
		u := &models.URL{Raw: child.GetURL().Raw, Hops: child.GetURL().Hops}
		if err := preprocessor.NormalizeURL(u, page); err != nil {
			s.Err = err.Error()
		} else {
			s.Canon = u.String()
			s.c07Add(s.Canon)
		}
		res.Assets = append(res.Assets, s)
	}
	for _, o := range outItems {
		s := c07Seen{Raw: o.GetURL().Raw}
		// what is handed to the queue is Raw; what is requested when it comes back is its normalisation as a seed
		s.c07Add(s.Raw)
		u := &models.URL{Raw: o.GetURL().Raw}
		if err := preprocessor.NormalizeURL(u, nil); err != nil {
			s.Err = err.Error()
		} else {
			s.Canon = u.String()
			s.c07Add(s.Canon)
		}
		res.Outlinks = append(res.Outlinks, s)
	}
	return res
}

func c07Match(seen []c07Seen, want verifref.URLParts) bool {
	wantPairs, _ := verifref.DecodeQuery(want.Query)
	for i := range seen {
		for j, p := range seen[i].parts {
			if p.Scheme == want.Scheme && p.Authority == want.Authority && p.Path == want.Path && verifref.PairsEqual(seen[i].pairs[j], wantPairs) {
				return true
			}
		}
	}
	return false
}

// c07Closest finds what became of a token (triage aid in the failure message).
func c07Closest(seen []c07Seen, token string) string {
	for _, s := range seen {
		if c07HasToken(s.Raw, token) || c07HasToken(s.Canon, token) {
			if s.Err != "" {
				return fmt.Sprintf("stage produced %q, rejected by NormalizeURL: %s", s.Raw, s.Err)
			}
			return fmt.Sprintf("stage produced %q, requested as %q", s.Raw, s.Canon)
		}
	}
	return "no URL with this token left the stage"
}

func c07HasToken(s, token string) bool {
	for i := 0; ; {
		j := strings.Index(s[i:], token)
		if j < 0 {
			return false
		}
		end := i + j + len(token)
		if end >= len(s) || s[end] < '0' || s[end] > '9' {
			return true
		}
		i = end
	}
}

// c07Class names the input class of a planted reference that an open known finding covers ("" = none).
// The same label is part of the failure message, so that known_findings.json can match on it.
func c07Class(c c07Case, p verifgen.HTMLPlanted) string {
	switch {
	case p.Elem == "[style]" && strings.Contains(p.Text, "%"):
		// applies whatever the padding: the percent heuristic looks at the whole parenthesised group
		return "style-attr-url-with-percent"
	case p.Pad == "srcset-ws":
		return "srcset-descriptor-after-tab-or-newline"
	case p.Pad != "" && p.Attr == "srcset":
		return "" // white space around a srcset value is part of the srcset grammar and is handled
	case p.Pad != "" && p.Kind == "outlink":
		return "padded-a-href"
	case p.Pad != "" && p.Elem == "style":
		return "padded-style-url"
	case p.Pad != "" && p.Elem == "[style]":
		return "padded-style-attr-url"
	case p.Pad != "":
		return "padded-asset-attribute"
	case p.Kind == "outlink" && c.DisableAssets:
		return "outlinks-dropped-when-assets-capture-off"
	case p.Elem == "style" && p.Ref.Kind == "scheme-rel" && c.Page.Scheme == "https":
		return "style-scheme-relative-on-https"
	case p.Elem == "[style]" && strings.Contains(p.Text, "%"):
		return "style-attr-url-with-percent"
	}
	return ""
}

// c07Key maps a class to the key of its known_findings.json entry.
var c07Key = map[string]string{
	"style-scheme-relative-on-https":           "C07-style-scheme-relative-http",
	"padded-a-href":                            "C07-padded-a-href",
	"padded-asset-attribute":                   "C07-padded-asset-attribute",
	"padded-style-url":                         "C07-padded-css-url",
	"padded-style-attr-url":                    "C07-padded-css-url",
	"style-attr-url-with-percent":              "C07-style-attr-percent",
	"outlinks-dropped-when-assets-capture-off": "C07-no-outlinks-when-assets-off",
	"srcset-descriptor-after-tab-or-newline":   "C07-srcset-descriptor-whitespace",
}

// c07Check is the oracle shared by the facets. kinds selects which planted references this facet is responsible for.
func c07Check(t veriflib.TB, facet string, c c07Case, kinds string) {
	res := c07Run(t, c)
	hopsAllow := c.Hops < c.MaxHops
	required, checked := 0, 0
	var classes []string
	for _, p := range c.Doc.Planted {
		if kinds != "" && p.Kind != kinds {
			continue
		}
		req := p.Required(c.Disabled, c.CaptureAlt, c.DisableAssets, hopsAllow)
		if !req {
			classes = append(classes, "exempt:"+c07Exemption(c, p, hopsAllow))
			continue
		}
		required++
		class := c07Class(c, p)
		if class != "" && veriflib.FindingOpen(c07Key[class]) {
			veriflib.Excluded(facet, "open finding "+c07Key[class]+" ("+class+")")
			continue
		}
		want, _ := verifgen.HTMLExpect(res.PageURL, p.Ref)
		if len(c.Via) > 0 {
			if ex := c07ViaExempt(res, want); ex != "" {
				classes = append(classes, "exempt:"+ex)
				continue
			}
		}
		seen := res.Assets
		what := "requested as an asset"
		if p.Kind == "outlink" {
			seen, what = res.Outlinks, "handed over as an outlink"
		}
		if !c07Match(seen, want) {
			wq := ""
			if want.HasQuery {
				wq = "?" + want.Query
			}
			veriflib.Fail(t, "C07", facet, c, res,
				"planted reference %q (%s, quoting %s, form %s, token %s, class=%s) in a page at %s was not %s: expected %s://%s%s%s; %s",
				p.Text, c07Where(p), p.Quote, p.Ref.Kind, p.Token, c07OrNone(class), res.PageURL, what,
				want.Scheme, want.Authority, want.Path, wq, c07Closest(seen, p.Token))
		}
		checked++
		classes = append(classes, "elem:"+p.ElemAttr(), "quote:"+p.Quote, "ref:"+p.Ref.Kind, "combo:"+p.Combo(), "tokin:"+p.TokIn, fmt.Sprintf("depth:%d", p.Depth))
		if p.Rel != "" {
			classes = append(classes, "rel:"+p.Rel)
		}
		if p.Within != "" {
			classes = append(classes, "within:"+p.Elem+"<"+p.Within)
		}
		if p.Amp != "" {
			classes = append(classes, "amp:"+p.Amp)
		}
		if p.Pad != "" {
			classes = append(classes, fmt.Sprintf("pad:%q", p.Pad))
		}
	}
	combos := c07Combos(c, kinds)
	classes = append(classes, "page:"+c.Page.Scheme, fmt.Sprintf("required:%d", min(required, 12)))
	if len(c.Disabled) > 0 {
		for _, d := range c.Disabled {
			classes = append(classes, "disabled:"+d)
		}
	}
	if c.DisableAssets {
		classes = append(classes, "assets-capture:off")
	}
	if !hopsAllow {
		classes = append(classes, "hops:limit-reached")
	}
	// non-trivial: >= 3 distinct (element, quoting, reference form) combinations among the checked references
	nt := len(combos) >= 3 && checked >= 3
	veriflib.Record(facet, strings.Join(combos, ";"), nt, classes, func() any {
		return map[string]any{"page": res.PageURL, "settings": map[string]any{"hops": c.Hops, "max_hops": c.MaxHops, "disable_html_tag": c.Disabled, "capture_alternate_pages": c.CaptureAlt, "disable_assets_capture": c.DisableAssets},
			"document": res.Body, "combinations": combos, "checked": checked}
	})
}

func c07OrNone(s string) string {
	if s == "" {
		return "none"
	}
	return s
}

func c07Where(p verifgen.HTMLPlanted) string {
	s := "<" + p.Elem + " " + p.Attr + ">"
	if p.Elem == "style" {
		s = "<style> url()"
	} else if p.Elem == "[style]" {
		s = "style attribute url() on " + p.Within
	}
	if p.Rel != "" {
		s += " rel=" + p.Rel
	}
	if p.Within != "" && p.Elem == "source" {
		s += " inside " + p.Within
	}
	if p.Pad != "" {
		s += fmt.Sprintf(" padded %q", p.Pad)
	}
	return s
}

func c07Exemption(c c07Case, p verifgen.HTMLPlanted, hopsAllow bool) string {
	switch {
	case p.Tag != "" && slices.Contains(c.Disabled, p.Tag):
		return "tag-disabled:" + p.Tag
	case p.Kind == "outlink" && !hopsAllow:
		return "hop-limit"
	case p.Kind == "asset" && c.DisableAssets:
		return "assets-capture-off"
	default:
		return "rel-alternate"
	}
}

func c07Combos(c c07Case, kinds string) []string {
	set := map[string]bool{}
	for _, p := range c.Doc.Planted {
		if kinds == "" || p.Kind == kinds {
			set[p.Combo()] = true
		}
	}
	out := make([]string, 0, len(set))
	for k := range set {
		out = append(out, k)
	}
	slices.Sort(out)
	return out
}

// ---- generators of settings -----------------------------------------------------------------------

var c07Tags = []string{"a", "img", "video", "audio", "style", "script", "link", "meta", "source", "div", "picture"}

func genC07Default(t *rapid.T, o verifgen.HTMLOpts) c07Case {
	// default settings of a crawl with hops allowed: nothing disabled, assets on
	c := c07Case{Page: verifgen.WFAbsGen(t, "page"), Hops: rapid.IntRange(0, 1).Draw(t, "hops"), CaptureAlt: rapid.Bool().Draw(t, "capalt")}
	c.MaxHops = c.Hops + rapid.IntRange(1, 2).Draw(t, "hopsleft")
	c.Doc = verifgen.HTMLDocGen(t, "doc", o)
	return c
}

func genC07Config(t *rapid.T) c07Case {
	c := c07Case{Page: verifgen.WFAbsGen(t, "page"), Hops: rapid.IntRange(0, 2).Draw(t, "hops"), MaxHops: rapid.IntRange(0, 2).Draw(t, "maxhops"),
		CaptureAlt: rapid.Bool().Draw(t, "capalt"), DisableAssets: rapid.IntRange(0, 4).Draw(t, "assetsoff") == 0}
	n := rapid.IntRange(0, 3).Draw(t, "ndisabled")
	for i := 0; i < n; i++ {
		d := c07Tags[rapid.IntRange(0, len(c07Tags)-1).Draw(t, "disabled")]
		if !slices.Contains(c.Disabled, d) {
			c.Disabled = append(c.Disabled, d)
		}
	}
	c.Doc = verifgen.HTMLDocGen(t, "doc", verifgen.HTMLOpts{})
	return c
}

func c07Facet(t *testing.T, facet string, gen func(*rapid.T) c07Case, kinds string) {
	defer veriflib.Flush()
	var rc c07Case
	if veriflib.ReplayCase(facet, &rc) {
		c07Check(t, facet, rc, kinds)
		return
	} else if veriflib.Replaying() {
		t.Skip()
	}
	rapid.Check(t, func(t *rapid.T) {
		c := gen(t)
		veriflib.Guard("C07", facet, c, func() { c07Check(t, facet, c, kinds) })
	})
}

// ---- facets ---------------------------------------------------------------------------------------

// (a) every embedding attribute of the statement, default settings: all planted requisites are requested.
func TestVerif_C07_Assets(t *testing.T) {
	c07Facet(t, "C07/assets", func(t *rapid.T) c07Case { return genC07Default(t, verifgen.HTMLOpts{}) }, "asset")
}

// (b) anchors are handed over as outlinks, resolved against the page, while hops < max-hops.
func TestVerif_C07_Outlinks(t *testing.T) {
	c07Facet(t, "C07/outlinks", func(t *rapid.T) c07Case { return genC07Default(t, verifgen.HTMLOpts{Anchors: true}) }, "outlink")
}

// (c) settings: --disable-html-tag lists, --capture-alternate-pages, --disable-assets-capture, hop limits. A switch
// only lifts the obligation for the references it names; everything else stays required. (Absence is not asserted.)
func TestVerif_C07_Config(t *testing.T) {
	c07Facet(t, "C07/config", genC07Config, "")
}

// (d) separate class: attribute values and url() arguments padded with ASCII white space (candidate defect 18).
func TestVerif_C07_PaddedAssets(t *testing.T) {
	c07Facet(t, "C07/padded-assets", func(t *rapid.T) c07Case { return genC07Default(t, verifgen.HTMLOpts{Pad: true}) }, "asset")
}

func TestVerif_C07_PaddedOutlinks(t *testing.T) {
	c07Facet(t, "C07/padded-outlinks", func(t *rapid.T) c07Case { return genC07Default(t, verifgen.HTMLOpts{Pad: true, Anchors: true}) }, "outlink")
}

// (e) separate class: tab / newline between a srcset URL and its descriptor.
func TestVerif_C07_SrcsetWS(t *testing.T) {
	c07Facet(t, "C07/srcset-ws", func(t *rapid.T) c07Case { return genC07Default(t, verifgen.HTMLOpts{SrcsetWS: true}) }, "asset")
}

// ---- strict sub-checks of the open known findings (one minimal concrete document each) ---------------
// Run by the driver with VERIF_STRICT=1 while the finding is listed as open; each is expected to fail with its
// class label in the message. Once the defect is repaired the entry becomes "fixed" and the class is simply part of
// the facets above.

func c07KFCase(page verifgen.WFAbs, place string, node verifgen.HTMLNode, p verifgen.HTMLPlanted) c07Case {
	p.Token, p.Text, p.Place, p.TokIn = "zt1", p.Ref.Text(), place, "path"
	c := c07Case{Page: page, Hops: 0, MaxHops: 1, Doc: verifgen.HTMLDoc{Planted: []verifgen.HTMLPlanted{p}}}
	if place == "head" {
		c.Doc.Head = []verifgen.HTMLNode{node}
	} else {
		c.Doc.Body = []verifgen.HTMLNode{node}
	}
	return c
}

func c07KFRun(t *testing.T, facet string, c c07Case) {
	defer veriflib.Flush()
	if veriflib.Replaying() {
		var rc c07Case
		if !veriflib.ReplayCase(facet, &rc) {
			t.Skip()
		}
		c = rc
	}
	c07Check(t, facet, c, "")
}

var c07KFPage = verifgen.WFAbs{Scheme: "https", Host: "example.com", Segs: []string{"dir", "index.html"}}

// candidate 17: <style> url(//host/x) on an https page is requested over http.
func TestVerifKF_C07_StyleSchemeRelative(t *testing.T) {
	ref := verifgen.WFRef{Kind: "scheme-rel", Abs: &verifgen.WFAbs{Scheme: "https", Host: "cdn.site.net", Segs: []string{"img", "zt1.png"}}}
	node := verifgen.HTMLNode{Tag: "style", Text: "body { background: url(" + ref.Text() + ") }"}
	c07KFRun(t, "C07/kf-style-scheme-relative-http", c07KFCase(c07KFPage, "head", node,
		verifgen.HTMLPlanted{Kind: "asset", Elem: "style", Attr: "url()", Tag: "style", Quote: "css-bare", Ref: ref}))
}

// candidate 18: <a href=" img/x.png "> — surrounding white space is kept (and percent-encoded) instead of stripped.
func TestVerifKF_C07_PaddedAHref(t *testing.T) {
	ref := verifgen.WFRef{Kind: "path-rel", Segs: []string{"img", "zt1.png"}}
	node := verifgen.HTMLNode{Tag: "a", Attrs: []verifgen.HTMLAttr{{Name: "href", Value: " " + ref.Text() + " ", Quote: `"`}}, Kids: []verifgen.HTMLNode{{Tag: "#text", Text: "x"}}}
	c07KFRun(t, "C07/kf-padded-a-href", c07KFCase(c07KFPage, "body", node,
		verifgen.HTMLPlanted{Kind: "outlink", Elem: "a", Attr: "href", Tag: "a", Quote: "dq", Pad: " | ", Ref: ref}))
}

// <img src=" https://host/x.png"> — a padded absolute URL (or any value padded with tab / newline) is dropped.
func TestVerifKF_C07_PaddedAssetAttribute(t *testing.T) {
	ref := verifgen.WFRef{Kind: "abs", Abs: &verifgen.WFAbs{Scheme: "https", Host: "cdn.site.net", Segs: []string{"img", "zt1.png"}}}
	node := verifgen.HTMLNode{Tag: "img", Attrs: []verifgen.HTMLAttr{{Name: "src", Value: " " + ref.Text(), Quote: `"`}}}
	c07KFRun(t, "C07/kf-padded-asset-attribute", c07KFCase(c07KFPage, "body", node,
		verifgen.HTMLPlanted{Kind: "asset", Elem: "img", Attr: "src", Tag: "img", Quote: "dq", Pad: " |", Ref: ref}))
}

// style="background: url( 'img/x.png' )" — white space inside the parentheses keeps the quotes in the URL.
func TestVerifKF_C07_PaddedCSSURL(t *testing.T) {
	ref := verifgen.WFRef{Kind: "path-rel", Segs: []string{"img", "zt1.png"}}
	node := verifgen.HTMLNode{Tag: "div", Attrs: []verifgen.HTMLAttr{{Name: "style", Value: "background: url( '" + ref.Text() + "' )", Quote: `"`}}, Kids: []verifgen.HTMLNode{{Tag: "#text", Text: "x"}}}
	c07KFRun(t, "C07/kf-padded-css-url", c07KFCase(c07KFPage, "body", node,
		verifgen.HTMLPlanted{Kind: "asset", Elem: "[style]", Attr: "url()", Quote: "dq+css-sq", Within: "div", Pad: " | ", Ref: ref}))
}

// style="background: url(img/x.png?q=x%20y)" — a percent-escape makes the style-attribute heuristic skip the URL.
func TestVerifKF_C07_StyleAttrPercent(t *testing.T) {
	ref := verifgen.WFRef{Kind: "path-rel", Segs: []string{"img", "zt1.png"}, HasQ: true, Query: []verifgen.KV{{K: "q", V: "x%20y", HasEq: true}}}
	node := verifgen.HTMLNode{Tag: "div", Attrs: []verifgen.HTMLAttr{{Name: "style", Value: "background: url(" + ref.Text() + ")", Quote: `"`}}, Kids: []verifgen.HTMLNode{{Tag: "#text", Text: "x"}}}
	c07KFRun(t, "C07/kf-style-attr-percent", c07KFCase(c07KFPage, "body", node,
		verifgen.HTMLPlanted{Kind: "asset", Elem: "[style]", Attr: "url()", Quote: "dq+css-bare", Within: "div", Ref: ref}))
}

// --disable-assets-capture with hops left: postprocessItem returns before outlinks are extracted.
func TestVerifKF_C07_NoOutlinksWhenAssetsOff(t *testing.T) {
	ref := verifgen.WFRef{Kind: "path-abs", Segs: []string{"next", "zt1.html"}}
	node := verifgen.HTMLNode{Tag: "a", Attrs: []verifgen.HTMLAttr{{Name: "href", Value: ref.Text(), Quote: `"`}}, Kids: []verifgen.HTMLNode{{Tag: "#text", Text: "next"}}}
	c := c07KFCase(c07KFPage, "body", node, verifgen.HTMLPlanted{Kind: "outlink", Elem: "a", Attr: "href", Tag: "a", Quote: "dq", Ref: ref})
	c.DisableAssets = true
	c07KFRun(t, "C07/kf-no-outlinks-when-assets-off", c)
}

// srcset="a.png<TAB>320w" — candidates are cut at the first space only, so URL and descriptor stay glued together.
func TestVerifKF_C07_SrcsetDescriptorWhitespace(t *testing.T) {
	ref := verifgen.WFRef{Kind: "path-rel", Segs: []string{"img", "zt1.png"}}
	node := verifgen.HTMLNode{Tag: "img", Attrs: []verifgen.HTMLAttr{{Name: "srcset", Value: ref.Text() + "\t320w", Quote: `"`}}}
	c07KFRun(t, "C07/kf-srcset-descriptor-whitespace", c07KFCase(c07KFPage, "body", node,
		verifgen.HTMLPlanted{Kind: "asset", Elem: "img", Attr: "srcset", Tag: "img", Quote: "dq", Pad: "srcset-ws", Ref: ref}))
}

// ---- facet C07/same-name ----------------------------------------------------------------------------------------
//
// Several requisites of one page that share a file name and differ only in where the reference points: the page's own
// directory, its parent, the site root, another host. Each is a different resource ("resolved against the page's URL as
// a browser would") and every one of them must be requested.

func genC07SameName(t *rapid.T) c07Case {
	page := verifgen.WFAbs{Scheme: []string{"http", "https"}[rapid.IntRange(0, 1).Draw(t, "scheme")], Host: "example.com",
		Segs: [][]string{{"blog", "2024", "post.html"}, {"a", "b", "c", "index.html"}, {"dir", "page"}}[rapid.IntRange(0, 2).Draw(t, "pagepath")]}
	name := []string{"logo.png", "style.css", "app.js", "pic.v2.jpg"}[rapid.IntRange(0, 3).Draw(t, "name")]
	forms := []verifgen.WFRef{
		{Kind: "path-rel", Segs: []string{name}},
		{Kind: "path-rel", Segs: []string{".", name}},
		{Kind: "path-rel", Segs: []string{"..", name}},
		{Kind: "path-abs", Segs: []string{name}},
		{Kind: "path-abs", Segs: []string{"static", name}},
		{Kind: "path-rel", Segs: []string{"static", name}},
		{Kind: "scheme-rel", Abs: &verifgen.WFAbs{Scheme: page.Scheme, Host: "cdn.site.net", Segs: []string{name}}},
		{Kind: "abs", Abs: &verifgen.WFAbs{Scheme: "https", Host: "media.example.com", Segs: []string{name}}},
	}
	perm := rapid.Permutation(forms).Draw(t, "order")
	n := rapid.IntRange(2, len(perm)).Draw(t, "n")
	c := c07Case{Page: page, Hops: 0, MaxHops: 1}
	for i, ref := range perm[:n] {
		p := verifgen.HTMLPlanted{Kind: "asset", Elem: "img", Attr: "src", Tag: "img", Quote: "dq", Ref: ref, Token: name, Text: ref.Text(), Place: "body", TokIn: "path"}
		node := verifgen.HTMLNode{Tag: "img", Attrs: []verifgen.HTMLAttr{{Name: "src", Value: ref.Text(), Quote: `"`}}}
		if rapid.IntRange(0, 3).Draw(t, fmt.Sprintf("aslink%d", i)) == 0 && strings.HasSuffix(name, ".css") {
			p.Elem, p.Attr, p.Tag, p.Rel, p.Place = "link", "href", "link", "stylesheet", "head"
			node = verifgen.HTMLNode{Tag: "link", Attrs: []verifgen.HTMLAttr{{Name: "rel", Value: "stylesheet", Quote: `"`}, {Name: "href", Value: ref.Text(), Quote: `"`}}}
			c.Doc.Head = append(c.Doc.Head, node)
		} else {
			c.Doc.Body = append(c.Doc.Body, node)
		}
		c.Doc.Planted = append(c.Doc.Planted, p)
	}
	return c
}

func TestVerif_C07_SameName(t *testing.T) {
	c07Facet(t, "C07/same-name", genC07SameName, "")
}


// ---- facet C07/redirected-page -----------------------------------------------------------------------------------
//
// "resolved against the page's URL as a browser would" - the page, not the seed: a seed that redirects (once to three
// times, to another directory, host or scheme) ends on a page whose relative requisites belong below the page's URL.
// The requisites go through the real preprocessor pass on the whole tree.

// c07ViaExempt: what the preprocessor pass legitimately does not request - a reference that resolves to a bare origin
// (removed as a false-positive asset) or to a URL the tree already holds (the page itself, the seed, a hop: de-duplicated).
func c07ViaExempt(res c07Result, want verifref.URLParts) string {
	if want.Path == "" || want.Path == "/" {
		return "bare-origin-asset"
	}
	wantPairs, _ := verifref.DecodeQuery(want.Query)
	for _, u := range append(append([]string{}, res.ViaURLs...), res.PageURL) {
		if p, ok := verifref.SplitURL(u); ok && p.Scheme == want.Scheme && p.Authority == want.Authority && p.Path == want.Path {
			pairs, _ := verifref.DecodeQuery(p.Query)
			if verifref.PairsEqual(pairs, wantPairs) {
				return "already-in-the-tree"
			}
		}
	}
	return ""
}

func genC07Redirected(t *rapid.T) c07Case {
	c := c07Case{Page: verifgen.WFAbsGen(t, "page"), Hops: rapid.IntRange(0, 1).Draw(t, "hops"), CaptureAlt: rapid.Bool().Draw(t, "capalt")}
	c.MaxHops = c.Hops + 1
	n := rapid.IntRange(1, 3).Draw(t, "nvia")
	for i := 0; i < n; i++ {
		v := verifgen.WFAbsGen(t, fmt.Sprintf("via%d", i))
		switch rapid.IntRange(0, 3).Draw(t, fmt.Sprintf("viakind%d", i)) {
		case 0: // same site, another directory
			v.Scheme, v.Host, v.Port = c.Page.Scheme, c.Page.Host, c.Page.Port
		case 1: // http -> https upgrade of the same URL shape
			v.Host, v.Port = c.Page.Host, ""
			v.Scheme = map[string]string{"http": "https", "https": "http"}[c.Page.Scheme]
		}
		// every hop is a URL of its own (a redirect to a URL already in the tree is de-duplicated, never followed)
		v.Segs = append(append([]string{}, v.Segs...), fmt.Sprintf("hop%d", i))
		c.Via = append(c.Via, v)
	}
	c.Doc = verifgen.HTMLDocGen(t, "doc", verifgen.HTMLOpts{})
	return c
}

func TestVerif_C07_RedirectedPage(t *testing.T) {
	c07Facet(t, "C07/redirected-page", genC07Redirected, "asset")
}
