//go:build verif

package extractor

// VerifC10ExtractFromScriptContent exposes the unexported <script> payload scraper to the C10 harness, which
// lives in package postprocessor (overlay only: this file does not exist in /repo).
func VerifC10ExtractFromScriptContent(content string) ([]string, error) {
	return extractFromScriptContent(content)
}
