package extractor

// C19 — structured documents yield all their links; bucket listings are fully walked (extractor-level facets).
//
// Oracles: URLs are planted by construction (verifgen/docs.go), so "extractor output ⊇ planted URL texts" needs no
// parser of ours; the S3 facet walks a MODEL bucket server (verifgen.S3Server) through the real extractor.S3 and
// compares the set of object URLs reached with the model's key set.

import (
	"fmt"
	"net/http"
	"net/url"
	"os"
	"sort"
	"strings"
	"testing"

	"github.com/CorentinB/warc/pkg/spooledtempfile"
	"github.com/gabriel-vasile/mimetype"
	"github.com/internetarchive/Zeno/internal/pkg/verifgen"
	"github.com/internetarchive/Zeno/internal/pkg/veriflib"
	"github.com/internetarchive/Zeno/pkg/models"
	"pgregory.net/rapid"
)

// keys of the open findings this file knows about (see /verif/known_findings.json)
const (
	c19KeyJSONQuery = "C19-json-fasturl-rejects-rfc3986-url"
	c19KeyXMLFirst  = "C19-xml-chardata-starting-with-url-taken-whole"
	c19KeyS3Mixed   = "C19-s3v2-contents-dropped-with-commonprefixes"
	c19KeyExtRoot   = "C19-hasfileextension-url-without-path"
)

// c19MkURL builds the URL object an extractor receives after archiver.ProcessBody: request, response headers,
// MIME type detected from the first 2 KiB, body in a spooled temp file rewound to the start.
func c19MkURL(body []byte, contentType, reqURL, server string) *models.URL {
	u := &models.URL{Raw: reqURL}
	if err := u.Parse(); err != nil {
		panic("c19MkURL: " + err.Error())
	}
	ru, err := url.Parse(reqURL)
	if err != nil {
		panic("c19MkURL: " + err.Error())
	}
	u.SetRequest(&http.Request{Method: "GET", URL: ru})
	h := http.Header{"Content-Type": []string{contentType}}
	if server != "" {
		h.Set("Server", server)
	}
	u.SetResponse(&http.Response{StatusCode: 200, Header: h})
	sp := spooledtempfile.NewSpooledTempFile("c19", os.TempDir(), 2097152, false, -1)
	sp.Write(body)
	u.SetBody(sp)
	u.RewindBody()
	head := body
	if len(head) > 2048 {
		head = head[:2048]
	}
	u.SetMIMEType(mimetype.Detect(head))
	return u
}

func c19Raws(lists ...[]*models.URL) map[string]bool {
	m := map[string]bool{}
	for _, l := range lists {
		for _, u := range l {
			if u != nil {
				m[u.Raw] = true
			}
		}
	}
	return m
}

func c19Sorted(m map[string]bool) []string {
	out := make([]string, 0, len(m))
	for k := range m {
		out = append(out, k)
	}
	sort.Strings(out)
	if len(out) > 60 {
		out = out[:60]
	}
	return out
}

func c19Bucket(n int, lim ...int) string {
	for _, l := range lim {
		if n <= l {
			return fmt.Sprintf("<=%d", l)
		}
	}
	return fmt.Sprintf(">%d", lim[len(lim)-1])
}

// ---- facet JSON ----------------------------------------------------------------------------------

func propC19JSON(t veriflib.TB, d verifgen.JSONDoc) {
	const facet = "C19/json"
	body := d.Render()
	u := c19MkURL(body, "application/json", "https://api.example.org/v1/doc.json", "")
	defer u.GetBody().Close()
	if !IsJSON(u) {
		veriflib.Fail(t, "C19", facet, d, string(body), "IsJSON is false for Content-Type application/json")
	}
	assets, outlinks, err := JSON(u)
	if err != nil {
		veriflib.Fail(t, "C19", facet, d, string(body), "extractor.JSON failed on a valid document: %v", err)
	}
	got := c19Raws(assets, outlinks)
	tolerant := veriflib.FindingOpen(c19KeyJSONQuery)
	for _, p := range d.Planted {
		if got[p.Text] {
			continue
		}
		if tolerant && (strings.Contains(p.Shape, "+q-slash") || strings.Contains(p.Shape, "+emptyseg")) {
			veriflib.Excluded(facet, "open finding "+c19KeyJSONQuery+": URL with '/' or '?' in its query or an empty path segment")
			continue
		}
		veriflib.Fail(t, "C19", facet, d, map[string]any{"document": string(body), "returned": c19Sorted(got)},
			"JSON string value %q (%s, shape %s) was not discovered; document: %s", p.Text, p.Where, p.Shape, c19Clip(string(body)))
	}
	nt := d.Depth >= 3 || len(d.Planted) >= 2
	cl := append(verifgen.DocURLClasses(d.Planted), "depth:"+c19Bucket(d.Depth, 1, 2, 4, 6), "urls:"+c19Bucket(len(d.Planted), 1, 3, 8),
		fmt.Sprintf("pretty:%d", d.Pretty), "top:"+d.Root.K)
	if d.Embeds > 0 {
		cl = append(cl, "json-in-string:yes")
	}
	veriflib.Record(facet, veriflib.JSON(d), nt, cl, func() any {
		return map[string]any{"document": c19Clip(string(body)), "planted": len(d.Planted), "returned": len(got)}
	})
}

func c19Clip(s string) string {
	if len(s) > 1500 {
		return s[:1500] + "…"
	}
	return s
}

func TestVerif_C19_JSON(t *testing.T) {
	defer veriflib.Flush()
	var rc verifgen.JSONDoc
	if veriflib.ReplayCase("C19/json", &rc) {
		propC19JSON(t, rc)
		return
	} else if veriflib.Replaying() {
		t.Skip()
	}
	rapid.Check(t, func(t *rapid.T) {
		d := verifgen.GenJSONDoc(t, verifgen.DocURLOpt{RFCQuery: true, Root: true})
		veriflib.Guard("C19", "C19/json", d, func() { propC19JSON(t, d) })
	})
}

// strict reproduction of the open finding: a URL whose query contains '/' is not discovered
func TestVerifKF_C19_json_rfc3986_url(t *testing.T) {
	defer veriflib.Flush()
	p := verifgen.DocURL{Text: "https://example.com/login-k0q?next=/home", Shape: "noext+q-slash", Where: "value"}
	propC19JSON(t, verifgen.JSONDoc{Root: verifgen.JNode{K: "obj", Keys: []string{"next"}, Kids: []verifgen.JNode{{K: "url", S: p.Text}}}, Planted: []verifgen.DocURL{p}, Depth: 1})
}

// ---- facet XML -----------------------------------------------------------------------------------

func c19XMLContentType(flavor string, pickN int) string {
	switch flavor {
	case "rss":
		return []string{"application/rss+xml; charset=utf-8", "text/xml", "application/xml"}[pickN%3]
	case "atom":
		return []string{"application/atom+xml", "application/xml; charset=UTF-8", "text/xml"}[pickN%3]
	default:
		return []string{"application/xml", "text/xml; charset=utf-8", "application/xml"}[pickN%3]
	}
}

func propC19XML(t veriflib.TB, d verifgen.XMLDoc) {
	const facet = "C19/xml"
	body := d.Render()
	u := c19MkURL(body, c19XMLContentType(d.Flavor, len(body)), "https://www.example.org/feeds/doc.xml", "")
	defer u.GetBody().Close()
	sitemap := d.Flavor == "sitemap" || d.Flavor == "sitemapindex"
	if IsSitemapXML(u) != sitemap {
		veriflib.Fail(t, "C19", facet, d, string(body), "IsSitemapXML = %v for a %s document", !sitemap, d.Flavor)
	}
	if IsXML(u) == sitemap {
		veriflib.Fail(t, "C19", facet, d, string(body), "IsXML = %v for a %s document", sitemap, d.Flavor)
	}
	assets, outlinks, err := XML(u)
	if err != nil {
		veriflib.Fail(t, "C19", facet, d, string(body), "extractor.XML failed on a well-formed document: %v", err)
	}
	got := c19Raws(assets, outlinks)
	tolerant := veriflib.FindingOpen(c19KeyXMLFirst)
	for _, p := range d.Planted {
		if got[p.Text] {
			continue
		}
		if tolerant && verifgen.XMLWhereFirstURL[p.Where] {
			veriflib.Excluded(facet, "open finding "+c19KeyXMLFirst+": "+p.Where)
			continue
		}
		near := ""
		for g := range got {
			if strings.Contains(g, p.Text) {
				near = fmt.Sprintf(" (closest returned value: %q)", g)
			}
		}
		veriflib.Fail(t, "C19", facet, d, map[string]any{"document": string(body), "returned": c19Sorted(got)},
			"XML URL %q planted as %s (shape %s) was not discovered%s; document: %s", p.Text, p.Where, p.Shape, near, c19Clip(string(body)))
	}
	nt := d.Depth >= 3 || len(d.Planted) >= 2
	cl := append(verifgen.DocURLClasses(d.Planted), "flavor:"+d.Flavor, "depth:"+c19Bucket(d.Depth, 2, 3, 5), "urls:"+c19Bucket(len(d.Planted), 1, 3, 8),
		fmt.Sprintf("pretty:%d", d.Pretty), fmt.Sprintf("decl:%d", d.Decl))
	if d.CRLF {
		cl = append(cl, "eol:crlf")
	}
	veriflib.Record(facet, veriflib.JSON(d), nt, cl, func() any {
		return map[string]any{"document": c19Clip(string(body)), "planted": len(d.Planted), "returned": len(got)}
	})
}

func TestVerif_C19_XML(t *testing.T) {
	defer veriflib.Flush()
	var rc verifgen.XMLDoc
	if veriflib.ReplayCase("C19/xml", &rc) {
		propC19XML(t, rc)
		return
	} else if veriflib.Replaying() {
		t.Skip()
	}
	rapid.Check(t, func(t *rapid.T) {
		d := verifgen.GenXMLDoc(t, "", verifgen.DocURLOpt{RFCQuery: true, Root: true})
		veriflib.Guard("C19", "C19/xml", d, func() { propC19XML(t, d) })
	})
}

// strict reproduction: <loc>URL\n</loc> — the character data starts with the URL and continues with white space
func TestVerifKF_C19_xml_url_first(t *testing.T) {
	defer veriflib.Flush()
	p := verifgen.DocURL{Text: "https://example.com/page-k0q", Shape: "noext", Where: "text-trail"}
	propC19XML(t, verifgen.XMLDoc{Flavor: "sitemap", Decl: 1, Pretty: 1, Planted: []verifgen.DocURL{p}, Depth: 3,
		Root: verifgen.XNode{K: "elem", Name: "urlset", Attrs: []verifgen.XAttr{{Name: "xmlns", Value: "http://www.sitemaps.org/schemas/sitemap/0.9", Quote: `"`}},
			Kids: []verifgen.XNode{{K: "elem", Name: "url", Kids: []verifgen.XNode{{K: "elem", Name: "loc", Kids: []verifgen.XNode{{K: "text", S: p.Text + "\n    "}}}}}}}})
}

// ---- facet M3U8 ----------------------------------------------------------------------------------

func propC19M3U8(t veriflib.TB, d verifgen.M3U8Doc) {
	const facet = "C19/m3u8"
	body := d.Render()
	ct := []string{"application/vnd.apple.mpegurl", "application/x-mpegURL", "Application/X-MPEGURL; charset=utf-8"}[len(body)%3]
	u := c19MkURL(body, ct, "https://media.example.com/hls/master.m3u8", "")
	defer u.GetBody().Close()
	if !IsM3U8(u) {
		veriflib.Fail(t, "C19", facet, d, string(body), "IsM3U8 is false for Content-Type %s", ct)
	}
	assets, err := M3U8(u)
	if err != nil {
		veriflib.Fail(t, "C19", facet, d, string(body), "extractor.M3U8 failed on a valid playlist: %v", err)
	}
	got := c19Raws(assets)
	for _, p := range d.Planted {
		if !got[p.Text] {
			veriflib.Fail(t, "C19", facet, d, map[string]any{"document": string(body), "returned": c19Sorted(got)},
				"M3U8 %s URI %q (%s) was not discovered; playlist: %s", p.Where, p.Text, p.Shape, c19Clip(string(body)))
		}
	}
	nt := len(d.Planted) >= 2
	cl := verifgen.DocURLClasses(d.Planted)
	if d.Master {
		cl = append(cl, "kind:master")
		if d.MediaAfterLastVariant() {
			cl = append(cl, "order:rendition-after-last-variant")
		}
	} else {
		cl = append(cl, "kind:media", "segments:"+c19Bucket(len(d.Planted), 1, 8, 24, 1024))
	}
	if d.CRLF {
		cl = append(cl, "eol:crlf")
	}
	veriflib.Record(facet, veriflib.JSON(d), nt, cl, func() any {
		return map[string]any{"playlist": c19Clip(string(body)), "planted": len(d.Planted), "returned": len(got)}
	})
}

func TestVerif_C19_M3U8(t *testing.T) {
	defer veriflib.Flush()
	var rc verifgen.M3U8Doc
	if veriflib.ReplayCase("C19/m3u8", &rc) {
		propC19M3U8(t, rc)
		return
	} else if veriflib.Replaying() {
		t.Skip()
	}
	rapid.Check(t, func(t *rapid.T) {
		d := verifgen.GenM3U8Doc(t)
		veriflib.Guard("C19", "C19/m3u8", d, func() { propC19M3U8(t, d) })
	})
}

// ---- facet S3 walk -------------------------------------------------------------------------------

// c19WalkResult is the history of one walk.
type c19WalkResult struct {
	Reached  map[string]bool `json:"-"`
	Requests []string        `json:"requests"`
	Foreign  []string        `json:"foreign,omitempty"`
	Errors   []string        `json:"errors,omitempty"`
	Aborted  bool            `json:"aborted"`
}

// c19S3Walk follows a bucket from its root listing URL: every link the real extractor returns is fed back — listing
// URLs are fetched from the model server and extracted again, other links of the bucket are object URLs — until no
// new link appears (links are deduplicated by their text, as the crawler's seen-check would) or limit is exceeded.
func c19S3Walk(b verifgen.S3Bucket, limit int, extract func(*models.URL) ([]string, error)) c19WalkResult {
	srv := verifgen.NewS3Server(b)
	res := c19WalkResult{Reached: map[string]bool{}}
	queue := []string{b.RootURL()}
	seen := map[string]bool{queue[0]: true}
	for len(queue) > 0 {
		link := queue[0]
		queue = queue[1:]
		if len(res.Requests) >= limit {
			res.Aborted = true
			return res
		}
		res.Requests = append(res.Requests, link)
		status, ct, body := srv.Get(link)
		if status != 200 {
			res.Errors = append(res.Errors, fmt.Sprintf("%s -> HTTP %d", link, status))
			continue // the crawler does not post-process error responses
		}
		u := c19MkURL(body, ct, link, b.Server)
		links, err := extract(u)
		u.GetBody().Close()
		if err != nil {
			res.Errors = append(res.Errors, fmt.Sprintf("%s -> %v", link, err))
			continue
		}
		for _, l := range links {
			if seen[l] {
				continue
			}
			seen[l] = true
			if srv.IsListing(l) {
				queue = append(queue, l)
			} else if key, ok := srv.ObjectKey(l); ok {
				res.Reached[key] = true
			} else {
				res.Foreign = append(res.Foreign, l)
			}
		}
	}
	return res
}

func propC19S3Walk(t veriflib.TB, b verifgen.S3Bucket) {
	const facet = "C19/s3walk"
	ref := b.Reference()
	bound := ref.Pages + ref.Prefixes + 2
	res := c19S3Walk(b, bound+1, func(u *models.URL) ([]string, error) {
		if !IsS3(u) {
			return nil, fmt.Errorf("IsS3 is false for Server %q, Content-Type %q", u.GetResponse().Header.Get("Server"), u.GetResponse().Header.Get("Content-Type"))
		}
		out, err := S3(u)
		var raws []string
		for _, o := range out {
			raws = append(raws, o.Raw)
		}
		return raws, err
	})
	hist := map[string]any{"root": b.RootURL(), "requests": res.Requests, "errors": res.Errors, "foreign": res.Foreign,
		"model": map[string]int{"pages": ref.Pages, "prefixes": ref.Prefixes, "bound": bound}}
	if len(res.Errors) > 0 {
		veriflib.Fail(t, "C19", facet, b, hist, "S3 walk: a listing page could not be processed: %s", res.Errors[0])
	}
	if res.Aborted || len(res.Requests) > bound {
		veriflib.Fail(t, "C19", facet, b, hist, "S3 walk did not terminate within pages(%d)+prefixes(%d)+2 = %d listing requests (page size %d, %d keys)",
			ref.Pages, ref.Prefixes, bound, ref.MaxPageSize, len(b.Objs))
	}
	want := b.NonZeroKeys()
	tolerant := veriflib.FindingOpen(c19KeyS3Mixed)
	wantSet := map[string]bool{}
	for _, k := range want {
		wantSet[k] = true
		if res.Reached[k] {
			continue
		}
		if tolerant && ref.MixedPage[k] {
			veriflib.Excluded(facet, "open finding "+c19KeyS3Mixed+": object listed on a page that also has CommonPrefixes")
			continue
		}
		mixed := ""
		if ref.MixedPage[k] {
			mixed = " (it is listed on a page that also carries CommonPrefixes)"
		}
		veriflib.Fail(t, "C19", facet, b, hist, "S3 walk (%s) never queued object %q of non-zero size%s; reached %d of %d objects in %d requests",
			c19S3Kind(b), k, mixed, len(res.Reached), len(want), len(res.Requests))
	}
	for k := range res.Reached {
		if !wantSet[k] {
			veriflib.Fail(t, "C19", facet, b, hist, "S3 walk (%s) queued %q which is not an object of non-zero size of the bucket", c19S3Kind(b), k)
		}
	}
	nt := ref.Pages >= 2 || ref.Prefixes >= 1
	cl := []string{"api:" + c19S3Kind(b), "pages:" + c19Bucket(ref.Pages, 1, 3, 8), "prefixes:" + c19Bucket(ref.Prefixes, 0, 2, 5),
		"keys:" + c19Bucket(len(b.Objs), 0, 5, 20), "server:" + strings.SplitN(b.Server, "/", 2)[0]}
	if len(ref.MixedPage) > 0 {
		cl = append(cl, "mixed-page:yes")
	}
	if len(want) < len(b.Objs) {
		cl = append(cl, "zero-size-objects:yes")
	}
	if b.PageSize == 1 {
		cl = append(cl, "pagesize:1")
	}
	if b.MaxKeys > 0 {
		cl = append(cl, "max-keys-param:yes")
	}
	veriflib.Record(facet, veriflib.JSON(b), nt, cl, func() any {
		return map[string]any{"root": b.RootURL(), "keys": len(b.Objs), "nonzero": len(want), "pagesize": ref.MaxPageSize, "pages": ref.Pages, "prefixes": ref.Prefixes, "requests": len(res.Requests)}
	})
}

func c19S3Kind(b verifgen.S3Bucket) string {
	switch {
	case !b.V2:
		return "v1-marker"
	case b.Delimiter == "":
		return "v2-flat"
	default:
		return "v2-delimiter"
	}
}

func TestVerif_C19_S3Walk(t *testing.T) {
	defer veriflib.Flush()
	var rc verifgen.S3Bucket
	if veriflib.ReplayCase("C19/s3walk", &rc) {
		propC19S3Walk(t, rc)
		return
	} else if veriflib.Replaying() {
		t.Skip()
	}
	rapid.Check(t, func(t *rapid.T) {
		b := verifgen.GenS3Bucket(t)
		veriflib.Guard("C19", "C19/s3walk", b, func() { propC19S3Walk(t, b) })
	})
}

// strict reproduction: the root page of a list-type=2&delimiter=/ listing carries one object and one common prefix
func TestVerifKF_C19_s3v2_mixed_page(t *testing.T) {
	defer veriflib.Flush()
	propC19S3Walk(t, verifgen.S3Bucket{Host: "bucket-one.s3.amazonaws.com", PageSize: 20, V2: true, Delimiter: "/", Server: "AmazonS3",
		Objs: []verifgen.S3Obj{{Key: "readme.txt", Size: 5}, {Key: "dir/a.txt", Size: 7}}})
}

// ---- facet: the extension rule itself --------------------------------------------------------------

// propC19ExtRule: hasFileExtension(url) ⇔ the URL's last path segment has a file extension (known by construction).
func propC19ExtRule(t veriflib.TB, p verifgen.DocURL) {
	const facet = "C19/ext-rule"
	got := hasFileExtension(p.Text)
	if got != p.Ext {
		if veriflib.FindingOpen(c19KeyExtRoot) && p.NoPath() {
			veriflib.Excluded(facet, "open finding "+c19KeyExtRoot)
			return
		}
		veriflib.Fail(t, "C19", facet, p, nil, "hasFileExtension(%q) = %v but the last path segment of this %s URL has %s", p.Text, got, p.Shape,
			map[bool]string{true: "a file extension", false: "no file extension"}[p.Ext])
	}
	veriflib.Record(facet, p.Text, strings.Count(p.Text, ".") >= 2, []string{"shape:" + p.Shape, fmt.Sprintf("ext:%v", p.Ext)}, func() any { return p })
}

func TestVerif_C19_ExtRule(t *testing.T) {
	defer veriflib.Flush()
	var rc verifgen.DocURL
	if veriflib.ReplayCase("C19/ext-rule", &rc) {
		propC19ExtRule(t, rc)
		return
	} else if veriflib.Replaying() {
		t.Skip()
	}
	rapid.Check(t, func(t *rapid.T) {
		p := verifgen.GenDocURL(t, "u", "k0q", "value", verifgen.DocURLOpt{RFCQuery: true, Root: true})
		veriflib.Guard("C19", "C19/ext-rule", p, func() { propC19ExtRule(t, p) })
	})
}
