package postprocessor

// C19 — dispatch-level facets: the asset/outlink split and the S3 walk through the REAL post-processing code
// (postprocessItem → extractAssets / extractOutlinks), on items built the way the archiver hands them over
// (archiver.ProcessBody: MIME detection, spooled body).

import (
	"bytes"
	"fmt"
	"io"
	"net/http"
	"net/url"
	"os"
	"sort"
	"strings"
	"testing"

	"github.com/CorentinB/warc/pkg/spooledtempfile"
	"github.com/internetarchive/Zeno/internal/pkg/archiver"
	"github.com/internetarchive/Zeno/internal/pkg/verifcfg"
	"github.com/internetarchive/Zeno/internal/pkg/verifgen"
	"github.com/internetarchive/Zeno/internal/pkg/veriflib"
	"github.com/internetarchive/Zeno/pkg/models"
	"pgregory.net/rapid"
)

const (
	c19KeyJSONQuery = "C19-json-fasturl-rejects-rfc3986-url"
	c19KeyXMLFirst  = "C19-xml-chardata-starting-with-url-taken-whole"
	c19KeyS3Mixed   = "C19-s3v2-contents-dropped-with-commonprefixes"
	c19KeyExtRoot   = "C19-hasfileextension-url-without-path"
	c19KeyM3UBody   = "C19-m3u8-body-discarded-by-processbody"
)

// c19Case is one document pushed through the dispatch.
type c19Case struct {
	Kind    string            `json:"kind"` // json | xml | m3u8
	JSON    *verifgen.JSONDoc `json:"json,omitempty"`
	XML     *verifgen.XMLDoc  `json:"xml,omitempty"`
	M3U     *verifgen.M3U8Doc `json:"m3u,omitempty"`
	CT      string            `json:"ct"`
	Hops    int               `json:"hops"`
	MaxHops int               `json:"maxhops"`
	AsChild bool              `json:"aschild"` // the document is itself an asset of a seed (depth 1)
}

func (c c19Case) c19Doc() (body []byte, planted []verifgen.DocURL, pageURL string) {
	switch c.Kind {
	case "json":
		return c.JSON.Render(), c.JSON.Planted, "https://api.example.org/v1/doc.json"
	case "xml":
		return c.XML.Render(), c.XML.Planted, "https://www.example.org/feeds/doc.xml"
	default:
		return c.M3U.Render(), c.M3U.Planted, "https://media.example.com/hls/master.m3u8"
	}
}

func genC19Case(t *rapid.T) c19Case {
	c := c19Case{Kind: []string{"json", "json", "xml", "xml", "xml", "m3u8"}[rapid.IntRange(0, 5).Draw(t, "kind")],
		Hops: rapid.IntRange(0, 2).Draw(t, "hops"), MaxHops: rapid.IntRange(0, 3).Draw(t, "maxhops"), AsChild: rapid.IntRange(0, 3).Draw(t, "aschild") == 0}
	opt := verifgen.DocURLOpt{RFCQuery: true, Root: true}
	switch c.Kind {
	case "json":
		d := verifgen.GenJSONDoc(t, opt)
		c.JSON = &d
		c.CT = []string{"application/json", "application/json; charset=utf-8", "application/ld+json", "application/vnd.api+json"}[rapid.IntRange(0, 3).Draw(t, "ct")]
	case "xml":
		d := verifgen.GenXMLDoc(t, "", opt)
		c.XML = &d
		switch d.Flavor {
		case "rss":
			c.CT = []string{"application/rss+xml; charset=utf-8", "text/xml", "application/xml"}[rapid.IntRange(0, 2).Draw(t, "ct")]
		case "atom":
			c.CT = []string{"application/atom+xml", "application/xml; charset=UTF-8", "text/xml"}[rapid.IntRange(0, 2).Draw(t, "ct")]
		case "sitemap", "sitemapindex":
			// sitemaps are recognised by their content (the sitemaps.org namespace), whatever the server calls them: static
			// hosts and object stores serve them as text/plain, application/octet-stream or without any Content-Type
			c.CT = []string{"application/xml", "text/xml; charset=utf-8", "application/xml", "text/plain", "text/plain; charset=utf-8", "application/octet-stream", ""}[rapid.IntRange(0, 6).Draw(t, "ct")]
		default:
			c.CT = []string{"application/xml", "text/xml; charset=utf-8", "application/xml"}[rapid.IntRange(0, 2).Draw(t, "ct")]
		}
	default:
		d := verifgen.GenM3U8Doc(t)
		c.M3U = &d
		c.CT = []string{"application/vnd.apple.mpegurl", "application/x-mpegURL"}[rapid.IntRange(0, 1).Draw(t, "ct")]
	}
	return c
}

// c19MkItem builds an archived item whose body went through archiver.ProcessBody. kept reports whether ProcessBody
// kept the body for post-processing; when it did not and forceBody is set, the body is attached the way ProcessBody
// would have (so that the rest of the dispatch can still be checked).
func c19MkItem(t veriflib.TB, body []byte, contentType, server, pageURL string, hops int, asChild bool, forceBody bool) (item *models.Item, kept bool) {
	page := &models.URL{Raw: pageURL, Hops: hops}
	if err := page.Parse(); err != nil {
		t.Fatalf("C19 harness: page URL %q: %v", pageURL, err)
	}
	ru, _ := url.Parse(pageURL)
	page.SetRequest(&http.Request{Method: "GET", URL: ru})
	h := http.Header{"Content-Type": []string{contentType}}
	if server != "" {
		h.Set("Server", server)
	}
	page.SetResponse(&http.Response{StatusCode: 200, Status: "200 OK", Header: h, Body: io.NopCloser(bytes.NewReader(body))})
	if err := archiver.ProcessBody(page, false, false, 1, os.TempDir()); err != nil {
		t.Fatalf("C19 harness: ProcessBody: %v", err)
	}
	kept = page.GetBody() != nil
	if !kept && forceBody {
		sp := spooledtempfile.NewSpooledTempFile("zeno", os.TempDir(), 2097152, false, -1)
		sp.Write(body)
		page.SetBody(sp)
		page.RewindBody()
	}
	item = models.NewItem("c19-doc", page, "")
	if asChild {
		seedURL := &models.URL{Raw: "https://www.example.org/page"}
		seedURL.Parse()
		seed := models.NewItem("c19-seed", seedURL, "")
		seed.SetStatus(models.ItemArchived)
		if err := seed.AddChild(item, models.ItemGotChildren); err != nil {
			t.Fatalf("C19 harness: AddChild: %v", err)
		}
	}
	item.SetStatus(models.ItemArchived)
	return item, kept
}

func c19Clip(s string) string {
	if len(s) > 1500 {
		return s[:1500] + "…"
	}
	return s
}

func c19Keys(m map[string]int) []string {
	out := make([]string, 0, len(m))
	for k := range m {
		out = append(out, k)
	}
	sort.Strings(out)
	if len(out) > 60 {
		out = out[:60]
	}
	return out
}

func propC19Classification(t veriflib.TB, c c19Case) {
	const facet = "C19/classification"
	cfg := verifcfg.Quiet()
	saved := *cfg
	defer func() { *cfg = saved }()
	cfg.MaxHops = c.MaxHops
	cfg.DisableAssetsCapture = false
	cfg.DomainsCrawl = nil

	body, planted, pageURL := c.c19Doc()
	tolerateBody := c.Kind == "m3u8" && veriflib.FindingOpen(c19KeyM3UBody)
	item, kept := c19MkItem(t, body, c.CT, "", pageURL, c.Hops, c.AsChild, tolerateBody)
	if !kept {
		if !tolerateBody {
			veriflib.Fail(t, "C19", facet, c, string(body), "archiver.ProcessBody discarded the body of a %s document (Content-Type %s, detected MIME type %s): post-processing sees no body and extracts nothing; document: %s",
				c.Kind, c.CT, item.GetURL().GetMIMEType(), c19Clip(string(body)))
		}
		veriflib.Excluded(facet, "open finding "+c19KeyM3UBody+": body attached by the harness")
	}
	outItems := veriflib.CallAs[[]*models.Item](postprocessItem, item)

	assets := map[string]int{}   // Raw -> hops
	outlinks := map[string]int{} // Raw -> hops
	for _, ch := range item.GetChildren() {
		assets[ch.GetURL().Raw] = ch.GetURL().GetHops()
	}
	for _, o := range outItems {
		outlinks[o.GetURL().Raw] = o.GetURL().GetHops()
	}
	hist := map[string]any{"document": string(body), "assets": c19Keys(assets), "outlinks": c19Keys(outlinks)}
	allowed := c.Hops < c.MaxHops
	sitemap := c.Kind == "xml" && (c.XML.Flavor == "sitemap" || c.XML.Flavor == "sitemapindex")
	fail := func(format string, args ...any) {
		veriflib.Fail(t, "C19", facet, c, hist, "%s [%s, Content-Type %s, hops %d, max-hops %d]; document: %s", fmt.Sprintf(format, args...), c.Kind, c.CT, c.Hops, c.MaxHops, c19Clip(string(body)))
	}
	if !allowed && len(outlinks) > 0 {
		fail("%d outlinks were queued although the hop limit does not allow any (first: %q)", len(outlinks), c19Keys(outlinks)[0])
	}
	for _, p := range planted {
		_, isAsset := assets[p.Text]
		_, isOutlink := outlinks[p.Text]
		// undiscovered URLs of the open discovery findings' classes are left out (checked strictly at extractor level)
		if c.Kind == "json" && !isAsset && !isOutlink && veriflib.FindingOpen(c19KeyJSONQuery) && (strings.Contains(p.Shape, "+q-slash") || strings.Contains(p.Shape, "+emptyseg")) {
			veriflib.Excluded(facet, "open finding "+c19KeyJSONQuery)
			continue
		}
		if c.Kind == "xml" && !isAsset && !isOutlink && veriflib.FindingOpen(c19KeyXMLFirst) && verifgen.XMLWhereFirstURL[p.Where] {
			veriflib.Excluded(facet, "open finding "+c19KeyXMLFirst)
			continue
		}
		switch {
		case c.Kind == "m3u8":
			if !isAsset {
				fail("playlist %s URI %q did not become a child asset", p.Where, p.Text)
			}
			if assets[p.Text] != c.Hops {
				fail("asset %q got hop count %d, the document has %d", p.Text, assets[p.Text], c.Hops)
			}
		case sitemap:
			// by design every sitemap URL is an outlink (extractOutlinks merges XML's assets into the outlinks)
			if allowed && !isOutlink {
				fail("sitemap URL %q (%s) was not queued as an outlink", p.Text, p.Where)
			}
		case p.Ext:
			if !isAsset {
				fail("URL %q (%s) has a file extension in its last path segment but did not become a child asset (outlink: %v)", p.Text, p.Where, isOutlink)
			}
			if assets[p.Text] != c.Hops {
				fail("asset %q got hop count %d, the document has %d", p.Text, assets[p.Text], c.Hops)
			}
		default:
			if isAsset {
				if veriflib.FindingOpen(c19KeyExtRoot) && p.NoPath() {
					veriflib.Excluded(facet, "open finding "+c19KeyExtRoot)
					continue
				}
				fail("URL %q (%s, shape %s) has no file extension in its last path segment but became a child asset instead of an outlink", p.Text, p.Where, p.Shape)
			}
			if allowed && !isOutlink {
				fail("URL %q (%s, shape %s) has no file extension and the hop limit allows outlinks, but it was not queued as an outlink", p.Text, p.Where, p.Shape)
			}
			if allowed && outlinks[p.Text] != c.Hops+1 {
				fail("outlink %q got hop count %d, expected %d", p.Text, outlinks[p.Text], c.Hops+1)
			}
		}
	}
	ext, noext := 0, 0
	for _, p := range planted {
		if p.Ext {
			ext++
		} else {
			noext++
		}
	}
	nt := len(planted) >= 2
	cl := append(verifgen.DocURLClasses(planted), "kind:"+c.Kind, fmt.Sprintf("outlinks-allowed:%v", allowed), fmt.Sprintf("as-child:%v", c.AsChild))
	if c.Kind == "xml" {
		cl = append(cl, "flavor:"+c.XML.Flavor)
	}
	if ext > 0 && noext > 0 {
		cl = append(cl, "mix:ext+noext")
	}
	veriflib.Record(facet, veriflib.JSON(c), nt, cl, func() any {
		return map[string]any{"kind": c.Kind, "ct": c.CT, "hops": c.Hops, "maxhops": c.MaxHops, "document": c19Clip(string(body)), "assets": len(assets), "outlinks": len(outlinks)}
	})
}

func TestVerif_C19_Classification(t *testing.T) {
	defer veriflib.Flush()
	var rc c19Case
	if veriflib.ReplayCase("C19/classification", &rc) {
		propC19Classification(t, rc)
		return
	} else if veriflib.Replaying() {
		t.Skip()
	}
	rapid.Check(t, func(t *rapid.T) {
		c := genC19Case(t)
		veriflib.Guard("C19", "C19/classification", c, func() { propC19Classification(t, c) })
	})
}

// strict reproduction: {"home":"https://k0q.example.com"} — a URL without any path is classified as an asset
func TestVerifKF_C19_ext_root(t *testing.T) {
	defer veriflib.Flush()
	p := verifgen.DocURL{Text: "https://k0q.example.com", Shape: "root", Where: "value"}
	propC19Classification(t, c19Case{Kind: "json", CT: "application/json", Hops: 0, MaxHops: 1,
		JSON: &verifgen.JSONDoc{Root: verifgen.JNode{K: "obj", Keys: []string{"home"}, Kids: []verifgen.JNode{{K: "url", S: p.Text}}}, Planted: []verifgen.DocURL{p}, Depth: 1}})
}

// strict reproduction: a two-line media playlist is detected as application/vnd.apple.mpegurl (a child of
// application/octet-stream in the mimetype tree) and archiver.ProcessBody throws its body away
func TestVerifKF_C19_m3u8_body(t *testing.T) {
	defer veriflib.Flush()
	p := verifgen.DocURL{Text: "seg-k0q.ts", Shape: "rel", Where: "segment", Ext: true}
	propC19Classification(t, c19Case{Kind: "m3u8", CT: "application/vnd.apple.mpegurl", Hops: 0, MaxHops: 1,
		M3U: &verifgen.M3U8Doc{Header: []string{"#EXT-X-TARGETDURATION:10"}, Entries: []verifgen.M3Entry{{K: "seg", URI: p.Text, Attrs: "9.0,"}}, EndList: true, Planted: []verifgen.DocURL{p}}})
}

// ---- S3 walk through postprocessItem ---------------------------------------------------------------

func propC19S3Dispatch(t veriflib.TB, b verifgen.S3Bucket) {
	const facet = "C19/s3-dispatch"
	cfg := verifcfg.Quiet()
	saved := *cfg
	defer func() { *cfg = saved }()
	cfg.MaxHops = 1
	cfg.DisableAssetsCapture = false
	cfg.DomainsCrawl = nil

	ref := b.Reference()
	bound := ref.Pages + ref.Prefixes + 2
	srv := verifgen.NewS3Server(b)
	reached := map[string]bool{}
	var requests, errs []string
	queue := []string{b.RootURL()}
	seen := map[string]bool{queue[0]: true}
	for len(queue) > 0 && len(requests) <= bound {
		link := queue[0]
		queue = queue[1:]
		requests = append(requests, link)
		status, ct, body := srv.Get(link)
		if status != 200 {
			errs = append(errs, fmt.Sprintf("%s -> HTTP %d", link, status))
			continue
		}
		// every listing page is post-processed as a seed at hop 0 with max-hops 1: outlinks are what gets queued
		item, kept := c19MkItem(t, body, ct, b.Server, link, 0, false, false)
		if !kept {
			errs = append(errs, fmt.Sprintf("%s -> archiver.ProcessBody discarded the listing body (MIME %s)", link, item.GetURL().GetMIMEType()))
			continue
		}
		var links []string
		for _, o := range veriflib.CallAs[[]*models.Item](postprocessItem, item) {
			links = append(links, o.GetURL().Raw)
		}
		for _, ch := range item.GetChildren() {
			links = append(links, ch.GetURL().Raw)
		}
		for _, l := range links {
			if seen[l] {
				continue
			}
			seen[l] = true
			if srv.IsListing(l) {
				queue = append(queue, l)
			} else if key, ok := srv.ObjectKey(l); ok {
				reached[key] = true
			}
		}
	}
	hist := map[string]any{"root": b.RootURL(), "requests": requests, "errors": errs, "model": map[string]int{"pages": ref.Pages, "prefixes": ref.Prefixes, "bound": bound}}
	if len(errs) > 0 {
		veriflib.Fail(t, "C19", facet, b, hist, "S3 walk through postprocessItem: %s", errs[0])
	}
	if len(requests) > bound {
		veriflib.Fail(t, "C19", facet, b, hist, "S3 walk through postprocessItem did not terminate within pages(%d)+prefixes(%d)+2 = %d listing requests", ref.Pages, ref.Prefixes, bound)
	}
	want := b.NonZeroKeys()
	wantSet := map[string]bool{}
	for _, k := range want {
		wantSet[k] = true
		if reached[k] {
			continue
		}
		if veriflib.FindingOpen(c19KeyS3Mixed) && ref.MixedPage[k] {
			veriflib.Excluded(facet, "open finding "+c19KeyS3Mixed)
			continue
		}
		mixed := ""
		if ref.MixedPage[k] {
			mixed = " (it is listed on a page that also carries CommonPrefixes)"
		}
		veriflib.Fail(t, "C19", facet, b, hist, "S3 walk through postprocessItem never queued object %q of non-zero size%s; reached %d of %d objects in %d requests", k, mixed, len(reached), len(want), len(requests))
	}
	for k := range reached {
		if !wantSet[k] {
			veriflib.Fail(t, "C19", facet, b, hist, "S3 walk through postprocessItem queued %q which is not an object of non-zero size of the bucket", k)
		}
	}
	api := "v1-marker"
	if b.V2 && b.Delimiter != "" {
		api = "v2-delimiter"
	} else if b.V2 {
		api = "v2-flat"
	}
	cl := []string{"api:" + api, fmt.Sprintf("multi-page:%v", ref.Pages >= 2), fmt.Sprintf("prefixes:%v", ref.Prefixes >= 1), "server:" + strings.SplitN(b.Server, "/", 2)[0]}
	veriflib.Record(facet, veriflib.JSON(b), ref.Pages >= 2 || ref.Prefixes >= 1, cl, func() any {
		return map[string]any{"root": b.RootURL(), "keys": len(b.Objs), "pages": ref.Pages, "prefixes": ref.Prefixes, "requests": len(requests)}
	})
}

func TestVerif_C19_S3Dispatch(t *testing.T) {
	defer veriflib.Flush()
	var rc verifgen.S3Bucket
	if veriflib.ReplayCase("C19/s3-dispatch", &rc) {
		propC19S3Dispatch(t, rc)
		return
	} else if veriflib.Replaying() {
		t.Skip()
	}
	rapid.Check(t, func(t *rapid.T) {
		b := verifgen.GenS3Bucket(t)
		veriflib.Guard("C19", "C19/s3-dispatch", b, func() { propC19S3Dispatch(t, b) })
	})
}
