package postprocessor

// C10 — quick-tier search: replay of the committed corpus and structure-aware rapid mutation of corpus documents.

import (
	"bytes"
	"encoding/json"
	"fmt"
	"os"
	"sort"
	"strings"
	"testing"
	"time"

	"github.com/internetarchive/Zeno/internal/pkg/veriflib"
	"pgregory.net/rapid"
)

const c10MaxBody = 64 << 10 // everything the mutation tests build stays inside the basic 10 s watchdog class

// per-target token dictionaries: inserted, swapped for one another, and used as nesting pairs
var c10Dict = map[string][]string{
	"html": {"<a href=\"", "\">", "</a>", "<img src=", " srcset=\"", "<script>", "</script>", "<script type=\"application/json\">", "<style>", "</style>", "<base href=\"", "<link rel=alternate href=",
		"<meta content=\"http", "<meta http-equiv=\"refresh\" content=\"5; URL=http", ";url=", "URL=", "\u023a", "\u023a\u023a\u023a\u023a\u023a\u023a", "\u023e", "\u0130", "\u1e9e", "\u212a", "<source srcset=", "<img srcset=\"/a.jpg (1x", " data-srcset=\"/a.jpg 300w (min-width: 10px", " (", "(", " 2x, ", " 300w", "(min-width: 600px) 480px, ", "<video src=", "<audio src=", " style=\"background:url(", " data-item='", " data-preview=\"http", " onclick=\"window.location='", "<!--", "-->", "<![CDATA[", "]]>",
		"<table>", "<select>", "<template>", "<svg>", "<math>", "<noscript>", "<plaintext>", "<textarea>", "<title>", "<iframe srcdoc=\"", "&#x", "&amp;", "&#0;", "url(", ")", "'", "\"", "=", ",", " 1x, ", "//", "http://", "https://[", "%zz", "\\u00", "{\"", "\":", "}", "{", "\x00", "\xff", "\xef\xbb\xbf"},
	"json": {"{", "}", "[", "]", "\"", "\":", ",", ":", "\\\"", "\\\\", "\\u", "\\ud800", "null", "true", "1e999", "-", "0x", "{\"a\":", "[\"", "\"]", "\"{\\\"", "\\\"}\"", "http://", "//", "https://[::1]/", ".png", "\x00", "\xff", "\xef\xbb\xbf", " ", "\n", "\"      \"", "\"\\n        \"", "\"\\t\\t\\t\\t\\t\\t\"", "     ", "\\n\\n\\n\\n\\n"},
	"xml": {"<", ">", "</", "/>", "<?xml version=\"1.0\" encoding=\"", "?>", "<!--", "-->", "<![CDATA[", "]]>", "<!DOCTYPE ", "<!ENTITY ", "[", "]>", "&amp;", "&#x", "&#", ";", "&x;", " xmlns=\"", " xmlns:a=\"", "a:", "=\"", "='", "\"", "'",
		"http://www.sitemaps.org/schemas/sitemap/0.9", "sitemaps.org/schemas/sitemap/", "<urlset", "<loc>", "</loc>", "http", "https://", "UTF-16", "ISO-8859-1", "GB2312", "UTF-32", "utf-7", "Shift_JIS", "windows-1252", "TIS-620", "ISO-2022-KR", "\x00", "\xff\xfe", "\xef\xbb\xbf"},
	"s3": {"<ListBucketResult>", "</ListBucketResult>", "<Contents>", "</Contents>", "<Key>", "</Key>", "<Size>", "</Size>", "<CommonPrefixes>", "</CommonPrefixes>", "<Prefix>", "</Prefix>", "<IsTruncated>", "true", "</IsTruncated>",
		"<NextContinuationToken>", "</NextContinuationToken>", "<Marker>", "<Name>", "<KeyCount>", "</KeyCount>", "<MaxKeys>", "</MaxKeys>", "<NextMarker>", "-2", "-9223372036854775808", "<", ">", "</", "&amp;", "&#x0;", "<![CDATA[", "]]>", "<!--", " xmlns=\"", "99999999999999999999", "-1", "1e3", "%zz", "../", "\x00", "\xff"},
	"m3u8": {"#EXTM3U\n", "#EXT-X-VERSION:", "#EXT-X-TARGETDURATION:", "#EXT-X-MEDIA-SEQUENCE:", "#EXTINF:", "#EXT-X-STREAM-INF:", "#EXT-X-I-FRAME-STREAM-INF:", "#EXT-X-MEDIA:", "#EXT-X-KEY:", "#EXT-X-MAP:", "#EXT-X-BYTERANGE:",
		"#EXT-X-DISCONTINUITY\n", "#EXT-X-DISCONTINUITY-SEQUENCE:", "#EXT-X-PROGRAM-DATE-TIME:", "#EXT-X-DATERANGE:", "#EXT-X-ENDLIST\n", "#EXT-X-START:", "#EXT-X-CUE-OUT:", "#EXT-X-CUE-OUT-CONT:", "#EXT-X-CUE-IN\n", "#EXT-OATCLS-SCTE35:",
		"#EXT-X-SCTE35:", "#EXT-SCTE35:", "#EXT-X-PLAYLIST-TYPE:", "#EXT-X-I-FRAMES-ONLY\n", "#EXT-X-ALLOW-CACHE:", "#EXT-X-INDEPENDENT-SEGMENTS\n", "#WV-AUDIO-CHANNELS ", "#WV-CYPHER-VERSION ", "#EXT-X-", "#",
		"BANDWIDTH=", "PROGRAM-ID=", "RESOLUTION=", "CODECS=\"", "URI=\"", "GROUP-ID=\"", "TYPE=AUDIO", "AUDIO=\"", "METHOD=AES-128", "IV=0x", "BYTERANGE=\"", "DURATION=", "ID=\"", "CUE=\"", "TIME-OFFSET=", "ElapsedTime=", "Duration=", "SCTE35=",
		"\"", ",", "=", "@", ":", "x", "\n", "\r\n", "\r", "-", "99999999999999999999", "1e309", "0x", "\x00", "\xff"},
	"pdf": {" obj\n", "endobj\n", "stream\n", "\nendstream", "xref\n", "trailer\n", "startxref\n", "%%EOF", "%PDF-1.", "<<", ">>", "[", "]", "(", ")", "<", ">", "/", " 0 R", " R", "/Type", "/Catalog", "/Pages", "/Page", "/Kids", "/Parent", "/Count",
		"/Annots", "/Annot", "/Subtype", "/Link", "/A", "/URI", "/S", "/Rect", "/Dest", "/Contents", "/Length", "/Filter", "/FlateDecode", "/ASCIIHexDecode", "/LZWDecode", "/DecodeParms", "/Predictor", "/Columns", "/ObjStm", "/XRef",
		"/W [1 2 1]", "/Index [", "/First", "/N", "/Prev", "/Size", "/Root", "/Info", "/Encrypt", "/ID", "/Extends", "/XRefStm", "/Version", "/Names", "/AcroForm", "/Outlines", "/StructTreeRoot", "/MediaBox", "/Resources", "/P", "/Popup", "/IRT",
		" 65535 f \n", " 00000 n \n", "0000000000", "99999999999", "-1", "null", "true", "#", "\\", "\x00", "\r", "%"},
	"script": {"=", "{", "}", "{\"", "\":", "\"", "\\\"", ";", "var a = ", "[", "]", ",", "/*", "*/", "//", "http://", "'", "\\u", "é", "😀", "\x00", "\xff", "\n"},
	"linkheader": {"<", ">", ";", ", ", ",", "=", "\"", " rel=", "rel=\"next\"", "; rel", "<http://example.org/", "<//", "<../", " ", "\t", "%zz", "\\", "\x7f", "\xff", "é"},
	"reddit": {"{", "}", "[", "]", "\"", ":", ",", "null", "\"data\":", "\"children\":", "\"permalink\":", "\"kind\":", "\"preview\":", "\"images\":", "\"secure_media\":", "\"reddit_video\":", "\"after\":", "\"dist\":", "\"edited\":", "\"created\":",
		"1e999", "-1", "true", "\"\"", "{}", "[]", "\\u0000", "\\ud800", "/r/", "%zz", "amp;", "\x00", "\xff"},
	"truthsocial": {"{", "}", "[", "]", "\"", ":", ",", "null", "\"id\":", "\"created_at\":", "\"account\":", "\"media_attachments\":", "\"external_video_id\":", "\"reblog\":", "\"quote\":", "\"in_reply_to\":", "\"meta\":", "\"original\":", "\"mentions\":", "\"card\":", "\"url\":",
		"\"2024-05-01T12:34:56.789Z\"", "\"0000-00-00\"", "1e999", "-1", "true", "\"\"", "{}", "[]", "\\u0000", "../", "<html>", "<script type=\"application/json\">", "</script>", "<img src=", "\x00", "\xff"},
	"ina": {"{", "}", "[", "]", "\"", ":", ",", "null", "\"dateOfBroadcast\":", "\"resourceUrl\":", "\"resourceThumbnail\":", "\"embedUrl\":", "\"uri\":", "\"credits\":", "\"@context\":", "\"attributes\":", "\"duration\":", "\"categories\":",
		"\"1969-07-21T00:00:00+02:00\"", "\"21/07/1969\"", "1e999", "-1", "true", "\"\"", "{}", "[]", "\\u0000", "<img src=", "<script>", "\x00", "\xff"},
}

// nesting pairs per target (opening, closing)
var c10Nest = map[string][][2]string{
	"html":        {{"<div>", "</div>"}, {"<table><tr><td>", "</td></tr></table>"}, {"<a href=n>", "</a>"}, {"<b><i>", "</b></i>"}, {"<svg><g>", "</g></svg>"}, {"<ul><li>", ""}, {"<script>a={", "}</script>"}, {"<template>", "</template>"}},
	"json":        {{"[", "]"}, {"{\"a\":", "}"}, {"[{\"u\":[", "]}]"}, {"\"{\\\"a\\\":", "}\""}},
	"xml":         {{"<a>", "</a>"}, {"<a b=\"http://e.org/x\">", "</a>"}, {"<!--", "-->"}, {"<![CDATA[", "]]>"}, {"<x:y xmlns:x=\"u\">", "</x:y>"}},
	"s3":          {{"<Contents>", "</Contents>"}, {"<CommonPrefixes><Prefix>", "</Prefix></CommonPrefixes>"}, {"<Key>", "</Key>"}, {"<ListBucketResult>", "</ListBucketResult>"}, {"<a>", "</a>"}},
	"m3u8":        {{"#EXT-X-STREAM-INF:BANDWIDTH=1\n", "v.m3u8\n"}, {"#EXTINF:1,\n", "s.ts\n"}, {"#EXT-X-KEY:METHOD=AES-128,URI=\"", "\"\n"}, {"#EXT-X-MEDIA:TYPE=AUDIO,GROUP-ID=\"a\",URI=\"", "\"\n"}, {"#EXT-X-DISCONTINUITY\n", "#EXT-X-CUE-IN\n"}},
	"pdf":         {{"[", "]"}, {"<<", ">>"}, {"<< /A ", " >>"}, {"(", ")"}, {"<< /Kids [", "] >>"}, {"1 0 obj\n", "\nendobj\n"}},
	"script":      {{"{", "}"}, {"{\"a\":", "}"}, {"[", "]"}, {"=", ""}},
	"linkheader":  {{"<", ">"}, {"<u>; a=\"", "\", "}, {";", "=", }},
	"reddit":      {{"[", "]"}, {"{\"data\":{\"children\":[", "]}}"}, {"{\"a\":", "}"}},
	"truthsocial": {{"[", "]"}, {"{\"card\":", "}"}, {"{\"media_attachments\":[", "]}"}, {"{\"reblog\":{\"media_attachments\":[", "]}}"}, {"{\"quote\":", "}"}, {"<div>", "</div>"}},
	"ina":         {{"[", "]"}, {"{\"credits\":[", "]}"}, {"{\"a\":", "}"}},
}

var c10Numbers = []string{"0", "-1", "-0", "1", "255", "256", "65535", "65536", "2147483647", "2147483648", "4294967295", "4294967296", "9223372036854775807", "9223372036854775808", "18446744073709551615",
	"18446744073709551616", "99999999999999999999999999", "1e308", "1e309", "1e-400", "0.0000000001", "NaN", "Infinity", "0x7fffffff", "00000000000", "1.5", ""}

var c10Bytes = []byte{0x00, 0xff, 0xfe, 0x80, 0xc3, 0xef, '<', '>', '"', '\'', '{', '}', '[', ']', '(', ')', '\\', '&', ';', '\n', '\r', '%', '=', ',', '/', ' ', '#', '@', ':', 0x7f, 0x1b}

var c10Prefixes = []string{"\xef\xbb\xbf", "\xff\xfe", "\xfe\xff", "\x00\x00\xfe\xff", "\n\n", " ", "\x00", "%PDF-1.4\n", "<?xml version=\"1.0\"?>", "<!DOCTYPE html>", "#EXTM3U\n", "{", "GIF89a", "\x1f\x8b\x08", "PK\x03\x04", "<html>", "<svg xmlns=\"http://www.w3.org/2000/svg\">"}

func c10Clamp(b []byte) []byte {
	if len(b) > c10MaxBody {
		return b[:c10MaxBody]
	}
	return b
}

// c10Mutate draws 0..6 mutation operations and applies them to a copy of doc. others are donor documents for splices.
// Every random choice goes through rapid; the returned note names the operations for the evidence samples.
func c10Mutate(t *rapid.T, target string, doc []byte, others []c10Doc) ([]byte, string) {
	b := append([]byte{}, doc...)
	dict := c10Dict[target]
	nOps := rapid.IntRange(0, 6).Draw(t, "nops")
	var note []string
	pos := func(label string) int {
		if len(b) == 0 {
			return 0
		}
		return rapid.IntRange(0, len(b)).Draw(t, label)
	}
	ops := []string{"flip", "set", "trunc", "del", "dup", "insert", "swap", "splice", "nest", "num", "prefix", "long", "token-run"}
	switch target {
	case "json", "reddit", "truthsocial", "ina": // typed decoders reject anything that is not JSON: mutate the value tree
		ops = append(ops, "jsonvalue", "jsonvalue", "jsonvalue", "jsonvalue", "jsonswap", "jsonswap", "jsonvalue", "jsonswap")
	}
	for i := 0; i < nOps; i++ {
		op := rapid.SampledFrom(ops).Draw(t, "op")
		note = append(note, op)
		switch op {
		case "flip":
			if len(b) > 0 {
				p := rapid.IntRange(0, len(b)-1).Draw(t, "p")
				b[p] ^= byte(1 << rapid.IntRange(0, 7).Draw(t, "bit"))
			}
		case "set":
			if len(b) > 0 {
				p := rapid.IntRange(0, len(b)-1).Draw(t, "p")
				b[p] = rapid.SampledFrom(c10Bytes).Draw(t, "byte")
			}
		case "trunc":
			b = b[:pos("at")]
		case "del":
			p := pos("p")
			n := rapid.IntRange(1, 64).Draw(t, "n")
			if rapid.IntRange(0, 9).Draw(t, "big") == 0 {
				n *= 64
			}
			e := min(len(b), p+n)
			b = append(b[:p:p], b[e:]...)
		case "dup":
			p := pos("p")
			n := rapid.IntRange(1, 256).Draw(t, "n")
			e := min(len(b), p+n)
			times := rapid.SampledFrom([]int{1, 1, 2, 3, 8, 64, 1000}).Draw(t, "times")
			chunk := append([]byte{}, b[p:e]...)
			if len(chunk)*times > c10MaxBody {
				times = max(1, c10MaxBody/max(1, len(chunk)))
			}
			b = append(b[:e:e], append(bytes.Repeat(chunk, times), b[e:]...)...)
		case "insert":
			p := pos("p")
			tok := rapid.SampledFrom(dict).Draw(t, "tok")
			b = append(b[:p:p], append([]byte(tok), b[p:]...)...)
		case "swap":
			from := rapid.SampledFrom(dict).Draw(t, "from")
			to := rapid.SampledFrom(dict).Draw(t, "to")
			if n := bytes.Count(b, []byte(from)); n > 0 {
				k := rapid.IntRange(0, n-1).Draw(t, "k")
				all := rapid.IntRange(0, 7).Draw(t, "all") == 0
				idx, seen := 0, 0
				var out []byte
				for {
					j := bytes.Index(b[idx:], []byte(from))
					if j < 0 {
						break
					}
					out = append(out, b[idx:idx+j]...)
					if all || seen == k {
						out = append(out, to...)
					} else {
						out = append(out, from...)
					}
					seen++
					idx += j + len(from)
				}
				b = append(out, b[idx:]...)
			} else {
				p := pos("p")
				b = append(b[:p:p], append([]byte(to), b[p:]...)...)
			}
		case "splice": // a chunk of another document replaces a chunk of this one (token swaps between documents)
			if len(others) > 0 {
				d := others[rapid.IntRange(0, len(others)-1).Draw(t, "donor")].Data
				if len(d) > 0 {
					s := rapid.IntRange(0, len(d)-1).Draw(t, "s")
					n := rapid.IntRange(1, 2048).Draw(t, "n")
					chunk := d[s:min(len(d), s+n)]
					p := pos("p")
					e := min(len(b), p+rapid.IntRange(0, 512).Draw(t, "cut"))
					b = append(b[:p:p], append(append([]byte{}, chunk...), b[e:]...)...)
				}
			}
		case "nest": // nesting amplification
			pairs := c10Nest[target]
			pr := pairs[rapid.IntRange(0, len(pairs)-1).Draw(t, "pair")]
			n := rapid.SampledFrom([]int{1, 2, 8, 13, 15, 64, 511, 513, 2000, 10001, 25000}).Draw(t, "depth")
			if n*(len(pr[0])+len(pr[1])) > c10MaxBody/2 {
				n = c10MaxBody / 2 / (len(pr[0]) + len(pr[1]) + 1)
			}
			p := pos("p")
			e := p
			if len(b) > p {
				e = rapid.IntRange(p, len(b)).Draw(t, "e")
			}
			closeN := n
			switch rapid.IntRange(0, 3).Draw(t, "balance") {
			case 0:
				closeN = 0 // unbalanced: never closed
			case 1:
				closeN = n - 1
			}
			out := append([]byte{}, b[:p]...)
			out = append(out, strings.Repeat(pr[0], n)...)
			out = append(out, b[p:e]...)
			out = append(out, strings.Repeat(pr[1], max(closeN, 0))...)
			b = append(out, b[e:]...)
		case "num": // the next run of digits becomes a hostile number
			p := pos("p")
			s := p
			for s < len(b) && (b[s] < '0' || b[s] > '9') {
				s++
			}
			e := s
			for e < len(b) && b[e] >= '0' && b[e] <= '9' {
				e++
			}
			num := rapid.SampledFrom(c10Numbers).Draw(t, "num")
			if s < len(b) {
				b = append(b[:s:s], append([]byte(num), b[e:]...)...)
			}
		case "prefix":
			b = append([]byte(rapid.SampledFrom(c10Prefixes).Draw(t, "prefix")), b...)
		case "long": // very long run of one byte (attribute values, names, numbers)
			p := pos("p")
			n := rapid.SampledFrom([]int{255, 256, 1023, 2047, 2048, 2049, 4096, 16384, 65535}).Draw(t, "n")
			ch := rapid.SampledFrom([]byte{'a', '9', ' ', '/', '.', '%', 0xc3, '&', '\\', '\n'}).Draw(t, "ch")
			b = append(b[:p:p], append(bytes.Repeat([]byte{ch}, n), b[p:]...)...)
		case "jsonvalue", "jsonswap":
			if nb, ok := c10JSONMutate(t, b, op == "jsonswap"); ok {
				b = nb
			}
		case "token-run":
			p := pos("p")
			tok := rapid.SampledFrom(dict).Draw(t, "tok")
			n := rapid.SampledFrom([]int{2, 3, 16, 300, 5000}).Draw(t, "n")
			if n*len(tok) > c10MaxBody/2 {
				n = c10MaxBody / 2 / len(tok)
			}
			b = append(b[:p:p], append([]byte(strings.Repeat(tok, n)), b[p:]...)...)
		}
		b = c10Clamp(b)
	}
	return b, strings.Join(note, "+")
}

// hostile JSON values of every type (raw JSON text), substituted for nodes of a parsed document
var c10JSONValues = []string{`null`, `true`, `false`, `0`, `-1`, `1.5`, `1e308`, `1e999`, `-0`, `99999999999999999999`, `9223372036854775808`, `""`, `"x"`, `"http://example.org/x.png"`,
	`"//host.example/y"`, `"../../%zz"`, `"2024-05-01T12:34:56.789Z"`, `"0000-00-00T00:00:00Z"`, `"not-a-date"`, `"\u0000\ud800"`, `[]`, `[null]`, `[1,"a",{}]`, `["http://e.org/a.png"]`, `{}`, `{"url":1}`,
	`{"image":{"a":[1]}}`, `{"data":null}`, `[[[[[[[[[[[[[[[[[[[[[[[[[[[[[[[[[[[[[[[[]]]]]]]]]]]]]]]]]]]]]]]]]]]]]]]]]]]]]]]]`, `"{\"u\":\"http://in.example/s.png\"}"`, `"[\"a\"]"`}

type c10JSONSlot struct {
	get func() any
	set func(any)
}

// c10JSONSlots lists every value position of a decoded JSON tree (pre-order), as getter/setter pairs.
func c10JSONSlots(root *any) []c10JSONSlot {
	var out []c10JSONSlot
	var walk func(get func() any, set func(any))
	walk = func(get func() any, set func(any)) {
		out = append(out, c10JSONSlot{get, set})
		switch v := get().(type) {
		case []any:
			for i := range v {
				walk(func() any { return v[i] }, func(x any) { v[i] = x })
			}
		case map[string]any:
			keys := make([]string, 0, len(v))
			for k := range v {
				keys = append(keys, k)
			}
			sort.Strings(keys)
			for _, k := range keys {
				walk(func() any { return v[k] }, func(x any) { v[k] = x })
			}
		}
	}
	walk(func() any { return *root }, func(x any) { *root = x })
	return out
}

// c10JSONMutate: structure-aware mutation of a JSON document: a value is replaced by a hostile value of another type, or
// two values change places (so that an object lands where a string is expected, a string where an array is ...).
func c10JSONMutate(t *rapid.T, doc []byte, swap bool) ([]byte, bool) {
	var root any
	dec := json.NewDecoder(bytes.NewReader(doc))
	dec.UseNumber()
	if err := dec.Decode(&root); err != nil {
		return nil, false
	}
	slots := c10JSONSlots(&root)
	if len(slots) > 5000 {
		slots = slots[:5000]
	}
	i := rapid.IntRange(0, len(slots)-1).Draw(t, "jsonnode")
	if swap && len(slots) > 2 {
		j := rapid.IntRange(1, len(slots)-1).Draw(t, "jsonnode2")
		a, b := slots[i].get(), slots[j].get()
		ab, _ := json.Marshal(a) // deep copies, so that a value never ends up inside itself
		bb, _ := json.Marshal(b)
		slots[j].set(json.RawMessage(ab))
		slots[i].set(json.RawMessage(bb))
	} else {
		slots[i].set(json.RawMessage(rapid.SampledFrom(c10JSONValues).Draw(t, "jsonvalue")))
	}
	out, err := json.Marshal(root)
	if err != nil {
		return nil, false
	}
	return out, true
}

// genC10Direct: a mutated corpus document of the target.
func genC10Direct(t *rapid.T, target string) c10Case {
	docs := c10Bases(target)
	if len(docs) == 0 {
		t.Fatalf("harness: empty corpus for %s (VERIF_DIR=%q)", target, os.Getenv("VERIF_DIR"))
	}
	i := rapid.IntRange(0, len(docs)-1).Draw(t, "doc")
	body, note := c10Mutate(t, target, docs[i].Data, docs)
	if target == "pdf" && !bytes.HasPrefix(body, []byte("%PDF-")) && rapid.IntRange(0, 7).Draw(t, "keepmagic") > 0 {
		// without the magic the sniffer says text/plain and nothing runs: most mutants get it back
		body = c10Clamp(append([]byte("%PDF-1.4\n"), body...))
		note += "+magic"
	}
	return c10Case{Target: target, Body: body, Note: docs[i].Name + " " + note, MaxHops: 1}
}

var c10HeaderTexts = []string{"", "/relative/path", "relative", "../up?x=1#f", "//other.example.net/x", "https://example.org/next", "http://example.org:99999/", "http://[::1", "http://[fe80::1%25en0]/", "%zz", "http://%41.example/%zz",
	"javascript:alert(1)", "data:text/html,<a href=x>", "mailto:a@b.example", "ftp://ftp.example.org/f", "http://localhost/", "http://127.0.0.1/", "http://nodot/", "http://user:p@ss@example.org/", "\"https://quoted.example.org/\"",
	"'", "\"", "http://", "http:", "://", "?", "#", " https://padded.example.org/ ", "https://bücher.example/ü", "https://xn--zz-zz.example/", "http://example.org/\x7f\x01", "http://example.org/ with space", "HTTP://EXAMPLE.ORG/UP",
	"https://example.org/" + "a/../", "\\\\evil.example\\x", "http:/\\example.org/", "https://example.org:0/", "https://example.org:/", "http://a.b/?q=%ff%fe&&=&x", "http://[::ffff:127.0.0.1]/", "http://0x7f.1/", "http://1.1.1.1.1/", "http://.example.org/", "http://example..org/", "http://-.example/"}

// genC10Chain: structured arguments of the whole chain. Starts from a corpus document of any target with its natural
// type and URL, then varies body (mutation), Content-Type, status, URL, Location/Link/Server, depth/hops and switches.
func genC10Chain(t *rapid.T) c10Case {
	src := rapid.SampledFrom(c10Targets[1:]).Draw(t, "src")
	nat := c10Naturals[src]
	docs := c10Bases(src)
	i := rapid.IntRange(0, len(docs)-1).Draw(t, "doc")
	c := c10Case{Target: "chain", CT: nat.CT, Server: nat.Server, MaxHops: 1}
	body := docs[i].Data
	note := src + "/" + docs[i].Name
	if src == "linkheader" {
		c.Link = string(body)
		body = []byte("<html><head><link rel=preload href=/p.css></head><body><a href=x>x</a> http://text.example.org/t</body></html>")
		c.CT = c10CTs[0]
		src = "html"
	}
	if rapid.IntRange(0, 3).Draw(t, "mutate") > 0 {
		var n string
		body, n = c10Mutate(t, src, body, docs)
		note += " " + n
	}
	c.Body = body
	urls := c10URLsOfKind(nat.Kinds)
	c.URL = rapid.SampledFrom(urls).Draw(t, "url")
	// variations
	switch rapid.IntRange(0, 9).Draw(t, "ctvar") {
	case 0, 1:
		c.CT = rapid.SampledFrom(c10CTs).Draw(t, "ct")
	case 2:
		c.NoCT = true
	case 3:
		tmp, _ := c10Mutate(t, "linkheader", []byte(c.CT), nil)
		c.CT = string(tmp[:min(len(tmp), 4096)])
	}
	if rapid.IntRange(0, 4).Draw(t, "urlvar") == 0 {
		c.URL = rapid.SampledFrom(c10URLs).Draw(t, "anyurl").URL
	}
	if rapid.IntRange(0, 4).Draw(t, "statusvar") == 0 {
		c.Status = rapid.SampledFrom(c10Statuses).Draw(t, "status")
	}
	if rapid.IntRange(0, 5).Draw(t, "servervar") == 0 {
		c.Server = rapid.SampledFrom(c10Servers).Draw(t, "server")
	}
	hdrText := func(label string) string {
		switch rapid.IntRange(0, 3).Draw(t, label+"kind") {
		case 0:
			return rapid.SampledFrom(c10HeaderTexts).Draw(t, label)
		case 1:
			ld := c10Bases("linkheader")
			tmp, _ := c10Mutate(t, "linkheader", ld[rapid.IntRange(0, len(ld)-1).Draw(t, label+"doc")].Data, ld)
			return string(tmp[:min(len(tmp), 8192)])
		case 2:
			tmp, _ := c10Mutate(t, "linkheader", []byte(rapid.SampledFrom(c10HeaderTexts).Draw(t, label)), nil)
			return string(tmp[:min(len(tmp), 8192)])
		}
		return string(body[:min(len(body), 300)])
	}
	if c.Status >= 300 && c.Status < 400 || rapid.IntRange(0, 9).Draw(t, "locvar") == 0 {
		c.Location = hdrText("location")
	}
	if c.Link == "" && rapid.IntRange(0, 3).Draw(t, "linkvar") == 0 {
		c.Link = hdrText("link")
	}
	c.Depth = rapid.SampledFrom([]int{0, 0, 0, 0, 1, 1, 2, 2, 3, 4}).Draw(t, "depth")
	c.RedirParent = c.Depth > 0 && rapid.IntRange(0, 3).Draw(t, "redirparent") == 0
	c.Hops = rapid.SampledFrom([]int{0, 0, 0, 1, 2, 3}).Draw(t, "hops")
	c.MaxHops = rapid.SampledFrom([]int{1, 1, 1, 0, 2, 3}).Draw(t, "maxhops")
	c.Redirects = rapid.SampledFrom([]int{0, 0, 0, 1, 19, 20, 21}).Draw(t, "redirects")
	c.NoAssets = rapid.IntRange(0, 9).Draw(t, "noassets") == 0
	c.DomainsCrawl = rapid.IntRange(0, 5).Draw(t, "domainscrawl") == 0
	c.AltPages = rapid.Bool().Draw(t, "altpages")
	c.DisableTags = c10TagSets[rapid.SampledFrom([]int{0, 0, 0, 1, 2, 3, 4, 5}).Draw(t, "tags")]
	c.Note = note
	return c
}

// ---- tests ------------------------------------------------------------------------------------------------

// c10RunMutation is the body of every rapid unit.
func c10RunMutation(t *testing.T, target string, gen func(*rapid.T) c10Case) {
	facet := "C10/" + target
	defer veriflib.Flush()
	defer c10JournalEnd(facet)
	var rc c10Case
	if veriflib.ReplayCase(facet, &rc) {
		rc.Target = target
		propC10(t, rc)
		return
	} else if veriflib.Replaying() {
		t.Skip()
	}
	rapid.Check(t, func(t *rapid.T) {
		c := gen(t)
		propC10(t, c)
	})
}

func TestVerif_C10_Mut_Chain(t *testing.T) { c10RunMutation(t, "chain", genC10Chain) }
func TestVerif_C10_Mut_HTML(t *testing.T) {
	c10RunMutation(t, "html", func(t *rapid.T) c10Case { return genC10Direct(t, "html") })
}
func TestVerif_C10_Mut_JSON(t *testing.T) {
	c10RunMutation(t, "json", func(t *rapid.T) c10Case { return genC10Direct(t, "json") })
}
func TestVerif_C10_Mut_XML(t *testing.T) {
	c10RunMutation(t, "xml", func(t *rapid.T) c10Case { return genC10Direct(t, "xml") })
}
func TestVerif_C10_Mut_S3(t *testing.T) {
	c10RunMutation(t, "s3", func(t *rapid.T) c10Case { return genC10Direct(t, "s3") })
}
func TestVerif_C10_Mut_M3U8(t *testing.T) {
	c10RunMutation(t, "m3u8", func(t *rapid.T) c10Case { return genC10Direct(t, "m3u8") })
}
func TestVerif_C10_Mut_PDF(t *testing.T) {
	c10RunMutation(t, "pdf", func(t *rapid.T) c10Case { return genC10Direct(t, "pdf") })
}
func TestVerif_C10_Mut_Script(t *testing.T) {
	c10RunMutation(t, "script", func(t *rapid.T) c10Case { return genC10Direct(t, "script") })
}
func TestVerif_C10_Mut_LinkHeader(t *testing.T) {
	c10RunMutation(t, "linkheader", func(t *rapid.T) c10Case { return genC10Direct(t, "linkheader") })
}
func TestVerif_C10_Mut_Reddit(t *testing.T) {
	c10RunMutation(t, "reddit", func(t *rapid.T) c10Case { return genC10Direct(t, "reddit") })
}
func TestVerif_C10_Mut_Truthsocial(t *testing.T) {
	c10RunMutation(t, "truthsocial", func(t *rapid.T) c10Case { return genC10Direct(t, "truthsocial") })
}
func TestVerif_C10_Mut_INA(t *testing.T) {
	c10RunMutation(t, "ina", func(t *rapid.T) c10Case { return genC10Direct(t, "ina") })
}

// TestVerif_C10_Corpus replays the committed regression corpus (and the hostile constants) through the entry function
// as a plain test: every document through its own target, through every OTHER direct target (a server may label
// anything as anything), and through the chain with its natural and a few unnatural response shapes; files in
// corpus/c10/chain/ are byte-level inputs of the chain codec (regressions found by the native fuzzer).
func TestVerif_C10_Corpus(t *testing.T) {
	defer veriflib.Flush()
	if veriflib.Replaying() {
		t.Skip()
	}
	for _, target := range c10Targets {
		defer c10JournalEnd("C10/" + target)
	}
	n := 0
	if os.Getenv("VERIF_C10_TIMES") != "" { // development aid: which corpus documents are slow
		for _, target := range c10Targets[1:] {
			for _, d := range c10Corpus(target) {
				t0 := time.Now()
				propC10(t, c10Case{Target: target, Body: d.Data, Note: d.Name})
				if el := time.Since(t0); el > 100*time.Millisecond {
					fmt.Printf("SLOW %-12s %-40s %8d bytes %v\n", target, d.Name, len(d.Data), el)
				}
			}
		}
		return
	}
	for _, target := range c10Targets[1:] {
		docs := c10Corpus(target)
		if len(c10Committed(target)) == 0 {
			t.Fatalf("harness: no committed corpus for target %s under %s", target, c10CorpusDir())
		}
		for _, d := range docs {
			propC10(t, c10Case{Target: target, Body: d.Data, Note: "corpus " + target + "/" + d.Name})
			n++
			if strings.HasPrefix(d.Name, "hostile-") {
				continue
			}
			for _, other := range c10Targets[1:] {
				if other != target {
					propC10(t, c10Case{Target: other, Body: d.Data, Note: "corpus " + target + "/" + d.Name + " as " + other})
					n++
				}
			}
		}
	}
	for _, c := range c10NaturalChainCases(true) {
		propC10(t, c)
		n++
	}
	for _, d := range c10Committed("chain") {
		c := c10FromBytes("chain", d.Data)
		c.Note = "corpus chain/" + d.Name
		propC10(t, c)
		n++
	}
	t.Logf("replayed %d corpus cases", n)
}

// TestVerif_C10_File runs one plain file through a target: VERIF_C10_FILE=<path> VERIF_C10_TARGET=<target> (development
// aid and manual replay of corpus files / raw fuzz crashers; for the chain target the file is a byte-codec input).
func TestVerif_C10_File(t *testing.T) {
	p := os.Getenv("VERIF_C10_FILE")
	if p == "" {
		t.Skip()
	}
	defer veriflib.Flush()
	defer c10JournalEnd("")
	b, err := os.ReadFile(p)
	if err != nil {
		t.Fatalf("harness: %v", err)
	}
	if bytes.HasPrefix(b, []byte("go test fuzz v1")) {
		if b, err = c10ParseGoFuzz(string(b)); err != nil {
			t.Fatalf("harness: %v", err)
		}
	}
	c := c10FromBytes(os.Getenv("VERIF_C10_TARGET"), b)
	c.Note = "file " + p
	propC10(t, c)
}

// TestVerif_C10_Minimise (development aid): VERIF_C10_MIN=<replay json of a panic> shrinks the body by delta debugging
// while the panic keeps its key and its panicking function; writes <replay>.min and prints the result.
func TestVerif_C10_Minimise(t *testing.T) {
	p := os.Getenv("VERIF_C10_MIN")
	if p == "" {
		t.Skip()
	}
	os.Setenv("VERIF_REPLAY", p)
	var c c10Case
	var f veriflib.Failure
	raw, err := os.ReadFile(p)
	if err != nil || json.Unmarshal(raw, &f) != nil || json.Unmarshal(f.Case, &c) != nil {
		t.Fatalf("harness: cannot read %s", p)
	}
	c = c10Materialise(c)
	first, over := c10Exec(c, 5*time.Second)
	if over != "" || first.pn == nil {
		t.Fatalf("the case does not panic (over=%q)", over)
	}
	same := func(b []byte) bool {
		d := c
		d.Body = b
		r, over := c10Exec(d, 2*time.Second)
		return over == "" && r.pn != nil && r.pn.Key == first.pn.Key && r.pn.Site == first.pn.Site
	}
	b := c.Body
	for n := 2; len(b) >= 2; {
		chunk := (len(b) + n - 1) / n
		reduced := false
		for i := 0; i < len(b); i += chunk {
			cand := append(append([]byte{}, b[:i]...), b[min(len(b), i+chunk):]...)
			if same(cand) {
				b, reduced = cand, true
				n = max(n-1, 2)
				break
			}
		}
		if !reduced {
			if chunk == 1 {
				break
			}
			n = min(n*2, len(b))
		}
	}
	os.WriteFile(p+".min", b, 0o644)
	fmt.Printf("MINIMISED %s (%s at %s): %d -> %d bytes: %q\n", first.pn.Key, first.pn.Value, first.pn.Site, len(c.Body), len(b), b)
}

// TestVerif_C10_ZzVerdict turns timeouts that did not reproduce into an "inconclusive" process exit (the driver
// reports infrastructure trouble, exit 2, never a violation). Runs last in every unit.
func TestVerif_C10_ZzVerdict(t *testing.T) {
	if n := c10Inconclusive.Load(); n > 0 {
		veriflib.Flush()
		fmt.Printf("C10 INCONCLUSIVE: %d watchdog timeouts did not reproduce on replay with a 10x budget\n", n)
		os.Exit(3)
	}
}

// TestVerif_C10_CodecSelfTest: the byte codec of the chain target round-trips table-built cases (harness self-check).
func TestVerif_C10_CodecSelfTest(t *testing.T) {
	if veriflib.Replaying() {
		t.Skip()
	}
	for _, c := range c10NaturalChainCases(false) {
		if len(c.Location) > 255 || len(c.Link) > 1020 || len(c.Link)%4 != 0 || c.CT != "" && c10IndexOf(c10CTs, c.CT) == 0 && c.CT != c10CTs[0] {
			continue
		}
		d := c10DecodeChain(c10EncodeChain(c))
		if !bytes.Equal(d.Body, c.Body) {
			t.Fatalf("harness: chain codec does not round-trip the body of %s", c.Note)
		}
		d.Note, d.Body, c.Body = c.Note, nil, nil
		if d.Status == 200 && c.Status == 0 {
			d.Status = 0
		}
		if c.NoCT {
			c.CT = ""
		}
		if veriflib.JSON(d) != veriflib.JSON(c) {
			t.Fatalf("harness: chain codec does not round-trip:\n in  %s\n out %s", veriflib.JSON(c), veriflib.JSON(d))
		}
	}
}
