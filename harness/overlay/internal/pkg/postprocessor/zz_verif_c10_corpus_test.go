package postprocessor

// C10 — seed corpus (committed plain documents + hostile constants built at run time), the byte codec of the chain
// target (data-provider layer of the native fuzzer) and the decoding of crashers saved by the native fuzzer.

import (
	"fmt"
	"os"
	"path/filepath"
	"sort"
	"strconv"
	"strings"
	"sync"
)

type c10Doc struct {
	Name string
	Data []byte
}

var (
	c10CorpusMu sync.Mutex
	c10CorpusM  = map[string][]c10Doc{}
)

func c10CorpusDir() string {
	d := os.Getenv("VERIF_DIR")
	if d == "" {
		d = "/verif"
	}
	return filepath.Join(d, "harness", "corpus", "c10")
}

// c10Committed returns the committed documents of a target (sorted by name).
func c10Committed(target string) []c10Doc {
	c10CorpusMu.Lock()
	defer c10CorpusMu.Unlock()
	if d, ok := c10CorpusM[target]; ok {
		return d
	}
	var docs []c10Doc
	ents, _ := os.ReadDir(filepath.Join(c10CorpusDir(), target))
	for _, e := range ents {
		if e.IsDir() {
			continue
		}
		b, err := os.ReadFile(filepath.Join(c10CorpusDir(), target, e.Name()))
		if err != nil {
			continue
		}
		docs = append(docs, c10Doc{e.Name(), b})
	}
	sort.Slice(docs, func(i, j int) bool { return docs[i].Name < docs[j].Name })
	c10CorpusM[target] = docs
	return docs
}

// c10ScalePct scales the repetition counts of the hostile constants: 100 for the corpus replay, 8 for the documents
// the mutation tests start from (same shapes, a few KiB instead of 60-400 KiB: amplification is the mutator's job).
var c10ScalePct = 100

func c10Rep(s string, n int) string { return strings.Repeat(s, max(2, n*c10ScalePct/100)) }

// c10JSONInString nests a JSON document inside a JSON string n times.
func c10JSONInString(n int) string {
	s := `["https://deep.example.org/leaf.png"]`
	for i := 0; i < n; i++ {
		s = `{"k":` + strconv.Quote(s) + `}`
		if len(s) > 200<<10*c10ScalePct/100 {
			break
		}
	}
	return s
}

// c10Hostile builds the big hostile constants of a target (deep nesting, huge numbers, truncated tokens, unbalanced
// tags, very long attribute values ...). They are generated, not stored, to keep the committed corpus small.
func c10Hostile(target string) []c10Doc {
	d := func(name, s string) c10Doc { return c10Doc{"hostile-" + name, []byte(s)} }
	switch target {
	case "html":
		return []c10Doc{
			d("deep-div", "<html><body>"+c10Rep("<div>", 12000)+`<a href="/deep">x</a><img src=deep.png>`),
			d("deep-mixed", c10Rep("<table><tr><td><b><i><a href=x>", 2000)),
			d("deep-formatting", c10Rep("<b><a href=y><i>", 4000)+c10Rep("</b>", 4000)+c10Rep("<p>", 2000)),
			d("long-attr", `<a href="http://example.org/`+c10Rep("a", 60000)+`">x</a><img srcset="`+c10Rep("x.png 1x, ", 6000)+`">`),
			d("many-attrs", "<a "+c10Rep(`href="/a" data-href=b `, 3000)+">x</a>"),
			d("srcset-commas", `<img srcset="`+c10Rep(",", 30000)+`"><source srcset="`+c10Rep(" ,", 15000)+`"><img data-srcset=",">`),
			d("script-braces", "<script>var a = "+c10Rep("{", 30000)+c10Rep("}", 29999)+"</script><script>x="+c10Rep("}", 1000)+"</script>"),
			d("script-deep-json", `<script type="application/json">`+c10Rep("[", 9000)+`"https://example.org/x.png"`+c10Rep("]", 9000)+"</script><script type=json>"+c10Rep(`{"a":`, 20000)+"</script>"),
			d("data-item-deep", `<div data-item='`+c10Rep("[", 20000)+`'></div><div data-item='`+c10Rep(`{"a":[`, 4000)+`"http://e.org/x.png"`+c10Rep("]}", 4000)+`'>`),
			d("style-urls", "<style>"+c10Rep("a{background:url(", 8000)+"</style><div style=\""+c10Rep("url((('", 8000)+"\">"),
			d("style-parens", `<div style="`+c10Rep("(", 20000)+c10Rep(")", 20000)+`"></div><p style="`+c10Rep("('')", 10000)+`">`),
			d("entities", "<a href=\""+c10Rep("&#x10FFFF;&#0;&amp;&#xD800;", 3000)+"\">e</a>"),
			d("nul-bytes", "<html>\x00<a\x00 href=\x00\"/x\x00\">\x00</a>"+c10Rep("\x00", 5000)+"<img src=\"a\x00b\">"),
			d("invalid-utf8", "<html><a href=\"/\xff\xfe\xfd"+c10Rep("\xc3\x28\xf0\x9f\x98", 5000)+"\">x</a>"),
			d("base-hostile", `<base href="http://[::1"><a href="x">x</a><base href="%zz"><a href="//\\evil">y</a><img src=":">`),
			d("base-long", `<base href="https://example.org/`+c10Rep("../", 20000)+`"><a href="`+c10Rep("../", 20000)+`x">x</a>`),
			d("comments-cdata", c10Rep("<!--", 10000)+c10Rep("<![CDATA[", 5000)+c10Rep("-->", 100)+"<a href=after>"),
			d("svg-math-nest", c10Rep("<svg><math><mtext><svg><foreignObject><math><mi>", 1500)+"<a href=x>"),
			d("select-table-nest", c10Rep("<select><table><template><frameset>", 3000)),
			// letters whose upper/lower-case forms differ in byte length (Ⱥ Ⱦ 2->3, İ 2->3, ẞ 3->2, K 3->1) in every attribute a
			// case-insensitive search might look at: offsets computed on a case-folded copy do not fit the original
			d("case-length", `<meta http-equiv="refresh" content="ȺȺȺȺȺȺ http;url="><meta http-equiv="Refresh" content="0;URL=http://example.org/ⱥ"><meta content="ȾȾȾȾȾȾȾȾ HTTP://EXAMPLE.ORG/İ" http-equiv="REFRESH">`+
				`<a href="ȺȺȺȺ HTTP://example.org/" onclick="WINDOW.LOCATION='ȺȺȺȺȺȺȺȺ'">x</a><link rel="ȺLTERNATE" href="ẞẞẞ.css"><img src="KKKK.png" srcset="ȺȺȺ 1X, İİİ 2X"><div style="BACKGROUND:URL(ȺȺȺȺȺȺ)"></div>`+
				`<base href="HTTP://ȺȺȺȺ.example/"><script type="APPLICATION/JSON">{"ȺȺȺ":"HTTP://example.org/ȾȾȾ"}</script>`),
			// srcset / data-srcset values that are not well-formed candidate lists: unbalanced parentheses, commas inside
			// URLs and descriptors, nothing but separators, descriptors without a URL
			d("srcset-odd", `<img srcset="/a.jpg (1x"><img srcset="/a.jpg 300w (min-width: 10px"><source data-srcset="/b.jpg (((" srcset=")))"><img data-srcset="( /c.jpg 1x, /d.jpg (2x">`+
				`<img srcset=",,, ,"><img srcset="1x, 2x"><img srcset="/e,f.jpg 1x,/g.jpg"><source srcset="/h.jpg 1x) , (/i.jpg 2x"><img srcset="`+c10Rep("(", 5000)+`"><img srcset="/j.jpg `+c10Rep("(1x, ", 3000)+`">`),
		}
	case "json":
		return []c10Doc{
			d("deep-array-open", c10Rep("[", 100000)),
			d("deep-array-9999", c10Rep("[", 9999)+`"https://example.org/x.png"`+c10Rep("]", 9999)),
			d("deep-array-10001", c10Rep("[", 10001)+c10Rep("]", 10001)),
			d("deep-object", c10Rep(`{"a":`, 9000)+`"http://example.org/y"`+c10Rep("}", 9000)),
			d("huge-number", `{"n":`+c10Rep("9", 100000)+`,"e":1e`+c10Rep("9", 1000)+`,"u":"http://example.org/z.png"}`),
			d("long-string", `{"u":"http://example.org/`+c10Rep("a", 150000)+`.png"}`),
			d("json-in-string-deep", c10JSONInString(40)),
			d("likely-json-strings", `[`+c10Rep(`"{\"\"}","[\"]","{\"","[\"\"]",`, 5000)+`"x"]`),
			d("many-urls", `[`+c10Rep(`"http://example.org/a.png","//x.example/y","http://[::1]/",`, 3000)+`1]`),
			d("escapes", `{"u":"http:\/\/example.org\/`+c10Rep(`𐀀\u0000\\`, 8000)+`"}`),
			d("truncated-escape", `{"u":"http://example.org/\u12`),
			d("nul", "{\"a\x00\":\"http://example.org/\x00.png\"}"),
			// string values that are white space only, of every length around the "could this be JSON" threshold, and
			// padded JSON-looking strings (serialised DOM and rich-text trees are full of them)
			d("blank-strings", `{"text":"\n        ","a":"","b":" ","c":"    ","d":"     ","e":"      ","t":"\t\t\t\t\t","n":"\r\n\r\n\r\n","u":"http://example.org/b.png"}`),
			d("padded-json-strings", `["  [\"http://example.org/c.png\"]  "," {\"k\":\"v\"}\n","   {   ","  ]  ","\u00a0\u00a0\u00a0\u00a0\u00a0","\u2003\u2003\u2003\u2003\u2003"]`),
		}
	case "xml":
		return []c10Doc{
			d("deep", `<?xml version="1.0"?>`+c10Rep("<a>", 60000)+"http://example.org/deep"),
			d("deep-ns", c10Rep(`<x:a xmlns:x="http://www.sitemaps.org/schemas/sitemap/0.9">`, 3000)),
			d("long-attr", `<r u="http://example.org/`+c10Rep("a", 150000)+`"/>`),
			d("many-attrs", "<r "+c10Rep(`a="http://example.org/x" `, 8000)+"/>"),
			d("entities", "<r>"+c10Rep("&#x10FFFF;&amp;&#0;&bogus;&#xD800;", 5000)+"</r>"),
			d("doctype-nest", "<!DOCTYPE r ["+c10Rep("<!ENTITY a '", 5000)+c10Rep("[", 5000)+"<r>http://example.org/x</r>"),
			d("directive-quotes", "<!DOCTYPE "+c10Rep(`"<'>`, 20000)),
			d("comment-open", "<r><!--"+c10Rep("-", 100000)),
			d("cdata-open", "<r><![CDATA["+c10Rep("]]", 50000)),
			d("procinst", c10Rep("<?x ", 20000)+"?>"),
			d("text-urls", "<r>"+c10Rep("http://example.org/a.png https://x.example/b ", 4000)+"</r>"),
			d("charset", `<?xml version="1.0" encoding="`+c10Rep("x", 70000)+`"?><r>http://example.org/</r>`),
			// declared encodings the decoder may or may not know (supported, registered-but-unimplemented, unknown): an
			// unsupported one must cost this document its links, nothing more
			d("charset-gb2312", `<?xml version="1.0" encoding="GB2312"?><urlset xmlns="http://www.sitemaps.org/schemas/sitemap/0.9"><url><loc>http://example.org/a</loc></url></urlset>`),
			d("charset-utf32", `<?xml version="1.0" encoding="UTF-32"?><rss><channel><link>http://example.org/feed</link></channel></rss>`),
			d("charset-utf7", `<?xml version="1.0" encoding="utf-7"?><r a="http://example.org/x.png">http://example.org/y</r>`),
			d("charset-tis620", `<?xml version="1.0" encoding="TIS-620"?><r>http://example.org/</r>`),
			d("charset-iso2022kr", `<?xml version='1.0' encoding='ISO-2022-KR'?><r>http://example.org/</r>`),
			d("charset-sjis", `<?xml version="1.0" encoding="Shift_JIS"?><r>http://example.org/e</r>`),
			d("charset-latin1", `<?xml version="1.0" encoding="ISO-8859-1"?><r>http://example.org/café</r>`),
			d("charset-cp1252", `<?xml version="1.0" encoding="windows-1252"?><r>http://example.org/</r>`),
			d("charset-ucs2", `<?xml version="1.0" encoding="ISO-10646-UCS-2"?><r>http://example.org/</r>`),
			d("charset-empty", `<?xml version="1.0" encoding=""?><r>http://example.org/</r>`),
			d("nul-invalid", "<r a=\"http://e.org/\x00\xff\">\x00\xfe\xffhttp://e.org/\x01</r>"),
			d("unbalanced-ends", c10Rep("</a>", 30000)+"<r>http://example.org/x</r>"),
		}
	case "s3":
		return []c10Doc{
			d("many-contents", "<ListBucketResult>"+c10Rep("<Contents><Key>k/../%zz é</Key><Size>1</Size></Contents>", 3000)+"</ListBucketResult>"),
			d("many-prefixes", "<ListBucketResult>"+c10Rep("<CommonPrefixes>"+c10Rep("<Prefix>p/</Prefix>", 50)+"</CommonPrefixes>", 200)+"</ListBucketResult>"),
			d("deep-in-key", "<ListBucketResult><Contents><Key>"+c10Rep("<a>", 30000)+"</Key></Contents></ListBucketResult>"),
			d("deep-root", c10Rep("<ListBucketResult>", 20000)),
			d("long-key", "<ListBucketResult><Contents><Key>"+c10Rep("k", 200000)+"</Key><Size>5</Size></Contents><IsTruncated>true</IsTruncated><NextContinuationToken>"+c10Rep("t", 70000)+"</NextContinuationToken></ListBucketResult>"),
			d("huge-size", "<ListBucketResult><Contents><Key>k</Key><Size>"+c10Rep("9", 5000)+"</Size></Contents></ListBucketResult>"),
			d("key-control", "<ListBucketResult><Contents><Key>a\x01b\x7f&#x0;&#10;\xff://x</Key><Size>1</Size></Contents><CommonPrefixes><Prefix>&#xD;&#xA;</Prefix></CommonPrefixes></ListBucketResult>"),
			d("ns-prefix", `<s3:ListBucketResult xmlns:s3="http://s3.amazonaws.com/doc/2006-03-01/"><s3:Contents><s3:Key>k</s3:Key><s3:Size>1</s3:Size></s3:Contents></s3:ListBucketResult>`),
			d("truncated-token", "<ListBucketResult><Contents><Key>k</Key><Size>1</Size></Contents><NextContinuationTok"),
			// the numeric fields of a listing are whatever the server says: negative, zero, absurdly large, not a number
			d("keycount-neg", "<ListBucketResult><Name>b</Name><KeyCount>-2</KeyCount><MaxKeys>-5</MaxKeys><IsTruncated>false</IsTruncated><Contents><Key>a.txt</Key><Size>3</Size></Contents></ListBucketResult>"),
			d("keycount-min", "<ListBucketResult><KeyCount>-9223372036854775808</KeyCount><MaxKeys>0</MaxKeys><Contents><Key>a.txt</Key><Size>-1</Size></Contents></ListBucketResult>"),
			d("keycount-huge", "<ListBucketResult><KeyCount>9223372036854775807</KeyCount><MaxKeys>99999999999999999999</MaxKeys><Contents><Key>a.txt</Key><Size>9223372036854775807</Size></Contents><IsTruncated>true</IsTruncated><NextContinuationToken>t</NextContinuationToken></ListBucketResult>"),
			// truncated listings without the parts a next-page link is built from: no <Contents>, no marker, no token
			d("truncated-empty", "<ListBucketResult><Name>b</Name><Prefix></Prefix><Delimiter>/</Delimiter><IsTruncated>true</IsTruncated><CommonPrefixes><Prefix>a/</Prefix></CommonPrefixes></ListBucketResult>"),
			d("truncated-bare", "<ListBucketResult><IsTruncated>true</IsTruncated></ListBucketResult>"),
			d("truncated-empty-marker", "<ListBucketResult><IsTruncated>true</IsTruncated><NextMarker></NextMarker><NextContinuationToken></NextContinuationToken><Marker></Marker></ListBucketResult>"),
			d("keycount-nan", "<ListBucketResult><KeyCount>many</KeyCount><MaxKeys>1e3</MaxKeys><Contents><Key>a.txt</Key><Size>0x10</Size></Contents></ListBucketResult>"),
		}
	case "m3u8":
		return []c10Doc{
			d("long-line", "#EXTM3U\n#EXTINF:10,"+c10Rep("t", 150000)+"\nseg.ts\n"),
			d("long-uri", "#EXTM3U\n#EXT-X-STREAM-INF:BANDWIDTH=1\n"+c10Rep("u", 200000)+"\n"),
			d("many-segments", "#EXTM3U\n#EXT-X-TARGETDURATION:1\n"+c10Rep("#EXTINF:1,\ns.ts\n", 20000)),
			d("many-variants", "#EXTM3U\n"+c10Rep("#EXT-X-MEDIA:TYPE=AUDIO,GROUP-ID=\"a\",URI=\"a.m3u8\"\n#EXT-X-STREAM-INF:BANDWIDTH=1,AUDIO=\"a\"\nv.m3u8\n", 4000)),
			d("huge-numbers", "#EXTM3U\n#EXT-X-VERSION:99999999999999999999\n#EXT-X-TARGETDURATION:1e309\n#EXT-X-MEDIA-SEQUENCE:-1\n#EXTINF:"+c10Rep("9", 400)+",\n#EXT-X-BYTERANGE:99999999999999999999@-99999999999999999999\na.ts\n#EXT-X-DISCONTINUITY-SEQUENCE:18446744073709551616\n"),
			d("attr-quotes", "#EXTM3U\n#EXT-X-STREAM-INF:"+c10Rep(`A="`, 20000)+"\nv.m3u8\n#EXT-X-KEY:"+c10Rep(`,=",`, 10000)+"\n"),
			d("resolution", "#EXTM3U\n#EXT-X-STREAM-INF:BANDWIDTH=x,RESOLUTION=,FRAME-RATE=abc,PROGRAM-ID=,CODECS=\n\n#EXT-X-STREAM-INF\n#EXT-X-STREAM-INF:\n#EXT-X-I-FRAME-STREAM-INF:\n"),
			d("tags-without-values", "#EXTM3U\n#EXTINF\n#EXTINF:\n#EXT-X-KEY\n#EXT-X-KEY:\n#EXT-X-MAP:\n#EXT-X-BYTERANGE:\n#EXT-X-BYTERANGE:@\n#EXT-X-PROGRAM-DATE-TIME:\n#EXT-X-DATERANGE:\n#EXT-X-START:\n#EXT-X-MEDIA:\n#EXT-X-CUE-OUT:\n#EXT-OATCLS-SCTE35:\n#EXT-X-SCTE35:\n#EXT-SCTE35:\n#EXT-X-CUE-OUT-CONT:\n#EXT-X-CUE-IN\nx.ts\n"),
			d("scte-before-segment", "#EXTM3U\n#EXT-X-CUE-OUT-CONT:ElapsedTime=x,Duration=y,SCTE35=\n#EXT-X-CUE-IN\n#EXT-OATCLS-SCTE35:/DA\n#EXT-X-ENDLIST\n#EXT-X-CUE-IN\n"),
			d("media-then-master", "#EXTM3U\n#EXTINF:1,\na.ts\n#EXT-X-STREAM-INF:BANDWIDTH=1\nv.m3u8\n#EXTINF:1,\nb.ts\n#EXT-X-ENDLIST\n#EXT-X-MEDIA:TYPE=AUDIO\n"),
			d("cr-only", strings.ReplaceAll("#EXTM3U\n#EXTINF:1,\na.ts\n", "\n", "\r")),
			d("nul-invalid", "#EXTM3U\x00\n#EXTINF:1\xff,\x00\na\x00.ts\n#EXT-X-KEY:METHOD=\xfe,URI=\"\xc3\x28\"\n"),
			d("window-overflow", "#EXTM3U\n#EXT-X-MEDIA-SEQUENCE:4294967295\n"+c10Rep("#EXT-X-DISCONTINUITY\n#EXT-X-KEY:METHOD=NONE\n#EXT-X-MAP:URI=\"i\"\n", 3000)+"#EXTINF:1,\nlast.ts\n"),
		}
	case "pdf":
		hdr := "%PDF-1.4\n%\xe2\xe3\xcf\xd3\n"
		return []c10Doc{
			d("deep-array", hdr+"1 0 obj\n"+c10Rep("[", 60000)+"\nendobj\ntrailer\n<< /Root 1 0 R /Size 2 >>\nstartxref\n15\n%%EOF\n"),
			d("deep-dict", hdr+"1 0 obj\n"+c10Rep("<< /A ", 30000)+"\nendobj\ntrailer\n<< /Root 1 0 R /Size 2 >>\nstartxref\n15\n%%EOF\n"),
			d("deep-parens", hdr+"1 0 obj\n"+c10Rep("(", 100000)+"\nendobj\ntrailer\n<< /Root 1 0 R >>\nstartxref\n15\n%%EOF\n"),
			d("huge-xref-count", hdr+"1 0 obj\n<< /Type /Catalog /Pages 1 0 R >>\nendobj\nxref\n0 99999999999\n0000000000 65535 f \ntrailer\n<< /Root 1 0 R /Size 99999999999 >>\nstartxref\n67\n%%EOF\n"),
			d("negative-size", hdr+"1 0 obj\n<< /Type /Catalog /Pages 1 0 R >>\nendobj\nxref\n0 -1\ntrailer\n<< /Root 1 0 R /Size -5 /Prev -1 >>\nstartxref\n67\n%%EOF\n"),
			d("startxref-self", hdr+"trailer\n<< /Root 1 0 R /Size 2 /Prev 24 >>\nstartxref\n24\n%%EOF\n"),
			d("startxref-huge", hdr+"startxref\n99999999999999999999\n%%EOF\n"),
			d("startxref-past-end", hdr+"xref\n0 1\n0000000000 65535 f \ntrailer\n<< /Size 1 /Root 9 0 R >>\nstartxref\n100000\n%%EOF\n"),
			d("header-only", "%PDF-"),
			d("header-version", "%PDF-9.9\n%%EOF"),
			d("eof-only", hdr+c10Rep("%%EOF\n", 20000)),
			d("stream-length", hdr+"1 0 obj\n<< /Length 99999999999 /Filter /FlateDecode >>\nstream\nxx\nendstream\nendobj\nxref\n0 2\n0000000000 65535 f \n0000000015 00000 n \ntrailer\n<< /Root 1 0 R /Size 2 >>\nstartxref\n95\n%%EOF\n"),
			d("root-is-stream", hdr+"1 0 obj\n<< /Type /Catalog /Pages 1 0 R /Length 2 >>\nstream\nxx\nendstream\nendobj\nxref\n0 2\n0000000000 65535 f \n0000000015 00000 n \ntrailer\n<< /Root 1 0 R /Size 2 >>\nstartxref\n97\n%%EOF\n"),
			d("no-xref-keywords", hdr+c10Rep("1 0 obj\n<< /Type /Page /Annots [ 1 0 R ] /Parent 1 0 R /Kids [ 1 0 R ] >>\nendobj\n", 300)+"trailer\n<< /Root 1 0 R >>\n"),
			d("hex-names", hdr+"1 0 obj\n<< /#41#00#zz#"+c10Rep("#", 20000)+" <"+c10Rep("4", 40001)+" >>\nendobj\n"),
		}
	case "script":
		return []c10Doc{
			d("braces", "a = "+c10Rep("{", 50000)+c10Rep("}", 50000)),
			d("open-only", "a = "+c10Rep("{", 100000)),
			d("close-only", "a = "+c10Rep("}", 100000)),
			d("equals", c10Rep("=", 100000)),
			d("deep-valid", "a = "+c10Rep(`{"a":`, 9000)+`"http://example.org/x.png"`+c10Rep("}", 9000)+";"),
			d("multibyte-before-brace", "a = "+c10Rep("é😀", 10000)+`{"u":"http://example.org/é.png"}`+c10Rep("😀", 10)),
			d("invalid-utf8", "a = \xff\xfe{\"u\":\"http://example.org/\xff.png\"}\xc3"),
			d("json-in-string", "window.x = "+c10JSONInString(30)+";"),
		}
	case "linkheader":
		return []c10Doc{
			d("angles", c10Rep("<", 60000)),
			d("commas", c10Rep(", ", 30000)),
			d("semicolons", "<http://example.org/x>"+c10Rep(";", 60000)),
			d("many-links", c10Rep(`<http://example.org/x?a=1>; rel="next"; title="t", `, 1500)),
			d("equals", "<u>;"+c10Rep("=", 50000)+";rel"+c10Rep(`="`, 5000)),
			d("long-url", "<http://example.org/"+c10Rep("a", 60000)+`>; rel=next`),
			d("no-space-commas", c10Rep("<a>,<b>;rel=x,", 5000)),
			d("control", "<http://example.org/\x01\x7f\x1b[31m>; rel=\"\x08\", <\xff\xfe>; \xc3\x28=1"),
			d("only-attrs", `; rel="next"; type="x", ; , ;;`),
		}
	case "reddit":
		return []c10Doc{
			d("deep-any", `{"data":{"after":`+c10Rep("[", 9000)+c10Rep("]", 9000)+`,"children":[{"data":{"permalink":"/r/x/"}}]}}`),
			d("too-deep", `{"data":{"after":`+c10Rep("[", 20000)),
			d("huge-ints", `{"data":{"dist":1e999,"children":[{"data":{"gilded":99999999999999999999,"ups":-9223372036854775809,"created":1e400,"permalink":"/p"}}]}}`),
			d("many-children", `{"data":{"children":[`+c10Rep(`{"kind":"t3","data":{"permalink":"/r/a/comments/1/x/","preview":{"images":[{"resolutions":[{"url":"u"}]}]}}},`, 2000)+`{}]}}`),
			d("long-permalink", `{"data":{"children":[{"data":{"permalink":"`+c10Rep("/%zz\\u0000", 15000)+`"}}]}}`),
			d("case-keys", `{"DATA":{"CHILDREN":[{"DATA":{"PERMALINK":"/upper","permalink":"/lower"}}],"children":null}}`),
		}
	case "truthsocial":
		return []c10Doc{
			d("deep-any", `{"id":"1","card":`+c10Rep(`{"a":[`, 4000)+c10Rep("]}", 4000)+`,"media_attachments":[{"external_video_id":"v"}]}`),
			d("many-attachments", `{"id":"1","media_attachments":[`+c10Rep(`{"external_video_id":"v/../x","meta":{"original":{"width":1e9,"duration":"x"}}},`, 3000)+`{}]}`),
			d("long-id", `{"id":"`+c10Rep("9", 200000)+`"}`),
			d("time-formats", `{"id":"1","created_at":"9999-99-99T99:99:99Z","account":{"created_at":"0000-00-00T00:00:00+99:99"}}`),
			d("html-deep", "<html><body>"+c10Rep("<div>", 8000)+`<script type="application/json">`+c10Rep("[", 9000)+"</script>"),
			d("stream", `{"id":"1"}{"id":"2"}[`),
			// the untyped fields of a status (card, group, quote, in_reply_to, reblog, poll) embed a status-like object
			// whose arrays hold elements of every JSON kind and whose members have the wrong kinds
			d("untyped-embedded", `{"id":"1"`+c10Embedded([]string{"card", "group", "quote", "in_reply_to", "reblog", "poll"},
				`{"id":7,"url":[],"media_attachments":[null,"x",3,true,[],{"external_video_id":7},{"external_video_id":null},{"external_video_id":"v","meta":[]}],"account":"a","mentions":[null],"options":[null,1]}`)+`}`),
			d("untyped-embedded-kinds", `{"id":"1","reblog":{"media_attachments":{"0":null}},"quote":{"media_attachments":"x"},"card":[null],"group":3,"in_reply_to":"x","poll":true}`),
		}
	case "ina":
		return []c10Doc{
			d("deep-any", `{"categories":`+c10Rep("[", 9000)+c10Rep("]", 9000)+`,"resourceUrl":"https://media.ina.fr/a.mp4"}`),
			d("many-credits", `{"credits":[`+c10Rep(`{"@context":{"@vocab":"v"},"attributes":[{"@context":{},"key":"k"},null]},`, 3000)+`null],"uri":"x"}`),
			d("long-embed", `{"embedUrl":"`+c10Rep("/../", 40000)+`","dateOfBroadcast":"2000-01-01T00:00:00Z"}`),
			d("html-after-json", `{"resourceUrl":"https://media.ina.fr/a.mp4","description":"<html><img src=x.png><script>a={\"u\":\"http://e.org/x.js\"}</script>"}`),
			d("date-huge", `{"dateOfBroadcast":"`+c10Rep("9", 100000)+`"}`),
		}
	case "chain":
		return nil
	}
	return nil
}

var c10CorpusCache = map[string][]c10Doc{}

func c10CorpusScaled(target string, pct int) []c10Doc {
	key := target + "@" + strconv.Itoa(pct)
	c10CorpusMu.Lock()
	d, ok := c10CorpusCache[key]
	c10CorpusMu.Unlock()
	if ok {
		return d
	}
	committed := c10Committed(target)
	c10CorpusMu.Lock()
	defer c10CorpusMu.Unlock()
	c10ScalePct = pct
	d = append(append([]c10Doc{}, committed...), c10Hostile(target)...)
	c10ScalePct = 100
	c10CorpusCache[key] = d
	return d
}

// c10Corpus = committed documents + full-size hostile constants (corpus replay, fuzz seeds).
func c10Corpus(target string) []c10Doc { return c10CorpusScaled(target, 100) }

// c10Bases = committed documents + small hostile constants (starting points of the mutation tests).
func c10Bases(target string) []c10Doc { return c10CorpusScaled(target, 8) }

// ---- byte codec of the chain target --------------------------------------------------------------------------
//
// data = body ‖ location text ‖ link text ‖ control block (c10CtlLen bytes, read from the END so that a plain document
// with a few trailing control bytes is a valid input and missing bytes decode to the common case). Layout of the
// control block, last byte first:
//   0 status index   1 content-type index (0xff: no header)   2 URL index   3 server index
//   4 depth (bits 0-2: 0..4) | redirect parent (bit 3) | redirects: 0/1/20/21 (bits 4-5)
//   5 hops (bits 0-1) | max-hops (bits 2-3)      6 config switches: no-assets, domains-crawl, alt-pages, tag set (bits 3-5)
//   7 length of the Location text   8 length of the Link text (x4)

const c10CtlLen = 9

func c10DecodeChain(data []byte) c10Case {
	c := c10Case{Target: "chain"}
	ctl := make([]byte, c10CtlLen)
	n := min(len(data), c10CtlLen)
	for i := 0; i < n; i++ {
		ctl[i] = data[len(data)-1-i]
	}
	rest := data[:len(data)-n]
	take := func(k int) string {
		k = min(k, len(rest))
		s := string(rest[len(rest)-k:])
		rest = rest[:len(rest)-k]
		return s
	}
	c.Link = take(int(ctl[8]) * 4)
	c.Location = take(int(ctl[7]))
	c.Body = rest
	c.Status = c10Statuses[int(ctl[0])%len(c10Statuses)]
	if ctl[1] == 0xff {
		c.NoCT = true
	} else {
		c.CT = c10CTs[int(ctl[1])%len(c10CTs)]
	}
	c.URL = c10URLs[int(ctl[2])%len(c10URLs)].URL
	c.Server = c10Servers[int(ctl[3])%len(c10Servers)]
	c.Depth = int(ctl[4]&7) % 5
	c.RedirParent = ctl[4]&8 != 0 && c.Depth > 0
	c.Redirects = []int{0, 1, 20, 21}[(ctl[4]>>4)&3]
	c.Hops = int(ctl[5] & 3)
	c.MaxHops = int((ctl[5] >> 2) & 3)
	c.NoAssets = ctl[6]&1 != 0
	c.DomainsCrawl = ctl[6]&2 != 0
	c.AltPages = ctl[6]&4 != 0
	c.DisableTags = c10TagSets[int((ctl[6]>>3)&7)%len(c10TagSets)]
	return c
}

func c10IndexOf[T comparable](xs []T, x T) int {
	for i, v := range xs {
		if v == x {
			return i
		}
	}
	return 0
}

// c10EncodeChain is the inverse of c10DecodeChain for cases built from the tables (used to seed the native fuzzer).
func c10EncodeChain(c c10Case) []byte {
	loc, link := c.Location, c.Link
	if len(loc) > 255 {
		loc = loc[:255]
	}
	for len(link)%4 != 0 {
		link += " "
	}
	if len(link) > 255*4 {
		link = link[:255*4]
	}
	ctl := make([]byte, c10CtlLen)
	st := c.Status
	if st == 0 {
		st = 200
	}
	ctl[0] = byte(c10IndexOf(c10Statuses, st))
	if c.NoCT {
		ctl[1] = 0xff
	} else {
		ctl[1] = byte(c10IndexOf(c10CTs, c.CT))
	}
	for i, e := range c10URLs {
		if e.URL == c.URL {
			ctl[2] = byte(i)
		}
	}
	ctl[3] = byte(c10IndexOf(c10Servers, c.Server))
	ctl[4] = byte(c.Depth&7) | byte(c10IndexOf([]int{0, 1, 20, 21}, c.Redirects))<<4
	if c.RedirParent {
		ctl[4] |= 8
	}
	ctl[5] = byte(c.Hops&3) | byte(c.MaxHops&3)<<2
	for i, b := range []bool{c.NoAssets, c.DomainsCrawl, c.AltPages} {
		if b {
			ctl[6] |= 1 << i
		}
	}
	for i, ts := range c10TagSets {
		if fmt.Sprint(ts) == fmt.Sprint(c.DisableTags) {
			ctl[6] |= byte(i) << 3
		}
	}
	ctl[7] = byte(len(loc))
	ctl[8] = byte(len(link) / 4)
	out := append([]byte{}, c.Body...)
	out = append(out, loc...)
	out = append(out, link...)
	for i := c10CtlLen - 1; i >= 0; i-- {
		out = append(out, ctl[i])
	}
	return out
}

// c10FromBytes is the data-provider entry of the native fuzz targets and of the byte-level corpus files.
func c10FromBytes(target string, data []byte) c10Case {
	if target == "chain" {
		return c10DecodeChain(data)
	}
	return c10Case{Target: target, Body: data, MaxHops: 1}
}

// c10ParseGoFuzz extracts the []byte argument of a `go test fuzz v1` corpus file.
func c10ParseGoFuzz(text string) ([]byte, error) {
	lines := strings.Split(strings.ReplaceAll(text, "\r\n", "\n"), "\n")
	if len(lines) < 2 || !strings.HasPrefix(lines[0], "go test fuzz v1") {
		return nil, fmt.Errorf("not a go fuzz corpus file")
	}
	l := strings.TrimSpace(lines[1])
	if !strings.HasPrefix(l, "[]byte(") || !strings.HasSuffix(l, ")") {
		return nil, fmt.Errorf("unexpected corpus line %.40q", l)
	}
	s, err := strconv.Unquote(l[len("[]byte(") : len(l)-1])
	return []byte(s), err
}

// c10Materialise resolves a driver-wrapped native crasher into the structured case.
func c10Materialise(c c10Case) c10Case {
	if c.GoFuzz == "" {
		if c.Target != "chain" && c.MaxHops == 0 {
			c.MaxHops = 1
		}
		return c
	}
	data, err := c10ParseGoFuzz(c.GoFuzz)
	if err != nil {
		panic("harness: cannot decode go fuzz corpus text: " + err.Error())
	}
	d := c10FromBytes(c.Target, data)
	d.Note = "native fuzz crasher " + c.Note
	return d
}

// c10NaturalChainCases: every corpus document as a 200 response of its natural type on its natural URLs, plus a small
// deterministic matrix of the other statuses / depths / switches (the corpus replay of the chain, and fuzz seeds).
func c10NaturalChainCases(withHostile bool) []c10Case {
	var out []c10Case
	for _, target := range c10Targets[1:] {
		nat := c10Naturals[target]
		docs := c10Committed(target)
		if withHostile {
			docs = c10Corpus(target)
		}
		urls := c10URLsOfKind(nat.Kinds)
		for i, doc := range docs {
			base := c10Case{Target: "chain", Body: doc.Data, Note: target + "/" + doc.Name, CT: nat.CT, Server: nat.Server, URL: urls[i%len(urls)], MaxHops: 1}
			if target == "linkheader" {
				base.Link = string(doc.Data)
				base.Body = []byte("<html><body><a href=x>x</a> text</body></html>")
				base.CT = c10CTs[0]
			}
			out = append(out, base)
			v := base
			switch i % 6 {
			case 0: // as an asset of an asset, no outlinks
				v.Depth, v.MaxHops = 2, 0
			case 1: // redirect answer carrying the document; Location from the Link corpus or the document head
				v.Status = 302
				v.Location = string(doc.Data[:min(len(doc.Data), 200)])
			case 2: // mislabelled
				v.CT = c10CTs[(i*7)%len(c10CTs)]
			case 3:
				v.DomainsCrawl, v.Hops, v.MaxHops = true, 3, 1
			case 4:
				v.Depth, v.RedirParent, v.AltPages = 1, true, true
			case 5:
				v.NoCT, v.Server, v.DisableTags = true, "AmazonS3", c10TagSets[2]
			}
			out = append(out, v)
		}
	}
	return out
}

// c10Embedded renders `,"k":doc` for every key.
func c10Embedded(keys []string, doc string) string {
	out := ""
	for _, k := range keys {
		out += `,"` + k + `":` + doc
	}
	return out
}
