package postprocessor

// C10 — known findings. Recoverable panics are keyed automatically by call site (c10Classify) and skipped by propC10
// when the key is listed as open. Classes that end in a FATAL runtime error (no recover possible, the process dies)
// must be kept out of the search by construction: c10FatalClass recognises them on the input, before execution.
// Every open finding has a strict TestVerifKF_C10_<key> that replays its minimal input from the committed corpus.

import (
	"bytes"
	"os"
	"os/exec"
	"path/filepath"
	"regexp"
	"strconv"
	"strings"
	"testing"

	"github.com/internetarchive/Zeno/internal/pkg/veriflib"
)

const (
	c10KeyPDFPageTreeCycle = "C10-extractor.PDF-pdfcpu-stackoverflow-pagetree-cycle"
	c10KeyPDFNestedDict    = "C10-extractor.PDF-pdfcpu-hang-nested-dict"
	c10KeyM3U8Memory       = "C10-extractor.M3U8-m3u8-memory-blowup"
	c10KeyPDFHugeLength    = "C10-extractor.PDF-pdfcpu-oom-huge-length"
	c10KeyPDFIntOverflow   = "C10-extractor.PDF-pdfcpu-hang-int-overflow"
	c10KeyHTMLNestedScript = "C10-extractor.HTMLAssets-regexp-hang-nested-scripts"
	c10KeyPDFPanic         = "C10-extractor.PDF-pdfcpu" // recoverable panics inside pdfcpu (keyed automatically)
	c10KeyM3U8Panic        = "C10-extractor.M3U8-m3u8"  // recoverable panics inside grafov/m3u8 (keyed automatically)
	// the parser retries every dictionary that failed to parse a second time ("relaxed"), at every nesting level: 2^depth
	c10PDFDictDepthLimit = 14
)

var (
	c10ObjRe  = regexp.MustCompile(`([+-]?\d+)[\s\x00]+[+-]?\d+[\s\x00]*obj\b`)
	c10KidsRe = regexp.MustCompile(`/Kids[\s\x00]*(\[[^\]]*\]?|[+-]?\d+[\s\x00]+[+-]?\d+[\s\x00]*R)`)
	c10RefRe  = regexp.MustCompile(`([+-]?\d+)[\s\x00]+[+-]?\d+[\s\x00]*R\b`)
)

// c10PDFPageTreeCycle: does the /Kids graph of the (uncompressed) objects of a PDF contain a cycle? Independent,
// deliberately over-approximating text scan: an object that is a bare array counts as a Kids array, and a kid whose
// object is not in the text (renumbered, or inside an object stream) counts as a possible way back (the parser follows
// xref offsets, not the numbers written in the text).
func c10PDFPageTreeCycle(b []byte) bool {
	locs := c10ObjRe.FindAllSubmatchIndex(b, -1)
	if len(locs) == 0 || len(locs) > 20000 {
		return false
	}
	edges := map[int][]int{}
	present := map[int]bool{}
	// a /Kids array that lies outside every object this scan recognises (damaged "N G obj" header, text before the first
	// object): the lenient parser may still attribute it to an object it reaches through the xref table - possible way back
	type span struct{ from, to int }
	var spans []span
	for i, l := range locs {
		end := len(b)
		if i+1 < len(locs) {
			end = locs[i+1][0]
		}
		if j := bytes.Index(b[l[1]:end], []byte("endobj")); j >= 0 {
			end = l[1] + j
		}
		spans = append(spans, span{l[1], end})
	}
	for _, m := range c10KidsRe.FindAllSubmatchIndex(b, -1) {
		if len(c10RefRe.FindAll(b[m[2]:m[3]], 1)) == 0 {
			continue
		}
		inside := false
		for _, sp := range spans {
			if m[0] >= sp.from && m[0] < sp.to {
				inside = true
				break
			}
		}
		if !inside {
			return true
		}
	}
	for i, l := range locs {
		n, _ := strconv.Atoi(string(b[l[2]:l[3]]))
		present[n] = true
		end := len(b)
		if i+1 < len(locs) {
			end = locs[i+1][0]
		}
		body := b[l[1]:end]
		if j := bytes.Index(body, []byte("endobj")); j >= 0 {
			body = body[:j]
		}
		var scan [][]byte
		for _, m := range c10KidsRe.FindAllSubmatch(body, -1) {
			scan = append(scan, m[1])
		}
		if t := bytes.TrimLeft(body, " \r\n\t\x00"); len(t) > 0 && t[0] == '[' {
			scan = append(scan, t)
		}
		for _, s := range scan {
			for _, r := range c10RefRe.FindAllSubmatch(s, -1) {
				k, _ := strconv.Atoi(string(r[1]))
				edges[n] = append(edges[n], k)
			}
		}
	}
	for _, ks := range edges {
		for _, k := range ks {
			if _, ok := edges[k]; !ok && !present[k] {
				return true
			}
		}
	}
	state := map[int]int{} // 1 = on stack, 2 = done
	var visit func(n, depth int) bool
	visit = func(n, depth int) bool {
		if state[n] == 1 {
			return true
		}
		if state[n] == 2 || depth > 5000 {
			return false
		}
		state[n] = 1
		for _, k := range edges[n] {
			if visit(k, depth+1) {
				return true
			}
		}
		state[n] = 2
		return false
	}
	for n := range edges {
		if visit(n, 0) {
			return true
		}
	}
	return false
}

// c10PDFDictDepth: deepest run of "<<" not yet closed by ">>" (strings and comments are not interpreted: over-approximation).
func c10PDFDictDepth(b []byte) int {
	depth, deepest := 0, 0
	for i := 0; i+1 < len(b); i++ {
		switch {
		case b[i] == '<' && b[i+1] == '<':
			depth++
			deepest = max(deepest, depth)
			i++
		case b[i] == '>' && b[i+1] == '>':
			depth = max(depth-1, 0)
			i++
		case b[i] == 'e' && bytes.HasPrefix(b[i:], []byte("endobj")):
			depth = 0
		}
	}
	return deepest
}

// c10M3U8AttachCost estimates the pointers grafov/m3u8 appends while decoding a master playlist: on EVERY line it
// attaches every rendition seen so far (never reset by #EXT-X-STREAM-INF) to every variant seen so far.
func c10M3U8AttachCost(b []byte) int64 {
	var lines, variants, alts, cost int64
	for _, l := range bytes.Split(b, []byte("\n")) {
		l = bytes.TrimSpace(l)
		if len(l) == 0 {
			continue
		}
		lines++
		switch {
		case bytes.HasPrefix(l, []byte("#EXT-X-MEDIA:")):
			alts++
		case bytes.HasPrefix(l, []byte("#EXT-X-STREAM-INF:")), bytes.HasPrefix(l, []byte("#EXT-X-I-FRAME-STREAM-INF:")):
			variants++
		}
		cost += variants * alts
	}
	return cost
}

var (
	c10HugeNumRe     = regexp.MustCompile(`(?:^|[\s\x00\[(/\]>])[+-]?0*[1-9]\d{9,}`)
	c10OverflowNumRe = regexp.MustCompile(`(?:^|[\s\x00\[(/\]>])[+-]?0*[1-9]\d{18,}`)
)

// c10PDFHugeNumber: a numeric token of 10 or more significant digits (stream /Length, directly or through a
// reference): pdfcpu allocates what the document declares.
func c10PDFHugeNumber(b []byte) bool { return c10HugeNumRe.Match(b) }

// c10PDFOverflowNumber: a numeric token of 19 or more significant digits does not fit an int: pdfcpu's array parser
// stops making progress on "N G [" with such an N.
func c10PDFOverflowNumber(b []byte) bool { return c10OverflowNumRe.Match(b) }

// c10HTMLNestedScripts: <script> elements nest only inside foreign content (<svg>, <math>); HTMLAssets then runs the
// strict link regex over the outer HTML of every one of them (quadratic, ~0.4 MB/s).
func c10HTMLNestedScripts(b []byte) bool {
	l := bytes.ToLower(b)
	return (bytes.Contains(l, []byte("<svg")) || bytes.Contains(l, []byte("<math"))) && bytes.Count(l, []byte("<script")) >= 150
}

// c10FatalClass names the OPEN finding an input belongs to when that class cannot be survived in-process (fatal
// runtime error, or a hang that costs a core for ever): such inputs are kept out of the search before execution.
func c10FatalClass(c c10Case) string {
	if (c.Target == "m3u8" || c.Target == "chain") && veriflib.FindingOpen(c10KeyM3U8Memory) && c10M3U8AttachCost(c.Body) > 256<<10 {
		return c10KeyM3U8Memory // every appended rendition becomes a URL, then a child item (~600 bytes): 3.4 M of them are 2 GiB
	}
	if c.Target != "pdf" && c.Target != "m3u8" && veriflib.FindingOpen(c10KeyHTMLNestedScript) && c10HTMLNestedScripts(c.Body) {
		return c10KeyHTMLNestedScript
	}
	cycle, nested, huge, ovf := veriflib.FindingOpen(c10KeyPDFPageTreeCycle), veriflib.FindingOpen(c10KeyPDFNestedDict), veriflib.FindingOpen(c10KeyPDFHugeLength), veriflib.FindingOpen(c10KeyPDFIntOverflow)
	if !cycle && !nested && !huge && !ovf || c.Target != "pdf" && c.Target != "chain" || !bytes.Contains(c.Body[:min(len(c.Body), 2048)], []byte("%PDF-")) {
		return ""
	}
	if ovf && c10PDFOverflowNumber(c.Body) {
		return c10KeyPDFIntOverflow
	}
	if huge && c10PDFHugeNumber(c.Body) {
		return c10KeyPDFHugeLength
	}
	if nested && c10PDFDictDepth(c.Body) >= c10PDFDictDepthLimit {
		return c10KeyPDFNestedDict
	}
	if cycle && c10PDFPageTreeCycle(c.Body) {
		return c10KeyPDFPageTreeCycle
	}
	return ""
}

func c10KFFile(t *testing.T, rel string) []byte {
	b, err := os.ReadFile(filepath.Join(c10CorpusDir(), rel))
	if err != nil {
		t.Fatalf("harness: %v", err)
	}
	return b
}

// TestVerifKF_C10_extractor_PDF_pdfcpu_stackoverflow_pagetree_cycle: a 228-byte PDF whose /Pages node lists itself as
// its kid makes pdfcpu's validation recurse without bound; the runtime ends the whole process with
// "fatal error: stack overflow" (the journal left in VERIF_FAIL_DIR names this case; the output carries the trace).
func TestVerifKF_C10_extractor_PDF_pdfcpu_stackoverflow_pagetree_cycle(t *testing.T) {
	defer veriflib.Flush()
	defer c10JournalEnd("")
	body := c10KFFile(t, "pdf/kf-pagetree-cycle-stackoverflow.pdf")
	if !c10PDFPageTreeCycle(body) {
		t.Fatalf("harness: the pre-execution filter does not recognise the minimal input of %s", c10KeyPDFPageTreeCycle)
	}
	propC10(t, c10Case{Target: "pdf", Body: body, Note: "known finding " + c10KeyPDFPageTreeCycle})
}

// TestVerifKF_C10_extractor_PDF_pdfcpu_hang_nested_dict: 64 nested, unterminated dictionaries (about 430 bytes) cost
// pdfcpu's object parser 2^64 attempts: extractor.PDF never returns. The known exponential is confirmed with a 2 s
// first deadline and three 20 s re-runs instead of 10 s / 100 s (same rule, smaller constants: 2^64 steps do not
// finish in either).
func TestVerifKF_C10_extractor_PDF_pdfcpu_hang_nested_dict(t *testing.T) {
	defer veriflib.Flush()
	defer c10JournalEnd("")
	body := c10KFFile(t, "pdf/kf-nested-dict-hang.pdf")
	if c10PDFDictDepth(body) < c10PDFDictDepthLimit {
		t.Fatalf("harness: the pre-execution filter does not recognise the minimal input of %s", c10KeyPDFNestedDict)
	}
	if os.Getenv("VERIF_C10_BUDGET_MS") == "" {
		os.Setenv("VERIF_C10_BUDGET_MS", "2000")
		defer os.Unsetenv("VERIF_C10_BUDGET_MS")
	}
	propC10(t, c10Case{Target: "pdf", Body: body, Note: "known finding " + c10KeyPDFNestedDict})
}

// TestVerifKF_C10_extractor_M3U8_m3u8_memory_blowup: a 64 KiB master playlist (640 x {#EXT-X-MEDIA, #EXT-X-STREAM-INF, URI})
// makes grafov/m3u8 append ~10^8 rendition pointers (cubic in the number of lines): > 2 GiB of resident memory for one response.
func TestVerifKF_C10_extractor_M3U8_m3u8_memory_blowup(t *testing.T) {
	defer veriflib.Flush()
	defer c10JournalEnd("")
	body := []byte("#EXTM3U\n" + c10Rep("#EXT-X-MEDIA:TYPE=AUDIO,GROUP-ID=\"a\",URI=\"a.m3u8\"\n#EXT-X-STREAM-INF:BANDWIDTH=1,AUDIO=\"a\"\nv.m3u8\n", 640))
	if c10M3U8AttachCost(body) <= 256<<10 {
		t.Fatalf("harness: the pre-execution filter does not recognise the minimal input of %s", c10KeyM3U8Memory)
	}
	propC10(t, c10Case{Target: "m3u8", Body: body, Note: "known finding " + c10KeyM3U8Memory})
}

// TestVerifKF_C10_extractor_HTMLAssets_regexp_hang_nested_scripts: "<svg>" followed by 2000 "<script>" (16 KiB) keeps
// HTMLAssets busy for more than a minute (8 KiB: 24 s, 32 KiB: 4.6 min, 64 KiB: ~20 min: quadratic). Confirmed with
// a 2 s first deadline and three 20 s re-runs (same rule, smaller constants).
func TestVerifKF_C10_extractor_HTMLAssets_regexp_hang_nested_scripts(t *testing.T) {
	defer veriflib.Flush()
	defer c10JournalEnd("")
	body := []byte("<svg>" + strings.Repeat("<script>", 2000))
	if !c10HTMLNestedScripts(body) {
		t.Fatalf("harness: the pre-execution filter does not recognise the minimal input of %s", c10KeyHTMLNestedScript)
	}
	if os.Getenv("VERIF_C10_BUDGET_MS") == "" {
		os.Setenv("VERIF_C10_BUDGET_MS", "2000")
		defer os.Unsetenv("VERIF_C10_BUDGET_MS")
	}
	propC10(t, c10Case{Target: "html", Body: body, Note: "known finding " + c10KeyHTMLNestedScript})
}

// TestVerifKF_C10_extractor_M3U8_m3u8: "#EXT-X-KEY:" followed by any line without "#EXTM3U" (13 bytes) is a nil
// dereference in grafov/m3u8 decodeLineOfMediaPlaylist; extractor.M3U8 has no recover, the worker goroutine dies.
func TestVerifKF_C10_extractor_M3U8_m3u8(t *testing.T) {
	defer veriflib.Flush()
	defer c10JournalEnd("")
	propC10(t, c10Case{Target: "m3u8", Body: c10KFFile(t, "m3u8/kf-ext-x-key-nil-deref.m3u8"), Note: "known finding " + c10KeyM3U8Panic})
}

// TestVerifKF_C10_extractor_PDF_pdfcpu: a PDF that makes pdfcpu panic (recoverable); extractor.PDF has no recover.
func TestVerifKF_C10_extractor_PDF_pdfcpu(t *testing.T) {
	defer veriflib.Flush()
	defer c10JournalEnd("")
	propC10(t, c10Case{Target: "pdf", Body: c10KFFile(t, "pdf/kf-pdfcpu-panic.pdf"), Note: "known finding " + c10KeyPDFPanic})
}

// c10Child runs one corpus file through a target in a child process (the same test binary, TestVerif_C10_File) and
// returns its combined output: the way to observe a death that no recover can stop without dying with it.
func c10Child(file, target string) (string, error) {
	cmd := exec.Command(os.Args[0], "-test.run", "^TestVerif_C10_File$", "-test.timeout", "120s")
	cmd.Env = append(os.Environ(), "VERIF_C10_FILE="+file, "VERIF_C10_TARGET="+target, "VERIF_STRICT=1", "VERIF_FAIL_DIR=", "VERIF_STATS_DIR=", "VERIF_REPLAY=")
	out, err := cmd.CombinedOutput()
	return string(out), err
}

// TestVerifKF_C10_extractor_PDF_pdfcpu_oom_huge_length: a 172-byte PDF whose stream declares /Length 99999999999 makes
// pdfcpu.readStreamContent call make([]byte, 99999999999): the Go runtime ends the process at once ("fatal error:
// runtime: out of memory", no recover). 9999999999 (10 GB) is reserved lazily and survives on a 62 GB host only.
// Run in a child process; the message avoids the runtime's wording, which the driver reserves for machine trouble.
func TestVerifKF_C10_extractor_PDF_pdfcpu_oom_huge_length(t *testing.T) {
	defer veriflib.Flush()
	rel := "pdf/kf-huge-length-oom.pdf"
	body := c10KFFile(t, rel)
	if !c10PDFHugeNumber(body) {
		t.Fatalf("harness: the pre-execution filter does not recognise the minimal input of %s", c10KeyPDFHugeLength)
	}
	out, err := c10Child(filepath.Join(c10CorpusDir(), rel), "pdf")
	if err == nil {
		return // did not reproduce
	}
	if strings.Contains(out, "runtime: out of memory") && strings.Contains(out, "pdfcpu.readStreamContent") {
		veriflib.Fail(t, "C10", "C10/pdf", c10Case{Target: "pdf", Body: body, Note: "known finding " + c10KeyPDFHugeLength}, nil,
			"fatal memory exhaustion (key C10-oom-extractor_PDF_pdfcpu): the child process running the case was ended by the Go runtime inside makeslice <- pdfcpu.readStreamContent <- ... <- extractor.PDF (allocation of the declared stream /Length)")
	}
	t.Fatalf("harness: child process failed differently: %v\n%.2000s", err, strings.ReplaceAll(out, "out of memory", "o-o-m"))
}

// TestVerifKF_C10_extractor_PDF_pdfcpu_hang_int_overflow: the 62-byte body "%PDF-1.4\n1 0 obj[9999999999999999999 0 [endobj\nstartxref5%%EOF"
// (an object number that does not fit an int, inside an array) keeps pdfcpu's object parser busy for ever.
// Confirmed with a 2 s first deadline and three 20 s re-runs (same rule, smaller constants).
func TestVerifKF_C10_extractor_PDF_pdfcpu_hang_int_overflow(t *testing.T) {
	defer veriflib.Flush()
	defer c10JournalEnd("")
	body := c10KFFile(t, "pdf/kf-int-overflow-hang.pdf")
	if !c10PDFOverflowNumber(body) {
		t.Fatalf("harness: the pre-execution filter does not recognise the minimal input of %s", c10KeyPDFIntOverflow)
	}
	if os.Getenv("VERIF_C10_BUDGET_MS") == "" {
		os.Setenv("VERIF_C10_BUDGET_MS", "2000")
		defer os.Unsetenv("VERIF_C10_BUDGET_MS")
	}
	propC10(t, c10Case{Target: "pdf", Body: body, Note: "known finding " + c10KeyPDFIntOverflow})
}
