//go:build verif

package pause

// VerifReset installs a fresh manager, as a fresh process would have (overlay-only). Needed because channels
// created inside one testing/synctest bubble cannot be used from the next one.
func VerifReset() { manager = &pauseManager{} }
