package pause

// C14 (manager facet) — pause stops all subscribed workers, resume wakes them all, and no ordering of pause /
// resume calls from independent controllers, worker exit and shutdown leaves a caller or a worker blocked forever.
//
// The real pause manager runs under virtual time (testing/synctest). Subscribers are model workers that follow
// the stage-worker protocol exactly as preprocessor/archiver/postprocessor/finisher do:
//
//	select { case <-ctx.Done(): return
//	         case <-PauseCh:  select { case ResumeCh <- struct{}{}: ; case <-ctx.Done(): return }
//	         case w := <-work: process(w) }           with  defer Unsubscribe
//
// (the real stage workers are exercised by the pipeline harness, facet C14/pipeline).

import (
	"context"
	"fmt"
	"sort"
	"strings"
	"sync/atomic"
	"testing"
	"testing/synctest"
	"time"

	"github.com/internetarchive/Zeno/internal/pkg/stats"
	"github.com/internetarchive/Zeno/internal/pkg/veriflib"
	"pgregory.net/rapid"
)

type c14Op struct {
	Kind string `json:"kind"`        // pause | resume | offer | busy | exit | stop | burst
	W    int    `json:"w,omitempty"` // worker selector (mod live workers)
	Ms   int    `json:"ms,omitempty"`
	Seq  string `json:"seq,omitempty"` // burst: letters p/r released together, e.g. "prp"
}

type c14Case struct {
	Workers int     `json:"workers"`
	Ops     []c14Op `json:"ops"`
}

const (
	c14Idle int32 = iota
	c14Paused
	c14Busy
	c14Gone
)

type c14Worker struct {
	id     int
	state  atomic.Int32
	taken  atomic.Int32
	cancel context.CancelFunc
	done   atomic.Bool
}

type c14Call struct {
	name string
	done atomic.Bool
}

func c14Run(c c14Case, log *[]string) (viol string, nontrivial bool, classes []string) {
	stats.Init() // Pause/Resume update the "paused" gauge
	// the manager is a package global: reset it for this case
	manager = &pauseManager{}
	work := make(chan int) // value = processing time in ms
	rootCtx, stopAll := context.WithCancel(context.Background())
	// whatever the verdict: let every worker exit (closing its channels releases any call parked on them)
	defer func() { stopAll(); synctest.Wait(); time.Sleep(time.Minute); synctest.Wait() }()
	workers := make([]*c14Worker, c.Workers)
	for i := range workers {
		w := &c14Worker{id: i}
		ctx, cancel := context.WithCancel(rootCtx)
		w.cancel = cancel
		workers[i] = w
		go func() {
			chans := Subscribe()
			defer func() { Unsubscribe(chans); w.state.Store(c14Gone); w.done.Store(true) }()
			for {
				w.state.Store(c14Idle)
				select {
				case <-ctx.Done():
					return
				case <-chans.PauseCh:
					w.state.Store(c14Paused)
					select {
					case chans.ResumeCh <- struct{}{}:
					case <-ctx.Done():
						return
					}
				case ms := <-work:
					w.state.Store(c14Busy)
					w.taken.Add(1)
					if ms > 0 {
						time.Sleep(time.Duration(ms) * time.Millisecond)
					}
				}
			}
		}()
	}
	synctest.Wait() // every real subscriber subscribes at start-up, before any controller runs
	say := func(f string, a ...any) { *log = append(*log, fmt.Sprintf(f, a...)) }
	var calls []*c14Call
	invoke := func(name string, f func()) *c14Call {
		cl := &c14Call{name: name}
		calls = append(calls, cl)
		go func() { f(); cl.done.Store(true) }()
		return cl
	}
	live := func() []*c14Worker {
		var l []*c14Worker
		for _, w := range workers {
			if w.state.Load() != c14Gone {
				l = append(l, w)
			}
		}
		return l
	}
	pendingCalls := func() []string {
		var p []string
		for _, cl := range calls {
			if !cl.done.Load() {
				p = append(p, cl.name)
			}
		}
		return p
	}
	states := func() string {
		var s []string
		for _, w := range workers {
			s = append(s, fmt.Sprintf("w%d:%s", w.id, [...]string{"idle", "paused", "busy", "gone"}[w.state.Load()]))
		}
		return strings.Join(s, " ")
	}
	// invariant at a quiescent point with no call in flight
	consistent := func(after string) string {
		synctest.Wait()
		if len(pendingCalls()) > 0 {
			return "" // transitional: judged at the end (must not stay pending forever)
		}
		p := IsPaused()
		for _, w := range live() {
			st := w.state.Load()
			if p && st == c14Idle {
				return fmt.Sprintf("after %s: the pipeline is paused but worker %d is idle and ready to take work (%s)", after, w.id, states())
			}
			if !p && st == c14Paused {
				return fmt.Sprintf("after %s: the pipeline is not paused but worker %d is still parked waiting for a resume (%s)", after, w.id, states())
			}
		}
		return ""
	}
	unmatched, repeated, exitPaused, stopPaused := false, false, false, false
	modelPaused := false
	for i, op := range c.Ops {
		switch op.Kind {
		case "pause":
			if modelPaused {
				repeated = true
			}
			say("pause")
			invoke(fmt.Sprintf("#%d Pause", i), func() { Pause("verif") })
			synctest.Wait()
			modelPaused = true
		case "resume":
			if !modelPaused {
				unmatched = true
			}
			say("resume")
			invoke(fmt.Sprintf("#%d Resume", i), func() { Resume() })
			synctest.Wait()
			modelPaused = false
		case "burst":
			say("burst(%s)", op.Seq)
			for k, ch := range op.Seq {
				if ch == 'p' {
					invoke(fmt.Sprintf("#%d.%d Pause", i, k), func() { Pause("verif") })
				} else {
					invoke(fmt.Sprintf("#%d.%d Resume", i, k), func() { Resume() })
				}
			}
			synctest.Wait()
			modelPaused = IsPaused() // any serial order is acceptable; consistency is what is checked
			unmatched = true
		case "offer":
			// offer one unit of work to whichever worker is ready
			synctest.Wait()
			p := IsPaused()
			before := 0
			for _, w := range workers {
				before += int(w.taken.Load())
			}
			accepted := false
			select {
			case work <- op.Ms % 50:
				accepted = true
			default:
			}
			synctest.Wait()
			say("offer->%v", accepted)
			if accepted && p && len(pendingCalls()) == 0 {
				return fmt.Sprintf("op %d: a worker took new work while the pipeline was paused (%s)", i, states()), false, nil
			}
			if !accepted && !p && len(pendingCalls()) == 0 {
				idle := 0
				for _, w := range live() {
					if w.state.Load() == c14Idle {
						idle++
					}
				}
				if idle > 0 {
					return fmt.Sprintf("op %d: work offered to %d idle worker(s) was not taken", i, idle), false, nil
				}
			}
		case "busy":
			// a worker starts a long-running item (so that a following pause is acknowledged late)
			select {
			case work <- 1000 + op.Ms%20000:
				say("busy(%dms)", 1000+op.Ms%20000)
			default:
				say("busy->nobody idle")
			}
			synctest.Wait()
		case "advance":
			say("advance(%dms)", op.Ms)
			time.Sleep(time.Duration(op.Ms) * time.Millisecond)
			synctest.Wait()
		case "exit":
			l := live()
			if len(l) == 0 {
				continue
			}
			w := l[op.W%len(l)]
			if w.state.Load() == c14Paused {
				exitPaused = true
			}
			say("exit(w%d)", w.id)
			w.cancel()
			synctest.Wait()
			if !w.done.Load() && w.state.Load() != c14Busy {
				return fmt.Sprintf("op %d: worker %d does not exit after its context was cancelled (%s)", i, w.id, states()), false, nil
			}
		case "stop":
			if IsPaused() {
				stopPaused = true
			}
			say("stop")
			stopAll()
			synctest.Wait()
		}
		if v := consistent(op.Kind); v != "" {
			return fmt.Sprintf("op %d: %s", i, v), false, nil
		}
	}
	// nothing may stay blocked forever: let a virtual hour pass with the workers still running
	time.Sleep(time.Hour)
	synctest.Wait()
	if p := pendingCalls(); len(p) > 0 {
		return fmt.Sprintf("call(s) %v still blocked one virtual hour after the last operation (%d live workers: %s)", p, len(live()), states()), false, nil
	}
	if v := consistent("the end"); v != "" {
		return v, false, nil
	}
	// shutdown: all workers exit
	stopAll()
	synctest.Wait()
	time.Sleep(time.Hour)
	synctest.Wait()
	for _, w := range workers {
		if !w.done.Load() {
			return fmt.Sprintf("worker %d still running one virtual hour after shutdown (%s)", w.id, states()), false, nil
		}
	}
	if p := pendingCalls(); len(p) > 0 {
		return fmt.Sprintf("call(s) %v still blocked after shutdown", p), false, nil
	}
	cl := []string{fmt.Sprintf("workers:%d", c.Workers)}
	if unmatched {
		cl = append(cl, "has:unmatched-call")
	}
	if repeated {
		cl = append(cl, "has:repeated-pause")
	}
	if exitPaused {
		cl = append(cl, "has:exit-while-paused")
	}
	if stopPaused {
		cl = append(cl, "has:stop-while-paused")
	}
	sort.Strings(cl)
	return "", unmatched || repeated || exitPaused || stopPaused, cl
}

func propC14(t veriflib.TB, outer *testing.T, c c14Case) {
	stats.Init() // Pause/Resume update the "paused" gauge
	var viol string
	var nt bool
	var classes, oplog []string
	veriflib.Bubble(outer, "C14", "C14/manager", c, func(st *testing.T) {
		viol, nt, classes = c14Run(c, &oplog)
	})
	if viol != "" {
		veriflib.Fail(t, "C14", "C14/manager", c, oplog, "%s\nhistory: %s", viol, strings.Join(oplog, " ; "))
	}
	veriflib.Record("C14/manager", veriflib.JSON(c), nt, classes, func() any {
		return map[string]any{"workers": c.Workers, "history": strings.Join(oplog, " ; ")}
	})
}

func genC14(t *rapid.T) c14Case {
	c := c14Case{Workers: rapid.IntRange(0, 6).Draw(t, "workers")}
	kinds := []string{"pause", "pause", "resume", "resume", "offer", "offer", "busy", "advance", "exit", "burst", "stop"}
	n := rapid.IntRange(1, 16).Draw(t, "nops")
	for i := 0; i < n; i++ {
		k := kinds[rapid.IntRange(0, len(kinds)-1).Draw(t, "kind")]
		op := c14Op{Kind: k}
		switch k {
		case "offer", "busy":
			op.Ms = rapid.IntRange(0, 30000).Draw(t, "ms")
		case "advance":
			op.Ms = rapid.IntRange(1, 40000).Draw(t, "ms")
		case "exit":
			op.W = rapid.IntRange(0, 5).Draw(t, "w")
		case "burst":
			op.Seq = rapid.StringMatching("[pr]{2,3}").Draw(t, "seq")
		case "stop":
			if rapid.IntRange(0, 2).Draw(t, "rare") != 0 {
				op.Kind = "offer"
			}
		}
		c.Ops = append(c.Ops, op)
	}
	return c
}

func TestVerif_C14_Manager(t *testing.T) {
	defer veriflib.Flush()
	var rc c14Case
	if veriflib.ReplayCase("C14/manager", &rc) {
		propC14(t, t, rc)
		return
	} else if veriflib.Replaying() {
		t.Skip()
	}
	rapid.Check(t, func(rt *rapid.T) {
		c := genC14(rt)
		veriflib.Guard("C14", "C14/manager", c, func() { propC14(rt, t, c) })
	})
}

// Exhaustive small scope: every sequence of {pause, resume, exit, offer} up to length L with 1..2 workers.
func TestVerif_C14_ManagerExhaustive(t *testing.T) {
	defer veriflib.Flush()
	var rc c14Case
	if veriflib.ReplayCase("C14/manager-enum", &rc) {
		propC14(t, t, rc)
		return
	} else if veriflib.Replaying() {
		t.Skip()
	}
	if veriflib.ShardIndex() != 0 {
		t.Skip()
	}
	alphabet := []c14Op{{Kind: "pause"}, {Kind: "resume"}, {Kind: "exit"}, {Kind: "offer"}, {Kind: "burst", Seq: "pr"}, {Kind: "burst", Seq: "rp"}}
	maxLen := veriflib.N("C14_ENUM_LEN", 5, 6)
	for workers := 0; workers <= 2; workers++ {
		var rec func(prefix []c14Op)
		rec = func(prefix []c14Op) {
			if len(prefix) > 0 {
				c := c14Case{Workers: workers, Ops: append([]c14Op(nil), prefix...)}
				var viol string
				var nt bool
				var oplog []string
				synctest.Test(t, func(st *testing.T) { viol, nt, _ = c14Run(c, &oplog) })
				if viol != "" {
					veriflib.Fail(t, "C14", "C14/manager-enum", c, oplog, "%s\nhistory: %s", viol, strings.Join(oplog, " ; "))
				}
				veriflib.Record("C14/manager-enum", veriflib.JSON(c), nt, []string{fmt.Sprintf("len:%d", len(prefix))}, func() any {
					return map[string]any{"workers": workers, "history": strings.Join(oplog, " ; ")}
				})
			}
			if len(prefix) == maxLen {
				return
			}
			for _, op := range alphabet {
				rec(append(prefix, op))
			}
		}
		rec(nil)
	}
	veriflib.SetExhaustive("C14/manager-enum")
	veriflib.Class("C14/manager-enum", fmt.Sprintf("bounds:ops<=%d,workers<=2,alphabet=%d", maxLen, len(alphabet)))
}

// Strict reproductions of the findings.
func TestVerifKF_C14_ResumeWithoutPause(t *testing.T) {
	propC14(t, t, c14Case{Workers: 1, Ops: []c14Op{{Kind: "resume"}}})
}

// Stress: Pause() racing with workers that exit (Unsubscribe). The window between Pause's iteration over the
// subscribers and the non-blocking send is a few instructions wide: it needs volume, not variety. A panic here
// ("send on closed channel") kills the whole crawler, so the process dying is the failure signal.
func TestVerif_C14_ExitRaceStress(t *testing.T) {
	defer veriflib.Flush()
	if veriflib.Replaying() {
		var rc c14Case
		if !veriflib.ReplayCase("C14/exit-race-stress", &rc) {
			t.Skip()
		}
	}
	stats.Init()
	rounds := veriflib.N("C14_STRESS_ROUNDS", 20000, 300000)
	veriflib.Journal("C14", "C14/exit-race-stress", map[string]any{"workers": 4, "ops": []string{"pause concurrent with the exit of every worker", "repeated for many rounds"}})
	var viol string
	done := 0
	synctest.Test(t, func(st *testing.T) {
		for i := 0; i < rounds && viol == ""; i++ {
			manager = &pauseManager{}
			ctx, cancel := context.WithCancel(context.Background())
			exited := make(chan struct{}, 4)
			for w := 0; w < 4; w++ {
				go func() {
					chans := Subscribe()
					defer func() { Unsubscribe(chans); exited <- struct{}{} }()
					for {
						select {
						case <-ctx.Done():
							return
						case <-chans.PauseCh:
							select {
							case chans.ResumeCh <- struct{}{}:
							case <-ctx.Done():
								return
							}
						}
					}
				}()
			}
			synctest.Wait()
			paused := make(chan struct{})
			go func() { Pause("verif"); close(paused) }()
			cancel()
			for w := 0; w < 4; w++ {
				<-exited
			}
			<-paused
			resumed := make(chan struct{})
			go func() { Resume(); close(resumed) }()
			synctest.Wait()
			select {
			case <-resumed:
			default:
				viol = fmt.Sprintf("round %d: Resume() after every worker exited during a pause is still blocked", i)
				time.Sleep(time.Second)
			}
			done++
		}
	})
	veriflib.JournalDone()
	if viol != "" {
		veriflib.Fail(t, "C14", "C14/exit-race-stress", c14Case{Workers: 4}, nil, "%s", viol)
	}
	veriflib.Record("C14/exit-race-stress", fmt.Sprintf("rounds=%d shard=%d", done, veriflib.ShardIndex()), true, []string{fmt.Sprintf("rounds:%d", done)}, func() any { return map[string]any{"rounds": done} })
	veriflib.Record("C14/exit-race-stress", fmt.Sprintf("rounds=%d shard=%d b", done, veriflib.ShardIndex()), true, nil, nil)
}
