//go:build go1.25

package watchers

// C18/watcher - "pauses while running exactly when free space on the job's volume is below the threshold".
//
// The real WatchDiskSpace goroutine runs in a testing/synctest bubble (virtual ticker) against the real volume of a
// scratch directory. The harness cannot change the volume, but the watcher reads --min-space-required afresh at
// every tick, so the harness moves the *threshold* across the live free space instead: a history of phases, each
// one a setting that puts the threshold far above (2 x free, 10^9 GiB, 10^20 GiB) or far below (free / 2, 0.001 GiB)
// the live free space, held for one to three ticks. A subscriber that follows the stage workers' protocol
// (park on PauseCh, acknowledge on ResumeCh) stands for the pipeline.
//
// Oracle (a model of the statement, not of the code): after every tick the pipeline is paused iff the setting in
// force at that tick puts the threshold above the free space; between ticks nothing changes; the subscriber is
// parked iff paused; StopDiskWatcher returns whatever the state.

import (
	"context"
	"fmt"
	"os"
	"sync/atomic"
	"testing"
	"testing/synctest"
	"time"

	"github.com/internetarchive/Zeno/internal/pkg/config"
	"github.com/internetarchive/Zeno/internal/pkg/controler/pause"
	"github.com/internetarchive/Zeno/internal/pkg/stats"
	"github.com/internetarchive/Zeno/internal/pkg/veriflib"
	"pgregory.net/rapid"
)

type c18wPhase struct {
	Mode  string `json:"mode"`  // double | huge | overflow (threshold above free) ; half | tiny (below)
	Ticks int    `json:"ticks"` // ticks the setting stays in force
	// ForeignResume: after the first tick of the phase another controller (operator, WARC-queue watcher) resumes the
	// pipeline. The watcher does not pause again during the same low period (it believes its pause is in force), but the
	// next low period must pause like any other.
	ForeignResume bool `json:"foreign_resume,omitempty"`
}

type c18wCase struct {
	IntervalMs int         `json:"interval_ms"`
	Phases     []c18wPhase `json:"phases"`
}

var c18wLow = map[string]bool{"double": true, "huge": true, "overflow": true}

func genC18W(t *rapid.T) c18wCase {
	c := c18wCase{IntervalMs: []int{1000, 250, 60000, 5000}[rapid.IntRange(0, 3).Draw(t, "interval")]}
	n := rapid.IntRange(1, 7).Draw(t, "nphases")
	for i := 0; i < n; i++ {
		c.Phases = append(c.Phases, c18wPhase{
			Mode:          []string{"half", "double", "tiny", "huge", "double", "half", "overflow"}[rapid.IntRange(0, 6).Draw(t, fmt.Sprintf("mode%d", i))],
			Ticks:         rapid.IntRange(1, 3).Draw(t, fmt.Sprintf("ticks%d", i)),
			ForeignResume: rapid.IntRange(0, 4).Draw(t, fmt.Sprintf("foreign%d", i)) == 0,
		})
	}
	return c
}

func propC18Watcher(t veriflib.TB, outer *testing.T, c c18wCase) {
	const facet = "C18/watcher"
	c18EnsureConfig(t)
	dir, err := os.MkdirTemp(os.Getenv("VERIF_SCRATCH"), "c18-watch-")
	if err != nil {
		t.Fatalf("C18 harness: %v", err)
	}
	defer os.RemoveAll(dir)
	saved := config.Get().MinSpaceRequired
	defer func() { config.Get().MinSpaceRequired = saved }()
	stats.Init()

	// StopDiskWatcher waits on a package-level sync.WaitGroup, which testing/synctest does not treat as a durable block:
	// a watcher that does not return on stop freezes the bubble's clock. The real-time watchdog reports that (also for
	// C03: a stop that does not return).
	veriflib.WatchStart(90 * time.Second)
	veriflib.WatchAlso("C03", "C03/watcher-stop")
	veriflib.WatchAlso("C14", "C14/watcher-stop") // "... and shutdown can leave a caller ... blocked forever": the caller of StopDiskWatcher
	defer veriflib.WatchCase("C18", facet, c)()
	var hist []string
	viol := ""
	transitions, foreign := 0, 0
	stoppedPaused := false
	synctest.Test(outer, func(st *testing.T) {
		pause.VerifReset()
		diskWatcherCtx, diskWatcherCancel = context.WithCancel(context.Background())
		say := func(f string, a ...any) { hist = append(hist, fmt.Sprintf(f, a...)) }

		// the pipeline: one subscriber following the stage workers' protocol
		chans := pause.Subscribe()
		quit := make(chan struct{})
		var parked atomic.Bool
		workerDone := make(chan struct{})
		go func() {
			defer close(workerDone)
			for {
				select {
				case <-quit:
					return
				case <-chans.PauseCh:
					parked.Store(true)
					select {
					case chans.ResumeCh <- struct{}{}:
						parked.Store(false)
					case <-quit:
						return
					}
				}
			}
		}()

		interval := time.Duration(c.IntervalMs) * time.Millisecond
		setting := func(mode string) float64 {
			o, err := c18Statfs(dir)
			if err != nil {
				panic("C18 harness: statfs: " + err.Error())
			}
			return c18StatMin(c18StatCase{Mode: mode}, o)
		}
		// a comfortable setting before the watcher starts: nothing may be paused before the first tick
		config.Get().MinSpaceRequired = setting("tiny")
		go WatchDiskSpace(dir, interval)
		synctest.Wait()
		time.Sleep(interval / 2) // phase changes happen half-way between two ticks
		synctest.Wait()
		if pause.IsPaused() {
			viol = "the pipeline is paused before the first tick of the disk watcher although the setting leaves ample room"
		}
		wantPaused, overridden := false, false
	phases:
		for pi, ph := range c.Phases {
			config.Get().MinSpaceRequired = setting(ph.Mode)
			say("phase %d: min-space-required=%s (%s): threshold %s the free space", pi, c18MinText(config.Get().MinSpaceRequired), ph.Mode, map[bool]string{true: "above", false: "below"}[c18wLow[ph.Mode]])
			// nothing may change before the next tick
			synctest.Wait()
			if pause.IsPaused() != wantPaused {
				viol = fmt.Sprintf("phase %d: the paused state changed to %v between two ticks (the setting was changed, no tick has happened yet)", pi, pause.IsPaused())
				break phases
			}
			for k := 0; k < ph.Ticks; k++ {
				time.Sleep(interval)
				synctest.Wait()
				low := c18wLow[ph.Mode]
				if overridden {
					if low {
						// still the low period another controller overrode: nothing is demanded until space has been seen
						// sufficient again
						wantPaused = pause.IsPaused()
						say("tick (overridden low period): paused=%v", pause.IsPaused())
						continue
					}
					overridden = false
				}
				if low != wantPaused {
					transitions++
				}
				wantPaused = low
				say("tick: paused=%v worker parked=%v", pause.IsPaused(), parked.Load())
				if pause.IsPaused() != wantPaused {
					viol = fmt.Sprintf("phase %d tick %d: free space is %s the threshold (min-space-required=%s, mode %s) but the pipeline is paused=%v after the watcher's tick",
						pi, k+1, map[bool]string{true: "below", false: "not below"}[low], c18MinText(config.Get().MinSpaceRequired), ph.Mode, pause.IsPaused())
					break phases
				}
				if parked.Load() != wantPaused {
					viol = fmt.Sprintf("phase %d tick %d: pipeline paused=%v but its worker is parked=%v", pi, k+1, wantPaused, parked.Load())
					break phases
				}
				if k == 0 && ph.ForeignResume && pause.IsPaused() {
					say("another controller resumes the pipeline")
					foreign++
					rdone := make(chan struct{})
					go func() { pause.Resume(); close(rdone) }()
					synctest.Wait()
					select {
					case <-rdone:
					default:
						viol = fmt.Sprintf("phase %d: Resume() by another controller blocks", pi)
						break phases
					}
					overridden, wantPaused = true, false
				}
			}
		}
		// stop, in whatever state
		stoppedPaused = pause.IsPaused()
		done := make(chan struct{})
		go func() { StopDiskWatcher(); close(done) }()
		select {
		case <-done:
		case <-time.After(time.Hour):
			if viol == "" {
				viol = fmt.Sprintf("StopDiskWatcher did not return within a virtual hour (paused=%v)", pause.IsPaused())
			}
			// cannot leave the bubble with the watcher stuck: report and give up on this process. A stop that does not
			// return is also what C03 rules out (the disk watcher is the first thing stopPipeline() stops).
			veriflib.WriteFailure("C03", "C03/watcher-stop", c, hist, viol)
			veriflib.WriteFailure("C14", "C14/watcher-stop", c, hist, viol)
			veriflib.WriteFailure("C18", facet, c, hist, viol)
			veriflib.Flush()
			fmt.Fprintln(os.Stderr, "C18/watcher:", viol)
			os.Exit(3)
		}
		close(quit)
		<-workerDone
		if pause.IsPaused() {
			// leave the manager clean for the next case
			pause.VerifReset()
		}
	})
	if viol != "" {
		veriflib.Fail(t, "C18", facet, c, hist, "%s", viol)
	}
	cl := []string{fmt.Sprintf("interval:%dms", c.IntervalMs), fmt.Sprintf("transitions:%d", min(transitions, 4)), fmt.Sprintf("foreign-resumes:%d", min(foreign, 3))}
	for _, ph := range c.Phases {
		cl = append(cl, "mode:"+ph.Mode)
	}
	veriflib.Record(facet, veriflib.JSON(c), transitions >= 2, cl, func() any { return map[string]any{"case": c, "history": hist} })
	// the same run is evidence for C03: the stop of the disk watcher returned, also while its own pause was in force
	for _, f := range []string{"C03/watcher-stop", "C14/watcher-stop"} {
		veriflib.Record(f, veriflib.JSON(c), stoppedPaused, []string{fmt.Sprintf("stopped-while-paused-by-the-watcher:%v", stoppedPaused)}, func() any {
			return map[string]any{"case": c, "history": hist}
		})
	}
}

func TestVerif_C18_Watcher(t *testing.T) {
	defer veriflib.Flush()
	var rc c18wCase
	if veriflib.ReplayCase("C18/watcher", &rc) || veriflib.ReplayCase("C03/watcher-stop", &rc) || veriflib.ReplayCase("C14/watcher-stop", &rc) {
		propC18Watcher(t, t, rc)
		return
	} else if veriflib.Replaying() {
		t.Skip()
	}
	rapid.Check(t, func(rt *rapid.T) {
		c := genC18W(rt)
		veriflib.Guard("C18", "C18/watcher", c, func() { propC18Watcher(rt, t, c) })
	})
}
