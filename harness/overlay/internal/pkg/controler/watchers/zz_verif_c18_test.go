package watchers

// C18 — Low-disk guard: threshold semantics are exact and monotone.
//
// Statement: the crawler refuses to start, and pauses while running, exactly when free space on the job's
// volume is below the threshold — the operator's --min-space-required (in GiB) when given, otherwise 50 GiB
// scaled down linearly for volumes of at most 256 GiB. The decision is monotone in the free space.
//
// Facets
//   C18/exact     checkThreshold against an exact rational reference (math/big)
//   C18/monotone  accept(free1) => accept(free2) for free1 < free2, same (total, setting)
//   C18/statfs    CheckDiskUsage(path) == decision on the numbers of a direct statfs(2) of the same path
//   C18/config    the value typed after --min-space-required is the value the guard reads from the config
//                 (real flag -> viper -> config path, one child process per value: config.InitConfig is once-only)
//
// ---------------------------------------------------------------------------------------------------------
// The reference and its tolerance (read this before touching the oracle)
//
//   given   (min > 0):            T = min * 2^30                        (min is the float64 the config holds)
//   default (min == 0):           T = 50 GiB * min(1, total / 256 GiB)  = 25*total/128 for total <= 2^38
//   unsupported (min < 0, NaN):   the statement gives two defensible readings — "given" (threshold <= 0 or
//                                 unordered, nothing is ever below it => accept) and "not a setting" (default).
//                                 Only what both readings demand is asserted: accept when the default accepts.
//
// "free is below T" is decided on integers: refuse iff free < T. An implementation working in float64 and
// truncating the threshold to an integer may move the refusal boundary by less than one byte when T is not an
// integer, and by its rounding error delta. So, with B = smallest accepted free, any faithful implementation has
// floor(T - delta) <= B <= ceil(T + delta), and the oracle demands exactly
//
//        free <  floor(T - delta)  =>  must refuse
//        free >= ceil (T + delta)  =>  must accept
//        otherwise (a band of at most one byte when delta = 0) either answer is right.
//
// delta, soundly:
//   * given branch: T = min * 2^30 is a scaling of a float64 by a power of two, which is exact in binary
//     floating point (no underflow when scaling up; overflow only beyond 2^1024, where T >= 2^64 anyway and every
//     uint64 free is below it). Every way of writing it (min*GB, min*1024*1024*1024) is exact. delta = 0. T is
//     therefore always a float64; it can only be a non-integer below 2^52.
//   * default branch: total <= 2^38 < 2^53 converts exactly; every intermediate of every evaluation order of
//     50*2^30 * total / (256*2^30) is (an integer < 2^43) * 2^k, hence exactly representable, and IEEE-754
//     operations are exact when the exact result is representable. So a faithful float64 evaluation is exact here
//     too. To stay sound for an implementation that, say, pre-computes an inexact constant, a relative bound of
//     4 roundings, delta = 4 * 2^-53 * T < 2^-15 byte, is granted whenever T is not an integer; because the
//     fractional part of T = 25*total/128 is a multiple of 1/128 >> 2^-15 this never widens the band (the self-test
//     checks Hi - Lo <= 1 on every generated case), it only documents that rounding noise is allowed.
//   * when T is an integer exactly representable in float64, delta = 0: Lo = Hi = T and the decision is fully
//     determined — this is where `<` vs `<=` and wrong constants are caught.
//
// T >= 2^64 (min >= 2^34 GiB, +Inf): every uint64 free is below the threshold => must refuse. The code converts the
// float64 threshold with uint64(), which is implementation-defined out of range (amd64: 2^63); see the known
// finding C18-minspace-overflows-uint64 below.

import (
	"fmt"
	"math"
	"math/big"
	"math/bits"
	"os"
	"os/exec"
	"path/filepath"
	"sort"
	"strconv"
	"strings"
	"syscall"
	"testing"

	"github.com/internetarchive/Zeno/internal/pkg/config"
	"github.com/internetarchive/Zeno/internal/pkg/veriflib"
	"github.com/spf13/pflag"
	"pgregory.net/rapid"
)

const (
	c18KFOverflow = "C18-minspace-overflows-uint64"
	c18KFAlias20  = "C18-minspace-20-reset-by-alias"
)

var (
	c18Big2p30   = new(big.Int).Lsh(big.NewInt(1), 30)
	c18Big2p53   = new(big.Int).Lsh(big.NewInt(1), 53)
	c18Big2p64   = new(big.Int).Lsh(big.NewInt(1), 64)
	c18BigMaxU64 = new(big.Int).SetUint64(math.MaxUint64)
	c18Rat50GiB  = new(big.Rat).SetInt(new(big.Int).Mul(big.NewInt(50), c18Big2p30))
	c18Big256GiB = new(big.Int).Mul(big.NewInt(256), c18Big2p30)
	c18RatOne    = big.NewRat(1, 1)
	c18RatDelta  = new(big.Rat).SetFrac(big.NewInt(4), c18Big2p53) // 4 roundings of relative size 2^-53
)

// ---- exact reference ------------------------------------------------------------------------------------------

type c18Ref struct {
	Branch   string   // "given" | "default" | "unsupported"
	Inf      bool     // T = +Inf (min = +Inf)
	T        *big.Rat // exact threshold in bytes (the default one for "unsupported"); nil when Inf
	Lo, Hi   *big.Int // free < Lo => must refuse; free >= Hi => must accept (Lo = 0 for "unsupported")
	Integral bool     // T is an integer exactly representable in float64 (decision fully determined)
	Overflow bool     // T >= 2^64: no uint64 free can satisfy it
}

func c18Floor(r *big.Rat) *big.Int { // r >= 0
	return new(big.Int).Div(r.Num(), r.Denom())
}

func c18Ceil(r *big.Rat) *big.Int { // r >= 0
	q, m := new(big.Int).DivMod(r.Num(), r.Denom(), new(big.Int))
	if m.Sign() != 0 {
		q.Add(q, big.NewInt(1))
	}
	return q
}

func c18DefaultT(total uint64) *big.Rat {
	ratio := new(big.Rat).SetFrac(new(big.Int).SetUint64(total), c18Big256GiB) // total / 256 GiB
	if ratio.Cmp(c18RatOne) > 0 {
		ratio = c18RatOne
	}
	return new(big.Rat).Mul(c18Rat50GiB, ratio)
}

func c18Reference(total uint64, min float64) *c18Ref {
	r := &c18Ref{}
	switch {
	case min > 0:
		r.Branch = "given"
		if math.IsInf(min, 1) {
			r.Inf, r.Overflow = true, true
			r.Lo, r.Hi = c18Big2p64, c18Big2p64
			return r
		}
		r.T = new(big.Rat).SetFloat64(min) // exact
		r.T.Mul(r.T, new(big.Rat).SetInt(c18Big2p30))
	case min == 0: // includes -0: the flag's default value, i.e. not given
		r.Branch = "default"
		r.T = c18DefaultT(total)
	default: // negative, -Inf, NaN
		r.Branch = "unsupported"
		r.T = c18DefaultT(total)
	}
	if r.T.IsInt() {
		if _, exact := r.T.Float64(); exact {
			r.Integral = true
		}
	}
	lo, hi := r.T, r.T
	if !r.Integral && r.Branch != "given" { // see the derivation of delta in the header
		d := new(big.Rat).Mul(r.T, c18RatDelta)
		lo = new(big.Rat).Sub(r.T, d)
		hi = new(big.Rat).Add(r.T, d)
	}
	r.Lo, r.Hi = c18Floor(lo), c18Ceil(hi)
	if r.Branch == "unsupported" {
		r.Lo = new(big.Int)
	}
	r.Overflow = r.Branch == "given" && r.T.Cmp(new(big.Rat).SetInt(c18Big2p64)) >= 0
	return r
}

const (
	c18MustRefuse = "zone:must-refuse"
	c18Band       = "zone:band(sub-byte)"
	c18MustAccept = "zone:must-accept"
)

func c18LessBig(free uint64, b *big.Int) bool { // free < b, b >= 0
	if b.IsUint64() {
		return free < b.Uint64()
	}
	return true
}

func (r *c18Ref) zone(free uint64) string {
	if c18LessBig(free, r.Lo) {
		return c18MustRefuse
	}
	if !c18LessBig(free, r.Hi) {
		return c18MustAccept
	}
	return c18Band
}

// near implements the non-trivial rule: |free - T| <= 2 bytes, or <= 2 ulp of T when T >= 2^53.
func (r *c18Ref) near(free uint64) bool {
	if r.Inf {
		return false
	}
	d := new(big.Rat).SetInt(new(big.Int).SetUint64(free))
	d.Sub(d, r.T)
	d.Abs(d)
	tol := big.NewInt(2)
	if fl := c18Floor(r.T); fl.Cmp(c18Big2p53) >= 0 {
		tol.Lsh(tol, uint(fl.BitLen()-53))
	}
	return d.Cmp(new(big.Rat).SetInt(tol)) <= 0
}

func (r *c18Ref) tText() string {
	if r.Inf {
		return "+Inf"
	}
	if r.T.IsInt() {
		return r.T.Num().String()
	}
	return r.T.FloatString(7)
}

func c18ParseMin(s string) float64 {
	f, err := strconv.ParseFloat(s, 64)
	if err != nil && !math.IsInf(f, 0) { // ErrRange yields +-Inf, which is what the flag parser would reject; keep Inf
		panic("C18 harness: bad min-space text " + strconv.Quote(s) + ": " + err.Error())
	}
	return f
}

func c18MinText(f float64) string { return strconv.FormatFloat(f, 'g', -1, 64) }

// ---- generators ---------------------------------------------------------------------------------------------

// genC18Mag: uniform over magnitudes — bit length uniform in 0..64, then uniform inside [2^(b-1), 2^b - 1].
func genC18Mag(t *rapid.T, minBits, maxBits int, label string) uint64 {
	bits := rapid.IntRange(minBits, maxBits).Draw(t, "bits")
	if bits == 0 {
		return 0
	}
	lo := uint64(1) << (bits - 1)
	return rapid.Uint64Range(lo, lo<<1-1).Draw(t, label) // for bits = 64: lo<<1 wraps to 0, 0-1 = MaxUint64
}

var c18TotalKinds = []string{"mag", "mag", "mag", "256GiB-1", "256GiB", "256GiB+1", "256GiB+-k", "le256:mult128",
	"le256:mult128", "le256:uniform", "le256:uniform", "blocks*bsize", "gt2^53", "max", "zero"}

func genC18Total(t *rapid.T) (uint64, string) {
	const b = uint64(256) << 30
	k := rapid.SampledFrom(c18TotalKinds).Draw(t, "totalkind")
	switch k {
	case "mag":
		return genC18Mag(t, 0, 64, "total"), k
	case "256GiB-1":
		return b - 1, k
	case "256GiB":
		return b, k
	case "256GiB+1":
		return b + 1, k
	case "256GiB+-k":
		return b - 4096 + rapid.Uint64Range(0, 8192).Draw(t, "total"), k
	case "le256:mult128": // integral default thresholds (T = 25*total/128)
		return 128 * genC18Mag(t, 0, 31, "total/128"), k
	case "le256:uniform":
		return rapid.Uint64Range(0, b).Draw(t, "total"), k
	case "blocks*bsize": // what statfs produces
		sh := rapid.SampledFrom([]int{9, 10, 12, 16, 20}).Draw(t, "bsizeshift")
		return genC18Mag(t, 0, 64-sh, "blocks") << sh, k
	case "gt2^53":
		return rapid.Uint64Range(1<<53, math.MaxUint64).Draw(t, "total"), k
	case "max":
		return math.MaxUint64, k
	}
	return 0, "zero"
}

var c18MinKinds = []string{"zero", "zero", "zero", "zero", "tiny", "integralGiB", "integralGiB", "fractional", "fractional",
	"bytes", "bytes", "halfbyte", "huge(T>=2^53)", "overflow(T>=2^64)", "negative", "nan", "negzero"}

var (
	c18TinyMins = []float64{0x1p-30, 0x1p-31, 0x3p-31, 5e-324, 1e-12, 1e-9, 1e-6, 0.001, 0x2p-30, 0x5p-31, 0x7p-30}
	// 2^34 GiB = 2^64 bytes is the first threshold no uint64 can reach; the first entry is the last one below it
	c18OverflowMins = []float64{0x1.fffffffffffffp33, 0x1p34, 0x1.0000000000001p34, 1e11, 1e20, 1e100, 1e300, math.MaxFloat64, math.Inf(1)}
	c18NegativeMins = []float64{-1, -0.5, -50, -1e-9, -1e20, -math.MaxFloat64, math.Inf(-1), -5e-324}
)

// genC18Min draws a --min-space-required value. Domain: every float64 an operator can type (the flag is parsed
// with strconv.ParseFloat, which also accepts NaN and Inf).
func genC18Min(t *rapid.T) (float64, string) {
	k := rapid.SampledFrom(c18MinKinds).Draw(t, "minkind")
	switch k {
	case "tiny":
		return rapid.SampledFrom(c18TinyMins).Draw(t, "min"), k
	case "integralGiB":
		return float64(genC18Mag(t, 1, 22, "minGiB")), k
	case "fractional": // decimal fractions as typed: 0.5, 12.25, 0.001 ...
		d := rapid.IntRange(1, 3).Draw(t, "digits")
		n := rapid.Uint64Range(1, 1_000_000).Draw(t, "minNumerator")
		return float64(n) / math.Pow10(d), k
	case "bytes": // T = n bytes exactly, n anywhere below 2^53
		return float64(genC18Mag(t, 1, 53, "minBytes")) / 0x1p30, k
	case "halfbyte": // T = n + 1/2
		n := genC18Mag(t, 0, 51, "minHalfBytes")
		return float64(2*n+1) / 0x1p31, k
	case "huge(T>=2^53)": // float64 spacing of T is >= 2 bytes; may round up to 2^64 (then it is an overflow case)
		return float64(genC18Mag(t, 54, 64, "minBytes")) / 0x1p30, k
	case "overflow(T>=2^64)":
		return rapid.SampledFrom(c18OverflowMins).Draw(t, "min"), k
	case "negative":
		return rapid.SampledFrom(c18NegativeMins).Draw(t, "min"), k
	case "nan":
		return math.NaN(), k
	case "negzero":
		return math.Copysign(0, -1), k
	}
	return 0, "zero"
}

var c18FreeKinds = []string{"mag", "mag", "floorT+d", "floorT+d", "ceilT+d", "ceilT+d", "T+-small", "T+-ulp", "gt2^53", "zero", "max", "2^63+d"}

func c18ClampU64(b *big.Int) uint64 {
	if b.Sign() < 0 {
		return 0
	}
	if b.Cmp(c18BigMaxU64) > 0 {
		return math.MaxUint64
	}
	return b.Uint64()
}

// genC18Free draws a free-space value, for most kinds relative to the exact threshold of the reference (the
// generator never asks the code under test). Values that would leave the uint64 range are clamped.
func genC18Free(t *rapid.T, r *c18Ref) (uint64, string) {
	k := rapid.SampledFrom(c18FreeKinds).Draw(t, "freekind")
	var base *big.Int
	switch k {
	case "mag":
		return genC18Mag(t, 0, 64, "free"), k
	case "gt2^53":
		return rapid.Uint64Range(1<<53, math.MaxUint64).Draw(t, "free"), k
	case "zero":
		return 0, k
	case "max":
		return math.MaxUint64, k
	case "2^63+d":
		return uint64(1<<63) + uint64(int64(rapid.IntRange(-2, 2).Draw(t, "d"))), k
	}
	if r.Inf {
		base = new(big.Int).Set(c18Big2p64)
	} else if k == "ceilT+d" {
		base = c18Ceil(r.T)
	} else {
		base = c18Floor(r.T)
	}
	var off int64
	switch k {
	case "floorT+d", "ceilT+d":
		off = int64(rapid.IntRange(-2, 2).Draw(t, "d"))
	case "T+-small":
		off = int64(rapid.IntRange(-4096, 4096).Draw(t, "d"))
	case "T+-ulp":
		off = int64(rapid.IntRange(-3, 3).Draw(t, "d"))
		if bl := base.BitLen(); bl > 53 {
			off <<= uint(bl - 53)
		}
	}
	return c18ClampU64(base.Add(base, big.NewInt(off))), k
}

// ---- class labels -------------------------------------------------------------------------------------------

var c18BitBuckets = [65]string{}

func init() {
	for b := 0; b <= 64; b++ {
		switch {
		case b == 0:
			c18BitBuckets[b] = "=0"
		case b <= 16:
			c18BitBuckets[b] = "<2^16"
		case b <= 30:
			c18BitBuckets[b] = "<2^30"
		case b <= 38:
			c18BitBuckets[b] = "<2^38"
		case b <= 53:
			c18BitBuckets[b] = "<2^53"
		case b <= 63:
			c18BitBuckets[b] = "<2^63"
		default:
			c18BitBuckets[b] = ">=2^63"
		}
	}
}

func c18Bucket(v uint64) string { return c18BitBuckets[bits.Len64(v)] }

func c18ThresholdClasses(r *c18Ref) []string {
	cl := []string{"branch:" + r.Branch}
	switch {
	case r.Overflow:
		cl = append(cl, "T:>=2^64")
	case r.Integral && c18Floor(r.T).Cmp(c18Big2p53) >= 0:
		cl = append(cl, "T:integral>=2^53")
	case r.Integral:
		cl = append(cl, "T:integral")
	default:
		cl = append(cl, "T:non-integral")
	}
	return cl
}

// ---- facet C18/exact ----------------------------------------------------------------------------------------

type c18Case struct {
	Total uint64 `json:"total"`
	Free  uint64 `json:"free"`
	Min   string `json:"min_space_required"` // the text an operator would type; parsed with strconv.ParseFloat
	// generation labels (not part of the identity of the case)
	TotalKind string `json:"total_kind,omitempty"`
	FreeKind  string `json:"free_kind,omitempty"`
	MinKind   string `json:"min_kind,omitempty"`
}

func (c c18Case) key() string {
	return strconv.FormatUint(c.Total, 10) + "|" + strconv.FormatUint(c.Free, 10) + "|" + c.Min
}

func genC18Case(t *rapid.T) c18Case {
	var c c18Case
	var min float64
	c.Total, c.TotalKind = genC18Total(t)
	min, c.MinKind = genC18Min(t)
	c.Min = c18MinText(min)
	c.Free, c.FreeKind = genC18Free(t, c18Reference(c.Total, min))
	return c
}

func c18Sample(c any, r *c18Ref, refused any) map[string]any {
	return map[string]any{"case": c, "exact_threshold": r.tText(), "must_refuse_below": r.Lo.String(), "must_accept_from": r.Hi.String(), "refused": refused}
}

func propC18Exact(t veriflib.TB, c c18Case) {
	min := c18ParseMin(c.Min)
	r := c18Reference(c.Total, min)
	refused := checkThreshold(c.Total, c.Free, min) != nil
	zone := r.zone(c.Free)
	switch {
	case zone == c18MustRefuse && !refused && r.Overflow:
		// every uint64 free is below a threshold of 2^64 bytes or more
		if c.Free >= 1<<63 && veriflib.FindingOpen(c18KFOverflow) {
			veriflib.Excluded("C18/exact", "open finding "+c18KFOverflow+": threshold >= 2^64 bytes accepted with free >= 2^63")
			return
		}
		veriflib.Fail(t, "C18", "C18/exact", c, c18Sample(c, r, refused),
			"C18 min-space overflow: --min-space-required=%s GiB is a threshold of %s bytes (>= 2^64, more than any volume can have free) but free=%d on total=%d is accepted",
			c.Min, r.tText(), c.Free, c.Total)
	case zone == c18MustRefuse && !refused:
		veriflib.Fail(t, "C18", "C18/exact", c, c18Sample(c, r, refused),
			"accepted although free space is below the threshold: total=%d free=%d min-space-required=%s: exact threshold (%s branch) is %s bytes, free < %s must be refused",
			c.Total, c.Free, c.Min, r.Branch, r.tText(), r.Lo)
	case zone == c18MustAccept && refused:
		veriflib.Fail(t, "C18", "C18/exact", c, c18Sample(c, r, refused),
			"refused although free space is not below the threshold: total=%d free=%d min-space-required=%s: exact threshold (%s branch) is %s bytes, free >= %s must be accepted",
			c.Total, c.Free, c.Min, r.Branch, r.tText(), r.Hi)
	}
	cl := append(c18ThresholdClasses(r), zone, "total:"+c.TotalKind, "free:"+c.FreeKind, "min:"+c.MinKind,
		"total"+c18Bucket(c.Total), "free"+c18Bucket(c.Free))
	if refused {
		cl = append(cl, "outcome:refused")
	} else {
		cl = append(cl, "outcome:accepted")
	}
	near := r.near(c.Free)
	if near {
		// which side of an integral threshold / which boundary construction was actually hit
		switch {
		case r.Integral && !r.Overflow && r.Lo.IsUint64() && c.Free == r.Lo.Uint64():
			cl = append(cl, "boundary:free==T(integral)")
		case r.Integral && !r.Overflow && r.Lo.IsUint64() && c.Free+1 == r.Lo.Uint64():
			cl = append(cl, "boundary:free==T-1(integral)")
		case zone == c18Band:
			cl = append(cl, "boundary:free==floor(T)(non-integral)")
		case !r.Integral && r.Hi.IsUint64() && c.Free == r.Hi.Uint64():
			cl = append(cl, "boundary:free==ceil(T)(non-integral)")
		case !r.Integral && r.Lo.IsUint64() && c.Free+1 == r.Lo.Uint64():
			cl = append(cl, "boundary:free==floor(T)-1(non-integral)")
		}
	}
	veriflib.Record("C18/exact", c.key(), near, cl, func() any { return c18Sample(c, r, refused) })
}

func TestVerif_C18_Exact(t *testing.T) {
	defer veriflib.Flush()
	var rc c18Case
	if veriflib.ReplayCase("C18/exact", &rc) {
		propC18Exact(t, rc)
		return
	} else if veriflib.Replaying() {
		t.Skip()
	}
	rapid.Check(t, func(t *rapid.T) {
		c := genC18Case(t)
		veriflib.Guard("C18", "C18/exact", c, func() { propC18Exact(t, c) })
	})
}

// ---- facet C18/monotone -------------------------------------------------------------------------------------

type c18MonoCase struct {
	Total     uint64   `json:"total"`
	Min       string   `json:"min_space_required"`
	Frees     []uint64 `json:"frees"` // 2..4 free-space values, compared pairwise after sorting
	TotalKind string   `json:"total_kind,omitempty"`
	MinKind   string   `json:"min_kind,omitempty"`
	FreeKinds []string `json:"free_kinds,omitempty"`
}

func genC18Mono(t *rapid.T) c18MonoCase {
	var c c18MonoCase
	var min float64
	c.Total, c.TotalKind = genC18Total(t)
	min, c.MinKind = genC18Min(t)
	c.Min = c18MinText(min)
	r := c18Reference(c.Total, min)
	n := rapid.IntRange(2, 4).Draw(t, "nfrees")
	for i := 0; i < n; i++ {
		f, k := genC18Free(t, r)
		c.Frees = append(c.Frees, f)
		c.FreeKinds = append(c.FreeKinds, k)
	}
	return c
}

func propC18Monotone(t veriflib.TB, c c18MonoCase) {
	min := c18ParseMin(c.Min)
	fs := append([]uint64(nil), c.Frees...)
	sort.Slice(fs, func(i, j int) bool { return fs[i] < fs[j] })
	acc := make([]bool, len(fs))
	for i, f := range fs {
		acc[i] = checkThreshold(c.Total, f, min) == nil
	}
	for i := range fs {
		for j := i + 1; j < len(fs); j++ {
			if fs[i] < fs[j] && acc[i] && !acc[j] {
				veriflib.Fail(t, "C18", "C18/monotone", c, map[string]any{"sorted_frees": fs, "accepted": acc},
					"not monotone: total=%d min-space-required=%s accepts free=%d but refuses the larger free=%d", c.Total, c.Min, fs[i], fs[j])
			}
			if fs[i] == fs[j] && acc[i] != acc[j] {
				veriflib.Fail(t, "C18", "C18/monotone", c, map[string]any{"sorted_frees": fs, "accepted": acc},
					"same triple decided differently: total=%d min-space-required=%s free=%d", c.Total, c.Min, fs[i])
			}
		}
	}
	r := c18Reference(c.Total, min)
	near := false
	for _, f := range fs {
		near = near || r.near(f)
	}
	cl := append(c18ThresholdClasses(r), "total:"+c.TotalKind, "min:"+c.MinKind, "total"+c18Bucket(c.Total), fmt.Sprintf("nfrees:%d", len(fs)))
	switch {
	case acc[0] != acc[len(acc)-1]:
		cl = append(cl, "pair:straddles-threshold")
	case acc[0]:
		cl = append(cl, "pair:all-accepted")
	default:
		cl = append(cl, "pair:all-refused")
	}
	veriflib.Record("C18/monotone", veriflib.JSON([]any{c.Total, c.Min, fs}), near, cl, func() any {
		return map[string]any{"case": c, "exact_threshold": r.tText(), "sorted_frees": fs, "accepted": acc}
	})
}

func TestVerif_C18_Monotone(t *testing.T) {
	defer veriflib.Flush()
	var rc c18MonoCase
	if veriflib.ReplayCase("C18/monotone", &rc) {
		propC18Monotone(t, rc)
		return
	} else if veriflib.Replaying() {
		t.Skip()
	}
	rapid.Check(t, func(t *rapid.T) {
		c := genC18Mono(t)
		veriflib.Guard("C18", "C18/monotone", c, func() { propC18Monotone(t, c) })
	})
}

// ---- strict sub-check of the open finding C18-minspace-overflows-uint64 ----------------------------------------

func TestVerifKF_C18_MinSpaceOverflow(t *testing.T) {
	defer veriflib.Flush()
	var rc c18Case
	if veriflib.ReplayCase("C18/exact", &rc) {
		propC18Exact(t, rc) // VERIF_STRICT=1 is set for kf units
		return
	} else if veriflib.Replaying() {
		t.Skip()
	}
	rapid.Check(t, func(t *rapid.T) {
		c := c18Case{TotalKind: "mag", MinKind: "overflow(T>=2^64)", FreeKind: ">=2^63"}
		c.Total = genC18Mag(t, 0, 64, "total")
		var min float64
		if rapid.Bool().Draw(t, "listed") {
			min = rapid.SampledFrom(c18OverflowMins[1:]).Draw(t, "min")
		} else { // 2^e * (1 + m/2^52), e in 34..1023
			min = math.Ldexp(1+float64(rapid.Uint64Range(0, 1<<52-1).Draw(t, "mant"))/0x1p52, rapid.IntRange(34, 1023).Draw(t, "exp"))
		}
		c.Min = c18MinText(min)
		c.Free = rapid.Uint64Range(1<<63, math.MaxUint64).Draw(t, "free")
		veriflib.Guard("C18", "C18/exact", c, func() { propC18Exact(t, c) })
	})
}

// ---- oracle self-test ---------------------------------------------------------------------------------------

// The reference is checked against hand-computed points, and on every generated case the tolerance band is
// verified to be at most one byte wide and empty when the threshold is an integer — so the oracle can never
// excuse a whole-byte error.
func TestVerif_C18_OracleSelfTest(t *testing.T) {
	if veriflib.Replaying() {
		t.Skip()
	}
	const gib = uint64(1) << 30
	pts := []struct {
		total  uint64
		min    float64
		lo, hi string
	}{
		{256 * gib, 0, "53687091200", "53687091200"},
		{256*gib + 1, 0, "53687091200", "53687091200"},
		{math.MaxUint64, 0, "53687091200", "53687091200"},
		{128 * gib, 0, "26843545600", "26843545600"},
		{256*gib - 1, 0, "53687091199", "53687091200"}, // 53687091199.8046875
		{1, 0, "0", "1"}, // 25/128
		{128, 0, "25", "25"},
		{0, 0, "0", "0"},
		{5, 1, "1073741824", "1073741824"},
		{5, 0.5, "536870912", "536870912"},
		{5, 0x3p-31, "1", "2"},
		{5, 0x1p34, "18446744073709551616", "18446744073709551616"},
		{5, 0.1, "107374182", "107374183"},
		{256 * gib, -1, "0", "53687091200"},
		{256 * gib, math.NaN(), "0", "53687091200"},
	}
	for _, p := range pts {
		r := c18Reference(p.total, p.min)
		if r.Lo.String() != p.lo || r.Hi.String() != p.hi {
			t.Fatalf("reference(total=%d, min=%v) = [%s, %s], hand computation gives [%s, %s]", p.total, p.min, r.Lo, r.Hi, p.lo, p.hi)
		}
	}
	rapid.Check(t, func(t *rapid.T) {
		total, _ := genC18Total(t)
		min, _ := genC18Min(t)
		r := c18Reference(total, min)
		if r.Inf {
			return
		}
		if r.Branch != "unsupported" {
			w := new(big.Int).Sub(r.Hi, r.Lo)
			if w.Sign() < 0 || w.Cmp(big.NewInt(1)) > 0 || (w.Sign() == 0) != r.T.IsInt() {
				t.Fatalf("tolerance band of total=%d min=%v is [%s,%s] for T=%s", total, min, r.Lo, r.Hi, r.tText())
			}
			if new(big.Rat).SetInt(r.Lo).Cmp(r.T) > 0 {
				t.Fatalf("Lo above T: total=%d min=%v", total, min)
			}
		}
		if new(big.Rat).SetInt(r.Hi).Cmp(r.T) < 0 {
			t.Fatalf("Hi below T: total=%d min=%v", total, min)
		}
		if _, exact := r.T.Float64(); !exact && !(r.Branch == "given" && r.Overflow) {
			// claimed in the header: the exact threshold is always a float64 (so a faithful evaluation has no rounding)
			t.Fatalf("exact threshold %s of total=%d min=%v is not a float64", r.tText(), total, min)
		}
	})
}

// ---- facet C18/statfs ---------------------------------------------------------------------------------------

type c18StatCase struct {
	Mode string `json:"mode"` // how --min-space-required is derived from the live free space
	Off  int64  `json:"off"`  // byte or block offset for the modes that use one
	Sub  bool   `json:"sub"`  // query a nested sub-directory instead of the directory itself
}

type c18StatObs struct {
	Total, Free uint64
	Raw         syscall.Statfs_t
}

func c18Statfs(path string) (c18StatObs, error) {
	var o c18StatObs
	if err := syscall.Statfs(path, &o.Raw); err != nil {
		return o, err
	}
	o.Total = o.Raw.Blocks * uint64(o.Raw.Bsize)
	o.Free = o.Raw.Bavail * uint64(o.Raw.Bsize)
	return o, nil
}

var c18StatModes = []string{"default", "T=free+off", "T=free+off", "T=free+off*bsize", "half", "double", "1GiB", "huge", "overflow", "tiny", "negative", "nan"}

func c18StatMin(c c18StatCase, o c18StatObs) float64 {
	addOff := func(v uint64, off int64) float64 {
		b := new(big.Int).Add(new(big.Int).SetUint64(v), big.NewInt(off))
		f, _ := new(big.Float).SetInt(b).Float64()
		return math.Max(f, 1) / 0x1p30
	}
	switch c.Mode {
	case "T=free+off":
		return addOff(o.Free, c.Off)
	case "T=free+off*bsize":
		return addOff(o.Free, c.Off*int64(o.Raw.Bsize))
	case "half":
		return float64(o.Free/2) / 0x1p30
	case "double":
		return 2 * float64(o.Free) / 0x1p30
	case "1GiB":
		return 1
	case "huge":
		return 1e9
	case "overflow":
		return 1e20
	case "tiny":
		return 0.001
	case "negative":
		return -1
	case "nan":
		return math.NaN()
	}
	return 0
}

var c18ConfigReady bool

func c18EnsureConfig(t veriflib.TB) {
	if c18ConfigReady {
		return
	}
	if err := config.InitConfig(); err != nil || config.Get() == nil {
		t.Fatalf("C18 harness: config.InitConfig failed: %v", err)
	}
	c18ConfigReady = true
}

func propC18Statfs(t veriflib.TB, c c18StatCase) {
	c18EnsureConfig(t)
	dir, err := os.MkdirTemp("", "c18-statfs-")
	if err != nil {
		t.Fatalf("C18 harness: %v", err)
	}
	defer os.RemoveAll(dir)
	path := dir
	if c.Sub {
		path = filepath.Join(dir, "a", "b")
		if err := os.MkdirAll(path, 0o755); err != nil {
			t.Fatalf("C18 harness: %v", err)
		}
	}
	saved := config.Get().MinSpaceRequired
	defer func() { config.Get().MinSpaceRequired = saved }()

	// The volume is shared with every other process of the machine. An attempt counts only when statfs gives the
	// same numbers before and after the call; even then free space may have dipped and recovered in between (a
	// temporary file of another process), so a disagreement is a failure only when it reproduces in
	// c18StatConfirm consecutive stable attempts of the same case.
	const c18StatConfirm = 5
	var hist []map[string]any
	disagreements := 0
	for attempt := 0; attempt < 60; attempt++ {
		before, err := c18Statfs(path)
		if err != nil {
			t.Fatalf("C18 harness: statfs: %v", err)
		}
		attemptsClass := fmt.Sprintf("attempts:%d", min(attempt+1, 3))
		min := c18StatMin(c, before)
		config.Get().MinSpaceRequired = min
		got := CheckDiskUsage(path) != nil
		after, err := c18Statfs(path)
		if err != nil {
			t.Fatalf("C18 harness: statfs: %v", err)
		}
		hist = append(hist, map[string]any{"attempt": attempt, "min": c18MinText(min), "refused": got,
			"before": []uint64{before.Total, before.Free}, "after": []uint64{after.Total, after.Free}})
		if before.Total != after.Total || before.Free != after.Free || before.Raw.Bsize != after.Raw.Bsize {
			continue // the volume changed around the call: read again
		}
		r := c18Reference(before.Total, min)
		zone := r.zone(before.Free)
		bad := ""
		if want := checkThreshold(before.Total, before.Free, min) != nil; got != want {
			bad = fmt.Sprintf("CheckDiskUsage(%q) refused=%v but statfs of the same path gives total=%d free(available to unprivileged users)=%d for which checkThreshold with min-space-required=%s says refused=%v",
				path, got, before.Total, before.Free, c18MinText(min), want)
		} else if zone == c18MustAccept && got { // against the exact reference, independently of checkThreshold
			bad = fmt.Sprintf("CheckDiskUsage(%q) refuses with total=%d free=%d min-space-required=%s although the exact threshold is %s bytes",
				path, before.Total, before.Free, c18MinText(min), r.tText())
		} else if zone == c18MustRefuse && !got {
			if r.Overflow && before.Free >= 1<<63 && veriflib.FindingOpen(c18KFOverflow) {
				veriflib.Excluded("C18/statfs", "open finding "+c18KFOverflow)
				return
			}
			bad = fmt.Sprintf("CheckDiskUsage(%q) accepts with total=%d free=%d min-space-required=%s although the exact threshold is %s bytes",
				path, before.Total, before.Free, c18MinText(min), r.tText())
		}
		if bad != "" {
			if disagreements++; disagreements >= c18StatConfirm {
				veriflib.Fail(t, "C18", "C18/statfs", c, hist, "%s (reproduced in %d consecutive stable attempts)", bad, disagreements)
			}
			continue
		}
		if disagreements > 0 {
			veriflib.Class("C18/statfs", "transient-disagreement-not-reproduced")
		}
		cl := append(c18ThresholdClasses(r), zone, "mode:"+c.Mode, attemptsClass,
			fmt.Sprintf("bavail==bfree:%v", before.Raw.Bavail == before.Raw.Bfree), fmt.Sprintf("frsize==bsize:%v", before.Raw.Frsize == before.Raw.Bsize))
		if got {
			cl = append(cl, "outcome:refused")
		} else {
			cl = append(cl, "outcome:accepted")
		}
		veriflib.Record("C18/statfs", veriflib.JSON([]any{c, before.Total, before.Free}), r.near(before.Free), cl, func() any {
			return map[string]any{"case": c, "total": before.Total, "free": before.Free, "min_space_required": c18MinText(min), "exact_threshold": r.tText(), "refused": got}
		})
		return
	}
	veriflib.Excluded("C18/statfs", "no verdict: volume numbers kept changing around the call")
}

func TestVerif_C18_Statfs(t *testing.T) {
	defer veriflib.Flush()
	var rc c18StatCase
	if veriflib.ReplayCase("C18/statfs", &rc) {
		propC18Statfs(t, rc)
		return
	} else if veriflib.Replaying() {
		t.Skip()
	}
	rapid.Check(t, func(t *rapid.T) {
		c := c18StatCase{Mode: rapid.SampledFrom(c18StatModes).Draw(t, "mode"), Sub: rapid.Bool().Draw(t, "sub")}
		if strings.HasPrefix(c.Mode, "T=free+off") {
			c.Off = int64(rapid.IntRange(-2, 2).Draw(t, "off"))
		}
		veriflib.Guard("C18", "C18/statfs", c, func() { propC18Statfs(t, c) })
	})
}

// ---- facet C18/config -----------------------------------------------------------------------------------------

// "the operator's --min-space-required when given": the text typed on the command line must be the number the
// guard reads. config.InitConfig works once per process, so every value is evaluated in a child process (this
// test binary re-executed on TestVerifChild_C18_Config) that goes through the real path: a pflag Float64 flag
// with the name and default of cmd/get.go -> config.BindFlags -> config.InitConfig -> config.Get().MinSpaceRequired.

type c18CfgCase struct {
	Arg  string `json:"arg"`  // text after --min-space-required ("" = flag not given)
	Kind string `json:"kind"` // generation label
}

func TestVerifChild_C18_Config(t *testing.T) {
	arg, ok := os.LookupEnv("C18_CHILD_MSR")
	if !ok {
		t.Skip("child-process helper of TestVerif_C18_Config")
	}
	fs := pflag.NewFlagSet("get", pflag.ContinueOnError)
	fs.Float64("min-space-required", 0, "") // as declared in cmd/get.go
	var args []string
	if arg != "" {
		args = []string{"--min-space-required=" + arg}
	}
	if err := fs.Parse(args); err != nil {
		fmt.Printf("C18CHILD flagerror %v\n", err)
		return
	}
	config.BindFlags(fs)
	if err := config.InitConfig(); err != nil {
		fmt.Printf("C18CHILD initerror %v\n", err)
		return
	}
	fmt.Printf("C18CHILD value %s\n", c18MinText(config.Get().MinSpaceRequired))
}

func c18RunConfigChild(t veriflib.TB, arg string) (kind, val, out string) {
	home, err := os.MkdirTemp("", "c18-home-")
	if err != nil {
		t.Fatalf("C18 harness: %v", err)
	}
	defer os.RemoveAll(home)
	cmd := exec.Command(os.Args[0], "-test.run", "^TestVerifChild_C18_Config$", "-test.count", "1")
	cmd.Dir = home
	for _, e := range os.Environ() { // hermetic: no ZENO_* overrides, no config file in $HOME, no stats from the child
		if strings.HasPrefix(e, "ZENO_") || strings.HasPrefix(e, "HOME=") || strings.HasPrefix(e, "VERIF_STATS_DIR=") || strings.HasPrefix(e, "VERIF_REPLAY=") {
			continue
		}
		cmd.Env = append(cmd.Env, e)
	}
	cmd.Env = append(cmd.Env, "HOME="+home, "C18_CHILD_MSR="+arg)
	b, err := cmd.CombinedOutput()
	out = string(b)
	for _, line := range strings.Split(out, "\n") {
		if f := strings.SplitN(line, " ", 3); len(f) == 3 && f[0] == "C18CHILD" {
			return f[1], f[2], out
		}
	}
	t.Fatalf("C18 harness: child gave no verdict (err=%v): %s", err, out)
	return
}

func propC18Config(t veriflib.TB, c c18CfgCase) {
	want := 0.0
	if c.Arg != "" {
		f, err := strconv.ParseFloat(c.Arg, 64)
		if err != nil {
			t.Fatalf("C18 harness: generated an argument that is not a number: %q", c.Arg)
		}
		want = f
	}
	kind, val, out := c18RunConfigChild(t, c.Arg)
	if kind != "value" {
		veriflib.Fail(t, "C18", "C18/config", c, out, "--min-space-required=%s is a valid number but start-up fails: %s %s", c.Arg, kind, val)
	}
	got := c18ParseMin(val)
	same := math.Float64bits(got) == math.Float64bits(want) || (got == want) || (math.IsNaN(got) && math.IsNaN(want))
	if !same {
		if want == 20 && got == 0 && veriflib.FindingOpen(c18KFAlias20) {
			veriflib.Excluded("C18/config", "open finding "+c18KFAlias20+": --min-space-required=20 reaches the guard as 0")
			return
		}
		veriflib.Fail(t, "C18", "C18/config", c, out,
			"C18 min-space setting lost: the operator gives --min-space-required=%s (= %s GiB) but the guard reads config MinSpaceRequired=%s", c.Arg, c18MinText(want), val)
	}
	// non-trivial: a setting that is actually given (the flag default 0 cannot be lost)
	veriflib.Record("C18/config", c.Arg, c.Arg != "" && want != 0, []string{"arg:" + c.Kind}, func() any {
		return map[string]any{"case": c, "config_value": val}
	})
}

func genC18CfgCase(t *rapid.T) c18CfgCase {
	k := rapid.SampledFrom([]string{"absent", "smallint", "listed", "listed", "fractional", "fractional", "generated", "generated"}).Draw(t, "argkind")
	switch k {
	case "absent":
		return c18CfgCase{"", k}
	case "smallint":
		return c18CfgCase{strconv.Itoa(rapid.IntRange(0, 100000).Draw(t, "gib")), k}
	case "listed":
		return c18CfgCase{rapid.SampledFrom([]string{"0", "1", "19", "20", "21", "20.0", "2e1", "20.5", "19.999", "50", "256", "0.5", "0.001",
			"1000000", "1e20", "17179869184", "-1", "NaN", "Inf", "1e-9", "020"}).Draw(t, "arg"), k}
	case "fractional":
		d := rapid.IntRange(1, 3).Draw(t, "digits")
		n := rapid.Uint64Range(1, 100_000).Draw(t, "n")
		return c18CfgCase{strconv.FormatFloat(float64(n)/math.Pow10(d), 'f', d, 64), k}
	}
	f, _ := genC18Min(t)
	return c18CfgCase{c18MinText(f), k}
}

func TestVerif_C18_Config(t *testing.T) {
	defer veriflib.Flush()
	var rc c18CfgCase
	if veriflib.ReplayCase("C18/config", &rc) {
		propC18Config(t, rc)
		return
	} else if veriflib.Replaying() {
		t.Skip()
	}
	// every whole number of GiB from 0 to 128, exhaustively (divided among the shards), then generated texts
	for gib := veriflib.ShardIndex(); gib <= 128; gib += veriflib.NShards() {
		propC18Config(t, c18CfgCase{Arg: strconv.Itoa(gib), Kind: "sweep0-128"})
	}
	rapid.Check(t, func(t *rapid.T) {
		c := genC18CfgCase(t)
		veriflib.Guard("C18", "C18/config", c, func() { propC18Config(t, c) })
	})
}

// strict sub-check of the open finding C18-minspace-20-reset-by-alias
func TestVerifKF_C18_MinSpace20(t *testing.T) {
	defer veriflib.Flush()
	if veriflib.Replaying() {
		var rc c18CfgCase
		if veriflib.ReplayCase("C18/config", &rc) {
			propC18Config(t, rc)
			return
		}
		t.Skip()
	}
	for _, arg := range []string{"20", "20.0", "2e1"} {
		propC18Config(t, c18CfgCase{Arg: arg, Kind: "kf"})
	}
}
