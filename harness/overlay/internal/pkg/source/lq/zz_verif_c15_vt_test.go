//go:build go1.25

package lq

// C15 (local queue side) — the real lq producer(), finisher() and consumer() goroutines around a real sqlite file,
// under virtual time (testing/synctest): the 5 s batch tickers and the 250 ms feed polling cost nothing, the
// database work is real. The harness plays the rest of the pipeline the way the finisher stage does.
//
//   phase 1  the pipeline is held (nobody reads the reactor output): generated outlinks, with colliding values, are
//            pushed on the produce channel. At quiescence the table must hold exactly one row per distinct value,
//            carrying the text unchanged and the via / hops of an outlink that was produced with that text (texts that
//            are not request URIs bypass the reactor and may be gone already; for them: at most one row).
//   phase 2  the pipeline is released: every row must come back from the reactor as a seed with the same text, via
//            and hops, exactly once; every seed is finished and pushed on the finish channel; at quiescence the
//            table must be empty (each finished seed's row deleted, by id).
//   phase 3  the same outlinks are produced again: none of them is waiting any more, so every distinct value must
//            come back once more.

import (
	"context"
	"fmt"
	"net/url"
	"os"
	"sort"
	"strings"
	"sync"
	"testing"
	"testing/synctest"
	"time"

	"github.com/internetarchive/Zeno/internal/pkg/reactor"
	"github.com/internetarchive/Zeno/internal/pkg/stats"
	"github.com/internetarchive/Zeno/internal/pkg/verifcfg"
	"github.com/internetarchive/Zeno/internal/pkg/veriflib"
	"github.com/internetarchive/Zeno/pkg/models"
	"pgregory.net/rapid"
)

type c15PipeEv struct {
	Kind string `json:"kind"` // out: push N outlinks back to back | adv: let Ms of virtual time pass
	N    int    `json:"n,omitempty"`
	Ms   int    `json:"ms,omitempty"`
}

type c15PipeCase struct {
	Workers int         `json:"workers"` // --workers: finish batch size, feed size, reactor tokens, channel sizes
	Outs    []c15URL    `json:"outs"`
	Events  []c15PipeEv `json:"events"`
	Bulk    int         `json:"bulk,omitempty"` // > 0: that many extra distinct outlinks pushed in one go (the produce batch size is 100)
}

type c15PipeSeed struct {
	id, raw, via string
	hops         int
}

func c15RunLQPipe(cl *LQClient, c c15PipeCase, hist *[]string) (viol string, nontrivial bool, classes []string) {
	c15Empty(cl)
	cfg := verifcfg.Quiet()
	cfg.WorkersCount = c.Workers
	start := time.Now()
	var hmu sync.Mutex
	say := func(f string, a ...any) {
		hmu.Lock()
		*hist = append(*hist, fmt.Sprintf("t=%.3fs ", time.Since(start).Seconds())+fmt.Sprintf(f, a...))
		hmu.Unlock()
	}

	// what controler.startPipeline does around lq.Start
	reactorOut := make(chan *models.Item, c.Workers)
	if err := reactor.Start(c.Workers, reactorOut); err != nil {
		return "reactor.Start: " + err.Error(), false, nil
	}
	finishCh := make(chan *models.Item, c.Workers)
	produceCh := make(chan *models.Item, c.Workers)
	// what lq.Start does (the database is already open)
	stats.Init()
	ctx, cancel := context.WithCancel(context.Background())
	globalLQ = &lq{ctx: ctx, cancel: cancel, finishCh: finishCh, produceCh: produceCh, client: cl}
	globalLQ.wg.Add(3)
	go consumer()
	go producer()
	go finisher()

	var mu sync.Mutex
	var seeds []c15PipeSeed
	pipeErr := ""
	release := make(chan struct{})
	stopPipe := make(chan struct{})
	pipeDone := make(chan struct{})
	go func() {
		defer close(pipeDone)
		select {
		case <-release:
		case <-stopPipe:
			return
		}
		for {
			select {
			case <-stopPipe:
				return
			case it := <-reactorOut:
				mu.Lock()
				seeds = append(seeds, c15PipeSeed{id: it.GetID(), raw: it.GetURL().Raw, via: it.GetSeedVia(), hops: it.GetURL().GetHops()})
				mu.Unlock()
				if err := reactor.MarkAsFinished(it); err != nil {
					mu.Lock()
					pipeErr = fmt.Sprintf("reactor.MarkAsFinished(%s): %v", it.GetID(), err)
					mu.Unlock()
				}
				select {
				case finishCh <- it:
				case <-stopPipe:
					return
				}
			}
		}
	}()
	released := false
	defer func() {
		// real stop order: reactor frozen, lq stopped, reactor stopped; the finish channel is drained for a consumer
		// that is parked on it (a stop is outside C15)
		if !released {
			close(release)
		}
		time.Sleep(20 * time.Second)
		reactor.Freeze()
		stopped := make(chan struct{})
		go func() { Stop(); close(stopped) }()
		for done := false; !done; {
			select {
			case <-stopped:
				done = true
			case <-finishCh:
			case <-time.After(6 * time.Hour):
				panic("C15 harness: lq.Stop() did not return within six virtual hours")
			}
		}
		close(stopPipe)
		<-pipeDone
		reactor.Stop()
		globalLQ = &lq{client: cl}
		synctest.Wait()
		c15Empty(cl)
	}()

	outs := append([]c15URL(nil), c.Outs...)
	for i := 0; i < c.Bulk; i++ {
		outs = append(outs, c15URL{Value: fmt.Sprintf("http://bulk.example/%d", i), Via: "http://bulk.example/", Hops: i % 7})
	}
	next := 0
	push := func(n int) string {
		for k := 0; k < n && next < len(outs); k++ {
			o := outs[next]
			next++
			it := models.NewItem(fmt.Sprintf("out-%d", next), &models.URL{Raw: c15Bytes(o.Value), Hops: o.Hops}, c15Bytes(o.Via))
			select {
			case produceCh <- it:
			case <-time.After(time.Hour):
				return fmt.Sprintf("the produce channel accepted nothing for a virtual hour (outlink %s)", c15Q(o.Value))
			}
		}
		return ""
	}
	type vh struct {
		via  string
		hops int64
	}
	produced := map[string][]vh{}
	var order []string
	for _, o := range outs {
		v := c15Bytes(o.Value)
		if produced[v] == nil {
			order = append(order, v)
		}
		produced[v] = append(produced[v], vh{c15Bytes(o.Via), int64(o.Hops)})
	}
	sizeTrigger := false

	// ---- phase 1
	for _, ev := range c.Events {
		switch ev.Kind {
		case "out":
			say("produce x%d", ev.N)
			if v := push(ev.N); v != "" {
				return v, false, nil
			}
		case "adv":
			time.Sleep(time.Duration(ev.Ms) * time.Millisecond)
		}
	}
	if next < len(outs) {
		if len(outs)-next >= 100 {
			sizeTrigger = true
		}
		say("produce x%d", len(outs)-next)
		if v := push(len(outs)); v != "" {
			return v, false, nil
		}
	}
	time.Sleep(11 * time.Second) // > one 5 s batch ticker; the database never fails here
	tab, err := c15Dump(cl)
	if err != nil {
		return "harness: dump: " + err.Error(), false, nil
	}
	say("held: table has %d rows for %d distinct values (%d outlinks)", len(tab), len(order), len(outs))
	byValue := map[string][]c15Row{}
	for _, r := range tab {
		byValue[r.value] = append(byValue[r.value], r)
	}
	for _, v := range order {
		rs := byValue[v]
		if _, perr := url.ParseRequestURI(v); perr != nil && len(rs) == 0 {
			// a text that is not a request URI never enters the reactor: the consumer hands it straight to the finish
			// channel and its row is deleted, held pipeline or not
			continue
		}
		if len(rs) == 0 {
			return fmt.Sprintf("outlink %s was pushed on the produce channel %d time(s) but 11 s later the local queue has no row with that text (table has %d rows)", c15Q(v), len(produced[v]), len(tab)), false, nil
		}
		if len(rs) > 1 {
			return fmt.Sprintf("outlink %s is queued %d times in the local queue", c15Q(v), len(rs)), false, nil
		}
		ok := false
		for _, p := range produced[v] {
			if p.via == rs[0].via && p.hops == rs[0].hops {
				ok = true
			}
		}
		if !ok {
			return fmt.Sprintf("outlink %s is queued as {via=%s hops=%d}; it was produced as %v", c15Q(v), c15Q(rs[0].via), rs[0].hops, produced[v]), false, nil
		}
	}
	if len(tab) != len(order) {
		for _, r := range tab {
			if produced[r.value] == nil {
				return fmt.Sprintf("the local queue holds {value=%s via=%s hops=%d} which nobody produced", c15Q(r.value), c15Q(r.via), r.hops), false, nil
			}
		}
	}
	phase1 := map[string]c15Row{}
	for _, r := range tab {
		phase1[r.id] = r
	}

	// ---- phase 2
	close(release)
	released = true
	say("released")
	checkBack := func(rows map[string]c15Row, from int) string {
		mu.Lock()
		defer mu.Unlock()
		if pipeErr != "" {
			return pipeErr
		}
		count := map[string]int{}
		for _, s := range seeds[from:] {
			r, ok := rows[s.id]
			if !ok {
				return fmt.Sprintf("seed %s {raw=%s} reached the reactor but the local queue never held a row with that id", s.id, c15Q(s.raw))
			}
			count[s.id]++
			if count[s.id] > 1 {
				return fmt.Sprintf("row %s {value=%s} was delivered %d times without a reset", s.id, c15Q(r.value), count[s.id])
			}
			if s.raw != r.value || s.via != r.via || int64(s.hops) != r.hops {
				return fmt.Sprintf("row %s {value=%s via=%s hops=%d} came back as seed {raw=%s via=%s hops=%d}", s.id, c15Q(r.value), c15Q(r.via), r.hops, c15Q(s.raw), c15Q(s.via), s.hops)
			}
		}
		for id, r := range rows {
			if _, perr := url.ParseRequestURI(r.value); perr == nil && count[id] == 0 {
				return fmt.Sprintf("row %s {value=%s via=%s hops=%d} never came back from the reactor as a seed", id, c15Q(r.value), c15Q(r.via), r.hops)
			}
		}
		return ""
	}
	waitEmpty := func(what string) string {
		var tab []c15Row
		for waited := time.Duration(0); waited < 10*time.Minute; waited += 2 * time.Second {
			time.Sleep(2 * time.Second)
			var err error
			if tab, err = c15Dump(cl); err != nil {
				return "harness: dump: " + err.Error()
			}
			if len(tab) == 0 {
				return ""
			}
		}
		r := tab[0]
		mu.Lock()
		defer mu.Unlock()
		fin := false
		for _, s := range seeds {
			if s.id == r.id {
				fin = true
			}
		}
		return fmt.Sprintf("%s: 10 virtual minutes later %d row(s) are still in the local queue, e.g. {id=%s value=%s %s} (finished by the pipeline: %v)", what, len(tab), r.id, c15Q(r.value), r.status, fin)
	}
	if v := waitEmpty("after the pipeline was released"); v != "" {
		return v, false, nil
	}
	if v := checkBack(phase1, 0); v != "" {
		return v, false, nil
	}
	mu.Lock()
	n2 := len(seeds)
	mu.Unlock()
	say("phase 2: %d seeds came back, table empty", n2)

	// ---- phase 3: nothing is waiting any more, the same outlinks are accepted again
	next = 0
	if v := push(len(outs)); v != "" {
		return v, false, nil
	}
	time.Sleep(11 * time.Second) // the rows are written by now (> one batch ticker)
	if v := waitEmpty("after the outlinks were produced a second time"); v != "" {
		return v, false, nil
	}
	mu.Lock()
	again := map[string]int{}
	for _, s := range seeds[n2:] {
		again[s.raw]++
	}
	n3 := len(seeds) - n2
	mu.Unlock()
	for _, v := range order {
		if _, perr := url.ParseRequestURI(v); perr == nil && again[v] == 0 {
			return fmt.Sprintf("outlink %s was produced again after its first row had been finished and deleted, but it never came back as a seed (%d of %d did)", c15Q(v), n3, len(order)), false, nil
		}
	}
	say("phase 3: %d seeds came back", n3)

	collide := len(outs) > len(order)
	cls := map[string]bool{}
	if collide {
		cls["colliding-values"] = true
	}
	if sizeTrigger {
		cls["produce:size-trigger"] = true
	}
	if len(outs) > 0 {
		cls["produce:timer-trigger"] = true
	}
	if n2 >= c.Workers {
		cls["finish:size-trigger"] = true
	}
	if n2%c.Workers != 0 {
		cls["finish:timer-trigger"] = true
	}
	if n2 < len(phase1) {
		cls["roundtrip:unparsable-straight-to-finish"] = true
	}
	if len(phase1) > 3*c.Workers+1 {
		cls["held:more-rows-than-the-consumer-can-claim"] = true
	}
	for k := range cls {
		classes = append(classes, k)
	}
	sort.Strings(classes)
	return "", collide && n2 > 0, classes
}

func propC15LQPipe(t veriflib.TB, outer *testing.T, cl *LQClient, c c15PipeCase) {
	var viol string
	var nt bool
	var classes, hist []string
	veriflib.Bubble(outer, "C15", "C15/lq-pipeline", c, func(st *testing.T) {
		viol, nt, classes = c15RunLQPipe(cl, c, &hist)
	})
	if viol != "" {
		veriflib.Fail(t, "C15", "C15/lq-pipeline", c, hist, "%s\nhistory: %s", viol, strings.Join(hist, " ; "))
	}
	veriflib.Record("C15/lq-pipeline", veriflib.JSON(c), nt, classes, func() any {
		return map[string]any{"workers": c.Workers, "outlinks": len(c.Outs) + c.Bulk, "history": strings.Join(hist, " ; ")}
	})
}

func genC15LQPipe(t *rapid.T) c15PipeCase {
	c := c15PipeCase{Workers: []int{1, 2, 3, 5, 8, 12}[rapid.IntRange(0, 5).Draw(t, "workers")]}
	var pool []string
	if rapid.IntRange(0, 1).Draw(t, "some") == 0 {
		c.Outs = genC15URLsLQ(t, &pool, 12)
	} else {
		c.Outs = genC15URLsLQ(t, &pool, 4)
	}
	nev := rapid.IntRange(0, 5).Draw(t, "nev")
	for i := 0; i < nev; i++ {
		if rapid.Bool().Draw(t, "evkind") {
			c.Events = append(c.Events, c15PipeEv{Kind: "out", N: rapid.IntRange(1, 5).Draw(t, "n")})
		} else {
			ms := rapid.IntRange(0, 300).Draw(t, "ms")
			if rapid.Bool().Draw(t, "long") {
				ms = rapid.IntRange(4800, 12000).Draw(t, "ms")
			}
			c.Events = append(c.Events, c15PipeEv{Kind: "adv", Ms: ms})
		}
	}
	if rapid.IntRange(0, 19).Draw(t, "bulk") == 0 {
		c.Bulk = rapid.IntRange(95, 130).Draw(t, "nbulk")
	}
	return c
}

func TestVerif_C15_LQPipeline(t *testing.T) {
	defer veriflib.Flush()
	dir := c15ScratchDir("c15-lq-pipe")
	defer os.RemoveAll(dir)
	cl := c15OpenLQ(dir)
	defer cl.dbWrite.Close()
	globalLQ = &lq{client: cl}
	defer func() { globalLQ = nil }()
	var rc c15PipeCase
	if veriflib.ReplayCase("C15/lq-pipeline", &rc) {
		propC15LQPipe(t, t, cl, rc)
		return
	} else if veriflib.Replaying() {
		t.Skip()
	}
	rapid.Check(t, func(rt *rapid.T) {
		c := genC15LQPipe(rt)
		veriflib.Guard("C15", "C15/lq-pipeline", c, func() { propC15LQPipe(rt, t, cl, c) })
	})
}
