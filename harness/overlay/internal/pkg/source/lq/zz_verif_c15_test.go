package lq

// C15 (local queue side) — model-based test of the LQ client against a real sqlite file.
//
// Generated sequences of add (with colliding values, inside one call and across calls) / get / delete / reset run on
// the real LQClient; after every operation the whole `urls` table is read back with plain SQL and compared with a
// reference map value -> (via, hops, status). sqlite start-up costs ~1.5 s per process, so the database is opened
// once per test function and emptied between cases.

import (
	"context"
	"fmt"
	"os"
	"path/filepath"
	"sort"
	"strconv"
	"strings"
	"testing"

	"github.com/internetarchive/Zeno/internal/pkg/log"
	"github.com/internetarchive/Zeno/internal/pkg/source/lq/sqlc_model"
	"github.com/internetarchive/Zeno/internal/pkg/verifcfg"
	"github.com/internetarchive/Zeno/internal/pkg/verifgen"
	"github.com/internetarchive/Zeno/internal/pkg/veriflib"
	"pgregory.net/rapid"
)

type c15URL struct {
	Value string `json:"value"`
	Via   string `json:"via"`
	Hops  int    `json:"hops"`
}

type c15Op struct {
	Kind   string   `json:"kind"`             // add | add-id-clash | add-cancelled | get | delete | reset
	URLs   []c15URL `json:"urls,omitempty"`   // add*
	Limit  int      `json:"limit,omitempty"`  // get
	Sel    []int    `json:"sel,omitempty"`    // delete / reset / add-id-clash: selectors among the rows present (mod len); -1 = an id that does not exist
	Status string   `json:"status,omitempty"` // delete / reset: prefer rows in this state
}

type c15LQCase struct {
	Ops []c15Op `json:"ops"`
}

type c15Row struct {
	id, value, via string
	hops           int64
	status         string
}

func c15Q(s string) string { return strconv.QuoteToASCII(s) }

// c15Bytes expands the ⟦hh⟧ notation of generated texts into raw bytes.
func c15Bytes(s string) string {
	for {
		i := strings.Index(s, "⟦")
		if i < 0 || len(s) < i+len("⟦hh⟧") || !strings.HasPrefix(s[i+len("⟦")+2:], "⟧") {
			return s
		}
		b, err := strconv.ParseUint(s[i+len("⟦"):i+len("⟦")+2], 16, 8)
		if err != nil {
			return s
		}
		s = s[:i] + string([]byte{byte(b)}) + s[i+len("⟦hh⟧"):]
	}
}

// c15ScratchDir returns a fresh directory below $VERIF_SCRATCH (the driver's per-shard scratch, removed after the run).
func c15ScratchDir(name string) string {
	base := os.Getenv("VERIF_SCRATCH")
	if base == "" {
		base = os.TempDir()
	}
	d, err := os.MkdirTemp(base, name+"-")
	if err != nil {
		panic(err)
	}
	return d
}

// c15OpenLQ does what lq.Start does up to (not including) the goroutines.
func c15OpenLQ(dir string) *LQClient {
	cfg := verifcfg.Quiet()
	cfg.JobPath = dir
	log.Start()
	logger = log.NewFieldedLogger(&log.Fields{"component": "lq"})
	cl, err := Init("verif")
	if err != nil {
		panic("lq.Init: " + err.Error())
	}
	// throughput only: no fsync per commit (durability across crashes is C04's subject, not C15's); same SQL, same results
	if _, err := cl.dbWrite.Exec(`PRAGMA synchronous=OFF`); err != nil {
		panic("harness: " + err.Error())
	}
	return cl
}

// c15Dump reads the table behind the client's back.
func c15Dump(cl *LQClient) ([]c15Row, error) {
	rows, err := cl.dbWrite.Query(`SELECT id, value, via, hops, status FROM urls`)
	if err != nil {
		return nil, err
	}
	defer rows.Close()
	var out []c15Row
	for rows.Next() {
		var r c15Row
		if err := rows.Scan(&r.id, &r.value, &r.via, &r.hops, &r.status); err != nil {
			return nil, err
		}
		out = append(out, r)
	}
	return out, rows.Err()
}

func c15Empty(cl *LQClient) {
	if _, err := cl.dbWrite.Exec(`DELETE FROM urls`); err != nil {
		panic("harness: cannot empty the table: " + err.Error())
	}
}

// c15Compare checks the table against the model (by value; ids are learned on first sight and must then be stable).
func c15Compare(cl *LQClient, model map[string]*c15Row, after string) string {
	tab, err := c15Dump(cl)
	if err != nil {
		return "harness: dump: " + err.Error()
	}
	seenV := map[string]int{}
	seenID := map[string]bool{}
	for _, r := range tab {
		seenV[r.value]++
		if seenV[r.value] > 1 {
			return fmt.Sprintf("after %s: value %s has %d rows in the local queue", after, c15Q(r.value), seenV[r.value])
		}
		if r.id == "" || seenID[r.id] {
			return fmt.Sprintf("after %s: row id %q empty or used twice", after, r.id)
		}
		seenID[r.id] = true
		m := model[r.value]
		if m == nil {
			return fmt.Sprintf("after %s: the table holds a row {id=%s value=%s via=%s hops=%d %s} the model does not expect (%d model rows)", after, r.id, c15Q(r.value), c15Q(r.via), r.hops, r.status, len(model))
		}
		if m.id == "" {
			m.id = r.id
		}
		if m.id != r.id || m.via != r.via || m.hops != r.hops || m.status != r.status {
			return fmt.Sprintf("after %s: row of value %s is {id=%s via=%s hops=%d %s}, expected {id=%s via=%s hops=%d %s}", after, c15Q(r.value), r.id, c15Q(r.via), r.hops, r.status, m.id, c15Q(m.via), m.hops, m.status)
		}
	}
	for v, m := range model {
		if seenV[v] == 0 {
			return fmt.Sprintf("after %s: value %s {via=%s hops=%d %s} has no row in the local queue (table has %d rows)", after, c15Q(v), c15Q(m.via), m.hops, m.status, len(tab))
		}
	}
	return ""
}

func c15SortedRows(model map[string]*c15Row, status string) []*c15Row {
	var rs []*c15Row
	for _, r := range model {
		if status == "" || r.status == status {
			rs = append(rs, r)
		}
	}
	sort.Slice(rs, func(i, j int) bool { return rs[i].value < rs[j].value })
	return rs
}

func c15RunLQ(cl *LQClient, c c15LQCase, hist *[]string) (viol string, nontrivial bool, classes []string) {
	c15Empty(cl)
	defer c15Empty(cl)
	model := map[string]*c15Row{}
	ctx := context.Background()
	say := func(f string, a ...any) { *hist = append(*hist, fmt.Sprintf(f, a...)) }
	cls := map[string]bool{}
	collided, gotSomething := false, false

	pickRows := func(op c15Op) []*c15Row {
		cand := c15SortedRows(model, op.Status)
		if len(cand) == 0 {
			cand = c15SortedRows(model, "")
		}
		var out []*c15Row
		used := map[string]bool{}
		for _, s := range op.Sel {
			if s < 0 || len(cand) == 0 {
				out = append(out, nil)
				continue
			}
			r := cand[s%len(cand)]
			if !used[r.value] {
				used[r.value] = true
				out = append(out, r)
			}
		}
		return out
	}

	for step, op := range c.Ops {
		name := fmt.Sprintf("step %d %s", step, op.Kind)
		switch op.Kind {
		case "add", "add-cancelled", "add-id-clash":
			var urls []sqlc_model.Url
			for _, u := range op.URLs {
				urls = append(urls, sqlc_model.Url{Value: c15Bytes(u.Value), Via: c15Bytes(u.Via), Hops: int64(u.Hops)})
			}
			if len(urls) == 0 {
				continue
			}
			actx := ctx
			expectErr := false
			switch op.Kind {
			case "add-cancelled":
				cctx, cancel := context.WithCancel(ctx)
				cancel()
				actx = cctx
				cls["add:cancelled-context"] = true
			case "add-id-clash":
				// the last URL carries the id of a row that is already there (and a value that is not): a constraint
				// failure which is not "this value is already queued"
				tgt := pickRows(c15Op{Sel: op.Sel[:1]})
				if len(tgt) == 0 || tgt[0] == nil || model[urls[len(urls)-1].Value] != nil {
					continue
				}
				dupInCall := false
				for _, u := range urls[:len(urls)-1] {
					if u.Value == urls[len(urls)-1].Value {
						dupInCall = true
					}
				}
				if dupInCall {
					continue
				}
				urls[len(urls)-1].ID = tgt[0].id
				expectErr = true
				cls["add:id-clash"] = true
			}
			err := cl.Add(actx, urls, false)
			say("%s(%s) -> %v", op.Kind, c15URLs(op.URLs), err)
			if err == nil {
				if expectErr {
					return fmt.Sprintf("%s: Add returned nil although URL %s could not be stored (its id %s is taken by another row): the URL is lost silently", name, c15Q(urls[len(urls)-1].Value), urls[len(urls)-1].ID), false, nil
				}
				for _, u := range urls {
					if m := model[u.Value]; m != nil {
						collided = true
						cls["add:value-already-"+strings.ToLower(m.status)] = true
						continue // already waiting: not queued twice, the existing row stays as it is
					}
					model[u.Value] = &c15Row{value: u.Value, via: u.Via, hops: u.Hops, status: "FRESH"}
				}
			} else {
				if op.Kind == "add" {
					return fmt.Sprintf("%s: Add(%s) failed: %v", name, c15URLs(op.URLs), err), false, nil
				}
				// a failed Add may have stored nothing or (any prefix of) the batch; whatever it did, rows that were
				// there stay untouched and no value gets two rows: resynchronise the model on the new values only
				tab, derr := c15Dump(cl)
				if derr != nil {
					return "harness: dump: " + derr.Error(), false, nil
				}
				for _, r := range tab {
					if model[r.value] == nil {
						ok := false
						for _, u := range urls {
							if u.Value == r.value && u.Via == r.via && u.Hops == r.hops && r.status == "FRESH" {
								ok = true
							}
						}
						if !ok {
							return fmt.Sprintf("%s: after the failed Add the table holds an unexpected row {value=%s via=%s hops=%d %s}", name, c15Q(r.value), c15Q(r.via), r.hops, r.status), false, nil
						}
						rr := r
						model[r.value] = &rr
					}
				}
			}
		case "get":
			fresh := len(c15SortedRows(model, "FRESH"))
			got, err := cl.Get(ctx, op.Limit)
			say("get(%d) -> %d rows, %v", op.Limit, len(got), err)
			if err != nil {
				return fmt.Sprintf("%s: Get(%d) failed: %v", name, op.Limit, err), false, nil
			}
			want := op.Limit
			if fresh < want {
				want = fresh
			}
			if len(got) != want {
				return fmt.Sprintf("%s: Get(%d) returned %d rows with %d fresh rows waiting", name, op.Limit, len(got), fresh), false, nil
			}
			ids := map[string]bool{}
			for _, g := range got {
				m := model[g.Value]
				if m == nil {
					return fmt.Sprintf("%s: Get returned {id=%s value=%s} which was never added (or was deleted)", name, g.ID, c15Q(g.Value)), false, nil
				}
				if m.status != "FRESH" {
					return fmt.Sprintf("%s: Get returned row %s {value=%s} again although it is %s and was not reset", name, g.ID, c15Q(g.Value), m.status), false, nil
				}
				if ids[g.ID] {
					return fmt.Sprintf("%s: Get returned id %s twice in one answer", name, g.ID), false, nil
				}
				ids[g.ID] = true
				if g.ID != m.id || g.Via != m.via || g.Hops != m.hops {
					return fmt.Sprintf("%s: Get returned {id=%s value=%s via=%s hops=%d}, added as {id=%s via=%s hops=%d}", name, g.ID, c15Q(g.Value), c15Q(g.Via), g.Hops, m.id, c15Q(m.via), m.hops), false, nil
				}
				m.status = "CLAIMED"
				gotSomething = true
			}
			if len(got) > 0 && len(got) < fresh {
				cls["get:partial"] = true
			}
		case "delete":
			var urls []sqlc_model.Url
			for _, r := range pickRows(op) {
				if r == nil {
					urls = append(urls, sqlc_model.Url{ID: "no-such-id"})
					cls["delete:unknown-id"] = true
					continue
				}
				urls = append(urls, sqlc_model.Url{ID: r.id, Value: r.value})
				cls["delete:"+strings.ToLower(r.status)] = true
				delete(model, r.value)
			}
			if len(urls) == 0 {
				continue
			}
			err := cl.Delete(ctx, urls, false)
			say("delete(%d ids) -> %v", len(urls), err)
			if err != nil {
				return fmt.Sprintf("%s: Delete failed: %v", name, err), false, nil
			}
		case "reset":
			for _, r := range pickRows(op) {
				id := "no-such-id"
				if r != nil {
					id = r.id
					cls["reset:"+strings.ToLower(r.status)] = true
					r.status = "FRESH"
				}
				err := cl.ResetURL(ctx, id)
				say("reset(%s) -> %v", id, err)
				if err != nil {
					return fmt.Sprintf("%s: ResetURL(%s) failed: %v", name, id, err), false, nil
				}
			}
		}
		if v := c15Compare(cl, model, name); v != "" {
			return v, false, nil
		}
	}
	for k := range cls {
		classes = append(classes, k)
	}
	sort.Strings(classes)
	return "", collided && gotSomething, classes
}

func c15URLs(us []c15URL) string {
	var parts []string
	for _, u := range us {
		parts = append(parts, fmt.Sprintf("{%s via=%s hops=%d}", c15Q(u.Value), c15Q(u.Via), u.Hops))
	}
	return strings.Join(parts, " ")
}

// ⟦hh⟧ in a generated value or via stands for the raw byte 0xhh (case data stays valid JSON, replays stay exact).
var c15OddValues = []string{"", " ", "a\x00b", "http://example.com/\x00", "⟦ff⟧⟦fe⟧", "http://example.com/?q=⟦e9⟧", "http://example.com/a", "http://example.com/A", "http://example.com/a ", "HTTP://EXAMPLE.COM/a", "http://example.com/a%20", "é", "é"}
var c15LQVias = []string{"", "http://example.com/", "https://www.example.org/a/b?x=1&y=2", "http://bücher.example/é", "\x00", "'", "http://example.com/?q=⟦e9⟧"}

func genC15URLsLQ(t *rapid.T, pool *[]string, max int) []c15URL {
	n := rapid.IntRange(1, max).Draw(t, "nurls")
	var us []c15URL
	for i := 0; i < n; i++ {
		var v string
		switch k := rapid.IntRange(0, 9).Draw(t, "valkind"); {
		case len(*pool) > 0 && k <= 3:
			v = (*pool)[rapid.IntRange(0, len(*pool)-1).Draw(t, "poolidx")] // a value used before: waiting, claimed or deleted by now
		case k == 4:
			v = c15OddValues[rapid.IntRange(0, len(c15OddValues)-1).Draw(t, "odd")]
		case k <= 6:
			v = "http://" + verifgen.Host(t) + verifgen.Path(t, 3) + verifgen.Query(t, 2)
		default:
			v = verifgen.HostileURL(t)
		}
		*pool = append(*pool, v)
		via := c15LQVias[rapid.IntRange(0, len(c15LQVias)-1).Draw(t, "via")]
		if rapid.IntRange(0, 5).Draw(t, "hostilevia") == 0 {
			via = verifgen.HostileURL(t)
		}
		us = append(us, c15URL{Value: v, Via: via, Hops: rapid.IntRange(0, 6).Draw(t, "hops")})
	}
	return us
}

func genC15LQ(t *rapid.T) c15LQCase {
	var c c15LQCase
	var pool []string
	nops := rapid.IntRange(1, 25).Draw(t, "nops")
	for i := 0; i < nops; i++ {
		var op c15Op
		switch k := rapid.IntRange(0, 19).Draw(t, "opkind"); {
		case k <= 6:
			op = c15Op{Kind: "add", URLs: genC15URLsLQ(t, &pool, 6)}
		case k == 7:
			op = c15Op{Kind: "add-id-clash", URLs: genC15URLsLQ(t, &pool, 3), Sel: []int{rapid.IntRange(0, 50).Draw(t, "sel")}}
		case k == 8:
			op = c15Op{Kind: "add-cancelled", URLs: genC15URLsLQ(t, &pool, 3)}
		case k <= 12:
			op = c15Op{Kind: "get", Limit: rapid.IntRange(1, 5).Draw(t, "limit")}
		case k <= 16:
			op = c15Op{Kind: "delete", Status: []string{"CLAIMED", "CLAIMED", "FRESH", ""}[rapid.IntRange(0, 3).Draw(t, "st")]}
			for n := rapid.IntRange(1, 3).Draw(t, "nsel"); n > 0; n-- {
				op.Sel = append(op.Sel, rapid.IntRange(-1, 50).Draw(t, "sel"))
			}
		default:
			op = c15Op{Kind: "reset", Status: []string{"CLAIMED", "CLAIMED", "FRESH"}[rapid.IntRange(0, 2).Draw(t, "st")]}
			for n := rapid.IntRange(1, 2).Draw(t, "nsel"); n > 0; n-- {
				op.Sel = append(op.Sel, rapid.IntRange(-1, 50).Draw(t, "sel"))
			}
		}
		c.Ops = append(c.Ops, op)
	}
	return c
}

func propC15LQ(t veriflib.TB, cl *LQClient, c c15LQCase) {
	var hist []string
	viol, nt, classes := c15RunLQ(cl, c, &hist)
	if viol != "" {
		veriflib.Fail(t, "C15", "C15/lq-model", c, hist, "%s\nhistory: %s", viol, strings.Join(hist, " ; "))
	}
	veriflib.Record("C15/lq-model", veriflib.JSON(c), nt, classes, func() any {
		return map[string]any{"history": strings.Join(hist, " ; ")}
	})
}

func TestVerif_C15_LQModel(t *testing.T) {
	defer veriflib.Flush()
	dir := c15ScratchDir("c15-lq-model")
	defer os.RemoveAll(dir)
	cl := c15OpenLQ(dir)
	defer cl.dbWrite.Close()
	globalLQ = &lq{client: cl} // the client's methods go through the package global
	defer func() { globalLQ = nil }()
	if _, err := os.Stat(filepath.Join(dir, "lq.db")); err != nil {
		t.Fatalf("harness: the queue database is not where the job directory is: %v", err)
	}
	var rc c15LQCase
	if veriflib.ReplayCase("C15/lq-model", &rc) {
		propC15LQ(t, cl, rc)
		return
	} else if veriflib.Replaying() {
		t.Skip()
	}
	rapid.Check(t, func(rt *rapid.T) {
		c := genC15LQ(rt)
		veriflib.Guard("C15", "C15/lq-model", c, func() { propC15LQ(rt, cl, c) })
	})
}
