package hq

// C08 (crawl-HQ seen-store) — "an item is skipped as already seen only if the seen-store really reported it as seen",
// and what the store reported as seen is skipped.
//
// Facet C08/hq (kind U, in-package): hq.SeencheckItem runs against an in-memory fake HQ (an http.RoundTripper under the
// real gocrawlhq client) that answers with the subset of the submitted URLs it has NOT seen. Oracle, relative to the
// fake's own log: a working-depth node whose URL was returned (= not seen) must stay Fresh, one whose URL was asked and not
// returned must be Seen; a node HQ was never asked about (the seed) must not be Seen; on an HQ error nothing is Seen.
//
// The package cannot import preprocessor (import cycle): URL objects are built in the state NormalizeURL leaves them
// (Raw = WHATWG href, then URL.Parse()), from spellings that are fixpoints of that serialisation (checked with goada).
// That is the state of a node that was referenced by a RELATIVE URL: NormalizeURL resolves a relative reference as
// written, so Raw keeps the document's spelling of the query string (for an absolute input it re-encodes the query
// first, and Raw ends up spelt like URL.String()). The same property runs through the real preprocess(), with raw
// absolute and relative texts, as facet C08/preprocess-hq in package preprocessor.

import (
	"fmt"
	"sync/atomic"
	"testing"

	"github.com/internetarchive/Zeno/internal/pkg/log"
	"github.com/internetarchive/Zeno/internal/pkg/verifgen"
	"github.com/internetarchive/Zeno/internal/pkg/veriflib"
	"github.com/internetarchive/Zeno/internal/pkg/verifseen"
	"pgregory.net/rapid"
)

const c08KeyHQCompare = "C08-hq-seencheck-compares-canonical-with-raw"

type c08HQCase struct {
	Pool       []verifgen.SeenLogical `json:"pool"`
	HQSeen     []int                  `json:"hq_has_seen"` // pool URLs crawl HQ has seen before the history starts
	EmptyAs204 bool                   `json:"empty_as_204"`
	Order      int                    `json:"answer_order,omitempty"` // 0 as asked, 1 reversed, 2 sorted
	FailAt     int                    `json:"fail_at"` // index of the op at which HQ answers 500 (-1 = never)
	Ops        []verifseen.Op         `json:"ops"`
}

func genC08HQ(t *rapid.T) c08HQCase {
	c := c08HQCase{Pool: verifgen.SeenPoolGen(t, "u", rapid.IntRange(1, 4).Draw(t, "npool")), FailAt: -1}
	for i := range c.Pool {
		if rapid.IntRange(0, 2).Draw(t, fmt.Sprintf("hqseen%d", i)) == 0 {
			c.HQSeen = append(c.HQSeen, i)
		}
	}
	c.EmptyAs204 = rapid.Bool().Draw(t, "204")
	c.Order = rapid.IntRange(0, 2).Draw(t, "order")
	n := rapid.IntRange(1, 5).Draw(t, "nops")
	for i := 0; i < n; i++ {
		c.Ops = append(c.Ops, verifseen.GenOp(t, fmt.Sprintf("op%d", i), c.Pool))
	}
	if rapid.IntRange(0, 7).Draw(t, "fail") == 0 {
		c.FailAt = rapid.IntRange(0, n-1).Draw(t, "failat")
	}
	return c
}

var c08HQNamespace atomic.Int64

type c08HQEvent struct {
	Op       int    `json:"op"`
	Raw      string `json:"raw"`
	Canon    string `json:"canonical"`
	Type     string `json:"type"`
	Asked    string `json:"asked_as,omitempty"`
	Returned bool   `json:"returned_not_seen"`
	Expected string `json:"expected"`
	Got      string `json:"got"`
}

func propC08HQ(t veriflib.TB, c c08HQCase) {
	const facet = "C08/hq"
	ns := fmt.Sprintf("h%d", c08HQNamespace.Add(1))
	fake := &verifseen.FakeHQ{Project: "verif", Seen: map[string]bool{}, EmptyAs204: c.EmptyAs204, Order: c.Order}
	for _, i := range c.HQSeen {
		l := c.Pool[i]
		fake.Seen[verifseen.IdentityOf(l.Text(ns, verifgen.SeenCanonicalSpelling(l)))] = true
	}
	prevHQ, prevLogger := globalHQ, logger
	defer func() { globalHQ, logger = prevHQ, prevLogger }()
	logger = log.NewFieldedLogger(&log.Fields{"component": "hq"})
	globalHQ = &hq{client: fake.Client()}

	tolerant := veriflib.FindingOpen(c08KeyHQCompare)
	var hist []c08HQEvent
	var classes []string
	skipped, kept, differs := 0, 0, 0
	for oi, op := range c.Ops {
		fake.FailStatus = 0
		if oi == c.FailAt {
			fake.FailStatus = 500
		}
		seed, nodes := verifseen.Build(c.Pool, op, ns, oi, true)
		before := len(fake.Exchanges())
		err := SeencheckItem(seed)
		exch := fake.Exchanges()[before:]
		classes = append(classes, "op:"+op.Kind)

		if op.Kind == "seed" {
			// crawl HQ is never asked about a seed: the store cannot have reported it
			ev := c08HQEvent{Op: oi, Raw: nodes[0].Text, Type: "seed", Expected: "fresh", Got: verifseen.Outcome(nodes[0].Item)}
			hist = append(hist, ev)
			if len(exch) != 0 || ev.Got != "fresh" {
				veriflib.Fail(t, "C08", facet, c, hist, "op %d: the seed %s alone: HQ exchanges %d, status %s (HQ is not to be asked and the seed must stay fresh)", oi, nodes[0].Text, len(exch), ev.Got)
			}
			classes = append(classes, "outcome:seed-not-asked")
			continue
		}
		if len(exch) != 1 {
			veriflib.Fail(t, "C08", facet, c, hist, "op %d (%s): expected exactly one seencheck request to HQ, saw %d (err %v)", oi, op.Kind, len(exch), err)
		}
		ex := exch[0]
		if ex.Status >= 300 {
			// HQ did not answer: it reported nothing as seen
			if err == nil {
				veriflib.Fail(t, "C08", facet, c, hist, "op %d: HQ answered %d but SeencheckItem returned no error", oi, ex.Status)
			}
			for _, n := range nodes {
				ev := c08HQEvent{Op: oi, Raw: n.Text, Type: n.Type, Expected: "fresh", Got: verifseen.Outcome(n.Item)}
				hist = append(hist, ev)
				if ev.Got != "fresh" {
					veriflib.Fail(t, "C08", facet, c, hist, "op %d: HQ answered %d (reported nothing), yet %s came back %s", oi, ex.Status, n.Text, ev.Got)
				}
			}
			classes = append(classes, "outcome:hq-error")
			continue
		}
		if err != nil {
			veriflib.Fail(t, "C08", facet, c, hist, "op %d: SeencheckItem returned %v on HTTP %d", oi, err, ex.Status)
		}
		if len(ex.Asked) != len(nodes) {
			veriflib.Fail(t, "C08", facet, c, hist, "op %d (%s): %d fresh working-depth nodes but HQ was asked about %d URLs", oi, op.Kind, len(nodes), len(ex.Asked))
		}
		returned := map[string]bool{}
		for _, v := range ex.Answered {
			returned[v] = true
		}
		for i, n := range nodes {
			canon := n.Item.GetURL().String()
			asked := ex.Asked[i]
			ev := c08HQEvent{Op: oi, Raw: n.Text, Canon: canon, Type: n.Type, Asked: asked.Value, Returned: returned[asked.Value], Got: verifseen.Outcome(n.Item)}
			// HQ must have been asked about this node's URL (either spelling of it) and with the right type
			if verifseen.IdentityOf(asked.Value) != verifseen.IdentityOf(n.Text) || asked.Type != n.Type {
				hist = append(hist, ev)
				veriflib.Fail(t, "C08", facet, c, hist, "op %d: node %d is %s (%s) but HQ was asked about %q (%s)", oi, i, n.Text, n.Type, asked.Value, asked.Type)
			}
			if canon != n.Text {
				differs++
				classes = append(classes, "canonical-differs-from-raw")
			}
			if ev.Returned {
				ev.Expected = "fresh"
				hist = append(hist, ev)
				if ev.Got != "fresh" {
					if tolerant && canon != n.Text && ev.Got == "seen" {
						veriflib.Excluded(facet, "open finding "+c08KeyHQCompare+": returned URL whose canonical string differs from the raw text sent")
						classes = append(classes, "outcome:excluded-open-finding")
						continue
					}
					veriflib.Fail(t, "C08", facet, c, hist,
						"C08 HQ returned-but-skipped: op %d (%s): HQ was asked about %q and returned it (= not seen), but the node came back %s (its canonical string is %q): skipped as seen although the store did not report it",
						oi, op.Kind, asked.Value, ev.Got, canon)
				}
				kept++
				classes = append(classes, "outcome:returned-kept")
			} else {
				ev.Expected = "seen"
				hist = append(hist, ev)
				if ev.Got != "seen" {
					veriflib.Fail(t, "C08", facet, c, hist,
						"op %d (%s): HQ was asked about %q and did not return it (= seen before), but the node came back %s: a seen URL would be fetched again",
						oi, op.Kind, asked.Value, ev.Got)
				}
				skipped++
				classes = append(classes, "outcome:not-returned-skipped")
			}
		}
		if len(ex.Answered) == 0 {
			classes = append(classes, fmt.Sprintf("empty-answer:%d", ex.Status))
		}
	}
	veriflib.Record(facet, veriflib.JSON(c), skipped >= 1 && kept >= 1, classes, func() any {
		return map[string]any{"case": c, "history": hist}
	})
}

func TestVerif_C08_HQ(t *testing.T) {
	defer veriflib.Flush()
	var rc c08HQCase
	if veriflib.ReplayCase("C08/hq", &rc) {
		propC08HQ(t, rc)
		return
	} else if veriflib.Replaying() {
		t.Skip()
	}
	rapid.Check(t, func(t *rapid.T) {
		c := genC08HQ(t)
		veriflib.Guard("C08", "C08/hq", c, func() { propC08HQ(t, c) })
	})
}

// TestVerifKF_C08_HQCompare is the strict reproduction of the open finding: one page with one asset whose query string is
// not spelt the way URL.String() spells it (a value-less cache-buster key, as in <link href="/style.css?12345">: Raw is
// https://…/style.css?12345, String() is …?12345=). HQ has never seen it and says so; the asset must stay fresh.
func TestVerifKF_C08_HQCompare(t *testing.T) {
	defer veriflib.Flush()
	pool := []verifgen.SeenLogical{
		{Scheme: "https", Host: "example.com", Path: "/"},
		{Scheme: "https", Host: "example.com", Path: "/style.css", Pairs: []verifgen.SeenPair{{K: "12345", V: ""}}},
	}
	c := c08HQCase{Pool: pool, FailAt: -1, Ops: []verifseen.Op{{Kind: "assets", Anc: []verifseen.Use{{L: 0}}, Leaves: []verifseen.Use{{L: 1, Query: "12345"}}}}}
	propC08HQ(t, c)
}
