//go:build go1.25

package hq

// C15 (crawl-HQ side) — outlinks and finish acks reach the queue intact, despite queue errors.
//
// The real producer(), finisher() and consumer() goroutines of this package run inside a testing/synctest bubble
// around a gocrawlhq.Client whose HTTP transport is an in-memory fake crawl HQ (no sockets, no websocket). The 5 s
// batch tickers, the 5 s client timeout, the 1..5 s back-off sleeps and the 250 ms feed polling all run on the
// virtual clock. The fake HQ answers every call according to a generated fault schedule (ok / slow / 5xx /
// connection reset / timeout / answer lost after the server processed the call).
//
// The harness plays the rest of the pipeline exactly as the finisher stage does: outlink items are pushed on the
// produce channel; seeds that the real consumer inserts into the real reactor are read from the reactor output,
// marked finished in the reactor and pushed on the finish channel. So one generated outlink travels
//     produce channel -> Add -> HQ row -> Get -> consumer -> reactor -> finish channel -> Delete -> row gone
// and the oracle (reference state of the fake server + what the harness pushed) is evaluated at quiescence while
// everything is still running.

import (
	"bytes"
	"context"
	"encoding/json"
	"errors"
	"fmt"
	"io"
	"net"
	"net/http"
	"net/url"
	"path"
	"sort"
	"strconv"
	"strings"
	"sync"
	"syscall"
	"testing"
	"testing/synctest"
	"time"
	"unicode/utf8"

	"github.com/internetarchive/Zeno/internal/pkg/log"
	"github.com/internetarchive/Zeno/internal/pkg/reactor"
	"github.com/internetarchive/Zeno/internal/pkg/stats"
	"github.com/internetarchive/Zeno/internal/pkg/verifcfg"
	"github.com/internetarchive/Zeno/internal/pkg/verifgen"
	"github.com/internetarchive/Zeno/internal/pkg/veriflib"
	"github.com/internetarchive/Zeno/pkg/models"
	"github.com/internetarchive/gocrawlhq"
	"pgregory.net/rapid"
)

type c15Out struct {
	Raw  string `json:"raw"`
	Via  string `json:"via"`
	Hops int    `json:"hops"`
}

type c15Ev struct {
	Kind string `json:"kind"`           // out: push N outlinks back to back | fin: push N finished seeds that did not come from HQ | adv: let Ms of virtual time pass
	N    int    `json:"n,omitempty"`    // out / fin
	Ms   int    `json:"ms,omitempty"`   // adv
	Kids int    `json:"kids,omitempty"` // fin: children hanging below each finished seed
}

type c15HQCase struct {
	Workers   int      `json:"workers"` // --workers: finish batch size, number of senders (workers/10, min 1), reactor tokens, channel sizes
	Batch     int      `json:"batch"`   // --hq-batch-size: produce batch size, feed size
	Outs      []c15Out `json:"outs"`
	Events    []c15Ev  `json:"events"`
	AddFaults []string `json:"add_faults"` // consumed one per POST /urls; afterwards every call is answered normally
	DelFaults []string `json:"del_faults"` // … per DELETE /urls
	GetFaults []string `json:"get_faults"` // … per GET /urls
}

const c15Project = "verif"

// ---------------------------------------------------------------------------------------------
// the fake crawl HQ (reference server state)

type c15Row struct {
	id, value, via, path string
	status               string // fresh | claimed | deleted
	handedOut            bool   // a Get answer carrying it was delivered
}

type c15FakeHQ struct {
	mu     sync.Mutex
	start  time.Time
	faults map[string][]string
	allOK  bool // clean-up mode: no more faults

	rows     []*c15Row
	byID     map[string]*c15Row
	accepted []gocrawlhq.URL // every entry of every Add the server processed
	acked    map[string]int  // id -> number of Deletes containing it that were answered 204
	failed   map[string]int  // endpoint -> calls the client saw failing
	okCalls  map[string]int
	classes  map[string]bool
	proto    string // first protocol violation of the client
	history  []string
	dupBatch bool
	inflight int       // calls being served (empty feed polls excluded)
	lastBusy time.Time // last moment a call other than an empty feed poll started or ended
	lastAdd  map[string]int // JSON of a processed Add payload -> times processed
}

func c15NewFake(c c15HQCase) *c15FakeHQ {
	return &c15FakeHQ{
		start:   time.Now(),
		faults:  map[string][]string{"add": append([]string(nil), c.AddFaults...), "delete": append([]string(nil), c.DelFaults...), "get": append([]string(nil), c.GetFaults...)},
		byID:    map[string]*c15Row{},
		acked:   map[string]int{},
		failed:  map[string]int{},
		okCalls: map[string]int{},
		classes: map[string]bool{},
		lastAdd: map[string]int{},
	}
}

func (f *c15FakeHQ) say(format string, a ...any) {
	f.history = append(f.history, fmt.Sprintf("t=%.3fs ", time.Since(f.start).Seconds())+fmt.Sprintf(format, a...))
}

func (f *c15FakeHQ) protoErr(format string, a ...any) {
	if f.proto == "" {
		f.proto = fmt.Sprintf(format, a...)
	}
}

func c15Resp(req *http.Request, status int, body []byte) *http.Response {
	return &http.Response{
		Status: strconv.Itoa(status) + " " + http.StatusText(status), StatusCode: status, Proto: "HTTP/1.1", ProtoMajor: 1, ProtoMinor: 1,
		Header: http.Header{"Content-Type": []string{"application/json"}}, Body: io.NopCloser(bytes.NewReader(body)), ContentLength: int64(len(body)), Request: req,
	}
}

// c15AwaitCancel blocks until the client gives up on the request (its 5 s timeout); the one-hour arm only keeps a
// client without any timeout from parking the bubble for ever.
func c15AwaitCancel(req *http.Request) error {
	select {
	case <-req.Context().Done():
		return req.Context().Err()
	case <-req.Cancel:
		return errors.New("net/http: request canceled")
	case <-time.After(time.Hour):
		return errors.New("fake HQ: the client never gave up on a request that is not answered")
	}
}

func (f *c15FakeHQ) RoundTrip(req *http.Request) (*http.Response, error) {
	var body []byte
	if req.Body != nil {
		body, _ = io.ReadAll(req.Body)
		req.Body.Close()
	}
	time.Sleep(time.Millisecond) // network latency: no call completes in zero time

	base := "/api/projects/" + c15Project
	var ep string
	switch {
	case req.URL.Path == base+"/urls" && req.Method == http.MethodPost:
		ep = "add"
	case req.URL.Path == base+"/urls" && req.Method == http.MethodDelete:
		ep = "delete"
	case req.URL.Path == base+"/urls" && req.Method == http.MethodGet:
		ep = "get"
	case strings.HasPrefix(req.URL.Path, base+"/reset/") && req.Method == http.MethodPost:
		f.mu.Lock()
		id := strings.TrimPrefix(req.URL.Path, base+"/reset/")
		if r := f.byID[id]; r != nil && r.status == "claimed" {
			r.status = "fresh"
		}
		f.say("POST reset/%s -> 200", id)
		f.mu.Unlock()
		return c15Resp(req, 200, []byte(`{}`)), nil
	default:
		f.mu.Lock()
		f.protoErr("unexpected request %s %s", req.Method, req.URL.String())
		f.mu.Unlock()
		return c15Resp(req, 404, []byte(`{"error":"not found"}`)), nil
	}

	f.mu.Lock()
	if req.Header.Get("X-Auth-Key") != "key" || req.Header.Get("X-Auth-Secret") != "secret" {
		f.protoErr("%s %s without the project credentials", req.Method, req.URL.Path)
	}
	fault := "ok"
	if !f.allOK && len(f.faults[ep]) > 0 {
		fault = f.faults[ep][0]
		f.faults[ep] = f.faults[ep][1:]
	}
	busy := ep != "get" || fault != "ok"
	if busy {
		f.inflight++
		f.lastBusy = time.Now()
	}
	f.mu.Unlock()
	defer func() {
		if busy {
			f.mu.Lock()
			f.inflight--
			f.lastBusy = time.Now()
			f.mu.Unlock()
		}
	}()

	if fault == "slow" {
		select {
		case <-req.Context().Done():
			return nil, req.Context().Err()
		case <-time.After(3 * time.Second):
		}
	}

	f.mu.Lock()
	defer f.mu.Unlock()
	fail := func(what string) {
		f.failed[ep]++
		f.classes[ep+":"+what] = true
	}
	switch fault {
	case "500", "502", "503", "504":
		code, _ := strconv.Atoi(fault)
		f.say("%s %s (%d bytes) -> %d", req.Method, ep, len(body), code)
		fail("5xx")
		return c15Resp(req, code, []byte(`{"error":"try again"}`)), nil
	case "reset":
		f.say("%s %s -> connection reset", req.Method, ep)
		fail("reset")
		return nil, &net.OpError{Op: "read", Net: "tcp", Err: syscall.ECONNRESET}
	case "timeout":
		f.say("%s %s -> no answer (not processed)", req.Method, ep)
		fail("timeout")
		f.mu.Unlock()
		err := c15AwaitCancel(req)
		f.mu.Lock()
		return nil, err
	}

	// the server processes the call
	var resp *http.Response
	switch ep {
	case "add":
		var p gocrawlhq.AddPayload
		if err := json.Unmarshal(body, &p); err != nil {
			f.protoErr("POST urls: body is not an AddPayload: %v", err)
			return c15Resp(req, 400, nil), nil
		}
		if len(p.URLs) == 0 {
			f.protoErr("POST urls with an empty batch")
		}
		f.lastAdd[string(body)]++
		if f.lastAdd[string(body)] > 1 {
			f.dupBatch = true
		}
		for _, u := range p.URLs {
			f.accepted = append(f.accepted, u)
			r := &c15Row{id: fmt.Sprintf("seed-%04d", len(f.rows)+1), value: u.Value, via: u.Via, path: u.Path, status: "fresh"}
			f.rows = append(f.rows, r)
			f.byID[r.id] = r
		}
		f.say("POST add n=%d -> 201%s", len(p.URLs), map[bool]string{true: " (answer lost)", false: ""}[fault == "lost"])
		resp = c15Resp(req, 201, []byte(`{}`))
	case "delete":
		var p gocrawlhq.DeletePayload
		if err := json.Unmarshal(body, &p); err != nil {
			f.protoErr("DELETE urls: body is not a DeletePayload: %v", err)
			return c15Resp(req, 400, nil), nil
		}
		if len(p.URLs) == 0 {
			f.protoErr("DELETE urls with an empty batch")
		}
		var ids []string
		for _, u := range p.URLs {
			ids = append(ids, u.ID)
			if r := f.byID[u.ID]; r != nil {
				r.status = "deleted"
			}
			if fault != "lost" {
				f.acked[u.ID]++
			}
		}
		f.say("DELETE n=%d localCrawls=%d ids=%s -> 204%s", len(p.URLs), p.LocalCrawls, strings.Join(ids, ","), map[bool]string{true: " (answer lost)", false: ""}[fault == "lost"])
		resp = c15Resp(req, 204, nil)
	case "get":
		size, err := strconv.Atoi(req.URL.Query().Get("size"))
		if err != nil || size < 1 {
			f.protoErr("GET urls with size=%q", req.URL.Query().Get("size"))
			size = 1
		}
		var out []gocrawlhq.URL
		for _, r := range f.rows {
			if len(out) == size {
				break
			}
			if r.status == "fresh" {
				r.status = "claimed"
				r.handedOut = true
				out = append(out, gocrawlhq.URL{ID: r.id, Value: r.value, Via: r.via, Path: r.path, Type: "seed", Status: "CLAIMED", Crawler: req.Header.Get("X-Identifier")})
			}
		}
		if len(out) == 0 {
			resp = c15Resp(req, 204, nil)
		} else {
			b, _ := json.Marshal(out)
			f.lastBusy = time.Now()
			f.say("GET size=%d -> 200 n=%d", size, len(out))
			resp = c15Resp(req, 200, b)
		}
	}
	if fault == "lost" {
		fail("answer-lost")
		f.mu.Unlock()
		err := c15AwaitCancel(req)
		f.mu.Lock()
		return nil, err
	}
	f.okCalls[ep]++
	if fault == "slow" {
		f.classes[ep+":slow-ok"] = true
	}
	return resp, nil
}

// c15Client builds the client exactly as gocrawlhq.Init does for hq.Start (timeout 5), minus the websocket.
func c15Client(rt http.RoundTripper) *gocrawlhq.Client {
	c := &gocrawlhq.Client{Key: "key", Secret: "secret", Project: c15Project, HQAddress: "http://hq.invalid", Identifier: "verif-" + c15Project}
	c.HTTPClient = &http.Client{Timeout: 5 * time.Second, Transport: rt}
	mk := func(parts ...string) *url.URL {
		u, _ := url.Parse(c.HQAddress)
		u.Path = path.Join(append([]string{u.Path, "api", "projects", c.Project}, parts...)...)
		return u
	}
	c.URLsEndpoint, c.SeencheckEndpoint, c.ResetEndpoint, c.ProjectEndpoint = mk("urls"), mk("seencheck"), mk("reset"), mk()
	return c
}

// ---------------------------------------------------------------------------------------------

type c15Seen struct {
	raw, via string
	hops     int
	n        int
}

func c15Short(s string) string { return strconv.QuoteToASCII(s) }

// c15Bytes expands the ⟦hh⟧ notation of generated texts into the raw byte 0xhh (case data stays valid JSON, so replay
// files are exact even for texts that are not valid UTF-8).
func c15Bytes(s string) string {
	for {
		i := strings.Index(s, "⟦")
		if i < 0 || len(s) < i+len("⟦hh⟧") || !strings.HasPrefix(s[i+len("⟦")+2:], "⟧") {
			return s
		}
		b, err := strconv.ParseUint(s[i+len("⟦"):i+len("⟦")+2], 16, 8)
		if err != nil {
			return s
		}
		s = s[:i] + string([]byte{byte(b)}) + s[i+len("⟦hh⟧"):]
	}
}

// c15PctInvalid percent-encodes the bytes of s that are not part of a valid UTF-8 sequence. JSON cannot carry such
// bytes, so this is the one lossless spelling of such a URL text the HQ protocol allows; the oracle accepts it as
// "unchanged" (it is the same URL) next to the byte-identical text.
func c15PctInvalid(s string) string {
	var sb strings.Builder
	for i := 0; i < len(s); {
		r, n := utf8.DecodeRuneInString(s[i:])
		if r == utf8.RuneError && n == 1 {
			fmt.Fprintf(&sb, "%%%02X", s[i])
		} else {
			sb.WriteString(s[i : i+n])
		}
		i += n
	}
	return sb.String()
}

const c15KFNonUTF8 = "C15-hq-non-utf8-outlink-mangled"

// c15RunHQ executes one case inside a bubble.
func c15RunHQ(c c15HQCase, hist *[]string) (viol string, nontrivial bool, classes []string) {
	cfg := verifcfg.Quiet()
	cfg.WorkersCount, cfg.HQBatchSize, cfg.HQBatchConcurrency = c.Workers, c.Batch, 1
	cfg.HQProject, cfg.HQKey, cfg.HQSecret, cfg.HQAddress = c15Project, "key", "secret", "http://hq.invalid"

	// what controler.startPipeline does around hq.Start
	reactorOut := make(chan *models.Item, c.Workers)
	if err := reactor.Start(c.Workers, reactorOut); err != nil {
		return "reactor.Start: " + err.Error(), false, nil
	}
	finishCh := make(chan *models.Item, c.Workers)
	produceCh := make(chan *models.Item, c.Workers)

	// what hq.Start does, with the fake transport and without the websocket goroutine
	fake := c15NewFake(c)
	log.Start()
	logger = log.NewFieldedLogger(&log.Fields{"component": "hq"})
	stats.Init()
	ctx, cancel := context.WithCancel(context.Background())
	globalHQ = &hq{ctx: ctx, cancel: cancel, finishCh: finishCh, produceCh: produceCh, client: c15Client(fake)}
	globalHQ.wg.Add(3)
	go consumer()
	go producer()
	go finisher()

	var mu sync.Mutex
	seen := map[string]*c15Seen{} // seeds delivered by the reactor, by id
	pushedFinish := map[string]bool{}
	stopPipe := make(chan struct{})
	pipeDone := make(chan struct{})
	pipeErr := ""
	// the rest of the pipeline: every seed leaving the reactor is finished at once, the way the finisher stage does
	go func() {
		defer close(pipeDone)
		for {
			select {
			case <-stopPipe:
				return
			case it := <-reactorOut:
				mu.Lock()
				s := seen[it.GetID()]
				if s == nil {
					s = &c15Seen{raw: it.GetURL().Raw, via: it.GetSeedVia(), hops: it.GetURL().GetHops()}
					seen[it.GetID()] = s
				}
				s.n++
				mu.Unlock()
				if err := reactor.MarkAsFinished(it); err != nil {
					mu.Lock()
					pipeErr = fmt.Sprintf("reactor.MarkAsFinished(%s): %v", it.GetID(), err)
					mu.Unlock()
				}
				select {
				case finishCh <- it:
					mu.Lock()
					pushedFinish[it.GetID()] = true
					mu.Unlock()
				case <-stopPipe:
					return
				}
			}
		}
	}()

	defer func() {
		// leave the bubble cleanly whatever the verdict: no more faults, let deliveries drain, then the real stop
		// sequence (reactor frozen, hq stopped, reactor stopped). A consumer parked on the finish channel at that
		// moment is outside C15 ("while the crawler keeps running"): the finish channel is drained for it.
		fake.mu.Lock()
		fake.allOK = true
		fake.mu.Unlock()
		time.Sleep(30 * time.Second)
		reactor.Freeze()
		stopped := make(chan struct{})
		go func() { Stop(); close(stopped) }()
		for done := false; !done; {
			select {
			case <-stopped:
				done = true
			case <-finishCh:
			case <-time.After(6 * time.Hour):
				panic("C15 harness: hq.Stop() did not return within six virtual hours with a healthy HQ")
			}
		}
		close(stopPipe)
		<-pipeDone
		reactor.Stop()
		globalHQ = nil
		synctest.Wait()
		fake.mu.Lock()
		*hist = append(*hist, fake.history...)
		fake.mu.Unlock()
	}()

	say := func(format string, a ...any) {
		fake.mu.Lock()
		fake.say(format, a...)
		fake.mu.Unlock()
	}

	nextOut, nextFin := 0, 0
	var produced []c15Out
	var foreign []string
	pushOut := func(n int) string {
		for k := 0; k < n && nextOut < len(c.Outs); k++ {
			o := c.Outs[nextOut]
			nextOut++
			o.Raw, o.Via = c15Bytes(o.Raw), c15Bytes(o.Via)
			if !utf8.ValidString(o.Raw) && veriflib.FindingOpen(c15KFNonUTF8) {
				veriflib.Excluded("C15/hq", "outlink text with bytes that are not valid UTF-8 (open finding "+c15KFNonUTF8+")")
				continue
			}
			it := models.NewItem(fmt.Sprintf("out-%d", nextOut), &models.URL{Raw: o.Raw, Hops: o.Hops}, o.Via)
			select {
			case produceCh <- it:
				produced = append(produced, o)
				say("produce %s via=%s hops=%d", c15Short(o.Raw), c15Short(o.Via), o.Hops)
			case <-time.After(time.Hour):
				return fmt.Sprintf("the produce channel accepted nothing for a virtual hour (outlink %s)", c15Short(o.Raw))
			}
		}
		return ""
	}
	pushFin := func(n, kids int) string {
		for k := 0; k < n; k++ {
			nextFin++
			id := fmt.Sprintf("local-%d", nextFin)
			u := &models.URL{Raw: fmt.Sprintf("http://local.example/%d", nextFin)}
			if err := u.Parse(); err != nil {
				return "harness: " + err.Error()
			}
			it := models.NewItem(id, u, "")
			it.SetSource(models.ItemSourceQueue)
			for j := 0; j < kids; j++ {
				ch := models.NewItem(fmt.Sprintf("%s-c%d", id, j), &models.URL{Raw: fmt.Sprintf("http://local.example/%d/%d.png", nextFin, j)}, "")
				if err := it.AddChild(ch, models.ItemGotChildren); err != nil {
					return "harness: " + err.Error()
				}
			}
			select {
			case finishCh <- it:
				foreign = append(foreign, id)
				say("finish %s", id)
			case <-time.After(time.Hour):
				return fmt.Sprintf("the finish channel accepted nothing for a virtual hour (seed %s)", id)
			}
		}
		return ""
	}

	for _, ev := range c.Events {
		switch ev.Kind {
		case "out":
			if v := pushOut(ev.N); v != "" {
				return v, false, nil
			}
		case "fin":
			if v := pushFin(ev.N, ev.Kids); v != "" {
				return v, false, nil
			}
		case "adv":
			time.Sleep(time.Duration(ev.Ms) * time.Millisecond)
		}
	}
	if v := pushOut(len(c.Outs)); v != "" {
		return v, false, nil
	}

	// ---- oracle, evaluated with everything still running
	type key struct {
		raw, via string
		hops     int
	}
	want := map[key]int{}
	var wantKeys []key
	for _, o := range produced {
		k := key{o.Raw, o.Via, o.Hops}
		if want[k] == 0 {
			wantKeys = append(wantKeys, k)
		}
		want[k]++
	}
	verdict := func() string {
		fake.mu.Lock()
		defer fake.mu.Unlock()
		mu.Lock()
		defer mu.Unlock()
		if fake.proto != "" {
			return "the client broke the HQ protocol: " + fake.proto
		}
		if pipeErr != "" {
			return pipeErr
		}
		// (1) every produced outlink was accepted by HQ with its text, via and hop count
		got := map[key]int{}
		for _, u := range fake.accepted {
			if u.Path == strings.Repeat("L", len(u.Path)) {
				got[key{u.Value, u.Via, len(u.Path)}]++
			}
		}
		for _, k := range wantKeys {
			if !utf8.ValidString(k.raw) {
				got[k] += got[key{c15PctInvalid(k.raw), k.via, k.hops}]
			}
			if got[k] < want[k] {
				var near []string
				for _, u := range fake.accepted {
					if u.Value == k.raw || u.Via == k.via && k.via != "" {
						near = append(near, fmt.Sprintf("{value=%s via=%s path=%q}", c15Short(u.Value), c15Short(u.Via), u.Path))
					}
					if len(near) == 4 {
						break
					}
				}
				return fmt.Sprintf("outlink {raw=%s via=%s hops=%d} was pushed %d time(s) on the produce channel but crawl HQ accepted it %d time(s) as {value=raw, via, path=%q} (of %d accepted entries; related entries: %s)",
					c15Short(k.raw), c15Short(k.via), k.hops, want[k], got[k], strings.Repeat("L", k.hops), len(fake.accepted), strings.Join(near, " "))
			}
		}
		// (2) round trip: every row of the feed comes back as a seed with the same text, via and hops (or, when the
		// text is not a request URI, goes straight to the finish channel); and is acknowledged once finished
		for _, r := range fake.rows {
			if !r.handedOut {
				return fmt.Sprintf("row %s {value=%s} is still waiting in the feed: the consumer never fetched it", r.id, c15Short(r.value))
			}
			s := seen[r.id]
			_, perr := url.ParseRequestURI(r.value)
			if s == nil && perr == nil {
				return fmt.Sprintf("row %s {value=%s via=%s path=%q} was handed to the crawler but no seed with that id reached the reactor output", r.id, c15Short(r.value), c15Short(r.via), r.path)
			}
			if s != nil {
				if s.n > 1 {
					return fmt.Sprintf("seed %s left the reactor %d times", r.id, s.n)
				}
				if s.raw != r.value || s.via != r.via {
					return fmt.Sprintf("row %s {value=%s via=%s} came back as seed {raw=%s via=%s}", r.id, c15Short(r.value), c15Short(r.via), c15Short(s.raw), c15Short(s.via))
				}
				if r.path == strings.Repeat("L", len(r.path)) && s.hops != len(r.path) {
					return fmt.Sprintf("row %s {value=%s path=%q} (an outlink produced with hops=%d) came back as a seed with hops=%d", r.id, c15Short(r.value), r.path, len(r.path), s.hops)
				}
			}
			if fake.acked[r.id] == 0 {
				return fmt.Sprintf("seed %s {value=%s} was finished (pushed on the finish channel: %v) but crawl HQ never answered 204 to a delete carrying its id (row status %s)", r.id, c15Short(r.value), pushedFinish[r.id], r.status)
			}
		}
		for id := range seen {
			if fake.byID[id] == nil {
				return fmt.Sprintf("seed %s reached the reactor but crawl HQ never handed out that id", id)
			}
		}
		// (3) finished seeds that did not come from HQ are acknowledged by id too
		for _, id := range foreign {
			if fake.acked[id] == 0 {
				return fmt.Sprintf("seed %s was pushed on the finish channel but crawl HQ never answered 204 to a delete carrying its id", id)
			}
		}
		return ""
	}

	// Transient faults are finite. Quiescence = the oracle holds and crawl HQ has seen nothing but empty feed polls
	// for 12 virtual seconds (longer than a 5 s batch ticker, the 5 s client timeout or the 5 s maximum back-off, so
	// no sender can still be between two attempts). Waited for at most 30 virtual minutes after the last push — far
	// beyond faults x (5 s timeout + 5 s back-off) + batch tickers.
	idle := func() bool {
		fake.mu.Lock()
		defer fake.mu.Unlock()
		return fake.inflight == 0 && time.Since(fake.lastBusy) >= 12*time.Second
	}
	v := verdict()
	for waited := time.Duration(0); (v != "" || !idle()) && waited < 30*time.Minute; waited += 3 * time.Second {
		time.Sleep(3 * time.Second)
		v = verdict()
	}
	if v != "" {
		return "30 virtual minutes after the last push, with the crawler still running: " + v, false, nil
	}
	if !idle() {
		return "crawl HQ is still receiving calls 30 virtual minutes after the last push although every delivery was accepted long ago", false, nil
	}

	fake.mu.Lock()
	defer fake.mu.Unlock()
	retried := fake.failed["add"]+fake.failed["delete"] > 0
	cl := map[string]bool{}
	for k := range fake.classes {
		cl[k] = true
	}
	for _, h := range fake.history {
		switch {
		case strings.Contains(h, "POST add n="):
			var n int
			fmt.Sscanf(h[strings.Index(h, "n=")+2:], "%d", &n)
			cl[map[bool]string{true: "add:size-trigger", false: "add:timer-trigger"}[n >= c.Batch]] = true
			if n > c.Batch {
				return fmt.Sprintf("an Add carried %d URLs, batch size is %d", n, c.Batch), false, nil
			}
		case strings.Contains(h, "DELETE n="):
			var n int
			fmt.Sscanf(h[strings.Index(h, "n=")+2:], "%d", &n)
			cl[map[bool]string{true: "delete:size-trigger", false: "delete:timer-trigger"}[n >= c.Workers]] = true
		}
	}
	if fake.dupBatch {
		cl["add:whole-batch-duplicate"] = true
	}
	mu.Lock()
	if len(seen) > 0 {
		cl["roundtrip:seed-via-reactor"] = true
	}
	if len(seen) < len(fake.rows) {
		cl["roundtrip:unparsable-straight-to-finish"] = true
	}
	mu.Unlock()
	if fake.failed["get"] > 0 {
		cl["get:failed"] = true
	}
	senders := c.Workers / 10
	if senders < 1 {
		senders = 1
	}
	cl[fmt.Sprintf("senders:%d", senders)] = true
	if len(produced) == 0 && len(foreign) == 0 {
		cl["empty-run"] = true
	}
	for k := range cl {
		classes = append(classes, k)
	}
	sort.Strings(classes)
	return "", retried, classes
}

func propC15HQ(t veriflib.TB, outer *testing.T, c c15HQCase) {
	var viol string
	var nt bool
	var classes, hist []string
	veriflib.Bubble(outer, "C15", "C15/hq", c, func(st *testing.T) {
		viol, nt, classes = c15RunHQ(c, &hist)
	})
	if viol != "" {
		veriflib.Fail(t, "C15", "C15/hq", c, hist, "%s\nhistory: %s", viol, strings.Join(hist, " ; "))
	}
	key := veriflib.JSON([][]string{c.AddFaults, c.DelFaults, c.GetFaults})
	veriflib.Record("C15/hq", key, nt, classes, func() any {
		return map[string]any{"workers": c.Workers, "batch": c.Batch, "outlinks": len(c.Outs), "faults": key, "history": strings.Join(hist, " ; ")}
	})
}

// ---------------------------------------------------------------------------------------------
// generators

var c15Vias = []string{"", "http://example.com/", "https://www.example.org/a/b?x=1&y=2", "http://bücher.example/é", "http://a.b/p?q=%zz#f", "https://sub.domain.example.co.uk/index.html"}

func genC15Faults(t *rapid.T, ep string) []string {
	kinds := []string{"500", "502", "503", "504", "reset", "timeout"}
	if ep != "get" {
		// an answer lost after the server processed a Get would strand claimed rows inside HQ: HQ's problem, not the crawler's
		kinds = append(kinds, "lost")
	}
	var fs []string
	nseg := rapid.IntRange(0, 3).Draw(t, ep+"-segments")
	for s := 0; s < nseg; s++ {
		for k := rapid.IntRange(0, 3).Draw(t, ep+"-okrun"); k > 0; k-- {
			if rapid.IntRange(0, 4).Draw(t, ep+"-slow") == 0 {
				fs = append(fs, "slow")
			} else {
				fs = append(fs, "ok")
			}
		}
		burst := rapid.IntRange(1, 3).Draw(t, ep+"-burst")
		if rapid.IntRange(0, 3).Draw(t, ep+"-long") == 0 {
			burst = rapid.IntRange(4, 10).Draw(t, ep+"-burstlong")
		}
		mixed := rapid.Bool().Draw(t, ep+"-mixed")
		kind := kinds[rapid.IntRange(0, len(kinds)-1).Draw(t, ep+"-kind")]
		for b := 0; b < burst; b++ {
			if mixed {
				kind = kinds[rapid.IntRange(0, len(kinds)-1).Draw(t, ep+"-kind")]
			}
			fs = append(fs, kind)
		}
	}
	return fs
}

func genC15HQ(t *rapid.T) c15HQCase {
	c := c15HQCase{
		Workers: []int{1, 2, 3, 5, 9, 10, 19, 20, 30}[rapid.IntRange(0, 8).Draw(t, "workers")],
		Batch:   rapid.IntRange(1, 6).Draw(t, "batch"),
	}
	total := 0
	nev := rapid.IntRange(1, 10).Draw(t, "nev")
	for i := 0; i < nev; i++ {
		switch rapid.IntRange(0, 6).Draw(t, "evkind") {
		case 0, 1, 2:
			// fill levels below / at / above the batch size
			n := []int{1, c.Batch - 1, c.Batch, c.Batch + 1, 2*c.Batch + 1}[rapid.IntRange(0, 4).Draw(t, "fill")]
			if n < 1 {
				n = 1
			}
			total += n
			c.Events = append(c.Events, c15Ev{Kind: "out", N: n})
		case 3:
			n := []int{1, c.Workers - 1, c.Workers, c.Workers + 1}[rapid.IntRange(0, 3).Draw(t, "finfill")]
			if n < 1 {
				n = 1
			}
			if n > 12 {
				n = 12
			}
			c.Events = append(c.Events, c15Ev{Kind: "fin", N: n, Kids: rapid.IntRange(0, 3).Draw(t, "kids")})
		default:
			var ms int
			switch rapid.IntRange(0, 2).Draw(t, "dtclass") {
			case 0:
				ms = rapid.IntRange(0, 300).Draw(t, "ms")
			case 1:
				ms = rapid.IntRange(4800, 5200).Draw(t, "ms") // around the batch ticker
			default:
				ms = rapid.IntRange(300, 30000).Draw(t, "ms")
			}
			c.Events = append(c.Events, c15Ev{Kind: "adv", Ms: ms})
		}
	}
	if total > 40 {
		total = 40
	}
	var pool []string
	for i := 0; i < total; i++ {
		var raw string
		switch {
		case len(pool) > 0 && rapid.IntRange(0, 4).Draw(t, "collide") == 0:
			raw = pool[rapid.IntRange(0, len(pool)-1).Draw(t, "poolidx")] // the same link found twice
		case rapid.IntRange(0, 11).Draw(t, "latin1") == 0:
			// a link on a page that is not UTF-8: extractor.HTMLOutlinks hands over <a href="?q=caf\xe9"> as
			// http://host/page?q=caf\xe9 (net/url keeps query bytes as they are)
			raw = "http://" + verifgen.Host(t) + verifgen.Path(t, 2) + "?q=caf⟦e9⟧" + []string{"", "&r=⟦fc⟧ber", "⟦a0⟧"}[rapid.IntRange(0, 2).Draw(t, "l1tail")]
		case rapid.IntRange(0, 2).Draw(t, "plain") == 0:
			raw = "http://" + verifgen.Host(t) + verifgen.Path(t, 3) + verifgen.Query(t, 3)
		default:
			raw = verifgen.HostileURL(t)
		}
		pool = append(pool, raw)
		via := c15Vias[rapid.IntRange(0, len(c15Vias)-1).Draw(t, "via")]
		if rapid.IntRange(0, 5).Draw(t, "hostilevia") == 0 {
			via = verifgen.HostileURL(t)
		}
		c.Outs = append(c.Outs, c15Out{Raw: raw, Via: via, Hops: rapid.IntRange(0, 6).Draw(t, "hops")})
	}
	c.AddFaults = genC15Faults(t, "add")
	c.DelFaults = genC15Faults(t, "delete")
	c.GetFaults = genC15Faults(t, "get")
	return c
}

func TestVerif_C15_HQ(t *testing.T) {
	defer veriflib.Flush()
	verifcfg.Quiet()
	var rc c15HQCase
	if veriflib.ReplayCase("C15/hq", &rc) {
		propC15HQ(t, t, rc)
		return
	} else if veriflib.Replaying() {
		t.Skip()
	}
	rapid.Check(t, func(rt *rapid.T) {
		c := genC15HQ(rt)
		veriflib.Guard("C15", "C15/hq", c, func() { propC15HQ(rt, t, c) })
	})
}

// Strict reproduction of the open finding: one outlink taken from a Latin-1 page, healthy HQ.
func TestVerifKF_C15_NonUTF8Outlink(t *testing.T) {
	verifcfg.Quiet()
	c := c15HQCase{Workers: 1, Batch: 1, Outs: []c15Out{{Raw: "http://site.example/dir/page.html?q=caf⟦e9⟧", Via: "http://site.example/dir/page.html", Hops: 1}}, Events: []c15Ev{{Kind: "out", N: 1}}}
	propC15HQ(t, t, c)
}

// ---------------------------------------------------------------------------------------------
// facet: hop count <-> HQ path, exhaustively for hops 0..255

func TestVerif_C15_HopsPath(t *testing.T) {
	defer veriflib.Flush()
	if veriflib.Replaying() {
		t.Skip()
	}
	for h := 0; h <= 255; h++ {
		p := hopsToPath(h)
		if strings.Count(p, "L") != h || len(p) != h {
			veriflib.Fail(t, "C15", "C15/hops-path", h, nil, "hopsToPath(%d) = %q: crawl HQ paths carry one L per hop", h, p)
		}
		if back := pathToHops(p); back != h {
			veriflib.Fail(t, "C15", "C15/hops-path", h, nil, "pathToHops(hopsToPath(%d)) = %d", h, back)
		}
		veriflib.Record("C15/hops-path", strconv.Itoa(h), true, []string{"hops:" + map[bool]string{true: "0-6", false: ">6"}[h <= 6]}, nil)
	}
	veriflib.SetExhaustive("C15/hops-path")
}
