//go:build verif

package hq

import (
	"github.com/internetarchive/Zeno/internal/pkg/log"
	"github.com/internetarchive/gocrawlhq"
)

// VerifC08SetClient installs a crawl-HQ client for SeencheckItem without starting the HQ goroutines (overlay-only, not
// in /repo): harness packages that run preprocess() with UseHQ=true hand in a client whose HTTP transport is an
// in-memory fake HQ. The returned function restores the previous state.
func VerifC08SetClient(c *gocrawlhq.Client) (restore func()) {
	prevHQ, prevLogger := globalHQ, logger
	if logger == nil {
		logger = log.NewFieldedLogger(&log.Fields{"component": "hq"})
	}
	globalHQ = &hq{client: c}
	return func() { globalHQ, logger = prevHQ, prevLogger }
}
