package verifref

// Independent WARC reader for the /verif oracles (C02, C16, C03/C04 later). It does NOT use the warc library:
// a .warc.gz file is a concatenation of gzip members, one WARC record each. The reader splits the file into members
// (each must decompress on its own), parses the WARC header block, checks Content-Length against the block, parses the
// HTTP message of request/response/revisit records with net/http (not the code under test), de-chunks the payload
// (content-encoding is left alone) and compares its SHA-1 with WARC-Payload-Digest.
//
// A truncated LAST member (file still being appended, or process killed) is tolerated and reported through
// WARCFile.TruncatedTail; anything else that does not parse is an error ("corrupt middle").

import (
	"bufio"
	"bytes"
	"compress/gzip"
	"crypto/sha1"
	"encoding/base32"
	"errors"
	"fmt"
	"io"
	"net/http"
	"os"
	"strconv"
	"strings"
)

// WARCRecord is one parsed record.
type WARCRecord struct {
	File       string            `json:"file"`
	Offset     int64             `json:"offset"` // offset of the gzip member in the file
	Version    string            `json:"version"`
	Type       string            `json:"type"`
	TargetURI  string            `json:"target_uri,omitempty"`
	RecordID   string            `json:"record_id,omitempty"`
	RefersTo   string            `json:"refers_to,omitempty"`
	Header     map[string]string `json:"-"`
	BlockLen   int               `json:"block_len"`
	HTTPStatus int               `json:"http_status,omitempty"`  // response / revisit
	HTTPMethod string            `json:"http_method,omitempty"`  // request
	HTTPTarget string            `json:"http_target,omitempty"`  // request-target of a request record
	HTTPHost   string            `json:"http_host,omitempty"`    // Host header of a request record
	HTTPHeader http.Header       `json:"-"`                      // headers of the embedded HTTP message
	PayloadLen int64             `json:"payload_len"`            // de-chunked, still content-encoded entity
	PayloadSHA string            `json:"payload_sha1,omitempty"` // base32 SHA-1 of that entity
	DigestHdr  string            `json:"digest_hdr,omitempty"`   // WARC-Payload-Digest without the "sha1:" prefix
	Truncated  string            `json:"warc_truncated,omitempty"`
}

// WARCFile is the result of reading one file (or the new part of it).
type WARCFile struct {
	Records       []*WARCRecord
	NextOffset    int64 // offset after the last complete member: where an incremental reader continues
	TruncatedTail bool  // the bytes after NextOffset are an incomplete member
	EmptyMembers  int   // gzip members that decompress to nothing
}

// SHA1Base32 is the digest form WARC uses.
func SHA1Base32(b []byte) string {
	s := sha1.Sum(b)
	return base32.StdEncoding.EncodeToString(s[:])
}

type countingReader struct {
	r *bufio.Reader
	n int64
}

func (c *countingReader) Read(p []byte) (int, error) {
	n, err := c.r.Read(p)
	c.n += int64(n)
	return n, err
}

func (c *countingReader) ReadByte() (byte, error) {
	b, err := c.r.ReadByte()
	if err == nil {
		c.n++
	}
	return b, err
}

// ReadWARCFile parses path from byte offset `from` (0 = whole file) to the current end of the file.
func ReadWARCFile(path string, from int64) (*WARCFile, error) {
	f, err := os.Open(path)
	if err != nil {
		return nil, err
	}
	defer f.Close()
	if _, err := f.Seek(from, io.SeekStart); err != nil {
		return nil, err
	}
	return ReadWARC(f, path, from)
}

// ReadWARC parses a stream of gzip members; base is the file offset of the first byte of r.
func ReadWARC(r io.Reader, name string, base int64) (*WARCFile, error) {
	cr := &countingReader{r: bufio.NewReaderSize(r, 1<<16)}
	out := &WARCFile{NextOffset: base}
	var zr *gzip.Reader
	for {
		start := base + cr.n
		if _, err := cr.r.Peek(1); err == io.EOF {
			return out, nil
		} else if err != nil {
			return out, err
		}
		var err error
		if zr == nil {
			zr, err = gzip.NewReader(cr) // cr implements io.ByteReader: gzip reads no further than the member
		} else {
			err = zr.Reset(cr)
		}
		if err != nil {
			if errors.Is(err, io.ErrUnexpectedEOF) || err == io.EOF {
				out.TruncatedTail = true
				return out, nil
			}
			return out, fmt.Errorf("%s: offset %d: not a gzip member: %v", name, start, err)
		}
		zr.Multistream(false)
		data, err := io.ReadAll(zr)
		if err != nil {
			if errors.Is(err, io.ErrUnexpectedEOF) {
				out.TruncatedTail = true
				return out, nil
			}
			return out, fmt.Errorf("%s: offset %d: member does not decompress on its own: %v", name, start, err)
		}
		if len(data) == 0 {
			// an empty gzip member holds no record (the library's writer leaves one at the end of a file that
			// received nothing after its warcinfo record); it is counted, not parsed
			out.EmptyMembers++
			out.NextOffset = base + cr.n
			continue
		}
		rec, err := parseWARCRecord(data)
		if err != nil {
			return out, fmt.Errorf("%s: offset %d: %v", name, start, err)
		}
		rec.File, rec.Offset = name, start
		out.Records = append(out.Records, rec)
		out.NextOffset = base + cr.n
	}
}

func parseWARCRecord(data []byte) (*WARCRecord, error) {
	i := bytes.Index(data, []byte("\r\n\r\n"))
	if i < 0 {
		return nil, errors.New("no end of WARC header block")
	}
	lines := strings.Split(string(data[:i]), "\r\n")
	rec := &WARCRecord{Version: lines[0], Header: map[string]string{}}
	if rec.Version != "WARC/1.1" && rec.Version != "WARC/1.0" {
		return nil, fmt.Errorf("bad version line %q", lines[0])
	}
	for _, l := range lines[1:] {
		k, v, ok := strings.Cut(l, ":")
		if !ok {
			return nil, fmt.Errorf("bad WARC header line %q", l)
		}
		key := strings.ToLower(strings.TrimSpace(k))
		if _, dup := rec.Header[key]; dup {
			return nil, fmt.Errorf("WARC header %q appears twice", k)
		}
		rec.Header[key] = strings.TrimSpace(v)
	}
	rec.Type = rec.Header["warc-type"]
	rec.TargetURI = rec.Header["warc-target-uri"]
	rec.RecordID = rec.Header["warc-record-id"]
	rec.RefersTo = rec.Header["warc-refers-to"]
	rec.Truncated = rec.Header["warc-truncated"]
	rec.DigestHdr = strings.TrimPrefix(rec.Header["warc-payload-digest"], "sha1:")
	if rec.Type == "" || rec.RecordID == "" || rec.Header["warc-date"] == "" {
		return nil, fmt.Errorf("record lacks a mandatory header (type %q, id %q, date %q)", rec.Type, rec.RecordID, rec.Header["warc-date"])
	}
	cl, err := strconv.Atoi(rec.Header["content-length"])
	if err != nil || cl < 0 {
		return nil, fmt.Errorf("bad Content-Length %q", rec.Header["content-length"])
	}
	block := data[i+4:]
	if len(block) != cl+4 || !bytes.HasSuffix(block, []byte("\r\n\r\n")) {
		return nil, fmt.Errorf("%s record %s for %s: Content-Length %d but the member holds a block of %d bytes (+4 trailer bytes expected)", rec.Type, rec.RecordID, rec.TargetURI, cl, len(block)-4)
	}
	block = block[:cl]
	rec.BlockLen = cl
	if bd := rec.Header["warc-block-digest"]; strings.HasPrefix(bd, "sha1:") && bd[5:] != SHA1Base32(block) {
		return nil, fmt.Errorf("%s record for %s: WARC-Block-Digest %s but the block hashes to %s", rec.Type, rec.TargetURI, bd[5:], SHA1Base32(block))
	}
	switch rec.Type {
	case "request":
		req, err := http.ReadRequest(bufio.NewReader(bytes.NewReader(block)))
		if err != nil {
			return nil, fmt.Errorf("request record for %s: block is not an HTTP request: %v", rec.TargetURI, err)
		}
		rec.HTTPMethod, rec.HTTPTarget, rec.HTTPHost, rec.HTTPHeader = req.Method, req.RequestURI, req.Host, req.Header
		b, err := io.ReadAll(req.Body)
		if err != nil {
			return nil, fmt.Errorf("request record for %s: body: %v", rec.TargetURI, err)
		}
		rec.PayloadLen, rec.PayloadSHA = int64(len(b)), SHA1Base32(b)
	case "response", "revisit":
		resp, err := http.ReadResponse(bufio.NewReader(bytes.NewReader(block)), nil)
		if err != nil {
			return nil, fmt.Errorf("%s record for %s: block is not an HTTP response: %v", rec.Type, rec.TargetURI, err)
		}
		rec.HTTPStatus, rec.HTTPHeader = resp.StatusCode, resp.Header
		if rec.Type == "revisit" {
			// identical-payload revisit: the block holds the HTTP headers only, the digest header names the payload
			rec.PayloadLen, rec.PayloadSHA = -1, rec.DigestHdr
			break
		}
		b, err := io.ReadAll(resp.Body) // de-chunked by net/http; Content-Encoding untouched
		if err != nil {
			return nil, fmt.Errorf("response record for %s: HTTP body incomplete: %v", rec.TargetURI, err)
		}
		rec.PayloadLen, rec.PayloadSHA = int64(len(b)), SHA1Base32(b)
		if rec.DigestHdr != "" && rec.DigestHdr != rec.PayloadSHA {
			return nil, fmt.Errorf("response record for %s: WARC-Payload-Digest %s but the payload (%d bytes) hashes to %s", rec.TargetURI, rec.DigestHdr, len(b), rec.PayloadSHA)
		}
	}
	return rec, nil
}

// WARCSelfTest builds a small multi-member file by hand and checks the reader on it, on a torn tail and on a
// corrupted middle. It returns "" when all is well.
func WARCSelfTest() string {
	mk := func(typ, uri, block string, extra string) []byte {
		var raw bytes.Buffer
		fmt.Fprintf(&raw, "WARC/1.1\r\nWARC-Type: %s\r\nWARC-Record-ID: <urn:uuid:%s-%d>\r\nWARC-Date: 2025-01-01T00:00:00Z\r\nContent-Length: %d\r\n", typ, typ, len(block), len(block))
		if uri != "" {
			fmt.Fprintf(&raw, "WARC-Target-URI: %s\r\n", uri)
		}
		raw.WriteString(extra)
		raw.WriteString("\r\n" + block + "\r\n\r\n")
		var z bytes.Buffer
		zw := gzip.NewWriter(&z)
		zw.Write(raw.Bytes())
		zw.Close()
		return z.Bytes()
	}
	body := "hello, world"
	chunked := "HTTP/1.1 200 OK\r\nTransfer-Encoding: chunked\r\nContent-Type: text/plain\r\n\r\n5\r\nhello\r\n7\r\n, world\r\n0\r\n\r\n"
	plain := "HTTP/1.1 200 OK\r\nContent-Length: 12\r\n\r\n" + body
	m := [][]byte{
		mk("warcinfo", "", "format: WARC file version 1.1\r\n", ""),
		mk("request", "http://127.0.0.2:1/x?a=1", "GET /x?a=1 HTTP/1.1\r\nHost: 127.0.0.2:1\r\n\r\n", ""),
		mk("response", "http://127.0.0.2:1/x?a=1", chunked, "WARC-Payload-Digest: sha1:"+SHA1Base32([]byte(body))+"\r\n"),
		mk("response", "http://127.0.0.2:1/y", plain, "WARC-Payload-Digest: sha1:"+SHA1Base32([]byte(body))+"\r\n"),
		mk("revisit", "http://127.0.0.2:1/z", "HTTP/1.1 200 OK\r\nContent-Length: 12\r\n\r\n", "WARC-Payload-Digest: sha1:"+SHA1Base32([]byte(body))+"\r\nWARC-Refers-To: <urn:uuid:response-1>\r\n"),
	}
	all := bytes.Join(m, nil)
	f, err := ReadWARC(bytes.NewReader(all), "selftest", 0)
	if err != nil || len(f.Records) != 5 || f.TruncatedTail || f.NextOffset != int64(len(all)) {
		return fmt.Sprintf("complete file: err=%v records=%d truncated=%v next=%d/%d", err, len(f.Records), f.TruncatedTail, f.NextOffset, len(all))
	}
	if r := f.Records[2]; r.PayloadLen != 12 || r.PayloadSHA != SHA1Base32([]byte(body)) || r.HTTPStatus != 200 || r.TargetURI != "http://127.0.0.2:1/x?a=1" {
		return fmt.Sprintf("chunked response parsed as %+v", *r)
	}
	if r := f.Records[1]; r.HTTPTarget != "/x?a=1" || r.HTTPHost != "127.0.0.2:1" || r.HTTPMethod != "GET" {
		return fmt.Sprintf("request parsed as %+v", *r)
	}
	if r := f.Records[4]; r.Type != "revisit" || r.PayloadSHA != SHA1Base32([]byte(body)) || r.RefersTo != "<urn:uuid:response-1>" {
		return fmt.Sprintf("revisit parsed as %+v", *r)
	}
	// torn tail: every proper prefix yields a prefix of the records, no error, and an offset to continue from
	for cut := 0; cut < len(all); cut += 7 {
		g, err := ReadWARC(bytes.NewReader(all[:cut]), "selftest", 0)
		if err != nil {
			return fmt.Sprintf("prefix of %d bytes: %v", cut, err)
		}
		rest, err := ReadWARC(bytes.NewReader(all[g.NextOffset:]), "selftest", g.NextOffset)
		if err != nil || len(g.Records)+len(rest.Records) != 5 {
			return fmt.Sprintf("prefix of %d bytes: %d records, continuing at %d gave %d (err %v)", cut, len(g.Records), g.NextOffset, len(rest.Records), err)
		}
	}
	// corrupt middle: flip a byte inside the deflate data of the third member
	bad := append([]byte(nil), all...)
	off := len(m[0]) + len(m[1]) + len(m[2])/2
	bad[off] ^= 0xFF
	if g, err := ReadWARC(bytes.NewReader(bad), "selftest", 0); err == nil && len(g.Records) == 5 {
		return "a corrupted member in the middle went unnoticed"
	}
	// wrong digest and wrong length are noticed
	w := mk("response", "http://127.0.0.2:1/y", plain, "WARC-Payload-Digest: sha1:"+SHA1Base32([]byte("other"))+"\r\n")
	if _, err := ReadWARC(bytes.NewReader(w), "selftest", 0); err == nil {
		return "a wrong payload digest went unnoticed"
	}
	var raw bytes.Buffer
	raw.WriteString("WARC/1.1\r\nWARC-Type: resource\r\nWARC-Record-ID: <x>\r\nWARC-Date: d\r\nContent-Length: 3\r\n\r\nabcd\r\n\r\n")
	var z bytes.Buffer
	zw := gzip.NewWriter(&z)
	zw.Write(raw.Bytes())
	zw.Close()
	if _, err := ReadWARC(bytes.NewReader(z.Bytes()), "selftest", 0); err == nil {
		return "a wrong Content-Length went unnoticed"
	}
	return ""
}
