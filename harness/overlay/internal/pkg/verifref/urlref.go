// Package verifref holds the reference oracles of the /verif harnesses that do not depend on Zeno:
// an RFC 3986 reference resolver, an order-preserving query decoder, the operator-scope predicate
// and an independent WARC reader. Overlay-only package.
package verifref

import (
	"strings"
)

// SplitURL splits an absolute hierarchical URL text into components without interpreting them.
// ok=false when the text has no "scheme://".
type URLParts struct {
	Scheme    string
	Authority string // userinfo@host:port as written
	Path      string
	Query     string
	HasQuery  bool
	Fragment  string
	HasFrag   bool
}

func SplitURL(s string) (p URLParts, ok bool) {
	i := strings.Index(s, "://")
	if i <= 0 {
		return p, false
	}
	p.Scheme = s[:i]
	rest := s[i+3:]
	if j := strings.IndexByte(rest, '#'); j >= 0 {
		p.Fragment, p.HasFrag = rest[j+1:], true
		rest = rest[:j]
	}
	if j := strings.IndexByte(rest, '?'); j >= 0 {
		p.Query, p.HasQuery = rest[j+1:], true
		rest = rest[:j]
	}
	if j := strings.IndexByte(rest, '/'); j >= 0 {
		p.Authority, p.Path = rest[:j], rest[j:]
	} else {
		p.Authority = rest
	}
	return p, true
}

// Hostname returns the host part of an authority (no userinfo, no port, brackets kept for IPv6).
func Hostname(authority string) string {
	if i := strings.LastIndexByte(authority, '@'); i >= 0 {
		authority = authority[i+1:]
	}
	if strings.HasPrefix(authority, "[") {
		if j := strings.IndexByte(authority, ']'); j >= 0 {
			return authority[:j+1]
		}
		return authority
	}
	if i := strings.LastIndexByte(authority, ':'); i >= 0 {
		return authority[:i]
	}
	return authority
}

// RemoveDotSegments is RFC 3986 §5.2.4.
func RemoveDotSegments(path string) string {
	in := path
	var out []string // output segments, each with its leading "/" where present
	for in != "" {
		switch {
		case strings.HasPrefix(in, "../"):
			in = in[3:]
		case strings.HasPrefix(in, "./"):
			in = in[2:]
		case strings.HasPrefix(in, "/./"):
			in = in[2:]
		case in == "/.":
			in = "/"
		case strings.HasPrefix(in, "/../"):
			in = in[3:]
			if len(out) > 0 {
				out = out[:len(out)-1]
			}
		case in == "/..":
			in = "/"
			if len(out) > 0 {
				out = out[:len(out)-1]
			}
		case in == "." || in == "..":
			in = ""
		default:
			// move the first path segment (including initial "/" if any) to the output
			start := 0
			if in[0] == '/' {
				start = 1
			}
			j := strings.IndexByte(in[start:], '/')
			if j < 0 {
				out = append(out, in)
				in = ""
			} else {
				out = append(out, in[:start+j])
				in = in[start+j:]
			}
		}
	}
	return strings.Join(out, "")
}

// Resolve is RFC 3986 §5.2.2 on already split components. base must be absolute with a non-empty path.
// ref components: scheme ("" = undefined), authority + hasAuthority, path, query + hasQuery.
func Resolve(base URLParts, rScheme string, rAuthority string, rHasAuthority bool, rPath string, rQuery string, rHasQuery bool) URLParts {
	var t URLParts
	switch {
	case rScheme != "":
		t.Scheme, t.Authority, t.Path = rScheme, rAuthority, RemoveDotSegments(rPath)
		t.Query, t.HasQuery = rQuery, rHasQuery
	case rHasAuthority:
		t.Scheme, t.Authority, t.Path = base.Scheme, rAuthority, RemoveDotSegments(rPath)
		t.Query, t.HasQuery = rQuery, rHasQuery
	default:
		t.Scheme, t.Authority = base.Scheme, base.Authority
		if rPath == "" {
			t.Path = base.Path
			if rHasQuery {
				t.Query, t.HasQuery = rQuery, true
			} else {
				t.Query, t.HasQuery = base.Query, base.HasQuery
			}
		} else {
			if strings.HasPrefix(rPath, "/") {
				t.Path = RemoveDotSegments(rPath)
			} else {
				// merge
				bp := base.Path
				if bp == "" {
					bp = "/"
				}
				merged := bp[:strings.LastIndexByte(bp, '/')+1] + rPath
				t.Path = RemoveDotSegments(merged)
			}
			t.Query, t.HasQuery = rQuery, rHasQuery
		}
	}
	if t.Path == "" {
		t.Path = "/"
	}
	return t
}

// Pair is a decoded query parameter.
type Pair struct{ K, V string }

// DecodeQuery decodes an application/x-www-form-urlencoded query in order, keeping multiplicity.
// Empty parts ("&&") are skipped; a part that cannot be percent-decoded yields ok=false.
func DecodeQuery(q string) (pairs []Pair, ok bool) {
	ok = true
	for _, part := range strings.Split(q, "&") {
		if part == "" {
			continue
		}
		k, v := part, ""
		if i := strings.IndexByte(part, '='); i >= 0 {
			k, v = part[:i], part[i+1:]
		}
		dk, ok1 := pctDecode(k)
		dv, ok2 := pctDecode(v)
		if !ok1 || !ok2 {
			ok = false
			continue
		}
		pairs = append(pairs, Pair{dk, dv})
	}
	return pairs, ok
}

func unhex(c byte) (byte, bool) {
	switch {
	case c >= '0' && c <= '9':
		return c - '0', true
	case c >= 'a' && c <= 'f':
		return c - 'a' + 10, true
	case c >= 'A' && c <= 'F':
		return c - 'A' + 10, true
	}
	return 0, false
}

func pctDecode(s string) (string, bool) {
	var b strings.Builder
	for i := 0; i < len(s); i++ {
		switch s[i] {
		case '+':
			b.WriteByte(' ')
		case '%':
			if i+2 >= len(s) {
				return "", false
			}
			h, ok1 := unhex(s[i+1])
			l, ok2 := unhex(s[i+2])
			if !ok1 || !ok2 {
				return "", false
			}
			b.WriteByte(h<<4 | l)
			i += 2
		default:
			b.WriteByte(s[i])
		}
	}
	return b.String(), true
}

// PairsEqual compares two decoded parameter lists exactly (order and multiplicity).
func PairsEqual(a, b []Pair) bool {
	if len(a) != len(b) {
		return false
	}
	for i := range a {
		if a[i] != b[i] {
			return false
		}
	}
	return true
}
