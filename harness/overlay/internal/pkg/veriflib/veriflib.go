// Package veriflib is the shared support library of the /verif harnesses. It is injected into the
// Zeno module with a build overlay (it does not exist in /repo) and imports nothing from Zeno.
//
// It provides: evidence accounting (Record / Flush), failure reporting that leaves the shrunk case on
// disk as a replay file (Fail), replay loading (ReplayCase), access to the committed known-findings
// list (FindingOpen) and a few environment helpers (Seed, Tier, Scale).
package veriflib

import (
	"context"
	"encoding/binary"
	"encoding/json"
	"fmt"
	"hash/fnv"
	"os"
	"path/filepath"
	"reflect"
	"runtime"
	"sort"
	"strconv"
	"strings"
	"sync"
	"time"
)

// TB is the part of *testing.T / *rapid.T the property bodies use, so that the same body runs under
// rapid (generation + shrinking) and under plain `go test` (replay).
type TB interface {
	Fatalf(format string, args ...any)
	Logf(format string, args ...any)
	Helper()
}

type facetStats struct {
	Evaluations int64            `json:"evaluations"`
	Nontrivial  int64            `json:"nontrivial"`
	Classes     map[string]int64 `json:"classes"`
	Samples     []any            `json:"samples"`
	Excluded    map[string]int64 `json:"excluded"`
	Saturated   bool             `json:"saturated"`
	Exhaustive  bool             `json:"exhaustive,omitempty"`
	hashes      map[uint64]struct{}
	sampleSeen  int64
}

var (
	mu     sync.Mutex
	facets = map[string]*facetStats{}
	start  = time.Now()
)

const maxHashes = 4_000_000
const maxSamples = 6

func get(facet string) *facetStats {
	fs := facets[facet]
	if fs == nil {
		fs = &facetStats{Classes: map[string]int64{}, Excluded: map[string]int64{}, hashes: map[uint64]struct{}{}}
		facets[facet] = fs
	}
	return fs
}

// Hash returns a stable 64-bit hash of the canonical text of a case.
func Hash(parts ...string) uint64 {
	h := fnv.New64a()
	for _, p := range parts {
		h.Write([]byte(p))
		h.Write([]byte{0})
	}
	return h.Sum64()
}

// Record accounts one evaluated case. key identifies the case (distinctness), nontrivial is the
// facet's stated rule evaluated on this case, classes are histogram labels, sample (may be nil) is
// called only when the case is kept as a sample.
func Record(facet string, key string, nontrivial bool, classes []string, sample func() any) {
	mu.Lock()
	defer mu.Unlock()
	fs := get(facet)
	fs.Evaluations++
	for _, c := range classes {
		fs.Classes[c]++
	}
	if nontrivial {
		fs.Nontrivial++
		if len(fs.hashes) < maxHashes {
			fs.hashes[Hash(key)] = struct{}{}
		} else {
			fs.Saturated = true
		}
		if sample != nil {
			// keep the first few and then a sparse later selection (deterministic reservoir)
			fs.sampleSeen++
			if len(fs.Samples) < maxSamples {
				fs.Samples = append(fs.Samples, sample())
			} else if fs.sampleSeen&(fs.sampleSeen-1) == 0 { // powers of two
				fs.Samples[int(fs.sampleSeen>>1)%maxSamples] = sample()
			}
		}
	}
}

// Excluded counts a case (or part of one) that was left out by construction because of an open
// known finding or a documented generator narrowing.
func Excluded(facet, why string) {
	mu.Lock()
	defer mu.Unlock()
	get(facet).Excluded[why]++
}

// Class adds to a histogram label without counting an evaluation.
func Class(facet, class string) {
	mu.Lock()
	defer mu.Unlock()
	get(facet).Classes[class]++
}

// SetExhaustive marks a facet as having enumerated its finite space completely.
func SetExhaustive(facet string) {
	mu.Lock()
	defer mu.Unlock()
	get(facet).Exhaustive = true
}

// Flush writes the statistics of this process to $VERIF_STATS_DIR/<pid>.json (+ .<facet>.hashes).
func Flush() {
	mu.Lock()
	defer mu.Unlock()
	dir := os.Getenv("VERIF_STATS_DIR")
	if dir == "" {
		return
	}
	os.MkdirAll(dir, 0o755)
	tag := os.Getenv("VERIF_SHARD")
	if tag == "" {
		tag = strconv.Itoa(os.Getpid())
	}
	out := map[string]any{"wall_s": time.Since(start).Seconds(), "facets": facets}
	b, _ := json.Marshal(out)
	os.WriteFile(filepath.Join(dir, "stats-"+tag+".json"), b, 0o644)
	for name, fs := range facets {
		hs := make([]uint64, 0, len(fs.hashes))
		for h := range fs.hashes {
			hs = append(hs, h)
		}
		sort.Slice(hs, func(i, j int) bool { return hs[i] < hs[j] })
		buf := make([]byte, 8*len(hs))
		for i, h := range hs {
			binary.LittleEndian.PutUint64(buf[8*i:], h)
		}
		os.WriteFile(filepath.Join(dir, "hashes-"+tag+"-"+sanitize(name)+".bin"), buf, 0o644)
	}
}

func sanitize(s string) string {
	return strings.Map(func(r rune) rune {
		if r >= 'a' && r <= 'z' || r >= 'A' && r <= 'Z' || r >= '0' && r <= '9' || r == '-' || r == '_' {
			return r
		}
		return '_'
	}, s)
}

// Failure is what a replay file contains.
type Failure struct {
	Property string          `json:"property"`
	Facet    string          `json:"facet"`
	Message  string          `json:"message"`
	Case     json.RawMessage `json:"case"`
	History  any             `json:"history,omitempty"`
	Seed     string          `json:"seed,omitempty"`
}

// Fail records the failing case (last writer wins, so after rapid's shrinking the file holds the
// minimal case) and fails the test.
func Fail(t TB, property, facet string, c any, history any, format string, args ...any) {
	t.Helper()
	msg := fmt.Sprintf(format, args...)
	WriteFailure(property, facet, c, history, msg)
	t.Fatalf("[%s/%s] %s", property, facet, msg)
}

// WriteFailure writes the replay file without failing a test (used by drivers of child processes).
func WriteFailure(property, facet string, c any, history any, msg string) {
	dir := os.Getenv("VERIF_FAIL_DIR")
	if dir == "" {
		return
	}
	os.MkdirAll(dir, 0o755)
	raw, err := json.Marshal(c)
	if err != nil {
		raw, _ = json.Marshal(fmt.Sprintf("%+v", c))
	}
	f := Failure{Property: property, Facet: facet, Message: msg, Case: raw, History: history, Seed: os.Getenv("VERIF_SEED")}
	b, _ := json.MarshalIndent(f, "", " ")
	tag := os.Getenv("VERIF_SHARD")
	os.WriteFile(filepath.Join(dir, "fail-"+sanitize(facet)+"-"+tag+".json"), b, 0o644)
}

// ReplayCase loads the case of a replay file into out when $VERIF_REPLAY names a file whose facet
// is the given one. It returns false when not replaying (or replaying another facet).
func ReplayCase(facet string, out any) bool {
	p := os.Getenv("VERIF_REPLAY")
	if p == "" {
		return false
	}
	b, err := os.ReadFile(p)
	if err != nil {
		panic("veriflib: cannot read replay file: " + err.Error())
	}
	var f Failure
	if err := json.Unmarshal(b, &f); err != nil {
		panic("veriflib: bad replay file: " + err.Error())
	}
	if f.Facet != facet {
		return false
	}
	if err := json.Unmarshal(f.Case, out); err != nil {
		panic("veriflib: bad case in replay file: " + err.Error())
	}
	return true
}

// Replaying reports whether this process is a replay run (generation must be skipped).
func Replaying() bool { return os.Getenv("VERIF_REPLAY") != "" }

type finding struct {
	Property string `json:"property"`
	Key      string `json:"key"`
	Status   string `json:"status"`
}

var (
	findingsOnce sync.Once
	openFindings = map[string]bool{}
)

// FindingOpen reports whether the committed known-findings file lists key as an open finding. With
// VERIF_STRICT=1 (used by the strict sub-checks and by sensitivity runs) nothing is treated as open.
func FindingOpen(key string) bool {
	if os.Getenv("VERIF_STRICT") == "1" {
		return false
	}
	findingsOnce.Do(func() {
		p := os.Getenv("VERIF_KNOWN")
		if p == "" {
			return
		}
		b, err := os.ReadFile(p)
		if err != nil {
			return
		}
		var doc struct {
			Findings []finding `json:"findings"`
		}
		if json.Unmarshal(b, &doc) != nil {
			return
		}
		for _, f := range doc.Findings {
			if f.Status == "open" {
				openFindings[f.Key] = true
			}
		}
	})
	return openFindings[key]
}

// Seed returns VERIF_SEED (default 1).
func Seed() int64 {
	v, err := strconv.ParseInt(os.Getenv("VERIF_SEED"), 10, 64)
	if err != nil {
		return 1
	}
	return v
}

// Thorough reports whether the thorough tier is running.
func Thorough() bool { return os.Getenv("VERIF_TIER") == "thorough" }

// N returns the case count for a facet: the value of env VERIF_N_<name> when set by the driver,
// else quick or thorough default.
func N(name string, quick, thorough int) int {
	if v, err := strconv.Atoi(os.Getenv("VERIF_N_" + name)); err == nil && v > 0 {
		return v
	}
	if Thorough() {
		return thorough
	}
	return quick
}

// JSON renders v compactly for keys and messages.
func JSON(v any) string {
	b, err := json.Marshal(v)
	if err != nil {
		return fmt.Sprintf("%+v", v)
	}
	return string(b)
}

// Guard runs body and, when the code under test panics on this goroutine, records the case as a
// failure before re-panicking (rapid then shrinks on the panic). rapid's own control-flow panics
// (t.Fatalf / invalid draws) pass through untouched.
func Guard(property, facet string, c any, body func()) {
	defer func() {
		if r := recover(); r != nil {
			tn := fmt.Sprintf("%T", r)
			if tn != "rapid.stopTest" && tn != "rapid.invalidData" {
				WriteFailure(property, facet, c, nil, fmt.Sprintf("panic in code under test: %v", r))
			}
			panic(r)
		}
	}()
	body()
}

// ShardIndex returns the index of this shard process (0 when not sharded).
func ShardIndex() int {
	v, _ := strconv.Atoi(os.Getenv("VERIF_SHARD_INDEX"))
	return v
}

// NShards returns the number of shard processes of this unit (>= 1).
func NShards() int {
	v, _ := strconv.Atoi(os.Getenv("VERIF_NSHARDS"))
	if v < 1 {
		return 1
	}
	return v
}

// Journal writes the case about to be executed (write-ahead): when the process dies inside the code under test
// (a panic on a worker goroutine cannot be recovered), the driver takes the journalled case as the culprit.
func Journal(property, facet string, c any) {
	dir := os.Getenv("VERIF_FAIL_DIR")
	if dir == "" {
		return
	}
	os.MkdirAll(dir, 0o755)
	raw, _ := json.Marshal(c)
	f := Failure{Property: property, Facet: facet, Message: "the process died while executing this case (see output_tail)", Case: raw, Seed: os.Getenv("VERIF_SEED")}
	b, _ := json.Marshal(f)
	os.WriteFile(filepath.Join(dir, "journal-"+os.Getenv("VERIF_SHARD")+".json"), b, 0o644)
}

// JournalDone removes the journal entry after the case returned normally.
func JournalDone() {
	dir := os.Getenv("VERIF_FAIL_DIR")
	if dir == "" {
		return
	}
	os.Remove(filepath.Join(dir, "journal-"+os.Getenv("VERIF_SHARD")+".json"))
}

// ---------------------------------------------------------------------------------------------
// real-time stall watchdog
//
// Virtual-time harnesses detect a deadlock when every goroutine of the bubble is durably blocked. A goroutine waiting
// for a sync.Mutex / RWMutex is not "durably blocked" for testing/synctest, so a lock cycle in the code under test
// freezes the bubble in real time instead. The watchdog turns that into a verdict: a case that normally takes
// milliseconds and has not returned after `limit` of wall-clock time (minutes) is reported with its case, a dump of all
// goroutines, and the process exits.

var stall struct {
	mu      sync.Mutex
	started bool
	limit   time.Duration
	prop    string
	facet   string
	c       any
	since   time.Time
	active  bool
	also    [][2]string // further (property, facet) pairs a stall is attributed to
}

// WatchStart starts the watchdog goroutine (once per process). It must be called from outside any synctest bubble.
func WatchStart(limit time.Duration) {
	stall.mu.Lock()
	defer stall.mu.Unlock()
	if stall.started {
		return
	}
	stall.started, stall.limit = true, limit
	go func() {
		for {
			time.Sleep(2 * time.Second)
			stall.mu.Lock()
			hit := stall.active && time.Since(stall.since) > stall.limit
			prop, facet, c, since := stall.prop, stall.facet, stall.c, stall.since
			stall.mu.Unlock()
			if !hit {
				continue
			}
			buf := make([]byte, 4<<20)
			buf = buf[:runtime.Stack(buf, true)]
			msg := fmt.Sprintf("the case has not returned after %s of wall-clock time (cases of this facet take milliseconds): a call is stuck where neither a result nor the virtual clock can reach it - typically goroutines waiting for each other on a lock", time.Since(since).Round(time.Second))
			stall.mu.Lock()
			also := append([][2]string(nil), stall.also...)
			stall.mu.Unlock()
			for _, pf := range also {
				WriteFailure(pf[0], pf[1], c, string(buf[:min(len(buf), 60000)]), msg)
			}
			WriteFailure(prop, facet, c, string(buf[:min(len(buf), 60000)]), msg)
			Flush()
			fmt.Fprintf(os.Stderr, "veriflib watchdog: %s\n%s\n", msg, buf)
			os.Exit(3)
		}
	}()
}

// WatchAlso adds a (property, facet) pair every stall of this process is attributed to as well (a shared harness).
func WatchAlso(property, facet string) {
	stall.mu.Lock()
	defer stall.mu.Unlock()
	for _, pf := range stall.also {
		if pf[0] == property && pf[1] == facet {
			return
		}
	}
	stall.also = append(stall.also, [2]string{property, facet})
}

// WatchCase marks the case now being executed; the returned function marks its end. No-op when WatchStart was not called.
func WatchCase(property, facet string, c any) func() {
	stall.mu.Lock()
	stall.prop, stall.facet, stall.c, stall.since, stall.active = property, facet, c, time.Now(), true
	stall.mu.Unlock()
	return func() {
		stall.mu.Lock()
		stall.active = false
		stall.mu.Unlock()
	}
}

// Call invokes fn - a private function of the code under test - with the given arguments, whatever its exact parameter
// list: the harness depends on what the function does, not on its private signature. Every parameter takes the first
// unused argument assignable to it; a context.Context parameter without a matching argument gets a context that is never
// cancelled; anything else its zero value. It returns the results.
func Call(fn any, args ...any) []reflect.Value {
	fv := reflect.ValueOf(fn)
	ft := fv.Type()
	if ft.Kind() != reflect.Func || ft.IsVariadic() {
		panic(fmt.Sprintf("veriflib.Call: unsupported function type %s", ft))
	}
	used := make([]bool, len(args))
	in := make([]reflect.Value, ft.NumIn())
	ctxType := reflect.TypeOf((*context.Context)(nil)).Elem()
	for i := range in {
		pt := ft.In(i)
		found := false
		for j, a := range args {
			if used[j] || a == nil {
				continue
			}
			if av := reflect.ValueOf(a); av.Type().AssignableTo(pt) {
				in[i], used[j], found = av, true, true
				break
			}
		}
		if found {
			continue
		}
		if pt.Kind() == reflect.Interface && ctxType.Implements(pt) && pt.NumMethod() > 0 {
			in[i] = reflect.ValueOf(context.Background())
		} else {
			in[i] = reflect.Zero(pt)
		}
	}
	return fv.Call(in)
}

// CallAs is Call for functions with one result of type T (the zero T when the result list has changed shape).
func CallAs[T any](fn any, args ...any) T {
	var zero T
	for _, r := range Call(fn, args...) {
		if v, ok := r.Interface().(T); ok {
			return v
		}
	}
	return zero
}
