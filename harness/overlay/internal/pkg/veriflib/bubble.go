//go:build go1.25

package veriflib

import (
	"testing"
	"testing/synctest"
	"time"
)

// Bubble runs fn in a testing/synctest bubble under the real-time stall watchdog (see WatchStart): a case stuck on
// something the virtual clock cannot see (goroutines waiting for each other on a mutex) is reported with its case
// after three minutes of wall-clock time instead of sitting there until the shard's time budget runs out.
// Must be called from outside any bubble.
func Bubble(outer *testing.T, property, facet string, c any, fn func(*testing.T)) {
	WatchStart(3 * time.Minute)
	done := WatchCase(property, facet, c)
	synctest.Test(outer, fn)
	done()
}
