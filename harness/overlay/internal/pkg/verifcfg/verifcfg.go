// Package verifcfg prepares Zeno's global configuration for in-process harnesses (overlay-only package).
package verifcfg

import (
	"sync"

	"github.com/internetarchive/Zeno/internal/pkg/config"
)

var once sync.Once

// Quiet initialises the global config once (as the test-suite does, through config.InitConfig) and switches all
// log sinks off. It returns the mutable config for per-case adjustments.
func Quiet() *config.Config {
	once.Do(func() {
		if err := config.InitConfig(); err != nil {
			panic(err)
		}
	})
	c := config.Get()
	c.NoStdoutLogging = true
	c.NoStderrLogging = true
	c.NoFileLogging = true
	return c
}
