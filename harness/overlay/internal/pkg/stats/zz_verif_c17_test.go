package stats

// C17 — operational counters are exact under concurrency (in-package "U" facets).
//
//   C17/burst         fresh counter / rate / mean / rateBucket objects driven by generated per-goroutine scripts;
//                     exactness at quiescence, sound bounds on every mid-burst read.
//   C17/global        the exported methods of methods.go on the global stats object (after Init()), read back
//                     through the exported getters, GetMapTUI and (per-status-code totals, which have no exported
//                     getter) rateBucket.getTotal / getAllTotal; worker gauges == live workers, 0 after stop.
//   C17/linearizable  histories of <= 20 operations over 2-4 goroutines on one object, call/return stamped with a
//                     logical clock, checked with porcupine against the sequential specification.
//
// What was learnt from the code and its callers (and is therefore built into generators and models):
//   * there is no ticker and no background goroutine (the "ticker" in rate_test.go comments is gone): rate.get()
//     computes the per-second value from time.Now() on demand. Per-second values are executed concurrently (they
//     mutate rate.count/lastCount) but never asserted; only totals are.
//   * Init() is a sync.Once; there is no Close. Reset() exists, has no production caller at all (only
//     PausedReset is called, from pause.go, and Paused is outside the statement), so resets are generated only at
//     quiescence between phases.
//   * rate.reset() (and so Reset(), URLsCrawledReset, HTTPReturnCodesReset*) clears the per-second window but NOT
//     rate.total: the total is a lifetime total. The model follows the statement ("totals equal the number of
//     events that happened"): resets never change an expected total.
//   * mean.get() returns float64(sum)/float64(count) (no integer division), 0 when count == 0. Expected value is
//     computed from integer Σ and n (both < 2^53, so the conversions are exact and IEEE division is correctly
//     rounded): equality is demanded bit for bit, tolerance 0. The exported Mean*Add(d) adds d.Milliseconds()
//     (truncation toward zero), so the model sums whole milliseconds.
//   * real workers do `XRoutinesIncr(); defer XRoutinesDecr()`: a goroutine only ever decrements what it has
//     incremented itself. Scripts respect that (the gauge is a uint64 and would wrap otherwise). Exported
//     methods always use step 1; in-package steps 1..3 are used on the local objects (counter_test.go does too).
//   * status-code keys are strconv.Itoa(resp.StatusCode).

import (
	"encoding/json"
	"fmt"
	"math"
	"os"
	"runtime"
	"runtime/debug"
	"sort"
	"strconv"
	"strings"
	"sync"
	"sync/atomic"
	"testing"
	"time"

	"github.com/anishathalye/porcupine"
	"github.com/internetarchive/Zeno/internal/pkg/veriflib"
	"pgregory.net/rapid"
)

// ---- plain-data case ------------------------------------------------------------------------------------

// c17Op is one scripted operation. Kinds:
//
//	incr decr get          worker gauge / counter O
//	rincr rget total       rate O (rget = per-second value, executed, never asserted)
//	add mget               mean O
//	kincr kget ktotal kall kfilt   rateBucket, key = strconv.Itoa(Key)
//	tui                    GetMapTUI (global facet only)
type c17Op struct {
	K   string `json:"k"`
	O   string `json:"o,omitempty"`
	Key int    `json:"key,omitempty"`
	V   uint64 `json:"v,omitempty"` // step (incr/decr/rincr/kincr) or sample (add; nanoseconds in the global facet)
	N   int    `json:"n,omitempty"` // repeat count of a mutator (0 = once)
	Y   bool   `json:"y,omitempty"` // runtime.Gosched() after the operation
}

type c17Phase struct {
	Reset []string  `json:"reset,omitempty"` // executed by the driver goroutine at quiescence before the phase
	G     [][]c17Op `json:"g"`
}

type c17Case struct {
	Obj    string     `json:"obj,omitempty"`
	Phases []c17Phase `json:"phases"`
}

func (o c17Op) reps() int {
	if o.N <= 1 {
		return 1
	}
	return o.N
}

func c17IsMutator(k string) bool {
	switch k {
	case "incr", "decr", "rincr", "add", "kincr":
		return true
	}
	return false
}

// c17ObjOf names the shared object an operation touches (for the non-trivial rule and the class histogram).
func c17ObjOf(o c17Op) []string {
	switch o.K {
	case "incr", "decr", "get":
		return []string{"counter:" + o.O}
	case "rincr", "rget", "total":
		return []string{"rate:" + o.O}
	case "add", "mget":
		return []string{"mean:" + o.O}
	case "kincr", "kget", "ktotal":
		return []string{"key:" + strconv.Itoa(o.Key)}
	case "kall", "kfilt":
		return []string{"key:*"}
	case "tui":
		return []string{"counter:pre", "counter:arc", "counter:post", "rate:url", "rate:seed", "mean:mhttp", "key:*"}
	}
	return nil
}

// c17Shape evaluates the non-trivial rule (>= 2 goroutines touch the same counter / rate / mean / key in the same
// phase, at least one of them mutating it: two goroutines with an operation each on the same object can
// interleave) and the class labels.
func c17Shape(c c17Case) (nontrivial bool, classes []string) {
	cl := map[string]bool{}
	maxG := 0
	yield := false
	for _, ph := range c.Phases {
		if len(ph.G) > maxG {
			maxG = len(ph.G)
		}
		for _, r := range ph.Reset {
			cl["reset:"+strings.SplitN(r, ":", 2)[0]] = true
		}
		touch := map[string]map[int]bool{}
		mut := map[string]bool{}
		for g, sc := range ph.G {
			for _, op := range sc {
				cl["op:"+op.K] = true
				if op.Y {
					yield = true
				}
				if op.N > 1 {
					cl["repeat:yes"] = true
				}
				for _, ob := range c17ObjOf(op) {
					if touch[ob] == nil {
						touch[ob] = map[int]bool{}
					}
					touch[ob][g] = true
					if c17IsMutator(op.K) {
						mut[ob] = true
					}
				}
			}
		}
		for ob, gs := range touch {
			n := len(gs)
			if strings.HasPrefix(ob, "key:") && ob != "key:*" {
				n += len(touch["key:*"]) // whole-map readers touch every key
			}
			if n >= 2 && mut[ob] {
				nontrivial = true
				cl["contended:"+strings.SplitN(ob, ":", 2)[0]] = true
			}
		}
	}
	switch {
	case maxG <= 2:
		cl["g:2"] = true
	case maxG <= 4:
		cl["g:3-4"] = true
	case maxG <= 8:
		cl["g:5-8"] = true
	case maxG <= 16:
		cl["g:9-16"] = true
	default:
		cl["g:17-32"] = true
	}
	cl[fmt.Sprintf("phases:%d", len(c.Phases))] = true
	if yield {
		cl["yield:some"] = true
	} else {
		cl["yield:none"] = true
	}
	for k := range cl {
		classes = append(classes, k)
	}
	sort.Strings(classes)
	return nontrivial, classes
}

// ---- systems under test ---------------------------------------------------------------------------------

type c17Sys interface {
	Incr(o string, v uint64)
	Decr(o string, v uint64)
	Get(o string) uint64
	RIncr(o string, v uint64)
	RGet(o string)
	Total(o string) uint64
	Add(o string, v uint64)
	MGet(o string) float64
	MeanUnit(v uint64) uint64 // what Add(v) contributes to the sum
	KIncr(key string, v uint64)
	KGet(key string)
	KTotal(key string) uint64
	KAll() map[string]uint64
	KFilt(pat string)
	TUI() map[string]interface{}
	Reset(what string)
	Extra(m *c17Model) string // additional in-package checks at quiescence ("" = fine)
}

// c17Local: one fresh object of each kind (object names are ignored).
type c17Local struct {
	c counter
	r rate
	m mean
	b *rateBucket
}

func newC17Local() *c17Local { return &c17Local{b: newRateBucket()} }

func (l *c17Local) Incr(_ string, v uint64)  { l.c.incr(v) }
func (l *c17Local) Decr(_ string, v uint64)  { l.c.decr(v) }
func (l *c17Local) Get(_ string) uint64      { return l.c.get() }
func (l *c17Local) RIncr(_ string, v uint64) { l.r.incr(v) }
func (l *c17Local) RGet(_ string)            { l.r.get() }
func (l *c17Local) Total(_ string) uint64    { return l.r.getTotal() }
func (l *c17Local) Add(_ string, v uint64)   { l.m.add(v) }
func (l *c17Local) MGet(_ string) float64    { return l.m.get() }
func (l *c17Local) MeanUnit(v uint64) uint64 { return v }
func (l *c17Local) KIncr(k string, v uint64) { l.b.incr(k, v) }
func (l *c17Local) KGet(k string)            { l.b.get(k) }
func (l *c17Local) KTotal(k string) uint64   { return l.b.getTotal(k) }
func (l *c17Local) KAll() map[string]uint64  { return l.b.getAllTotal() }
func (l *c17Local) KFilt(p string)           { l.b.getFiltered(p) }
func (l *c17Local) TUI() map[string]interface{} {
	return nil
}
func (l *c17Local) Reset(what string) {
	kind, arg, _ := strings.Cut(what, ":")
	switch kind {
	case "counter":
		l.c.reset()
	case "rate":
		l.r.reset()
	case "mean":
		l.m.reset()
	case "bucket":
		l.b.resetAll()
	case "key":
		l.b.reset(arg)
	}
}
func (l *c17Local) Extra(m *c17Model) string {
	// (through the object's own methods only: how it stores count and sum is its business)
	want := 0.0
	if m.mn["m"] > 0 {
		want = float64(m.ms["m"]) / float64(m.mn["m"])
	}
	if got := l.m.get(); math.Abs(got-want) > 1e-9*math.Max(1, math.Abs(want)) {
		return fmt.Sprintf("at quiescence mean.get() = %v, the script added %d samples summing to %d (mean %v)", got, m.mn["m"], m.ms["m"], want)
	}
	return ""
}

// c17Global: the exported API on the global stats object.
type c17Global struct{}

func (c17Global) Incr(o string, _ uint64) {
	switch o {
	case "pre":
		PreprocessorRoutinesIncr()
	case "arc":
		ArchiverRoutinesIncr()
	case "post":
		PostprocessorRoutinesIncr()
	}
}
func (c17Global) Decr(o string, _ uint64) {
	switch o {
	case "pre":
		PreprocessorRoutinesDecr()
	case "arc":
		ArchiverRoutinesDecr()
	case "post":
		PostprocessorRoutinesDecr()
	}
}
func (c17Global) Get(o string) uint64 {
	switch o {
	case "pre":
		return PreprocessorRoutinesGet()
	case "arc":
		return ArchiverRoutinesGet()
	case "post":
		return PostprocessorRoutinesGet()
	}
	return 0
}
func (c17Global) RIncr(o string, _ uint64) {
	switch o {
	case "url":
		URLsCrawledIncr()
	case "seed":
		SeedsFinishedIncr()
	}
}
func (c17Global) RGet(o string) {
	switch o {
	case "url":
		URLsCrawledGet()
	case "seed":
		SeedsFinishedGet()
	}
}

// Total: the only exported read of a rate total is GetMapTUI.
func (c17Global) Total(o string) uint64 {
	m := GetMapTUI()
	switch o {
	case "url":
		return m["Total URL crawled"].(uint64)
	case "seed":
		return m["Finished seeds"].(uint64)
	}
	return 0
}
func (c17Global) Add(o string, v uint64) {
	switch o {
	case "mhttp":
		MeanHTTPRespTimeAdd(time.Duration(v))
	case "mbody":
		MeanProcessBodyTimeAdd(time.Duration(v))
	case "mwait":
		MeanWaitOnFeedbackTimeAdd(time.Duration(v))
	}
}
func (c17Global) MGet(o string) float64 {
	switch o {
	case "mhttp":
		return MeanHTTPRespTimeGet()
	case "mbody":
		return MeanProcessBodyTimeGet()
	case "mwait":
		return MeanWaitOnFeedbackTimeGet()
	}
	return 0
}
func (c17Global) MeanUnit(v uint64) uint64 { return v / 1_000_000 } // whole milliseconds of a non-negative duration
func (c17Global) KIncr(k string, _ uint64) { HTTPReturnCodesIncr(k) }
func (c17Global) KGet(k string)            { HTTPReturnCodesGet(k) }

// per-status-code totals have no exported getter: read in-package.
func (c17Global) KTotal(k string) uint64      { return globalStats.HTTPReturnCodes.getTotal(k) }
func (c17Global) KAll() map[string]uint64     { return globalStats.HTTPReturnCodes.getAllTotal() }
func (c17Global) KFilt(p string)              { globalStats.HTTPReturnCodes.getFiltered(p) }
func (c17Global) TUI() map[string]interface{} { return GetMapTUI() }
func (c17Global) Reset(what string) {
	kind, arg, _ := strings.Cut(what, ":")
	switch kind {
	case "all":
		Reset()
	case "counter":
		switch arg {
		case "pre":
			PreprocessorRoutinesReset()
		case "arc":
			ArchiverRoutinesReset()
		case "post":
			PostprocessorRoutinesReset()
		}
	case "rate":
		switch arg {
		case "url":
			URLsCrawledReset()
		case "seed":
			SeedsFinishedReset()
		}
	case "mean":
		switch arg {
		case "mhttp":
			MeanHTTPRespTimeReset()
		case "mbody":
			MeanProcessBodyTimeReset()
		case "mwait":
			MeanWaitOnFeedbackTimeReset()
		}
	case "bucket":
		HTTPReturnCodesResetAll()
	case "key":
		HTTPReturnCodesReset(arg)
	}
}
func (c17Global) Extra(*c17Model) string { return "" }

// ---- reference model (integer arithmetic over the script only) --------------------------------------------

type c17Model struct {
	gauge map[string]uint64         // expected gauge value = Σ incr − Σ decr since its last reset
	outst map[string]map[int]uint64 // per goroutine index: own not-yet-decremented units (lower bound of reads)
	total map[string]uint64         // expected rate totals (never reset)
	mn    map[string]uint64         // samples since last reset
	ms    map[string]uint64         // Σ samples since last reset
	key   map[string]uint64         // expected per-key totals; presence in the map = key must be reported
}

func newC17Model() *c17Model {
	return &c17Model{gauge: map[string]uint64{}, outst: map[string]map[int]uint64{}, total: map[string]uint64{},
		mn: map[string]uint64{}, ms: map[string]uint64{}, key: map[string]uint64{}}
}

func (m *c17Model) reset(what string, objs c17Objs) {
	kind, arg, _ := strings.Cut(what, ":")
	switch kind {
	case "all":
		for _, o := range objs.counters {
			m.gauge[o] = 0
			delete(m.outst, o)
		}
		for _, o := range objs.means {
			m.mn[o], m.ms[o] = 0, 0
		}
	case "counter":
		m.gauge[arg] = 0
		delete(m.outst, arg)
	case "mean":
		m.mn[arg], m.ms[arg] = 0, 0
	case "rate", "bucket", "key":
		// clears the per-second window only; totals are lifetime totals
	}
}

func c17MeanOf(n, s uint64) float64 {
	if n == 0 {
		return 0
	}
	return float64(s) / float64(n)
}

type c17Objs struct{ counters, rates, means []string }

var (
	c17LocalObjs  = c17Objs{counters: []string{"c"}, rates: []string{"r"}, means: []string{"m"}}
	c17GlobalObjs = c17Objs{counters: []string{"pre", "arc", "post"}, rates: []string{"url", "seed"}, means: []string{"mhttp", "mbody", "mwait"}}
)

// ---- execution ------------------------------------------------------------------------------------------

// c17Obs is one observed value of a read.
type c17Obs struct {
	Kind string            `json:"kind"` // gauge | total | mean | ktotal | kall
	O    string            `json:"o,omitempty"`
	U    uint64            `json:"u,omitempty"`
	F    float64           `json:"f,omitempty"`
	M    map[string]uint64 `json:"m,omitempty"`
}

type c17Read struct {
	I   int      `json:"i"` // index in the goroutine's script
	Obs []c17Obs `json:"obs"`
}

// c17Ev is the timed record of one operation (linearizable facet).
type c17Ev struct {
	G    int      `json:"g"`
	Op   c17Op    `json:"op"`
	Call int64    `json:"call"`
	Ret  int64    `json:"ret"`
	Obs  []c17Obs `json:"obs,omitempty"`
}

func c17TUIObs(m map[string]interface{}) []c17Obs {
	u := func(k string) uint64 { v, _ := m[k].(uint64); return v }
	f, _ := m["Mean HTTP response time"].(float64)
	return []c17Obs{
		{Kind: "total", O: "url", U: u("Total URL crawled")},
		{Kind: "total", O: "seed", U: u("Finished seeds")},
		{Kind: "gauge", O: "pre", U: u("Preprocessor routines")},
		{Kind: "gauge", O: "arc", U: u("Archiver routines")},
		{Kind: "gauge", O: "post", U: u("Postprocessor routines")},
		{Kind: "mean", O: "mhttp", F: f},
	}
}

func c17Do(s c17Sys, op c17Op) []c17Obs {
	switch op.K {
	case "incr":
		for i := op.reps(); i > 0; i-- {
			s.Incr(op.O, op.V)
		}
	case "decr":
		for i := op.reps(); i > 0; i-- {
			s.Decr(op.O, op.V)
		}
	case "get":
		return []c17Obs{{Kind: "gauge", O: op.O, U: s.Get(op.O)}}
	case "rincr":
		for i := op.reps(); i > 0; i-- {
			s.RIncr(op.O, op.V)
		}
	case "rget":
		s.RGet(op.O)
	case "total":
		return []c17Obs{{Kind: "total", O: op.O, U: s.Total(op.O)}}
	case "add":
		for i := op.reps(); i > 0; i-- {
			s.Add(op.O, op.V)
		}
	case "mget":
		return []c17Obs{{Kind: "mean", O: op.O, F: s.MGet(op.O)}}
	case "kincr":
		k := strconv.Itoa(op.Key)
		for i := op.reps(); i > 0; i-- {
			s.KIncr(k, op.V)
		}
	case "kget":
		s.KGet(strconv.Itoa(op.Key))
	case "ktotal":
		k := strconv.Itoa(op.Key)
		return []c17Obs{{Kind: "ktotal", O: k, U: s.KTotal(k)}}
	case "kall":
		return []c17Obs{{Kind: "kall", M: s.KAll()}}
	case "kfilt":
		s.KFilt(strconv.Itoa(op.Key/100) + "*")
	case "tui":
		return c17TUIObs(s.TUI())
	}
	return nil
}

const c17HotSpin = 20000

// c17RunPhase runs the scripts, one goroutine each, started together. With clk != nil every operation is stamped
// call/return with the shared logical clock (an atomic counter: if A returned before B was called in real time then
// A.Ret < B.Call).
//
// Start barrier in two stages. Stage 1: every goroutine parks on a channel until all exist (no busy waiting: on an
// oversubscribed machine yield loops would take the CPU from the thread everybody is waiting for). Stage 2: a released
// goroutine arms itself and spins hot - it is on a CPU while it spins - until all are armed or its spin budget is
// used up, so that the goroutines which can run in parallel start within nanoseconds of each other.
func c17RunPhase(s c17Sys, scripts [][]c17Op, clk *atomic.Int64) (reads [][]c17Read, evs [][]c17Ev, panicked string) {
	n := len(scripts)
	reads = make([][]c17Read, n)
	evs = make([][]c17Ev, n)
	panics := make([]string, n)
	var armed atomic.Int32
	budget := c17HotSpin
	switch {
	case n >= runtime.GOMAXPROCS(0):
		budget = c17HotSpin / 16 // they cannot all be on a CPU at once: do not wait long for that
	case n > 4:
		budget = c17HotSpin / 4
	}
	start := make(chan struct{})
	var arrived, wg sync.WaitGroup
	arrived.Add(n)
	for g := range scripts {
		wg.Add(1)
		go func(g int) {
			defer wg.Done()
			defer func() {
				if r := recover(); r != nil {
					panics[g] = fmt.Sprintf("goroutine %d: %v\n%s", g, r, debug.Stack())
				}
			}()
			sc := scripts[g]
			arrived.Done()
			<-start
			armed.Add(1)
			for spin := 0; int(armed.Load()) < n && spin < budget; spin++ {
			}
			for i, op := range sc {
				if clk != nil {
					call := clk.Add(1)
					obs := c17Do(s, op)
					ret := clk.Add(1)
					evs[g] = append(evs[g], c17Ev{G: g, Op: op, Call: call, Ret: ret, Obs: obs})
				} else if obs := c17Do(s, op); obs != nil {
					reads[g] = append(reads[g], c17Read{I: i, Obs: obs})
				}
				if op.Y {
					runtime.Gosched()
				}
			}
		}(g)
	}
	arrived.Wait()
	close(start)
	wg.Wait()
	for _, p := range panics {
		if p != "" {
			panicked += p + "\n"
		}
	}
	return reads, evs, panicked
}

// ---- the quiescence / bounds oracle shared by C17/burst and C17/global --------------------------------------

type c17Sums struct {
	incr, decr, r, mn, ms, k map[string]uint64
}

func newC17Sums() c17Sums {
	return c17Sums{incr: map[string]uint64{}, decr: map[string]uint64{}, r: map[string]uint64{}, mn: map[string]uint64{}, ms: map[string]uint64{}, k: map[string]uint64{}}
}

func (a c17Sums) apply(s c17Sys, op c17Op) {
	n := uint64(op.reps())
	switch op.K {
	case "incr":
		a.incr[op.O] += n * op.V
	case "decr":
		a.decr[op.O] += n * op.V
	case "rincr":
		a.r[op.O] += n * op.V
	case "add":
		a.mn[op.O] += n
		a.ms[op.O] += n * s.MeanUnit(op.V)
	case "kincr":
		a.k[strconv.Itoa(op.Key)] += n * op.V
	}
}

func c17RunCase(t veriflib.TB, facet string, s c17Sys, objs c17Objs, m *c17Model, c c17Case) {
	fail := func(hist any, format string, args ...any) {
		veriflib.Fail(t, "C17", facet, c, hist, format, args...)
	}
	quiescent := func(where string) {
		for _, o := range objs.counters {
			if got := s.Get(o); got != m.gauge[o] {
				fail(nil, "%s: gauge %q reads %d, live workers (Σincr−Σdecr since its last reset) = %d", where, o, got, m.gauge[o])
			}
		}
		for _, o := range objs.rates {
			if got := s.Total(o); got != m.total[o] {
				fail(nil, "%s: total of %q reads %d, number of events that happened = %d", where, o, got, m.total[o])
			}
		}
		for _, o := range objs.means {
			want := c17MeanOf(m.mn[o], m.ms[o])
			if got := s.MGet(o); got != want {
				fail(nil, "%s: mean %q reads %v, Σ/n = %d/%d = %v", where, o, got, m.ms[o], m.mn[o], want)
			}
		}
		all := s.KAll()
		for k, want := range m.key {
			if got, ok := all[k]; !ok || got != want {
				fail(all, "%s: per-key total %q reads %d (present=%v) in getAllTotal, events = %d", where, k, got, ok, want)
			}
			if got := s.KTotal(k); got != want {
				fail(all, "%s: per-key total %q reads %d, events = %d", where, k, got, want)
			}
		}
		if len(all) != len(m.key) {
			fail(all, "%s: getAllTotal reports %d keys, %d keys ever had an event", where, len(all), len(m.key))
		}
		if tui := s.TUI(); tui != nil {
			for _, ob := range c17TUIObs(tui) {
				switch ob.Kind {
				case "total":
					if ob.U != m.total[ob.O] {
						fail(nil, "%s: GetMapTUI total %q = %d, events = %d", where, ob.O, ob.U, m.total[ob.O])
					}
				case "gauge":
					if ob.U != m.gauge[ob.O] {
						fail(nil, "%s: GetMapTUI gauge %q = %d, live workers = %d", where, ob.O, ob.U, m.gauge[ob.O])
					}
				case "mean":
					if want := c17MeanOf(m.mn[ob.O], m.ms[ob.O]); ob.F != want {
						fail(nil, "%s: GetMapTUI mean %q = %v, Σ/n = %v", where, ob.O, ob.F, want)
					}
				}
			}
		}
		if msg := s.Extra(m); msg != "" {
			fail(nil, "%s: %s", where, msg)
		}
	}

	quiescent("before the first phase")
	for pi, ph := range c.Phases {
		for _, r := range ph.Reset {
			s.Reset(r)
			m.reset(r, objs)
		}
		if len(ph.Reset) > 0 {
			quiescent(fmt.Sprintf("after the resets %v before phase %d", ph.Reset, pi))
		}
		reads, _, panicked := c17RunPhase(s, ph.G, nil)
		if panicked != "" {
			fail(nil, "panic in code under test during phase %d: %s", pi, panicked)
		}
		// what the whole phase adds
		tot := newC17Sums()
		for _, sc := range ph.G {
			for _, op := range sc {
				tot.apply(s, op)
			}
		}
		// every mid-burst read against bounds that hold in every interleaving
		for g, sc := range ph.G {
			own := newC17Sums()
			ri := 0
			for i, op := range sc {
				if ri < len(reads[g]) && reads[g][ri].I == i {
					for _, ob := range reads[g][ri].Obs {
						if msg := c17Bound(m, tot, own, g, ob); msg != "" {
							fail(reads[g], "phase %d goroutine %d op %d (%s): %s", pi, g, i, op.K, msg)
						}
					}
					ri++
				}
				own.apply(s, op)
			}
		}
		// fold the phase into the model
		for o, v := range tot.incr {
			m.gauge[o] += v
		}
		for o, v := range tot.decr {
			m.gauge[o] -= v
		}
		for g, sc := range ph.G {
			for _, op := range sc {
				if op.K == "incr" || op.K == "decr" {
					if m.outst[op.O] == nil {
						m.outst[op.O] = map[int]uint64{}
					}
					if op.K == "incr" {
						m.outst[op.O][g] += uint64(op.reps()) * op.V
					} else {
						m.outst[op.O][g] -= uint64(op.reps()) * op.V
					}
				}
			}
		}
		for o, v := range tot.r {
			m.total[o] += v
		}
		for o, v := range tot.mn {
			m.mn[o] += v
			m.ms[o] += tot.ms[o]
		}
		for k, v := range tot.k {
			m.key[k] += v
		}
		quiescent(fmt.Sprintf("at quiescence after phase %d", pi))
	}
}

// c17Bound checks one mid-burst observation of goroutine g. m is the state at the start of the phase, tot what the
// whole phase adds, own what g itself has completed so far in the phase. The bounds hold for every interleaving of
// a correct implementation (and do not assume that a mean read is an atomic snapshot of count and sum):
//
//	total / per-key total: start + own <= r <= start + all         (monotone counters)
//	gauge: own outstanding units <= r <= start + all increments    (every goroutine's outstanding is >= 0)
//	mean:  (Σstart+Σown)/(nstart+nall) <= r <= (Σstart+Σall)/max(1,nstart+nown), or 0 while no sample can be seen
func c17Bound(m *c17Model, tot, own c17Sums, g int, ob c17Obs) string {
	switch ob.Kind {
	case "total":
		lo, hi := m.total[ob.O]+own.r[ob.O], m.total[ob.O]+tot.r[ob.O]
		if ob.U < lo || ob.U > hi {
			return fmt.Sprintf("total of %q read as %d outside [%d, %d] (start %d + own completed events .. + all events of the phase)", ob.O, ob.U, lo, hi, m.total[ob.O])
		}
	case "ktotal":
		lo, hi := m.key[ob.O]+own.k[ob.O], m.key[ob.O]+tot.k[ob.O]
		if ob.U < lo || ob.U > hi {
			return fmt.Sprintf("per-key total %q read as %d outside [%d, %d]", ob.O, ob.U, lo, hi)
		}
	case "kall":
		for k, v := range ob.M {
			_, known := m.key[k]
			if _, inPhase := tot.k[k]; !known && !inPhase {
				return fmt.Sprintf("getAllTotal reports key %q = %d which never had an event", k, v)
			}
			lo, hi := m.key[k]+own.k[k], m.key[k]+tot.k[k]
			if v < lo || v > hi {
				return fmt.Sprintf("getAllTotal reports %q = %d outside [%d, %d]", k, v, lo, hi)
			}
		}
		for k := range m.key {
			if _, ok := ob.M[k]; !ok {
				return fmt.Sprintf("getAllTotal lost key %q (it had %d events before the phase)", k, m.key[k])
			}
		}
		for k, v := range own.k {
			if _, ok := ob.M[k]; !ok && v > 0 {
				return fmt.Sprintf("getAllTotal does not report key %q after this goroutine's own %d events on it", k, v)
			}
		}
	case "gauge":
		lo := m.outst[ob.O][g] + own.incr[ob.O] - own.decr[ob.O]
		hi := m.gauge[ob.O] + tot.incr[ob.O]
		if ob.U < lo || ob.U > hi {
			return fmt.Sprintf("gauge %q read as %d outside [%d, %d] (own live units .. start + all increments of the phase)", ob.O, ob.U, lo, hi)
		}
	case "mean":
		n0, s0 := m.mn[ob.O], m.ms[ob.O]
		if math.IsNaN(ob.F) || math.IsInf(ob.F, 0) || ob.F < 0 {
			return fmt.Sprintf("mean %q read as %v", ob.O, ob.F)
		}
		nLo, nHi := n0+own.mn[ob.O], n0+tot.mn[ob.O]
		sLo, sHi := s0+own.ms[ob.O], s0+tot.ms[ob.O]
		if ob.F == 0 && (nLo == 0 || sLo == 0) {
			return ""
		}
		if nHi == 0 {
			return fmt.Sprintf("mean %q read as %v although no sample exists", ob.O, ob.F)
		}
		lo := float64(sLo) / float64(nHi)
		hi := float64(sHi) / float64(max(nLo, 1))
		if ob.F < lo || ob.F > hi {
			return fmt.Sprintf("mean %q read as %v outside [%v, %v] (n in [%d,%d], Σ in [%d,%d])", ob.O, ob.F, lo, hi, nLo, nHi, sLo, sHi)
		}
	}
	return ""
}

// ---- generators -----------------------------------------------------------------------------------------

var c17Codes = []int{200, 204, 206, 301, 302, 304, 400, 403, 404, 410, 429, 500, 502, 503}

type c17GenCfg struct {
	global    bool
	kinds     []string
	objs      c17Objs
	gBuckets  [][2]int
	maxOps    int // per goroutine and phase
	maxTotal  int // over the whole case (0 = no limit); enforced as maxTotal/(goroutines*phases) per script
	maxPhases int
	maxKeys   int
	maxRepeat int
	resets    []string // candidates for between-phase resets ("key" and "counter"/"rate"/"mean" are expanded per object)
}

func genC17Case(t *rapid.T, cfg c17GenCfg) c17Case {
	nPh := rapid.IntRange(1, cfg.maxPhases).Draw(t, "phases")
	mix := rapid.SliceOfNDistinct(rapid.SampledFrom(cfg.kinds), 1, len(cfg.kinds), rapid.ID[string]).Draw(t, "mix")
	keys := rapid.SliceOfNDistinct(rapid.SampledFrom(c17Codes), 1, cfg.maxKeys, rapid.ID[int]).Draw(t, "keys")
	pick := func(all []string, label string) []string {
		if len(all) == 1 {
			return all
		}
		return rapid.SliceOfNDistinct(rapid.SampledFrom(all), 1, len(all), rapid.ID[string]).Draw(t, label)
	}
	counters, rates, means := pick(cfg.objs.counters, "counters"), pick(cfg.objs.rates, "rates"), pick(cfg.objs.means, "means")
	ymode := rapid.IntRange(0, 2).Draw(t, "ymode") // none | sparse | dense
	gb := cfg.gBuckets[rapid.IntRange(0, len(cfg.gBuckets)-1).Draw(t, "gbucket")]
	outst := map[string]map[int]uint64{}
	var c c17Case
	for pi := 0; pi < nPh; pi++ {
		var ph c17Phase
		if pi > 0 && len(cfg.resets) > 0 {
			for _, r := range rapid.SliceOfNDistinct(rapid.SampledFrom(cfg.resets), 0, len(cfg.resets), rapid.ID[string]).Draw(t, "resets") {
				switch r {
				case "counter":
					r += ":" + rapid.SampledFrom(counters).Draw(t, "ro")
				case "rate":
					r += ":" + rapid.SampledFrom(rates).Draw(t, "ro")
				case "mean":
					r += ":" + rapid.SampledFrom(means).Draw(t, "ro")
				case "key":
					r += ":" + strconv.Itoa(rapid.SampledFrom(keys).Draw(t, "rk"))
				}
				ph.Reset = append(ph.Reset, r)
				kind, arg, _ := strings.Cut(r, ":")
				if kind == "counter" {
					delete(outst, arg)
				} else if kind == "all" {
					outst = map[string]map[int]uint64{}
				}
			}
		}
		nG := rapid.IntRange(gb[0], gb[1]).Draw(t, "goroutines")
		maxOps := cfg.maxOps
		if cfg.maxTotal > 0 {
			maxOps = min(maxOps, max(1, cfg.maxTotal/(nG*nPh)))
		}
		for g := 0; g < nG; g++ {
			nOps := rapid.IntRange(1, maxOps).Draw(t, "ops")
			sc := make([]c17Op, 0, nOps)
			for i := 0; i < nOps; i++ {
				sc = append(sc, genC17Op(t, cfg, mix, keys, counters, rates, means, ymode, outst, g))
			}
			ph.G = append(ph.G, sc)
		}
		c.Phases = append(c.Phases, ph)
	}
	return c
}

func genC17Op(t *rapid.T, cfg c17GenCfg, mix []string, keys []int, counters, rates, means []string, ymode int, outst map[string]map[int]uint64, g int) c17Op {
	op := c17Op{K: rapid.SampledFrom(mix).Draw(t, "k")}
	rep := func() int {
		if cfg.maxRepeat <= 1 {
			return 0
		}
		if n := rapid.IntRange(1, cfg.maxRepeat).Draw(t, "n"); n > 1 {
			return n
		}
		return 0
	}
	step := func() uint64 {
		if cfg.global {
			return 1 // the exported methods always step by 1
		}
		return uint64(rapid.SampledFrom([]int{1, 1, 1, 2, 3}).Draw(t, "v"))
	}
	switch op.K {
	case "incr", "decr", "get":
		op.O = rapid.SampledFrom(counters).Draw(t, "o")
		if outst[op.O] == nil {
			outst[op.O] = map[int]uint64{}
		}
		if op.K == "decr" && outst[op.O][g] == 0 {
			op.K = "incr" // a worker only decrements what it incremented itself
		}
		switch op.K {
		case "incr":
			op.V, op.N = step(), rep()
			outst[op.O][g] += op.V * uint64(op.reps())
		case "decr":
			have := outst[op.O][g]
			op.V = 1
			if !cfg.global && have >= 2 {
				op.V = uint64(rapid.IntRange(1, int(min(have, 3))).Draw(t, "v"))
			}
			if n := int(min(have/op.V, uint64(max(cfg.maxRepeat, 1)))); n > 1 {
				if n = rapid.IntRange(1, n).Draw(t, "n"); n > 1 {
					op.N = n
				}
			}
			outst[op.O][g] -= op.V * uint64(op.reps())
		}
	case "rincr":
		op.O, op.V, op.N = rapid.SampledFrom(rates).Draw(t, "o"), step(), rep()
	case "rget", "total":
		op.O = rapid.SampledFrom(rates).Draw(t, "o")
	case "add":
		op.O, op.N = rapid.SampledFrom(means).Draw(t, "o"), rep()
		if cfg.global {
			// a time.Since() duration in nanoseconds: whole milliseconds + a sub-millisecond remainder
			op.V = rapid.Uint64Range(0, 120_000).Draw(t, "ms")*1_000_000 + rapid.Uint64Range(0, 999_999).Draw(t, "ns")
			if rapid.IntRange(0, 9).Draw(t, "long") == 0 {
				// a long crawl in a few samples: the accumulated time passes 2^32 ms (49.7 days) after a handful of them
				op.V = rapid.Uint64Range(1, 40).Draw(t, "days") * 86_400_000_000_000
			}
		} else {
			op.V = rapid.Uint64Range(0, 600_000).Draw(t, "v")
			if rapid.IntRange(0, 9).Draw(t, "long") == 0 {
				op.V = uint64(1) << rapid.IntRange(28, 40).Draw(t, "log2v")
			}
		}
	case "mget":
		op.O = rapid.SampledFrom(means).Draw(t, "o")
	case "kincr":
		op.Key, op.V, op.N = rapid.SampledFrom(keys).Draw(t, "key"), step(), rep()
	case "kget", "ktotal", "kfilt":
		op.Key = rapid.SampledFrom(keys).Draw(t, "key")
	}
	switch ymode {
	case 1:
		op.Y = rapid.IntRange(0, 7).Draw(t, "y") == 0
	case 2:
		op.Y = rapid.Bool().Draw(t, "y")
	}
	return op
}

var c17AllBuckets = [][2]int{{2, 2}, {3, 4}, {5, 8}, {9, 16}, {17, 32}}

var c17BurstCfg = c17GenCfg{
	kinds:    []string{"incr", "decr", "get", "rincr", "rget", "total", "add", "mget", "kincr", "kget", "ktotal", "kall", "kfilt"},
	objs:     c17LocalObjs,
	gBuckets: c17AllBuckets, maxOps: 24, maxPhases: 3, maxKeys: 6, maxRepeat: 48,
	resets: []string{"counter", "rate", "mean", "bucket", "key"},
}

var c17GlobalCfg = c17GenCfg{
	global:   true,
	kinds:    []string{"incr", "decr", "get", "rincr", "rget", "total", "add", "mget", "kincr", "kget", "ktotal", "kall", "kfilt", "tui"},
	objs:     c17GlobalObjs,
	gBuckets: c17AllBuckets, maxOps: 20, maxPhases: 2, maxKeys: 6, maxRepeat: 32,
	resets: []string{"all", "counter", "rate", "mean", "bucket", "key"},
}

// ---- write-ahead journal -----------------------------------------------------------------------------------

// A fatal runtime error in the code under test ("concurrent map writes", a deadlock reported by the test timeout)
// kills the process on a worker goroutine: no recover, no deferred call, rapid never sees it. Each case is
// therefore written (one pwrite + truncate on an open file) in replay-file format before it runs, under a name the
// driver picks up as this shard's failing case if the process dies, and removed when the test function returns.
var c17Jr struct {
	facet string
	path  string
	f     *os.File
}

func c17Journal(facet, caseJSON string) {
	dir := os.Getenv("VERIF_FAIL_DIR")
	if dir == "" || veriflib.Replaying() {
		return
	}
	if c17Jr.f == nil || c17Jr.facet != facet {
		c17JournalDone()
		os.MkdirAll(dir, 0o755)
		san := strings.NewReplacer("/", "_").Replace(facet)
		c17Jr.path = dir + "/fail-" + san + "_inflight-" + os.Getenv("VERIF_SHARD") + ".json"
		f, err := os.Create(c17Jr.path)
		if err != nil {
			return
		}
		c17Jr.f, c17Jr.facet = f, facet
	}
	b := []byte(`{"property":"C17","facet":"` + facet + `","message":"the test process died (fatal error in the code under test, race report under -race with halt_on_error, or test timeout) while this case was executing; see output_tail","seed":"` +
		os.Getenv("VERIF_SEED") + `","case":` + caseJSON + "}")
	c17Jr.f.WriteAt(b, 0)
	c17Jr.f.Truncate(int64(len(b)))
}

func c17JournalDone() {
	if c17Jr.f != nil {
		c17Jr.f.Close()
		os.Remove(c17Jr.path)
		c17Jr.f = nil
	}
}

// ---- facet C17/burst ------------------------------------------------------------------------------------

func propC17Burst(t veriflib.TB, c c17Case) {
	key := veriflib.JSON(c)
	c17Journal("C17/burst", key)
	c17RunCase(t, "C17/burst", newC17Local(), c17LocalObjs, newC17Model(), c)
	nt, cl := c17Shape(c)
	veriflib.Record("C17/burst", key, nt, cl, func() any { return c17Sample(c) })
}

// c17Sample keeps evidence samples small: the case itself when short, else its shape.
func c17Sample(c c17Case) any {
	ops := 0
	for _, ph := range c.Phases {
		for _, sc := range ph.G {
			ops += len(sc)
		}
	}
	if ops <= 24 {
		return c
	}
	shape := []any{}
	for _, ph := range c.Phases {
		lens := []int{}
		for _, sc := range ph.G {
			lens = append(lens, len(sc))
		}
		var first []c17Op
		if len(ph.G) > 0 {
			first = ph.G[0]
		}
		shape = append(shape, map[string]any{"reset": ph.Reset, "script_lengths": lens, "first_script": first})
	}
	return map[string]any{"ops": ops, "phases": shape}
}

// c17ReplayRepeat: interleavings are the scheduler's, so a replayed case is executed many times.
func c17ReplayRepeat() int { return veriflib.N("C17_REPLAY_REPEAT", 3000, 3000) }

func TestVerif_C17_Burst(t *testing.T) {
	defer veriflib.Flush()
	defer c17JournalDone()
	var rc c17Case
	if veriflib.ReplayCase("C17/burst", &rc) {
		for i := 0; i < c17ReplayRepeat(); i++ {
			propC17Burst(t, rc)
		}
		return
	} else if veriflib.Replaying() {
		t.Skip()
	}
	rapid.Check(t, func(t *rapid.T) {
		c := genC17Case(t, c17BurstCfg)
		veriflib.Guard("C17", "C17/burst", c, func() { propC17Burst(t, c) })
	})
}

// ---- facet C17/global -----------------------------------------------------------------------------------

func genC17Global(t *rapid.T) c17Case {
	c := genC17Case(t, c17GlobalCfg)
	// usually finish with a "stop" phase in which every worker runs its deferred Decr
	if rapid.IntRange(0, 3).Draw(t, "stop") > 0 {
		live := map[string]map[int]uint64{}
		maxG := 0
		for _, ph := range c.Phases {
			for _, r := range ph.Reset {
				kind, arg, _ := strings.Cut(r, ":")
				if kind == "all" {
					live = map[string]map[int]uint64{}
				} else if kind == "counter" {
					delete(live, arg)
				}
			}
			maxG = max(maxG, len(ph.G))
			for g, sc := range ph.G {
				for _, op := range sc {
					if op.K == "incr" || op.K == "decr" {
						if live[op.O] == nil {
							live[op.O] = map[int]uint64{}
						}
						if op.K == "incr" {
							live[op.O][g] += uint64(op.reps())
						} else {
							live[op.O][g] -= uint64(op.reps())
						}
					}
				}
			}
		}
		stop := c17Phase{G: make([][]c17Op, maxG)}
		some := false
		for g := 0; g < maxG; g++ {
			stop.G[g] = []c17Op{}
			for _, o := range c17GlobalObjs.counters {
				for n := live[o][g]; n > 0; {
					k := min(n, uint64(rapid.IntRange(1, 8).Draw(t, "chunk")))
					op := c17Op{K: "decr", O: o, V: 1, Y: rapid.Bool().Draw(t, "y")}
					if k > 1 {
						op.N = int(k)
					}
					stop.G[g] = append(stop.G[g], op)
					n -= k
					some = true
				}
			}
		}
		if some {
			c.Phases = append(c.Phases, stop)
		}
	}
	return c
}

func propC17Global(t veriflib.TB, c c17Case) {
	if err := Init(); err != nil && err != ErrStatsAlreadyInitialized {
		t.Fatalf("stats.Init: %v", err)
	}
	key := veriflib.JSON(c)
	c17Journal("C17/global", key)
	s := c17Global{}
	// isolate the case: Reset() at quiescence, then take the lifetime totals (which Reset leaves) as the baseline
	Reset()
	m := newC17Model()
	for _, o := range c17GlobalObjs.rates {
		m.total[o] = s.Total(o)
	}
	for k, v := range s.KAll() {
		m.key[k] = v
	}
	c17RunCase(t, "C17/global", s, c17GlobalObjs, m, c)
	nt, cl := c17Shape(c)
	stopped := true
	for _, o := range c17GlobalObjs.counters {
		if m.gauge[o] != 0 {
			stopped = false
		}
	}
	if stopped {
		cl = append(cl, "end:all-workers-stopped")
	} else {
		cl = append(cl, "end:live-workers")
	}
	veriflib.Record("C17/global", key, nt, cl, func() any { return c17Sample(c) })
}

func TestVerif_C17_Global(t *testing.T) {
	defer veriflib.Flush()
	defer c17JournalDone()
	var rc c17Case
	if veriflib.ReplayCase("C17/global", &rc) {
		for i := 0; i < c17ReplayRepeat(); i++ {
			propC17Global(t, rc)
		}
		return
	} else if veriflib.Replaying() {
		t.Skip()
	}
	rapid.Check(t, func(t *rapid.T) {
		c := genC17Global(t)
		veriflib.Guard("C17", "C17/global", c, func() { propC17Global(t, c) })
	})
}

// ---- facet C17/linearizable -----------------------------------------------------------------------------

const c17MeanTornKey = "C17-mean-read-torn"

// c17MeanStrict: mean.get() loads count and sum separately while add() updates them separately, so a read that
// overlaps an add is not an atomic snapshot (TestVerifKF_C17_MeanReadTorn reproduces it). The statement demands
// "means equal sum over count" after the burst, which holds; linearizability of a mean read during the burst is more
// than the statement says. Therefore the strict form (porcupine on mean reads) is demanded only with VERIF_STRICT=1
// or once known_findings.json lists c17MeanTornKey as fixed; otherwise a mean history that porcupine rejects must
// still satisfy the per-field specification (c17MeanRegular) and is counted as excluded.
func c17MeanStrict() bool {
	if os.Getenv("VERIF_STRICT") == "1" {
		return true
	}
	b, err := os.ReadFile(os.Getenv("VERIF_KNOWN"))
	if err != nil {
		return false
	}
	var doc struct {
		Findings []struct{ Key, Status string } `json:"findings"`
	}
	if json.Unmarshal(b, &doc) != nil {
		return false
	}
	for _, f := range doc.Findings {
		if f.Key == c17MeanTornKey && f.Status == "fixed" {
			return true
		}
	}
	return false
}

type c17LinIn struct {
	K   string
	Key int // index into the case's sorted key list
	V   uint64
}

type c17LinOut struct {
	U uint64
	F float64
	A [c17LinKeys]int64 // kall: per key index total, -1 = absent
	X bool              // kall: a key outside the case's key list was reported
}

const c17LinKeys = 3

const c17LinPerCheck = 5

type c17LinState struct {
	A, B uint64 // counter value | rate total | mean (count, sum)
	K    [c17LinKeys]uint64
	P    [c17LinKeys]bool
}

// c17LinModel is the sequential specification of the four objects (operation kinds are disjoint, one object per case).
var c17LinModel = porcupine.Model{
	Init: func() interface{} { return c17LinState{} },
	Step: func(state, input, output interface{}) (bool, interface{}) {
		st, in, out := state.(c17LinState), input.(c17LinIn), output.(c17LinOut)
		switch in.K {
		case "incr":
			st.A += in.V
		case "decr":
			st.A -= in.V
		case "get", "total":
			return out.U == st.A, st
		case "reset:counter":
			st.A = 0
		case "rincr":
			st.A += in.V
		case "rget", "kget", "kfilt", "reset:rate", "reset:bucket", "reset:key":
			// per-second window only: no effect on totals, output not specified
		case "add":
			st.A++
			st.B += in.V
		case "mget":
			return out.F == c17MeanOf(st.A, st.B), st
		case "reset:mean":
			st.A, st.B = 0, 0
		case "kincr":
			st.K[in.Key] += in.V
			st.P[in.Key] = true
		case "ktotal":
			return out.U == st.K[in.Key], st
		case "kall":
			if out.X {
				return false, st
			}
			for i := range st.K {
				if st.P[i] != (out.A[i] >= 0) || st.P[i] && uint64(out.A[i]) != st.K[i] {
					return false, st
				}
			}
		}
		return true, st
	},
	DescribeOperation: func(input, output interface{}) string { return fmt.Sprintf("%+v -> %+v", input, output) },
}

var c17LinObjects = map[string]struct {
	kinds  []string
	resets []string
	read   c17Op
}{
	"counter": {[]string{"incr", "incr", "decr", "get", "get"}, []string{"counter"}, c17Op{K: "get", O: "c"}},
	"rate":    {[]string{"rincr", "rincr", "total", "total", "rget"}, []string{"rate"}, c17Op{K: "total", O: "r"}},
	"mean":    {[]string{"add", "add", "mget", "mget"}, []string{"mean"}, c17Op{K: "mget", O: "m"}},
	"bucket":  {[]string{"kincr", "kincr", "kincr", "ktotal", "ktotal", "kall", "kget", "kfilt"}, []string{"bucket", "key"}, c17Op{K: "kall"}},
}

func genC17Lin(t *rapid.T) c17Case {
	obj := rapid.SampledFrom([]string{"counter", "rate", "mean", "bucket"}).Draw(t, "obj")
	spec := c17LinObjects[obj]
	cfg := c17GenCfg{kinds: spec.kinds, objs: c17LocalObjs, gBuckets: [][2]int{{2, 2}, {3, 4}}, maxOps: 10, maxTotal: 20,
		maxPhases: 2, maxKeys: c17LinKeys, maxRepeat: 1, resets: spec.resets}
	// kinds are listed with multiplicity for weighting; the mix is drawn over the distinct ones
	seen := map[string]bool{}
	cfg.kinds = nil
	for _, k := range spec.kinds {
		if !seen[k] {
			seen[k] = true
			cfg.kinds = append(cfg.kinds, k)
		}
	}
	c := genC17Case(t, cfg)
	c.Obj = obj
	return c
}

func c17LinOps(c c17Case, evs []c17Ev) ([]porcupine.Operation, string) {
	keyIdx := map[string]int{}
	var codes []int
	seen := map[int]bool{}
	note := func(k int) {
		if !seen[k] {
			seen[k] = true
			codes = append(codes, k)
		}
	}
	for _, ph := range c.Phases {
		for _, r := range ph.Reset {
			if kind, arg, _ := strings.Cut(r, ":"); kind == "key" {
				k, _ := strconv.Atoi(arg)
				note(k)
			}
		}
		for _, sc := range ph.G {
			for _, op := range sc {
				if strings.HasPrefix(op.K, "k") && op.K != "kall" {
					note(op.Key)
				}
			}
		}
	}
	sort.Ints(codes)
	if len(codes) > c17LinKeys {
		return nil, fmt.Sprintf("case uses %d keys, the model holds %d", len(codes), c17LinKeys)
	}
	for i, k := range codes {
		keyIdx[strconv.Itoa(k)] = i
	}
	ops := make([]porcupine.Operation, 0, len(evs))
	for _, e := range evs {
		in := c17LinIn{K: e.Op.K, V: e.Op.V, Key: keyIdx[strconv.Itoa(e.Op.Key)]}
		var out c17LinOut
		for _, ob := range e.Obs {
			out.U, out.F = ob.U, ob.F
			if ob.Kind == "kall" {
				for i := range out.A {
					out.A[i] = -1
				}
				for k, v := range ob.M {
					if i, ok := keyIdx[k]; ok {
						out.A[i] = int64(v)
					} else {
						out.X = true
					}
				}
			}
		}
		ops = append(ops, porcupine.Operation{ClientId: e.G, Input: in, Call: e.Call, Output: out, Return: e.Ret})
	}
	return ops, ""
}

// c17MeanRegular is the per-field specification of a mean read: count and sum are each an atomic, monotone register,
// so a read returns float64(S)/float64(C) (0 when C == 0) where C counts every add that returned before the read was
// called plus any number of the adds that overlap it, and S sums every add that returned before plus any subset of
// the overlapping ones. Adds and reads of one reset-free stretch only (n0, s0 = exact state at its start).
func c17MeanRegular(n0, s0 uint64, evs []c17Ev) string {
	for _, r := range evs {
		if r.Op.K != "mget" {
			continue
		}
		nb, sb := n0, s0
		var over []uint64
		for _, a := range evs {
			if a.Op.K != "add" {
				continue
			}
			switch {
			case a.Ret < r.Call:
				nb++
				sb += a.Op.V
			case a.Call < r.Ret:
				over = append(over, a.Op.V)
			}
		}
		if len(over) > 16 {
			continue
		}
		got := r.Obs[0].F
		sums := map[uint64]bool{sb: true}
		for _, v := range over {
			next := make(map[uint64]bool, 2*len(sums))
			for s := range sums {
				next[s], next[s+v] = true, true
			}
			sums = next
		}
		ok := false
		for i := 0; i <= len(over) && !ok; i++ {
			for s := range sums {
				if got == c17MeanOf(nb+uint64(i), s) {
					ok = true
					break
				}
			}
		}
		if !ok {
			return fmt.Sprintf("mean read by goroutine %d [%d,%d] returned %v: not Σ/n for any n in [%d,%d] and any Σ = %d + subset of the overlapping samples %v",
				r.G, r.Call, r.Ret, got, nb, nb+uint64(len(over)), sb, over)
		}
	}
	return ""
}

func propC17Linearizable(t veriflib.TB, c c17Case) {
	const facet = "C17/linearizable"
	spec, ok := c17LinObjects[c.Obj]
	if !ok {
		t.Fatalf("bad case: object %q", c.Obj)
	}
	key := veriflib.JSON(c)
	c17Journal(facet, key)
	s := newC17Local()
	var clk atomic.Int64
	var hist []c17Ev
	driver := 1 << 10 // client id of the driver goroutine (resets and quiescent reads)
	stamp := func(op c17Op, f func() []c17Obs) {
		call := clk.Add(1)
		obs := f()
		hist = append(hist, c17Ev{G: driver, Op: op, Call: call, Ret: clk.Add(1), Obs: obs})
	}
	type stretch struct {
		n0, s0 uint64
		evs    []c17Ev
	}
	var stretches []stretch
	var mn, ms uint64 // exact mean state at quiescence, from the script
	overlap := false
	for pi, ph := range c.Phases {
		for _, r := range ph.Reset {
			kind, _, _ := strings.Cut(r, ":")
			stamp(c17Op{K: "reset:" + kind}, func() []c17Obs { s.Reset(r); return nil })
			if kind == "mean" {
				mn, ms = 0, 0
			}
		}
		_, evs, panicked := c17RunPhase(s, ph.G, &clk)
		if panicked != "" {
			veriflib.Fail(t, "C17", facet, c, hist, "panic in code under test during phase %d: %s", pi, panicked)
		}
		st := stretch{n0: mn, s0: ms}
		for g, ge := range evs {
			hist = append(hist, ge...)
			st.evs = append(st.evs, ge...)
			for _, e := range ge {
				if e.Op.K == "add" {
					mn++
					ms += e.Op.V
				}
				for g2 := g + 1; g2 < len(evs) && !overlap; g2++ {
					for _, e2 := range evs[g2] {
						if e.Call < e2.Ret && e2.Call < e.Ret {
							overlap = true
							break
						}
					}
				}
			}
		}
		stretches = append(stretches, st)
		// a read at quiescence is part of the history: it pins the state the phase must have produced
		stamp(spec.read, func() []c17Obs { return c17Do(s, spec.read) })
	}
	ops, bad := c17LinOps(c, hist)
	if bad != "" {
		t.Fatalf("bad case: %s", bad)
	}
	nt, cl := c17Shape(c)
	cl = append(cl, "obj:"+c.Obj)
	if overlap {
		cl = append(cl, "observed-overlap:yes")
	} else {
		cl = append(cl, "observed-overlap:no")
	}
	if !porcupine.CheckOperations(c17LinModel, ops) {
		if c.Obj == "mean" && !c17MeanStrict() {
			for _, st := range stretches {
				if msg := c17MeanRegular(st.n0, st.s0, st.evs); msg != "" {
					veriflib.Fail(t, "C17", facet, c, hist, "%s", msg)
				}
			}
			// the quiescent reads are exact? (porcupine rejected the whole history; the final states are re-checked alone)
			var n, sum uint64
			for _, e := range hist {
				switch {
				case e.Op.K == "reset:mean":
					n, sum = 0, 0
				case e.Op.K == "add":
					n++
					sum += e.Op.V
				case e.Op.K == "mget" && e.G == driver:
					if e.Obs[0].F != c17MeanOf(n, sum) {
						veriflib.Fail(t, "C17", facet, c, hist, "mean at quiescence reads %v, Σ/n = %d/%d", e.Obs[0].F, sum, n)
					}
				}
			}
			veriflib.Excluded(facet, "mean read overlapping an add is not an atomic snapshot of (count, sum): history not linearizable, per-field specification holds ("+c17MeanTornKey+")")
			cl = append(cl, "mean:torn-read-observed")
		} else {
			veriflib.Fail(t, "C17", facet, c, hist, "history of %d operations on the %s is not linearizable w.r.t. the sequential specification", len(ops), c.Obj)
		}
	}
	veriflib.Record(facet, key, nt, cl, func() any { return c })
}

func TestVerif_C17_Linearizable(t *testing.T) {
	defer veriflib.Flush()
	defer c17JournalDone()
	var rc c17Case
	if veriflib.ReplayCase("C17/linearizable", &rc) {
		for i := 0; i < c17ReplayRepeat(); i++ {
			propC17Linearizable(t, rc)
		}
		return
	} else if veriflib.Replaying() {
		t.Skip()
	}
	rapid.Check(t, func(t *rapid.T) {
		// small histories are cheap (about a sixth of a burst case): several independent ones per rapid check
		for i := 0; i < c17LinPerCheck; i++ {
			c := genC17Lin(t)
			veriflib.Guard("C17", "C17/linearizable", c, func() { propC17Linearizable(t, c) })
		}
	})
}

// ---- oracle self-test: the porcupine model accepts a sequential run and rejects planted wrong reads ---------

func TestVerif_C17_OracleSelfTest(t *testing.T) {
	if veriflib.Replaying() {
		t.Skip()
	}
	mk := func(evs ...c17Ev) []porcupine.Operation {
		for i := range evs {
			evs[i].Call, evs[i].Ret = int64(2*i+1), int64(2*i+2)
		}
		ops, _ := c17LinOps(c17Case{}, evs)
		return ops
	}
	rd := func(k string, u uint64, f float64) c17Ev {
		return c17Ev{Op: c17Op{K: k}, Obs: []c17Obs{{U: u, F: f}}}
	}
	good := mk(c17Ev{Op: c17Op{K: "incr", V: 2}}, c17Ev{Op: c17Op{K: "decr", V: 1}}, rd("get", 1, 0))
	if !porcupine.CheckOperations(c17LinModel, good) {
		t.Fatalf("model rejects incr(2) decr(1) get->1")
	}
	lost := mk(c17Ev{Op: c17Op{K: "incr", V: 1}}, c17Ev{Op: c17Op{K: "incr", V: 1}}, rd("get", 1, 0))
	if porcupine.CheckOperations(c17LinModel, lost) {
		t.Fatalf("model accepts a lost update")
	}
	torn := mk(c17Ev{Op: c17Op{K: "add", V: 10}}, c17Ev{Op: c17Op{K: "add", V: 20}}, rd("mget", 0, 5))
	if porcupine.CheckOperations(c17LinModel, torn) {
		t.Fatalf("model accepts mean 5 after add(10) add(20)")
	}
	// overlapping add(20) and read: 10 and 15 are linearizable, 5 (count seen, sum not) is not but is "regular"
	for _, tc := range []struct {
		f            float64
		lin, regular bool
	}{{10, true, true}, {15, true, true}, {5, false, true}, {30, false, true}, {7, false, false}} {
		evs := []c17Ev{
			{G: 0, Op: c17Op{K: "add", V: 10}, Call: 1, Ret: 2},
			{G: 0, Op: c17Op{K: "add", V: 20}, Call: 3, Ret: 6},
			{G: 1, Op: c17Op{K: "mget"}, Call: 4, Ret: 5, Obs: []c17Obs{{Kind: "mean", F: tc.f}}},
		}
		ops, _ := c17LinOps(c17Case{}, evs)
		if got := porcupine.CheckOperations(c17LinModel, ops); got != tc.lin {
			t.Fatalf("mean read %v overlapping add(20) after add(10): linearizable=%v, expected %v", tc.f, got, tc.lin)
		}
		if got := c17MeanRegular(0, 0, evs) == ""; got != tc.regular {
			t.Fatalf("mean read %v overlapping add(20) after add(10): per-field spec holds=%v, expected %v", tc.f, got, tc.regular)
		}
	}
}

// ---- strict reproduction of the (proposed) finding C17-mean-read-torn ---------------------------------------

// Every sample is 10, so every atomic snapshot of (count, sum) has mean exactly 10 (or 0 before the first sample).
// A reader that sees anything else has read count and sum from different moments.
func TestVerifKF_C17_MeanReadTorn(t *testing.T) {
	if veriflib.Replaying() {
		t.Skip()
	}
	const adds = 3_000_000
	var m mean
	var stop atomic.Bool
	var bad atomic.Uint64 // float bits of the first torn value
	var wg sync.WaitGroup
	for r := 0; r < 2; r++ {
		wg.Add(1)
		go func() {
			defer wg.Done()
			for !stop.Load() {
				if v := m.get(); v != 0 && v != 10 {
					bad.CompareAndSwap(0, math.Float64bits(v))
					return
				}
			}
		}()
	}
	for i := 0; i < adds && bad.Load() == 0; i++ {
		m.add(10)
	}
	stop.Store(true)
	wg.Wait()
	if b := bad.Load(); b != 0 {
		veriflib.WriteFailure("C17", "C17/linearizable", map[string]any{"script": "1 writer: mean.add(10) repeatedly; 2 readers: mean.get()"}, nil,
			fmt.Sprintf("%s: mean.get() returned %v while every sample is 10", c17MeanTornKey, math.Float64frombits(b)))
		t.Fatalf("%s: mean.get() returned %v during a run in which every sample is 10: count and sum are read from different moments",
			c17MeanTornKey, math.Float64frombits(b))
	}
}

// ---- facet C17/rate-window ----------------------------------------------------------------------------------
//
// The first read of a rate (and the first one after a reset, and the first one of every new second) closes the
// one-second window while other goroutines keep counting: the moment at which a total could lose or double-count
// events. Short scripts of rate / per-key operations only, every case executed on fresh objects many times so that the
// window is closed under many interleavings; same reference model and bounds as C17/burst.

var c17WindowCfg = c17GenCfg{
	kinds:    []string{"rincr", "rget", "rget", "total", "kincr", "kget", "ktotal", "kall"},
	objs:     c17LocalObjs,
	gBuckets: [][2]int{{2, 2}, {3, 4}, {5, 8}}, maxOps: 8, maxPhases: 2, maxKeys: 2, maxRepeat: 6,
	resets: []string{"rate", "bucket", "key"},
}

func c17WindowRepeat() int { return veriflib.N("C17_WINDOW_REPEAT", 24, 48) }

func propC17Window(t veriflib.TB, c c17Case) {
	key := veriflib.JSON(c)
	c17Journal("C17/rate-window", key)
	for i := 0; i < c17WindowRepeat(); i++ {
		c17RunCase(t, "C17/rate-window", newC17Local(), c17LocalObjs, newC17Model(), c)
	}
	nt, cl := c17Shape(c)
	veriflib.Record("C17/rate-window", key, nt, cl, func() any { return c17Sample(c) })
}

func TestVerif_C17_RateWindow(t *testing.T) {
	defer veriflib.Flush()
	defer c17JournalDone()
	var rc c17Case
	if veriflib.ReplayCase("C17/rate-window", &rc) {
		for i := 0; i < c17ReplayRepeat(); i++ {
			propC17Window(t, rc)
		}
		return
	} else if veriflib.Replaying() {
		t.Skip()
	}
	rapid.Check(t, func(t *rapid.T) {
		c := genC17Case(t, c17WindowCfg)
		veriflib.Guard("C17", "C17/rate-window", c, func() { propC17Window(t, c) })
	})
}

// ---- facet C17/mean-window ----------------------------------------------------------------------------------
//
// Readers polling a mean while the last samples of a burst arrive (the TUI and the API poll all the time): whatever a
// read saw in passing, after the burst the mean is sum over count. Short scripts of add / read operations only, every
// case executed on fresh objects many times; same reference model and bounds as C17/burst.

var c17MeanCfg = c17GenCfg{
	kinds:    []string{"add", "add", "mget", "mget", "mget"},
	objs:     c17LocalObjs,
	gBuckets: [][2]int{{2, 2}, {3, 4}, {5, 8}}, maxOps: 8, maxPhases: 2, maxKeys: 1, maxRepeat: 4,
	resets: []string{"mean"},
}

func propC17MeanWindow(t veriflib.TB, c c17Case) {
	key := veriflib.JSON(c)
	c17Journal("C17/mean-window", key)
	for i := 0; i < c17WindowRepeat(); i++ {
		c17RunCase(t, "C17/mean-window", newC17Local(), c17LocalObjs, newC17Model(), c)
	}
	nt, cl := c17Shape(c)
	veriflib.Record("C17/mean-window", key, nt, cl, func() any { return c17Sample(c) })
}

func TestVerif_C17_MeanWindow(t *testing.T) {
	defer veriflib.Flush()
	defer c17JournalDone()
	var rc c17Case
	if veriflib.ReplayCase("C17/mean-window", &rc) {
		for i := 0; i < c17ReplayRepeat(); i++ {
			propC17MeanWindow(t, rc)
		}
		return
	} else if veriflib.Replaying() {
		t.Skip()
	}
	rapid.Check(t, func(t *rapid.T) {
		c := genC17Case(t, c17MeanCfg)
		veriflib.Guard("C17", "C17/mean-window", c, func() { propC17MeanWindow(t, c) })
	})
}
