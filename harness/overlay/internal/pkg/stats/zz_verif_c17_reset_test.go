package stats

// C17/concurrent-reset - resets issued by several goroutines at the same instant. Whatever the interleaving, a reset
// of a quiescent metric leaves it at zero (two resets are still a reset), and what is counted afterwards is reported
// exactly. Exported API only.

import (
	"fmt"
	"runtime"
	"sync"
	"sync/atomic"
	"testing"
	"time"

	"github.com/internetarchive/Zeno/internal/pkg/veriflib"
	"pgregory.net/rapid"
)

type c17ResetCase struct {
	Before    int  `json:"before"`    // events recorded before the burst
	Resetters int  `json:"resetters"` // goroutines resetting at once
	After     int  `json:"after"`     // events recorded after the burst
	Rounds    int  `json:"rounds"`
	Whole     bool `json:"whole"` // one of the resetters calls Reset() (everything) instead of the per-metric reset
}

func propC17ConcurrentReset(t veriflib.TB, c c17ResetCase) {
	const facet = "C17/concurrent-reset"
	Init()
	type metric struct {
		name        string
		incr, reset func()
		get         func() float64
		perEvent    float64
	}
	metrics := []metric{
		{"Preprocessor routines", PreprocessorRoutinesIncr, PreprocessorRoutinesReset, func() float64 { return float64(PreprocessorRoutinesGet()) }, 1},
		{"Archiver routines", ArchiverRoutinesIncr, ArchiverRoutinesReset, func() float64 { return float64(ArchiverRoutinesGet()) }, 1},
		{"Postprocessor routines", PostprocessorRoutinesIncr, PostprocessorRoutinesReset, func() float64 { return float64(PostprocessorRoutinesGet()) }, 1},
		{"Finisher routines", FinisherRoutinesIncr, FinisherRoutinesReset, func() float64 { return float64(FinisherRoutinesGet()) }, 1},
		// (the per-status-code entries are rates - events per past second -, not totals: they have no exact value to check
		// right after an event and are left to the linearizability facet)
	}
	means := []struct {
		name  string
		add   func(time.Duration)
		reset func()
		get   func() float64
	}{
		{"mean HTTP response time", MeanHTTPRespTimeAdd, MeanHTTPRespTimeReset, MeanHTTPRespTimeGet},
		{"mean process-body time", MeanProcessBodyTimeAdd, MeanProcessBodyTimeReset, MeanProcessBodyTimeGet},
		{"mean wait-on-feedback time", MeanWaitOnFeedbackTimeAdd, MeanWaitOnFeedbackTimeReset, MeanWaitOnFeedbackTimeGet},
	}
	for round := 0; round < c.Rounds; round++ {
		Reset()
		for _, m := range metrics {
			for i := 0; i < c.Before; i++ {
				m.incr()
			}
		}
		for _, m := range means {
			for i := 0; i < c.Before; i++ {
				m.add(40 * time.Millisecond)
			}
		}
		// the burst: every resetter resets every metric, all released by one spin barrier
		var ready atomic.Int32
		var wg sync.WaitGroup
		for g := 0; g < c.Resetters; g++ {
			wg.Add(1)
			go func(g int) {
				defer wg.Done()
				ready.Add(1)
				for int(ready.Load()) < c.Resetters {
					runtime.Gosched()
				}
				if c.Whole && g == 0 {
					Reset()
					return
				}
				for _, m := range metrics {
					m.reset()
				}
				for _, m := range means {
					m.reset()
				}
			}(g)
		}
		wg.Wait()
		for _, m := range metrics {
			if v := m.get(); v != 0 {
				veriflib.Fail(t, "C17", facet, c, nil, "round %d: %q reads %v after %d goroutines reset it at the same time (it held %d before), want 0", round, m.name, v, c.Resetters, c.Before)
			}
		}
		for _, m := range means {
			if v := m.get(); v != 0 {
				veriflib.Fail(t, "C17", facet, c, nil, "round %d: %q reads %v after %d concurrent resets, want 0", round, m.name, v, c.Resetters)
			}
		}
		for _, m := range metrics {
			for i := 0; i < c.After; i++ {
				m.incr()
			}
			if v := m.get(); v != float64(c.After) {
				veriflib.Fail(t, "C17", facet, c, nil, "round %d: %q reads %v after concurrent resets and then %d events, want %d", round, m.name, v, c.After, c.After)
			}
		}
		for _, m := range means {
			for i := 0; i < c.After; i++ {
				m.add(70 * time.Millisecond)
			}
			if v := m.get(); c.After > 0 && v != 70 {
				veriflib.Fail(t, "C17", facet, c, nil, "round %d: %q reads %v after concurrent resets and then %d samples of 70 ms, want 70", round, m.name, v, c.After)
			}
		}
	}
	Reset()
	veriflib.Record(facet, veriflib.JSON(c), c.Resetters >= 2 && c.Before > 0, []string{fmt.Sprintf("resetters:%d", c.Resetters), fmt.Sprintf("whole:%v", c.Whole)}, func() any { return c })
}

func TestVerif_C17_ConcurrentReset(t *testing.T) {
	defer veriflib.Flush()
	var rc c17ResetCase
	if veriflib.ReplayCase("C17/concurrent-reset", &rc) {
		propC17ConcurrentReset(t, rc)
		return
	} else if veriflib.Replaying() {
		t.Skip()
	}
	rapid.Check(t, func(rt *rapid.T) {
		c := c17ResetCase{Before: rapid.IntRange(1, 40).Draw(rt, "before"), Resetters: rapid.IntRange(2, 8).Draw(rt, "resetters"), After: rapid.IntRange(0, 20).Draw(rt, "after"),
			Rounds: rapid.IntRange(5, 40).Draw(rt, "rounds"), Whole: rapid.Bool().Draw(rt, "whole")}
		veriflib.Guard("C17", "C17/concurrent-reset", c, func() { propC17ConcurrentReset(rt, c) })
	})
}
