//go:build verif

package stats

// VerifStatusCodeTotals returns the lifetime totals of the per-status-code counters (overlay-only: the exported API
// offers the per-second rates only; "per-status-code counts equal the number of events" is about these totals).
func VerifStatusCodeTotals() map[string]uint64 {
	if globalStats == nil || globalStats.HTTPReturnCodes == nil {
		return nil
	}
	return globalStats.HTTPReturnCodes.getAllTotal()
}
