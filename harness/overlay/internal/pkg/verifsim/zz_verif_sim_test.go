package verifsim

// Whole-pipeline facets on the simulated network, under virtual time:
//
//	C01/pipeline  every accepted seed finished exactly once, only after its whole tree is done
//	C06/pipeline  redirects, depth, retries and hops are bounded as stated; every seed terminates
//	C05/pipeline  no request leaves for an out-of-scope URL
//	C08/pipeline  per-URL request counts obey dedupe + seencheck
//	C17/gauges    worker gauges equal live workers and are zero after stop; totals equal events
//
// One generated case = one full lifecycle (Start, seeds, quiescence, Stop) inside a synctest bubble.

import (
	"fmt"
	"os"
	"sort"
	"strings"
	"testing"
	"testing/synctest"
	"time"

	"github.com/internetarchive/Zeno/internal/pkg/stats"
	"github.com/internetarchive/Zeno/internal/pkg/veriflib"
	"github.com/internetarchive/Zeno/pkg/models"
	"pgregory.net/rapid"
)

type simResult struct {
	Viol     string   `json:"violation,omitempty"`
	Facet    string   `json:"facet,omitempty"`
	Fetches  []Fetch  `json:"fetches"`
	Finished []string `json:"finished"`
	Produced []string `json:"produced"`
	Classes  []string `json:"-"`
	NonTriv  bool     `json:"-"`
	Elapsed  string   `json:"virtual_elapsed"`
}

// runCase executes one lifecycle inside the current bubble.
func runCase(c Case) (res simResult) {
	dir, err := os.MkdirTemp(os.Getenv("VERIF_SCRATCH"), "sim")
	if err != nil {
		return simResult{Viol: "harness: " + err.Error(), Facet: "harness"}
	}
	stats.Init()
	base, _ := stats.GetMapTUI()["Finished seeds"].(uint64) // totals are lifetime totals: compare deltas
	baseURLs, _ := stats.GetMapTUI()["Total URL crawled"].(uint64)
	p, err := Start(c.Settings, c.Site, dir)
	if err != nil {
		return simResult{Viol: "harness: start: " + err.Error(), Facet: "harness"}
	}
	stopped := false
	defer func() {
		if !stopped {
			p.Stop()
			time.Sleep(5 * time.Second)
			synctest.Wait()
		}
	}()
	t0 := time.Now()
	fail := func(facet, f string, a ...any) simResult {
		res.Viol, res.Facet = fmt.Sprintf(f, a...), facet
		res.Fetches = p.Net.Log()
		return res
	}
	finishedIDs := func() map[string]int {
		m := map[string]int{}
		for _, f := range p.Finishes() {
			m[f.Item.GetID()]++
		}
		return m
	}
	// quiesce: wait until everything is durably blocked, advancing the virtual clock through retry sleeps
	quiesce := func(want int) bool {
		for i := 0; i < 720; i++ {
			synctest.Wait()
			if len(p.Finishes()) >= want {
				synctest.Wait()
				return true
			}
			time.Sleep(5 * time.Second)
		}
		return false
	}
	inserted := []SeedPlan{}
	insertErrs := map[string]error{}
	if c.Sequential {
		for _, sp := range c.Seeds {
			_, err := p.Insert(sp.ID, sp.URL, sp.Hops)
			if err != nil {
				insertErrs[sp.ID] = err
				continue
			}
			inserted = append(inserted, sp)
			if !quiesce(len(inserted)) {
				return fail("C01/pipeline", "seed %s (%s) was never reported finished: after one virtual hour every goroutine is blocked and the reactor still tracks %v", sp.ID, sp.URL, p.Tracked())
			}
		}
	} else {
		done := make(chan struct{})
		go func() {
			defer close(done)
			for _, sp := range c.Seeds {
				if _, err := p.Insert(sp.ID, sp.URL, sp.Hops); err != nil {
					insertErrs[sp.ID] = err
					continue
				}
				inserted = append(inserted, sp)
			}
		}()
		ok := false
		for i := 0; i < 720 && !ok; i++ {
			synctest.Wait()
			select {
			case <-done:
				ok = len(p.Finishes()) >= len(inserted)
			default:
			}
			if !ok {
				time.Sleep(5 * time.Second)
			}
		}
		synctest.Wait()
		if !ok {
			fin := finishedIDs()
			var missing []string
			for _, sp := range c.Seeds {
				if fin[sp.ID] == 0 {
					missing = append(missing, sp.ID+"("+sp.URL+")")
				}
			}
			return fail("C01/pipeline", "seed(s) %v were never reported finished: after one virtual hour every goroutine is blocked; the reactor still tracks %v", missing, p.Tracked())
		}
	}
	for id, err := range insertErrs {
		return fail("harness", "harness: insert %s: %v", id, err)
	}
	// let any straggler run (a second finish, late fetches)
	time.Sleep(30 * time.Second)
	synctest.Wait()
	res.Elapsed = time.Since(t0).String()
	log := p.Net.Log()
	res.Fetches = log
	fins := p.Finishes()
	prod := p.Produced()
	for _, f := range fins {
		res.Finished = append(res.Finished, f.Item.GetID())
	}
	for _, it := range prod {
		res.Produced = append(res.Produced, fmt.Sprintf("%s hops=%d via=%s", it.GetURL().Raw, it.GetURL().GetHops(), it.GetSeedVia()))
	}

	// ---- C01: exactly once, tree complete at the finish instant, nothing after it, reactor idle
	fin := finishedIDs()
	for _, sp := range inserted {
		if fin[sp.ID] != 1 {
			return fail("C01/pipeline", "seed %s (%s) was reported finished %d times", sp.ID, sp.URL, fin[sp.ID])
		}
	}
	if len(fins) != len(inserted) {
		return fail("C01/pipeline", "%d finish messages for %d inserted seeds: %v", len(fins), len(inserted), res.Finished)
	}
	finSeq := map[string]int64{}
	for _, f := range fins {
		if len(f.Pending) > 0 {
			return fail("C01/pipeline", "seed %s was reported finished while nodes still await fetching/post-processing: %v\n%s", f.Item.GetID(), f.Pending, f.TreeDump)
		}
		for _, sp := range inserted {
			if sp.ID == f.Item.GetID() {
				finSeq[sp.Host] = f.Seq
			}
		}
	}
	for _, f := range log {
		if fs, ok := finSeq[f.Host]; ok && f.Seq > fs {
			return fail("C01/pipeline", "%s was requested (request #%d) after its seed had been reported finished (#%d)", f.URL, f.Seq, fs)
		}
	}
	if tr := p.Tracked(); len(tr) != 0 {
		return fail("C01/pipeline", "the reactor still tracks %v after every seed was reported finished", tr)
	}
	for _, it := range prod {
		if it.GetStatus() != models.ItemFresh || !it.IsSeed() {
			return fail("C01/pipeline", "item %s handed to the queue as new work has status %s", it.GetURL().Raw, it.GetStatus())
		}
		if fin[it.GetID()] > 0 {
			return fail("C01/pipeline", "outlink item %s was also reported as a finished seed", it.GetID())
		}
	}

	// ---- reference crawler: per-seed expectations
	var seen SeenStore
	if c.Settings.Seencheck {
		seen = SeenStore{}
	}
	got := map[string]int{}
	for _, f := range log {
		got[f.URL]++
	}
	cut := map[string]bool{}
	explained := map[string]bool{}
	for _, sp := range inserted {
		e := Reference(c.Site, c.Settings, sp, seen)
		for k := range e.Cut {
			cut[k] = true
		}
		for u, why := range e.Forbidden {
			if got[u] > 0 {
				return fail("C05/pipeline", "a request was sent for %s which is %s (seed %s)", u, why, sp.ID)
			}
		}
		for u, mm := range e.Attempts {
			explained[u] = true
			if !c.Sequential && HostOf(u) != sp.Host {
				continue // shared URLs are judged in the sequential facet
			}
			if got[u] < mm[0] {
				facet := "C01/pipeline"
				if got[u] > 0 {
					facet = "C06/pipeline"
				}
				return fail(facet, "%s (tree of seed %s) was requested %d time(s), expected %d: it is part of the seed's tree and the seed was reported finished", u, sp.ID, got[u], mm[0])
			}
			if got[u] > mm[1] {
				facet := "C06/pipeline"
				if r := c.Site[u]; r == nil || (r.FailFirst == 0 && !(r.Kind == "status" && retried(r.Status))) {
					facet = "C08/pipeline"
				}
				return fail(facet, "%s (tree of seed %s) was requested %d time(s), at most %d expected (max-retry %d, max-redirect %d)", u, sp.ID, got[u], mm[1], c.Settings.MaxRetry, c.Settings.MaxRedirect)
			}
		}
		// outlinks
		for _, o := range e.Outlinks {
			found := false
			for _, it := range prod {
				if it.GetURL().Raw == o.URL && it.GetSeedVia() == o.Via {
					if it.GetURL().GetHops() != o.Hops {
						return fail("C06/pipeline", "outlink %s of %s was queued with hops %d, expected parent hops + 1 = %d", o.URL, o.Via, it.GetURL().GetHops(), o.Hops)
					}
					found = true
				}
			}
			if !found {
				return fail("C06/pipeline", "outlink %s of page %s (hops %d < max-hops %d) was not handed to the queue", o.URL, o.Via, o.Hops-1, c.Settings.MaxHops)
			}
		}
		for _, it := range prod {
			if h, ok := e.Pages[it.GetSeedVia()]; ok {
				if h >= c.Settings.MaxHops {
					return fail("C06/pipeline", "outlink %s was queued from page %s which already has %d hops (max-hops %d)", it.GetURL().Raw, it.GetSeedVia(), h, c.Settings.MaxHops)
				}
				if it.GetURL().GetHops() != h+1 {
					return fail("C06/pipeline", "outlink %s of %s carries hops %d, expected %d", it.GetURL().Raw, it.GetSeedVia(), it.GetURL().GetHops(), h+1)
				}
			}
		}
	}
	// anything requested that no seed's tree explains is out-of-tree work (unbounded work / scope)
	for u, n := range got {
		if !explained[u] {
			facet := "C06/pipeline"
			if !acceptableURL(u) || excluded(u, c.Settings) {
				facet = "C05/pipeline"
			}
			return fail(facet, "%s was requested %d time(s) although no seed's tree (within redirect, depth, scope and seen rules) contains it", u, n)
		}
	}
	// scope: whatever was requested must be in scope
	for _, f := range log {
		if !acceptableURL(f.URL) || excluded(f.URL, c.Settings) {
			return fail("C05/pipeline", "a request was sent for out-of-scope URL %s", f.URL)
		}
	}
	// ---- C17: totals and gauges
	m := stats.GetMapTUI()
	if v, _ := m["Finished seeds"].(uint64); int(v-base) != len(inserted) {
		return fail("C17/gauges", "stats report %d more finished seeds, %d seeds finished", v-base, len(inserted))
	}
	// "URLs crawled" counts one per node handed to the archiver's fetch routine (retries are not counted)
	nodes := map[string]bool{}
	for _, f := range log {
		nodes[f.URL] = true
	}
	if v, _ := m["Total URL crawled"].(uint64); int(v-baseURLs) < len(nodes) {
		return fail("C17/gauges", "stats report %d URLs crawled, the network saw %d distinct URLs requested", v-baseURLs, len(nodes))
	}
	if v, _ := m["Preprocessor routines"].(uint64); int(v) != c.Settings.Workers {
		return fail("C17/gauges", "preprocessor gauge %v with %d live workers", m["Preprocessor routines"], c.Settings.Workers)
	}
	if v, _ := m["Archiver routines"].(uint64); int(v) != c.Settings.Workers {
		return fail("C17/gauges", "archiver gauge %v with %d live workers", m["Archiver routines"], c.Settings.Workers)
	}
	if v, _ := m["Postprocessor routines"].(uint64); int(v) != c.Settings.Workers {
		return fail("C17/gauges", "postprocessor gauge %v with %d live workers", m["Postprocessor routines"], c.Settings.Workers)
	}
	p.Stop()
	stopped = true
	time.Sleep(5 * time.Second)
	synctest.Wait()
	m = stats.GetMapTUI()
	for _, k := range []string{"Preprocessor routines", "Archiver routines", "Postprocessor routines"} {
		if v, _ := m[k].(uint64); v != 0 {
			return fail("C17/gauges", "%s gauge is %v after stop", k, m[k])
		}
	}
	for k := range cut {
		res.Classes = append(res.Classes, "cut:"+k)
	}
	sort.Strings(res.Classes)
	res.Classes = append(res.Classes, fmt.Sprintf("workers:%d", c.Settings.Workers), fmt.Sprintf("seeds:%d", len(c.Seeds)))
	if len(c.Seeds) > c.Settings.Workers {
		res.Classes = append(res.Classes, "token-backpressure")
	}
	multi := false
	for _, sp := range inserted {
		n := 0
		for _, f := range log {
			if f.Host == sp.Host {
				n++
			}
		}
		if n >= 2 {
			multi = true
		}
	}
	res.NonTriv = multi
	return res
}

func propSim(t veriflib.TB, outer *testing.T, c Case, feats map[string]bool) {
	var res simResult
	veriflib.Journal("C01", "C01/pipeline", c)
	synctest.Test(outer, func(st *testing.T) {
		res = runCase(c)
	})
	veriflib.JournalDone()
	if res.Viol != "" {
		if res.Facet == "harness" {
			t.Fatalf("%s", res.Viol)
		}
		pid := res.Facet[:3]
		veriflib.Fail(t, pid, res.Facet, c, res, "%s", res.Viol)
	}
	cl := res.Classes
	for k := range feats {
		cl = append(cl, "site:"+k)
	}
	key := veriflib.JSON(c)
	sample := func() any {
		return map[string]any{"settings": c.Settings, "seeds": c.Seeds, "requests": len(res.Fetches), "finished": res.Finished, "virtual_elapsed": res.Elapsed, "resources": len(c.Site)}
	}
	veriflib.Record("C01/pipeline", key, res.NonTriv, cl, sample)
	// the same run is evidence for the facets of the other properties: count it there when the case exercised them
	has := func(p string) bool {
		for _, c := range cl {
			if strings.HasPrefix(c, p) {
				return true
			}
		}
		return false
	}
	veriflib.Record("C06/pipeline", key, has("cut:max-redirect") || has("cut:depth-limit") || has("cut:retried") || has("cut:max-hops") || has("cut:failed-for-good"), cl, sample)
	veriflib.Record("C05/pipeline", key, has("cut:excluded") || has("cut:unacceptable-url"), cl, sample)
	veriflib.Record("C08/pipeline", key, has("cut:duplicate-in-tree") || has("cut:seen-skip") || has("cut:seen-promotion"), cl, sample)
	veriflib.Record("C17/gauges", key, res.NonTriv, nil, nil)
}

func genCase(t *rapid.T) (Case, map[string]bool) {
	c := Case{Settings: GenSettings(t), Site: Site{}}
	n := rapid.IntRange(1, 2*c.Settings.Workers+1).Draw(t, "nseeds")
	feats := map[string]bool{}
	for i := 0; i < n; i++ {
		sp, f := GenSeed(t, i+1, c.Site, c.Settings.MaxHops)
		c.Seeds = append(c.Seeds, sp)
		for k := range f {
			feats[k] = true
		}
	}
	return c, feats
}

var simFacets = []string{"C01/pipeline", "C06/pipeline", "C05/pipeline", "C08/pipeline", "C17/gauges"}

func TestVerif_Sim_Pipeline(t *testing.T) {
	defer veriflib.Flush()
	var rc Case
	for _, f := range simFacets {
		if veriflib.ReplayCase(f, &rc) {
			propSim(t, t, rc, nil)
			return
		}
	}
	if veriflib.Replaying() {
		t.Skip()
	}
	rapid.Check(t, func(rt *rapid.T) {
		c, feats := genCase(rt)
		veriflib.Guard("C01", "C01/pipeline", c, func() { propSim(rt, t, c, feats) })
	})
}
