package verifsim

// Whole-pipeline facets on the simulated network, under virtual time:
//
//	C01/pipeline  every accepted seed finished exactly once, only after its whole tree is done
//	C06/pipeline  redirects, depth, retries and hops are bounded as stated; every seed terminates
//	C05/pipeline  no request leaves for an out-of-scope URL
//	C08/pipeline  per-URL request counts obey dedupe + seencheck (sequential histories: exact)
//	C13/pipeline  per-host request times obey the configured rate (rate limiter on)
//	C14/pipeline  pause: the REAL stage workers take no new work while paused; resume wakes them; stop while paused returns
//	C03/sim       a stop at any request boundary returns; nothing is requested afterwards
//	C17/gauges    worker gauges equal live workers and are zero after stop; totals equal events
//
// One generated case = one full lifecycle (Start, seeds, control events, quiescence, Stop) inside a synctest bubble.

import (
	"fmt"
	"net/http"
	"net/url"
	"os"
	"runtime"
	"sort"
	"strconv"
	"strings"
	"sync"
	"sync/atomic"
	"testing"
	"testing/synctest"
	"time"

	"github.com/internetarchive/Zeno/internal/pkg/controler/pause"
	"github.com/internetarchive/Zeno/internal/pkg/stats"
	"github.com/internetarchive/Zeno/internal/pkg/verifhook"
	"github.com/internetarchive/Zeno/internal/pkg/veriflib"
	"github.com/internetarchive/Zeno/pkg/models"
	"pgregory.net/rapid"
)

type simResult struct {
	Viol     string   `json:"violation,omitempty"`
	Facet    string   `json:"facet,omitempty"`
	Facet2   string   `json:"facet2,omitempty"` // the same observation also violates this facet's property (stop while paused: C14 and C03)
	Fetches  []Fetch  `json:"fetches"`
	Finished []string `json:"finished"`
	Produced []string `json:"produced"`
	Events   []string `json:"events,omitempty"`
	Classes  []string `json:"-"`
	NonTriv  bool     `json:"-"`
	Elapsed  string   `json:"virtual_elapsed"`
}

// runCase executes one lifecycle inside the current bubble.
func runCase(c Case) (res simResult) {
	dir, err := os.MkdirTemp(os.Getenv("VERIF_SCRATCH"), "sim")
	if err != nil {
		return simResult{Viol: "harness: " + err.Error(), Facet: "harness"}
	}
	stats.Init()
	base, _ := stats.GetMapTUI()["Finished seeds"].(uint64) // totals are lifetime totals: compare deltas
	baseURLs, _ := stats.GetMapTUI()["Total URL crawled"].(uint64)
	baseCodes := stats.VerifStatusCodeTotals()
	p, err := Start(c.Settings, c.Site, dir)
	if err != nil {
		return simResult{Viol: "harness: start: " + err.Error(), Facet: "harness"}
	}
	// every stage worker subscribes to the pause manager when it starts running: let them all get there before the
	// first seed (and thus the first possible pause) - a subscriber arriving after a pause is not a situation the
	// statement covers (every real subscriber subscribes once at start-up, before any controller can act)
	synctest.Wait()
	t0 := time.Now()
	stopped := false
	say := func(f string, a ...any) {
		res.Events = append(res.Events, fmt.Sprintf("t=%.1fs ", time.Since(t0).Seconds())+fmt.Sprintf(f, a...))
	}
	// waits up to a virtual hour for done
	waitDone := func(done chan struct{}) bool {
		for i := 0; i < 61; i++ {
			synctest.Wait()
			select {
			case <-done:
				return true
			default:
			}
			time.Sleep(time.Minute)
		}
		return false
	}
	// true when f returned within a virtual hour
	var lastDone chan struct{}
	mustReturn := func(f func()) bool {
		done := make(chan struct{})
		lastDone = done
		go func() { f(); close(done) }()
		return waitDone(done)
	}
	// whatever the verdict, leave the bubble clean: resume (releases parked workers), stop, let timers run out.
	// When the pipeline cannot be stopped any more (a worker is stuck for ever) the bubble can never end: the verdict is
	// written out and the shard process exits (no shrinking for this case).
	defer func() {
		verifhook.SetHandler(nil)
		if !stopped {
			if pause.IsPaused() {
				go pause.Resume()
			}
			if !mustReturn(func() { p.Stop() }) {
				if res.Viol == "" {
					res.Viol, res.Facet = "the pipeline could not be stopped at the end of the case: Stop() did not return within a virtual hour", "C03/sim"
				} else {
					res.Viol += " (and afterwards the pipeline could not be stopped: a stage worker is stuck for ever)"
				}
				res.Fetches = p.Net.Log()
				if res.Facet2 != "" {
					veriflib.WriteFailure(res.Facet2[:3], res.Facet2, c, res, res.Viol)
				}
				veriflib.WriteFailure(res.Facet[:3], res.Facet, c, res, res.Viol)
				veriflib.JournalDone()
				veriflib.Flush()
				fmt.Fprintf(os.Stderr, "verifsim: %s\n", res.Viol)
				os.Exit(3)
			}
		}
		time.Sleep(5 * time.Second)
		synctest.Wait()
	}()
	fail := func(facet, f string, a ...any) simResult {
		res.Viol, res.Facet = fmt.Sprintf(f, a...), facet
		if os.Getenv("VERIF_DUMP") != "" {
			buf := make([]byte, 1<<20)
			fmt.Fprintf(os.Stderr, "%s\n%s\n", res.Viol, buf[:runtime.Stack(buf, true)])
		}
		res.Fetches = p.Net.Log()
		return res
	}
	finishedIDs := func() map[string]int {
		m := map[string]int{}
		for _, f := range p.Finishes() {
			m[f.Item.GetID()]++
		}
		return m
	}

	// ---- control events are triggered by the k-th request arriving at the network
	ctlAt := map[int64]Ctl{}
	var hookCtl []Ctl
	for _, ct := range c.Ctl {
		if strings.HasPrefix(ct.Kind, "hookpause") {
			hookCtl = append(hookCtl, ct)
		} else {
			ctlAt[int64(ct.At)] = ct
		}
	}
	hookTrig := make(chan Ctl, 8)
	if len(hookCtl) > 0 {
		// the pause is issued from inside the pipeline, by the goroutine that reaches the event point
		// hit numbers are counted per lifecycle (verifhook's own counters are per process)
		var hitMu sync.Mutex
		hits := map[string]int64{}
		verifhook.SetHandler(func(point string, _ int64, _ string) {
			hitMu.Lock()
			hits[point]++
			n := hits[point]
			hitMu.Unlock()
			for _, ct := range hookCtl {
				if ct.Point == point && int64(ct.At) == n {
					pause.Pause("verif")
					select {
					case hookTrig <- ct:
					default:
					}
				}
			}
		})
	}
	var reqCount atomic.Int64
	trig := make(chan Ctl)
	rel := make(chan struct{})
	p.Net.Gate = func(req *http.Request) {
		n := reqCount.Add(1)
		if ct, ok := ctlAt[n]; ok {
			trig <- ct
			<-rel
		}
	}
	// waits until the request log stops growing (in-flight work drains), advancing virtual time
	drain := func() {
		for i := 0; i < 200; i++ {
			synctest.Wait()
			n1 := len(p.Net.Log())
			time.Sleep(60 * time.Second)
			synctest.Wait()
			if len(p.Net.Log()) == n1 {
				return
			}
		}
	}
	hadPause, stopPaused, stopMid, hadRepause := false, false, false, false
	handle := func(ct Ctl) (simResult, bool) {
		// while one control action is being carried out, requests that would trigger another one are let through
		// (otherwise they would sit in the gate for ever and look like in-flight work that never drains)
		stopDrainer := make(chan struct{})
		defer close(stopDrainer)
		go func() {
			for {
				select {
				case skipped := <-trig:
					say("control event at request #%d skipped (another one is in progress)", skipped.At)
					rel <- struct{}{}
				case <-stopDrainer:
					return
				}
			}
		}()
		switch ct.Kind {
		case "pause-resume", "pause-stop", "hookpause-resume", "hookpause-stop":
			hadPause = true
			if strings.HasPrefix(ct.Kind, "hookpause") {
				say("%s hit #%d: paused from inside the pipeline", ct.Point, ct.At)
			} else {
				say("request #%d: pause", ct.At)
				pause.Pause("verif")
				rel <- struct{}{}
			}
			drain()
			nf, nfin := len(p.Net.Log()), len(p.Finishes())
			time.Sleep(10 * time.Minute)
			synctest.Wait()
			if len(p.Net.Log()) != nf {
				l := p.Net.Log()
				return fail("C14/pipeline", "while the pipeline was paused (and in-flight work had drained) new work was taken: %s was requested", l[nf].URL), true
			}
			if len(p.Finishes()) != nfin {
				return fail("C14/pipeline", "a seed was reported finished while the pipeline was paused and drained"), true
			}
			if strings.HasSuffix(ct.Kind, "pause-stop") {
				stopPaused = true
				say("stop while paused")
				if !mustReturn(func() { p.Stop() }) {
					// release the parked workers so that the stop (and the bubble) can end
					go pause.Resume()
					stopped = waitDone(lastDone)
					res.Facet2 = "C03/sim" // C03 names "while the pipeline is paused" among the stop moments
					return fail("C14/pipeline", "a stop issued while the pipeline was paused did not return within a virtual hour: stage workers stay parked waiting for a resume"), true
				}
				stopped = true
				return res, false
			}
			say("resume")
			if !ct.Repause {
				if !mustReturn(func() { pause.Resume() }) {
					return fail("C14/pipeline", "Resume() did not return within a virtual hour"), true
				}
			} else {
				// a controller pauses again at once. With a single P the caller runs on from Resume() into Pause() before
				// any of the workers it has just woken is scheduled: the new signal is already waiting when they come
				// back to their loop, and must be honoured like any other
				say("pause again right after the resume")
				hadRepause = true
				prev := runtime.GOMAXPROCS(1)
				ok := mustReturn(func() { pause.Resume(); pause.Pause("verif-2") })
				runtime.GOMAXPROCS(prev)
				if !ok {
					return fail("C14/pipeline", "Resume() immediately followed by Pause() did not return within a virtual hour"), true
				}
				drain()
				nf, nfin := len(p.Net.Log()), len(p.Finishes())
				time.Sleep(10 * time.Minute)
				synctest.Wait()
				if len(p.Net.Log()) != nf {
					l := p.Net.Log()
					return fail("C14/pipeline", "while the pipeline was paused again right after a resume (and in-flight work had drained) new work was taken: %s was requested", l[nf].URL), true
				}
				if len(p.Finishes()) != nfin {
					return fail("C14/pipeline", "a seed was reported finished while the pipeline was paused again and drained"), true
				}
				say("resume")
				if !mustReturn(func() { pause.Resume() }) {
					return fail("C14/pipeline", "the Resume() of a pause issued right after the previous resume did not return within a virtual hour"), true
				}
			}
		case "stop":
			stopMid = true
			say("request #%d: stop", ct.At)
			go func() { rel <- struct{}{} }()
			if !mustReturn(func() { p.Stop() }) {
				stopped = true
				return fail("C03/sim", "a stop issued while request #%d was in flight did not return within a virtual hour", ct.At), true
			}
			stopped = true
			return res, false
		}
		return res, false
	}

	// ---- insert the seeds (concurrently with the crawl, or one at a time)
	inserted := []SeedPlan{}
	insertErrs := map[string]error{}
	insDone := make(chan struct{})
	insMu := make(chan struct{}, 1)
	nextSeq := make(chan struct{}, 1) // sequential mode: permission to insert the next seed
	go func() {
		defer close(insDone)
		for _, sp := range c.Seeds {
			if c.Sequential {
				if _, ok := <-nextSeq; !ok {
					return
				}
			}
			text := sp.URL
			if sp.Raw != "" {
				text = sp.Raw
			}
			_, err := p.Insert(sp.ID, text, sp.Hops)
			insMu <- struct{}{}
			if err != nil {
				insertErrs[sp.ID] = err
			} else {
				inserted = append(inserted, sp)
			}
			<-insMu
		}
	}()
	nIns := func() int {
		insMu <- struct{}{}
		defer func() { <-insMu }()
		return len(inserted) + len(insertErrs)
	}
	allInserted := func() bool {
		select {
		case <-insDone:
			return true
		default:
			return false
		}
	}
	if c.Sequential {
		nextSeq <- struct{}{}
	}
	released := 1
	finishedOK := false
	for i := 0; i < 800 && !stopped; i++ {
		synctest.Wait()
		select {
		case ct := <-trig:
			if r, bad := handle(ct); bad {
				return r
			}
			continue
		case ct := <-hookTrig:
			if r, bad := handle(ct); bad {
				return r
			}
			continue
		default:
		}
		if c.Sequential && !allInserted() && len(p.Finishes()) >= released && nIns() >= released && released < len(c.Seeds) {
			released++
			nextSeq <- struct{}{}
			continue
		}
		if allInserted() && len(p.Finishes()) >= len(inserted) {
			finishedOK = true
			break
		}
		time.Sleep(5 * time.Second)
	}
	synctest.Wait()
	if stopped {
		// the inserter may still be parked on a token or on the sequential gate: a frozen/stopped reactor refuses it
		close(nextSeq)
		synctest.Wait()
		nf := len(p.Net.Log())
		time.Sleep(10 * time.Minute)
		synctest.Wait()
		if len(p.Net.Log()) != nf {
			return fail("C03/sim", "%s was requested after the stop had returned", p.Net.Log()[nf].URL)
		}
		if !allInserted() {
			return fail("C03/sim", "a source is still blocked inserting a seed ten virtual minutes after the stop returned")
		}
		// the stage workers are gone: the pause protocol must not wait for them any more (a worker leaves the manager when it
		// exits), whether the stop came while paused or not
		if !mustReturn(func() {
			if !pause.IsPaused() {
				pause.Pause("after the stop")
			}
			pause.Resume()
		}) {
			return fail("C14/pipeline", "after the stop (all stage workers have exited) a Pause()/Resume() does not return within a virtual hour: a departed worker is still subscribed and Resume() waits for its acknowledgement")
		}
		// a stop must not make the pipeline lie to the source: whatever was reported finished - before or during the
		// stop - has a complete tree, and is reported once (an unfinished seed simply stays with the source)
		seenFin := map[string]int{}
		for _, f := range p.Finishes() {
			if len(f.Pending) > 0 {
				return fail("C01/pipeline", "seed %s was reported finished (around a stop) while nodes still await fetching/post-processing: %v\n%s", f.Item.GetID(), f.Pending, f.TreeDump)
			}
			if seenFin[f.Item.GetID()]++; seenFin[f.Item.GetID()] > 1 {
				return fail("C01/pipeline", "seed %s was reported finished %d times (around a stop)", f.Item.GetID(), seenFin[f.Item.GetID()])
			}
		}
		m := stats.GetMapTUI()
		for _, k := range []string{"Preprocessor routines", "Archiver routines", "Postprocessor routines"} {
			if v, _ := m[k].(uint64); v != 0 {
				return fail("C17/gauges", "%s gauge is %v after stop", k, m[k])
			}
		}
		// every seed the reactor was told is finished counts as a finished seed, stop or no stop
		insMu <- struct{}{}
		nIns := len(inserted)
		<-insMu
		if v, _ := m["Finished seeds"].(uint64); int(v-base) != nIns-len(p.TrackedAtStop) {
			return fail("C17/gauges", "after the stop: %d seeds were accepted, the reactor still tracked %d when the stages had stopped (%d were marked finished), but the finished-seeds total grew by %d",
				nIns, len(p.TrackedAtStop), nIns-len(p.TrackedAtStop), v-base)
		}
		res.Fetches = p.Net.Log()
		res.Elapsed = time.Since(t0).String()
		res.Classes = []string{"ctl:stop"}
		if stopPaused {
			res.Classes = append(res.Classes, "ctl:stop-while-paused")
		}
		if stopMid {
			res.Classes = append(res.Classes, "ctl:stop-mid-fetch")
		}
		res.NonTriv = len(res.Fetches) > 0
		return res
	}
	if !finishedOK {
		fin := finishedIDs()
		var missing []string
		for _, sp := range c.Seeds {
			if fin[sp.ID] == 0 {
				missing = append(missing, sp.ID+"("+sp.URL+")")
			}
		}
		if len(p.Tracked()) > 0 {
			res.Facet2 = "C16/pipeline" // a state-table entry and a token held for good: C16's "MarkAsFinished deletes the state entry"
		}
		return fail("C01/pipeline", "seed(s) %v were never reported finished: after more than one virtual hour every goroutine is blocked; the reactor still tracks %v", missing, p.Tracked())
	}
	for id, err := range insertErrs {
		return fail("harness", "harness: insert %s: %v", id, err)
	}
	// let any straggler run (a second finish, late fetches)
	time.Sleep(30 * time.Second)
	synctest.Wait()
	res.Elapsed = time.Since(t0).String()
	log := p.Net.Log()
	res.Fetches = log
	fins := p.Finishes()
	prod := p.Produced()
	for _, f := range fins {
		res.Finished = append(res.Finished, f.Item.GetID())
	}
	for _, it := range prod {
		res.Produced = append(res.Produced, fmt.Sprintf("%s hops=%d via=%s", it.GetURL().Raw, it.GetURL().GetHops(), it.GetSeedVia()))
	}

	// ---- C01: exactly once, tree complete at the finish instant, nothing after it, reactor idle
	fin := finishedIDs()
	for _, sp := range inserted {
		if fin[sp.ID] != 1 {
			return fail("C01/pipeline", "seed %s (%s) was reported finished %d times", sp.ID, sp.URL, fin[sp.ID])
		}
	}
	if len(fins) != len(inserted) {
		return fail("C01/pipeline", "%d finish messages for %d inserted seeds: %v", len(fins), len(inserted), res.Finished)
	}
	finSeq := map[string]int64{}
	for _, f := range fins {
		if len(f.Pending) > 0 {
			return fail("C01/pipeline", "seed %s was reported finished while nodes still await fetching/post-processing: %v\n%s", f.Item.GetID(), f.Pending, f.TreeDump)
		}
		for _, sp := range inserted {
			if sp.ID == f.Item.GetID() {
				finSeq[sp.Host] = f.Seq
			}
		}
	}
	for _, f := range log {
		if fs, ok := finSeq[f.Host]; ok && f.Seq > fs {
			return fail("C01/pipeline", "%s was requested (request #%d) after its seed had been reported finished (#%d)", f.URL, f.Seq, fs)
		}
	}
	if tr := p.Tracked(); len(tr) != 0 {
		res.Facet2 = "C16/pipeline"
		return fail("C01/pipeline", "the reactor still tracks %v after every seed was reported finished", tr)
	}
	for _, it := range prod {
		if it.GetStatus() != models.ItemFresh || !it.IsSeed() {
			return fail("C01/pipeline", "item %s handed to the queue as new work has status %s", it.GetURL().Raw, it.GetStatus())
		}
		if fin[it.GetID()] > 0 {
			return fail("C01/pipeline", "outlink item %s was also reported as a finished seed", it.GetID())
		}
	}

	// ---- reference crawler: per-seed expectations
	var seen SeenStore
	if c.Settings.Seencheck {
		seen = SeenStore{}
	}
	got := map[string]int{}
	for _, f := range log {
		got[f.URL]++
	}
	cut := map[string]bool{}
	exp := map[string][2]int{}
	forbidden := map[string]string{}
	for _, sp := range inserted {
		e := Reference(c.Site, c.Settings, sp, seen)
		for k := range e.Cut {
			cut[k] = true
		}
		for u, why := range e.Forbidden {
			forbidden[u] = why + " (seed " + sp.ID + ")"
		}
		for u, mm := range e.Attempts {
			x := exp[u]
			exp[u] = [2]int{x[0] + mm[0], x[1] + mm[1]}
		}
		// outlinks
		for _, o := range e.Outlinks {
			found := false
			for _, it := range prod {
				if it.GetURL().Raw == o.URL && it.GetSeedVia() == o.Via {
					if it.GetURL().GetHops() != o.Hops {
						res.Facet2 = "C15/pipeline" // C15: outlinks reach the queue with hops = parent + 1 and their via
						return fail("C06/pipeline", "outlink %s of %s was queued with hops %d, expected %d", o.URL, o.Via, it.GetURL().GetHops(), o.Hops)
					}
					found = true
				}
			}
			if !found {
				res.Facet2 = "C15/pipeline" // C15: outlinks reach the queue with hops = parent + 1 and their via
				return fail("C06/pipeline", "outlink %s of page %s (page hops %d, max-hops %d) was not handed to the queue", o.URL, o.Via, e.Pages[o.Via], c.Settings.MaxHops)
			}
		}
		for _, it := range prod {
			if h, ok := e.Pages[it.GetSeedVia()]; ok {
				dc := MatchesDomainsCrawl(it.GetURL().Raw, c.Settings)
				if h >= c.Settings.MaxHops && !dc {
					return fail("C06/pipeline", "outlink %s was queued from page %s which already has %d hops (max-hops %d)", it.GetURL().Raw, it.GetSeedVia(), h, c.Settings.MaxHops)
				}
				want := h + 1
				if dc {
					want = 0
				}
				if it.GetURL().GetHops() != want {
					res.Facet2 = "C15/pipeline" // C15: outlinks reach the queue with hops = parent + 1 and their via
					return fail("C06/pipeline", "outlink %s of %s carries hops %d, expected %d", it.GetURL().Raw, it.GetSeedVia(), it.GetURL().GetHops(), want)
				}
			}
		}
	}
	for u, why := range forbidden {
		if got[u] > 0 {
			return fail("C05/pipeline", "a request was sent for %s which is %s", u, why)
		}
	}
	for u, mm := range exp {
		lo, hi := mm[0], mm[1]
		if HostOf(u) == SharedHost && !c.Sequential && c.Settings.Seencheck {
			// concurrent seeds may both check before either records: between one visit and one per referencing seed
			a, _ := fetchOutcome(c.Site[u], c.Settings)
			lo, hi = a, a*len(inserted)
		}
		if got[u] < lo {
			facet := "C01/pipeline"
			if got[u] > 0 {
				facet = "C06/pipeline"
			}
			return fail(facet, "%s was requested %d time(s), expected %d: it is part of a finished seed's tree", u, got[u], lo)
		}
		if got[u] > hi {
			facet := "C06/pipeline"
			if r := c.Site[u]; r == nil || (r.FailFirst == 0 && !(r.Kind == "status" && (retried(r.Status) || r.Challenge))) {
				facet = "C08/pipeline"
			}
			if r := c.Site.Get(u); r != nil {
				att, ok := fetchOutcome(r, c.Settings)
				// a node that has been fetched but is not Completed: its fetch failed for good, or it answered with a redirect
				// whose target was dropped (unacceptable or out of scope) - reached twice in one seed's tree
				droppedTarget := ok && r.Kind == "redirect" && r.Status != 300 && (!acceptableURL(r.Loc) || excluded(r.Loc, c.Settings))
				if (!ok || droppedTarget) && got[u] <= 2*att {
					facet = "C08/pipeline"
					if veriflib.FindingOpen(simKFFailedDup) {
						veriflib.Excluded("C08/pipeline", "open finding "+simKFFailedDup)
						continue
					}
					return fail(facet, "%s was requested %d time(s), at most %d expected: it had been fetched (fetch failed for good: %v; redirect whose target was dropped: %v), and the fetched node lost against a fresh duplicate of the same URL in the seed's tree, which was then fetched too", u, got[u], hi, !ok, droppedTarget)
				}
			}
			return fail(facet, "%s was requested %d time(s), at most %d expected (max-retry %d, max-redirect %d, seencheck %v)", u, got[u], hi, c.Settings.MaxRetry, c.Settings.MaxRedirect, c.Settings.Seencheck)
		}
	}
	// anything requested that no seed's tree explains is out-of-tree work (unbounded work / scope)
	for u, n := range got {
		if _, ok := exp[u]; !ok {
			facet := "C06/pipeline"
			if !acceptableURL(u) || excluded(u, c.Settings) {
				facet = "C05/pipeline"
			}
			for _, sp := range c.Seeds {
				if sp.Raw != "" && strings.EqualFold(u, sp.Raw) {
					// the seed was requested under the spelling it arrived in, not under its canonical URL: whatever was
					// recorded as seen for it, or will be looked up, is recorded under another name
					return fail("C08/pipeline", "seed %s arrived spelled %s; it was requested %d time(s) as %s instead of its canonical URL %s, the name the seen-store knows it by", sp.ID, sp.Raw, n, u, sp.URL)
				}
			}
			return fail(facet, "%s was requested %d time(s) although no seed's tree (within redirect, depth, scope and seen rules) contains it", u, n)
		}
	}
	for _, f := range log {
		if !acceptableURL(f.URL) || excluded(f.URL, c.Settings) {
			return fail("C05/pipeline", "a request was sent for out-of-scope URL %s", f.URL)
		}
	}
	// ---- C13: per-host politeness on the wire (virtual timestamps). The limiter forgets a host when more hosts are
	// active than it has buckets (workers x max-concurrent-assets), so the bound is only claimed below that.
	hostsSeen := map[string]bool{}
	for _, f := range log {
		hostsSeen[f.Host] = true
	}
	if c.Settings.RateLimit && len(hostsSeen) <= c.Settings.Workers*c.Settings.MaxAssets {
		byHost := map[string][]int64{}
		for _, f := range log {
			// retries of one URL do not wait for a token again (documented in archive()): only first attempts count
			if f.Attempt == 1 {
				byHost[f.Host] = append(byHost[f.Host], f.AtMs)
			}
		}
		for h, ts := range byHost {
			sort.Slice(ts, func(a, b int) bool { return ts[a] < ts[b] })
			for i := 0; i < len(ts); i++ {
				for j := i + 1; j < len(ts); j++ {
					n := float64(j - i + 1)
					T := float64(ts[j]-ts[i]) / 1000
					if n > c.Settings.RateCapacity+T*c.Settings.RateRefill+1e-6 {
						return fail("C13/pipeline", "host %s received %d first-attempt requests within %.3fs: more than capacity %.0f + T x rate %.2f", h, j-i+1, T, c.Settings.RateCapacity, c.Settings.RateRefill)
					}
				}
			}
		}
	}
	// back-off penalties on the wire: after a 429 / 403 / 408 / 425 from a host no new request (first attempt of an item)
	// may reach that host for the minimum penalty of 5 s. Requests of the very same instant may have been released
	// before the answer was known; retries bypass the limiter by design.
	if c.Settings.RateLimit && len(hostsSeen) <= c.Settings.Workers*c.Settings.MaxAssets {
		for _, f := range log {
			if f.Status != 429 && f.Status != 403 && f.Status != 408 && f.Status != 425 {
				continue
			}
			if f.Challenge {
				res.Classes = append(res.Classes, "penalised-challenge-page")
			}
			if f.Status == 403 && !f.Challenge && veriflib.FindingOpen(simKF403) {
				veriflib.Excluded("C13/pipeline", "open finding "+simKF403)
				continue
			}
			for _, g := range log {
				if g.Host == f.Host && g.Attempt == 1 && g.Seq > f.Seq && g.AtMs > f.DoneMs && g.AtMs < f.DoneMs+5000 {
					what := fmt.Sprint(f.Status)
					if f.Challenge {
						what = "with a challenge page (403, cf-mitigated: challenge)"
					}
					return fail("C13/pipeline", "host %s answered %s to %s at %d ms and received a new request (%s) at %d ms: %d ms later, the back-off penalty is at least 5 s",
						f.Host, what, f.URL, f.DoneMs, g.URL, g.AtMs, g.AtMs-f.DoneMs)
				}
			}
			res.Classes = append(res.Classes, "penalised-response")
		}
	}
	// ---- C17: totals and gauges
	m := stats.GetMapTUI()
	if v, _ := m["Finished seeds"].(uint64); int(v-base) != len(inserted) {
		return fail("C17/gauges", "stats report %d more finished seeds, %d seeds finished", v-base, len(inserted))
	}
	if v, _ := m["Total URL crawled"].(uint64); int(v-baseURLs) != p.Net.Requests() {
		return fail("C17/gauges", "stats report %d URLs crawled, the archiver worked on %d items (distinct request objects that reached the network, %d requests with retries)", v-baseURLs, p.Net.Requests(), len(log))
	}
	// per-status-code totals: one event per response that archive() accepted (not retried, body read to the end)
	wantCodes := map[string]uint64{}
	for _, f := range log {
		if f.Status == 0 || f.Challenge || retried(f.Status) {
			continue
		}
		if r := c.Site.Get(f.URL); r != nil {
			if r.Kind == "redirect" && r.Loc != "" && f.Status != 300 && f.Status >= 300 && f.Status < 400 {
				if _, err := url.Parse(r.Loc); err != nil {
					continue // net/http refuses the response: archive() sees a transport error
				}
			}
			if r.BodyErr && f.Status == 200 {
				continue // the body breaks off: the item fails before it is counted
			}
		}
		wantCodes[strconv.Itoa(f.Status)]++
	}
	nowCodes := stats.VerifStatusCodeTotals()
	for code := range nowCodes {
		if _, ok := wantCodes[code]; !ok {
			wantCodes[code] += 0
		}
	}
	for code, want := range wantCodes {
		if got := nowCodes[code] - baseCodes[code]; got != want {
			return fail("C17/gauges", "the per-status-code total of %s grew by %d during this run, %d response(s) with that status were accepted by the archiver", code, got, want)
		}
	}
	for _, k := range []string{"Preprocessor routines", "Archiver routines", "Postprocessor routines"} {
		if v, _ := m[k].(uint64); int(v) != c.Settings.Workers {
			return fail("C17/gauges", "%s gauge is %v with %d live workers", k, m[k], c.Settings.Workers)
		}
	}
	if !mustReturn(func() { p.Stop() }) {
		go pause.Resume()
		stopped = true
		return fail("C03/sim", "stop of an idle pipeline did not return within a virtual hour")
	}
	stopped = true
	time.Sleep(5 * time.Second)
	synctest.Wait()
	m = stats.GetMapTUI()
	for _, k := range []string{"Preprocessor routines", "Archiver routines", "Postprocessor routines"} {
		if v, _ := m[k].(uint64); v != 0 {
			return fail("C17/gauges", "%s gauge is %v after stop", k, m[k])
		}
	}
	for k := range cut {
		res.Classes = append(res.Classes, "cut:"+k)
	}
	sort.Strings(res.Classes)
	res.Classes = append(res.Classes, fmt.Sprintf("workers:%d", c.Settings.Workers), fmt.Sprintf("seeds:%d", len(c.Seeds)))
	if len(c.Seeds) > c.Settings.Workers {
		res.Classes = append(res.Classes, "token-backpressure")
	}
	if hadPause {
		res.Classes = append(res.Classes, "ctl:pause-resume")
		if hadRepause {
			res.Classes = append(res.Classes, "ctl:repause")
		}
	}
	if c.Sequential {
		res.Classes = append(res.Classes, "mode:sequential")
	}
	if c.Settings.RateLimit {
		res.Classes = append(res.Classes, "ratelimit:on")
	}
	if !c.Settings.Seencheck {
		res.Classes = append(res.Classes, "seencheck:off")
	}
	if len(c.Settings.DomainsCrawl) > 0 {
		res.Classes = append(res.Classes, "domainscrawl:on")
	}
	for _, sp := range inserted {
		n := 0
		for _, f := range log {
			if f.Host == sp.Host {
				n++
			}
		}
		if n >= 2 {
			res.NonTriv = true
		}
	}
	return res
}

func propSim(t veriflib.TB, outer *testing.T, c Case, feats map[string]bool) {
	var res simResult
	veriflib.Journal("C01", "C01/pipeline", c)
	func() {
		// a verdict reached while a call of the code under test is still blocked (that is what the verdict is about) makes
		// the bubble end with goroutines left behind, which synctest reports by panicking: the verdict stands, the panic
		// is its consequence
		defer func() {
			if r := recover(); r != nil {
				if res.Viol == "" || !strings.Contains(fmt.Sprint(r), "blocked goroutines remain") {
					panic(r)
				}
			}
		}()
		veriflib.Bubble(outer, "C01", "C01/pipeline", c, func(st *testing.T) {
			res = runCase(c)
		})
	}()
	veriflib.JournalDone()
	if res.Viol != "" {
		if res.Facet == "harness" {
			t.Fatalf("%s", res.Viol)
		}
		if res.Facet2 != "" {
			veriflib.WriteFailure(res.Facet2[:3], res.Facet2, c, res, res.Viol)
		}
		veriflib.Fail(t, res.Facet[:3], res.Facet, c, res, "%s", res.Viol)
	}
	cl := res.Classes
	for k := range feats {
		cl = append(cl, "site:"+k)
	}
	key := veriflib.JSON(c)
	sample := func() any {
		return map[string]any{"settings": c.Settings, "seeds": c.Seeds, "ctl": c.Ctl, "requests": len(res.Fetches), "finished": res.Finished,
			"virtual_elapsed": res.Elapsed, "resources": len(c.Site), "events": res.Events}
	}
	has := func(p string) bool {
		for _, c := range cl {
			if strings.HasPrefix(c, p) {
				return true
			}
		}
		return false
	}
	if has("ctl:stop") {
		veriflib.Record("C03/sim", key, res.NonTriv, cl, sample)
		if has("ctl:stop-while-paused") {
			veriflib.Record("C14/pipeline", key, true, cl, sample)
		}
		return
	}
	veriflib.Record("C01/pipeline", key, res.NonTriv, cl, sample)
	// the same run is evidence for the facets of the other properties: count it there when the case exercised them
	veriflib.Record("C06/pipeline", key, has("cut:max-redirect") || has("cut:depth-limit") || has("cut:retried") || has("cut:max-hops") || has("cut:failed-for-good") || has("domainscrawl:on"), cl, sample)
	veriflib.Record("C05/pipeline", key, has("cut:excluded") || has("cut:unacceptable-url"), cl, sample)
	veriflib.Record("C08/pipeline", key, has("cut:duplicate-in-tree") || has("cut:seen-skip") || has("cut:seen-promotion"), cl, sample)
	veriflib.Record("C17/gauges", key, res.NonTriv, nil, sample)
	if len(res.Produced) > 0 {
		veriflib.Record("C15/pipeline", key, len(res.Produced) >= 2, cl, sample)
	}
	// every seed finished and the reactor holds nothing (no state-table entry, no token) whatever became of the seed:
	// crawled, failed, excluded, refused
	veriflib.Record("C16/pipeline", key, has("cut:unacceptable-url") || has("cut:excluded") || has("cut:failed-for-good"), cl, sample)
	if has("ctl:pause-resume") {
		veriflib.Record("C14/pipeline", key, res.NonTriv, cl, sample)
	}
	if has("ratelimit:on") {
		veriflib.Record("C13/pipeline", key, res.NonTriv, cl, sample)
	}
}

func genCase(t *rapid.T) (Case, map[string]bool) {
	c := Case{Settings: GenSettings(t), Site: Site{}}
	n := rapid.IntRange(1, 2*c.Settings.Workers+1).Draw(t, "nseeds")
	feats := map[string]bool{}
	c.Sequential = rapid.IntRange(0, 3).Draw(t, "sequential") == 0
	for i := 0; i < n; i++ {
		sp, f := GenSeed(t, i+1, c.Site, c.Settings)
		c.Seeds = append(c.Seeds, sp)
		for k := range f {
			feats[k] = true
		}
	}
	// the same seed once more, later in the job (a second input list, an outlink coming back): with seencheck it is
	// skipped. Seeds also arrive in spellings other than the canonical one.
	if c.Sequential && c.Settings.Seencheck && rapid.IntRange(0, 2).Draw(t, "again") == 0 {
		d := c.Seeds[rapid.IntRange(0, len(c.Seeds)-1).Draw(t, "againwhich")]
		d.ID = fmt.Sprintf("seed-%d", len(c.Seeds)+1)
		c.Seeds = append(c.Seeds, d)
		feats["seed-again"] = true
	}
	for i := range c.Seeds {
		if rapid.IntRange(0, 3).Draw(t, fmt.Sprintf("spelling%d", i)) == 0 && acceptableURL(c.Seeds[i].URL) {
			if r := Spelled(c.Seeds[i].URL); r != "" {
				c.Seeds[i].Raw = r
				feats["seed-spelled-differently"] = true
			}
		}
	}
	// control events
	switch rapid.IntRange(0, 5).Draw(t, "ctl") {
	case 0:
		c.Ctl = []Ctl{{At: rapid.IntRange(1, 8).Draw(t, "at"), Kind: "pause-resume", Repause: rapid.IntRange(0, 2).Draw(t, "repause") == 0}}
	case 1:
		c.Ctl = []Ctl{{At: rapid.IntRange(1, 8).Draw(t, "at"), Kind: []string{"stop", "pause-stop"}[rapid.IntRange(0, 1).Draw(t, "stopkind")]}}
	case 2:
		a := rapid.IntRange(1, 6).Draw(t, "at")
		c.Ctl = []Ctl{{At: a, Kind: "pause-resume"}, {At: a + rapid.IntRange(1, 6).Draw(t, "at2"), Kind: "pause-resume", Repause: rapid.IntRange(0, 2).Draw(t, "repause") == 0}}
	case 3:
		pts := []string{"preprocessor.received", "preprocessor.forward", "archiver.received", "archiver.beforeDo", "archiver.forward", "postprocessor.received",
			"postprocessor.outlinks", "postprocessor.outlinks", "postprocessor.forward", "finisher.received", "finisher.feedback", "finisher.beforeMarkFinished"}
		c.Ctl = []Ctl{{At: rapid.IntRange(1, 6).Draw(t, "hookn"), Point: pts[rapid.IntRange(0, len(pts)-1).Draw(t, "point")],
			Kind: []string{"hookpause-resume", "hookpause-stop", "hookpause-stop"}[rapid.IntRange(0, 2).Draw(t, "hookkind")], Repause: rapid.IntRange(0, 2).Draw(t, "repause") == 0}}
	}
	return c, feats
}

var simFacets = []string{"C01/pipeline", "C06/pipeline", "C05/pipeline", "C08/pipeline", "C13/pipeline", "C14/pipeline", "C03/sim", "C17/gauges", "C15/pipeline", "C16/pipeline"}

func TestVerif_Sim_Pipeline(t *testing.T) {
	defer veriflib.Flush()
	var rc Case
	for _, f := range simFacets {
		if veriflib.ReplayCase(f, &rc) {
			propSim(t, t, rc, nil)
			return
		}
	}
	if veriflib.Replaying() {
		t.Skip()
	}
	rapid.Check(t, func(rt *rapid.T) {
		c, feats := genCase(rt)
		veriflib.Guard("C01", "C01/pipeline", c, func() { propSim(rt, t, c, feats) })
	})
}

// Strict reproduction: stop while paused.
// simKFFailedDup: DedupeItems gives priority to a Completed node only; a node whose fetch Failed loses against a fresh
// duplicate that comes earlier in the tree walk (a redirect chain ending on the same URL), and the URL is fetched again
// by a second non-seed node of the same tree.
const simKFFailedDup = "C08-failed-node-loses-to-fresh-duplicate"

func TestVerifKF_Sim_FailedNodeRefetched(t *testing.T) {
	c := Case{Settings: Settings{Workers: 1, MaxAssets: 1, MaxRedirect: 2, MaxRetry: 0, MaxHops: 0, Seencheck: false}, Site: Site{
		"http://s2.example.com/p1":      {Kind: "html", Assets: []string{"http://s2.example.com/r6.dat", "http://s2.example.com/d3.json"}},
		"http://s2.example.com/r6.dat":  {Kind: "redirect", Status: 301, Loc: "http://s2.example.com/r5.dat"},
		"http://s2.example.com/r5.dat":  {Kind: "redirect", Status: 301, Loc: "http://s2.example.com/a4.png"},
		"http://s2.example.com/d3.json": {Kind: "json", Assets: []string{"http://s2.example.com/a4.png"}},
		"http://s2.example.com/a4.png":  {Kind: "bin", BodyErr: true},
	}, Seeds: []SeedPlan{{ID: "seed-1", URL: "http://s2.example.com/p1", Host: "s2.example.com"}}}
	propSim(t, t, c, nil)
}

// simKF403: archive() reports a 403 to the rate limiter as a success (only 5xx, 408, 425 and 429 take the failure branch).
const simKF403 = "C13-403-not-reported-to-limiter"

// Strict sub-check of the open finding: a 403 followed by another request to the same host, rate limiter on.
func TestVerifKF_Sim_403NoPenalty(t *testing.T) {
	c := Case{Settings: Settings{Workers: 1, MaxAssets: 1, MaxRedirect: 1, MaxRetry: 0, MaxHops: 0, Seencheck: true, RateLimit: true, RateCapacity: 1, RateRefill: 10}, Site: Site{
		"http://s1.example.com/p1":     {Kind: "html", Assets: []string{"http://s1.example.com/e2.png", "http://s1.example.com/a3.png"}},
		"http://s1.example.com/e2.png": {Kind: "status", Status: 403},
		"http://s1.example.com/a3.png": {Kind: "bin"},
	}, Seeds: []SeedPlan{{ID: "seed-1", URL: "http://s1.example.com/p1", Host: "s1.example.com"}}}
	propSim(t, t, c, nil)
}

func TestVerifKF_Sim_StopWhilePaused(t *testing.T) {
	c := Case{Settings: Settings{Workers: 2, MaxAssets: 1, MaxRedirect: 1, MaxRetry: 0, MaxHops: 0, Seencheck: true}, Site: Site{
		"http://s1.example.com/p1":     {Kind: "html", Assets: []string{"http://s1.example.com/a2.png"}},
		"http://s1.example.com/a2.png": {Kind: "bin"},
	}, Seeds: []SeedPlan{{ID: "seed-1", URL: "http://s1.example.com/p1", Host: "s1.example.com"}}, Ctl: []Ctl{{At: 1, Kind: "pause-stop"}}}
	propSim(t, t, c, nil)
}

// Directed case: pause issued from inside the pipeline just before a page with many outlinks reaches the postprocessor,
// then stop (the finisher's input buffer is smaller than the number of outlinks).
func TestVerif_Sim_Directed(t *testing.T) {
	defer veriflib.Flush()
	if veriflib.Replaying() {
		t.Skip()
	}
	for workers := 1; workers <= 2; workers++ {
		for rep := 0; rep < 6; rep++ {
			site := Site{"http://s1.example.com/p1": {Kind: "html", Assets: []string{"http://s1.example.com/a1.png", "http://s1.example.com/a2.png"},
				Links: []string{"http://s1.example.com/l1", "http://s1.example.com/l2", "http://s1.example.com/l3"}, HdrLinks: []string{"http://s1.example.com/hl1"}},
				"http://s1.example.com/a1.png": {Kind: "bin"}, "http://s1.example.com/a2.png": {Kind: "bin"}}
			for _, kind := range []string{"hookpause-stop", "hookpause-resume"} {
				c := Case{Settings: Settings{Workers: workers, MaxAssets: 2, MaxRedirect: 2, MaxRetry: 0, MaxHops: 1, Seencheck: true, ExcludeHosts: []string{ExcludedHost}},
					Site: site, Seeds: []SeedPlan{{ID: "seed-1", URL: "http://s1.example.com/p1", Host: "s1.example.com"}},
					Ctl: []Ctl{{At: 1, Kind: kind, Point: []string{"postprocessor.outlinks", "postprocessor.received", "archiver.received", "finisher.received", "preprocessor.received"}[rep%5]}}}
				propSim(t, t, c, map[string]bool{"directed": true})
			}
		}
	}
}
