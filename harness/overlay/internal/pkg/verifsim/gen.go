package verifsim

import (
	"fmt"
	"strings"

	"pgregory.net/rapid"
)

// SeedPlan is one seed of a generated case: where it starts and the part of the site that belongs to it.
type SeedPlan struct {
	ID   string `json:"id"`
	URL  string `json:"url"`
	Hops int    `json:"hops"`
	Host string `json:"host"`
	// Raw: the spelling under which the seed is handed to the crawler when it differs from URL, its canonical form
	// (upper-case host, explicit default port): what is requested, recorded as seen and compared is the canonical URL
	Raw string `json:"raw,omitempty"`
}

// Spelled returns another legal spelling of a canonical http URL ("" when there is none to offer).
func Spelled(u string) string {
	const pfx = "http://"
	if !strings.HasPrefix(u, pfx) {
		return ""
	}
	rest := u[len(pfx):]
	i := strings.IndexAny(rest, "/?#")
	if i < 0 {
		i = len(rest)
	}
	host := rest[:i]
	if host == "" || strings.ContainsAny(host, "@[") {
		return ""
	}
	out := strings.ToUpper(host)
	if !strings.Contains(host, ":") {
		out += ":80"
	}
	return "HTTP://" + out + rest[i:]
}

// Case is the plain-data form of one generated pipeline case.
type Case struct {
	Settings Settings   `json:"settings"`
	Site     Site       `json:"site"`
	Seeds    []SeedPlan `json:"seeds"`
	// Sequential: insert one seed at a time and wait for it (seencheck histories); otherwise all at once.
	Sequential bool  `json:"sequential,omitempty"`
	Ctl        []Ctl `json:"ctl,omitempty"`
}

const ExcludedHost = "excluded.example.net"

// SharedHost serves resources referenced by several seeds (seencheck histories).
const SharedHost = "shared.example.com"

// Ctl is a control event triggered when the At-th request reaches the simulated network.
type Ctl struct {
	At   int    `json:"at"`
	Kind string `json:"kind"` // pause-resume | pause-stop | stop (At = request number) | hookpause-resume | hookpause-stop (At = hit number of Point)
	// Point: a verifhook event point; the pause is issued synchronously from inside the pipeline at its At-th hit, so it
	// can land while a worker of the next stage is about to take (or is processing) the very seed that raised the event
	Point string `json:"point,omitempty"`
	// Repause (pause-resume kinds): a second pause is issued immediately after Resume() returned, then resumed
	Repause bool `json:"repause,omitempty"`
}

type siteBuilder struct {
	t      *rapid.T
	site   Site
	host   string
	n      int
	feat   map[string]bool
	leaves []string // leaf resources created so far for this seed (targets for "the same URL again, deeper in the tree")
	extra  []string // further references the current page must carry (companions of an asset just generated)
}

func (b *siteBuilder) name(prefix, ext string) string {
	b.n++
	return fmt.Sprintf("http://%s/%s%d%s", b.host, prefix, b.n, ext)
}

// challenge turns every second 403 answer into a Cloudflare challenge page (403 + "cf-mitigated: challenge"): the one
// kind of 403 the archiver discards, retries and reports to the rate limiter.
func (b *siteBuilder) challenge(u string) {
	if r := b.site[u]; r != nil && r.Kind == "status" && r.Status == 403 && r.FailFirst == 0 && b.pick("challenge", 2) == 0 {
		r.Challenge = true
		b.feat["challenge-page"] = true
	}
}

func (b *siteBuilder) pick(label string, n int) int { return rapid.IntRange(0, n-1).Draw(b.t, label) }

// failing decorates a resource with a failure behaviour some of the time.
func (b *siteBuilder) failing(r *Res) *Res {
	switch b.pick("fail", 10) {
	case 0:
		r.FailFirst, r.FailKind = -1, []int{500, 503, 429, 0, 502, 408, 0}[b.pick("failkind", 7)]
		b.feat["always-failing"] = true
		if r.FailKind == 0 {
			r.ErrKind = b.pick("errkind", len(transportErrors))
		}
	case 1:
		r.FailFirst, r.FailKind = 1+b.pick("failn", 3), []int{500, 503, 429, 0, 0}[b.pick("failkind", 5)]
		b.feat["fail-then-ok"] = true
		if r.FailKind == 0 {
			r.ErrKind = b.pick("errkind", len(transportErrors))
		}
	case 2:
		if r.Kind != "redirect" && r.Kind != "status" {
			r.BodyErr = true
			b.feat["body-read-error"] = true
		}
	}
	return r
}

// leaf creates a leaf asset and returns its URL.
func (b *siteBuilder) leaf() string {
	u := b.name("a", ".png")
	b.site[u] = b.failing(&Res{Kind: "bin"})
	b.leaves = append(b.leaves, u)
	return u
}

// doc creates a JSON or M3U8 document whose assets nest `levels` more levels, returns its URL.
func (b *siteBuilder) doc(levels int) string {
	kind := []string{"json", "m3u8"}[b.pick("dockind", 2)]
	ext := map[string]string{"json": ".json", "m3u8": ".m3u8"}[kind]
	u := b.name("d", ext)
	r := &Res{Kind: kind}
	n := 1 + b.pick("docassets", 3)
	for i := 0; i < n; i++ {
		switch {
		case levels > 0 && b.pick("nest", 2) == 0:
			r.Assets = append(r.Assets, b.doc(levels-1))
			b.feat["asset-of-asset"] = true
		case b.pick("nestredir", 5) == 0:
			// a nested resource served through a redirect (to a leaf or to a further document): redirects
			// add no depth, and the depth limit applies to their targets all the same
			ru := b.name("r", ".dat") // with an extension: JSON documents queue extension-less URLs as outlinks instead
			tgt := b.leaf()
			if levels > 0 && b.pick("redirtodoc", 2) == 0 {
				tgt = b.doc(levels - 1)
			}
			b.site[ru] = &Res{Kind: "redirect", Status: []int{301, 302, 303, 307}[b.pick("code", 4)], Loc: tgt}
			r.Assets = append(r.Assets, ru)
			b.feat["nested-asset-redirect"] = true
		default:
			r.Assets = append(r.Assets, b.leaf())
		}
	}
	if kind == "json" && b.pick("jsonlinks", 3) == 0 {
		// an API answer pointing at further pages ("next": ".../items?page=2"): URLs without a file extension are outlinks
		for i := 0; i < 1+b.pick("njsonlinks", 2); i++ {
			r.Links = append(r.Links, b.name("jl", ""))
		}
		if b.pick("jsonlinksonly", 3) == 0 {
			r.Assets = nil // nothing but links
		}
		b.feat["json-outlinks"] = true
	}
	b.site[u] = b.failing(r)
	return u
}

// asset creates one embedded resource of a page and returns the reference the page carries for it.
func (b *siteBuilder) asset(siblings []string) string {
	switch b.pick("assetkind", 16) {
	case 15:
		// a small document with one embedded resource, and next to it a redirect chain (two or three hops) that ends on that
		// very resource: the chain arrives one or two passes after the document's branch of the tree is finished
		d := b.name("d", ".json")
		x := b.leaf()
		b.site[d] = &Res{Kind: "json", Assets: []string{x}}
		hopsN := 2 + b.pick("chainhops", 2)
		next := x
		for i := 0; i < hopsN; i++ {
			ru := b.name("r", ".dat")
			b.site[ru] = &Res{Kind: "redirect", Status: []int{301, 302, 307}[b.pick("code", 3)], Loc: next}
			next = ru
		}
		b.extra = append(b.extra, next)
		b.feat["redirect-chain-to-finished-branch"] = true
		return d
	case 0, 1, 2, 3:
		return b.leaf()
	case 4, 5:
		return b.doc(b.pick("levels", 5)) // up to 5 levels of nesting: deeper than the depth limit
	case 6: // an HTML document embedded as an asset: fetched, never expanded
		u := b.name("h", ".html")
		b.site[u] = &Res{Kind: "html", Assets: []string{b.leaf(), b.leaf()}, Links: []string{b.name("l", "")}}
		b.feat["html-as-asset"] = true
		return u
	case 7: // an asset that redirects
		u := b.name("r", "")
		loc := ""
		redirSibs := []string{}
		for _, sib := range siblings {
			if r := b.site[sib]; r != nil && r.Kind == "redirect" && r.FailFirst == 0 {
				redirSibs = append(redirSibs, sib)
			}
		}
		switch b.pick("assetloc", 6) {
		case 0, 1:
			if len(redirSibs) > 0 {
				// ... to the URL of another requisite of the same page that redirects itself (http -> https -> CDN): by the time
				// the target node is created its namesake has been fetched and carries a pending target of its own
				loc = redirSibs[b.pick("redirsib", len(redirSibs))]
				b.feat["asset-redirect-to-redirecting-sibling"] = true
			} else {
				loc = b.leaf()
			}
		case 2:
			loc = b.leaf()
		case 3: // a Location that cannot become a request: only this target may be dropped, not its siblings
			loc = []string{"intent://open/#Intent;scheme=app;end", "ftp://ftp.example.com/f.png", "http://localhost/x.png", "mailto:a@example.com", "javascript:void(0)"}[b.pick("badassetloc", 5)]
			b.feat["asset-redirect-to-invalid"] = true
		case 4:
			b.n++
			loc = fmt.Sprintf("http://%s/y%d.png", ExcludedHost, b.n)
			b.feat["asset-redirect-to-excluded"] = true
		default: // two hops
			mid := b.name("r", "")
			end := ""
			if len(b.leaves) > 0 && b.pick("sameagain", 2) == 0 {
				// ... ending on a resource some document of this seed embeds as well: by the time the chain gets there
				// (one pass later than the document's own assets) that branch of the tree may already be finished
				end = b.leaves[b.pick("whichleaf", len(b.leaves))]
				b.feat["redirect-chain-to-known-resource"] = true
			} else {
				end = b.leaf()
			}
			b.site[mid] = &Res{Kind: "redirect", Status: 302, Loc: end}
			loc = mid
		}
		b.site[u] = &Res{Kind: "redirect", Status: []int{301, 302, 307, 308}[b.pick("code", 4)], Loc: loc}
		b.feat["asset-redirect"] = true
		return u
	case 8:
		u := b.name("e", ".png")
		b.site[u] = &Res{Kind: "status", Status: []int{404, 403, 410, 204}[b.pick("st", 4)]}
		b.challenge(u)
		b.feat["asset-4xx"] = true
		return u
	case 9:
		b.feat["excluded-asset"] = true
		b.n++
		return fmt.Sprintf("http://%s/x%d.png", ExcludedHost, b.n)
	case 10:
		b.feat["invalid-asset"] = true
		return []string{"javascript:void(0)", "mailto:a@example.com", "data:image/png;base64,AAAA", "http://localhost/x.png", "ftp://ftp.example.com/f.png", "http://[bad/x.png"}[b.pick("inv", 6)]
	case 11:
		if len(siblings) > 0 {
			b.feat["duplicate-asset"] = true
			return siblings[b.pick("dup", len(siblings))]
		}
		return b.leaf()
	case 13:
		// a resource on the shared host, referenced by several seeds
		b.feat["shared-asset"] = true
		u := fmt.Sprintf("http://%s/c%d.png", SharedHost, b.pick("sharedidx", 3))
		if b.site[u] == nil {
			b.site[u] = &Res{Kind: "bin"}
		}
		return u
	case 12:
		b.feat["pathless-asset"] = true
		b.n++
		return fmt.Sprintf("http://q%d.%s", b.n, b.host) // no path: removed as a false-positive asset
	default:
		b.feat["unknown-url-404"] = true
		return b.name("missing", ".png") // not in the site: 404
	}
}

func (b *siteBuilder) page() string {
	u := b.name("p", "")
	r := &Res{Kind: "html"}
	n := b.pick("nassets", 6)
	for i := 0; i < n; i++ {
		r.Assets = append(r.Assets, b.asset(r.Assets))
	}
	r.Assets = append(r.Assets, b.extra...)
	b.extra = nil
	if b.pick("reversed", 3) == 0 {
		// document order is independent of the order in which the generator made the resources up: a requisite that
		// redirects to a sibling's URL may come before or after that sibling
		for i, j := 0, len(r.Assets)-1; i < j; i, j = i+1, j-1 {
			r.Assets[i], r.Assets[j] = r.Assets[j], r.Assets[i]
		}
	}
	if b.pick("selfref", 5) == 0 {
		// the page names itself among its requisites (<link rel="canonical">, og:image of a media page): not an embedded
		// resource; whatever follows it in the document is one like any other - here an API document that lists further
		// pages, whose links count from the page's hop level
		k := b.pick("selfat", len(r.Assets)+1)
		tail := append([]string{u}, r.Assets[k:]...)
		if b.pick("selfthenjson", 2) == 0 {
			d := b.name("d", ".json")
			b.site[d] = &Res{Kind: "json", Assets: []string{b.leaf()}, Links: []string{b.name("jl", ""), b.name("jl", "")}}
			tail = append([]string{u, d}, r.Assets[k:]...)
			b.feat["json-outlinks"] = true
		}
		r.Assets = append(r.Assets[:k:k], tail...)
		b.feat["self-reference"] = true
	}
	nl := b.pick("nlinks", 4)
	for i := 0; i < nl; i++ {
		if lk := b.pick("linkkind", 5); lk == 0 {
			b.n++
			r.Links = append(r.Links, fmt.Sprintf("http://dc%d.crawl.example.org/l%d", b.pick("dchost", 2), b.n))
		} else if lk == 4 {
			// a foreign host whose name merely ends with the text of a --domains-crawl domain (no label boundary in front
			// of it): not a sub-domain
			b.n++
			r.Links = append(r.Links, fmt.Sprintf("http://%s/l%d", []string{"www.notcrawl.example.org", "cdn.my-crawl.example.org", "notcrawl.example.org"}[b.pick("lookalike", 3)], b.n))
			b.feat["lookalike-domain-link"] = true
		} else {
			r.Links = append(r.Links, b.name("l", ""))
		}
	}
	if b.pick("hdrlinks", 4) == 0 {
		for i := 0; i < 1+b.pick("nhdr", 2); i++ {
			r.HdrLinks = append(r.HdrLinks, b.name("hl", ""))
		}
		b.feat["link-header"] = true
	}
	b.site[u] = b.failing(r)
	return u
}

// GenSeed adds the site of one seed to the case and returns its plan and the features it contains.
func GenSeed(t *rapid.T, idx int, site Site, st Settings) (SeedPlan, map[string]bool) {
	maxHops := st.MaxHops
	b := &siteBuilder{t: t, site: site, host: fmt.Sprintf("s%d.example.com", idx), feat: map[string]bool{}}
	// some sites live on an explicit port: "host" and "host:port" are different texts wherever a per-host table is keyed
	if pp := rapid.IntRange(0, 4).Draw(t, "port"); pp >= 3 {
		b.host += []string{":8080", ":8443"}[pp-3]
		b.feat["host-with-port"] = true
	}
	sp := SeedPlan{ID: fmt.Sprintf("seed-%d", idx), Host: b.host, Hops: rapid.IntRange(0, maxHops+1).Draw(t, "hops")}
	switch b.pick("seedkind", 12) {
	case 0, 1, 2, 3, 4:
		sp.URL = b.page()
	case 5, 6, 7: // redirect chain
		n := 1 + b.pick("chain", 6)
		var end string
		switch b.pick("chainend", 10) {
		case 7, 8:
			// the chain leads into the host's endless redirect trap: only --max-redirect ends it
			end = fmt.Sprintf("http://%s/trap%d/n1", b.host, b.pick("trapform", 3))
			b.feat["redirect-trap"] = true
		case 0, 1:
			end = b.page()
		case 2:
			// the chain ends on the site's root page (http://host -> https://host/ -> ...): a redirect target without a
			// path is a page like any other - only an *embedded* reference to a bare origin is dropped as a false positive
			end = "http://" + b.host + "/"
			if site[end] == nil {
				site[end] = &Res{Kind: "html", Assets: []string{b.leaf()}}
			}
			b.feat["redirect-to-site-root"] = true
		case 3:
			end = "LOOP"
			b.feat["redirect-loop"] = true
		case 4:
			end = fmt.Sprintf("http://%s/gone", ExcludedHost)
			b.feat["redirect-to-excluded"] = true
		case 5:
			end = []string{"", "http://[bad", "javascript:void(0)", "http://localhost/"}[b.pick("badloc", 4)]
			b.feat["redirect-to-invalid"] = true
		case 6:
			end = "SELF"
			b.feat["self-redirect"] = true
		default:
			e := b.name("e", "")
			b.site[e] = &Res{Kind: "status", Status: []int{404, 403, 500}[b.pick("st", 3)]}
			b.challenge(e)
			end = e
		}
		urls := make([]string, n)
		for i := range urls {
			urls[i] = b.name("r", "")
		}
		for i, u := range urls {
			loc := end
			if i+1 < n {
				loc = urls[i+1]
			} else if end == "LOOP" {
				loc = urls[0]
			} else if end == "SELF" {
				loc = u
			}
			b.site[u] = &Res{Kind: "redirect", Status: []int{300, 301, 302, 303, 307, 308}[b.pick("code", 6)], Loc: loc}
		}
		sp.URL = urls[0]
		b.feat[fmt.Sprintf("redirect-chain")] = true
	case 8:
		u := b.name("e", "")
		b.site[u] = b.failing(&Res{Kind: "status", Status: []int{404, 403, 410, 500, 503, 429}[b.pick("st", 6)]})
		b.challenge(u)
		sp.URL = u
		b.feat["seed-status"] = true
	case 9:
		sp.URL = fmt.Sprintf("http://%s/seed%d", ExcludedHost, idx)
		b.feat["excluded-seed"] = true
	case 10:
		sp.URL = []string{"http://localhost/seed", "http://127.0.0.1/seed", "http://intranet/seed", "ftp://ftp.example.com/seed"}[b.pick("badseed", 4)]
		b.feat["unacceptable-seed"] = true
	default:
		sp.URL = b.doc(2)
		b.feat["seed-is-document"] = true
	}
	// how this site spells its redirects: absolute URLs, or - for targets on the same host - "/path" or "name" references
	// the client has to resolve against the URL that answered (every hop of a chain then is a relative one)
	if form := []int{0, 0, 1, 2}[b.pick("locform", 4)]; form != 0 {
		prefix, n := "http://"+b.host+"/", 0
		for u, r := range site {
			if r != nil && r.Kind == "redirect" && strings.HasPrefix(u, prefix) && strings.HasPrefix(r.Loc, prefix) {
				r.LocForm = form
				n++
			}
		}
		if n > 0 {
			b.feat["relative-location"] = true
		}
	}
	return sp, b.feat
}

// GenSettings draws the per-lifecycle knobs.
func GenSettings(t *rapid.T) Settings {
	s := genSettingsBase(t)
	s.SlowSource = rapid.IntRange(0, 3).Draw(t, "slowsource") == 0
	if rapid.IntRange(0, 3).Draw(t, "domainscrawl") == 0 {
		// --domains-crawl takes naive domains, full URLs (exact match, or host and sub-domains when there is nothing after
		// the host) and regular expressions (matched against the whole link): the last two can tell apart two links of
		// the same host
		s.DomainsCrawl = [][]string{
			{"crawl.example.org"},
			{"crawl.example.org"},
			{`/(l|hl)\d*[02468]$`},
			{"http://dc0.crawl.example.org"},
			{"http://dc1.crawl.example.org/l3", "http://s1.example.com/l2", "http://s2.example.com/l4", "http://s1.example.com:8080/l2"},
			{`^http://s\d+\.example\.com(:\d+)?/l\d*[13579]$`, "dc1.crawl.example.org"},
		}[rapid.IntRange(0, 5).Draw(t, "dckind")]
	}
	if rapid.IntRange(0, 3).Draw(t, "ratelimit") == 0 {
		s.RateLimit = true
		s.RateCapacity = float64(rapid.IntRange(1, 4).Draw(t, "ratecap"))
		s.RateRefill = []float64{0.2, 0.5, 1, 2, 10}[rapid.IntRange(0, 4).Draw(t, "raterefill")]
	}
	return s
}

func genSettingsBase(t *rapid.T) Settings {
	return Settings{
		Workers:      rapid.IntRange(1, 4).Draw(t, "workers"),
		MaxAssets:    rapid.IntRange(1, 4).Draw(t, "maxassets"),
		MaxRedirect:  rapid.IntRange(0, 4).Draw(t, "maxredirect"),
		MaxRetry:     rapid.IntRange(0, 2).Draw(t, "maxretry"),
		MaxHops:      rapid.IntRange(0, 2).Draw(t, "maxhops"),
		Seencheck:    rapid.IntRange(0, 4).Draw(t, "seencheck") != 0,
		ExcludeHosts: []string{ExcludedHost},
	}
}

// isHTTPish reports whether the reference text can become a request at all (NormalizeURL accepts it).
// Only the fixed list of unacceptable references used by the generator needs to be recognised.
func acceptableURL(u string) bool {
	if !strings.HasPrefix(u, "http://") && !strings.HasPrefix(u, "https://") {
		return false
	}
	h := HostOf(u)
	if i := strings.IndexByte(h, ':'); i >= 0 {
		h = h[:i]
	}
	if h == "localhost" || h == "127.0.0.1" || !strings.Contains(h, ".") || strings.ContainsAny(h, "[]") {
		return false
	}
	return true
}
