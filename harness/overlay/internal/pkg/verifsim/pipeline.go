package verifsim

import (
	"fmt"
	"net/http"
	"os"
	"path/filepath"
	"sync"
	"sync/atomic"
	"time"

	"github.com/internetarchive/Zeno/internal/pkg/archiver"
	"github.com/internetarchive/Zeno/internal/pkg/config"
	"github.com/internetarchive/Zeno/internal/pkg/controler/pause"
	"github.com/internetarchive/Zeno/internal/pkg/finisher"
	"github.com/internetarchive/Zeno/internal/pkg/postprocessor"
	"github.com/internetarchive/Zeno/internal/pkg/postprocessor/domainscrawl"
	"github.com/internetarchive/Zeno/internal/pkg/preprocessor"
	"github.com/internetarchive/Zeno/internal/pkg/preprocessor/seencheck"
	"github.com/internetarchive/Zeno/internal/pkg/reactor"
	"github.com/internetarchive/Zeno/internal/pkg/stats"
	"github.com/internetarchive/Zeno/internal/pkg/verifcfg"
	"github.com/internetarchive/Zeno/pkg/models"
)

// Settings are the per-lifecycle knobs of the simulated pipeline.
type Settings struct {
	Workers       int      `json:"workers"`
	MaxAssets     int      `json:"max_concurrent_assets"`
	MaxRedirect   int      `json:"max_redirect"`
	MaxRetry      int      `json:"max_retry"`
	MaxHops       int      `json:"max_hops"`
	Seencheck     bool     `json:"seencheck"`
	ExcludeHosts  []string `json:"exclude_hosts,omitempty"`
	ExcludeString []string `json:"exclude_string,omitempty"`
	IncludeHosts  []string `json:"include_hosts,omitempty"`
	DomainsCrawl  []string `json:"domains_crawl,omitempty"`
	DisableAssets bool     `json:"disable_assets,omitempty"`
	RateLimit     bool     `json:"rate_limit,omitempty"`
	RateCapacity  float64  `json:"rate_capacity,omitempty"`
	RateRefill    float64  `json:"rate_refill,omitempty"`
	// SlowSource: the source takes finished seeds one at a time (unbuffered channel) and, once a stop has begun, only
	// every five (virtual) seconds - a source busy flushing its own batches. The finisher then has to wait for it.
	SlowSource bool `json:"slow_source,omitempty"`
}

// Finish is one message observed on the source's finish channel.
type Finish struct {
	Seq  int64
	Item *models.Item
	// snapshot taken at the instant of reception
	Pending  []string // ids of nodes still Fresh/PreProcessed/Archived
	TreeDump string
}

// Pipeline is one running lifecycle.
type Pipeline struct {
	S         Settings
	Dir       string
	Net       *Net
	Seq       *atomic.Int64
	finishCh  chan *models.Item
	produceCh chan *models.Item

	mu       sync.Mutex
	finishes []Finish
	produced []*models.Item
	stopRecv chan struct{}
	recvWg   sync.WaitGroup
	stopping atomic.Bool
	// TrackedAtStop: the seeds the reactor still tracked when every stage had stopped (before the reactor itself is reset)
	TrackedAtStop []string
}

// Start wires and starts the stages the way controler.startPipeline does (without watchers, API, consul, source).
func Start(s Settings, site Site, dir string) (*Pipeline, error) {
	cfg := verifcfg.Quiet()
	cfg.Job = "verifsim"
	cfg.JobPath = filepath.Join(dir, "job")
	cfg.WARCTempDir = filepath.Join(dir, "job", "temp")
	cfg.WARCPrefix = "SIM"
	cfg.WARCPoolSize = 1
	cfg.WARCSize = 1 << 30
	cfg.WARCWriteAsync = true // nobody signals the feedback channel: the simulated network bypasses the WARC dialer
	cfg.WARCOnDisk = false
	cfg.WARCDedupeSize = 1 << 30
	cfg.DisableLocalDedupe = true
	cfg.WorkersCount = s.Workers
	cfg.MaxConcurrentAssets = s.MaxAssets
	cfg.MaxRedirect = s.MaxRedirect
	cfg.MaxRetry = s.MaxRetry
	cfg.MaxHops = s.MaxHops
	cfg.UseSeencheck = s.Seencheck
	cfg.DisableSeencheck = !s.Seencheck
	cfg.UseHQ = false
	cfg.Proxy = ""
	cfg.ExcludeHosts = append([]string{}, s.ExcludeHosts...)
	cfg.ExcludeString = append([]string{}, s.ExcludeString...)
	cfg.IncludeHosts = append([]string{}, s.IncludeHosts...)
	cfg.IncludeString = nil
	cfg.ExclusionRegexes = nil
	cfg.DisableAssetsCapture = s.DisableAssets
	cfg.DisableHTMLTag = nil
	cfg.DisableRateLimit = !s.RateLimit
	cfg.RateLimitCapacity = s.RateCapacity
	cfg.RateLimitRefillRate = s.RateRefill
	cfg.RateLimitCleanupFrequency = time.Hour
	cfg.HTTPTimeout = 0
	cfg.HTTPReadDeadline = int(time.Minute)
	cfg.UserAgent = "verifsim"
	domainscrawl.Reset()
	if len(s.DomainsCrawl) > 0 {
		if err := domainscrawl.AddElements(s.DomainsCrawl); err != nil {
			return nil, err
		}
	}
	if err := os.MkdirAll(cfg.JobPath, 0o755); err != nil {
		return nil, err
	}
	stats.Init()
	stats.Reset()
	pause.VerifReset()

	p := &Pipeline{S: s, Dir: dir, Seq: &atomic.Int64{}, stopRecv: make(chan struct{})}
	p.Net = NewNet(site, p.Seq)

	reactorOut := make(chan *models.Item, s.Workers)
	if err := reactor.Start(s.Workers, reactorOut); err != nil {
		return nil, fmt.Errorf("reactor: %w", err)
	}
	if s.Seencheck {
		if err := seencheck.Start(cfg.JobPath); err != nil {
			return nil, fmt.Errorf("seencheck: %w", err)
		}
	}
	preOut := make(chan *models.Item, s.Workers)
	if err := preprocessor.Start(reactorOut, preOut); err != nil {
		return nil, fmt.Errorf("preprocessor: %w", err)
	}
	archOut := make(chan *models.Item, s.Workers)
	// warc@v0.8.76 generateWarcFileName slices strconv.Itoa(now.Nanosecond())[:3] and panics when the nanosecond part
	// has fewer than three digits - which is always the case at the start of a synctest bubble (2000-01-01 00:00:00.0)
	if time.Now().Nanosecond() < 100 {
		time.Sleep(123456789 * time.Nanosecond)
	}
	if err := archiver.Start(preOut, archOut); err != nil {
		return nil, fmt.Errorf("archiver: %w", err)
	}
	for _, c := range archiver.GetClients() {
		c.Transport = http.RoundTripper(p.Net)
	}
	postOut := make(chan *models.Item, s.Workers)
	if err := postprocessor.Start(archOut, postOut); err != nil {
		return nil, fmt.Errorf("postprocessor: %w", err)
	}
	p.finishCh = make(chan *models.Item, s.Workers)
	if s.SlowSource {
		p.finishCh = make(chan *models.Item)
	}
	p.produceCh = make(chan *models.Item, s.Workers)
	if err := finisher.Start(postOut, p.finishCh, p.produceCh); err != nil {
		return nil, fmt.Errorf("finisher: %w", err)
	}
	// the harness is the source: it receives finish messages and produced (outlink) items
	p.recvWg.Add(2)
	go func() {
		defer p.recvWg.Done()
		for {
			if p.S.SlowSource && p.stopping.Load() {
				select {
				case <-time.After(5 * time.Second):
				case <-p.stopRecv:
					return
				}
			}
			select {
			case it := <-p.finishCh:
				f := Finish{Seq: p.Seq.Add(1), Item: it}
				it.Traverse(func(n *models.Item) {
					switch n.GetStatus() {
					case models.ItemFresh, models.ItemPreProcessed, models.ItemArchived:
						f.Pending = append(f.Pending, n.GetID()+":"+n.GetStatus().String())
					}
				})
				if len(f.Pending) > 0 {
					f.TreeDump = it.DrawTreeWithStatus()
				}
				p.mu.Lock()
				p.finishes = append(p.finishes, f)
				p.mu.Unlock()
			case <-p.stopRecv:
				return
			}
		}
	}()
	go func() {
		defer p.recvWg.Done()
		for {
			select {
			case it := <-p.produceCh:
				p.mu.Lock()
				p.produced = append(p.produced, it)
				p.mu.Unlock()
			case <-p.stopRecv:
				return
			}
		}
	}()
	return p, nil
}

// Insert hands a seed to the reactor like a source would (blocks while no token is free).
func (p *Pipeline) Insert(id, rawURL string, hops int) (*models.Item, error) {
	u := &models.URL{Raw: rawURL, Hops: hops}
	if err := u.Parse(); err != nil {
		return nil, err
	}
	it := models.NewItem(id, u, "")
	it.SetSource(models.ItemSourceQueue)
	return it, reactor.ReceiveInsert(it)
}

// Finishes returns a copy of the finish messages received so far.
func (p *Pipeline) Finishes() []Finish {
	p.mu.Lock()
	defer p.mu.Unlock()
	return append([]Finish(nil), p.finishes...)
}

// Produced returns a copy of the outlink items handed to the source so far.
func (p *Pipeline) Produced() []*models.Item {
	p.mu.Lock()
	defer p.mu.Unlock()
	return append([]*models.Item(nil), p.produced...)
}

// Tracked returns the ids the reactor still tracks.
func (p *Pipeline) Tracked() []string { return reactor.GetStateTable() }

// Stop stops the stages in the order of controler.stopPipeline and makes them startable again.
func (p *Pipeline) Stop() {
	p.stopping.Store(true)
	reactor.Freeze()
	preprocessor.Stop()
	archiver.Stop()
	postprocessor.Stop()
	finisher.Stop()
	if p.S.Seencheck {
		seencheck.Close()
	}
	seencheck.VerifReset()
	p.TrackedAtStop = reactor.GetStateTable()
	reactor.Stop()
	close(p.stopRecv)
	p.recvWg.Wait()
	preprocessor.VerifReset()
	archiver.VerifReset()
	postprocessor.VerifReset()
	os.RemoveAll(p.Dir)
}

var _ = config.Get
