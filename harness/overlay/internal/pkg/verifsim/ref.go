package verifsim

import (
	"net/url"
	"regexp"
	"strings"
)

// Reference crawler: what the statements of C01/C05/C06/C08 say must be requested for one seed, given a site model
// and the operator's limits. It is written from the property statements (level by level, limits, scope, dedupe,
// seencheck), not from the stage code, and it works on URL texts only.

// Expect is the expectation for one seed.
type Expect struct {
	// Attempts: URL -> [min,max] number of requests (0,0 = must not be requested at all is expressed by absence
	// from Attempts plus presence in Forbidden).
	Attempts  map[string][2]int
	Forbidden map[string]string // URL -> why no request may be sent for it
	Outlinks  []ExpOutlink      // links that must be handed to the queue
	Pages     map[string]int    // URL of every expanded page -> its hops (for checking produced items)
	// features that were decisive in this seed (for the non-trivial rule / class histogram)
	Cut map[string]bool
}

// ExpOutlink is an expected produced item.
type ExpOutlink struct {
	URL  string
	Via  string
	Hops int
}

type refNode struct {
	url       string
	depthNR   int  // depth without redirections
	redirects int  // redirects followed to get here
	seedType  bool // the seed itself or a redirect target (not an embedded asset)
	isSeed    bool
	hops      int
}

// SeenStore is the reference seen-store shared by the seeds of one lifecycle.
type SeenStore map[string]string // canonical URL -> "seed" | "asset"

func emptyPath(u string) bool {
	i := strings.Index(u, "://")
	rest := u[i+3:]
	j := strings.IndexByte(rest, '/')
	if j < 0 {
		return true
	}
	p := rest[j:]
	if k := strings.IndexAny(p, "?#"); k >= 0 {
		p = p[:k]
	}
	return p == "/" || p == ""
}

func excluded(u string, s Settings) bool {
	h := HostOf(u)
	for _, e := range s.ExcludeHosts {
		if strings.Contains(h, e) {
			return true
		}
	}
	for _, e := range s.ExcludeString {
		if strings.Contains(u, e) {
			return true
		}
	}
	if len(s.IncludeHosts) > 0 {
		inc := false
		for _, e := range s.IncludeHosts {
			if strings.Contains(h, e) {
				inc = true
			}
		}
		if !inc {
			return true
		}
	}
	return false
}

// MatchesDomainsCrawl models --domains-crawl as documented in the domainscrawl package: an entry with a scheme and a
// host is a full URL (it matches that exact URL text, or - when nothing follows the host - the host and its
// sub-domains); an entry without "://", "/", "?", "#" or blanks that contains a dot is a naive domain (host or
// sub-domain, whatever the port); anything else is a regular expression matched against the whole link text.
func MatchesDomainsCrawl(u string, s Settings) bool {
	h := HostOf(u)
	if i := strings.IndexByte(h, ':'); i >= 0 {
		h = h[:i]
	}
	hostMatch := func(d string) bool { return h == d || strings.HasSuffix(h, "."+d) }
	for _, d := range s.DomainsCrawl {
		if i := strings.Index(d, "://"); i > 0 && !strings.ContainsAny(d[:i], `\^$([`) {
			rest := d[i+3:]
			if j := strings.IndexAny(rest, "/?#"); j < 0 {
				if hostMatch(rest) {
					return true
				}
			} else if d == u {
				return true
			}
			continue
		}
		if !strings.ContainsAny(d, "/?# ") && strings.Contains(d, ".") && !strings.Contains(d, "://") {
			if hostMatch(d) {
				return true
			}
			continue
		}
		if regexp.MustCompile(d).MatchString(u) {
			return true
		}
	}
	return false
}

func retried(kind int) bool {
	return kind == 0 || kind >= 500 || kind == 408 || kind == 425 || kind == 429
}

// outcome of requesting a URL once the retry policy is applied: number of attempts, and whether a usable response
// (one that is post-processed) came back.
func fetchOutcome(r *Res, s Settings) (attempts int, ok bool) {
	if r == nil {
		return 1, true // 404
	}
	if r.Kind == "redirect" && r.Loc != "" && r.FailFirst == 0 && r.Status != 300 {
		// net/http refuses a 3xx whose Location header does not parse ("failed to parse Location header"): the
		// client returns an error, which the archiver treats like any transport error
		if _, err := url.Parse(r.Loc); err != nil {
			return s.MaxRetry + 1, false
		}
	}
	if (r.Kind == "status" && (retried(r.Status) || (r.Status == 403 && r.Challenge))) || (r.FailFirst == -1 && retried(r.FailKind)) {
		return s.MaxRetry + 1, false
	}
	if r.FailFirst > 0 && retried(r.FailKind) {
		if r.FailFirst <= s.MaxRetry {
			return r.FailFirst + 1, true
		}
		return s.MaxRetry + 1, false
	}
	if r.BodyErr && r.Kind != "redirect" && r.Kind != "status" {
		return 1, false // answered 200, so not retried; the body cannot be read: the item fails
	}
	return 1, true
}

// Reference computes the expectation for one seed. seen is updated (nil = seencheck off).
func Reference(site Site, s Settings, sp SeedPlan, seen SeenStore) Expect {
	e := Expect{Attempts: map[string][2]int{}, Forbidden: map[string]string{}, Pages: map[string]int{}, Cut: map[string]bool{}}
	tree := map[string]bool{} // URLs carried by non-seed nodes of this seed's tree
	level := []refNode{{url: sp.URL, seedType: true, isSeed: true, hops: sp.Hops}}
	add := func(u string, n int) {
		a := e.Attempts[u]
		e.Attempts[u] = [2]int{a[0] + n, a[1] + n}
	}
	for len(level) > 0 {
		// scope, false positives
		var kept []refNode
		stop := false
		for _, n := range level {
			if !acceptableURL(n.url) {
				e.Forbidden[n.url] = "not an acceptable http(s) URL"
				e.Cut["unacceptable-url"] = true
				if n.isSeed {
					stop = true
					break
				}
				continue
			}
			if excluded(n.url, s) {
				e.Forbidden[n.url] = "out of scope (excluded)"
				e.Cut["excluded"] = true
				if n.isSeed {
					stop = true
					break
				}
				continue
			}
			if !n.seedType && emptyPath(n.url) {
				e.Cut["pathless-asset"] = true
				continue // an "asset" that is just a domain is a false positive and is dropped
			}
			kept = append(kept, n)
		}
		if stop {
			break
		}
		// one node per URL among the non-seed nodes of the tree
		var uniq []refNode
		for _, n := range kept {
			if !n.isSeed {
				if tree[n.url] {
					e.Cut["duplicate-in-tree"] = true
					continue
				}
				tree[n.url] = true
			}
			uniq = append(uniq, n)
		}
		// seencheck
		var todo []refNode
		for _, n := range uniq {
			if seen != nil {
				typ := "asset"
				if n.seedType {
					typ = "seed"
				}
				prev, found := seen[n.url]
				switch {
				case !found:
					seen[n.url] = typ
				case prev == "asset" && typ == "seed":
					seen[n.url] = "seed"
					e.Cut["seen-promotion"] = true
				default:
					e.Cut["seen-skip"] = true
					continue
				}
			}
			todo = append(todo, n)
		}
		// fetch + post-process
		var next []refNode
		for _, n := range todo {
			r := site.Get(n.url)
			att, ok := fetchOutcome(r, s)
			add(n.url, att)
			if att > 1 {
				e.Cut["retried"] = true
			}
			if !ok {
				e.Cut["failed-for-good"] = true
				continue
			}
			if r == nil {
				continue
			}
			switch r.Kind {
			case "redirect":
				if n.redirects >= s.MaxRedirect {
					e.Cut["max-redirect"] = true
					continue
				}
				next = append(next, refNode{url: r.Loc, depthNR: n.depthNR, redirects: n.redirects + 1, seedType: true, hops: n.hops})
			case "status":
			default:
				dc := len(s.DomainsCrawl) > 0
				if !dc && n.depthNR > 2 {
					if len(r.Assets) > 0 {
						e.Cut["depth-limit"] = true
					}
					continue
				}
				if !dc && n.depthNR == 1 && r.Kind == "html" {
					e.Cut["html-as-asset-not-expanded"] = true
					continue
				}
				if s.DisableAssets && !dc && (n.hops >= s.MaxHops) {
					continue
				}
				if !s.DisableAssets && r.Kind != "bin" {
					for _, a := range r.Assets {
						if a == n.url {
							continue // a reference to the document itself is not an embedded resource
						}
						next = append(next, refNode{url: a, depthNR: n.depthNR + 1, redirects: 0, hops: n.hops})
					}
				}
				// pages queue their <a> targets and Link-header URLs; a JSON document queues the URLs it holds that have no
				// file extension (those with one are its embedded resources) - they come out of the asset extraction, so only
				// when assets are captured
				if r.Kind == "html" || (r.Kind == "json" && len(r.Links) > 0 && !s.DisableAssets) {
					e.Pages[n.url] = n.hops
					links := append([]string{}, r.Links...)
					if r.Kind == "html" {
						links = append(links, r.HdrLinks...)
					}
					for _, l := range links {
						switch {
						case dc && MatchesDomainsCrawl(l, s):
							e.Outlinks = append(e.Outlinks, ExpOutlink{URL: l, Via: n.url, Hops: 0})
							e.Cut["domains-crawl-hops-reset"] = true
						case n.hops < s.MaxHops:
							e.Outlinks = append(e.Outlinks, ExpOutlink{URL: l, Via: n.url, Hops: n.hops + 1})
						default:
							e.Cut["max-hops"] = true
						}
					}
				}
			}
		}
		level = next
	}
	return e
}
