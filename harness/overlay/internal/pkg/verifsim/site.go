// Package verifsim is the simulated-network pipeline harness (overlay-only): the five REAL stages (reactor,
// preprocessor incl. seencheck, archiver incl. its retry loop and ProcessBody, postprocessor, finisher) are wired
// exactly as controler.startPipeline does, the harness owns the source's finish/produce channels, and the archiver's
// HTTP client gets an in-memory RoundTripper that serves a generated site model. No sockets, no WARC records
// (asynchronous WARC mode: the archiver does not wait for a writer), so the whole pipeline can run under virtual
// time (testing/synctest).
package verifsim

import (
	"bytes"
	"errors"
	"fmt"
	"io"
	"net"
	"net/http"
	"net/url"
	"os"
	"sort"
	"strconv"
	"strings"
	"sync"
	"sync/atomic"
	"syscall"
	"time"
)

// Res is one resource of a site model.
type Res struct {
	Kind      string   `json:"kind"`                 // html | json | m3u8 | bin | redirect | status
	Status    int      `json:"status,omitempty"`     // status kind: the code answered; redirect kind: 301/302/303/307/308
	Loc       string   `json:"loc,omitempty"`        // redirect target
	LocForm   int      `json:"loc_form,omitempty"`   // how the Location header spells a same-host target: 0 absolute, 1 "/path?query", 2 relative to the directory of the answering URL
	Assets    []string `json:"assets,omitempty"`     // embedded resources (html: img src, json: string values, m3u8: segments)
	Links     []string `json:"links,omitempty"`      // html: <a href>; json: string values without a file extension (queued as outlinks)
	HdrLinks  []string `json:"hdr_links,omitempty"`  // html: URLs announced in a Link response header (rel=next ...)
	FailFirst int      `json:"fail_first,omitempty"` // the first N attempts fail ...
	FailKind  int      `json:"fail_kind,omitempty"`  // ... with this status (0 = transport error); -1 = always fail
	ErrKind   int      `json:"err_kind,omitempty"`   // which transport error a failing attempt returns (see transportErrors)
	BodyErr   bool     `json:"body_err,omitempty"`   // the 200 answer's body breaks off half-way with a read error
	Challenge bool     `json:"challenge,omitempty"`  // status 403 only: a Cloudflare challenge page (header cf-mitigated: challenge) - discarded and retried like a 5xx
}

// Site maps the URL text as requested on the wire to its resource. Unknown URLs answer 404.
type Site map[string]*Res

// Get looks a URL up. Besides the listed resources every host has an endless redirect trap (the session-id / calendar
// kind): http://host/trap<form>/n<k> answers 302 to .../n<k+1>, spelled in Location form <form> (see Res.LocForm). Only
// the redirect limit ends a walk into it.
func (s Site) Get(u string) *Res {
	if r, ok := s[u]; ok {
		return r
	}
	if i := strings.Index(u, "/trap"); i > 0 && strings.HasPrefix(u, "http://") && !strings.Contains(u[len("http://"):i], "/") {
		rest := u[i+len("/trap"):]
		if len(rest) >= 4 && rest[0] >= '0' && rest[0] <= '2' && rest[1:3] == "/n" {
			if k, err := strconv.Atoi(rest[3:]); err == nil && k >= 0 {
				return &Res{Kind: "redirect", Status: 302, Loc: fmt.Sprintf("%s/trap%c/n%d", u[:i], rest[0], k+1), LocForm: int(rest[0] - '0')}
			}
		}
	}
	return nil
}

// Fetch is one request seen by the simulated network.
type Fetch struct {
	Seq       int64  `json:"seq"`
	URL       string `json:"url"`
	Host      string `json:"host"`
	Attempt   int    `json:"attempt"`
	Status    int    `json:"status"`              // 0 = transport error
	AtMs      int64  `json:"at_ms"`               // (virtual) time of the request, ms since the network was created
	DoneMs    int64  `json:"done_ms"`             // time the answer was handed back (later than at_ms when the harness held the request)
	Challenge bool   `json:"challenge,omitempty"` // the answer was a challenge page (403 + cf-mitigated: challenge)
}

// Net is the in-memory network: an http.RoundTripper over a Site with a global, totally ordered fetch log.
type Net struct {
	mu       sync.Mutex
	site     Site
	attempts map[string]int
	log      []Fetch
	reqs     map[*url.URL]struct{} // identity of the request objects seen: one per item (retries reuse the item's request)
	seq      *atomic.Int64
	t0       time.Time
	Gate     func(req *http.Request) // optional: called before answering (to stall / observe)
}

func NewNet(site Site, seq *atomic.Int64) *Net {
	return &Net{site: site, attempts: map[string]int{}, reqs: map[*url.URL]struct{}{}, seq: seq, t0: time.Now()}
}

// Log returns a copy of the fetch log.
func (n *Net) Log() []Fetch {
	n.mu.Lock()
	defer n.mu.Unlock()
	return append([]Fetch(nil), n.log...)
}

// Requests is the number of distinct request objects that reached the network. The archiver sends the request the
// preprocessor built for the item, the same object for every retry, so this is the number of items it worked on.
func (n *Net) Requests() int {
	n.mu.Lock()
	defer n.mu.Unlock()
	return len(n.reqs)
}

var errConn = errors.New("verifsim: simulated connection failure")

// transportErrors are what net/http hands back for the usual ways a fetch dies before a response exists: every one of
// them is "an error from client.Do" for the archiver's retry loop, whatever its type.
var transportErrors = []error{
	errConn,
	io.EOF, // server closed the connection without answering
	io.ErrUnexpectedEOF,
	&net.OpError{Op: "read", Net: "tcp", Err: os.NewSyscallError("read", syscall.ECONNRESET)},
	&net.OpError{Op: "write", Net: "tcp", Err: os.NewSyscallError("write", syscall.EPIPE)},
	&net.OpError{Op: "dial", Net: "tcp", Err: os.NewSyscallError("connect", syscall.ECONNREFUSED)},
	&net.DNSError{Err: "no such host", Name: "host.invalid", IsNotFound: true},
	timeoutErr{},
}

// locText spells a redirect target the way the resource's LocForm asks for (same-host targets only; everything else,
// and everything that does not parse, is sent as it is).
func locText(from *url.URL, loc string, form int) string {
	if form == 0 || loc == "" {
		return loc
	}
	t, err := url.Parse(loc)
	if err != nil || t.Host != from.Host || t.Scheme != from.Scheme || t.Fragment != "" {
		return loc
	}
	if form == 2 {
		fd, td := from.EscapedPath(), t.EscapedPath()
		fi, ti := strings.LastIndexByte(fd, '/'), strings.LastIndexByte(td, '/')
		if fi >= 0 && ti >= 0 && fd[:fi] == td[:ti] && td[ti+1:] != "" && !strings.Contains(td[ti+1:], ":") {
			out := td[ti+1:]
			if t.RawQuery != "" {
				out += "?" + t.RawQuery
			}
			return out
		}
	}
	return t.RequestURI()
}

type timeoutErr struct{}

func (timeoutErr) Error() string   { return "verifsim: i/o timeout" }
func (timeoutErr) Timeout() bool   { return true }
func (timeoutErr) Temporary() bool { return true }

func (n *Net) RoundTrip(req *http.Request) (*http.Response, error) {
	at := time.Since(n.t0).Milliseconds() // arrival time, before any stall the harness injects
	if n.Gate != nil {
		n.Gate(req)
	}
	u := req.URL.String()
	n.mu.Lock()
	n.reqs[req.URL] = struct{}{} // (kept referenced, so an address is never reused within a case)
	n.attempts[u]++
	att := n.attempts[u]
	r := n.site.Get(u)
	status := 404
	var body []byte
	hdr := http.Header{}
	fail := false
	if r != nil {
		if r.FailFirst == -1 || att <= r.FailFirst {
			fail = true
			status = r.FailKind
		} else {
			switch r.Kind {
			case "redirect":
				status = r.Status
				if status == 0 {
					status = 302
				}
				hdr.Set("Location", locText(req.URL, r.Loc, r.LocForm))
				body = []byte("moved")
				hdr.Set("Content-Type", "text/plain")
			case "status":
				status = r.Status
				body = []byte("<html><body>status page</body></html>")
				hdr.Set("Content-Type", "text/html")
				if r.Challenge && status == 403 {
					hdr.Set("cf-mitigated", "challenge")
				}
			default:
				status = 200
				body, hdr = render(r)
				if len(r.HdrLinks) > 0 {
					var parts []string
					for i, l := range r.HdrLinks {
						parts = append(parts, fmt.Sprintf("<%s>; rel=\"%s\"", l, []string{"next", "prev", "alternate"}[i%3]))
					}
					hdr.Set("Link", strings.Join(parts, ", "))
				}
			}
		}
	} else {
		body = []byte("not found")
		hdr.Set("Content-Type", "text/plain")
	}
	f := Fetch{Seq: n.seq.Add(1), URL: u, Host: req.URL.Host, Attempt: att, Status: status, AtMs: at, DoneMs: time.Since(n.t0).Milliseconds()}
	if fail && status == 0 {
		f.Status = 0
	}
	f.Challenge = !fail && hdr.Get("cf-mitigated") == "challenge"
	n.log = append(n.log, f)
	n.mu.Unlock()
	if fail && status == 0 {
		return nil, transportErrors[((r.ErrKind%len(transportErrors))+len(transportErrors))%len(transportErrors)]
	}
	if fail {
		body = []byte("temporary failure")
		hdr = http.Header{"Content-Type": []string{"text/plain"}}
	}
	var rd io.Reader = bytes.NewReader(body)
	if !fail && r != nil && r.BodyErr && status == 200 {
		rd = io.MultiReader(bytes.NewReader(body[:len(body)/2]), errBody{})
	}
	return &http.Response{
		Status:        fmt.Sprintf("%d %s", status, http.StatusText(status)),
		StatusCode:    status,
		Proto:         "HTTP/1.1",
		ProtoMajor:    1,
		ProtoMinor:    1,
		Header:        hdr,
		Body:          io.NopCloser(rd),
		ContentLength: int64(len(body)),
		Request:       req,
	}, nil
}

type errBody struct{}

func (errBody) Read([]byte) (int, error) {
	return 0, errors.New("verifsim: simulated connection reset while reading the body")
}

var pngHeader = []byte{0x89, 'P', 'N', 'G', 0x0d, 0x0a, 0x1a, 0x0a, 0, 0, 0, 0x0d, 'I', 'H', 'D', 'R', 0, 0, 0, 1, 0, 0, 0, 1, 8, 6, 0, 0, 0, 0x1f, 0x15, 0xc4, 0x89}

func render(r *Res) ([]byte, http.Header) {
	h := http.Header{}
	var b bytes.Buffer
	switch r.Kind {
	case "html":
		h.Set("Content-Type", "text/html; charset=utf-8")
		b.WriteString("<!DOCTYPE html>\n<html><head><title>t</title></head><body>\n")
		for _, a := range r.Assets {
			fmt.Fprintf(&b, "<img src=\"%s\">\n", a)
		}
		for _, l := range r.Links {
			fmt.Fprintf(&b, "<a href=\"%s\">link</a>\n", l)
		}
		b.WriteString("</body></html>\n")
	case "json":
		h.Set("Content-Type", "application/json")
		b.WriteString("{")
		for i, a := range r.Assets {
			if i > 0 {
				b.WriteString(",")
			}
			fmt.Fprintf(&b, "\"k%d\":%q", i, a)
		}
		for i, l := range r.Links {
			if i > 0 || len(r.Assets) > 0 {
				b.WriteString(",")
			}
			fmt.Fprintf(&b, "\"next%d\":%q", i, l)
		}
		b.WriteString("}")
	case "m3u8":
		h.Set("Content-Type", "application/vnd.apple.mpegurl")
		b.WriteString("#EXTM3U\n#EXT-X-VERSION:3\n#EXT-X-TARGETDURATION:10\n#EXT-X-MEDIA-SEQUENCE:0\n")
		for _, a := range r.Assets {
			fmt.Fprintf(&b, "#EXTINF:9.0,\n%s\n", a)
		}
		b.WriteString("#EXT-X-ENDLIST\n")
	default: // bin
		h.Set("Content-Type", "image/png")
		b.Write(pngHeader)
		b.Write(bytes.Repeat([]byte{0xAB}, 64))
	}
	return b.Bytes(), h
}

// URLsOfHost lists the URLs of the fetch log that belong to host, in order.
func URLsOfHost(log []Fetch, host string) []Fetch {
	var out []Fetch
	for _, f := range log {
		if f.Host == host {
			out = append(out, f)
		}
	}
	return out
}

// SortedKeys returns the sorted keys of a set.
func SortedKeys(m map[string]int) []string {
	ks := make([]string, 0, len(m))
	for k := range m {
		ks = append(ks, k)
	}
	sort.Strings(ks)
	return ks
}

// HostOf extracts the host of an absolute URL text ("" when none).
func HostOf(u string) string {
	i := strings.Index(u, "://")
	if i < 0 {
		return ""
	}
	rest := u[i+3:]
	if j := strings.IndexAny(rest, "/?#"); j >= 0 {
		rest = rest[:j]
	}
	return rest
}
