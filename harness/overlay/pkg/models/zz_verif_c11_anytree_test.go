package models

// C11/dedupe-any-tree - "De-duplication leaves exactly one node per URL and never discards a URL altogether", asked of
// DedupeItems itself ("dedupes items from any level") on any tree the model's own consistency check accepts, not only
// on the trees one pipeline pass after another happens to produce: several nodes of one URL in every mix of statuses,
// with and without subtrees, in every order.

import (
	"fmt"
	"testing"

	"github.com/internetarchive/Zeno/internal/pkg/veriflib"
	"pgregory.net/rapid"
)

type c11TNode struct {
	U    int        `json:"u"`
	S    int        `json:"s"` // index into c11TStatuses (made consistent with the structure when the tree is built)
	Kids []c11TNode `json:"kids,omitempty"`
}

type c11TreeCase struct {
	SeedURL int      `json:"seed_url"` // 99 = a URL no child has
	Root    c11TNode `json:"root"`
}

var c11TStatuses = []ItemState{ItemFresh, ItemPreProcessed, ItemArchived, ItemGotRedirected, ItemGotChildren, ItemCompleted, ItemSeen, ItemFailed}

func genC11TNode(t *rapid.T, alphabet, depth int, budget *int) c11TNode {
	n := c11TNode{U: rapid.IntRange(0, alphabet-1).Draw(t, "u"), S: rapid.IntRange(0, len(c11TStatuses)-1).Draw(t, "s")}
	if depth < 4 && *budget > 0 {
		k := rapid.IntRange(0, 3).Draw(t, "kids")
		for i := 0; i < k && *budget > 0; i++ {
			*budget--
			n.Kids = append(n.Kids, genC11TNode(t, alphabet, depth+1, budget))
		}
	}
	return n
}

// c11TBuild builds the item tree of a case; statuses that the structure rules out are replaced by the nearest allowed one
// (the same rules as Item.CheckConsistency, written down independently).
func c11TBuild(c c11TreeCase) *Item {
	id := 0
	var rec func(n c11TNode, parent *Item) *Item
	rec = func(n c11TNode, parent *Item) *Item {
		id++
		it := &Item{id: fmt.Sprintf("n%d", id), url: c11URLv(n.U, id), parent: parent}
		st := c11TStatuses[n.S%len(c11TStatuses)]
		if parent == nil {
			it.id, it.url = "seed", c11URL(c.SeedURL)
		}
		switch {
		case len(n.Kids) > 1:
			if st != ItemGotChildren && st != ItemCompleted && st != ItemFailed {
				st = ItemGotChildren
			}
		case len(n.Kids) == 1:
			if st != ItemGotChildren && st != ItemGotRedirected && st != ItemCompleted && st != ItemFailed {
				st = ItemGotRedirected
			}
		default:
			if st == ItemFresh && parent != nil && parent.status != ItemGotChildren && parent.status != ItemGotRedirected {
				st = ItemPreProcessed
			}
		}
		it.status = st
		for _, k := range n.Kids {
			it.children = append(it.children, rec(k, it))
		}
		return it
	}
	return rec(c.Root, nil)
}

func propC11DedupeAnyTree(t veriflib.TB, c c11TreeCase) {
	const facet = "C11/dedupe-any-tree"
	seed := c11TBuild(c)
	if err := seed.CheckConsistency(); err != nil {
		// not a tree the model accepts: outside the domain (counted, never an alarm)
		veriflib.Excluded(facet, "generated tree rejected by CheckConsistency")
		return
	}
	before, problem := c11Walk(seed)
	if problem != "" {
		t.Fatalf("C11 harness: generated tree is malformed: %s", problem)
	}
	drawn := c11Draw(seed)
	beforeKids := map[*Item][]*Item{}
	for _, n := range before.nodes {
		beforeKids[n] = append([]*Item(nil), n.children...)
	}
	fail := func(format string, a ...any) {
		msg := fmt.Sprintf(format, a...)
		veriflib.Fail(t, "C11", facet, c, map[string]any{"before": drawn, "after": c11Draw(seed)}, "%s\nbefore:\n%s\nafter:\n%s", msg, drawn, c11Draw(seed))
	}
	if err := seed.DedupeItems(); err != nil {
		fail("DedupeItems returned %v on a seed", err)
	}
	after, problem := c11Walk(seed)
	if problem != "" {
		fail("after DedupeItems the tree is malformed: %s", problem)
	}
	maxDup, dupURLs := 0, 0
	for _, cnt := range before.urls {
		if cnt > 1 {
			dupURLs++
		}
		if cnt > maxDup {
			maxDup = cnt
		}
	}
	for u, cnt := range after.urls {
		if cnt != 1 {
			fail("after DedupeItems URL %s is carried by %d non-seed nodes (it was carried by %d before)", u, cnt, before.urls[u])
		}
		if before.urls[u] == 0 {
			fail("after DedupeItems URL %s appeared from nowhere", u)
		}
	}
	// "never discards a URL altogether" is claimed where it can be had together with "exactly one node per URL" without
	// re-parenting anything: when at most one carrier of every URL has a subtree (the only shape a pipeline pass produces:
	// one processed node and fresh leaves). Two carriers with subtrees of their own force the loss of one subtree; such
	// trees are only held to the one-node-per-URL and well-formedness clauses.
	withKids := map[string]int{}
	for _, n := range before.nodes {
		if n.parent != nil && len(beforeKids[n]) > 0 {
			withKids[n.url.String()]++
		}
	}
	lossless := true
	for _, k := range withKids {
		if k > 1 {
			lossless = false
		}
	}
	for u := range before.urls {
		if after.urls[u] == 0 {
			if !lossless {
				veriflib.Excluded(facet, "URL lost in a tree where two carriers of one URL both have subtrees")
				continue
			}
			if veriflib.FindingOpen("C11-dedupe-drops-subtree") {
				veriflib.Excluded(facet, "URL lost with the subtree of a removed duplicate (open finding)")
				continue
			}
			fail("DedupeItems discarded URL %s altogether (it was in the tree before, no node carries it now)", u)
		}
	}
	for n, st := range before.status {
		if got, still := after.status[n]; still && c11Pending(st) && got != st {
			fail("DedupeItems changed the status of pending node %s from %s to %s", n.id, st, got)
		}
	}
	veriflib.Record(facet, veriflib.JSON(c), maxDup >= 3 || dupURLs >= 2,
		[]string{fmt.Sprintf("lossless-domain:%v", lossless), fmt.Sprintf("nodes:%d", min(len(before.nodes)/4*4, 16)), fmt.Sprintf("max-copies-of-one-url:%d", min(maxDup, 5)), fmt.Sprintf("duplicated-urls:%d", min(dupURLs, 3))},
		func() any { return map[string]any{"before": drawn, "after": c11Draw(seed)} })
}

func TestVerif_C11_DedupeAnyTree(t *testing.T) {
	defer veriflib.Flush()
	var rc c11TreeCase
	if veriflib.ReplayCase("C11/dedupe-any-tree", &rc) {
		propC11DedupeAnyTree(t, rc)
		return
	} else if veriflib.Replaying() {
		t.Skip()
	}
	rapid.Check(t, func(t *rapid.T) {
		alphabet := rapid.IntRange(1, 4).Draw(t, "alphabet")
		budget := rapid.IntRange(3, 14).Draw(t, "budget")
		c := c11TreeCase{SeedURL: []int{99, 0}[rapid.IntRange(0, 1).Draw(t, "seedurl")]}
		c.Root = genC11TNode(t, alphabet, 0, &budget)
		veriflib.Guard("C11", "C11/dedupe-any-tree", c, func() { propC11DedupeAnyTree(t, c) })
	})
}
