package models

// C11 — the item tree stays well-formed through every pipeline-shaped operation sequence; de-duplication
// leaves exactly one (non-seed) node per URL and never discards a URL altogether; a seed is declared
// complete iff no node still awaits fetching or post-processing.
//
// The harness drives the REAL models.Item API with the operations the stages perform (same calls, in the same
// order: see preprocess(), archive(), postprocessItem(), finisher.worker()), always on the nodes at the tree's
// maximum depth, under a "chooser" that is either a rapid-generated choice list (large trees) or an odometer
// (exhaustive enumeration of every choice sequence for small scopes).

import (
	"fmt"
	"runtime"
	"sort"
	"strings"
	"sync"
	"testing"

	"github.com/internetarchive/Zeno/internal/pkg/veriflib"
	"pgregory.net/rapid"
)

// ---------------------------------------------------------------------------------------------
// choosers

type c11Chooser interface {
	choose(n int, what string) int // returns 0..n-1
}

// list chooser: plain data (replayable); values are taken modulo n, missing values are 0
type c11ListChooser struct {
	vals []int
	pos  int
}

func (c *c11ListChooser) choose(n int, _ string) int {
	v := 0
	if c.pos < len(c.vals) {
		v = c.vals[c.pos]
	}
	c.pos++
	if n <= 0 {
		return 0
	}
	return ((v % n) + n) % n
}

// odometer chooser: records arity at each choice point so that all sequences can be enumerated
type c11Odometer struct {
	vals  []int
	arity []int
	pos   int
}

func (c *c11Odometer) choose(n int, _ string) int {
	if c.pos == len(c.vals) {
		c.vals = append(c.vals, 0)
		c.arity = append(c.arity, n)
	} else {
		c.arity[c.pos] = n
	}
	v := c.vals[c.pos]
	c.pos++
	return v
}

// next advances to the next choice sequence; false when exhausted
func (c *c11Odometer) next() bool {
	c.vals = c.vals[:c.pos]
	c.arity = c.arity[:c.pos]
	for i := len(c.vals) - 1; i >= 0; i-- {
		if c.vals[i]+1 < c.arity[i] {
			c.vals[i]++
			c.vals = c.vals[:i+1]
			c.arity = c.arity[:i+1]
			c.pos = 0
			return true
		}
	}
	return false
}

// ---------------------------------------------------------------------------------------------
// tree helpers (independent walker)

type c11Params struct {
	Alphabet   int  `json:"alphabet"`       // number of distinct URLs children can get
	MaxKids    int  `json:"max_kids"`       // children added per post-processing step
	MaxNodes   int  `json:"max_nodes"`      // no expansion beyond this many nodes
	MaxPasses  int  `json:"max_passes"`     // passes per history
	SeedInAlph bool `json:"seed_in_alph"`   // the seed's own URL is one of the child URLs
	Calm       bool `json:"calm,omitempty"` // no filter removes, seencheck skips or fetch failures: only the post-processing outcomes vary
}

// c11URL builds URL number i. Odd-numbered nodes spell it differently (the query "a b" as a%20b instead of a+b): the same
// URL by its canonical string - what is fetched, seen-checked and logged - under another raw text, as two references on a
// page may have it.
func c11URL(i int) *URL { return c11URLv(i, 0) }

func c11URLv(i, variant int) *URL {
	u := &URL{Raw: fmt.Sprintf("http://e.com/u%d?q=a%sb", i, []string{"+", "%20"}[variant%2])}
	if err := u.Parse(); err != nil {
		panic(err)
	}
	return u
}

type c11Snap struct {
	nodes   []*Item
	urls    map[string]int // url -> count among NON-seed nodes
	pending bool
	status  map[*Item]ItemState
}

func c11Pending(s ItemState) bool {
	return s == ItemFresh || s == ItemPreProcessed || s == ItemArchived
}

// c11Walk walks the raw fields (not the accessor methods) and checks structural well-formedness.
func c11Walk(seed *Item) (snap c11Snap, problem string) {
	snap.urls = map[string]int{}
	snap.status = map[*Item]ItemState{}
	ids := map[string]bool{}
	seen := map[*Item]bool{}
	var rec func(n *Item, parent *Item)
	rec = func(n *Item, parent *Item) {
		if problem != "" {
			return
		}
		if n == nil {
			problem = "nil node in children list"
			return
		}
		if seen[n] {
			problem = "node " + n.id + " reachable twice"
			return
		}
		seen[n] = true
		if ids[n.id] {
			problem = "duplicate id " + n.id
			return
		}
		ids[n.id] = true
		if n.parent != parent {
			problem = "asymmetric link: child " + n.id + " does not point back to its parent"
			return
		}
		snap.nodes = append(snap.nodes, n)
		snap.status[n] = n.status
		if parent != nil {
			snap.urls[n.url.String()]++
		}
		if c11Pending(n.status) {
			snap.pending = true
		}
		for _, ch := range n.children {
			rec(ch, n)
		}
	}
	rec(seed, nil)
	return snap, problem
}

func c11Canon(n *Item) string {
	var sb strings.Builder
	var rec func(n *Item)
	rec = func(n *Item) {
		sb.WriteString(n.url.String()[len("http://e.com/"):])
		sb.WriteByte(':')
		sb.WriteString(fmt.Sprint(int(n.status)))
		if len(n.children) > 0 {
			sb.WriteByte('(')
			parts := make([]string, 0, len(n.children))
			for _, ch := range n.children {
				parts = append(parts, c11Canon(ch))
			}
			// children order matters for DedupeItems (first occurrence wins), so it is kept
			sb.WriteString(strings.Join(parts, ","))
			sb.WriteByte(')')
		}
	}
	rec(n)
	return sb.String()
}

func c11Clone(n *Item, parent *Item) *Item {
	c := &Item{id: n.id, url: c11URLFrom(n.url), seedVia: n.seedVia, status: n.status, source: n.source, parent: parent, err: n.err}
	for _, ch := range n.children {
		c.children = append(c.children, c11Clone(ch, c))
	}
	return c
}

func c11URLFrom(u *URL) *URL {
	nu := &URL{Raw: u.Raw, Hops: u.Hops, Redirects: u.Redirects}
	if err := nu.Parse(); err != nil {
		panic(err)
	}
	return nu
}

func c11Draw(n *Item) string { return n.DrawTreeWithStatus() }

// ---------------------------------------------------------------------------------------------
// the pipeline-shaped pass

type c11Run struct {
	t        veriflib.TB
	facetSfx string
	caseFn   func() any // the case, for replay files (evaluated at failure time)
	p        c11Params
	ch       c11Chooser
	nextID   int
	log      []string
	// statistics
	dupSeen, redirSeen, dedupeRemovedWithKids bool
	maxDepth                                  int64
	ops                                       int
}

func (r *c11Run) fail(facet string, seed *Item, format string, args ...any) {
	msg := fmt.Sprintf(format, args...)
	hist := map[string]any{"ops": r.log, "tree": c11Draw(seed)}
	veriflib.Fail(r.t, "C11", facet+r.facetSfx, r.caseFn(), hist, "%s\ntree:\n%s\nops: %s", msg, c11Draw(seed), strings.Join(r.log, " ; "))
}

func (r *c11Run) check(seed *Item, after string) c11Snap {
	r.ops++
	snap, problem := c11Walk(seed)
	if problem != "" {
		r.fail("C11/wellformed", seed, "after %s: %s", after, problem)
	}
	if err := seed.CheckConsistency(); err != nil {
		r.fail("C11/wellformed", seed, "after %s: CheckConsistency: %v", after, err)
	}
	return snap
}

func (r *c11Run) newItem(url int) *Item {
	r.nextID++
	return NewItem(fmt.Sprintf("n%d", r.nextID), c11URLv(url, r.nextID), "")
}

func c11Size(seed *Item) int {
	n := 0
	seed.Traverse(func(*Item) { n++ })
	return n
}

// dedupe with its oracle
func (r *c11Run) dedupe(seed *Item) {
	before, _ := c11Walk(seed)
	for _, cnt := range before.urls {
		if cnt > 1 {
			r.dupSeen = true
		}
	}
	if err := seed.DedupeItems(); err != nil {
		r.fail("C11/dedupe", seed, "DedupeItems returned %v on a seed", err)
	}
	after := r.check(seed, "DedupeItems")
	for u, cnt := range after.urls {
		if cnt != 1 {
			r.fail("C11/dedupe", seed, "after DedupeItems URL %s is carried by %d non-seed nodes", u, cnt)
		}
		if before.urls[u] == 0 {
			r.fail("C11/dedupe", seed, "after DedupeItems URL %s appeared from nowhere", u)
		}
	}
	for u := range before.urls {
		if after.urls[u] == 0 {
			if veriflib.FindingOpen("C11-dedupe-drops-subtree") {
				veriflib.Excluded("C11/dedupe", "URL lost with the subtree of a removed duplicate (open finding)")
				continue
			}
			r.fail("C11/dedupe", seed, "DedupeItems discarded URL %s altogether (it was in the tree before, no node carries it now)", u)
		}
	}
	// a pending node must never change status through dedupe/markCompleted
	for n, st := range before.status {
		if c11Pending(st) && after.status[n] != st {
			if _, still := after.status[n]; still {
				r.fail("C11/dedupe", seed, "DedupeItems changed the status of pending node %s from %s to %s", n.id, st, after.status[n])
			}
		}
	}
}

// completeAndCheck with its oracle; returns the verdict
func (r *c11Run) completeAndCheck(seed *Item, facet string) bool {
	before, _ := c11Walk(seed)
	got := seed.CompleteAndCheck()
	after := r.check(seed, "CompleteAndCheck")
	if got != !before.pending {
		if before.pending {
			r.fail(facet, seed, "CompleteAndCheck declared the seed complete although a node still awaits fetching or post-processing")
		}
		r.fail(facet, seed, "CompleteAndCheck declared the seed incomplete although no node awaits fetching or post-processing")
	}
	for n, st := range before.status {
		if c11Pending(st) && after.status[n] != st {
			r.fail(facet, seed, "CompleteAndCheck changed the status of pending node %s from %s to %s", n.id, st, after.status[n])
		}
		if (st == ItemFailed || st == ItemSeen || st == ItemCompleted) && after.status[n] != st {
			r.fail(facet, seed, "CompleteAndCheck changed the terminal status of node %s from %s to %s", n.id, st, after.status[n])
		}
	}
	if len(after.nodes) != len(before.nodes) {
		r.fail(facet, seed, "CompleteAndCheck changed the number of nodes from %d to %d", len(before.nodes), len(after.nodes))
	}
	return got
}

// probe runs CompleteAndCheck on a clone (mid-pass states), so the real tree is not disturbed.
func (r *c11Run) probe(seed *Item, where string) {
	cl := c11Clone(seed, nil)
	r.log = append(r.log, "probe@"+where)
	r.completeAndCheck(cl, "C11/complete-iff-midpass")
	r.log = r.log[:len(r.log)-1]
}

func (r *c11Run) workNodes(seed *Item) (int64, []*Item) {
	d := seed.GetMaxDepth()
	items, err := seed.GetNodesAtLevel(d)
	if err != nil {
		r.fail("C11/wellformed", seed, "GetNodesAtLevel: %v", err)
	}
	if d > r.maxDepth {
		r.maxDepth = d
	}
	return d, items
}

// pass runs one trip through preprocessor, archiver, postprocessor and finisher. Returns true when finished.
// choose consults the chooser, except in calm mode for the decisions that cut work short (always "keep / fetch ok").
func (r *c11Run) choose(n int, what string) int {
	if r.p.Calm && what != "post" {
		return 0
	}
	return r.ch.choose(n, what)
}

func (r *c11Run) pass(seed *Item) bool {
	// ---- preprocessor
	depth, items := r.workNodes(seed)
	for _, it := range items {
		if it.GetStatus() != ItemFresh {
			r.fail("C11/wellformed", seed, "node %s at the working depth is %s, not Fresh, at the start of a pass (the preprocessor panics on this)", it.id, it.GetStatus())
		}
	}
	early := false
	for _, it := range items {
		if it.IsSeed() {
			switch r.choose(4, "pre-seed") {
			case 0, 1:
				r.log = append(r.log, "pre:keep("+it.id+")")
			case 2:
				r.log = append(r.log, "pre:seed-invalid")
				it.SetStatus(ItemFailed)
				early = true
			case 3:
				r.log = append(r.log, "pre:seed-excluded")
				it.SetStatus(ItemCompleted)
				early = true
			}
		} else {
			if r.choose(4, "pre-child") == 3 {
				r.log = append(r.log, "pre:remove("+it.id+")")
				it.GetParent().RemoveChild(it)
			} else {
				r.log = append(r.log, "pre:keep("+it.id+")")
			}
		}
		if early {
			break
		}
	}
	r.check(seed, "preprocess filters")
	if !early {
		r.log = append(r.log, "dedupe")
		r.dedupe(seed)
		items, _ = seed.GetNodesAtLevel(depth)
		if len(items) == 0 {
			r.log = append(r.log, "pre:nothing-left")
			seed.SetStatus(ItemCompleted)
		} else {
			for _, it := range items {
				if it.GetStatus() == ItemFresh && r.choose(4, "seen") == 3 {
					r.log = append(r.log, "seen("+it.id+")")
					it.SetStatus(ItemSeen)
				}
			}
			n := 0
			for _, it := range items {
				if it.GetStatus() == ItemFresh {
					it.SetStatus(ItemPreProcessed)
					n++
				}
			}
			if n == 0 {
				r.log = append(r.log, "pre:all-seen")
				seed.SetStatus(ItemCompleted)
			}
		}
		r.check(seed, "preprocess")
		r.probe(seed, "after-preprocess")
	}
	// ---- archiver
	if st := seed.GetStatus(); st == ItemPreProcessed || st == ItemGotRedirected || st == ItemGotChildren {
		_, items = r.workNodes(seed)
		for _, it := range items {
			if it.GetStatus() != ItemPreProcessed {
				continue
			}
			if r.choose(4, "archive") == 3 {
				r.log = append(r.log, "arch:fail("+it.id+")")
				it.SetStatus(ItemFailed)
			} else {
				it.SetStatus(ItemArchived)
			}
		}
		r.check(seed, "archive")
		r.probe(seed, "after-archive")
	}
	// ---- postprocessor
	if st := seed.GetStatus(); st == ItemArchived || st == ItemGotRedirected || st == ItemGotChildren {
		_, items = r.workNodes(seed)
		for _, it := range items {
			if it.GetStatus() != ItemArchived {
				continue
			}
			room := r.p.MaxNodes - c11Size(seed)
			opts := 1 // completed
			if room > 0 {
				opts += r.p.Alphabet // redirect to url k
				opts += r.p.Alphabet // one child with url k
				if r.p.MaxKids >= 2 && room >= 2 {
					opts += r.p.Alphabet * r.p.Alphabet // two children
				}
			}
			o := r.choose(opts, "post")
			switch {
			case o == 0:
				r.log = append(r.log, "post:completed("+it.id+")")
				it.SetStatus(ItemCompleted)
			case o <= r.p.Alphabet:
				u := o - 1
				r.log = append(r.log, fmt.Sprintf("post:redirect(%s->u%d)", it.id, u))
				r.redirSeen = true
				if err := it.AddChild(r.newItem(u), ItemGotRedirected); err != nil {
					r.fail("C11/wellformed", seed, "AddChild(redirect) refused: %v", err)
				}
			case o <= 2*r.p.Alphabet:
				u := o - 1 - r.p.Alphabet
				r.log = append(r.log, fmt.Sprintf("post:children(%s->[u%d])", it.id, u))
				if err := it.AddChild(r.newItem(u), ItemGotChildren); err != nil {
					r.fail("C11/wellformed", seed, "AddChild refused: %v", err)
				}
			default:
				k := o - 1 - 2*r.p.Alphabet
				u1, u2 := k/r.p.Alphabet, k%r.p.Alphabet
				r.log = append(r.log, fmt.Sprintf("post:children(%s->[u%d,u%d])", it.id, u1, u2))
				for _, u := range []int{u1, u2} {
					if err := it.AddChild(r.newItem(u), ItemGotChildren); err != nil {
						r.fail("C11/wellformed", seed, "AddChild refused: %v", err)
					}
				}
			}
		}
		r.check(seed, "postprocess")
	}
	// ---- finisher
	if seed.GetStatus() == ItemFresh {
		// a fresh seed at the finisher is an outlink item: not part of this model
		r.fail("C11/wellformed", seed, "seed is still Fresh at the finisher")
	}
	r.log = append(r.log, "finisher")
	return r.completeAndCheck(seed, "C11/complete-iff")
}

func (r *c11Run) history(seed *Item) (finished bool, passes int) {
	r.check(seed, "creation")
	for passes = 1; passes <= r.p.MaxPasses; passes++ {
		if r.pass(seed) {
			return true, passes
		}
	}
	return false, r.p.MaxPasses
}

func c11NewSeed(p c11Params) *Item {
	u := 99
	if p.SeedInAlph {
		u = 0
	}
	return NewItem("seed", c11URL(u), "")
}

// ---------------------------------------------------------------------------------------------
// facet: rapid state machine on larger trees

type c11Case struct {
	Params  c11Params `json:"params"`
	Choices []int     `json:"choices"`
}

func propC11History(t veriflib.TB, c c11Case) {
	r := &c11Run{t: t, caseFn: func() any { return c }, p: c.Params, ch: &c11ListChooser{vals: c.Choices}}
	seed := c11NewSeed(c.Params)
	finished, passes := r.history(seed)
	nontrivial := r.maxDepth >= 2 && (r.dupSeen || r.redirSeen)
	classes := []string{fmt.Sprintf("depth:%d", r.maxDepth), fmt.Sprintf("passes:%d", passes)}
	if r.dupSeen {
		classes = append(classes, "has:duplicate-url")
	}
	if r.redirSeen {
		classes = append(classes, "has:redirect")
	}
	if finished {
		classes = append(classes, "finished")
	} else {
		classes = append(classes, "cut-at-max-passes")
	}
	veriflib.Record("C11/history", strings.Join(r.log, ";"), nontrivial, classes, func() any {
		return map[string]any{"ops": strings.Join(r.log, " ; "), "final_tree": c11Draw(seed)}
	})
}

var c11Facets = []string{"C11/history", "C11/wellformed", "C11/dedupe", "C11/complete-iff", "C11/complete-iff-midpass"}

func TestVerif_C11_History(t *testing.T) {
	defer veriflib.Flush()
	var rc c11Case
	for _, f := range c11Facets {
		if veriflib.ReplayCase(f, &rc) {
			propC11History(t, rc)
			return
		}
	}
	if veriflib.Replaying() {
		t.Skip()
	}
	rapid.Check(t, func(t *rapid.T) {
		c := c11Case{Params: c11Params{
			Alphabet:   rapid.IntRange(2, 4).Draw(t, "alphabet"),
			MaxKids:    2,
			MaxNodes:   rapid.IntRange(4, 14).Draw(t, "maxnodes"),
			MaxPasses:  rapid.IntRange(2, 7).Draw(t, "maxpasses"),
			SeedInAlph: rapid.Bool().Draw(t, "seedinalph"),
		}}
		if rapid.Bool().Draw(t, "uniform") {
			// rapid's integer generators favour small values, which here means "keep / archive / completed / redirect":
			// every other case takes its choices uniformly (expanded from one drawn 64-bit value), so that wide and
			// deep trees with uneven branches are as likely as narrow ones
			x := rapid.Uint64().Draw(t, "choice-seed")
			n := rapid.IntRange(10, 80).Draw(t, "nchoices")
			for i := 0; i < n; i++ {
				x += 0x9e3779b97f4a7c15
				z := x
				z = (z ^ (z >> 30)) * 0xbf58476d1ce4e5b9
				z = (z ^ (z >> 27)) * 0x94d049bb133111eb
				z ^= z >> 31
				c.Choices = append(c.Choices, int(z%24))
			}
		} else {
			c.Choices = rapid.SliceOfN(rapid.IntRange(0, 23), 0, 80).Draw(t, "choices")
		}
		veriflib.Guard("C11", "C11/history", c, func() { propC11History(t, c) })
	})
}

// ---------------------------------------------------------------------------------------------
// facet: exhaustive small scope — every choice sequence from a fresh seed within the bounds

type c11EnumCase struct {
	Params c11Params `json:"params"`
	Start  string    `json:"start"` // informational: canonical form of the start tree
	Vals   []int     `json:"vals"`
	Passes int       `json:"passes_before"` // passes already applied to reach the start tree (informational)
	Path   [][]int   `json:"path"`          // choice vectors of the earlier passes, to rebuild the start tree
}

func c11Rebuild(t veriflib.TB, c c11EnumCase) (*Item, *c11Run) {
	r := &c11Run{t: t, caseFn: func() any { return c }, p: c.Params, facetSfx: "#enum"}
	seed := c11NewSeed(c.Params)
	r.check(seed, "creation")
	for _, vec := range c.Path {
		r.ch = &c11ListChooser{vals: vec}
		if r.pass(seed) {
			break
		}
	}
	return seed, r
}

func propC11EnumOne(t veriflib.TB, c c11EnumCase) {
	seed, r := c11Rebuild(t, c)
	r.ch = &c11ListChooser{vals: c.Vals}
	r.pass(seed)
}

func TestVerif_C11_Exhaustive(t *testing.T) {
	defer veriflib.Flush()
	var rc c11EnumCase
	for _, f := range c11Facets {
		if veriflib.ReplayCase(f+"#enum", &rc) {
			propC11EnumOne(t, rc)
			return
		}
	}
	if veriflib.Replaying() {
		t.Skip()
	}
	c11Enumerate(t, c11Params{Alphabet: veriflib.N("C11_ENUM_ALPHABET", 3, 3), MaxKids: 2, MaxNodes: veriflib.N("C11_ENUM_NODES", 5, 6), MaxPasses: veriflib.N("C11_ENUM_PASSES", 3, 4), SeedInAlph: true})
	// second scope: four URLs and one more pass, restricted to the post-processing outcomes (calm): reaches trees whose
	// branches advance unevenly (one branch complete while another is still two levels from its leaves)
	c11Enumerate(t, c11Params{Alphabet: 4, MaxKids: 2, MaxNodes: veriflib.N("C11_ENUM_CALM_NODES", 6, 7), MaxPasses: veriflib.N("C11_ENUM_CALM_PASSES", 4, 5), SeedInAlph: false, Calm: true})
	veriflib.SetExhaustive("C11/exhaustive")
}

func c11Enumerate(t *testing.T, p c11Params) {
	type state struct {
		canon string
		path  [][]int
	}
	frontier := []state{{canon: "fresh-seed"}}
	visited := map[string]bool{}
	total, nontriv := 0, 0
	for level := 1; level <= p.MaxPasses; level++ {
		var next []state
		for _, st := range frontier {
			od := &c11Odometer{}
			for {
				od.pos = 0
				c := c11EnumCase{Params: p, Start: st.canon, Path: st.path, Passes: level - 1}
				seed, r := c11Rebuild(t, c)
				r.ch = od
				r.caseFn = func() any {
					cc := c
					cc.Vals = append([]int(nil), od.vals[:od.pos]...)
					return cc
				}
				finished := r.pass(seed)
				total++
				canon := c11Canon(seed)
				nt := r.maxDepth >= 2 && (r.dupSeen || r.redirSeen)
				if nt {
					nontriv++
				}
				vec := append([]int(nil), od.vals[:od.pos]...)
				veriflib.Record("C11/exhaustive", st.canon+"|"+fmt.Sprint(vec), nt, []string{fmt.Sprintf("pass:%d", level), fmt.Sprintf("calm:%v", p.Calm)}, func() any {
					return map[string]any{"start": st.canon, "choices": vec, "result": canon}
				})
				if !finished && !visited[canon] {
					visited[canon] = true
					np := append(append([][]int(nil), st.path...), vec)
					next = append(next, state{canon: canon, path: np})
				}
				if !od.next() {
					break
				}
			}
		}
		t.Logf("level %d: %d start states expanded, %d new unfinished states, %d pass executions so far", level, len(frontier), len(next), total)
		sort.Slice(next, func(i, j int) bool { return next[i].canon < next[j].canon })
		if level == 1 && veriflib.NShards() > 1 {
			// the enumeration is deterministic: shards split the states reached after the first pass and each
			// explores everything below its share (the union is the whole space; overlaps only cost time)
			var mine []state
			for _, st := range next {
				if int(veriflib.Hash(st.canon)%uint64(veriflib.NShards())) == veriflib.ShardIndex() {
					mine = append(mine, st)
				}
			}
			next = mine
		}
		frontier = next
	}
	veriflib.Class("C11/exhaustive", fmt.Sprintf("bounds:alphabet=%d,max_nodes=%d,passes=%d,calm=%v", p.Alphabet, p.MaxNodes, p.MaxPasses, p.Calm))
}

// ---------------------------------------------------------------------------------------------
// facet: concurrent AddChild / RemoveChild on one parent (the links are maintained under childrenMu)
//
// Operations on distinct children commute, so whatever the interleaving the outcome is known: the children are the
// initial ones minus the removed ones plus the added ones, each once, each pointing back at the parent.

type c11ConcCase struct {
	Initial int   `json:"initial"`         // children before the burst
	Remove  []int `json:"remove"`          // indices (into the initial children) removed concurrently
	Add     int   `json:"add"`             // children added concurrently
	Rounds  int   `json:"rounds"`          // fresh parents the burst is repeated on
	Procs   int   `json:"procs,omitempty"` // 0 = leave GOMAXPROCS alone
}

func propC11Concurrent(t veriflib.TB, c c11ConcCase) {
	const facet = "C11/concurrent"
	if c.Procs > 0 {
		defer runtime.GOMAXPROCS(runtime.GOMAXPROCS(c.Procs))
	}
	for round := 0; round < c.Rounds; round++ {
		parent := NewItem("seed", c11URL(99), "")
		kids := make([]*Item, c.Initial)
		for i := range kids {
			kids[i] = NewItem(fmt.Sprintf("k%04d", i), c11URL(i%7), "")
			if err := parent.AddChild(kids[i], ItemGotChildren); err != nil {
				t.Fatalf("harness: AddChild: %v", err)
			}
		}
		removed := map[string]bool{}
		start := make(chan struct{})
		var wg sync.WaitGroup
		for _, ri := range c.Remove {
			k := kids[ri%c.Initial]
			if removed[k.id] {
				continue
			}
			removed[k.id] = true
			wg.Add(1)
			go func() {
				defer wg.Done()
				<-start
				parent.RemoveChild(k)
			}()
		}
		added := map[string]bool{}
		for i := 0; i < c.Add; i++ {
			n := NewItem(fmt.Sprintf("a%04d", i), c11URL(i%7), "")
			added[n.id] = true
			wg.Add(1)
			go func() {
				defer wg.Done()
				<-start
				if err := parent.AddChild(n, ItemGotChildren); err != nil {
					panic("harness: AddChild: " + err.Error())
				}
			}()
		}
		close(start)
		wg.Wait()
		seen := map[string]int{}
		for _, ch := range parent.children {
			seen[ch.id]++
			if ch.parent != parent {
				veriflib.Fail(t, "C11", facet, c, nil, "round %d: child %s is listed under the parent but its parent pointer is %v", round, ch.id, ch.parent)
			}
		}
		for _, k := range kids {
			switch {
			case removed[k.id] && seen[k.id] > 0:
				veriflib.Fail(t, "C11", facet, c, nil, "round %d: %s was removed with RemoveChild (concurrently with other removals/additions on the same parent) but is still a child (%d children, %d expected)",
					round, k.id, len(parent.children), c.Initial-len(removed)+c.Add)
			case !removed[k.id] && seen[k.id] != 1:
				veriflib.Fail(t, "C11", facet, c, nil, "round %d: %s was never removed but is listed %d time(s) after concurrent removals/additions of its siblings (%d children, %d expected)",
					round, k.id, seen[k.id], len(parent.children), c.Initial-len(removed)+c.Add)
			}
		}
		for id := range added {
			if seen[id] != 1 {
				veriflib.Fail(t, "C11", facet, c, nil, "round %d: %s was added with AddChild but is listed %d time(s)", round, id, seen[id])
			}
		}
		if err := parent.CheckConsistency(); err != nil {
			veriflib.Fail(t, "C11", facet, c, nil, "round %d: CheckConsistency after the burst: %v", round, err)
		}
	}
	veriflib.Record(facet, veriflib.JSON(c), len(c.Remove) >= 2 && c.Rounds >= 1, []string{fmt.Sprintf("removers:%d", min(len(c.Remove), 8)), fmt.Sprintf("adders:%d", min(c.Add, 8)), fmt.Sprintf("procs:%d", c.Procs)}, func() any { return c })
}

func TestVerif_C11_Concurrent(t *testing.T) {
	defer veriflib.Flush()
	var rc c11ConcCase
	if veriflib.ReplayCase("C11/concurrent", &rc) {
		propC11Concurrent(t, rc)
		return
	} else if veriflib.Replaying() {
		t.Skip()
	}
	rapid.Check(t, func(t *rapid.T) {
		c := c11ConcCase{Initial: rapid.IntRange(2, 120).Draw(t, "initial"), Add: rapid.IntRange(0, 30).Draw(t, "add"), Rounds: rapid.IntRange(1, 6).Draw(t, "rounds"),
			Procs: []int{0, 0, 1, 2, 4}[rapid.IntRange(0, 4).Draw(t, "procs")]}
		c.Remove = rapid.SliceOfN(rapid.IntRange(0, 119), 2, 80).Draw(t, "remove")
		veriflib.Guard("C11", "C11/concurrent", c, func() { propC11Concurrent(t, c) })
	})
}
