#!/usr/bin/env python3
"""Regenerates the committed C10 seed corpus (plain documents, one directory per target).

Sources: /repo testdata and the inline samples of the extractor tests, the sample playlists / PDFs shipped with the
grafov/m3u8 and pdfcpu modules in the module cache, and small hand-written hostile documents. Big hostile constants
(deep nesting, very long attributes ...) are NOT stored here: the harness builds them at run time (c10Hostile in
zz_verif_c10_corpus_test.go). Files named kf-* / regress-* are minimised inputs of findings and are never regenerated.
"""
import glob
import os
import shutil
import zlib

HERE = os.path.dirname(os.path.abspath(__file__))
REPO = os.environ.get("VERIF_REPO", "/repo")
MOD = os.path.expanduser("~/go/pkg/mod")


def put(target, name, data):
    d = os.path.join(HERE, target)
    os.makedirs(d, exist_ok=True)
    if isinstance(data, str):
        data = data.encode("utf-8")
    with open(os.path.join(d, name), "wb") as f:
        f.write(data)


def copy(target, name, src):
    with open(src, "rb") as f:
        put(target, name, f.read())


# ------------------------------------------------------------------------------------------------ html
put("html", "outlinks.html", """
<html>
	<head></head>
	<body>
		<a href="http://example.com">ex</a>
		<a href="http://archive.org">ar</a>
		<p>test</p>
		<a href="https://web.archive.org">wa</a>
	</body>
</html>
""")
put("html", "audiovideo.html", """
<html>
	<head></head>
	<body>
		<video src="http://f1.com"></video>
		<p>test</p>
		<audio src="http://f2.com"></audio>
	</body>
</html>
""")
put("html", "rich.html", """<!DOCTYPE html>
<html lang="en"><head><meta charset="utf-8"><base href="https://cdn.example.org/root/">
<title>rich &amp; page</title>
<meta property="og:image" content="https://example.org/og.png"><meta href="/meta-href.png" content="no">
<link rel="stylesheet" href="css/site.css"><link rel="alternate" href="/feed.xml"><link rel="icon" href="//example.org/favicon.ico">
<style>body{background:url('img/bg.png')} .x{background-image:url("//static.example.org/x.gif")} .y{background:url(#wp-1)}
@font-face{src:url(https://fonts.example.org/f.woff2)}</style>
<script src="/js/app.js"></script>
<script type="application/ld+json">{"@context":"https://schema.org","image":["https://example.org/a.jpg","https://example.org/b"],"deep":"{\\"u\\":\\"https://example.org/in-string.png\\"}"}</script>
<script>/* <![CDATA[ */ var cfg = {"ajaxurl":"http:\\/\\/fakeurl.invalid\\/wp-admin\\/admin-ajax.php","n":{"u":"https://example.org/\\u00e9.js"}}; /* ]]> */</script>
<script>window.x="https://example.org/from-script.js";fetch('https://api.example.org/v1?x=1&amp;y=2')</script>
</head><body>
<a href="page2.html">rel</a> <a href="/abs?q=1#frag">abs</a> <a href="//other.example.net/p">schemerel</a> <a href=" img/x.png ">ws</a>
<a href="?only=query">q</a> <a href="#frag">f</a> <a href="mailto:a@b.c">m</a> <a href="javascript:void(0)">j</a> <a href="data:text/plain,hi">d</a>
<a data-href="/dh" data-url="https://example.org/du" data-link="dl" data-redirect-url="/dr" ping="/ping" router-link="/rl" to="/to">attrs</a>
<a onclick="window.location.href = 'https://example.org/onclick'">click</a> <a onclick="window.location='/oc2'">click2</a>
<a href="/static/app.css" data-src="/assets/a.png" data-srcset="/images/1.png 1x, /images/2.png 2x" srcset="/img/s.png 2x">asset-a</a>
<img src="a.png" data-src="lazy.png" data-lazy-src="lazy2.png" srcset="a-1x.png 1x, a-2x.png 2x,  ,a-3x.png" data-srcset="d1.png 100w,d2.png 200w">
<img srcset=""> <img srcset=","> <img srcset=" "> <img src>
<picture><source src="v.webm" srcset="s1.webp 1x, s2.webp 2x" data-srcset="ds.webp"><img src="fallback.jpg"></picture>
<video src="movie.mp4" poster="poster.jpg"></video><audio src="//media.example.org/a.mp3"></audio>
<div style="background-image: url('https://example.org/bg1.jpg'); width: 50%">x</div><div style="background:url(bg2.png)">y</div>
<div style="--font:(0.5); color: rgb(1,2,3)">z</div><div data-preview="https://example.org/preview.jpg" data-item='{"sources":[{"src":"https://example.org/video.m3u8"}],"n":1}'>p</div>
<div data-item="{broken json" style="(">bad</div>
<!-- <a href="http://commented.example.org/">no</a> -->
<table><tr><td><a href="t.html">cell</a></td></tr></table>
<p>plain text with https://text.example.org/in-text and www.naked.example.org/x</p>
</body></html>
""")
put("html", "quirks.html", "<html><body><a href=x><b><i><a href=y></b></i><table><a href=z><tr><td></table><p><p><select><option><a href=w></select>"
    "<svg><a href=s1><![CDATA[ <a href=cd> ]]></svg><math><mi><a href=m1></math><template><a href=t1></template>"
    "<noscript><img src=n1></noscript><textarea><a href=ta></textarea><plaintext><a href=pt>")
put("html", "entities.html", "<a href=\"&#x68;ttp://e&#46;com/&amp;&lt;&#0;&#xD800;&#x10FFFF;&#99999999999;&notanentity;&amp\">e</a><img src='&#'><img src=\"&#x\">")
put("html", "bom-utf16.html", b"\xff\xfe" + "<html><a href=\"http://utf16.example.org/é\">x</a></html>".encode("utf-16-le"))
put("html", "bom-utf8.html", b"\xef\xbb\xbf<html><body><a href=\"/b\xc3\xa9\xff\xfe\x80\">bad utf8 \xc3\x28 \xf0\x9f</a></body></html>")
put("html", "unterminated.html", "<html><body><a href=\"http://example.org/unterminated><img src='x.png><script>var a = {\"u\":\"http://e.org/x\"")
put("html", "reddit.html", """<html><body><shreddit-post><a href="https://preview.redd.it/abc.jpg?width=640&amp;crop=smart&amp;auto=webp&amp;s=deadbeef">p</a>
<img src="https://external-preview.redd.it/x.png?auto=webp&amp;amp;s=1%ZZ"><div style="--shreddit:(x)"></div></shreddit-post></body></html>""")
put("html", "ina.html", """<html><body><div data-type="player" config-url="https://apipartner.ina.fr/assets/x/playerConfigurations.json" asset-details-url="https://apipartner.ina.fr/assets/I0001" poster="https://cdn.ina.fr/p.jpg"></div></body></html>""")

# ------------------------------------------------------------------------------------------------ json
put("json", "script.json", r'''{"ajaxurl":"http:\/\/fakeurl.invalid\/wp-admin\/admin-ajax.php","days":"Days","hours":"Hours","minutes":"Minutes","seconds":"Seconds","ajax_nonce":"c35d389da5"}''')
put("json", "nested.json", '{"url": "https://example.com", "nested": {"link": "http://test.com"}}')
put("json", "truncated.json", '{"url": "https://example.com"')
put("json", "nourls.json", '{"key": "value", "number": 42}')
put("json", "array.json", '{"links": ["https://example1.com", "https://example2.com"]}')
put("json", "json-in-string.json", r'''{"dic": "{\"url\": \"https://example1.com\"}", "array": "[\"https://example2.com\"]"}''')
put("json", "json-in-string-3.json", r'''{"a":"{\"b\":\"{\\\"c\\\":\\\"[\\\\\\\"https://deep.example.org/x.png\\\\\\\"]\\\"}\"}"}''')
put("json", "types.json", '[null,true,false,0,-0,1e308,1e309,-1e-400,123456789012345678901234567890,1.0E+2,"",[],{},{"":""},"\\u0000","\\ud800","\\udc00\\ud800","\\uD83D\\uDE00","http://\\u00e9.example/\\u202e"]')
put("json", "urls.json", '{"a":"http://","b":"http:///x","c":"//host.example/x.png","d":"https://user:pw@[::1]:99999/p?q#f","e":"HTTP://EXAMPLE.COM/A.B","f":"ftp://x.example/f.txt","g":"http://a.example/%zz%","h":"https://example.com","i":"a://b","j":"://","k":"http://[fe80::1%25en0]/"}')
put("json", "dupkeys.json", '{"a":"http://one.example/1","a":"http://two.example/2","a":{"a":["http://three.example/3"]}}')
put("json", "scalar.json", '"https://scalar.example.org/only.png"')
put("json", "trailing.json", '{"u":"https://example.org/a.png"} {"second":"https://example.org/b.png"} garbage')
put("json", "bom.json", b'\xef\xbb\xbf{"u":"https://example.org/bom.png"}')
put("json", "badutf8.json", b'{"u":"https://example.org/\xff\xfe\xc3\x28.png","\xc0\xaf":"http://x.example/\xed\xa0\x80"}')

# ------------------------------------------------------------------------------------------------ xml / sitemap
copy("xml", "rss2.0.xml", os.path.join(REPO, "internal/pkg/postprocessor/extractor/testdata/rss2.0.xml"))
put("xml", "sitemap.xml", """<?xml version="1.0" encoding="UTF-8"?>
                <urlset xmlns="http://www.sitemaps.org/schemas/sitemap/0.9">
                    <url>
                        <loc>https://example.com/page1</loc>
                    </url>
                    <url>
                        <loc>https://example.com/page?param=1&amp;other=2</loc>
                    </url>
                </urlset>""")
put("xml", "sitemapindex.xml", """<?xml version="1.0" encoding="UTF-8"?><?xml-stylesheet type="text/xsl" href="//example.com/main-sitemap.xsl"?>
<sitemapindex xmlns="http://www.sitemaps.org/schemas/sitemap/0.9"><sitemap><loc>https://example.com/post-sitemap.xml</loc><lastmod>2024-01-01T00:00:00+00:00</lastmod></sitemap>
<sitemap><loc><![CDATA[https://example.com/page-sitemap.xml.gz]]></loc></sitemap></sitemapindex>""")
put("xml", "endonly.xml", '<?xml version="1.0" encoding="UTF-8"?></urlset>')
put("xml", "nested.xml", """<?xml version="1.0" encoding="UTF-8"?>
                <root>
                    <level1>
                        <level2>
                            <url>https://example.com/nested</url>
                        </level2>
                    </level1>
                    <element url="https://example.com/attr" other='http://example.com/single'></element>
                    <element>Text before URL https://example.com/mixed Text after URL</element>
                </root>""")
put("xml", "doctype.xml", """<?xml version="1.0" encoding="ISO-8859-1" standalone="no"?>
<!DOCTYPE root [ <!ENTITY a "http://entity.example.org/a"> <!ENTITY % pe SYSTEM "http://www.sitemaps.org/schemas/sitemap/0.9"> <!ELEMENT root ANY> ]>
<root xmlns:x="http://ns.example.org/x" x:href="http://example.org/nsattr">&a;&undefined;&#x41;&#99999999999;<x:y/><![CDATA[ http://cdata.example.org/c ]]><!-- http://comment.example.org/ --></root>""")
put("xml", "svg.xml", """<?xml version="1.0"?><svg xmlns="http://www.w3.org/2000/svg" xmlns:xlink="http://www.w3.org/1999/xlink"><image xlink:href="http://example.org/i.png"/><a href="https://example.org/l"><text>t</text></a></svg>""")
put("xml", "atom.xml", """<?xml version="1.0" encoding="utf-8"?><feed xmlns="http://www.w3.org/2005/Atom"><title>t</title><link href="http://example.org/"/><link rel="self" href="http://example.org/feed.atom"/>
<entry><id>urn:uuid:1</id><link href="http://example.org/2003/12/13/atom03"/><content type="html">&lt;a href="http://example.org/in-content.png"&gt;x&lt;/a&gt;</content></entry></feed>""")
put("xml", "unbalanced.xml", '<?xml version="1.0"?><a><b attr="http://example.org/x" attr2=unquoted attr3><c></a></b><d/><<e>http://example.org/after</e')
put("xml", "utf16.xml", b"\xff\xfe" + '<?xml version="1.0" encoding="UTF-16"?><r u="http://example.org/16"/>'.encode("utf-16-le"))
put("xml", "procinst.xml", '<?xml version="1.0"?><?sitemaps.org/schemas/sitemap/ x?><?a?><??><r>http://example.org/pi</r>')

# ------------------------------------------------------------------------------------------------ s3
put("s3", "legacy.xml", """
<ListBucketResult>
	<Contents>
		<Key>file1.txt</Key>
		<LastModified>2021-01-01T12:00:00.000Z</LastModified>
		<Size>123</Size>
	</Contents>
	<IsTruncated>false</IsTruncated>
</ListBucketResult>""")
put("s3", "prefixes.xml", """
<ListBucketResult>
    <IsTruncated>false</IsTruncated>
    <CommonPrefixes>
        <Prefix>folder1/</Prefix>
        <Prefix>folder2/</Prefix>
    </CommonPrefixes>
</ListBucketResult>""")
put("s3", "badtag.xml", "<ListBucketResult><BadTag")
put("s3", "v2-full.xml", """<?xml version="1.0" encoding="UTF-8"?>
<ListBucketResult xmlns="http://s3.amazonaws.com/doc/2006-03-01/"><Name>bucket</Name><Prefix>a/</Prefix><KeyCount>3</KeyCount><MaxKeys>1000</MaxKeys><Delimiter>/</Delimiter>
<IsTruncated>true</IsTruncated><NextContinuationToken>1ueGcxLPRx1Tr/XYExHnhbYLgveDs2J/wm36Hy4vbOwM=</NextContinuationToken>
<Contents><Key>a/b c.txt</Key><LastModified>2009-10-12T17:50:30.000Z</LastModified><ETag>&quot;fba9dede5f27731c9771645a39863328&quot;</ETag><Size>434234</Size><StorageClass>STANDARD</StorageClass></Contents>
<Contents><Key>a/zero</Key><Size>0</Size></Contents><Contents><Key>../../%2e%2e/é?x#y</Key><Size>1</Size></Contents>
<CommonPrefixes><Prefix>a/sub/</Prefix></CommonPrefixes><CommonPrefixes><Prefix>a/&amp;=?#%/</Prefix><Prefix></Prefix></CommonPrefixes></ListBucketResult>""")
put("s3", "numbers.xml", """<ListBucketResult><Contents><Key>k</Key><Size>99999999999999999999</Size></Contents><Contents><Key>n</Key><Size>-1</Size></Contents>
<Contents><Key>f</Key><Size>1.5</Size></Contents><Contents><Key>e</Key><Size></Size></Contents><IsTruncated>maybe</IsTruncated></ListBucketResult>""")
put("s3", "wrongroot.xml", """<?xml version="1.0"?><Error><Code>AccessDenied</Code><Message>Access Denied</Message><RequestId>X</RequestId></Error>""")
put("s3", "azure.xml", """<?xml version="1.0" encoding="utf-8"?><EnumerationResults ServiceEndpoint="https://acct.blob.core.windows.net/" ContainerName="c"><Blobs><Blob><Name>a.txt</Name><Properties><Content-Length>5</Content-Length></Properties></Blob></Blobs><NextMarker /></EnumerationResults>""")

# ------------------------------------------------------------------------------------------------ m3u8
m3 = glob.glob(os.path.join(MOD, "github.com/grafov/m3u8@v0.12.1/sample-playlists"))
if m3:
    for n in ["master.m3u8", "master-with-alternatives.m3u8", "master-with-i-frame-stream-inf.m3u8", "master-playlist-with-custom-tags.m3u8",
              "media-playlist-with-byterange.m3u8", "media-playlist-with-scte35.m3u8", "media-playlist-with-oatcls-scte35.m3u8",
              "media-playlist-with-program-date-time.m3u8", "media-playlist-with-discontinuity-seq.m3u8", "media-playlist-with-start-time.m3u8",
              "widevine-bitrate.m3u8", "wowza-vod-chunklist.m3u8", "media-playlist-with-custom-tags.m3u8"]:
        p = os.path.join(m3[0], n)
        if os.path.exists(p):
            copy("m3u8", n, p)
put("m3u8", "keys.m3u8", """#EXTM3U
#EXT-X-VERSION:5
#EXT-X-TARGETDURATION:10
#EXT-X-MEDIA-SEQUENCE:18446744073709551615
#EXT-X-KEY:METHOD=AES-128,URI="https://keys.example.org/k?id=1",IV=0x9c7db8778570d05c3177c349fd9236aa,KEYFORMAT="identity",KEYFORMATVERSIONS="1/2"
#EXT-X-MAP:URI="init.mp4",BYTERANGE="720@0"
#EXTINF:9.009,title, with comma
#EXT-X-BYTERANGE:75232@0
http://media.example.com/first.ts
#EXTINF:-1,
#EXT-X-DISCONTINUITY
#EXT-X-PROGRAM-DATE-TIME:2010-02-19T14:54:23.031+08:00
second.ts?x=1&y=2
#EXTINF:1e99
#EXT-X-DATERANGE:ID="a",START-DATE="2014-03-05T11:15:00Z",DURATION=59.993,SCTE35-OUT=0xFC002F
../third.ts
#EXT-X-ENDLIST
""")
put("m3u8", "crlf-nohdr.m3u8", b"\xef\xbb\xbf#EXTINF:10,\r\nseg1.ts\r\n#EXT-X-STREAM-INF:PROGRAM-ID=1,BANDWIDTH=,RESOLUTION=x,CODECS=\"a,b\r\nv.m3u8\r\n#EXT-X-MEDIA:TYPE=AUDIO,GROUP-ID=\"g\",URI=\"a.m3u8\r\n")

# ------------------------------------------------------------------------------------------------ pdf
copy("pdf", "InternetArchiveDeveloperPortal.pdf", os.path.join(REPO, "internal/pkg/postprocessor/extractor/testdata/InternetArchiveDeveloperPortal.pdf"))
pc = os.path.join(MOD, "github.com/pdfcpu/pdfcpu@v0.9.1/pkg/testdata")
for n in ["empty.pdf", "test.pdf", "testRot.pdf", "zineTest.pdf", "blank-scan.pdf", "bookletTestA6.pdf"]:
    if os.path.exists(os.path.join(pc, n)):
        copy("pdf", "pdfcpu-" + n, os.path.join(pc, n))


def build_pdf(objs, trailer_extra=b"", xref_stream=False, version=b"1.4"):
    out = bytearray(b"%PDF-" + version + b"\n%\xe2\xe3\xcf\xd3\n")
    offs = []
    for i, o in enumerate(objs, 1):
        offs.append(len(out))
        out += b"%d 0 obj\n" % i + o + b"\nendobj\n"
    x = len(out)
    n = len(objs) + 1
    if not xref_stream:
        out += b"xref\n0 %d\n0000000000 65535 f \n" % n
        for o in offs:
            out += b"%010d 00000 n \n" % o
        out += b"trailer\n<< /Size %d /Root 1 0 R %s>>\nstartxref\n%d\n%%%%EOF\n" % (n, trailer_extra, x)
    else:
        rows = b"\x00\x00\x00\xff"
        for o in offs:
            rows += b"\x01" + o.to_bytes(2, "big") + b"\x00"
        rows += b"\x01" + x.to_bytes(2, "big") + b"\x00"
        z = zlib.compress(rows)
        out += b"%d 0 obj\n<< /Type /XRef /Size %d /W [1 2 1] /Root 1 0 R /Filter /FlateDecode /Length %d >>\nstream\n" % (n, n + 1, len(z)) + z + b"\nendstream\nendobj\n"
        out += b"startxref\n%d\n%%%%EOF\n" % x
    return bytes(out)


content = b"BT /F1 12 Tf 72 720 Td (link) Tj ET"
link_objs = [
    b"<< /Type /Catalog /Pages 2 0 R >>",
    b"<< /Type /Pages /Kids [3 0 R 9 0 R] /Count 2 >>",
    b"<< /Type /Page /Parent 2 0 R /MediaBox [0 0 612 792] /Contents 4 0 R /Resources << /Font << /F1 5 0 R >> >> /Annots [6 0 R 7 0 R 8 0 R] >>",
    b"<< /Length %d >>\nstream\n" % len(content) + content + b"\nendstream",
    b"<< /Type /Font /Subtype /Type1 /BaseFont /Helvetica >>",
    b"<< /Type /Annot /Subtype /Link /Rect [72 700 200 730] /Border [0 0 0] /A << /Type /Action /S /URI /URI (https://example.org/from-pdf?a=1&b=2) >> >>",
    b"<< /Type /Annot /Subtype /Link /Rect [72 600 200 630] /A << /S /URI /URI <68747470733A2F2F6865782E6578616D706C652E6F72672F> >> /Contents (c\\(o\\)n\\\\t\\101) >>",
    b"<< /Type /Annot /Subtype /Link /Rect [0 0 1 1] /Dest [3 0 R /Fit] /A << /S /URI /URI (mailto:a@example.org) >> >>",
    b"<< /Type /Page /Parent 2 0 R /MediaBox [0 0 612 792] /Annots 10 0 R >>",
    b"[ 11 0 R ]",
    b"<< /Type /Annot /Subtype /Link /Rect [10 10 20 20] /A << /S /URI /URI (file:///etc/passwd) /Next << /S /URI /URI (http://next.example.org/) >> >> /QuadPoints [1 2 3 4 5 6 7 8] >>",
]
put("pdf", "links-classic.pdf", build_pdf(link_objs, b"/Info << /Title (t) >> "))
put("pdf", "links-xrefstream.pdf", build_pdf(link_objs, xref_stream=True, version=b"1.5"))
# (a page tree that contains itself is the known finding pdf/kf-pagetree-cycle-stackoverflow.pdf, kept by hand)
loop_objs = list(link_objs)
loop_objs[9] = b"[ 11 0 R 10 0 R ]"
put("pdf", "links-annots-selfref.pdf", build_pdf(loop_objs))

# ------------------------------------------------------------------------------------------------ script content
put("script", "welcomebar.js", """
	/* <![CDATA[ */
	var welcomebar_frontjs = {"ajaxurl":"http:\\/\\/fakeurl.invalid\\/wp-admin\\/admin-ajax.php","days":"Days","hours":"Hours","minutes":"Minutes","seconds":"Seconds","ajax_nonce":"c35d389da5"};
	/* ]]> */
	""")
put("script", "noequals.js", "console.log({\"u\":\"https://example.org/x.js\"})")
put("script", "unbalanced.js", "var a = }}}{{ {\"u\":\"https://example.org/x.js\"")
put("script", "equals-end.js", "var a =")
put("script", "multibyte.js", "var é = /* { */ {\"ü\":\"https://example.org/ü.png\",\"s\":\"}\"}; var b = {\"x\":\"http://example.org/second.png\"}")
put("script", "closing-first.js", "x = } {\"u\":\"https://example.org/a.png\"}")
put("script", "apollo.js", "window.__APOLLO_STATE__={\"ROOT\":{\"img\":{\"url\":\"https://example.org/i.jpg\"},\"list\":[\"https://example.org/l.css\",{\"deep\":\"{\\\"u\\\":\\\"https://example.org/in.png\\\"}\"}]}};window.other={}")

# ------------------------------------------------------------------------------------------------ Link header values
for i, v in enumerate([
    '<https://one.example.com>; rel="preconnect", <https://two.example.com>; rel="preconnect", <https://three.example.com>; rel="preconnect"',
    '<https://one.example.com>; rel="preconnect"',
    '<https://api.example.com/items?page=2>; rel="next"; title="next, page"; type=text/html, </items?page=9>;rel=last',
    '<>; rel=x, ;;;, <, >, =, <a;b>;=;c, rel="next"',
    'https://nobrackets.example.com/x; REL = "Next" ; anchor="#foo"',
    '<https://example.com/%E2%98%83?q=<>>; rel="next";;;; =; rel',
    '<//schemerel.example.org/a>; rel=preload; as=style, <../up>; rel=prev, <?q=1>; rel=self, <#f>; rel=me',
]):
    put("linkheader", "link-%d.txt" % i, v)

# ------------------------------------------------------------------------------------------------ site-specific JSON
put("reddit", "info.json", """{"kind":"Listing","data":{"after":null,"dist":1,"modhash":"","geo_filter":"","children":[{"kind":"t3","data":{"approved_at_utc":null,"subreddit":"test",
"selftext":"","title":"t","gilded":0,"upvote_ratio":0.97,"media_embed":{},"secure_media":{"reddit_video":{"bitrate_kbps":2400,"fallback_url":"https://v.redd.it/abc/DASH_720.mp4?source=fallback","has_audio":true,"height":720,"width":1280,"dash_url":"https://v.redd.it/abc/DASHPlaylist.mpd","duration":12,"hls_url":"https://v.redd.it/abc/HLSPlaylist.m3u8","is_gif":false}},
"preview":{"images":[{"source":{"url":"https://preview.redd.it/x.jpg?auto=webp&amp;s=1","width":1,"height":2},"resolutions":[{"url":"https://preview.redd.it/x.jpg?width=108&amp;crop=smart","width":108,"height":60}],"variants":{},"id":"i"}],"enabled":false},
"edited":false,"created":1700000000.0,"permalink":"/r/test/comments/abc/t/","url":"https://v.redd.it/abc","is_video":true,"media":null}}],"before":null}}""")
put("reddit", "empty-children.json", '{"kind":"Listing","data":{"children":[]}}')
put("reddit", "wrong-types.json", '{"kind":1,"data":{"after":{},"dist":"1","children":[{"kind":"t3","data":{"permalink":123,"edited":1700000000.0,"gilded":"x","preview":[],"secure_media":"none","created":"now"}}]}}')
put("reddit", "children-null.json", '{"data":{"children":[null,{"data":null},{"data":{"permalink":"/r/x/\\u0000\\ud800 %zz"}}]}}')
put("reddit", "not-object.json", '[{"data":{"children":[{"data":{"permalink":"/a"}}]}}]')

put("truthsocial", "status.json", """{"id":"112233445566778899","created_at":"2024-05-01T12:34:56.789Z","in_reply_to_id":null,"sensitive":false,"spoiler_text":"","visibility":"public","language":"en",
"uri":"https://truthsocial.com/@user/112233445566778899","url":"https://truthsocial.com/@user/112233445566778899","content":"<p>hi <a href=\\"https://example.org/x\\">x</a></p>",
"account":{"id":"107780257626128497","username":"user","acct":"user","display_name":"U","locked":false,"bot":false,"discoverable":false,"group":false,"created_at":"2022-02-11T16:16:57.705Z","avatar":"https://static-assets-1.truthsocial.com/avatars/a.jpeg","header":"https://static-assets-1.truthsocial.com/h.jpeg","followers_count":1,"emojis":[],"fields":[]},
"media_attachments":[{"id":"1","type":"video","url":"https://static-assets-1.truthsocial.com/v.mp4","preview_url":"https://static-assets-1.truthsocial.com/p.jpg","external_video_id":"v4abcde","remote_url":null,"meta":{"colors":{"background":"#000"},"original":{"width":1,"height":2,"frame_rate":"30/1","duration":1.5,"bitrate":100},"small":{"width":1,"height":1,"size":"1x1","aspect":1.0}},"description":null,"blurhash":"x"},
{"id":"2","type":"image","external_video_id":""}],"mentions":[{"id":"1","username":"m","url":"https://truthsocial.com/@m","acct":"m"}],"tags":[],"card":null,"poll":null,"emojis":[]}""")
put("truthsocial", "lookup.json", """{"id":"107780257626128497","username":"realuser","acct":"realuser","display_name":"R","locked":false,"bot":false,"discoverable":null,"group":false,"created_at":"2022-02-11T16:16:57.705Z","note":"<p></p>","url":"https://truthsocial.com/@realuser","avatar":"https://static-assets-1.truthsocial.com/a.jpeg","followers_count":10,"last_status_at":"2024-05-01","pleroma":{"accepts_chat_messages":false},"emojis":[],"fields":[]}""")
put("truthsocial", "bad-time.json", '{"id":"1","created_at":"yesterday","media_attachments":[{"external_video_id":"x"}]}')
put("truthsocial", "wrong-types.json", '{"id":12,"created_at":null,"account":[],"media_attachments":{"0":{"external_video_id":1}},"mentions":null,"card":{"url":"https://example.org/card.png"}}')
put("truthsocial", "id-injection.json", '{"id":"../../../x?y=#\\u0000\\n ","media_attachments":[{"external_video_id":"../%2e%2e/\\ud800"},null]}')
put("truthsocial", "post.html", """<html><head><script type="application/json" id="initial-state">{"meta":{"domain":"truthsocial.com"},"media":"https://static-assets-1.truthsocial.com/x.png"}</script></head><body><div id="soapbox"></div><img src="/packs/logo.svg"></body></html>""")

put("ina", "asset.json", """{"id":"I00012345","title":"t","description":"d","dateOfBroadcast":"1969-07-21T00:00:00+02:00","type":"video","duration":120,"categories":[],
"credits":[{"@context":{"@vocab":"https://apipartner.ina.fr/docs.jsonld#","hydra":"http://www.w3.org/ns/hydra/core#","name":"Credit/name","value":"Credit/value","attributes":"Credit/attributes"},"@type":"Credit","@id":"_:1","name":"n","value":"v","attributes":[{"@context":{"@vocab":"v","hydra":"h","key":"k","value":"v"},"@type":"Attribute","@id":"_:2","key":"k","value":"v"}]}],
"restrictions":[],"resourceUrl":"https://media.ina.fr/x/I00012345.mp4?token=abc","resourceThumbnail":"https://cdn-hub.ina.fr/notice/690x517/0e0/I00012345.jpeg","restrictedBroadcastCountries":[],
"embedUrl":"/embed/I00012345/1/1b0bd203fbcd702f9bc9b10ac3d0fc21/wide/0","allowEmbed":true,"ratio":"4:3","collectionTitle":"c","isOnline":true,"allowAds":false,"typeMedia":"video","hideLogo":false,"uri":"https://www.ina.fr/ina-eclaire-actu/video/i00012345/x","advertisingAsset":false}""")
put("ina", "bad-date.json", '{"id":"I1","dateOfBroadcast":"21/07/1969","resourceUrl":"https://media.ina.fr/a.mp4"}')
put("ina", "wrong-types.json", '{"id":1,"duration":"long","credits":{"@context":"x"},"resourceUrl":["https://media.ina.fr/a.mp4"],"embedUrl":null,"uri":{}}')
put("ina", "empty.json", "{}")
put("ina", "hostile-urls.json", '{"dateOfBroadcast":"0000-01-01T00:00:00Z","resourceUrl":"\\"\'//\\u0000","resourceThumbnail":"http://[::1","embedUrl":"@evil.example.org/\\ud800","uri":"javascript:alert(1)"}')

total = 0
for d, _, fs in os.walk(HERE):
    for f in fs:
        total += os.path.getsize(os.path.join(d, f))
print("corpus bytes:", total)
