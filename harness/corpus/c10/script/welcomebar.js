
	/* <![CDATA[ */
	var welcomebar_frontjs = {"ajaxurl":"http:\/\/fakeurl.invalid\/wp-admin\/admin-ajax.php","days":"Days","hours":"Hours","minutes":"Minutes","seconds":"Seconds","ajax_nonce":"c35d389da5"};
	/* ]]> */
	