#!/usr/bin/env python3
"""Sensitivity helper: apply one mutation (exact string replacement, or a patch file) to a scratch worktree of /repo
outside /repo and /verif, run a check against it, report, and remove the worktree and its build output.

  sens.py <ID> <label> --replace <file> <old> <new> [--replace ...] [--tier quick|thorough] [--only unit] [--onlyfiles regex]
  sens.py <ID> <label> --patch <diff file> [...]

Prints one line:  SENS <ID> <label>: CAUGHT|MISSED|BROKEN (rc=…, wall) and the first VIOLATION message.
"""
import os
import shutil
import subprocess
import sys
import time

VERIF = os.path.dirname(os.path.dirname(os.path.abspath(__file__)))


def main():
    a = sys.argv[1:]
    pid, label = a[0], a[1]
    i = 2
    repls, patches, tier, only, onlyfiles, seed = [], [], "quick", None, None, "1"
    while i < len(a):
        if a[i] == "--replace":
            repls.append((a[i + 1], a[i + 2], a[i + 3])); i += 4
        elif a[i] == "--patch":
            patches.append(a[i + 1]); i += 2
        elif a[i] == "--tier":
            tier = a[i + 1]; i += 2
        elif a[i] == "--only":
            only = a[i + 1]; i += 2
        elif a[i] == "--onlyfiles":
            onlyfiles = a[i + 1]; i += 2
        elif a[i] == "--seed":
            seed = a[i + 1]; i += 2
        else:
            print("bad arg", a[i]); return 2
    wt = "/tmp/sens-%s-%s-%d" % (pid, label, os.getpid())
    for attempt in range(20):
        r = subprocess.run(["git", "-C", "/repo", "worktree", "add", "--detach", wt, "HEAD"], stdout=subprocess.DEVNULL, stderr=subprocess.PIPE, text=True)
        if r.returncode == 0:
            break
        time.sleep(0.5 + attempt * 0.3)  # concurrent worktree operations take a lock
    else:
        print("SENS %s %s: BROKEN (cannot create worktree: %s)" % (pid, label, r.stderr.strip())); return 2
    try:
        # uncommitted hook/fix changes of /repo are part of "the current tree": carry them over
        d = subprocess.run(["git", "-C", "/repo", "diff", "HEAD"], stdout=subprocess.PIPE).stdout
        if d.strip():
            subprocess.run(["git", "-C", wt, "apply"], input=d, check=True)
        for f, old, new in repls:
            p = os.path.join(wt, f)
            s = open(p).read()
            if old not in s:
                print("SENS %s %s: BROKEN (pattern not found in %s)" % (pid, label, f)); return 2
            open(p, "w").write(s.replace(old, new, 1))
        for pf in patches:
            r = subprocess.run(["git", "-C", wt, "apply", os.path.abspath(pf)], stderr=subprocess.PIPE)
            if r.returncode != 0:
                # the tree moved on since the patch was written (hook lines added nearby): apply with fuzz
                r = subprocess.run(["patch", "-p1", "-F3", "-s", "-i", os.path.abspath(pf)], cwd=wt, stdout=subprocess.PIPE, stderr=subprocess.STDOUT, text=True)
                if r.returncode != 0:
                    print("SENS %s %s: BROKEN (patch does not apply: %s)" % (pid, label, r.stdout[-300:])); return 2
        env = dict(os.environ, VERIF_REPO=wt, VERIF_SEED=seed)
        if onlyfiles:
            env["VERIF_ONLY_FILES"] = onlyfiles
        cmd = [os.path.join(VERIF, "check"), pid, "--tier", tier]
        if only:
            cmd += ["--only", only]
        t0 = time.time()
        p = subprocess.run(cmd, cwd=VERIF, env=env, stdout=subprocess.PIPE, stderr=subprocess.PIPE, text=True)
        wall = time.time() - t0
        viol = [l for l in p.stdout.splitlines() if l.startswith("VIOLATION")]
        verdict = "CAUGHT" if p.returncode == 1 and viol else ("MISSED" if p.returncode == 0 else "BROKEN")
        print("SENS %s %s: %s (rc=%d, %.0fs)" % (pid, label, verdict, p.returncode, wall))
        err = p.stderr.splitlines()
        for k, l in enumerate(err):
            if l.startswith("  >> "):
                print("   " + l.strip()[:300])
                break
        if verdict == "BROKEN":
            print("\n".join(err[-15:]))
    finally:
        subprocess.run(["git", "-C", "/repo", "worktree", "remove", "--force", wt], stdout=subprocess.DEVNULL, stderr=subprocess.DEVNULL)
        shutil.rmtree(wt, ignore_errors=True)
        import hashlib
        suf = "-" + hashlib.sha1(os.path.realpath(wt).encode()).hexdigest()[:8]
        for d in os.listdir(os.path.join(VERIF, "work")):
            if suf in d:
                shutil.rmtree(os.path.join(VERIF, "work", d), ignore_errors=True)
    return 0


if __name__ == "__main__":
    sys.exit(main())
