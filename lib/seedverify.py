#!/usr/bin/env python3
"""Confirm a seeded change delivered by a sub-agent and file it under /verif/seeded/<name>/.

  seedverify.py <agent worktree> <name> [--full-suite]

In a fresh scratch worktree of /repo HEAD (outside /repo and /verif, removed afterwards):
  1. the patch applies and `go build ./...` succeeds
  2. the existing tests of the touched packages (or the whole suite with --full-suite) pass with the change
  3. the demonstration fails with the change
  4. the demonstration passes without the change
Then copies patch.diff (re-diffed against the current HEAD), the demo and meta.json (plus the confirmation record).
"""
import json
import os
import shutil
import subprocess
import sys
import time

VERIF = os.path.dirname(os.path.dirname(os.path.abspath(__file__)))
ENV = dict(os.environ, GOFLAGS="-mod=mod", GOPROXY="off")


def sh(cmd, cwd, timeout=1800):
    p = subprocess.run(cmd, cwd=cwd, shell=True, env=ENV, stdout=subprocess.PIPE, stderr=subprocess.STDOUT, text=True, timeout=timeout)
    return p.returncode, p.stdout


def main():
    src, name = sys.argv[1], sys.argv[2]
    full = "--full-suite" in sys.argv
    meta = json.load(open(os.path.join(src, "_mutant", "meta.json")))
    wt = "/tmp/seedchk-%s-%d" % (name, os.getpid())
    subprocess.run(["git", "-C", "/repo", "worktree", "add", "--detach", wt, "HEAD"], check=True, stdout=subprocess.DEVNULL, stderr=subprocess.DEVNULL)
    rec = {"checked_at_repo_head": subprocess.run(["git", "-C", "/repo", "log", "--format=%h", "-1"], capture_output=True, text=True).stdout.strip()}
    try:
        patch = os.path.join(src, "_mutant", "patch.diff")
        r = subprocess.run(["git", "-C", wt, "apply", patch], stderr=subprocess.PIPE)
        if r.returncode != 0:
            r = subprocess.run(["patch", "-p1", "-F3", "-s", "-i", patch], cwd=wt)
            if r.returncode != 0:
                print("patch does not apply"); return 1
        # re-diff against the current HEAD so that the stored patch applies cleanly with git apply
        newdiff = subprocess.run(["git", "-C", wt, "diff"], capture_output=True, text=True).stdout
        for f in [l for l in subprocess.run(["git", "-C", wt, "status", "--porcelain"], capture_output=True, text=True).stdout.splitlines() if l.endswith((".orig", ".rej"))]:
            os.remove(os.path.join(wt, f[3:]))
        rc, out = sh("go build ./...", wt)
        rec["build"] = rc == 0
        if rc != 0:
            print(out[-2000:]); return 1
        pkgs = sorted({"./" + os.path.dirname(f) for f in meta.get("files", []) if f.endswith(".go")})
        tcmd = "go test -vet=off -count=1 ./..." if full else "go test -vet=off -count=1 " + " ".join(pkgs)
        t0 = time.time()
        rc, out = sh(tcmd, wt, timeout=3000)
        if rc != 0:
            # wall-clock based upstream tests flake on a loaded machine: retry once
            rc, out = sh(tcmd, wt, timeout=3000)
        rec["existing_tests_cmd"], rec["existing_tests_pass"], rec["existing_tests_s"] = tcmd, rc == 0, round(time.time() - t0)
        if rc != 0:
            print(out[-3000:]); return 1
        # demo in place
        demo_dir = os.path.join(src, "_mutant", "demo")
        demo_cmd = meta["demo_cmd"]
        placed = []
        for root, _, files in os.walk(src):
            if "/_mutant" in root or "/.git" in root:
                continue
            for fn in files:
                if fn in os.listdir(demo_dir) and fn.endswith(".go"):
                    rel = os.path.relpath(os.path.join(root, fn), src)
                    os.makedirs(os.path.dirname(os.path.join(wt, rel)), exist_ok=True)
                    shutil.copy(os.path.join(root, fn), os.path.join(wt, rel))
                    placed.append(rel)
        if not placed and "cp " not in demo_cmd:
            # the agent renamed the demo when copying it in place: put it next to the first touched source file
            ddir = os.path.dirname([f for f in meta.get("files", []) if f.endswith(".go")][0])
            for fn in os.listdir(demo_dir):
                if fn.endswith(".go"):
                    shutil.copy(os.path.join(demo_dir, fn), os.path.join(wt, ddir, "zz_seeded_" + fn))
                    placed.append(os.path.join(ddir, "zz_seeded_" + fn))
        os.makedirs(os.path.join(wt, "_mutant"), exist_ok=True)
        shutil.copytree(demo_dir, os.path.join(wt, "_mutant", "demo"), dirs_exist_ok=True)
        rc1, out1 = sh(demo_cmd, wt, timeout=1200)
        rec["demo_fails_with_change"] = rc1 != 0
        open(os.path.join(wt, "_mutant_new.diff"), "w").write(newdiff)
        subprocess.run(["git", "-C", wt, "apply", "-R", os.path.join(wt, "_mutant_new.diff")], check=True)
        rc2, out2 = sh(demo_cmd, wt, timeout=1200)
        rec["demo_passes_without_change"] = rc2 == 0
        rec["demo_placed_at"] = placed
        ok = rec["build"] and rec["existing_tests_pass"] and rec["demo_fails_with_change"] and rec["demo_passes_without_change"]
        print(json.dumps(rec, indent=1))
        if not ok:
            print("--- with change:\n", out1[-1500:], "\n--- without:\n", out2[-1500:])
            return 1
        dest = os.path.join(VERIF, "seeded", name)
        shutil.rmtree(dest, ignore_errors=True)
        os.makedirs(dest)
        open(os.path.join(dest, "patch.diff"), "w").write(newdiff)
        shutil.copytree(demo_dir, os.path.join(dest, "demo"))
        meta["confirmed_by_lead"] = rec
        meta["what_was_run"] = ["git apply patch.diff in a scratch worktree of /repo HEAD", "go build ./...", tcmd, demo_cmd + "  (fails)", "git apply -R; " + demo_cmd + "  (passes)"]
        json.dump(meta, open(os.path.join(dest, "meta.json"), "w"), indent=1)
        print("filed under", dest)
        return 0
    finally:
        subprocess.run(["git", "-C", "/repo", "worktree", "remove", "--force", wt], stdout=subprocess.DEVNULL, stderr=subprocess.DEVNULL)
        shutil.rmtree(wt, ignore_errors=True)


if __name__ == "__main__":
    sys.exit(main())
