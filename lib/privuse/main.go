// privuse lists the unexported package-level identifiers (and unexported fields / methods) of the code under test that
// the harness files refer to: each one is a place where a change of private structure breaks the harness build instead
// of being judged by a check. Dev aid, not part of any check:
//
//	cd /verif/lib/privuse && GOFLAGS=-mod=mod GOPROXY=off go run . <modfile> <overlay.json> ./internal/pkg/stats ...
package main

import (
	"encoding/json"
	"fmt"
	"go/ast"
	"go/types"
	"os"
	"sort"
	"strings"

	"golang.org/x/tools/go/packages"
)

func main() {
	modfile, ovPath, pats := os.Args[1], os.Args[2], os.Args[3:]
	var ov struct{ Replace map[string]string }
	b, _ := os.ReadFile(ovPath)
	if err := json.Unmarshal(b, &ov); err != nil {
		panic(err)
	}
	overlay := map[string][]byte{}
	harness := map[string]bool{}
	for dst, src := range ov.Replace {
		c, err := os.ReadFile(src)
		if err != nil {
			panic(err)
		}
		overlay[dst] = c
		harness[dst] = true
	}
	cfg := &packages.Config{Mode: packages.NeedName | packages.NeedFiles | packages.NeedSyntax | packages.NeedTypes | packages.NeedTypesInfo | packages.NeedImports | packages.NeedDeps,
		Dir: os.Getenv("VERIF_REPO_DIR"), Tests: true, Overlay: overlay, BuildFlags: []string{"-tags=verif", "-modfile=" + modfile}}
	pkgs, err := packages.Load(cfg, pats...)
	if err != nil {
		panic(err)
	}
	for _, p := range pkgs {
		if !strings.HasSuffix(p.ID, ".test]") && !strings.Contains(p.ID, "[") {
			continue
		}
		uses := map[string][]string{}
		for _, f := range p.Syntax {
			fn := p.Fset.Position(f.Pos()).Filename
			if !harness[fn] {
				continue
			}
			ast.Inspect(f, func(n ast.Node) bool {
				id, ok := n.(*ast.Ident)
				if !ok {
					return true
				}
				obj := p.TypesInfo.Uses[id]
				if obj == nil || obj.Pkg() == nil || obj.Exported() || obj.Pkg().Path() != p.Types.Path() {
					return true
				}
				def := p.Fset.Position(obj.Pos()).Filename
				if harness[def] || def == "" {
					return true
				}
				kind := "ident"
				switch o := obj.(type) {
				case *types.Var:
					if o.IsField() {
						kind = "field"
					} else if o.Parent() != p.Types.Scope() {
						return true // local variable of the file under test? cannot be: skip
					} else {
						kind = "var"
					}
				case *types.Func:
					kind = "func"
					if sig, ok := o.Type().(*types.Signature); ok && sig.Recv() != nil {
						kind = "method"
					}
				case *types.TypeName:
					kind = "type"
				case *types.Const:
					kind = "const"
				}
				key := kind + " " + obj.Name()
				short := fn[strings.LastIndex(fn, "/")+1:]
				if !contains(uses[key], short) {
					uses[key] = append(uses[key], short)
				}
				return true
			})
		}
		if len(uses) == 0 {
			continue
		}
		fmt.Println("==", p.ID)
		keys := make([]string, 0, len(uses))
		for k := range uses {
			keys = append(keys, k)
		}
		sort.Strings(keys)
		for _, k := range keys {
			fmt.Printf("  %-40s %s\n", k, strings.Join(uses[k], " "))
		}
	}
}

func contains(s []string, x string) bool {
	for _, y := range s {
		if y == x {
			return true
		}
	}
	return false
}
