#!/usr/bin/env python3
"""Re-run every seeded change under /verif/seeded through its property's quick check (lib/sens.py) and write the table
seeded/RESULTS.md. Usage: seeded_regress.py [--jobs N] [--filter regex]

Every run happens in a scratch worktree of /repo under /tmp that sens.py removes again; /repo is never touched."""
import json
import os
import re
import subprocess
import sys
from concurrent.futures import ThreadPoolExecutor

VERIF = os.path.dirname(os.path.dirname(os.path.abspath(__file__)))
OUTSIDE = {"C11-6": "outside the quantifier (see DESIGN 7.6)", "C14-11": "outside the statement: a worker starting during a pause (see DESIGN 7.6)",
           "C12-12": "outside the statement: duplicate insert is fatal in the unchanged code (see DESIGN 7.6)",
           "C03-12": "thorough tier only (VERIF_N_C03_LONG_IDLE=1)",
           "C04-13": "outside the statement: second lq.Start inside one process (see DESIGN 7.6)",
           "C06-13": "not caught: reddit-specific code path (see DESIGN 7.6)"}


def run(name):
    pid = name.split("-")[0]
    cmd = ["python3", os.path.join(VERIF, "lib", "sens.py"), pid, "seeded-" + name, "--patch", os.path.join(VERIF, "seeded", name, "patch.diff")]
    p = subprocess.run(cmd, cwd=VERIF, stdout=subprocess.PIPE, stderr=subprocess.STDOUT, text=True)
    lines = p.stdout.strip().splitlines()
    verdict, msg = "BROKEN", ""
    for l in lines:
        m = re.match(r"SENS \S+ \S+: (\w+) \(rc=\S+ (\d+)s\)", l)
        if m:
            verdict = m.group(1) + " %ss" % m.group(2)
        if l.strip().startswith(">>") and not msg:
            msg = l.strip()[3:200]
    return name, verdict, msg


def main():
    a = sys.argv[1:]
    jobs, flt = 2, None
    i = 0
    while i < len(a):
        if a[i] == "--jobs":
            jobs = int(a[i + 1]); i += 2
        elif a[i] == "--filter":
            flt = a[i + 1]; i += 2
        else:
            i += 1
    names = sorted(d for d in os.listdir(os.path.join(VERIF, "seeded")) if os.path.isdir(os.path.join(VERIF, "seeded", d)))
    if flt:
        names = [n for n in names if re.search(flt, n)]
    rows = []
    with ThreadPoolExecutor(jobs) as ex:
        for name, verdict, msg in ex.map(run, names):
            summ = json.load(open(os.path.join(VERIF, "seeded", name, "meta.json"))).get("summary", "")[:160].replace("|", "/").replace("\n", " ")
            note = OUTSIDE.get(name, "")
            rows.append((name, verdict, msg.replace("|", "/"), summ, note))
            print(name, verdict, msg[:120], flush=True)
    if not flt:
        with open(os.path.join(VERIF, "seeded", "RESULTS.md"), "w") as f:
            f.write("# Seeded changes against the quick checks (last full regression run)\n\n")
            f.write("| seeded | verdict | first violation message | what the change does |\n|---|---|---|---|\n")
            for name, verdict, msg, summ, note in rows:
                f.write("| %s | %s%s | %s | %s |\n" % (name, verdict, (" - " + note) if note else "", msg, summ))
            caught = sum(1 for r in rows if r[1].startswith("CAUGHT"))
            f.write("\n%d of %d caught.\n" % (caught, len(rows)))
    return 0


if __name__ == "__main__":
    sys.exit(main())
