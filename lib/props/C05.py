"""C05 registry entry."""

PROP = {
    "id": "C05",
    "level": "exploration",
    "technique": "property-based testing (rapid) of the real preprocess() on generated item trees under generated operator filters installed through the real GenerateCrawlConfig, against an independent scope predicate evaluated on the request actually built; plus the whole real pipeline on a simulated network",
    "level_text": ("Generated cases = 1..3 item trees in the shapes the pipeline produces (fresh seed; redirect target under a GotRedirected parent, also two deep and under an asset; "
                   "1..6 assets under a GotChildren parent, also under a redirect target and under an asset), built with models.NewItem/AddChild as the sources and postprocessItem do, whose working-depth URL "
                   "texts come from a hostile URL grammar (schemes, userinfo, IDN/IP/dot-less/loopback hosts, ports, escapes, quotes, white space, byte mutations), from well-formed URLs in non-canonical "
                   "spellings (upper-case host/scheme, default port, userinfo, fragment) and from relative references; filter sets (include-host, include-string, exclude-host, exclude-string, an exclusion "
                   "FILE of 1..3 regular expressions written to disk) are drawn mostly from pieces of those URLs and installed by the real config.GenerateCrawlConfig(), so the default exclusions "
                   "(archive.org, archive-it.org) and the regex compilation are the real ones. The real preprocess() runs with seencheck off. Oracle: every node of the tree that carries a request "
                   "afterwards satisfies the statement's predicate, written by the harness with its own string logic and evaluated on req.URL (both on the text split by the harness and on the host net/url "
                   "reports): scheme http(s); host not localhost/127.0.0.1 and with a dot; host free of archive.org/archive-it.org and of every exclude-host element; text free of every exclude-string; "
                   "no exclusion regex (compiled by the harness from the same lines) matches; when an include filter is given, host contains an include-host element or text contains an include-string element. "
                   "The pipeline facet checks the same predicate on every request the simulated network receives."),
    "level_note": "Exploration: the URL x filter x tree space is sampled. Filter elements are non-empty ASCII strings, regex lines are valid RE2 (an invalid line stops the crawler at start-up). The fraction of in-scope URLs that did get a request is recorded as a coverage class (in-scope:requested / in-scope:total), not as an alarm; 'localhost.' and other spellings outside the statement's letter are not demanded.",
    "rule": ("rapid-generated (filter set, 1..3 trees) cases; non-trivial = at least one node was rejected by a filter clause (default exclusion, exclude-host, exclude-string, exclusion regex, include miss) "
             "and at least one node left with a request; classes = (URL class | tree position | clause that decided); distinct = distinct case JSON (64-bit hash)"),
    "assumptions": [
        "exclude/include patterns are non-empty ASCII substrings of canonical hosts / URL texts (how the flags match); Unicode spellings of an excluded IDN host are outside the domain",
        "ancestors of the working-depth nodes carry well-formed URLs (they passed through the pipeline earlier)",
        "the request the archiver sends is the one attached by preprocess() (req.URL); removed nodes never reach the archiver",
    ],
    "units": [
        {"name": "c05", "pkg": "./internal/pkg/preprocessor", "run": "^TestVerif_C05_", "kind": "rapid",
         "facets": ["C05/preprocess"],
         "checks": (25000, 500000), "shards": (2, 16), "timeout": (600, 3000)},
    ],
}

import os, importlib.util
_spec = importlib.util.spec_from_file_location("c01", os.path.join(os.path.dirname(os.path.abspath(__file__)), "C01.py"))
_m = importlib.util.module_from_spec(_spec); _spec.loader.exec_module(_m)
PROP["units"].append(dict(_m.SIM_UNIT))
