"""C09 registry entry (see lib/registry.py for the field reference)."""

PROP = {
    "id": "C09",
    "level": "exploration",
    "technique": "property-based testing (rapid): determinism / idempotence / shape invariants on a hostile URL grammar, differential test against an RFC 3986 reference resolver and an order-preserving query decoder on a well-formed grammar",
    "level_text": "Generated-input search with shrinking: every accepted canonical string is checked for determinism over 8 fresh evaluations, idempotence, http(s)/dotted-host/no-fragment shape, and (well-formed grammar) equality with an independent RFC 3986 resolution and with the input's ordered parameter list. Exploration, not proof: the URL space is infinite and sampled.",
    "level_note": "Trusts the harness's RFC 3986 resolver (self-tested against net/url in the same run) and that rapid's generators reach the relevant shapes (class histogram in the evidence). goada/net-url internals are exercised only through NormalizeURL and URL.String.",
    "rule": ("rapid-generated (URL text, optional parent) pairs from a hostile URL grammar (schemes, userinfo, IDN/IP/dot-less hosts, ports, "
             "dot segments, escapes, repeated/value-less query keys, fragments, quotes, whitespace, byte mutations) and from a well-formed "
             "sub-grammar (RFC 3986 ∩ WHATWG) for the resolution/query facets; a case is non-trivial when the input has >= 2 query parameters, "
             "dot segments or an IDN host; distinct = distinct case JSON (64-bit hash) per facet"),
    "assumptions": [
        "the canonical string is URL.String() after preprocessor.NormalizeURL, evaluated on fresh objects",
        "resolution oracle = own RFC 3986 resolver, self-tested against net/url on the same grammar; forms where RFC 3986 and WHATWG disagree are not generated",
    ],
    "units": [
        {"name": "c09", "pkg": "./internal/pkg/preprocessor", "run": "^TestVerif_C09_", "kind": "rapid",
         "facets": ["C09/determinism", "C09/idempotence", "C09/shape", "C09/resolution", "C09/query-order", "C09/shared-parent"],
         "checks": (20000, 400000), "shards": (2, 16), "timeout": (600, 3000)},
    ],
}
