"""C10 registry entry (see lib/registry.py for the field reference)."""

_PKG = "./internal/pkg/postprocessor"
_VERDICT = "|^TestVerif_C10_ZzVerdict$"

# (unit suffix, test-name part, fuzz target, facet)
_TARGETS = [
    ("chain", "Chain", "FuzzVerif_C10_Chain"),
    ("html", "HTML", "FuzzVerif_C10_HTML"),
    ("json", "JSON", "FuzzVerif_C10_JSON"),
    ("xml", "XML", "FuzzVerif_C10_XML"),
    ("s3", "S3", "FuzzVerif_C10_S3"),
    ("m3u8", "M3U8", "FuzzVerif_C10_M3U8"),
    ("pdf", "PDF", "FuzzVerif_C10_PDF"),
    ("script", "Script", "FuzzVerif_C10_Script"),
    ("linkheader", "LinkHeader", "FuzzVerif_C10_LinkHeader"),
    ("reddit", "Reddit", "FuzzVerif_C10_Reddit"),
    ("truthsocial", "Truthsocial", "FuzzVerif_C10_Truthsocial"),
    ("ina", "INA", "FuzzVerif_C10_INA"),
]
_FACETS = ["C10/" + t[0] for t in _TARGETS]

# rapid mutation units: one process group per cost class so that the quick tier is bounded by the slowest target
# (unit, tests, facets, checks per shard (quick, thorough), shards (quick, thorough))
_GROUPS = [
    ("c10-mut-chain", ["Chain"], ["C10/chain"], (8000, 10000), (2, 16)),
    # HTML bodies cost ~15 ms of CPU a case (Zeno runs the strict link regex, ~1 MB/s, over every text body)
    ("c10-mut-html", ["HTML"], ["C10/html"], (3000, 5000), (4, 16)),
    ("c10-mut-script", ["Script"], ["C10/script"], (3000, 5000), (4, 16)),
    ("c10-mut-pdf", ["PDF"], ["C10/pdf"], (4000, 6000), (4, 16)),
    ("c10-mut-doc", ["JSON", "XML"], ["C10/json", "C10/xml"], (8000, 10000), (2, 16)),
    ("c10-mut-list", ["S3", "M3U8", "LinkHeader"], ["C10/s3", "C10/m3u8", "C10/linkheader"], (8000, 8000), (2, 16)),
    ("c10-mut-site", ["Reddit", "Truthsocial", "INA"], ["C10/reddit", "C10/truthsocial", "C10/ina"], (8000, 6000), (2, 16)),
]

_units = [
    # (a) committed regression corpus + hostile constants, plain test
    {"name": "c10-corpus", "pkg": _PKG, "run": "^TestVerif_C10_(Corpus|CodecSelfTest)$" + _VERDICT, "kind": "plain",
     "facets": [], "shards": (1, 1), "timeout": (900, 1800)},
]
for _name, _tests, _facets, _checks, _shards in _GROUPS:
    _units.append({"name": _name, "pkg": _PKG, "run": "^TestVerif_C10_Mut_(%s)$" % "|".join(_tests) + _VERDICT, "kind": "rapid",
                   "facets": _facets, "checks": _checks, "shards": _shards, "shrinktime": (30, 60),
                   "timeout": (1500, 3000)})
# (c) native coverage-guided fuzzing, thorough tier only (fuzztime quick = 0: the unit is then a plain run of the seeds)
for _t, _n, _f in _TARGETS:
    _units.append({"name": "c10-fuzz-" + _t, "pkg": _PKG, "run": "^%s$" % _f, "kind": "fuzz", "fuzz_target": _f,
                   "facets": ["C10/" + _t], "fuzz_case": {"target": _t}, "fuzztime": (0, 90), "fuzz_workers": 2, "shards": (0, 1),
                   "timeout": (600, 900)})

# strict sub-checks of the open known findings (run only while the finding is listed as open)
for _key, _timeout in [
    ("C10-extractor.PDF-pdfcpu-stackoverflow-pagetree-cycle", 300),
    ("C10-extractor.PDF-pdfcpu-hang-nested-dict", 300),
    ("C10-extractor.PDF-pdfcpu-hang-int-overflow", 300),
    ("C10-extractor.PDF-pdfcpu-oom-huge-length", 300),
    ("C10-extractor.PDF-pdfcpu", 300),
    ("C10-extractor.M3U8-m3u8-memory-blowup", 600),
    ("C10-extractor.M3U8-m3u8", 300),
    ("C10-extractor.HTMLAssets-regexp-hang-nested-scripts", 600),
]:
    _tn = "".join(ch if ch.isalnum() else "_" for ch in _key[len("C10-"):])
    _units.append({"name": "c10-kf-" + _tn.lower(), "pkg": _PKG, "run": "^TestVerifKF_C10_%s$" % _tn, "kind": "kf", "finding": _key,
                   "facets": [], "shards": (1, 1), "timeout": (_timeout, _timeout)})

PROP = {
    "id": "C10",
    "level": "exploration",
    "technique": ("fuzzing of the real post-processing chain and of every extractor in isolated test processes: replay of a committed seed corpus, "
                  "structure-aware mutation of corpus documents under rapid (quick), native coverage-guided fuzzing per target (thorough); "
                  "oracle inside the target = no panic (recover only to classify by call site) and no hang (watchdog, confirmed 3x with a 10x budget)"),
    "level_text": ("Generated-input search. One entry function turns bytes into (status, headers, item URL, depth/hops, switches, body), runs archiver.ProcessBody "
                   "on an http.Response carrying the bytes, then postprocessItem or one extractor / site-specific decoder, then NormalizeURL, String and NewRequest "
                   "on every URL produced. Exploration, not proof: the input space is infinite and sampled; coverage guidance only in the thorough tier."),
    "level_note": ("Trusts that the in-process chain stands for the worker goroutines (same functions, same arguments as archiver/postprocessor/preprocessor pass them); "
                   "logging is off (as in the repository's own tests), so formatting of log arguments is not exercised; memory exhaustion is bounded only by input size "
                   "(<= 256 KiB bodies under rapid, <= 1 MiB under the native engine); slowness below the watchdog is not a violation."),
    "rule": ("inputs = committed corpus documents (repository testdata, extractor-test samples, grafov/m3u8 and pdfcpu sample files, hand-written hostile documents), "
             "hostile constants built at run time (deep nesting, huge numbers, truncated tokens, unbalanced tags, BOMs, invalid UTF-8, very long attributes, JSON-in-string) "
             "and rapid / coverage-guided mutations of them (byte flips, truncation, chunk duplication, nesting amplification, token swaps and splices between documents, "
             "header / status / URL / depth / switch variations); a case is non-trivial when it reached an extractor body (not rejected by MIME sniffing or dispatch); "
             "distinct = distinct case JSON (64-bit hash) per target; classes record (content type, extractor reached, outcome ok/error)"),
    "assumptions": [
        "a response reaches the chain as an http.Response: 3-digit status, header values without CR/LF/NUL and without surrounding blanks",
        "the watchdog is 10 s of CPU time of the thread the case runs on (inputs <= 64 KiB; x k^2 for k x 64 KiB; wall-clock backstop 60x for blocked cases), so machine load cannot fake a hang; a timeout is reported only after three further timeouts with a 10x budget, otherwise the run is inconclusive (exit 2); a case that drives the process above 2 GiB resident memory is reported as a memory blow-up",
        "item trees above the item under test are built by the harness (0-4 ancestors, optional redirect parent) and checked with CheckConsistency before use",
    ],
    "units": _units,
}
