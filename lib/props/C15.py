"""C15 registry entry (see lib/registry.py for the field reference)."""

PROP = {
    "id": "C15",
    "level": "fault_enumeration",
    "technique": ("generated fault schedules against the real crawl-HQ producer/finisher/consumer goroutines under virtual time (testing/synctest) with an in-memory fake HQ as http.RoundTripper; "
                  "model-based stateful testing (rapid) of the local-queue client against real sqlite files; the real local-queue goroutines around real sqlite under virtual time; the outlink items themselves (via, hops) as the real postprocessor builds them, differentially against the reference crawler of the simulated-network pipeline harness"),
    "level_text": ("HQ side: the real hq.producer(), finisher() and consumer() goroutines run in a synctest bubble around a gocrawlhq.Client (built as gocrawlhq.Init builds it, 5 s timeout, no websocket) whose "
                   "transport is a fake crawl HQ holding the reference server state (rows fresh/claimed/deleted, every Add entry it processed, every id it answered 204 for). Each POST/DELETE/GET /urls call "
                   "is answered by the next entry of a generated per-endpoint fault schedule: ok, slow (3 s), 500/502/503/504, connection reset, no answer until the client's timeout, answer lost after the "
                   "server processed the call (Add/Delete only); bursts of 1..10, then healthy. The harness plays the finisher stage: outlink items (texts from the hostile URL grammar plus Latin-1 query bytes, "
                   "colliding texts, via from a pool or hostile, hops 0..6) are pushed on the produce channel in bursts below/at/above --hq-batch-size separated by virtual pauses around the 5 s ticker; seeds "
                   "the real consumer inserts into the real reactor are read from its output, marked finished and pushed on the finish channel, plus finished seeds that did not come from HQ (with children). "
                   "Oracle at quiescence (oracle holds and HQ saw only empty feed polls for 12 virtual s; at most 30 virtual min) with everything still running: multiset of (value, via, path) HQ processed "
                   "contains every produced (raw, via, 'L' x hops) at least as often as produced, value byte-identical; every HQ row was fetched, came back from the reactor exactly once as a seed with "
                   "Raw == value, same via, hops == len(path) (texts that url.ParseRequestURI rejects go straight to the finish channel instead), and was acknowledged by a DELETE carrying its id that "
                   "was answered 204; same for the foreign finished seeds; the client never broke the protocol (method, path, credentials, JSON bodies, non-empty batches, batch <= batch size). "
                   "hopsToPath/pathToHops are checked exhaustively for 0..255. "
                   "LQ side: generated sequences of Add (values colliding inside a call, with waiting, claimed and deleted rows; rarely with a cancelled context or an id that clashes with another row) / Get(limit) / "
                   "Delete(ids) / ResetURL(id) on the real LQClient; after every call the whole urls table is read back with plain SQL and compared with a reference map value -> (id, via, hops, status): one row per "
                   "distinct value, existing row untouched by a duplicate, Get returns exactly min(limit, fresh) fresh rows with the added id/via/hops and never a claimed row, Delete removes exactly the ids, "
                   "Reset frees exactly the id, Add never returns nil while a new value has no row. Pipeline facet: the real lq producer/finisher/consumer goroutines and the real reactor under virtual time around "
                   "the same real database: with the pipeline held, produced outlinks (colliding texts, bulk bursts > 100) leave exactly one row per distinct text with a produced via/hops; released, every row comes "
                   "back as a seed with identical text/via/hops exactly once and its row is deleted once finished (table empty); produced again, every text comes back again."),
    "level_note": ("Fault sequences are generated, not exhaustively enumerated; faults are whole-call outcomes at the HTTP client boundary (no partial bodies, no malformed JSON answers, no 4xx). --hq-batch-concurrency is "
                   "fixed at 1 (the default). Get answers are never lost after processing (that strands rows inside HQ, not in the crawler). Real goroutines under the synctest scheduler: interleavings inside "
                   "one virtual instant are the runtime's. A batch still buffered at stop time, and stop itself, are out of scope (the statement covers a crawler that keeps running); the harness drains the finish channel "
                   "while it stops the goroutines through the real Stop(). The oracle accepts, next to the byte-identical text, the spelling in which bytes that are not valid UTF-8 are percent-encoded (JSON cannot carry "
                   "them). The HQ path convention (one 'L' per hop) is taken as given. sqlite runs with PRAGMA synchronous=OFF in the harness (durability is C04's subject); sqlite errors other than constraint failures "
                   "and a cancelled context are not injected (the lq producer drops a batch whose Add fails; nothing in reach of this harness makes it fail)."),
    "rule": ("rapid-generated cases. C15/hq: 1..10 events, 0..40 outlinks, --workers in {1..30} (1..3 senders), --hq-batch-size 1..6, three fault lists of 0..3 segments (0..3 ok/slow, then a burst of 1..10 faults); "
             "non-trivial = at least one Add or Delete call failed from the client's point of view and the run still satisfied the oracle (a delivery needed a retry); distinct = distinct fault schedule (hash of the three lists). "
             "C15/lq-model: 1..25 operations; non-trivial = at least one Add hit a value that was already queued and at least one Get returned rows; distinct = distinct operation list. "
             "C15/lq-pipeline: non-trivial = colliding outlink texts and at least one seed through the reactor; distinct = distinct case. C15/hops-path: exhaustive 0..255."),
    "assumptions": [
        "virtual time (testing/synctest, go1.26.8): timers, tickers, time.Sleep and the HTTP client timeout inside the bubble run on the fake clock; a wait that outlasts 30 virtual minutes with a healthy HQ is a lost delivery",
        "the fake crawl HQ implements the protocol as the gocrawlhq v1.2.31 client speaks it: POST /api/projects/<p>/urls {urls,bypassSeencheck} -> 201, DELETE same path {localCrawls,urls} -> 204 (idempotent), GET ?size=n -> 200 [urls] | 204, POST /reset/<id> -> 200",
        "duplicates of a whole batch after a retry are allowed (answer lost after the server processed the call); the fake stores them as separate rows",
        "'already waiting in the local queue' = a row with that text exists (fresh or claimed); after its deletion the text may be queued again",
    ],
    "units": [
        {"name": "c15hq", "pkg": "./internal/pkg/source/hq", "run": "^TestVerif_C15_", "kind": "rapid", "toolchain": "go126",
         "facets": ["C15/hq", "C15/hops-path"], "checks": (1500, 6000), "shards": (4, 16), "timeout": (600, 3000)},
        # the same facet with the race detector in the thorough tier (a data race report is a violation); a token run in quick
        {"name": "c15hqrace", "pkg": "./internal/pkg/source/hq", "run": "^TestVerif_C15_HQ$", "kind": "rapid", "toolchain": "go126",
         "facets": ["C15/hq"], "checks": (50, 1500), "shards": (1, 8), "race": (False, True), "timeout": (600, 3000)},
        {"name": "c15kf1", "pkg": "./internal/pkg/source/hq", "run": "^TestVerifKF_C15_NonUTF8Outlink$", "kind": "kf", "toolchain": "go126",
         "finding": "C15-hq-non-utf8-outlink-mangled", "facets": [], "checks": (1, 1), "shards": (1, 1)},
        {"name": "c15lq", "pkg": "./internal/pkg/source/lq", "run": "^TestVerif_C15_LQModel$", "kind": "rapid", "toolchain": "go126",
         "facets": ["C15/lq-model"], "checks": (1000, 5000), "shards": (4, 16), "timeout": (600, 3000)},
        {"name": "c15lqvt", "pkg": "./internal/pkg/source/lq", "run": "^TestVerif_C15_LQPipeline$", "kind": "rapid", "toolchain": "go126",
         "facets": ["C15/lq-pipeline"], "checks": (300, 1200), "shards": (4, 16), "timeout": (600, 3000)},
    ],
}

# the outlink items themselves (via = parent canonical URL, hops = parent + 1, for links from anchors, Link headers and
# JSON documents) are built by the postprocessor: that end is observed in the simulated-network pipeline harness
import os, importlib.util
_spec = importlib.util.spec_from_file_location("c01", os.path.join(os.path.dirname(os.path.abspath(__file__)), "C01.py"))
_m = importlib.util.module_from_spec(_spec); _spec.loader.exec_module(_m)
PROP["units"].append(dict(_m.SIM_UNIT))
