"""C17 registry entry (see lib/registry.py for the field reference)."""

_FACETS = ["C17/burst", "C17/global", "C17/linearizable", "C17/concurrent-reset", "C17/rate-window", "C17/mean-window"]

PROP = {
    "id": "C17",
    "level": "exploration",
    "technique": "property-based testing (rapid) with real goroutines: generated per-goroutine scripts over counter / rate / mean / rateBucket and over the exported stats API, integer reference model at quiescence, interleaving-independent bounds on every mid-burst read, porcupine linearizability check of small timed histories; thorough tier repeats under the race detector",
    "level_text": "Generated-schedule search: 2-32 goroutines execute pre-generated plain-data scripts (incr/decr/add/read/per-key incr, repeat counts, Gosched points) released together by a spin barrier; after every phase the totals, per-key totals, gauges and means must equal the values computed from the scripts by integer arithmetic (mean: float64(sum)/float64(count), tolerance 0), every read taken during the burst must lie within bounds that hold for every interleaving, and histories of <= 20 operations are checked for linearizability against a sequential specification. Exploration, not proof: interleavings are chosen by the Go scheduler and the OS, lost updates are found with high probability, not certainty.",
    "level_note": "Covers the in-package facets only (stats objects and the exported stats API); that every stage worker really pairs its Incr with a deferred Decr is checked by the pipeline-level facet. Per-second rates are time dependent and only executed, never asserted. A mean read overlapping an add is not an atomic snapshot in the code as written (count and sum are separate atomics); the statement only speaks about the values after the burst, so mean histories are held to the per-field specification unless VERIF_STRICT=1 (./check C17 --strict).",
    "rule": ("rapid-generated cases = 1-3 phases x 2-32 goroutine scripts of 1-24 operations (mutators repeated up to 48 times) over one counter, one rate, "
             "one mean and one rateBucket with 1-6 status-code keys (C17/burst), over the exported methods of the global stats object (C17/global), or "
             "<= 20 operations over 2-4 goroutines on one object (C17/linearizable); resets only at quiescence between phases; a case is non-trivial when "
             ">= 2 goroutines touch the same counter / rate / mean / key in the same phase and at least one of them mutates it (so their operations can "
             "interleave); distinct = distinct script JSON (64-bit hash) per facet"),
    "assumptions": [
        "callers respect what production callers respect: Init() before use, a goroutine only decrements a gauge it incremented itself (Incr; defer Decr), exported methods step by 1, resets never overlap other operations (no production caller resets at all)",
        "a rate total is a lifetime total: rate.reset()/Reset() clear the per-second window only, so the model never lowers an expected total",
        "mean expectation float64(sum)/float64(count) with sum,count < 2^53 (exact conversions, correctly rounded division): bit-for-bit equality; Mean*Add(d) contributes d.Milliseconds()",
        "the logical clock of the linearizability facet is an atomic counter read immediately before and after each call, so recorded intervals contain the real ones",
    ],
    "units": [
        {"name": "c17", "pkg": "./internal/pkg/stats", "run": "^TestVerif_C17_", "kind": "rapid", "facets": _FACETS,
         "checks": (6000, 12000), "shards": (4, 16), "timeout": (600, 1800)},
        # thorough only: the same facets under the race detector. halt_on_error makes the process exit at the first
        # report, so the harness's in-flight journal names the case during which the race happened and the report is in
        # the output tail of the replay file.
        {"name": "c17race", "pkg": "./internal/pkg/stats", "run": "^TestVerif_C17_", "kind": "rapid", "facets": _FACETS,
         "race": (False, True), "checks": (0, 800), "shards": (0, 12), "timeout": (600, 1800),
         "env": {"GORACE": "halt_on_error=1"}},
        # strict reproduction of the proposed finding; runs only once known_findings.json lists it as open
        {"name": "c17kf-mean", "pkg": "./internal/pkg/stats", "run": "^TestVerifKF_C17_MeanReadTorn$", "kind": "kf",
         "finding": "C17-mean-read-torn", "facets": ["C17/linearizable"], "checks": (1, 1), "shards": (1, 1), "timeout": (300, 600)},
    ],
}

import os, importlib.util
_spec = importlib.util.spec_from_file_location("c01", os.path.join(os.path.dirname(os.path.abspath(__file__)), "C01.py"))
_m = importlib.util.module_from_spec(_spec); _spec.loader.exec_module(_m)
PROP["units"].append(dict(_m.SIM_UNIT))
